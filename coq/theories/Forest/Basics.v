(* Elementary facts about the value table, its histogram and preimage_gap. *)
From Coq Require Import ZArith List Bool Lia.
From CSS Require Import Base.PyList Forest.Spec Forest.Model.
Import ListNotations.
Open Scope Z_scope.

Lemma getf_extend f m c : getf (extend f m) c = getf f c.
Proof.
  unfold getf, extend. destruct (Nat.lt_ge_cases c (length f)) as [H|H].
  - rewrite app_nth1; auto.
  - rewrite app_nth2 by lia. rewrite (nth_overflow f) by lia.
    destruct (Nat.lt_ge_cases (c - length f) (S m - length f)) as [H1|H1].
    + rewrite nth_repeat. reflexivity.
    + rewrite nth_overflow; auto. rewrite repeat_length; lia.
Qed.

Lemma length_extend f m : length (extend f m) = Nat.max (length f) (S m).
Proof. unfold extend. rewrite app_length, repeat_length. lia. Qed.

Lemma length_upd f c x : length (upd f c x) = length f.
Proof. apply set_nth_length. Qed.

Lemma getf_upd_same f c x : (c < length f)%nat -> getf (upd f c x) c = x.
Proof.
  intros H. unfold getf, upd.
  pose proof (nth_error_set_nth_same f c x H) as E.
  apply nth_error_nth with (d := Some 0) in E. exact E.
Qed.

Lemma getf_upd_other f c c' x : c <> c' -> getf (upd f c x) c' = getf f c'.
Proof.
  intros H. unfold getf, upd.
  pose proof (nth_error_set_nth_other f c c' x H) as E.
  destruct (nth_error f c') as [y|] eqn:Ey.
  - rewrite (nth_error_nth _ _ _ E), (nth_error_nth _ _ _ Ey). reflexivity.
  - rewrite !nth_overflow; auto.
    + apply nth_error_None; auto.
    + apply nth_error_None in E. auto.
Qed.

Lemma getf_out f c : (length f <= c)%nat -> getf f c = Some 0.
Proof. intros H. unfold getf. apply nth_overflow; auto. Qed.

Lemma extend_key_getf f r c : getf (extend_key f r) c = getf f c.
Proof.
  unfold extend_key.
  assert (forall l f0, getf (fold_left (fun f c => extend f c) l f0) c = getf f0 c) as H.
  { induction l as [|a l IH]; intros f0; simpl; auto. rewrite IH. apply getf_extend. }
  rewrite H. apply getf_extend.
Qed.

Lemma extend_key_length f r :
  (length f <= length (extend_key f r))%nat /\
  (parent r < length (extend_key f r))%nat /\
  (forall c s, In (c, s) (kids r) -> (c < length (extend_key f r))%nat).
Proof.
  unfold extend_key.
  assert (forall l f0,
            (length f0 <= length (fold_left (fun f c => extend f c) l f0))%nat /\
            (forall c, In c l -> (c < length (fold_left (fun f c => extend f c) l f0))%nat)) as H.
  { induction l as [|a l IH]; intros f0; simpl.
    - split; auto. intros c [].
    - destruct (IH (extend f0 a)) as [A B]. rewrite length_extend in A. split; [lia|].
      intros c [->|Hc]; auto. lia. }
  destruct (H (map fst (kids r)) (extend f (parent r))) as [A B].
  rewrite length_extend in A. split; [lia|]. split; [lia|].
  intros c s Hin. apply B. apply in_map_iff. exists (c, s); auto.
Qed.

(* ---- histogram ---- *)
Lemma maxv_ge f c n : nth_error f c = Some (Some n) -> n <= maxv f.
Proof.
  revert c; induction f as [|x f IH]; intros [|c] H; simpl in *; try discriminate.
  - injection H as ->. lia.
  - specialize (IH _ H). destruct x; lia.
Qed.

Lemma maxv_nonneg f : 0 <= maxv f.
Proof. induction f as [|x f IH]; simpl; [lia|destruct x; lia]. Qed.

Lemma count_pos f c n : nth_error f c = Some (Some n) -> 0 < count f n.
Proof.
  intros H. unfold count.
  assert (In (Some n) (filter (is_val n) f)) as Hin.
  { apply filter_In. split; [eapply nth_error_In; eauto|]. simpl. apply Z.eqb_refl. }
  destruct (filter (is_val n) f); [destruct Hin|simpl; lia].
Qed.

Lemma hist_zero_no_value f j c n :
  0 <= j -> nth (Z.to_nat j) (hist f) 0 = 0 -> nth_error f c = Some (Some n) -> n <> j.
Proof.
  intros Hj Hz Hc ->. pose proof (maxv_ge _ _ _ Hc) as Hm. pose proof (count_pos _ _ _ Hc) as Hp.
  unfold hist in Hz.
  assert (Z.to_nat j < S (Z.to_nat (maxv f)))%nat as Hlt by lia.
  rewrite nth_indep with (d' := (fun j => count f (Z.of_nat j)) O) in Hz
    by (rewrite map_length, seq_length; auto).
  change (count f (Z.of_nat 0)) with ((fun j : nat => count f (Z.of_nat j)) O) in Hz.
  rewrite map_nth, seq_nth in Hz by auto. simpl in Hz. rewrite Z2Nat.id in Hz by auto. lia.
Qed.

(* ---- preimage_gap: the interval it returns holds no value ---- *)
Lemma pg_loop_spec : forall t i last g (H : Z -> Z),
  1 <= g -> -1 <= last -> last < i ->
  (forall j, last < j < i -> H j = 0) ->
  (forall j, i <= j -> H j = nth (Z.to_nat (j - i)) t 0) ->
  let k := pg_loop t i last g in
  0 <= k /\ forall j, k <= j < k + g -> H j = 0.
Proof.
  induction t as [|v t IH]; intros i last g H Hg Hl Hli Hz Ht; simpl.
  - split; [lia|]. intros j Hj. destruct (Z_lt_le_dec j i).
    + apply Hz; lia.
    + rewrite Ht by lia. destruct (Z.to_nat (j - i)); reflexivity.
  - destruct (v =? 0) eqn:Ev.
    + destruct (g <=? i - last) eqn:Eg.
      * split; [lia|]. intros j Hj. destruct (Z_lt_le_dec j i).
        -- apply Hz; lia.
        -- assert (j = i) as -> by lia. rewrite Ht by lia. rewrite Z.sub_diag. simpl. lia.
      * apply IH; auto; try lia.
        -- intros j Hj. destruct (Z_lt_le_dec j i); [apply Hz; lia|].
           assert (j = i) as -> by lia. rewrite Ht by lia. rewrite Z.sub_diag. simpl. lia.
        -- intros j Hj. rewrite Ht by lia.
           replace (Z.to_nat (j - i)) with (S (Z.to_nat (j - (i + 1)))) by lia. reflexivity.
    + apply IH; auto; try lia.
      intros j Hj. rewrite Ht by lia.
      replace (Z.to_nat (j - i)) with (S (Z.to_nat (j - (i + 1)))) by lia. reflexivity.
Qed.

Lemma preimage_gap_spec f g : 1 <= g ->
  let k := preimage_gap f g in
  0 <= k /\ forall c n, nth_error f c = Some (Some n) -> n < k \/ k + g <= n.
Proof.
  intros Hg k.
  assert (0 <= k /\ forall j, k <= j < k + g -> nth (Z.to_nat j) (hist f) 0 = 0) as [Hk Hz].
  { apply (pg_loop_spec (hist f) 0 (-1) g (fun j => nth (Z.to_nat j) (hist f) 0)); try lia.
    intros j Hj. rewrite Z.sub_0_r. reflexivity. }
  split; [exact Hk|]. intros c n Hc.
  destruct (Z_lt_le_dec n k); [left; auto|]. destruct (Z_lt_le_dec n (k + g)); [|right; auto].
  exfalso. assert (0 <= n) as Hn by lia.
  apply (hist_zero_no_value f n c n Hn (Hz n ltac:(lia)) Hc). reflexivity.
Qed.

(* nth_error view of getf inside the table *)
Lemma getf_in f c : (c < length f)%nat -> nth_error f c = Some (getf f c).
Proof. intros H. unfold getf. apply nth_error_nth'. auto. Qed.

(* ---- can_fire ---- *)
Lemma can_fire_true f r : can_fire f r = true ->
  exists p, getf f (parent r) = Some p /\
    forall c s, In (c, s) (kids r) ->
      getf f c = None \/ exists v, getf f c = Some v /\ 0 < v + s - p.
Proof.
  unfold can_fire. destruct (getf f (parent r)) as [p|]; [|discriminate].
  intros H. exists p; split; auto. intros c s Hin.
  rewrite forallb_forall in H. specialize (H _ Hin). simpl in H.
  destruct (getf f c) as [v|]; [right; exists v; split; auto; lia|left; auto].
Qed.

Lemma can_fire_false f r p : can_fire f r = false -> getf f (parent r) = Some p ->
  exists c s m, In (c, s) (kids r) /\ getf f c = Some m /\ m + s <= p.
Proof.
  unfold can_fire. intros H Hp. rewrite Hp in H.
  assert (exists cs, In cs (kids r) /\
            (match getf f (fst cs) with None => true | Some v => 0 <? v + snd cs - p end) = false) as E.
  { clear Hp. induction (kids r) as [|a l IH]; simpl in H; [discriminate|].
    apply andb_false_iff in H. destruct H as [H|H].
    - exists a; split; [left; auto|auto].
    - destruct (IH H) as (cs & Hin & Hc). exists cs; split; [right; auto|auto]. }
  destruct E as ([c s] & Hin & Hc). simpl in Hc.
  destruct (getf f c) as [m|] eqn:Em; [|discriminate].
  exists c, s, m. repeat split; auto. lia.
Qed.

Lemma mentions_false c r : mentions c r = false ->
  parent r <> c /\ forall c' s, In (c', s) (kids r) -> c' <> c.
Proof.
  unfold mentions. intros H. apply orb_false_iff in H. destruct H as [H1 H2].
  split; [apply Nat.eqb_neq; auto|]. intros c' s Hin ->.
  assert (existsb (fun cs => Nat.eqb (fst cs) c) (kids r) = true) as E.
  { apply existsb_exists. exists (c, s). split; auto. simpl. apply Nat.eqb_refl. }
  congruence.
Qed.

Lemma mentions_parent r : mentions (parent r) r = true.
Proof. unfold mentions. rewrite Nat.eqb_refl. reflexivity. Qed.

(* can_fire only reads the labels the rule mentions *)
Lemma can_fire_ext f f' r :
  getf f (parent r) = getf f' (parent r) ->
  (forall c s, In (c, s) (kids r) -> getf f c = getf f' c) ->
  can_fire f r = can_fire f' r.
Proof.
  intros Hp Hk. unfold can_fire. rewrite Hp. destruct (getf f' (parent r)) as [p|]; auto.
  induction (kids r) as [|[c s] l IH]; simpl; auto.
  rewrite (Hk c s) by (left; auto). rewrite IH; auto.
  intros c' s' Hin. apply (Hk c' s'). right; auto.
Qed.

Lemma max_abs_bound r c s : In (c, s) (kids r) -> - max_abs r <= s <= max_abs r.
Proof.
  unfold max_abs. induction (kids r) as [|a l IH]; simpl; [intros []|].
  intros [->|H]; simpl; [lia|]. specialize (IH H). lia.
Qed.

Lemma max_abs_nonneg r : 0 <= max_abs r.
Proof. unfold max_abs. induction (kids r) as [|a l IH]; simpl; lia. Qed.
