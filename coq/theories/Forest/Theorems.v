(* Consequences of Correct.final_sound_complete in the shape C03 asks for. *)
From Coq Require Import ZArith List Bool Lia Permutation.
From CSS Require Import Base.PyList Forest.Spec Forest.Model Forest.Basics Forest.Invariant Forest.Correct.
Import ListNotations.
Open Scope Z_scope.

Definition pumping_answer (st : tm) (c : nat) : bool := snd (is_pumping st c).

Lemma run_init_rules pick fuel ops st : run pick fuel init ops = Some st ->
  Final st /\ rules st = keys_of ops.
Proof.
  intros H. destruct (run_final pick fuel ops init st Final_init H) as [F R]. split; auto.
Qed.

Theorem sound_complete pick fuel ops st : run pick fuel init ops = Some st ->
  forall c, (pumping_answer st c = true <-> pumps (keys_of ops) c) /\
            (forall n, getf (fn st) c = Some n <-> terms (keys_of ops) c n).
Proof.
  intros H c. destruct (run_init_rules _ _ _ _ H) as [F R].
  destruct (final_sound_complete st F c) as [A B]. rewrite R in A, B.
  split; auto. unfold pumping_answer, is_pumping; simpl. rewrite <- A.
  destruct (getf (fn st) c); split; congruence.
Qed.

Lemma derivable_same_set R R' : (forall r, In r R <-> In r R') ->
  forall c v, derivable R c v <-> derivable R' c v.
Proof.
  intros H c v. split; apply derivable_incl; intros r Hr; apply H; auto.
Qed.

Lemma value_determined R R' f f' :
  (forall c, (f c = None <-> pumps R c) /\ (forall n, f c = Some n <-> terms R c n)) ->
  (forall c, (f' c = None <-> pumps R' c) /\ (forall n, f' c = Some n <-> terms R' c n)) ->
  (forall c v, derivable R c v <-> derivable R' c v) ->
  forall c : nat, f c = f' c.
Proof.
  intros H H' E c. destruct (H c) as [A B]. destruct (H' c) as [A' B'].
  destruct (f c) as [n|] eqn:Ef.
  - symmetry. apply B'. destruct (proj1 (B n) eq_refl) as [D ND].
    split; [apply E; auto|]. intros D'. apply ND. apply E; auto.
  - symmetry. apply A'. intros v. apply E. apply (proj1 A eq_refl).
Qed.

(* the answers depend only on the SET of inserted keys *)
Theorem order_independent pick fuel pick' fuel' ops ops' st st' :
  run pick fuel init ops = Some st -> run pick' fuel' init ops' = Some st' ->
  (forall r, In r (keys_of ops) <-> In r (keys_of ops')) ->
  forall c, getf (fn st) c = getf (fn st') c.
Proof.
  intros H H' E.
  destruct (run_init_rules _ _ _ _ H) as [F R]. destruct (run_init_rules _ _ _ _ H') as [F' R'].
  apply (value_determined (keys_of ops) (keys_of ops')).
  - intros c. rewrite <- R. apply final_sound_complete; auto.
  - intros c. rewrite <- R'. apply final_sound_complete; auto.
  - apply derivable_same_set; auto.
Qed.

(* adding keys only makes the answers grow *)
Theorem monotone pick fuel pick' fuel' ops ops' st st' :
  run pick fuel init ops = Some st -> run pick' fuel' init ops' = Some st' ->
  incl (keys_of ops) (keys_of ops') ->
  forall c, match getf (fn st) c, getf (fn st') c with
            | None, None => True
            | None, Some _ => False
            | Some n, Some m => n <= m
            | Some _, None => True
            end.
Proof.
  intros H H' Hi c.
  destruct (sound_complete _ _ _ _ H c) as [A B]. destruct (sound_complete _ _ _ _ H' c) as [A' B'].
  destruct (run_init_rules _ _ _ _ H) as [F R]. destruct (run_init_rules _ _ _ _ H') as [F' R'].
  destruct (final_sound_complete st F c) as [P _]. destruct (final_sound_complete st' F' c) as [P' _].
  rewrite R in P. rewrite R' in P'.
  destruct (getf (fn st) c) as [n|] eqn:E; destruct (getf (fn st') c) as [m|] eqn:E'; auto.
  - destruct (proj1 (B n) eq_refl) as [D _]. destruct (proj1 (B' m) eq_refl) as [_ ND].
    destruct (Z_le_gt_dec n m); auto. exfalso. apply ND.
    eapply derivable_mono; [eapply derivable_incl; eauto|lia].
  - assert (pumps (keys_of ops') c) as PP by (eapply pumps_incl; eauto; apply P; auto).
    apply P' in PP. congruence.
Qed.

(* pumping_subuniverse = the keys all of whose classes pump *)
Theorem subuniverse_spec pick fuel ops st : run pick fuel init ops = Some st ->
  forall i, In i (pumping_subuniverse st) <->
    (i < length (keys_of ops))%nat /\
    let r := nth i (keys_of ops) dummy in
    pumps (keys_of ops) (parent r) /\ forall c s, In (c, s) (kids r) -> pumps (keys_of ops) c.
Proof.
  intros H i. destruct (run_init_rules _ _ _ _ H) as [F R].
  assert (forall c, getf (fn st) c = None <-> pumps (keys_of ops) c) as P.
  { intros c. destruct (final_sound_complete st F c) as [A _]. rewrite R in A. exact A. }
  unfold pumping_subuniverse. rewrite filter_In, in_seq. unfold rule_at. rewrite R. simpl.
  set (r := nth i (keys_of ops) dummy).
  split.
  - intros [Hi Hb]. split; [lia|].
    destruct (getf (fn st) (parent r)) eqn:E; [discriminate|]. split; [apply P; auto|].
    intros c s Hin. rewrite forallb_forall in Hb. specialize (Hb _ Hin). simpl in Hb.
    apply P. destruct (getf (fn st) c); [discriminate|auto].
  - intros [Hi [Hp Hk]]. split; [lia|]. apply P in Hp. rewrite Hp.
    apply forallb_forall. intros [c s] Hin. simpl. rewrite (proj2 (P c) (Hk c s Hin)). reflexivity.
Qed.

(* TableMethod.function lists exactly the classes with a non-zero value *)
Lemma function_dict_spec st c v :
  In (c, v) (function_dict st) <->
  (c < length (fn st))%nat /\ getf (fn st) c = v /\ v <> Some 0.
Proof.
  unfold function_dict. rewrite filter_In. simpl.
  assert (In (c, v) (combine (seq 0 (length (fn st))) (fn st)) <->
          (c < length (fn st))%nat /\ getf (fn st) c = v) as Hc.
  { unfold getf. generalize (fn st). intros f.
    assert (forall k, In (c, v) (combine (seq k (length f)) f) <->
              (k <= c < k + length f)%nat /\ nth (c - k) f (Some 0) = v) as G.
    { induction f as [|x f IH]; intros k; simpl.
      - split; [intros []|intros [? _]; lia].
      - rewrite IH. split.
        + intros [E|[A B]].
          * injection E as <- <-. split; [lia|]. rewrite Nat.sub_diag. reflexivity.
          * split; [lia|]. replace (c - k)%nat with (S (c - S k)) by lia. exact B.
        + intros [A B]. destruct (Nat.eq_dec c k) as [->|Hne].
          * left. rewrite Nat.sub_diag in B. subst. reflexivity.
          * right. split; [lia|]. replace (c - k)%nat with (S (c - S k)) in B by lia. exact B. }
    rewrite G. rewrite Nat.sub_0_r. split; intros [A B]; split; auto; lia. }
  rewrite Hc. split.
  - intros [[A B] D]. csplit; auto. intros ->. discriminate.
  - intros [A [B D]]. split; auto. destruct v as [[|p|p]|]; auto; exfalso; apply D; reflexivity.
Qed.
