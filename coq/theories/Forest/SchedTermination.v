(* Layer S (SchedDefs.v): TERMINATION for every schedule.  Every iteration of
   the loop of _process_queue — whatever re-queue list (rq_ok), release order and
   set.pop() it uses — preserves TInvS and strictly decreases
     mu_s st = (2*slots(rules) + |rules| + 1) * pot + 2|queue| + |held|
   (slots = SUM_r (1 + arity r): the code re-queues a rule at most once per
   registered (rule, child) pair and once as a rule of the class).  Hence no
   chain of iterations is longer than mu_s, and mu_s of the state add_rule_key
   hands to the loop is below pbound_s of the static data of the history.
   Port of Forest/Termination.v and Forest/TerminationRun.v. *)
From Coq Require Import ZArith List Bool Lia Permutation.
From CSS Require Import Base.PyList Forest.Spec Forest.Model Forest.Basics Forest.Invariant
  Forest.Correct Forest.TerminationDefs Forest.TerminationGap Forest.Termination
  Forest.TerminationRun Forest.SchedDefs Forest.SchedInvariant Forest.SchedCorrect.
Import ListNotations.
Open Scope Z_scope.

Definition TInvS (st : tm) : Prop := InvS st [] /\ NoDup (held st) /\ GapBound st.

Lemma slots_nonneg ks : 0 <= slots ks.
Proof. pose proof (slots_ge_len ks). pose proof (zl_nonneg ks). lia. Qed.

Lemma mu_s_nonneg st : 0 <= mu_s st.
Proof.
  unfold mu_s, wt_s. pose proof (pot_nonneg (vbound st) (fn st)).
  pose proof (slots_nonneg (rules st)). pose proof (zl_nonneg (rules st)).
  pose proof (zl_nonneg (queue st)). pose proof (zl_nonneg (held st)). nia.
Qed.

Lemma mu_s_same st st' P Q H : SameS st st' ->
  pot (vbound st) (fn st') = P -> zl (queue st') = Q -> zl (held st') = H ->
  mu_s st' = wt_s st * P + 2 * Q + H.
Proof.
  intros (Er & Eg & El) <- <- <-. unfold mu_s, wt_s, vbound, zl. rewrite Er, Eg, El. reflexivity.
Qed.

Lemma held_len_s st : CoreS st -> NoDup (held st) -> zl (held st) <= zl (rules st).
Proof.
  intros C Hnd. unfold zl.
  assert (length (held st) <= length (seq 0 (length (rules st))))%nat as H.
  { apply NoDup_incl_length; auto. intros j Hj. apply in_seq.
    pose proof (proj2 (s_idx st C) j Hj). lia. }
  rewrite seq_length in H. lia.
Qed.

Lemma perm_zl (a b : list nat) : Permutation a b -> zl a = zl b.
Proof. intros P. unfold zl. rewrite (Permutation_length P). reflexivity. Qed.

(* _increase_value when the value really increases: the shape of the result *)
Lemma increase_value_s_real st c i h' l p :
  getf (fn st) c = Some p -> (snd (cgap st) <? p) = false ->
  let f' := upd (fn st) c (Some (p + 1)) in
  exists k q h,
    increase_value_s st c i h' l = mktm (rules st) f' (gsize st) k (q ++ l) h /\
    ((k = cgap st /\ q = queue st /\ h = held st) \/
     (fst k = preimage_gap f' (gsize st) /\
      ((q = queue st ++ h' /\ h = []) \/ (q = queue st /\ h = held st)))).
Proof.
  intros Hp E f'. unfold increase_value_s. rewrite Hp, E. fold f'.
  destruct (fst (cgap st) =? preimage_gap f' (gsize st)) eqn:Eg.
  - exists (cgap st), (queue st), (held st). split; [|left; auto]. reflexivity.
  - unfold correct_gap_s. cbn [rules fn gsize cgap queue held snd].
    destruct (snd (cgap st) <? preimage_gap f' (gsize st) + gsize st - 1);
      cbn [rules fn gsize cgap queue held].
    + eexists _, (queue st ++ h'), []. split; [reflexivity|].
      right. split; [reflexivity|]. left; auto.
    + eexists _, (queue st), (held st). split; [reflexivity|].
      right. split; [reflexivity|]. right; auto.
Qed.

Lemma increase_step_s st c i h' l p : CoreS st -> Gap st -> NoDup (held st) -> GapBound st ->
  (c < length (fn st))%nat -> Permutation h' (held st) -> zl l <= slots (rules st) ->
  getf (fn st) c = Some p -> (snd (cgap st) <? p) = false ->
  let st' := increase_value_s st c i h' l in
  SameS st st' /\ NoDup (held st') /\ GapBound st' /\
  mu_s st' < mu_s st.
Proof.
  intros C (Gk & Gs & Gok) Hnd HB Hc HP Hl Hp Eheld st'.
  destruct (increase_value_s_real st c i h' l p Hp Eheld) as (k & q & h & Est & Hcase).
  cbv zeta in Est. fold st' in Est.
  apply Z.ltb_ge in Eheld.
  pose proof (proj1 (s_g st C)) as Hg1.
  pose proof (held_len_s st C Hnd) as Hh.
  pose proof (perm_zl _ _ HP) as Hph.
  unfold GapBound in HB.
  set (f' := upd (fn st) c (Some (p + 1))) in *.
  assert (length f' = length (fn st)) as Hlf by (apply length_upd).
  assert (pot (vbound st) f' = pot (vbound st) (fn st) - 1) as Hpot.
  { unfold f'. rewrite pot_upd by auto. rewrite Hp. unfold pot1, vbound. lia. }
  pose proof (pot_nonneg (vbound st) f') as Hpn.
  pose proof (preimage_gap_le f' (gsize st) Hg1) as Hpg. unfold zl in Hpg at 1. rewrite Hlf in Hpg.
  fold (zl (fn st)) in Hpg.
  assert (SameS st st') as S by (rewrite Est; repeat split; auto).
  assert (zl (queue st') = zl q + zl l) as Eq.
  { rewrite Est. unfold zl. cbn [queue]. rewrite app_length. lia. }
  rewrite (mu_s_same st st' _ _ _ S eq_refl Eq eq_refl).
  rewrite Est. cbn [held fn cgap gsize]. rewrite Hpot.
  split; [rewrite <- Est; exact S|].
  assert (zl (queue st ++ h') = zl (queue st) + zl h') as Eqh.
  { unfold zl. rewrite app_length. lia. }
  unfold GapBound. cbn [held fn cgap gsize]. unfold zl at 1. rewrite Hlf. fold (zl (fn st)).
  pose proof (zl_nonneg (rules st)). pose proof (zl_nonneg (held st)).
  pose proof (zl_nonneg l). pose proof (slots_nonneg (rules st)).
  unfold mu_s, wt_s in *.
  destruct Hcase as [(-> & -> & ->)|(Ek & [(-> & ->)|(-> & ->)])].
  - split; [exact Hnd|]. split; [exact HB|]. lia.
  - split; [constructor|]. split; [lia|]. rewrite Eqh. change (zl (@nil nat)) with 0. lia.
  - split; [exact Hnd|]. split; [lia|]. lia.
Qed.

(* ---- one iteration, any schedule: invariant preserved, measure strictly smaller ---- *)
Theorem sstep_decreases st st' : TInvS st -> sstep st st' ->
  TInvS st' /\ SameS st st' /\ mu_s st' < mu_s st.
Proof.
  intros (I & Hnd & HB) H.
  destruct (sstep_inv st st' I H) as [I' S'].
  destruct H as [st i q Eq Ef | st i q h' l Eq Ef HP Hl | st n l Eq Hn Hl].
  - (* pop, no fire *)
    split; [split; [exact I'|split; [exact Hnd|exact HB]]|]. split; [exact S'|].
    unfold mu_s, wt_s, vbound, pop_queue. cbn [rules fn gsize cgap queue held]. rewrite Eq.
    unfold zl. cbn [length]. lia.
  - (* pop, fire *)
    destruct I as (C & W & G).
    assert (i < length (rules st))%nat as Hi by (apply (proj1 (s_idx st C)); rewrite Eq; left; auto).
    set (st1 := pop_queue st q) in *.
    assert (CoreS st1) as C1.
    { constructor; simpl; try apply C. split; [|apply C].
      intros j Hj. apply (proj1 (s_idx st C)). rewrite Eq. right; auto. }
    assert (mu_s st1 = mu_s st - 2) as Hmu1.
    { unfold mu_s, wt_s, vbound, st1, pop_queue. cbn [rules fn gsize cgap queue held]. rewrite Eq.
      unfold zl. cbn [length]. lia. }
    destruct (can_fire_true _ _ Ef) as (p & Hp & _).
    set (c := parent (rule_at st i)) in *.
    assert (c < length (fn st))%nat as Hc.
    { apply (s_dom st C (rule_at st i) (rule_at_In st i Hi)). }
    destruct (snd (cgap st) <? p) eqn:Eheld.
    + (* put on hold *)
      assert (increase_value_s st1 c i h' l =
              mktm (rules st) (fn st) (gsize st) (cgap st) q (add_held (held st) i)) as E.
      { unfold increase_value_s. change (fn st1) with (fn st). rewrite Hp.
        change (cgap st1) with (cgap st). rewrite Eheld. reflexivity. }
      rewrite E in *.
      split; [split; [exact I'|split; [apply add_held_NoDup; exact Hnd|exact HB]]|].
      split; [repeat split; auto|].
      pose proof (add_held_len (held st) i).
      assert (zl (queue st) = zl q + 1) as Hq1 by (rewrite Eq; unfold zl; cbn [length]; lia).
      clear Hmu1. unfold mu_s, wt_s, vbound. cbn [rules fn gsize cgap queue held]. lia.
    + (* the value increases *)
      destruct (Hl p Hp) as (_ & _ & Hlen).
      destruct (increase_step_s st1 c i h' l p C1 G Hnd HB Hc HP Hlen Hp Eheld) as (S & Hnd' & HB' & Hmu).
      split; [split; [exact I'|split; [exact Hnd'|exact HB']]|].
      split; [exact S'|lia].
  - (* pop from the held set *)
    destruct I as (C & W & G).
    set (st1 := mktm (rules st) (fn st) (gsize st) (cgap st) [] (remove_at n (held st))) in *.
    set (i := nth n (held st) O) in *.
    set (c := parent (rule_at st i)) in *.
    assert (In i (held st)) as Hi by (apply nth_In; auto).
    assert (i < length (rules st))%nat as Hil by (apply (s_idx st C); auto).
    assert (c < length (fn st))%nat as Hc.
    { apply (s_dom st C (rule_at st i) (rule_at_In st i Hil)). }
    pose proof (remove_at_len (held st) n Hn) as Hrl.
    pose proof (remove_at_NoDup (held st) n Hnd) as Hrn.
    pose proof (zl_nonneg (rules st)) as HR.
    pose proof (slots_nonneg (rules st)) as HK.
    unfold set_infinite_s in *. change (fn st1) with (fn st) in *.
    destruct (getf (fn st) c) as [v|] eqn:Hv.
    + destruct (Hl ltac:(discriminate)) as (_ & _ & Hlen).
      set (f' := upd (fn st) c None) in *.
      assert (length f' = length (fn st)) as Hlf by apply length_upd.
      split; [split; [exact I'|split; [exact Hrn|]]|split; [exact S'|]].
      * unfold GapBound, zl; simpl. rewrite Hlf. exact HB.
      * rewrite (mu_s_same _ _ _ _ _ S' eq_refl eq_refl eq_refl). cbn [rules fn gsize cgap queue held].
        unfold f'. rewrite pot_upd by auto. rewrite Hv.
        change (queue st1) with (@nil nat). change (held st1) with (remove_at n (held st)).
        rewrite app_nil_l. rewrite Hrl.
        unfold mu_s, wt_s. rewrite Eq. change (zl (@nil nat)) with 0.
        pose proof (pot_nonneg (vbound st) (fn st)).
        unfold pot1 at 1 2. nia.
    + split; [split; [exact I'|split; [exact Hrn|exact HB]]|split; [exact S'|]].
      unfold mu_s, wt_s, vbound, st1. cbn [rules fn gsize cgap queue held]. rewrite Eq, Hrl.
      change (zl (@nil nat)) with 0. lia.
Qed.

(* ---- no chain of iterations is longer than the measure ---- *)
Inductive schain : nat -> tm -> tm -> Prop :=
| sc_0 : forall st, schain O st st
| sc_S : forall n st st1 st', sstep st st1 -> schain n st1 st' -> schain (S n) st st'.

Theorem S_chain_bounded : forall n st st', TInvS st -> schain n st st' -> Z.of_nat n <= mu_s st.
Proof.
  induction n as [|n IH]; intros st st' T H.
  - pose proof (mu_s_nonneg st). lia.
  - inversion H as [|? ? st1 ? H1 H2]; subst.
    destruct (sstep_decreases st st1 T H1) as (T1 & _ & Hlt).
    specialize (IH st1 st' T1 H2). lia.
Qed.

Lemma sstar_TInv st st' : TInvS st -> sstar st st' -> TInvS st' /\ SameS st st'.
Proof.
  intros T H. induction H as [st|st st1 st' H1 H IH].
  - split; auto. apply SameS_refl.
  - destruct (sstep_decreases st st1 T H1) as (T1 & S1 & _). destruct (IH T1) as [T' S'].
    split; auto. eapply SameS_trans; eauto.
Qed.

(* ---- what holds between operations ---- *)
Definition TFinalS (st : tm) : Prop := FinalS st /\ GapBound st.

Lemma TFinalS_init : TFinalS init.
Proof. split; [apply FinalS_init|]. unfold GapBound, zl; simpl. lia. Qed.

Lemma pre_process_s_fields st r f1 h' : FinalS st -> GapBound st ->
  ext_ok (fn st) f1 r -> Permutation h' (held st) ->
  let st3 := pre_process_s st r f1 h' in
  fn st3 = f1 /\
  gsize st3 = Z.max (gsize st) (max_abs r) /\
  held st3 = [] /\ zl (queue st3) <= 1 /\ GapBound st3.
Proof.
  intros ((C & _ & _) & Hq & Hh & _) HB (_ & Hl & _) HP. unfold pre_process_s.
  rewrite Hh in HP. apply perm_nil_inv in HP. subst h'.
  pose proof (proj1 (s_g st C)) as Hg1.
  assert (zl (fn st) <= zl f1) as Hl' by (unfold zl; lia).
  pose proof (zl_nonneg (fn st)) as Hn0.
  unfold GapBound in *. rewrite Hq, Hh. cbn [rules fn gsize cgap queue held].
  destruct (gsize st <? max_abs r) eqn:Eg.
  - apply Z.ltb_lt in Eg.
    pose proof (preimage_gap_le f1 (max_abs r) ltac:(lia)) as Hpg.
    unfold correct_gap_s. cbn [rules fn gsize cgap queue held snd].
    destruct (snd (cgap st) <? preimage_gap f1 (max_abs r) + max_abs r - 1);
      cbn [rules fn gsize cgap queue held];
      (destruct (getf f1 (parent r)); cbn [rules fn gsize cgap queue held fst];
       repeat split; auto; try (unfold zl; simpl; lia); try lia).
  - apply Z.ltb_ge in Eg. cbn [rules fn gsize cgap queue held].
    destruct (getf f1 (parent r)); cbn [rules fn gsize cgap queue held fst];
      repeat split; auto; try (unfold zl; simpl; lia); try lia; nia.
Qed.

Lemma slots_app ks ks' : slots (ks ++ ks') = slots ks + slots ks'.
Proof. induction ks as [|r ks IH]; simpl; [reflexivity|]. rewrite IH. lia. Qed.

(* the measure at the start of _process_queue, bounded by static data *)
Lemma mu_s_bound st R K n g : CoreS st -> held st = [] -> zl (queue st) <= 1 ->
  zl (rules st) <= R -> slots (rules st) <= K -> zl (fn st) <= n -> gsize st <= g ->
  mu_s st < pbound_s R K n g.
Proof.
  intros C Hh Hq HR HK Hn Hg.
  pose proof (proj1 (s_g st C)) as Hg1.
  pose proof (zl_nonneg (rules st)) as HR0. pose proof (zl_nonneg (fn st)) as Hn0.
  pose proof (slots_nonneg (rules st)) as HK0.
  assert (0 <= vbound st) as HB0 by (unfold vbound; nia).
  pose proof (pot_le (vbound st) (fn st) HB0
                (fun c v H => proj1 (s_fin st C c v H))) as Hp.
  pose proof (pot_nonneg (vbound st) (fn st)) as Hp0.
  unfold mu_s, wt_s, pbound_s. rewrite Hh. change (zl (@nil nat)) with 0.
  assert (zl (fn st) * (1 + vbound st) <= n * ((n + 1) * g + 2)) as H1.
  { unfold vbound.
    assert ((zl (fn st) + 1) * gsize st <= (n + 1) * g) as H2 by (apply Z.mul_le_mono_nonneg; lia).
    apply Z.mul_le_mono_nonneg; lia. }
  assert ((2 * slots (rules st) + zl (rules st) + 1) * pot (vbound st) (fn st) <=
          (2 * K + R + 1) * (n * ((n + 1) * g + 2))) as H3.
  { apply Z.mul_le_mono_nonneg; lia. }
  lia.
Qed.

(* the state add_rule_key hands to the loop satisfies TInvS and has a small measure *)
Lemma pre_process_s_TInv st r f1 h' R K n g : TFinalS st ->
  ext_ok (fn st) f1 r -> Permutation h' (held st) ->
  zl (rules st) + 1 <= R -> slots (rules st) + 1 + zl (kids r) <= K ->
  zl f1 <= n -> Z.max (gsize st) (max_abs r) <= g ->
  TInvS (pre_process_s st r f1 h') /\ mu_s (pre_process_s st r f1 h') < pbound_s R K n g.
Proof.
  intros [F HB] He HP HR HK Hn Hg.
  destruct (pre_process_s_inv st r f1 h' F He HP) as [I3 R3].
  destruct (pre_process_s_fields st r f1 h' F HB He HP) as (Ef & Eg & Eh & Eq & HB3).
  set (st3 := pre_process_s st r f1 h') in *.
  split.
  - split; [exact I3|split; [rewrite Eh; constructor|exact HB3]].
  - apply mu_s_bound; auto; try apply I3.
    + rewrite R3. unfold zl in *. rewrite app_length. simpl. lia.
    + rewrite R3, slots_app. change (slots [r]) with (1 + zl (kids r) + 0). lia.
    + rewrite Ef. exact Hn.
    + rewrite Eg. exact Hg.
Qed.

Lemma sproc_TFinal st st' : TInvS st -> sproc st st' -> TFinalS st' /\ SameS st st'.
Proof.
  intros T (H & Hq & Hh). destruct (sstar_TInv st st' T H) as [(I' & _ & HB') S].
  split; auto. split; auto. split; [exact I'|csplit; auto]. apply exit_gap_s; auto.
Qed.

Lemma is_pumping_TFinalS st c : TFinalS st -> TFinalS (fst (is_pumping st c)).
Proof.
  intros [F HB]. destruct (is_pumping_final_s st c F) as (F1 & _).
  split; auto. unfold GapBound in *. simpl.
  assert (zl (fn st) <= zl (extend (fn st) c)) by (unfold zl; rewrite length_extend; lia).
  pose proof (proj1 (s_g st (proj1 (proj1 F)))). nia.
Qed.

(* static data of a history *)
Lemma slots_keys_cons r t : slots (r :: t) = 1 + zl (kids r) + slots t.
Proof. reflexivity. Qed.

Lemma fuel_boundS_explicit ops :
  Z.of_nat (fuel_boundS ops) =
  (2 * slots (keys_of ops) + Z.of_nat (length (keys_of ops)) + 1) *
    ((max_label ops + 1) * ((max_label ops + 1 + 1) * max_shift ops + 2)) + 3.
Proof.
  unfold fuel_boundS, fuel_boundSZ, pbound_s. fold (zl (keys_of ops)).
  pose proof (max_label_lb ops). pose proof (max_shift_pos ops). pose proof (zl_nonneg (keys_of ops)).
  pose proof (slots_nonneg (keys_of ops)).
  rewrite Z2Nat.id; [reflexivity|].
  assert (0 <= (max_label ops + 1 + 1) * max_shift ops) by (apply Z.mul_nonneg_nonneg; lia).
  assert (0 <= (max_label ops + 1) * ((max_label ops + 1 + 1) * max_shift ops + 2))
    by (apply Z.mul_nonneg_nonneg; lia).
  assert (0 <= (2 * slots (keys_of ops) + zl (keys_of ops) + 1) *
               ((max_label ops + 1) * ((max_label ops + 1 + 1) * max_shift ops + 2)))
    by (apply Z.mul_nonneg_nonneg; lia).
  lia.
Qed.

(* layer A's bound is layer S's bound with slots replaced by |rules| *)
Lemma fuel_bound_le_S ops : (fuel_bound ops <= fuel_boundS ops)%nat.
Proof.
  apply Nat2Z.inj_le. rewrite fuel_bound_explicit, fuel_boundS_explicit.
  pose proof (slots_ge_len (keys_of ops)) as Hs. unfold zl in Hs.
  pose proof (max_label_lb ops). pose proof (max_shift_pos ops).
  assert (0 <= (max_label ops + 1 + 1) * max_shift ops) by (apply Z.mul_nonneg_nonneg; lia).
  assert (0 <= (max_label ops + 1) * ((max_label ops + 1 + 1) * max_shift ops + 2))
    by (apply Z.mul_nonneg_nonneg; lia).
  apply Z.add_le_mono_r. apply Z.mul_le_mono_nonneg_r; lia.
Qed.
