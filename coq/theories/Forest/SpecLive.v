(* The gap lemma of Forest/Spec.v with a weaker domain hypothesis: only the
   rules whose parent is FINITE need their children inside the domain `dom`
   (the value table).  The code never reads the children of a rule whose
   parent is already infinite (_compute_shift returns early), so such a rule
   may mention labels the table has never been grown to. *)
From Coq Require Import ZArith List Lia.
From CSS Require Import Forest.Spec.
Import ListNotations.
Open Scope Z_scope.

Section Live.
Variable R : list fkey.
Variable f : nat -> option Z.
Variable dom : nat -> Prop.
Variables k g : Z.
Hypothesis g_pos : 1 <= g.
Hypothesis k_nonneg : 0 <= k.
Hypothesis rules_dom : forall r c s, In r R -> f (parent r) <> None -> In (c, s) (kids r) -> dom c.
Hypothesis shifts_bounded : forall r c s, In r R -> In (c, s) (kids r) -> - g <= s <= g.
Hypothesis sound_fin : forall c n, f c = Some n -> derivable R c n.
Hypothesis sound_inf : forall c, f c = None -> pumps R c.
Hypothesis gap_empty : forall c n, dom c -> f c = Some n -> n < k \/ k + g <= n.
Hypothesis fin_nonneg : forall c n, f c = Some n -> 0 <= n.
Hypothesis low_stable : forall r n, In r R -> f (parent r) = Some n -> n < k ->
   exists c s m, In (c, s) (kids r) /\ f c = Some m /\ m + s <= n.

Lemma low_tight_live : forall c v, derivable R c v -> forall n, f c = Some n -> n < k -> v <= n.
Proof.
  induction 1 as [c v Hv | r v Hr Hk IH]; intros n Hf Hn.
  - pose proof (fin_nonneg _ _ Hf). lia.
  - destruct (low_stable r n Hr Hf Hn) as (c & s & m & Hin & Hfc & Hle).
    pose proof (shifts_bounded r c s Hr Hin) as Hs.
    assert (f (parent r) <> None) as Hlive by congruence.
    assert (m < k) as Hm.
    { destruct (gap_empty _ _ (rules_dom _ _ _ Hr Hlive Hin) Hfc); lia. }
    pose proof (IH c s Hin m Hfc Hm). lia.
Qed.

Lemma high_at_least_live : forall c v, dom c -> derivable R c v -> k <= v -> derivable R c (k + g).
Proof.
  intros c v Hdom Hd Hk. destruct (f c) as [n|] eqn:Hf.
  - destruct (gap_empty _ _ Hdom Hf) as [Hlt|Hge].
    + pose proof (low_tight_live c v Hd n Hf Hlt). lia.
    + eapply derivable_mono. apply (sound_fin _ _ Hf). lia.
  - apply sound_inf; auto.
Qed.

Lemma lift_live : forall c v, derivable R c v -> k + g <= v -> derivable R c (v + 1).
Proof.
  induction 1 as [c v Hv | r v Hr Hk IH]; intros Hge.
  - lia.
  - destruct (f (parent r)) as [n|] eqn:Hp; [|apply sound_inf; auto].
    assert (f (parent r) <> None) as Hlive by congruence.
    apply der_rule; auto. intros c s Hin.
    pose proof (shifts_bounded r c s Hr Hin) as Hs.
    destruct (Z_le_gt_dec (k + g) (v - s)) as [Hhi|Hlo].
    + replace (v + 1 - s) with (v - s + 1) by lia. apply IH; auto.
    + eapply derivable_mono.
      * apply (high_at_least_live c (v - s)); [eapply rules_dom; eauto | apply Hk; auto | lia].
      * lia.
Qed.

Theorem gap_lemma_live : forall c n, f c = Some n -> k + g <= n -> pumps R c.
Proof.
  intros c n Hf Hn.
  assert (forall j, 0 <= j -> derivable R c (n + j)) as H.
  { intros j Hj. pattern j. apply natlike_ind; auto.
    - replace (n + 0) with n by lia. apply sound_fin; auto.
    - intros x Hx IHx. replace (n + Z.succ x) with (n + x + 1) by lia. apply lift_live; auto. lia. }
  intros v. destruct (Z_le_gt_dec v n).
  - eapply derivable_mono. apply (sound_fin _ _ Hf). lia.
  - replace v with (n + (v - n)) by lia. apply H. lia.
Qed.
End Live.
