(* The gap bookkeeping of the table-method model is the arithmetic of the SOURCE.
   Re-translated from comb_spec_searcher/rule_db/forest.py on every run:
     Gen/ForestIncreaseValueHold.v   TableMethod._increase_value: the test
         `current_value > self._current_gap[1]` that parks a rule in
         _rule_holding_extra_terms instead of increasing the value
     Gen/ForestCorrectGapNewGap.v    TableMethod._correct_gap: new_gap = (k, k + self._gap_size - 1)
     Gen/ForestCorrectGapRelease.v   TableMethod._correct_gap: the test
         `new_gap[1] > self._current_gap[1]` that releases the parked rules
   This file proves that Forest/Model.v (increase_value, correct_gap) branches
   on exactly these expressions.  A source edit of either comparison (> to >=)
   or of the gap interval changes the generated definitions and breaks these
   lemmas, hence the obligations of Props/C03.v. *)
From Coq Require Import ZArith List Bool Lia.
From CSS Require Import Base.PyList Forest.Spec Forest.Model Gen.Prelude.
From CSS Require Import Gen.ForestIncreaseValueHold Gen.ForestCorrectGapNewGap Gen.ForestCorrectGapRelease.
Import ListNotations.
Open Scope Z_scope.

(* _increase_value: held iff the source's test says so *)
Lemma increase_value_is_source : forall st c i,
  increase_value st c i =
  match getf (fn st) c with
  | None => st
  | Some v =>
      if increase_value_hold v (snd (cgap st))
      then mktm (rules st) (fn st) (gsize st) (cgap st) (queue st) (add_held (held st) i)
      else
        let f' := upd (fn st) c (Some (v + 1)) in
        let st1 := mktm (rules st) f' (gsize st) (cgap st) (queue st) (held st) in
        let st2 := if fst (cgap st) =? Model.preimage_gap f' (gsize st) then st1 else correct_gap st1 in
        mktm (rules st2) (fn st2) (gsize st2) (cgap st2) (queue st2 ++ requeue st2 f' c) (held st2)
  end.
Proof. reflexivity. Qed.

(* _correct_gap: the new gap and the release test are the source's *)
Lemma correct_gap_is_source : forall st,
  correct_gap st =
  let ng := correct_gap_new_gap (Model.preimage_gap (fn st) (gsize st)) (gsize st) in
  let new := (py_get 0 ng 0, py_get 0 ng 1) in
  if correct_gap_release ng (snd (cgap st))
  then mktm (rules st) (fn st) (gsize st) new (queue st ++ held st) []
  else mktm (rules st) (fn st) (gsize st) new (queue st) (held st).
Proof. reflexivity. Qed.
