(* Proofs about the model of ForestRuleExtractor._find_rule (Forest/FindRule.v).

   The class database is seen through a VIEW: `lbl d c` the label of a class and
   `empv d c` the answer classdb.is_empty(c) would give (the cached value if there is one,
   else the class's own answer).  Everything _find_rule does to the class database
   (get_label of unseen classes, is_empty filling the cache) GROWS the view: labels are
   kept, every is_empty answer is kept.  The forest key of a candidate is a function
   `ckey` of the view, stable under growth once the classes of the candidate have labels.
   Hence: a candidate that had the key when the key was inserted still has it when
   _find_rule gets to it, and whatever _find_rule returns has the key. *)
From Coq Require Import ZArith List Bool Lia.
From CSS Require Import Base.PyList ClassDB.Model ClassDB.Proofs Gen.Prelude Gen.ReverseShifts
  Searcher.Model Searcher.Inv Forest.FindRule.
Import ListNotations.
Open Scope Z_scope.

Section P.
Variable T : table.
Variable pack : list Z.

Notation oracle := (oracle T).
Notation WFd := (@WF Z).
Notation lbl := (label_of Z.eqb (fun c : Z => c)).
Notation cstep := (step Z.eqb (fun c : Z => c) (fun k : Z => k) oracle).

(* the state is usable: well-formed class database, no exception so far *)
Definition good (s : st) : Prop := WFd (cdb s) /\ running s = true.

(* what classdb.is_empty(c) answers *)
Definition empv (d : @db Z) (c : Z) : bool :=
  match lbl d c with
  | Some l => match nth_error (empties d) (Z.to_nat l) with
              | Some (Some b) => b
              | _ => oracle c
              end
  | None => oracle c
  end.

Definition grows (d d' : @db Z) : Prop := extends d d' /\ forall c, empv d' c = empv d c.

Lemma grows_refl d : grows d d.
Proof. split; [apply extends_refl|auto]. Qed.

Lemma grows_trans a b c : grows a b -> grows b c -> grows a c.
Proof.
  intros (X1 & E1) (X2 & E2). split; [eapply extends_trans; eauto|].
  intros x. rewrite E2, E1. reflexivity.
Qed.

Lemma lbl_grows d d' c l : WFd d -> WFd d' -> grows d d' -> lbl d c = Some l -> lbl d' c = Some l.
Proof. intros W W' (X & _). apply lbl_ext; auto. Qed.

Definition labelled (d : @db Z) (cs : list Z) : Prop := forall c, In c cs -> lbl d c <> None.

Lemma labelled_grows d d' cs : WFd d -> WFd d' -> grows d d' -> labelled d cs -> labelled d' cs.
Proof.
  intros W W' G H c Hc. specialize (H c Hc). destruct (lbl d c) as [l|] eqn:E; [|congruence].
  rewrite (lbl_grows _ _ _ _ W W' G E). discriminate.
Qed.

Definition labz (d : @db Z) (c : Z) : Z := match lbl d c with Some l => l | None => 0 end.

Lemma labz_grows d d' c : WFd d -> WFd d' -> grows d d' -> lbl d c <> None -> labz d' c = labz d c.
Proof.
  intros W W' G H. unfold labz. destruct (lbl d c) as [l|] eqn:E; [|congruence].
  rewrite (lbl_grows _ _ _ _ W W' G E). reflexivity.
Qed.

(* ------------------------------------------------------------ primitives *)
Lemma running_with_cdb s d : running (with_cdb s d) = running s.
Proof. reflexivity. Qed.

Lemma empties_in_range d c l : WFd d -> lbl d c = Some l ->
  (Z.to_nat l < length (empties d))%nat /\ 0 <= l < zlen (empties d).
Proof.
  intros W H. destruct (label_of_range Z.eqb Zeqb_spec (fun c : Z => c) d c l W H) as ((H0 & H1) & _).
  destruct W as (_ & Hl & _). unfold nlabels, zlen in *. lia.
Qed.

(* classdb.get_label(comb_class) *)
Lemma get_label_c_good s c s' l : good s -> get_label_c T s c = (s', l) ->
  good s' /\ grows (cdb s) (cdb s') /\ lbl (cdb s') c = Some l.
Proof.
  intros (W & R). unfold get_label_c, cdb_op. rewrite R.
  destruct (get_label_class Z.eqb Zeqb_spec (fun c : Z => c) (cdb s) c W)
    as (d' & l0 & Hg & W' & X & Hl & _ & Hcase).
  simpl. rewrite Hg. intros [= <- <-]. simpl.
  split; [split; auto|]. split; auto. split; auto.
  destruct Hcase as [(_ & ->)|(Hnone & _ & Hc & He)]; [auto|].
  intros c'. unfold empv.
  destruct (lbl (cdb s) c') as [l'|] eqn:E.
  - rewrite (lbl_ext _ _ _ _ W W' X E).
    destruct (empties_in_range _ _ _ W E) as (Hlt & _).
    rewrite He, nth_error_app1 by auto. reflexivity.
  - destruct (lbl d' c') as [l''|] eqn:E'; [|reflexivity].
    destruct (label_of_range Z.eqb Zeqb_spec (fun c : Z => c) d' c' l'' W' E') as ((H0 & H1) & Hn).
    rewrite Hc in Hn. unfold nlabels, zlen in H1. rewrite Hc, app_length in H1. simpl in H1.
    destruct (Nat.lt_ge_cases (Z.to_nat l'') (length (classes (cdb s)))) as [Hlt|Hge].
    + rewrite nth_error_app1 in Hn by auto.
      apply (label_of_none Z.eqb Zeqb_spec (fun c : Z => c) (cdb s) c' W) in E.
      exfalso. apply E. eapply nth_error_In; eauto.
    + assert (Z.to_nat l'' = length (empties (cdb s))) as Eq.
      { destruct W as (_ & Hlen & _). lia. }
      rewrite He, nth_error_app2, Eq, Nat.sub_diag by lia. reflexivity.
Qed.

(* classdb.get_class(label) of a label in use *)
Lemma get_class_l_good s c l s' c' : good s -> lbl (cdb s) c = Some l ->
  get_class_l T s l = (s', c') -> c' = c /\ cdb s' = cdb s /\ good s'.
Proof.
  intros (W & R) H. unfold get_class_l, cdb_op. rewrite R.
  assert (Es : cstep (cdb s) (OpGetClass (KI l)) = (cdb s, RClass c))
    by exact (get_class_of_label Z.eqb Zeqb_spec (fun c : Z => c) (fun k : Z => k) id_inv (cdb s) c l W H).
  rewrite Es. intros [= <- <-]. simpl. split; auto. split; auto. split; auto.
Qed.

(* classdb.is_empty(comb_class) of a class that has a label *)
Lemma is_empty_cl_good s c l s' b : good s -> lbl (cdb s) c = Some l ->
  is_empty_cl T s c None = (s', b) ->
  good s' /\ grows (cdb s) (cdb s') /\ b = empv (cdb s) c.
Proof.
  intros (W & R) H. unfold is_empty_cl, cdb_op. rewrite R. simpl. unfold is_empty.
  change (dict_get Z.eqb (dict (cdb s)) c) with (lbl (cdb s) c). rewrite H.
  destruct (empties_in_range _ _ _ W H) as (Hlt & Hr).
  rewrite py_nth_nonneg by lia.
  destruct (l <? zlen (empties (cdb s))) eqn:El; [|lia].
  unfold empv. rewrite H.
  destruct (nth_error (empties (cdb s)) (Z.to_nat l)) as [[b0|]|] eqn:En.
  - intros [= <- <-]. simpl. split; [split; auto|]. split; [apply grows_refl|reflexivity].
  - set (s1 := mk (classes (cdb s)) (dict (cdb s)) (empties (cdb s)) (S (ncalls (cdb s)))).
    assert (W1 : WFd s1) by (destruct W as (A & B & C); unfold WF; csplit; auto).
    assert (Hr1 : 0 <= l < nlabels s1).
    { destruct (label_of_range Z.eqb Zeqb_spec (fun c : Z => c) _ c l W H) as (X & _). exact X. }
    rewrite (set_empty_int_spec Z.eqb (fun c : Z => c) s1 l (oracle c) W1 Hr1).
    intros [= <- <-]. simpl.
    split; [split; auto|].
    { apply (WF_set_empties s1); auto. simpl. apply set_nth_length. }
    split; [|reflexivity]. split.
    + exists []. simpl. rewrite app_nil_r. reflexivity.
    + intros c'. unfold empv. simpl.
      change (label_of Z.eqb (fun c0 : Z => c0)
                {| classes := classes (cdb s); dict := dict (cdb s);
                   empties := set_nth (empties (cdb s)) (Z.to_nat l) (Some (oracle c));
                   ncalls := S (ncalls (cdb s)) |} c') with (lbl (cdb s) c').
      destruct (lbl (cdb s) c') as [l'|] eqn:E'; [|reflexivity].
      destruct (Z.eq_dec l' l) as [->|Nl].
      * assert (c' = c) as -> by
          (eapply (label_injective Z.eqb Zeqb_spec (fun c : Z => c) (fun k : Z => k) id_inv); eauto).
        rewrite nth_error_set_nth_same by auto. rewrite En. reflexivity.
      * rewrite nth_error_set_nth_other; [reflexivity|].
        destruct (empties_in_range _ _ _ W E') as (_ & Hr'). lia.
  - apply nth_error_None in En. lia.
Qed.

Fixpoint cnt (d : @db Z) (cs : list Z) : Z :=
  match cs with
  | [] => 0
  | c :: t => if empv d c then cnt d t else cnt d t + 1
  end.

Lemma cnt_grows d d' cs : grows d d' -> cnt d' cs = cnt d cs.
Proof.
  intros (_ & E). induction cs as [|c t IH]; simpl; auto. rewrite E, IH. reflexivity.
Qed.

Lemma get_labels_good cs : forall s s' ls, good s -> get_labels T s cs = (s', ls) ->
  good s' /\ grows (cdb s) (cdb s') /\ labelled (cdb s') cs /\ ls = map (labz (cdb s')) cs.
Proof.
  induction cs as [|c t IH]; intros s s' ls G; simpl.
  - intros [= <- <-]. split; auto. split; [apply grows_refl|]. split; [intros c []|reflexivity].
  - destruct (get_label_c T s c) as [s1 l] eqn:E1. destruct (get_labels T s1 t) as [s2 ls2] eqn:E2.
    intros [= <- <-].
    destruct (get_label_c_good _ _ _ _ G E1) as (G1 & X1 & L1).
    destruct (IH _ _ _ G1 E2) as (G2 & X2 & L2 & ->).
    split; auto. split; [eapply grows_trans; eauto|].
    pose proof (lbl_grows _ _ _ _ (proj1 G1) (proj1 G2) X2 L1) as L1'.
    split.
    + intros c' [<-|Hc]; [congruence|apply L2; auto].
    + simpl. f_equal. unfold labz. rewrite L1'. reflexivity.
Qed.

Lemma count_nonempty_good cs : forall s s' n, good s -> labelled (cdb s) cs ->
  count_nonempty T s cs = (s', n) ->
  good s' /\ grows (cdb s) (cdb s') /\ n = cnt (cdb s) cs.
Proof.
  induction cs as [|c t IH]; intros s s' n G L; simpl.
  - intros [= <- <-]. split; auto. split; [apply grows_refl|reflexivity].
  - destruct (is_empty_cl T s c None) as [s1 b] eqn:E1.
    destruct (count_nonempty T s1 t) as [s2 m] eqn:E2. intros [= <- <-].
    destruct (lbl (cdb s) c) as [l|] eqn:El; [|destruct (L c (or_introl eq_refl) El)].
    destruct (is_empty_cl_good _ _ _ _ _ G El E1) as (G1 & X1 & ->).
    assert (L1 : labelled (cdb s1) t).
    { eapply labelled_grows; [apply G|apply G1|exact X1|]. intros x Hx. apply L. simpl; auto. }
    destruct (IH _ _ _ G1 L1 E2) as (G2 & X2 & ->).
    split; auto. split; [eapply grows_trans; eauto|].
    rewrite (cnt_grows _ _ t X1). reflexivity.
Qed.

(* ------------------------------------------------------------ keys as functions of the view *)
Definition pkey (d : @db Z) (normal : bool) (p : Z) (cs sh : list Z) : event :=
  EvKey (labz d p) (map (labz d) cs) sh (if cnt d cs =? 1 then 2 else if normal then 1 else 0).

Lemma map_labz_grows d d' cs : WFd d -> WFd d' -> grows d d' -> labelled d cs ->
  map (labz d') cs = map (labz d) cs.
Proof.
  intros W W' G L. apply map_ext_in. intros c Hc. apply labz_grows; auto.
Qed.

Lemma pkey_stable d d' normal p cs sh : WFd d -> WFd d' -> grows d d' -> labelled d (p :: cs) ->
  pkey d' normal p cs sh = pkey d normal p cs sh.
Proof.
  intros W W' G L. unfold pkey.
  rewrite (labz_grows _ _ p W W' G) by (apply L; simpl; auto).
  rewrite (map_labz_grows _ _ cs W W' G) by (intros c Hc; apply L; simpl; auto).
  rewrite (cnt_grows _ _ cs G). reflexivity.
Qed.

Lemma plain_key_good s normal p cs sh s' k : good s -> plain_key T s normal p cs sh = (s', k) ->
  good s' /\ grows (cdb s) (cdb s') /\ labelled (cdb s') (p :: cs) /\ k = pkey (cdb s') normal p cs sh.
Proof.
  intros G. unfold plain_key.
  destruct (get_label_c T s p) as [s1 pl] eqn:E1.
  destruct (get_labels T s1 cs) as [s2 ls] eqn:E2.
  destruct (count_nonempty T s2 cs) as [s3 n] eqn:E3. intros [= <- <-].
  destruct (get_label_c_good _ _ _ _ G E1) as (G1 & X1 & L1).
  destruct (get_labels_good _ _ _ _ G1 E2) as (G2 & X2 & L2 & ->).
  destruct (count_nonempty_good _ _ _ _ G2 L2 E3) as (G3 & X3 & ->).
  split; auto. split; [eapply grows_trans; [exact X1|eapply grows_trans; eauto]|].
  pose proof (lbl_grows _ _ _ _ (proj1 G1) (proj1 G2) X2 L1) as L1'.
  pose proof (lbl_grows _ _ _ _ (proj1 G2) (proj1 G3) X3 L1') as L1''.
  split.
  - intros c [<-|Hc]; [congruence|].
    eapply labelled_grows; [apply G2|apply G3|exact X3|exact L2|exact Hc].
  - unfold pkey. f_equal.
    + unfold labz. rewrite L1''. reflexivity.
    + symmetry. apply map_labz_grows; auto; [apply G2|apply G3].
    + rewrite (cnt_grows _ _ cs X3). reflexivity.
Qed.

(* the classes whose labels the key of a candidate mentions *)
Definition cclasses (r : rule) (v : variant) : list Z :=
  match v with
  | VNormal => r_parent r :: kids_of T r
  | VReverse i => nth i (kids_of T r) 0 :: r_parent r :: remove_nth i (kids_of T r)
  end.

(* the forest key of a candidate in a view *)
Definition ckey (d : @db Z) (r : rule) (v : variant) : event :=
  match v with
  | VNormal =>
      match r_kind r with
      | RPlain => pkey d true (r_parent r) (kids_of T r) (r_shifts T r)
      | _ => EvKey (labz d (r_parent r)) (map (labz d) (kids_of T r)) (r_shifts T r) 3
      end
  | VReverse i =>
      pkey d false (nth i (kids_of T r) 0) (r_parent r :: remove_nth i (kids_of T r))
           (reverse_shifts (r_shifts T r) (Z.of_nat i))
  end.

Lemma ckey_is_key d r v : exists p cs sh b, ckey d r v = EvKey p cs sh b.
Proof. destruct v; simpl; [destruct (r_kind r)|]; unfold pkey; eauto. Qed.

Lemma ckey_stable d d' r v : WFd d -> WFd d' -> grows d d' -> labelled d (cclasses r v) ->
  ckey d' r v = ckey d r v.
Proof.
  intros W W' G L. destruct v as [|i]; simpl in *.
  - assert (E : EvKey (labz d' (r_parent r)) (map (labz d') (kids_of T r)) (r_shifts T r) 3 =
                EvKey (labz d (r_parent r)) (map (labz d) (kids_of T r)) (r_shifts T r) 3).
    { rewrite (labz_grows _ _ _ W W' G) by (apply L; simpl; auto).
      rewrite (map_labz_grows _ _ _ W W' G) by (intros c Hc; apply L; simpl; auto). reflexivity. }
    destruct (r_kind r); auto. apply pkey_stable; auto.
  - apply pkey_stable; auto.
Qed.

Lemma cand_key_good s r v s' k : good s -> cand_key T s r v = (s', k) ->
  good s' /\ grows (cdb s) (cdb s') /\ labelled (cdb s') (cclasses r v) /\ k = ckey (cdb s') r v.
Proof.
  intros G. destruct v as [|i]; simpl.
  - unfold forest_key.
    assert (Hv : forall s' k,
      (let '(s1, pl) := get_label_c T s (r_parent r) in
       let '(s2, ls) := get_labels T s1 (kids_of T r) in (s2, EvKey pl ls (r_shifts T r) 3)) = (s', k) ->
      good s' /\ grows (cdb s) (cdb s') /\ labelled (cdb s') (r_parent r :: kids_of T r) /\
      k = EvKey (labz (cdb s') (r_parent r)) (map (labz (cdb s')) (kids_of T r)) (r_shifts T r) 3).
    { intros s0 k0. destruct (get_label_c T s (r_parent r)) as [s1 pl] eqn:E1.
      destruct (get_labels T s1 (kids_of T r)) as [s2 ls] eqn:E2. intros [= <- <-].
      destruct (get_label_c_good _ _ _ _ G E1) as (G1 & X1 & L1).
      destruct (get_labels_good _ _ _ _ G1 E2) as (G2 & X2 & L2 & ->).
      pose proof (lbl_grows _ _ _ _ (proj1 G1) (proj1 G2) X2 L1) as L1'.
      split; auto. split; [eapply grows_trans; eauto|]. split.
      - intros c [<-|Hc]; [congruence|apply L2; auto].
      - f_equal. unfold labz. rewrite L1'. reflexivity. }
    destruct (r_kind r); auto. apply plain_key_good; auto.
  - apply plain_key_good; auto.
Qed.

(* ------------------------------------------------------------ key equality *)
Lemma zlist_eqb_eq a b : zlist_eqb a b = true <-> a = b.
Proof. unfold zlist_eqb. destruct (list_eq_dec Z.eq_dec a b); split; auto; discriminate. Qed.

Lemma key_eqb_eq a b : key_eqb a b = true -> a = b.
Proof.
  destruct a, b; simpl; try discriminate.
  rewrite !andb_true_iff, !Z.eqb_eq, !zlist_eqb_eq. intros (((-> & ->) & ->) & ->). reflexivity.
Qed.

Lemma key_eqb_refl p cs sh b : key_eqb (EvKey p cs sh b) (EvKey p cs sh b) = true.
Proof.
  simpl. rewrite !Z.eqb_refl. simpl.
  assert (zlist_eqb cs cs = true) as -> by (apply zlist_eqb_eq; reflexivity).
  assert (zlist_eqb sh sh = true) as -> by (apply zlist_eqb_eq; reflexivity). reflexivity.
Qed.

Lemma key_eqb_ckey d r v key : key_eqb (ckey d r v) key = false -> ckey d r v <> key.
Proof.
  intros H E. destruct (ckey_is_key d r v) as (p & cs & sh & b & Ek).
  rewrite <- E, Ek, key_eqb_refl in H. discriminate.
Qed.

(* ------------------------------------------------------------ the search loops *)
(* what a loop knows at its end about a candidate it looked at and rejected *)
Definition rejected (d : @db Z) (key : event) (r : rule) (v : variant) : Prop :=
  labelled d (cclasses r v) /\ ckey d r v <> key.
Definition accepted (d : @db Z) (key : event) (r : rule) (v : variant) : Prop :=
  labelled d (cclasses r v) /\ ckey d r v = key.

Lemma rejected_grows d d' key r v : WFd d -> WFd d' -> grows d d' ->
  rejected d key r v -> rejected d' key r v.
Proof.
  intros W W' G (L & N). split; [exact (labelled_grows _ _ _ W W' G L)|].
  rewrite (ckey_stable _ _ _ _ W W' G L). exact N.
Qed.

Lemma try_variants_spec r key : forall vs s s' o, good s ->
  try_variants T s r vs key = (s', o) ->
  good s' /\ grows (cdb s) (cdb s') /\
  match o with
  | Some v => In v vs /\ accepted (cdb s') key r v
  | None => forall v, In v vs -> rejected (cdb s') key r v
  end.
Proof.
  induction vs as [|v t IH]; intros s s' o G; simpl.
  - intros [= <- <-]. split; auto. split; [apply grows_refl|intros v []].
  - destruct (cand_key T s r v) as [s1 k] eqn:E1.
    destruct (cand_key_good _ _ _ _ _ G E1) as (G1 & X1 & L1 & ->).
    destruct (key_eqb (ckey (cdb s1) r v) key) eqn:Ek.
    + intros [= <- <-]. split; auto. split; auto. split; [left; reflexivity|].
      split; auto. apply key_eqb_eq; auto.
    + intros H. destruct (IH _ _ _ G1 H) as (G2 & X2 & Ho).
      split; auto. split; [eapply grows_trans; eauto|].
      destruct o as [v'|].
      * destruct Ho as (Hin & A). split; [right; auto|auto].
      * intros v' [<-|Hin]; [|apply Ho; auto].
        apply (rejected_grows (cdb s1)); [apply G1|apply G2|exact X2|].
        split; auto. apply key_eqb_ckey; auto.
Qed.

Lemma try_rule_spec r key s s' o : good s -> try_rule T s r key = (s', o) ->
  good s' /\ grows (cdb s) (cdb s') /\
  match o with
  | Some v => In v (variants_of T r) /\ accepted (cdb s') key r v
  | None => forall v, In v (variants_of T r) -> rejected (cdb s') key r v
  end.
Proof.
  intros G. unfold try_rule. destruct (rule_children T r) as [cs|] eqn:E.
  - intros H. exact (try_variants_spec r key _ _ _ _ G H).
  - destruct (get_label_c T s (r_parent r)) as [s1 l] eqn:E1. intros [= <- <-].
    destruct (get_label_c_good _ _ _ _ G E1) as (G1 & X1 & _).
    split; auto. split; auto. unfold variants_of. rewrite E. intros v [].
Qed.

Lemma find_in_spec key : forall rules s s' o, good s ->
  find_in T s rules key = (s', o) ->
  good s' /\ grows (cdb s) (cdb s') /\
  match o with
  | Some (r, v) => In r rules /\ In v (variants_of T r) /\ accepted (cdb s') key r v
  | None => forall r v, In r rules -> In v (variants_of T r) -> rejected (cdb s') key r v
  end.
Proof.
  induction rules as [|r t IH]; intros s s' o G; simpl.
  - intros [= <- <-]. split; auto. split; [apply grows_refl|intros r v []].
  - destruct (try_rule T s r key) as [s1 o1] eqn:E1.
    destruct (try_rule_spec _ _ _ _ _ G E1) as (G1 & X1 & H1).
    destruct o1 as [v|].
    + intros [= <- <-]. destruct H1 as (Hv & A).
      split; [auto|]. split; [auto|]. split; [left; reflexivity|]. split; auto.
    + intros H. destruct (IH _ _ _ G1 H) as (G2 & X2 & Ho).
      split; auto. split; [eapply grows_trans; eauto|].
      destruct o as [[r' v']|].
      * destruct Ho as (A & B & C). auto.
      * intros r' v' [<-|Hin] Hv; [|apply Ho; auto].
        apply (rejected_grows (cdb s1)); [apply G1|apply G2|exact X2|auto].
Qed.

(* every label of the key is in use *)
Definition labels_used (d : @db Z) (ls : list Z) : Prop :=
  forall l, In l ls -> exists c, lbl d c = Some l.

Lemma labels_used_grows d d' ls : WFd d -> WFd d' -> grows d d' ->
  labels_used d ls -> labels_used d' ls.
Proof.
  intros W W' G H l Hl. destruct (H l Hl) as (c & Hc). exists c. exact (lbl_grows _ _ _ _ W W' G Hc).
Qed.

Lemma find_classes_spec key : forall labels s s' o, good s -> labels_used (cdb s) labels ->
  find_classes T pack s labels key = (s', o) ->
  good s' /\ grows (cdb s) (cdb s') /\
  match o with
  | Some (r, v) =>
      (exists l c, In l labels /\ lbl (cdb s') c = Some l /\ In r (rules_for_class T pack c)) /\
      In v (variants_of T r) /\ accepted (cdb s') key r v
  | None =>
      forall l c r v, In l labels -> lbl (cdb s') c = Some l -> In r (rules_for_class T pack c) ->
        In v (variants_of T r) -> rejected (cdb s') key r v
  end.
Proof.
  induction labels as [|l t IH]; intros s s' o G U; simpl.
  - intros [= <- <-]. split; auto. split; [apply grows_refl|intros l c r v []].
  - destruct (U l (or_introl eq_refl)) as (c & Hc).
    destruct (get_class_l T s l) as [s1 c1] eqn:E1.
    destruct (get_class_l_good _ _ _ _ _ G Hc E1) as (-> & Ed & G1).
    destruct (find_in T s1 (rules_for_class T pack c) key) as [s2 o2] eqn:E2.
    destruct (find_in_spec _ _ _ _ _ G1 E2) as (G2 & X2 & H2). rewrite Ed in X2.
    assert (Hc2 : lbl (cdb s2) c = Some l) by (eapply lbl_grows; [apply G|apply G2|exact X2|exact Hc]).
    destruct o2 as [[r v]|].
    + intros [= <- <-]. split; auto. split; auto. destruct H2 as (A & B & C).
      split; [exists l, c; simpl; auto|auto].
    + intros H.
      assert (U2 : labels_used (cdb s2) t).
      { eapply labels_used_grows; [apply G|apply G2|exact X2|]. intros x Hx. apply U. simpl; auto. }
      destruct (IH _ _ _ G2 U2 H) as (G3 & X3 & Ho).
      split; auto. split; [eapply grows_trans; eauto|].
      destruct o as [[r v]|].
      * destruct Ho as ((l' & c' & A & B & C) & D & E). split; [exists l', c'; simpl; auto|auto].
      * intros l' c' r v [<-|Hin] Hl Hr Hv; [|eapply Ho; eauto].
        assert (c' = c) as ->.
        { pose proof (lbl_grows _ _ _ _ (proj1 G2) (proj1 G3) X3 Hc2) as Hc3.
          eapply (label_injective Z.eqb Zeqb_spec (fun c : Z => c) (fun k : Z => k) id_inv); eauto.
          apply G3. }
        apply (rejected_grows (cdb s2)); [apply G2|apply G3|exact X3|auto].
Qed.

(* ------------------------------------------------------------ _find_rule *)
(* every label the search looks at is in use *)
Lemma all_labels_used d : WFd d -> labels_used d (all_labels d).
Proof.
  intros W l Hl. unfold all_labels in Hl. apply in_map_iff in Hl. destruct Hl as (i & <- & Hi).
  apply in_seq in Hi.
  destruct (label_dense Z.eqb Zeqb_spec d (Z.of_nat i) W) as (k & _ & Hk).
  { unfold nlabels, zlen. lia. }
  exists k. exact Hk.
Qed.

Lemma search_labels_used scan s key : good s -> labels_used (cdb s) (key_labels key) ->
  labels_used (cdb s) (search_labels scan s key).
Proof.
  intros G U l Hl. unfold search_labels, search_labels_d in Hl. apply in_app_iff in Hl.
  destruct Hl as [Hl|Hl]; [auto|]. destruct scan; [|destruct Hl].
  apply filter_In in Hl. apply (all_labels_used _ (proj1 G)). apply Hl.
Qed.

(* SOUNDNESS: whatever _find_rule returns is a candidate re-created from a class it replays,
   and its forest key IS the key *)
Theorem find_rule_sound scan s key s' r v : good s -> labels_used (cdb s) (key_labels key) ->
  find_rule T pack scan s key = (s', Found r v) ->
  good s' /\ grows (cdb s) (cdb s') /\
  (exists l c, In l (search_labels scan s key) /\ lbl (cdb s') c = Some l /\
               In r (rules_for_class T pack c)) /\
  In v (variants_of T r) /\ labelled (cdb s') (cclasses r v) /\ ckey (cdb s') r v = key.
Proof.
  intros G U. pose proof (search_labels_used scan s key G U) as U'.
  unfold find_rule. destruct key as [| | | | | | | | |p cs sh b]; try discriminate.
  destruct (find_classes T pack s _ (EvKey p cs sh b)) as [s1 o] eqn:E.
  destruct (find_classes_spec _ _ _ _ _ G U' E) as (G1 & X1 & H).
  destruct o as [[r' v']|]; [|discriminate]. intros [= <- <- <-].
  destruct H as (A & B & C & D). auto 6.
Qed.

(* re-evaluating the forest key of the returned rule gives the key again *)
Lemma accepted_cand_key s key r v : good s -> labelled (cdb s) (cclasses r v) ->
  ckey (cdb s) r v = key -> exists s', cand_key T s r v = (s', key) /\ good s'.
Proof.
  intros G L E. destruct (cand_key T s r v) as [s' k] eqn:Ek.
  destruct (cand_key_good _ _ _ _ _ G Ek) as (G' & X & _ & ->).
  exists s'. split; auto. rewrite (ckey_stable _ _ _ _ (proj1 G) (proj1 G') X L), E. reflexivity.
Qed.

(* COMPLETENESS: a candidate that has the key in the current view, and that the pack
   re-creates from a class the search replays, makes _find_rule succeed *)
Theorem find_rule_complete scan s key r v c0 l0 : good s -> labels_used (cdb s) (key_labels key) ->
  labelled (cdb s) (cclasses r v) -> ckey (cdb s) r v = key ->
  In v (variants_of T r) ->
  In r (rules_for_class T pack c0) -> lbl (cdb s) c0 = Some l0 -> In l0 (search_labels scan s key) ->
  exists s' r' v', find_rule T pack scan s key = (s', Found r' v').
Proof.
  intros G U L E Hv Hr Hc Hl. pose proof (search_labels_used scan s key G U) as U'.
  unfold find_rule.
  destruct (ckey_is_key (cdb s) r v) as (p & cs & sh & b & Ek). rewrite E in Ek.
  rewrite Ek in U', E, Hl |- *. clear Ek U key.
  destruct (find_classes T pack s _ (EvKey p cs sh b)) as [s1 o] eqn:Ef.
  destruct (find_classes_spec _ _ _ _ _ G U' Ef) as (G1 & X1 & H).
  destruct o as [[r' v']|]; [eauto|].
  exfalso.
  assert (Hc1 : lbl (cdb s1) c0 = Some l0) by (eapply lbl_grows; [apply G|apply G1|exact X1|exact Hc]).
  destruct (H l0 c0 r v Hl Hc1 Hr Hv) as (_ & N). apply N.
  rewrite (ckey_stable _ _ _ _ (proj1 G) (proj1 G1) X1 L). exact E.
Qed.

(* the exact failing case: NotFound means that NO candidate the pack re-creates from the
   classes it replays has the key *)
Theorem find_rule_not_found scan s key s' : good s -> labels_used (cdb s) (key_labels key) ->
  find_rule T pack scan s key = (s', NotFound) ->
  good s' /\ grows (cdb s) (cdb s') /\
  forall l c r v, In l (search_labels scan s key) -> lbl (cdb s') c = Some l ->
    In r (rules_for_class T pack c) -> In v (variants_of T r) ->
    labelled (cdb s') (cclasses r v) /\ ckey (cdb s') r v <> key.
Proof.
  intros G U. pose proof (search_labels_used scan s key G U) as U'.
  unfold find_rule. destruct key as [| | | | | | | | |p cs sh b]; try discriminate.
  destruct (find_classes T pack s _ (EvKey p cs sh b)) as [s1 o] eqn:E.
  destruct (find_classes_spec _ _ _ _ _ G U' E) as (G1 & X1 & H).
  destruct o as [[r' v']|]; [discriminate|]. intros [= <-].
  split; auto.
Qed.

(* _find_rule never dies on a usable state (no KeyError / IndexError inside the class database) *)
Theorem find_rule_good scan s key s' f : good s -> labels_used (cdb s) (key_labels key) ->
  find_rule T pack scan s key = (s', f) -> good s' /\ grows (cdb s) (cdb s').
Proof.
  intros G U. pose proof (search_labels_used scan s key G U) as U'.
  unfold find_rule. destruct key as [| | | | | | | | |p cs sh b];
    try (intros [= <- <-]; split; [auto|apply grows_refl]).
  destruct (find_classes T pack s _ (EvKey p cs sh b)) as [s1 o] eqn:E.
  destruct (find_classes_spec _ _ _ _ _ G U' E) as (G1 & X1 & _). intros [= <- <-]. auto.
Qed.

(* ------------------------------------------------------------ the keys RuleDBForest.add inserts *)
Lemma reverse_keys_good r : forall idxs s s' ks, good s -> reverse_keys T s r idxs = (s', ks) ->
  good s' /\ grows (cdb s) (cdb s') /\
  (forall i, In i idxs -> labelled (cdb s') (cclasses r (VReverse i))) /\
  ks = map (fun i => ckey (cdb s') r (VReverse i)) idxs.
Proof.
  induction idxs as [|i t IH]; intros s s' ks G; simpl.
  - intros [= <- <-]. split; auto. split; [apply grows_refl|]. split; [intros i []|reflexivity].
  - destruct (plain_key T s false _ _ _) as [s1 k] eqn:E1.
    destruct (reverse_keys T s1 r t) as [s2 ks2] eqn:E2. intros [= <- <-].
    destruct (cand_key_good s r (VReverse i) s1 k G E1) as (G1 & X1 & L1 & ->).
    destruct (IH _ _ _ G1 E2) as (G2 & X2 & L2 & ->).
    split; auto. split; [eapply grows_trans; eauto|]. split.
    + intros j [<-|Hj]; [|apply L2; auto].
      eapply labelled_grows; [apply G1|apply G2|exact X2|exact L1].
    + cbn [map]. f_equal. symmetry.
      exact (ckey_stable _ _ r (VReverse i) (proj1 G1) (proj1 G2) X2 L1).
Qed.

(* the list of keys RuleDBForest.add hands to the table method for the rule r *)
Definition add_variants (reverse : bool) (r : rule) : list variant :=
  VNormal :: (if reverse && r_reversible T r then map VReverse (seq 0 (length (kids_of T r))) else []).

Lemma add_variants_in r v : rule_children T r <> None ->
  In v (add_variants true r) -> In v (variants_of T r).
Proof.
  unfold add_variants, variants_of, kids_of. destruct (rule_children T r) as [cs|]; [|congruence].
  intros _. simpl. auto.
Qed.

(* forest_key + reverse_keys, as in Searcher.Model.forest_add *)
Definition add_keys (reverse : bool) (s : st) (r : rule) : st * list event :=
  let '(s2, k0) := forest_key T s r in
  let '(s3, ks) := if reverse && r_reversible T r
                   then reverse_keys T s2 r (seq 0 (length (kids_of T r))) else (s2, []) in
  (s3, k0 :: ks).

Lemma add_keys_good reverse s r s' ks : good s -> add_keys reverse s r = (s', ks) ->
  good s' /\ grows (cdb s) (cdb s') /\
  (forall v, In v (add_variants reverse r) -> labelled (cdb s') (cclasses r v)) /\
  ks = map (ckey (cdb s') r) (add_variants reverse r).
Proof.
  intros G. unfold add_keys, add_variants.
  destruct (forest_key T s r) as [s2 k0] eqn:E0.
  destruct (cand_key_good s r VNormal s2 k0 G E0) as (G2 & X2 & L2 & ->).
  destruct (reverse && r_reversible T r).
  - destruct (reverse_keys T s2 r _) as [s3 ks3] eqn:E3. intros [= <- <-].
    destruct (reverse_keys_good _ _ _ _ _ G2 E3) as (G3 & X3 & L3 & ->).
    split; auto. split; [eapply grows_trans; eauto|]. split.
    + intros v [<-|Hv].
      * eapply labelled_grows; [apply G2|apply G3|exact X3|exact L2].
      * apply in_map_iff in Hv. destruct Hv as (i & <- & Hi). apply L3; auto.
    + cbn [map]. f_equal; [symmetry; exact (ckey_stable _ _ r VNormal (proj1 G2) (proj1 G3) X3 L2)|].
      rewrite map_map. reflexivity.
  - intros [= <- <-]. split; auto. split; auto. split.
    + intros v [<-|[]]. exact L2.
    + reflexivity.
Qed.

(* add_keys IS the key computation of Searcher.Model.forest_add (the model of RuleDBForest.add):
   after _add_empty_rule, forest_add emits exactly the keys add_keys computes, as EvKey events *)
Lemma forest_add_is_add_keys mode ar s start ends r :
  forest_add T mode ar s start ends r =
  (let s1 := if r_pe T r then add_empty_rules T ar s (combine ends (kids_of T r)) else s in
   let '(s3, ks) := add_keys (mode =? 2) s1 r in emits ks s3).
Proof.
  unfold forest_add, add_keys. cbv zeta.
  destruct (forest_key T _ r) as [s2 k0].
  destruct ((mode =? 2) && r_reversible T r); [destruct (reverse_keys T s2 r _)|]; reflexivity.
Qed.

(* THE ROUND TRIP.  s0: the state in which RuleDBForest.add computes the keys of the rule r;
   s: any later usable state whose view grew from the one the keys were computed in (labels
   are never changed; the emptiness answers are the same - which is the case when nobody
   overwrote the cache with a different value, e.g. under the strategy contracts of C04);
   c0: a class carrying a label of the key on which the pack (re-)creates r.  Then _find_rule
   answers with a rule whose forest key, evaluated again in the state it leaves, is the key. *)
Theorem find_rule_total scan reverse s0 r s1 ks s key c0 l0 :
  good s0 -> rule_children T r <> None ->
  add_keys reverse s0 r = (s1, ks) -> In key ks ->
  good s -> grows (cdb s1) (cdb s) ->
  In r (rules_for_class T pack c0) -> lbl (cdb s) c0 = Some l0 -> In l0 (search_labels scan s key) ->
  labels_used (cdb s) (key_labels key) ->
  exists s' r' v', find_rule T pack scan s key = (s', Found r' v') /\ good s' /\
    In v' (variants_of T r') /\
    (exists l c, In l (search_labels scan s key) /\ lbl (cdb s') c = Some l /\
                 In r' (rules_for_class T pack c)) /\
    exists s'', cand_key T s' r' v' = (s'', key) /\ good s''.
Proof.
  intros G0 Hch Ea Hk G X Hr Hc Hl U.
  destruct (add_keys_good _ _ _ _ _ G0 Ea) as (G1 & X1 & L1 & ->).
  apply in_map_iff in Hk. destruct Hk as (v & Ev & Hv).
  assert (Hv' : In v (variants_of T r)).
  { apply add_variants_in; auto. unfold add_variants in *. destruct reverse; simpl in *; auto.
    destruct Hv as [<-|[]]. left; reflexivity. }
  pose proof (L1 v Hv) as Lv.
  assert (Lv' : labelled (cdb s) (cclasses r v)).
  { eapply labelled_grows; [apply G1|apply G|exact X|exact Lv]. }
  assert (Ev' : ckey (cdb s) r v = key).
  { rewrite (ckey_stable _ _ _ _ (proj1 G1) (proj1 G) X Lv). exact Ev. }
  destruct (find_rule_complete scan s key r v c0 l0 G U Lv' Ev' Hv' Hr Hc Hl) as (s' & r' & v' & Ef).
  destruct (find_rule_sound _ _ _ _ _ _ G U Ef) as (G' & X' & A & B & C & D).
  exists s', r', v'. split; auto. split; auto. split; auto. split; auto.
  apply accepted_cand_key; auto.
Qed.

(* with the proposed repair (scan = true) there is NO failing case: the class the rule was
   produced from only needs to have a label *)
Theorem find_rule_total_scan reverse s0 r s1 ks s key c0 l0 :
  good s0 -> rule_children T r <> None ->
  add_keys reverse s0 r = (s1, ks) -> In key ks ->
  good s -> grows (cdb s1) (cdb s) ->
  In r (rules_for_class T pack c0) -> lbl (cdb s) c0 = Some l0 ->
  labels_used (cdb s) (key_labels key) ->
  exists s' r' v', find_rule T pack true s key = (s', Found r' v') /\ good s' /\
    exists s'', cand_key T s' r' v' = (s'', key) /\ good s''.
Proof.
  intros G0 Hch Ea Hk G X Hr Hc U.
  assert (Hl : In l0 (search_labels true s key)).
  { unfold search_labels, search_labels_d. apply in_app_iff.
    destruct (mem l0 (key_labels key)) eqn:Em.
    - left. unfold mem in Em. apply existsb_exists in Em. destruct Em as (y & Hy & Ey).
      apply Z.eqb_eq in Ey. subst y. exact Hy.
    - right. apply filter_In. split; [|rewrite Em; reflexivity].
      destruct (label_of_range Z.eqb Zeqb_spec (fun c : Z => c) (cdb s) c0 l0 (proj1 G) Hc) as ((H0 & H1) & _).
      unfold all_labels. apply in_map_iff. exists (Z.to_nat l0). split; [lia|].
      apply in_seq. unfold nlabels, zlen in H1. lia. }
  destruct (find_rule_total true reverse s0 r s1 ks s key c0 l0 G0 Hch Ea Hk G X Hr Hc Hl U)
    as (s' & r' & v' & Ef & G' & _ & _ & Hk').
  exists s', r', v'. auto.
Qed.

(* ------------------------------------------------------------ rules() *)
Lemma accepted_grows d d' key r v : WFd d -> WFd d' -> grows d d' ->
  accepted d key r v -> accepted d' key r v.
Proof.
  intros W W' G (L & E). split; [exact (labelled_grows _ _ _ W W' G L)|].
  rewrite (ckey_stable _ _ _ _ W W' G L). exact E.
Qed.

Definition cache_ok (d : @db Z) (cd : list (event * (rule * variant))) : Prop :=
  forall k r v, In (k, (r, v)) cd -> accepted d k r v.

Lemma cache_ok_grows d d' cd : WFd d -> WFd d' -> grows d d' -> cache_ok d cd -> cache_ok d' cd.
Proof. intros W W' G H k r v Hin. exact (accepted_grows _ _ _ _ _ W W' G (H k r v Hin)). Qed.

Lemma cache_keys_spec : forall cache s s' cd, good s -> cache_keys T s cache = (s', cd) ->
  good s' /\ grows (cdb s) (cdb s') /\ cache_ok (cdb s') cd /\ map snd cd = cache.
Proof.
  induction cache as [|[r v] t IH]; intros s s' cd G; simpl.
  - intros [= <- <-]. split; auto. split; [apply grows_refl|]. split; [intros k r v []|reflexivity].
  - destruct (cand_key T s r v) as [s1 k] eqn:E1.
    destruct (cache_keys T s1 t) as [s2 ks] eqn:E2. intros [= <- <-].
    destruct (cand_key_good _ _ _ _ _ G E1) as (G1 & X1 & L1 & ->).
    destruct (IH _ _ _ G1 E2) as (G2 & X2 & C2 & M2).
    split; auto. split; [eapply grows_trans; eauto|]. split.
    + intros k' r' v' [H|H]; [|apply C2; auto]. injection H as <- <- <-.
      apply (accepted_grows (cdb s1)); [apply G1|apply G2|exact X2|]. split; auto.
    + simpl. rewrite M2. reflexivity.
Qed.

Lemma cache_get_in cd key r v : cache_get cd key = Some (r, v) -> In (key, (r, v)) cd.
Proof.
  induction cd as [|[k x] t IH]; simpl; [discriminate|].
  destruct (cache_get t key) as [y|] eqn:E.
  - intros [= ->]. right. apply IH. reflexivity.
  - destruct (key_eqb k key) eqn:Ek; [|discriminate]. intros [= ->].
    apply key_eqb_eq in Ek. subst k. left. reflexivity.
Qed.

(* what rules() did with the needed keys: every key it got past was answered by a rule
   that HAS that key (from the cache or from _find_rule), in order; it stops at the first
   key no candidate re-created from the classes of the key has *)
Inductive served (scan : bool) (d : @db Z) : list event -> list orule -> option event -> Prop :=
| sv_nil : served scan d [] [] None
| sv_fail k t d0 :          (* d0: the class database when _find_rule was called *)
    grows d0 d ->
    (forall l c r v, In l (search_labels_d scan d0 k) -> lbl d c = Some l ->
       In r (rules_for_class T pack c) -> In v (variants_of T r) -> ckey d r v <> k) ->
    served scan d (k :: t) [] (Some k)
| sv_cons k t r v out e :
    accepted d k r v -> served scan d t out e -> served scan d (k :: t) (post k r v ++ out) e.

Lemma rules_loop_spec scan cd : forall needed s s' out e, good s -> cache_ok (cdb s) cd ->
  (forall k, In k needed -> labels_used (cdb s) (key_labels k)) ->
  rules_loop T pack scan s cd needed = (s', out, e) ->
  good s' /\ grows (cdb s) (cdb s') /\ served scan (cdb s') needed out e.
Proof.
  induction needed as [|k t IH]; intros s s' out e G C U; simpl.
  - intros [= <- <- <-]. split; auto. split; [apply grows_refl|constructor].
  - assert (Ut : forall s1, good s1 -> grows (cdb s) (cdb s1) ->
                   forall k', In k' t -> labels_used (cdb s1) (key_labels k')).
    { intros s1 G1 X1 k' Hk'. eapply labels_used_grows; [apply G|apply G1|exact X1|].
      apply U. simpl; auto. }
    destruct (cache_get cd k) as [[r v]|] eqn:Eg.
    + destruct (rules_loop T pack scan s cd t) as [[s1 out1] e1] eqn:E1. intros [= <- <- <-].
      destruct (IH _ _ _ _ G C (Ut s G (grows_refl _)) E1) as (G1 & X1 & S1).
      split; auto. split; auto. constructor; auto.
      apply (accepted_grows (cdb s)); [apply G|apply G1|exact X1|].
      apply C. apply cache_get_in. exact Eg.
    + destruct (find_rule T pack scan s k) as [s1 f] eqn:Ef.
      pose proof (U k (or_introl eq_refl)) as Uk.
      destruct (find_rule_good _ _ _ _ _ G Uk Ef) as (G1 & X1).
      destruct f as [r v| |].
      * destruct (rules_loop T pack scan s1 cd t) as [[s2 out2] e2] eqn:E2. intros [= <- <- <-].
        destruct (find_rule_sound _ _ _ _ _ _ G Uk Ef) as (_ & _ & _ & _ & L & E).
        destruct (IH _ _ _ _ G1 (cache_ok_grows _ _ _ (proj1 G) (proj1 G1) X1 C) (Ut s1 G1 X1) E2)
          as (G2 & X2 & S2).
        split; auto. split; [eapply grows_trans; eauto|]. constructor; auto.
        apply (accepted_grows (cdb s1)); [apply G1|apply G2|exact X2|split; auto].
      * intros [= <- <- <-]. split; auto. split; auto. apply (sv_fail _ _ _ _ (cdb s)); auto.
        destruct (find_rule_not_found _ _ _ _ G Uk Ef) as (_ & X & N).
        intros l c r v Hl Hc Hr Hv. apply (proj2 (N l c r v Hl Hc Hr Hv)).
      * intros [= <- <- <-]. split; auto. split; auto. apply (sv_fail _ _ _ _ (cdb s)); auto.
        intros l c r v _ _ _ _ E. destruct (ckey_is_key (cdb s1) r v) as (p & cs & sh & b & Ek).
        unfold find_rule in Ef. destruct k; try (rewrite Ek in E; discriminate E).
        destruct (find_classes T pack s _ _) as [s2 [[r0 v0]|]]; discriminate Ef.
Qed.

(* rules(cache): every rule handed out HAS the key it was picked for *)
Theorem rules_served scan s cache needed s' out e : good s ->
  (forall k, In k needed -> labels_used (cdb s) (key_labels k)) ->
  rules T pack scan s cache needed = (s', out, e) ->
  good s' /\ grows (cdb s) (cdb s') /\ served scan (cdb s') needed out e.
Proof.
  intros G U. unfold rules. destruct (cache_keys T s cache) as [s1 cd] eqn:E1.
  destruct (cache_keys_spec _ _ _ _ G E1) as (G1 & X1 & C1 & _). intros H.
  assert (U1 : forall k, In k needed -> labels_used (cdb s1) (key_labels k)).
  { intros k Hk. eapply labels_used_grows; [apply G|apply G1|exact X1|auto]. }
  destruct (rules_loop_spec _ _ _ _ _ _ _ G1 C1 U1 H) as (G2 & X2 & S2).
  split; auto. split; [eapply grows_trans; eauto|auto].
Qed.

(* ------------------------------------------------------------ when does the view grow *)
(* truthful caches (C04_empty_cache_truthful, under the table contracts): every is_empty
   answer is the class's own answer, so any two such views of one run grow *)
Lemma empv_EOK d c : WFd d -> EmptyOK (fun k : Z => k) oracle d -> empv d c = oracle c.
Proof.
  intros W E. unfold empv. destruct (lbl d c) as [l|] eqn:El; [|reflexivity].
  destruct (nth_error (empties d) (Z.to_nat l)) as [[b|]|] eqn:En; try reflexivity.
  destruct (label_of_range Z.eqb Zeqb_spec (fun c : Z => c) d c l W El) as (_ & Hn).
  exact (E _ _ _ Hn En).
Qed.

Lemma grows_of_EOK d d' : WFd d -> WFd d' -> extends d d' ->
  EmptyOK (fun k : Z => k) oracle d -> EmptyOK (fun k : Z => k) oracle d' -> grows d d'.
Proof.
  intros W W' X E E'. split; auto. intros c. rewrite !empv_EOK; auto.
Qed.

(* ------------------------------------------------------------ who can fail *)
(* a rule a NON-factory strategy yields on a class has that class as its parent, and so does
   the strategy a factory yields as such; the only rules with another parent are the READY
   rules of factories (item with `on = Some p`) *)
Lemma rules_of_item_parent c it r : In r (rules_of_item T c it) ->
  r_parent r = c \/ (exists p, i_on it = Some p /\ r_parent r = p).
Proof.
  unfold rules_of_item. destruct (i_on it) as [p|].
  - intros H. right. exists p. split; auto.
    destruct (i_lazy it); [|destruct (applies T (i_sid it) p)]; simpl in H;
      try (destruct H as [<-|[]]; reflexivity); destruct H.
  - destruct (applies T (i_sid it) c); simpl; [intros [<-|[]]; left; reflexivity|intros []].
Qed.

Lemma rules_from_strategy_parent sid c r x :
  In r (rules_from_strategy T sid c) -> strat_of T sid = Some x -> s_kind x <> 1 -> r_parent r = c.
Proof.
  unfold rules_from_strategy. intros H E N. rewrite E in H.
  destruct (s_kind x =? 1) eqn:K; [apply Z.eqb_eq in K; contradiction|].
  destruct (applies T sid c); [destruct H as [<-|[]]; reflexivity|destruct H].
Qed.

Lemma labz_in_key d r v : In (labz d (r_parent r)) (key_labels (ckey d r v)).
Proof.
  unfold key_labels. destruct v as [|i]; simpl.
  - destruct (r_kind r); simpl; auto.
  - right. simpl. auto.
Qed.

(* so: a key computed from a rule whose parent is the class the pack re-creates it from
   (every rule of a plain / verification / symmetry strategy of the pack, every strategy a
   factory yields as such, every ready rule a factory yields for the class itself) is ALWAYS
   re-created; the failing case needs a ready rule with a FOREIGN parent produced only from
   classes whose labels are not in the key *)
Theorem find_rule_total_own_parent scan reverse s0 r s1 ks s key l0 :
  good s0 -> rule_children T r <> None ->
  add_keys reverse s0 r = (s1, ks) -> In key ks ->
  good s -> grows (cdb s1) (cdb s) ->
  In r (rules_for_class T pack (r_parent r)) -> lbl (cdb s) (r_parent r) = Some l0 ->
  labels_used (cdb s) (key_labels key) ->
  exists s' r' v', find_rule T pack scan s key = (s', Found r' v') /\ good s' /\
    exists s'', cand_key T s' r' v' = (s'', key) /\ good s''.
Proof.
  intros G0 Hch Ea Hk G X Hr Hc U.
  assert (Hl : In l0 (key_labels key)).
  { destruct (add_keys_good _ _ _ _ _ G0 Ea) as (G1 & X1 & L1 & ->).
    apply in_map_iff in Hk. destruct Hk as (v & <- & Hv).
    assert (E : labz (cdb s1) (r_parent r) = l0).
    { assert (Hp : lbl (cdb s1) (r_parent r) <> None).
      { apply (L1 v Hv). destruct v; simpl; auto. }
      rewrite <- (labz_grows _ _ _ (proj1 G1) (proj1 G) X Hp). unfold labz. rewrite Hc. reflexivity. }
    rewrite <- E. apply labz_in_key. }
  assert (Hl' : In l0 (search_labels scan s key)).
  { unfold search_labels, search_labels_d. apply in_app_iff. auto. }
  destruct (find_rule_total scan reverse s0 r s1 ks s key (r_parent r) l0 G0 Hch Ea Hk G X Hr Hc Hl' U)
    as (s' & r' & v' & Ef & G' & _ & _ & Hk').
  exists s', r', v'. auto.
Qed.

End P.
