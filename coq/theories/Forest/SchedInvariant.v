(* Layer S (SchedDefs.v): run invariants and their preservation by one
   iteration of the loop of _process_queue under ANY schedule.  Port of
   Forest/Invariant.v + the loop part of Forest/Correct.v; what changes:
   - the re-queue list is any l with rq_ok, the held set is released in any order;
   - CoreS only asks the children of rules with a FINITE parent to lie inside
     the value table (the code never looks the others up); the soundness of
     _set_infinite then needs SpecLive.gap_lemma_live instead of Spec.gap_lemma. *)
From Coq Require Import ZArith List Bool Lia Permutation.
From CSS Require Import Base.PyList Forest.Spec Forest.SpecLive Forest.Model Forest.Basics
  Forest.Invariant Forest.Correct Forest.TerminationDefs Forest.SchedDefs.
Import ListNotations.
Open Scope Z_scope.

Record CoreS (st : tm) : Prop := {
  s_fin : forall c n, getf (fn st) c = Some n -> 0 <= n /\ derivable (rules st) c n;
  s_inf : forall c, getf (fn st) c = None -> pumps (rules st) c;
  s_dom : forall r, In r (rules st) ->
          (parent r < length (fn st))%nat /\
          (getf (fn st) (parent r) <> None ->
           forall c s, In (c, s) (kids r) -> (c < length (fn st))%nat);
  s_g : 1 <= gsize st /\
        forall r c s, In r (rules st) -> In (c, s) (kids r) -> - gsize st <= s <= gsize st;
  s_held : forall j, In j (held st) -> forall n,
           getf (fn st) (parent (rule_at st j)) = Some n -> snd (cgap st) < n;
  s_idx : (forall j, In j (queue st) -> (j < length (rules st))%nat) /\
          (forall j, In j (held st) -> (j < length (rules st))%nat)
}.

Definition InvS (st : tm) (extra : list nat) : Prop := CoreS st /\ Work st extra /\ Gap st.

(* layer A's invariant is the special case where every child is inside the table *)
Lemma Core_CoreS st : Core st -> CoreS st.
Proof.
  intros C. constructor; try apply C.
  intros r Hr. destruct (c_dom st C r Hr) as [A B]. split; auto.
Qed.

Lemma Inv_InvS st e : Inv st e -> InvS st e.
Proof. intros (C & W & G). split; [apply Core_CoreS; auto|split; auto]. Qed.

Lemma fire_derivable_s st r p : CoreS st -> In r (rules st) ->
  can_fire (fn st) r = true -> getf (fn st) (parent r) = Some p ->
  derivable (rules st) (parent r) (p + 1).
Proof.
  intros C Hr Hf Hp. destruct (can_fire_true _ _ Hf) as (p' & Hp' & Hk).
  rewrite Hp in Hp'. injection Hp' as <-.
  apply der_rule; auto. intros c s Hin.
  destruct (Hk c s Hin) as [Hn|(v & Hv & Hlt)].
  - apply (s_inf st C c Hn).
  - destruct (s_fin st C c v Hv) as [_ D]. eapply derivable_mono; eauto. lia.
Qed.

(* rq_ok only reads the rule list *)
Lemma requeue_rules_s s s' f c : rules s = rules s' -> requeue s f c = requeue s' f c.
Proof. intros E. unfold requeue, rule_at. rewrite E. reflexivity. Qed.

Lemma rq_ok_rules s s' f c l : rules s = rules s' -> rq_ok s f c l -> rq_ok s' f c l.
Proof.
  intros E (A & B & D). unfold rq_ok. rewrite <- E, <- (requeue_rules_s s s' f c E). auto.
Qed.

Lemma filter_len_s {A} (p : A -> bool) l : (length (filter p l) <= length l)%nat.
Proof. induction l as [|a l IH]; simpl; [lia|destruct (p a); simpl; lia]. Qed.

Lemma slots_ge_len ks : zl ks <= slots ks.
Proof.
  unfold zl. induction ks as [|r ks IH]; [simpl; lia|].
  change (slots (r :: ks)) with (1 + zl (kids r) + slots ks). unfold zl. simpl length. lia.
Qed.

Lemma rq_ok_requeue st f c : rq_ok st f c (requeue st f c).
Proof.
  split; [auto|]. split.
  - intros j Hj. apply in_requeue in Hj. apply Hj.
  - unfold requeue, zl.
    pose proof (filter_len_s (fun i => mentions c (rule_at st i) && can_fire f (rule_at st i))
                  (seq 0 (length (rules st)))) as H.
    rewrite seq_length in H.
    pose proof (slots_ge_len (rules st)) as Hs. unfold zl in Hs. lia.
Qed.

(* ---- _correct_gap, any release order ---- *)
Lemma correct_gap_s_fields st h' : Permutation h' (held st) ->
  rules (correct_gap_s st h') = rules st /\ fn (correct_gap_s st h') = fn st /\
  gsize (correct_gap_s st h') = gsize st /\
  (forall j, In j (queue st) \/ In j (held st) <->
             In j (queue (correct_gap_s st h')) \/ In j (held (correct_gap_s st h'))) /\
  fst (cgap (correct_gap_s st h')) = preimage_gap (fn st) (gsize st) /\
  snd (cgap (correct_gap_s st h')) = preimage_gap (fn st) (gsize st) + gsize st - 1 /\
  ((held (correct_gap_s st h') = [] ) \/
   (held (correct_gap_s st h') = held st /\ queue (correct_gap_s st h') = queue st /\
    snd (cgap (correct_gap_s st h')) <= snd (cgap st))).
Proof.
  intros P. unfold correct_gap_s.
  destruct (snd (cgap st) <? snd (preimage_gap (fn st) (gsize st),
                                   preimage_gap (fn st) (gsize st) + gsize st - 1)) eqn:E;
    simpl in *; csplit; auto.
  - intros j. rewrite in_app_iff. simpl.
    split.
    + intros [H|H]; [left; left; auto|left; right; eapply Permutation_in; [apply Permutation_sym|]; eauto].
    + intros [[H|H]|[]]; [left; auto|right; eapply Permutation_in; eauto].
  - intros j. tauto.
  - right. csplit; auto. lia.
Qed.

Lemma correct_gap_s_core st h' : Permutation h' (held st) -> CoreS st ->
  CoreS (correct_gap_s st h') /\ Gap (correct_gap_s st h').
Proof.
  intros P C. destruct (correct_gap_s_fields st h' P) as (Er & Ef & Eg & Eq & Ek & Ee & Eh).
  destruct (gap_fresh (fn st) (gsize st) (proj1 (s_g st C))) as [Hk0 Hok].
  split.
  - constructor; rewrite ?Er, ?Ef, ?Eg; try apply C.
    + intros j Hj n Hn. unfold rule_at in Hn. rewrite Er in Hn.
      destruct Eh as [Eh|(Eh & _ & Hle)]; [rewrite Eh in Hj; destruct Hj|].
      rewrite Eh in Hj. pose proof (s_held st C j Hj n Hn). lia.
    + destruct (s_idx st C) as [A B]. split; intros j Hj.
      * destruct (proj2 (Eq j) (or_introl Hj)); auto.
      * destruct (proj2 (Eq j) (or_intror Hj)); auto.
  - unfold Gap. rewrite Ek, Ee, Ef, Eg. csplit; auto.
Qed.

Lemma keep_gap_s st : 1 <= gsize st ->
  snd (cgap st) = fst (cgap st) + gsize st - 1 ->
  fst (cgap st) = preimage_gap (fn st) (gsize st) ->
  Gap st.
Proof.
  intros Hg Hs Hk.
  destruct (gap_fresh (fn st) (gsize st) Hg) as [Hk0 Hok].
  unfold Gap. rewrite Hk. csplit; auto. rewrite <- Hk. auto.
Qed.

(* ---- _increase_value, any re-queue list ---- *)
Lemma increase_value_s_inv st i h' l : InvS st [i] -> (i < length (rules st))%nat ->
  can_fire (fn st) (rule_at st i) = true ->
  Permutation h' (held st) ->
  (forall v, getf (fn st) (parent (rule_at st i)) = Some v ->
             rq_ok st (upd (fn st) (parent (rule_at st i)) (Some (v + 1))) (parent (rule_at st i)) l) ->
  InvS (increase_value_s st (parent (rule_at st i)) i h' l) [].
Proof.
  intros (C & W & G) Hi Hf HP Hl.
  destruct (can_fire_true _ _ Hf) as (p & Hp & Hk).
  specialize (Hl p Hp).
  set (c := parent (rule_at st i)) in *.
  unfold increase_value_s. rewrite Hp.
  destruct (snd (cgap st) <? p) eqn:Eheld.
  - (* the rule is put on hold *)
    split; [|split; [|exact G]].
    + constructor; simpl; try apply C.
      * intros j Hj n Hn. apply in_add_held in Hj. destruct Hj as [Hj| ->].
        -- apply (s_held st C j Hj n Hn).
        -- unfold rule_at in Hn. simpl in Hn. fold (rule_at st i) in Hn. fold c in Hn.
           rewrite Hp in Hn. injection Hn as <-. lia.
      * destruct (s_idx st C) as [A B]. split; auto. intros j Hj.
        apply in_add_held in Hj. destruct Hj as [Hj| ->]; auto.
    + intros j Hj Hfj. simpl in *. destruct (W j Hj Hfj) as [H|[H|[->|[]]]]; auto.
      * right; left. apply in_add_held; auto.
      * right; left. apply in_add_held; auto.
  - (* the value really increases *)
    assert (c < length (fn st))%nat as Hc.
    { apply (s_dom st C (rule_at st i) (rule_at_In st i Hi)). }
    set (f' := upd (fn st) c (Some (p + 1))) in *.
    set (st1 := mktm (rules st) f' (gsize st) (cgap st) (queue st) (held st)).
    assert (CoreS st1) as C1.
    { constructor; simpl.
      - intros c' n Hn. destruct (Nat.eq_dec c c') as [<-|Hne].
        + unfold f' in Hn. rewrite getf_upd_same in Hn by auto. injection Hn as <-.
          destruct (s_fin st C c p Hp) as [Hp0 _]. split; [lia|].
          apply (fire_derivable_s st (rule_at st i) p C (rule_at_In st i Hi) Hf Hp).
        + unfold f' in Hn. rewrite getf_upd_other in Hn by auto. apply (s_fin st C c' n Hn).
      - intros c' Hn. destruct (Nat.eq_dec c c') as [<-|Hne].
        + unfold f' in Hn. rewrite getf_upd_same in Hn by auto. discriminate.
        + unfold f' in Hn. rewrite getf_upd_other in Hn by auto. apply (s_inf st C c' Hn).
      - intros r Hr. unfold f'. rewrite length_upd. destruct (s_dom st C r Hr) as [A B].
        split; auto. intros Hlive. apply B.
        destruct (Nat.eq_dec c (parent r)) as [E|Hne].
        + rewrite <- E, Hp. discriminate.
        + rewrite getf_upd_other in Hlive by auto. exact Hlive.
      - apply C.
      - intros j Hj n Hn. unfold rule_at in Hn; simpl in Hn. fold (rule_at st j) in Hn.
        destruct (Nat.eq_dec c (parent (rule_at st j))) as [E|Hne].
        + rewrite <- E in Hn. unfold f' in Hn. rewrite getf_upd_same in Hn by auto.
          injection Hn as <-. rewrite E in Hp. pose proof (s_held st C j Hj p Hp). lia.
        + unfold f' in Hn. rewrite getf_upd_other in Hn by auto. apply (s_held st C j Hj n Hn).
      - apply C. }
    destruct Hl as (Hl1 & Hl2 & _).
    assert (forall st2, rules st2 = rules st -> fn st2 = f' ->
              (forall j, In j (queue st1) \/ In j (held st1) -> In j (queue st2) \/ In j (held st2)) ->
              Work (mktm (rules st2) (fn st2) (gsize st2) (cgap st2)
                         (queue st2 ++ l) (held st2)) []) as HW.
    { intros st2 Er Ef Hq j Hj Hfj. simpl in *. rewrite Er in Hj.
      unfold rule_at in Hfj; simpl in Hfj. rewrite Er, Ef in Hfj. fold (rule_at st j) in Hfj.
      destruct (mentions c (rule_at st j)) eqn:Em.
      - left. apply in_app_iff. right. apply Hl1. apply in_requeue. csplit; auto.
      - unfold f' in Hfj. rewrite can_fire_unmentioned in Hfj by auto.
        destruct (W j Hj Hfj) as [H|[H|[->|[]]]].
        + destruct (Hq j (or_introl H)); auto. left. apply in_app_iff; auto.
        + destruct (Hq j (or_intror H)); auto. left. apply in_app_iff; auto.
        + unfold c in Em. rewrite mentions_parent in Em. discriminate. }
    assert (forall st2, CoreS st2 -> Gap st2 -> rules st2 = rules st -> fn st2 = f' ->
              (forall j, In j (queue st1) \/ In j (held st1) -> In j (queue st2) \/ In j (held st2)) ->
              InvS (mktm (rules st2) (fn st2) (gsize st2) (cgap st2)
                         (queue st2 ++ l) (held st2)) []) as HI.
    { intros st2 C2 G2 Er Ef Hq. split; [|split; [exact (HW st2 Er Ef Hq)|exact G2]].
      constructor; simpl; try apply C2.
      destruct (s_idx st2 C2) as [A B]. split; auto.
      intros j Hj. apply in_app_iff in Hj. destruct Hj as [Hj|Hj]; auto.
      rewrite Er. auto. }
    destruct G as (Gk & Gs & Gok).
    destruct (fst (cgap st) =? preimage_gap f' (gsize st)) eqn:Eg.
    + apply Z.eqb_eq in Eg.
      apply (HI st1 C1); auto. apply keep_gap_s; auto. apply (s_g st C).
    + assert (Permutation h' (held st1)) as HP1 by exact HP.
      destruct (correct_gap_s_core st1 h' HP1 C1) as [C2 G2].
      destruct (correct_gap_s_fields st1 h' HP1) as (Er & Ef & _ & Eq & _).
      apply (HI (correct_gap_s st1 h') C2 G2 Er Ef). intros j Hj. apply Eq; auto.
Qed.

(* ---- the gap lemma applied to a state (children of dead rules may lie outside the table) ---- *)
Lemma gap_pumps_s st c n : CoreS st ->
  0 <= fst (cgap st) ->
  (forall c n, (c < length (fn st))%nat -> getf (fn st) c = Some n ->
               n < fst (cgap st) \/ fst (cgap st) + gsize st <= n) ->
  (forall r n', In r (rules st) -> getf (fn st) (parent r) = Some n' -> n' < fst (cgap st) ->
                can_fire (fn st) r = false) ->
  getf (fn st) c = Some n -> fst (cgap st) + gsize st <= n -> pumps (rules st) c.
Proof.
  intros C Hk Hgap Hlow Hc Hn.
  apply (gap_lemma_live (rules st) (getf (fn st)) (fun c => (c < length (fn st))%nat)
                   (fst (cgap st)) (gsize st)) with (n := n); auto.
  - apply (s_g st C).
  - intros r c' s Hr Hlive Hin. apply (proj2 (s_dom st C r Hr) Hlive c' s Hin).
  - apply (s_g st C).
  - intros c' n' H. apply (s_fin st C c' n' H).
  - apply (s_inf st C).
  - intros c' n' H. apply (s_fin st C c' n' H).
  - intros r n' Hr Hp Hlt. apply (can_fire_false _ _ _ (Hlow r n' Hr Hp Hlt) Hp).
Qed.

(* ---- _set_infinite, any re-queue list ---- *)
Lemma set_infinite_s_inv st n l : InvS st [] -> queue st = [] -> (n < length (held st))%nat ->
  let i := nth n (held st) O in
  let st1 := mktm (rules st) (fn st) (gsize st) (cgap st) [] (remove_at n (held st)) in
  (getf (fn st) (parent (rule_at st i)) <> None ->
   rq_ok st (upd (fn st) (parent (rule_at st i)) None) (parent (rule_at st i)) l) ->
  InvS (set_infinite_s st1 (parent (rule_at st1 i)) l) [].
Proof.
  intros (C & W & G) Hq Hn i st1 Hl.
  assert (In i (held st)) as Hi by (apply nth_In; auto).
  assert (i < length (rules st))%nat as Hil by (apply (s_idx st C); auto).
  set (c := parent (rule_at st i)) in *.
  assert (rule_at st1 i = rule_at st i) as Er by reflexivity.
  rewrite Er. fold c.
  assert (CoreS st1) as C1.
  { constructor; simpl; try apply C.
    - intros j Hj. apply (s_held st C j (in_remove_at _ _ _ Hj)).
    - split; [intros j []|]. intros j Hj. apply (s_idx st C). eapply in_remove_at; eauto. }
  unfold set_infinite_s. simpl.
  destruct (getf (fn st) c) as [v|] eqn:Hv.
  - (* the class becomes infinite *)
    destruct (Hl ltac:(discriminate)) as (Hl1 & Hl2 & _).
    pose proof (s_held st C i Hi v Hv) as Hgt.
    destruct G as (Gk & Gs & Gok).
    assert (c < length (fn st))%nat as Hc.
    { apply (s_dom st C (rule_at st i) (rule_at_In st i Hil)). }
    assert (pumps (rules st) c) as Hp.
    { destruct Gok as [Hgap|[Hk0 Hz]].
      - apply (gap_pumps_s st c v C Gk Hgap); auto; [|lia].
        intros r n' Hr Hpn Hlt. destruct (can_fire (fn st) r) eqn:Ef; auto. exfalso.
        destruct (In_rule_at st r Hr) as (j & Hj & Ej). rewrite <- Ej in Ef.
        destruct (W j Hj Ef) as [H|[H|[]]]; [rewrite Hq in H; destruct H|].
        rewrite <- Ej in Hpn. pose proof (s_held st C j H n' Hpn).
        pose proof (proj1 (s_g st C)). lia.
      - pose proof (Hz c v Hc Hv). pose proof (proj1 (s_g st C)). lia. }
    set (f' := upd (fn st) c None) in *.
    split; [|split].
    + constructor; simpl.
      * intros c' n' H. destruct (Nat.eq_dec c c') as [<-|Hne].
        -- unfold f' in H. rewrite getf_upd_same in H by auto. discriminate.
        -- unfold f' in H. rewrite getf_upd_other in H by auto. apply (s_fin st C c' n' H).
      * intros c' H. destruct (Nat.eq_dec c c') as [<-|Hne]; auto.
        unfold f' in H. rewrite getf_upd_other in H by auto. apply (s_inf st C c' H).
      * intros r Hr. unfold f'. rewrite length_upd. destruct (s_dom st C r Hr) as [A B].
        split; auto. intros Hlive. apply B.
        destruct (Nat.eq_dec c (parent r)) as [E|Hne].
        -- rewrite <- E in Hlive. rewrite getf_upd_same in Hlive by auto. congruence.
        -- rewrite getf_upd_other in Hlive by auto. exact Hlive.
      * apply C.
      * intros j Hj n' Hn'. unfold rule_at in Hn'; simpl in Hn'. fold (rule_at st j) in Hn'.
        destruct (Nat.eq_dec c (parent (rule_at st j))) as [E|Hne].
        -- rewrite <- E in Hn'. unfold f' in Hn'. rewrite getf_upd_same in Hn' by auto. discriminate.
        -- unfold f' in Hn'. rewrite getf_upd_other in Hn' by auto.
           apply (s_held st C j (in_remove_at _ _ _ Hj) n' Hn').
      * split.
        -- intros j Hj. auto.
        -- intros j Hj. apply (s_idx st C). eapply in_remove_at; eauto.
    + intros j Hj Hfj. simpl in *. unfold rule_at in Hfj; simpl in Hfj. fold (rule_at st j) in Hfj.
      destruct (mentions c (rule_at st j)) eqn:Em.
      * left. apply Hl1. apply in_requeue. csplit; auto.
      * unfold f' in Hfj. rewrite can_fire_unmentioned in Hfj by auto.
        destruct (W j Hj Hfj) as [H|[H|[]]]; [rewrite Hq in H; destruct H|].
        destruct (in_remove_at_inv n _ j Hn H) as [E|H']; auto.
        fold i in E. subst j. unfold c in Em. rewrite mentions_parent in Em. discriminate.
    + unfold Gap; simpl. csplit; auto. unfold f'.
      destruct Gok as [Hgap|[Hk0 Hz]]; [left|right; split; auto]; intros c' n' Hc' Hn';
        rewrite length_upd in Hc';
        (destruct (Nat.eq_dec c c') as [<-|Hne];
         [rewrite getf_upd_same in Hn' by auto; discriminate
         |rewrite getf_upd_other in Hn' by auto; eauto]).
  - (* already infinite: nothing happens *)
    split; [exact C1|split; [|exact G]].
    intros j Hj Hfj. simpl in *.
    destruct (W j Hj Hfj) as [H|[H|[]]]; [rewrite Hq in H; destruct H|].
    destruct (in_remove_at_inv n _ j Hn H) as [E|H']; auto.
    fold i in E. subst j. exfalso.
    rewrite Er in Hfj. destruct (can_fire_true _ _ Hfj) as (p & Hp & _). fold c in Hp. congruence.
Qed.

(* ---- what one iteration leaves unchanged ---- *)
Definition SameS (st st' : tm) : Prop :=
  rules st' = rules st /\ gsize st' = gsize st /\ length (fn st') = length (fn st).

Lemma SameS_refl st : SameS st st.
Proof. repeat split. Qed.

Lemma SameS_trans a b c : SameS a b -> SameS b c -> SameS a c.
Proof. intros (A & B & D) (A' & B' & D'). repeat split; congruence. Qed.

Lemma increase_value_s_same st c i h' l : SameS st (increase_value_s st c i h' l).
Proof.
  unfold SameS, increase_value_s. destruct (getf (fn st) c); auto.
  destruct (snd (cgap st) <? z); simpl; auto.
  destruct (fst (cgap st) =? _); simpl; rewrite ?length_upd; auto.
  unfold correct_gap_s. destruct (_ <? _); simpl; rewrite ?length_upd; auto.
Qed.

Lemma set_infinite_s_same st c l : SameS st (set_infinite_s st c l).
Proof.
  unfold SameS, set_infinite_s. destruct (getf (fn st) c); simpl; rewrite ?length_upd; auto.
Qed.

(* ---- one iteration of the loop, any schedule: the invariant is preserved ---- *)
Theorem sstep_inv st st' : InvS st [] -> sstep st st' -> InvS st' [] /\ SameS st st'.
Proof.
  intros I H. destruct H as [st i q Eq Ef | st i q h' l Eq Ef HP Hl | st n l Eq Hn Hl].
  - (* pop, the rule cannot fire *)
    destruct I as (C & W & G). split; [|repeat split].
    split; [|split; [|exact G]].
    + constructor; simpl; try apply C. split; [|apply C].
      intros j Hj. apply (proj1 (s_idx st C)). rewrite Eq. right; auto.
    + intros j Hj Hfj. simpl in *. destruct (W j Hj Hfj) as [Hin|[Hin|[]]]; auto.
      rewrite Eq in Hin. destruct Hin as [->|Hin]; auto.
      change (rule_at (pop_queue st q) j) with (rule_at st j) in Hfj. congruence.
  - (* pop, the rule fires *)
    destruct I as (C & W & G).
    assert (i < length (rules st))%nat as Hi by (apply (proj1 (s_idx st C)); rewrite Eq; left; auto).
    set (st1 := pop_queue st q) in *.
    assert (CoreS st1) as C1.
    { constructor; simpl; try apply C. split; [|apply C].
      intros j Hj. apply (proj1 (s_idx st C)). rewrite Eq. right; auto. }
    assert (Work st1 [i]) as W1.
    { intros j Hj Hfj. simpl in *. destruct (W j Hj Hfj) as [Hin|[Hin|[]]]; auto.
      rewrite Eq in Hin. destruct Hin as [->|Hin]; auto. }
    split; [|apply (increase_value_s_same st1)].
    apply (increase_value_s_inv st1 i h' l (conj C1 (conj W1 G)) Hi Ef HP).
    intros v Hv. apply (rq_ok_rules st st1); auto.
  - (* pop from the held set *)
    split; [|apply (set_infinite_s_same (mktm (rules st) (fn st) (gsize st) (cgap st) [] (remove_at n (held st))))].
    apply (set_infinite_s_inv st n l I Eq Hn Hl).
Qed.

Lemma sstar_inv st st' : InvS st [] -> sstar st st' -> InvS st' [] /\ SameS st st'.
Proof.
  intros I H. induction H as [st|st st1 st' H1 H IH].
  - split; auto. apply SameS_refl.
  - destruct (sstep_inv st st1 I H1) as [I1 S1]. destruct (IH I1) as [I' S'].
    split; auto. eapply SameS_trans; eauto.
Qed.
