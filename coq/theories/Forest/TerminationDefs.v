(* Termination of TableMethod._process_queue: the DEFINITIONS (computable, no
   proofs): one iteration of the loop, the measure that decreases at every
   iteration, and the explicit fuel bound of a whole history.  The proofs are
   in Forest/TerminationGap.v (pigeonhole bound on preimage_gap),
   Forest/Termination.v (one _process_queue call) and Forest/TerminationRun.v
   (whole histories, total versions of the C03 theorems). *)
From Coq Require Import ZArith List Bool.
From CSS Require Import Base.PyList Forest.Spec Forest.Model.
Import ListNotations.
Open Scope Z_scope.

Definition zl {A} (l : list A) : Z := Z.of_nat (length l).

(* ---- one iteration of the `while` loop of _process_queue; None = the loop exits ---- *)
Definition pstep (pick : list nat -> nat) (st : tm) : option tm :=
  match queue st with
  | i :: q =>
      let st1 := mktm (rules st) (fn st) (gsize st) (cgap st) q (held st) in
      Some (if can_fire (fn st1) (rule_at st1 i)
            then increase_value st1 (parent (rule_at st1 i)) i
            else st1)
  | [] =>
      match held st with
      | [] => None
      | _ =>
          let n := Nat.modulo (pick (held st)) (length (held st)) in
          let i := nth n (held st) O in
          let st1 := mktm (rules st) (fn st) (gsize st) (cgap st) [] (remove_at n (held st)) in
          Some (set_infinite st1 (parent (rule_at st1 i)))
      end
  end.

(* ---- the measure ----
   B = vbound: no finite value is ever increased beyond B, because a rule whose
   parent lies above the cached gap end is put on hold, and the cached gap
   starts at most at (#labels)*gap_size + 1 (pigeonhole).
   pot: every finite entry v weighs 1 + (B - v): an increase takes 1 away, a
   set_infinite at least 1.  Each such event appends at most |rules| indices to
   the queue and moves at most |held| <= |rules| indices from held to the
   queue; a queue entry weighs 2, a held entry 1, so W = 3*|rules| + 1 pays for it. *)
Definition vbound (st : tm) : Z := (zl (fn st) + 1) * gsize st + 1.
Definition pot1 (B : Z) (x : option Z) : Z :=
  match x with Some v => 1 + Z.max 0 (B - v) | None => 0 end.
Definition pot (B : Z) (f : vals) : Z := fold_right (fun x a => pot1 B x + a) 0 f.
Definition wt (st : tm) : Z := 3 * zl (rules st) + 1.
Definition mu (st : tm) : Z :=
  wt st * pot (vbound st) (fn st) + 2 * zl (queue st) + zl (held st).

(* ---- explicit fuel bound ----
   pbound R n g bounds mu+1 of the state add_rule_key hands to _process_queue
   when there are at most R rules, n labels and the gap size is at most g. *)
Definition pbound (R n g : Z) : Z := (3 * R + 1) * (n * ((n + 1) * g + 2)) + 3.

Definition key_maxl (r : fkey) : Z :=
  fold_right (fun cs m => Z.max (Z.of_nat (fst cs)) m) (Z.of_nat (parent r)) (kids r).
Definition op_maxl (o : op) : Z :=
  match o with AddKey r => key_maxl r | IsPumping c => Z.of_nat c end.
Definition max_label (ops : list op) : Z :=
  fold_right (fun o m => Z.max (op_maxl o) m) (-1) ops.
Definition op_shift (o : op) : Z :=
  match o with AddKey r => max_abs r | IsPumping _ => 0 end.
Definition max_shift (ops : list op) : Z :=
  fold_right (fun o m => Z.max (op_shift o) m) 1 ops.

Definition fuel_boundZ (ops : list op) : Z :=
  pbound (zl (keys_of ops)) (max_label ops + 1) (max_shift ops).
Definition fuel_bound (ops : list op) : nat := Z.to_nat (fuel_boundZ ops).

(* the model run with enough fuel: a total function of the history *)
Definition run_total (pick : list nat -> nat) (ops : list op) : tm :=
  match run pick (fuel_bound ops) init ops with Some st => st | None => init end.
