(* sx interface of the table-method model.
   input : ( op ... )   op = (0 parent ((child shift) ...)) | (1 label)
   output: ( answer ... ) one per op:
           after AddKey    : ((label value|()) ...) = TableMethod.function, then
                             the indices of pumping_subuniverse()
           after IsPumping : 0/1
           or (-1) when the fuel runs out — which cannot happen: the fuel is
           fuel_bound ops (TerminationDefs.v), proved sufficient for every history
           (TerminationRun.run_terminates; run_obs_never_out_of_fuel below). *)
From Coq Require Import ZArith List Bool.
From CSS Require Import Base.Sx Forest.Spec Forest.Model Forest.TerminationDefs Forest.TerminationRun.
From CSS Require Import Gen.Prelude Gen.ForestCanGiveTerms Gen.ForestComputeShift Gen.ForestPreimageGap.
From CSS Require Import Forest.ModelB Forest.SchedDefs.
Import ListNotations.
Open Scope Z_scope.

Definition dec_op (s : sx) : op :=
  match sx_Z (sx_nth s 0) with
  | 0 => AddKey (mkkey (sx_nat (sx_nth s 1))
                       (map (fun p => (sx_nat (sx_nth p 0), sx_Z (sx_nth p 1)))
                            (sx_list (sx_nth s 2))))
  | _ => IsPumping (sx_nat (sx_nth s 1))
  end.

Definition enc_fun (st : tm) : sx :=
  L (map (fun p => L [of_nat (fst p); of_optZ (snd p)]) (function_dict st)).

(* the fuel the harness gives the model: the PROVED bound *)
Definition fuel_for (ops : list op) : nat := fuel_bound ops.

Definition pick0 (_ : list nat) : nat := O.

Fixpoint run_obs (fuel : nat) (st : tm) (ops : list op) : list sx :=
  match ops with
  | [] => []
  | AddKey r :: t =>
      match add_rule_key pick0 fuel st r with
      | None => [L [I (-1)]]
      | Some st' => L [enc_fun st'; of_nats (pumping_subuniverse st')] :: run_obs fuel st' t
      end
  | IsPumping c :: t =>
      let '(st', b) := is_pumping st c in of_bool b :: run_obs fuel st' t
  end.

(* an out-of-fuel answer is impossible: agreement of model and implementation
   can never be an artefact of the fuel *)
Lemma run_obs_some fuel : forall ops st st',
  run pick0 fuel st ops = Some st' -> ~ In (L [I (-1)]) (run_obs fuel st ops).
Proof.
  induction ops as [|o ops IH]; intros st st' H; simpl in *; [tauto|].
  destruct o as [r|c]; simpl in H.
  - destruct (add_rule_key pick0 fuel st r) as [st1|] eqn:E; [|discriminate].
    intros [A|A]; [discriminate|]. exact (IH _ _ H A).
  - intros [A|A]; [destruct (getf (fn st) c); discriminate|].
    exact (IH _ _ H A).
Qed.

Theorem run_obs_never_out_of_fuel : forall ops,
  ~ In (L [I (-1)]) (run_obs (fuel_for ops) init ops).
Proof.
  intros ops. destruct (run_terminates pick0 ops (fuel_for ops) (Nat.le_refl _)) as [st H].
  exact (run_obs_some _ _ _ _ H).
Qed.

(* validation of the translator: the definitions REGENERATED from forest.py
   evaluated on explicit arguments
     (-7 0 (shift|() ...))                       _can_give_terms
     (-7 1 parent|() (child|() ...) (sfz ...))   _compute_shift
     (-7 2 (count ...) length)                   Function.preimage_gap *)
Definition run_gen (inp : sx) : sx :=
  match sx_Z (sx_nth inp 1) with
  | 0 => of_bool (can_give_terms (map sx_optZ (sx_list (sx_nth inp 2))))
  | 1 => L (map of_optZ (compute_shift (sx_optZ (sx_nth inp 2))
                                       (map sx_optZ (sx_list (sx_nth inp 3)))
                                       (sx_Zs (sx_nth inp 4))))
  | _ => I (ForestPreimageGap.preimage_gap (sx_Zs (sx_nth inp 2)) (sx_Z (sx_nth inp 3)))
  end.

(* ---------------- layer B (Forest/ModelB.v) ----------------
   input : ( -8 ( op ... ) ( snapshot ... ) )    one snapshot of the REAL object's internals per op
   output: ( -8000
             (answer ...)        layer A, exactly the list of the plain input format
             (answer ...)        layer B observables, same encoding
             (verdict ...) )     per op: (canon_equal full_equal [B's canonical snapshot when it differs])
   A snapshot is ( rows using pumping _value preimage_count _infinity_count _gap_size _current_gap ):
        rows    : _shifts
        using   : _rules_using_class  as sorted lists of (rule child_idx), trailing empties stripped
        pumping : _rules_pumping_class as sorted lists, trailing empties stripped
     canon_equal: everything but _current_gap, the rows of rules whose parent is infinite masked (the
                  code never updates such a row again: its content depends on the schedule)
     full_equal : all rows and _current_gap — may depend on the set order
   The verdicts are INFORMATIONAL (internals are not observable behaviour). *)
Definition fuel_forB (ops : list op) : nat := fuel_boundS ops.

Fixpoint ins_nat (x : nat) (l : list nat) : list nat :=
  match l with [] => [x] | y :: t => if Nat.leb x y then x :: l else y :: ins_nat x t end.
Definition sort_nat (l : list nat) : list nat := fold_right ins_nat [] l.
Definition pair_leb (a b : nat * nat) : bool :=
  Nat.ltb (fst a) (fst b) || (Nat.eqb (fst a) (fst b) && Nat.leb (snd a) (snd b)).
Fixpoint ins_pair (x : nat * nat) (l : list (nat * nat)) : list (nat * nat) :=
  match l with [] => [x] | y :: t => if pair_leb x y then x :: l else y :: ins_pair x t end.
Definition sort_pair (l : list (nat * nat)) : list (nat * nat) := fold_right ins_pair [] l.

Fixpoint strip_empty {A} (l : list (list A)) : list (list A) :=
  match l with
  | [] => []
  | x :: t => match strip_empty t, x with
              | [], [] => []
              | t', _ => x :: t'
              end
  end.

Definition enc_row (row : list (option Z)) : sx := L (map of_optZ row).
Definition enc_rows_full (b : tmB) : sx := L (map enc_row (b_shifts b)).
Definition enc_rows_canon (b : tmB) : sx :=
  L (map (fun ir => match getf (fval (b_fn b)) (parent (snd ir)) with
                    | None => I (-1)
                    | Some _ => enc_row (nth (fst ir) (b_shifts b) [])
                    end)
         (combine (seq 0 (length (b_rules b))) (b_rules b))).
Definition enc_int_canon (b : tmB) : sx :=
  L [enc_rows_canon b;
     L (map (fun l => L (map (fun p => L [of_nat (fst p); of_nat (snd p)]) (sort_pair l)))
            (strip_empty (b_using b)));
     L (map (fun l => of_nats (sort_nat l)) (strip_empty (b_pumping b)));
     L (map of_optZ (fval (b_fn b)));
     of_Zs (fn_preimage_count (b_fn b));
     I (finf (b_fn b));
     I (b_gsize b)].
Definition enc_int_full (b : tmB) : sx :=
  L [enc_rows_full b; L [I (fst (b_cgap b)); I (snd (b_cgap b))]].

(* the rows supplied by the harness, the rows of dead rules (infinite parent IN LAYER B) masked *)
Definition mask_rows (b : tmB) (rows : list sx) : sx :=
  L (map (fun ir => match getf (fval (b_fn b)) (parent (snd ir)) with
                    | None => I (-1)
                    | Some _ => nth (fst ir) rows (L [])
                    end)
         (combine (seq 0 (length (b_rules b))) (b_rules b))).

(* given = ( rows using pumping _value preimage_count _infinity_count _gap_size _current_gap ) *)
Definition cmp_int (b : tmB) (given : sx) : sx :=
  let c := enc_int_canon b in
  let gc := L [mask_rows b (sx_list (sx_nth given 0)); sx_nth given 1; sx_nth given 2; sx_nth given 3;
               sx_nth given 4; sx_nth given 5; sx_nth given 6] in
  let ce := sx_eqb c gc && Nat.eqb (length (sx_list (sx_nth given 0))) (length (b_rules b)) in
  let fe := sx_eqb (enc_int_full b) (L [sx_nth given 0; sx_nth given 7]) in
  L ([of_bool ce; of_bool fe] ++ (if ce then [] else [c])).

Definition enc_funB (b : tmB) : sx :=
  L (map (fun p => L [of_nat (fst p); of_optZ (snd p)]) (function_dictB b)).

(* observables and verdicts of layer B; (-1) = out of fuel, (-2) = an `assert` of the code failed
   (both impossible: RefineB.runB_terminates / runB_never_asserts) *)
Fixpoint run_obsB (fuel : nat) (b : tmB) (ops : list op) (ints : list sx) : list sx * list sx :=
  match ops with
  | [] => ([], [])
  | AddKey r :: t =>
      match add_rule_keyB pick0 ord_id fuel b r with
      | None => ([L [I (-1)]], [])
      | Some b' =>
          if b_fail b' then ([L [I (-2)]], [])
          else
            let '(os, vs) := run_obsB fuel b' t (tl ints) in
            (L [enc_funB b'; of_nats (pumping_subuniverseB b')] :: os, cmp_int b' (hd (L []) ints) :: vs)
      end
  | IsPumping c :: t =>
      let '(b', ans) := is_pumpingB b c in
      let '(os, vs) := run_obsB fuel b' t (tl ints) in
      (of_bool ans :: os, cmp_int b' (hd (L []) ints) :: vs)
  end.

Definition run_c03B (inp : sx) : sx :=
  let ops := map dec_op (sx_list (sx_nth inp 1)) in
  let '(os, vs) := run_obsB (fuel_forB ops) initB ops (sx_list (sx_nth inp 2)) in
  L [I (-8000); L (run_obs (fuel_for ops) init ops); L os; L vs].

Definition run_c03 (inp : sx) : sx :=
  match sx_nth inp 0 with
  | I (-7) => run_gen inp
  | I (-8) => run_c03B inp
  | _ =>
  let ops := map dec_op (sx_list inp) in
  L (run_obs (fuel_for ops) init ops)
  end.
