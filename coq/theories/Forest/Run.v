(* sx interface of the table-method model.
   input : ( op ... )   op = (0 parent ((child shift) ...)) | (1 label)
   output: ( answer ... ) one per op:
           after AddKey    : ((label value|()) ...) = TableMethod.function, then
                             the indices of pumping_subuniverse()
           after IsPumping : 0/1
           or (-1) when the fuel runs out — which cannot happen: the fuel is
           fuel_bound ops (TerminationDefs.v), proved sufficient for every history
           (TerminationRun.run_terminates; run_obs_never_out_of_fuel below). *)
From Coq Require Import ZArith List Bool.
From CSS Require Import Base.Sx Forest.Spec Forest.Model Forest.TerminationDefs Forest.TerminationRun.
From CSS Require Import Gen.Prelude Gen.ForestCanGiveTerms Gen.ForestComputeShift Gen.ForestPreimageGap.
Import ListNotations.
Open Scope Z_scope.

Definition dec_op (s : sx) : op :=
  match sx_Z (sx_nth s 0) with
  | 0 => AddKey (mkkey (sx_nat (sx_nth s 1))
                       (map (fun p => (sx_nat (sx_nth p 0), sx_Z (sx_nth p 1)))
                            (sx_list (sx_nth s 2))))
  | _ => IsPumping (sx_nat (sx_nth s 1))
  end.

Definition enc_fun (st : tm) : sx :=
  L (map (fun p => L [of_nat (fst p); of_optZ (snd p)]) (function_dict st)).

(* the fuel the harness gives the model: the PROVED bound *)
Definition fuel_for (ops : list op) : nat := fuel_bound ops.

Definition pick0 (_ : list nat) : nat := O.

Fixpoint run_obs (fuel : nat) (st : tm) (ops : list op) : list sx :=
  match ops with
  | [] => []
  | AddKey r :: t =>
      match add_rule_key pick0 fuel st r with
      | None => [L [I (-1)]]
      | Some st' => L [enc_fun st'; of_nats (pumping_subuniverse st')] :: run_obs fuel st' t
      end
  | IsPumping c :: t =>
      let '(st', b) := is_pumping st c in of_bool b :: run_obs fuel st' t
  end.

(* an out-of-fuel answer is impossible: agreement of model and implementation
   can never be an artefact of the fuel *)
Lemma run_obs_some fuel : forall ops st st',
  run pick0 fuel st ops = Some st' -> ~ In (L [I (-1)]) (run_obs fuel st ops).
Proof.
  induction ops as [|o ops IH]; intros st st' H; simpl in *; [tauto|].
  destruct o as [r|c]; simpl in H.
  - destruct (add_rule_key pick0 fuel st r) as [st1|] eqn:E; [|discriminate].
    intros [A|A]; [discriminate|]. exact (IH _ _ H A).
  - intros [A|A]; [destruct (getf (fn st) c); discriminate|].
    exact (IH _ _ H A).
Qed.

Theorem run_obs_never_out_of_fuel : forall ops,
  ~ In (L [I (-1)]) (run_obs (fuel_for ops) init ops).
Proof.
  intros ops. destruct (run_terminates pick0 ops (fuel_for ops) (Nat.le_refl _)) as [st H].
  exact (run_obs_some _ _ _ _ H).
Qed.

(* validation of the translator: the definitions REGENERATED from forest.py
   evaluated on explicit arguments
     (-7 0 (shift|() ...))                       _can_give_terms
     (-7 1 parent|() (child|() ...) (sfz ...))   _compute_shift
     (-7 2 (count ...) length)                   Function.preimage_gap *)
Definition run_gen (inp : sx) : sx :=
  match sx_Z (sx_nth inp 1) with
  | 0 => of_bool (can_give_terms (map sx_optZ (sx_list (sx_nth inp 2))))
  | 1 => L (map of_optZ (compute_shift (sx_optZ (sx_nth inp 2))
                                       (map sx_optZ (sx_list (sx_nth inp 3)))
                                       (sx_Zs (sx_nth inp 4))))
  | _ => I (ForestPreimageGap.preimage_gap (sx_Zs (sx_nth inp 2)) (sx_Z (sx_nth inp 3)))
  end.

Definition run_c03 (inp : sx) : sx :=
  match sx_nth inp 0 with
  | I (-7) => run_gen inp
  | _ =>
  let ops := map dec_op (sx_list inp) in
  L (run_obs (fuel_for ops) init ops)
  end.
