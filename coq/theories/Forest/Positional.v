(* Positional (memoryless) determinacy of the derivability game of Spec.v, and
   its consequence: a MINIMAL pumping rule list has one rule per class.

   Reading of [derivable R c v] as a game: at (c, v) with v > 0 Prover picks a
   rule of R for c, Refuter picks one of its children (c', s), the counter
   becomes v - s; Prover wins when the counter is <= 0.  [pumps R root] says
   that Prover wins from (root, v) for every v.

   Core (axiom free), [split_derivable]: let the rules for ONE class p be covered
   by two lists R1, R2 that agree outside p.  If p is worth at least as much in
   R1 as in R2 (derivable R2 p v -> derivable R1 p v for all v) then R1 alone
   derives everything R derives.  Proof: an R1-derivation is cut at its p-nodes
   ([dx m]: p is a leaf worth m, where m is a value R1 really gives to p); such
   cut derivations can be shifted down ([dx_shift], the 1-Lipschitz property of
   the value of a class as a function of the value given to p); if a rule of R2
   for p fired above m from R1-derivable children, then by shifting down it
   also fires at every level 0..m above that level, so R2 climbs to m by itself
   and then fires at v: so p is worth v in R2, hence in R1.

   Since the values of p in R1 and in R2 are comparable (this is the only
   non-constructive step: [classic], or the dichotomy "pumps or has a finite
   number of terms" which the table method decides), one of two rules for the
   same class is always redundant; hence [positional_strong] (some sub-list with
   pairwise distinct left-hand sides derives the same pairs) and
   [minimal_one_rule_per_class]. *)
From Coq Require Import ZArith List ListDec Lia Classical_Prop.
From CSS Require Import Forest.Spec Forest.Model.
Import ListNotations.
Open Scope Z_scope.

(* ------------------------------------------------------------------ *)
(* the core: splitting the rules of one class                          *)
Section Split.
Variables (R R1 R2 : list fkey) (p : nat).
Hypothesis cover : forall r, In r R -> In r R1 \/ (parent r = p /\ In r R2).
Hypothesis agree : forall r, In r R1 -> parent r <> p -> In r R2.

(* derivations with the rules of R1 that are not for p; class p is a leaf
   worth x *)
Inductive dx (x : Z) : nat -> Z -> Prop :=
| dx_zero : forall c v, v <= 0 -> dx x c v
| dx_leaf : forall v, v <= x -> dx x p v
| dx_rule : forall r v, In r R1 -> parent r <> p ->
    (forall c s, In (c, s) (kids r) -> dx x c (v - s)) -> dx x (parent r) v.

Lemma dx_mono_x x y c v : x <= y -> dx x c v -> dx y c v.
Proof.
  intros Hxy D. induction D as [c v Hv | v Hv | r v Hr Hp Hk IH].
  - apply dx_zero; auto.
  - apply dx_leaf; lia.
  - apply dx_rule; auto.
Qed.

(* 1-Lipschitz: lowering the worth of p by d lowers every value by at most d *)
Lemma dx_shift x c v : dx x c v -> forall d, 0 <= d -> dx (x - d) c (v - d).
Proof.
  intros D. induction D as [c v Hv | v Hv | r v Hr Hp Hk IH]; intros d Hd.
  - apply dx_zero; lia.
  - apply dx_leaf; lia.
  - apply dx_rule; auto. intros c s Hin.
    replace (v - d - s) with (v - s - d) by lia. apply IH; auto.
Qed.

(* a cut derivation becomes an R2-derivation once R2 gives x to p *)
Lemma dx_subst x c v : derivable R2 p x -> dx x c v -> derivable R2 c v.
Proof.
  intros Hx D. induction D as [c v Hv | v Hv | r v Hr Hp Hk IH].
  - apply der_zero; auto.
  - eapply derivable_mono; eauto.
  - apply der_rule; auto.
Qed.

Definition cut (c : nat) (v : Z) : Prop :=
  exists m, 0 <= m /\ derivable R1 p m /\ dx m c v.

Lemma cut_kids (l : list (nat * Z)) v :
  (forall c s, In (c, s) l -> cut c (v - s)) ->
  exists m, 0 <= m /\ derivable R1 p m /\ forall c s, In (c, s) l -> dx m c (v - s).
Proof.
  induction l as [|[c0 s0] l IH]; intros H.
  - exists 0. split; [lia|]. split; [apply der_zero; lia|]. intros c s [].
  - destruct IH as (m & Hm & Dm & Hl). { intros c s Hin. apply H. right; auto. }
    destruct (H c0 s0 (or_introl eq_refl)) as (m0 & Hm0 & Dm0 & H0).
    destruct (Z_le_gt_dec m m0) as [Hle|Hgt].
    + exists m0. split; auto. split; auto. intros c s [E|Hin].
      * injection E as <- <-. auto.
      * apply (dx_mono_x m m0); auto.
    + exists m. split; auto. split; auto. intros c s [E|Hin].
      * injection E as <- <-. apply (dx_mono_x m0 m); auto. lia.
      * auto.
Qed.

(* every R1-derivation can be cut at its p-nodes, at a worth R1 gives to p *)
Lemma to_cut c v : derivable R1 c v -> cut c v.
Proof.
  intros D. induction D as [c v Hv | r v Hr Hk IH].
  - exists 0. split; [lia|]. split; [apply der_zero; lia|]. apply dx_zero; auto.
  - destruct (Nat.eq_dec (parent r) p) as [Ep|Np].
    + exists (Z.max 0 v). split; [lia|]. split.
      * destruct (Z_le_gt_dec v 0) as [Hv|Hv].
        -- apply der_zero; lia.
        -- replace (Z.max 0 v) with v by lia. rewrite <- Ep. apply der_rule; auto.
      * rewrite Ep. apply dx_leaf. lia.
    + destruct (cut_kids (kids r) v IH) as (m & Hm & Dm & Hl).
      exists m. split; auto. split; auto. apply dx_rule; auto.
Qed.

Hypothesis worth : forall v, derivable R2 p v -> derivable R1 p v.

Theorem split_derivable : forall c v, derivable R c v -> derivable R1 c v.
Proof.
  intros c v D. induction D as [c v Hv | r v Hr Hk IH].
  - apply der_zero; auto.
  - destruct (cover r Hr) as [H1|[Ep H2]]; [apply der_rule; auto|].
    rewrite Ep. destruct (cut_kids (kids r) v (fun c s Hin => to_cut _ _ (IH c s Hin)))
      as (m & Hm & Dm & Hl).
    destruct (Z_le_gt_dec v m) as [Hle|Hgt]; [eapply derivable_mono; eauto|].
    apply worth.
    (* R2 climbs to m by itself, using r at the levels 0..m-1 *)
    assert (forall x, 0 <= x -> x <= m -> derivable R2 p x) as Hclimb.
    { intros x Hx. pattern x. apply natlike_ind; auto.
      - intros _. apply der_zero; lia.
      - intros y Hy IHy Hym. specialize (IHy ltac:(lia)).
        apply (derivable_mono R2 p (v - (m - y))); [|lia].
        rewrite <- Ep. apply der_rule; auto. intros c s Hin.
        apply (dx_subst y); auto.
        replace y with (m - (m - y)) at 1 by lia.
        replace (v - (m - y) - s) with (v - s - (m - y)) by lia.
        apply dx_shift; [apply Hl; auto|lia]. }
    rewrite <- Ep. apply der_rule; auto. intros c s Hin.
    apply (dx_subst m); auto. apply Hclimb; lia.
Qed.

Corollary split_pumps root : pumps R root -> pumps R1 root.
Proof. intros P v. apply split_derivable, P. Qed.
End Split.

(* ------------------------------------------------------------------ *)
(* removing the key at one position                                    *)
Definition remove_at {A} (i : nat) (l : list A) : list A := firstn i l ++ skipn (S i) l.

Lemma remove_at_incl {A} i (l : list A) : incl (remove_at i l) l.
Proof.
  intros x Hx. unfold remove_at in Hx. apply in_app_or in Hx. destruct Hx as [Hx|Hx].
  - rewrite <- (firstn_skipn i l). apply in_or_app. left; auto.
  - rewrite <- (firstn_skipn (S i) l). apply in_or_app. right; auto.
Qed.

Lemma remove_at_length {A} i (l : list A) : (i < length l)%nat ->
  length (remove_at i l) = pred (length l).
Proof.
  intros Hi. unfold remove_at. rewrite app_length, firstn_length, skipn_length. lia.
Qed.

Lemma remove_at_keeps {A} (d : A) i j (l : list A) :
  (j < length l)%nat -> j <> i -> In (nth j l d) (remove_at i l).
Proof.
  intros Hj Hne. unfold remove_at. apply in_or_app.
  destruct (Nat.lt_ge_cases j i) as [Hlt|Hge].
  - left. rewrite <- (firstn_skipn i l) at 1.
    rewrite app_nth1 by (rewrite firstn_length; lia).
    apply nth_In. rewrite firstn_length. lia.
  - right. rewrite <- (firstn_skipn (S i) l) at 1.
    rewrite app_nth2 by (rewrite firstn_length; lia).
    apply nth_In. rewrite firstn_length, skipn_length. lia.
Qed.

(* the two lists obtained by removing one of two keys for the same class
   satisfy the hypotheses of Section Split *)
Lemma remove_cover (R : list fkey) i j :
  (i < length R)%nat -> (j < length R)%nat -> i <> j ->
  forall r, In r R ->
    In r (remove_at i R) \/ (parent r = parent (nth i R dummy) /\ In r (remove_at j R)).
Proof.
  intros Hi Hj Hne r Hr. destruct (In_nth _ _ dummy Hr) as (k & Hk & <-).
  destruct (Nat.eq_dec k i) as [->|Hki].
  - right. split; auto. apply remove_at_keeps; auto.
  - left. apply remove_at_keeps; auto.
Qed.

Lemma remove_agree (R : list fkey) i j :
  (j < length R)%nat ->
  forall r, In r (remove_at i R) -> parent r <> parent (nth j R dummy) -> In r (remove_at j R).
Proof.
  intros Hj r Hr Hp. apply remove_at_incl in Hr.
  destruct (In_nth _ _ dummy Hr) as (k & Hk & <-).
  apply remove_at_keeps; auto. intros ->. apply Hp; reflexivity.
Qed.

(* ------------------------------------------------------------------ *)
(* comparability of the worth of a class in two rule lists             *)
Definition valued (R : list fkey) (c : nat) : Prop := pumps R c \/ exists n, terms R c n.

Lemma valued_comparable R1 R2 p : valued R1 p -> valued R2 p ->
  (forall v, derivable R2 p v -> derivable R1 p v) \/
  (forall v, derivable R1 p v -> derivable R2 p v).
Proof.
  intros [P1|(a & Da & Na)] [P2|(b & Db & Nb)].
  - left. intros v _. apply P1.
  - left. intros v _. apply P1.
  - right. intros v _. apply P2.
  - destruct (Z_le_gt_dec b a) as [Hle|Hgt].
    + left. intros v Dv. apply (derivable_mono R1 p a); auto.
      destruct (Z_le_gt_dec v b); [lia|]. exfalso. apply Nb.
      apply (derivable_mono R2 p v); auto. lia.
    + right. intros v Dv. apply (derivable_mono R2 p b); auto.
      destruct (Z_le_gt_dec v a); [lia|]. exfalso. apply Na.
      apply (derivable_mono R1 p v); auto. lia.
Qed.

(* classically every class pumps or has a finite number of terms
   (constructively this is what a terminating run of the table method decides:
   Forest/Theorems.sound_complete) *)
Lemma classic_valued R c : valued R c.
Proof.
  destruct (classic (pumps R c)) as [P|NP]; [left; auto|right].
  assert (exists k : nat, ~ derivable R c (Z.of_nat k)) as (k & Hk).
  { apply NNPP. intros H. apply NP. intros v.
    destruct (Z_le_gt_dec v 0) as [Hv|Hv]; [apply der_zero; auto|].
    apply NNPP. intros ND. apply H. exists (Z.to_nat v). rewrite Z2Nat.id by lia. auto. }
  induction k as [|k IH].
  - exfalso. apply Hk. apply der_zero. simpl. lia.
  - destruct (classic (derivable R c (Z.of_nat k))) as [D|ND]; auto.
    exists (Z.of_nat k). split; auto. replace (Z.of_nat k + 1) with (Z.of_nat (S k)) by lia. auto.
Qed.

(* ------------------------------------------------------------------ *)
(* of two keys for the same class one is redundant                     *)
Section TwoRules.
Variables (R : list fkey) (i j : nat).
Hypothesis Hi : (i < length R)%nat.
Hypothesis Hj : (j < length R)%nat.
Hypothesis Hne : i <> j.
Hypothesis Hpar : parent (nth i R dummy) = parent (nth j R dummy).

Lemma redundant_left :
  (forall v, derivable (remove_at j R) (parent (nth i R dummy)) v ->
             derivable (remove_at i R) (parent (nth i R dummy)) v) ->
  forall c v, derivable R c v -> derivable (remove_at i R) c v.
Proof.
  apply (split_derivable R (remove_at i R) (remove_at j R) (parent (nth i R dummy))).
  - apply remove_cover; auto.
  - rewrite Hpar. apply remove_agree; auto.
Qed.

Lemma redundant_right :
  (forall v, derivable (remove_at i R) (parent (nth i R dummy)) v ->
             derivable (remove_at j R) (parent (nth i R dummy)) v) ->
  forall c v, derivable R c v -> derivable (remove_at j R) c v.
Proof.
  rewrite Hpar.
  apply (split_derivable R (remove_at j R) (remove_at i R) (parent (nth j R dummy))).
  - apply remove_cover; auto.
  - rewrite <- Hpar. apply remove_agree; auto.
Qed.

(* axiom free, given the value dichotomy for the one class at stake *)
Theorem two_rules_one_redundant_valued :
  valued (remove_at i R) (parent (nth i R dummy)) ->
  valued (remove_at j R) (parent (nth i R dummy)) ->
  (forall c v, derivable R c v -> derivable (remove_at i R) c v) \/
  (forall c v, derivable R c v -> derivable (remove_at j R) c v).
Proof.
  intros V1 V2. destruct (valued_comparable _ _ _ V1 V2) as [H|H].
  - left. apply redundant_left; auto.
  - right. apply redundant_right; auto.
Qed.

(* uses Classical_Prop.classic *)
Theorem two_rules_one_redundant :
  (forall c v, derivable R c v -> derivable (remove_at i R) c v) \/
  (forall c v, derivable R c v -> derivable (remove_at j R) c v).
Proof. apply two_rules_one_redundant_valued; apply classic_valued. Qed.
End TwoRules.

(* ------------------------------------------------------------------ *)
(* a minimal pumping list has one key per class                        *)

(* axiom free: the value dichotomy is a hypothesis (for the lists with one key
   removed); a terminating table-method run on each of them provides it *)
Theorem minimal_one_rule_per_class_valued : forall (R : list fkey) (root : nat),
  (forall i c, (i < length R)%nat -> valued (remove_at i R) c) ->
  pumps R root ->
  (forall i, (i < length R)%nat -> ~ pumps (firstn i R ++ skipn (S i) R) root) ->
  forall i j, (i < length R)%nat -> (j < length R)%nat ->
    parent (nth i R dummy) = parent (nth j R dummy) -> i = j.
Proof.
  intros R root V P M i j Hi Hj E.
  destruct (Nat.eq_dec i j) as [|Hne]; auto. exfalso.
  destruct (two_rules_one_redundant_valued R i j Hi Hj Hne E (V i _ Hi) (V j _ Hj)) as [H|H].
  - apply (M i Hi). intros v. apply H, P.
  - apply (M j Hj). intros v. apply H, P.
Qed.

(* uses Classical_Prop.classic *)
Theorem minimal_one_rule_per_class : forall (R : list fkey) (root : nat),
  pumps R root ->
  (forall i, (i < length R)%nat -> ~ pumps (firstn i R ++ skipn (S i) R) root) ->
  forall i j, (i < length R)%nat -> (j < length R)%nat ->
    parent (nth i R dummy) = parent (nth j R dummy) -> i = j.
Proof.
  intros R root. apply minimal_one_rule_per_class_valued.
  intros i c _. apply classic_valued.
Qed.

(* ------------------------------------------------------------------ *)
(* positional determinacy: one rule per class suffices                 *)
Lemma dup_positions (l : list nat) : ~ NoDup l ->
  exists i j, (i < length l)%nat /\ (j < length l)%nat /\ i <> j /\ nth i l O = nth j l O.
Proof.
  induction l as [|a l IH]; intros H.
  - exfalso. apply H. constructor.
  - destruct (in_dec Nat.eq_dec a l) as [Hin|Hnin].
    + destruct (In_nth _ _ O Hin) as (k & Hk & Ek).
      exists O, (S k). simpl. repeat split; auto; lia.
    + destruct IH as (i & j & Hi & Hj & Hne & E).
      { intros ND. apply H. constructor; auto. }
      exists (S i), (S j). simpl. repeat split; auto; lia.
Qed.

(* uses Classical_Prop.classic.  Stronger than "the root still pumps": the
   sub-list derives exactly the same (class, value) pairs. *)
Theorem positional_strong : forall R : list fkey,
  exists R', incl R' R /\ NoDup (map parent R') /\
             forall c v, derivable R c v -> derivable R' c v.
Proof.
  intros R. remember (length R) as n eqn:En. revert R En.
  induction n as [n IH] using lt_wf_ind. intros R En.
  destruct (NoDup_dec Nat.eq_dec (map parent R)) as [ND|ND].
  - exists R. split; [apply incl_refl|]. split; auto.
  - destruct (dup_positions _ ND) as (i & j & Hi & Hj & Hne & E).
    rewrite map_length in Hi, Hj.
    change O with (parent dummy) in E. rewrite !map_nth in E.
    assert (exists k, (k < length R)%nat /\
              forall c v, derivable R c v -> derivable (remove_at k R) c v) as (k & Hk & Hd).
    { destruct (two_rules_one_redundant R i j Hi Hj Hne E) as [H|H]; eauto. }
    destruct (IH (length (remove_at k R))) with (R := remove_at k R)
      as (R' & Hincl & HND & HD); auto.
    { rewrite remove_at_length; auto. lia. }
    exists R'. split; [|split; auto].
    intros x Hx. apply (remove_at_incl k R). apply Hincl; auto.
Qed.

Corollary positional : forall (R : list fkey) (root : nat), pumps R root ->
  exists R', incl R' R /\ NoDup (map parent R') /\ pumps R' root.
Proof.
  intros R root P. destruct (positional_strong R) as (R' & Hi & ND & HD).
  exists R'. split; auto. split; auto. intros v. apply HD, P.
Qed.
