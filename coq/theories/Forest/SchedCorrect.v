(* Layer S (SchedDefs.v): soundness and completeness w.r.t. Spec.derivable for
   EVERY schedule — every re-queue list with rq_ok, every release order of the
   held set, every admissible growth of the table, every set.pop().  Port of
   the second half of Forest/Correct.v and of Forest/Theorems.v.  Layer A is an
   instance (A_run_is_S). *)
From Coq Require Import ZArith List Bool Lia Permutation.
From CSS Require Import Base.PyList Forest.Spec Forest.SpecLive Forest.Model Forest.Basics
  Forest.Invariant Forest.Correct Forest.Theorems Forest.TerminationDefs Forest.SchedDefs
  Forest.SchedInvariant.
Import ListNotations.
Open Scope Z_scope.

Definition FinalS (st : tm) : Prop :=
  InvS st [] /\ queue st = [] /\ held st = [] /\ ExitGap st.

Lemma Final_FinalS st : Final st -> FinalS st.
Proof. intros (I & A & B & D). split; [apply Inv_InvS; auto|auto]. Qed.

Lemma complete_at_exit_s st : CoreS st -> Work st [] -> queue st = [] -> held st = [] ->
  forall c v, derivable (rules st) c v ->
              getf (fn st) c = None \/ exists n, getf (fn st) c = Some n /\ v <= n.
Proof.
  intros C W Hq Hh c v D.
  induction D as [c v Hv | r v Hr Hk IH].
  - destruct (getf (fn st) c) as [n|] eqn:E; auto. right. exists n; split; auto.
    destruct (s_fin st C c n E). lia.
  - destruct (getf (fn st) (parent r)) as [n|] eqn:E; auto. right. exists n; split; auto.
    destruct (Z_le_gt_dec v n) as [|Hgt]; auto. exfalso.
    destruct (In_rule_at st r Hr) as (j & Hj & Ej).
    destruct (can_fire (fn st) r) eqn:Ef.
    + rewrite <- Ej in Ef. destruct (W j Hj Ef) as [H|[H|[]]].
      * rewrite Hq in H; destruct H.
      * rewrite Hh in H; destruct H.
    + destruct (can_fire_false _ _ _ Ef E) as (c & s & m & Hin & Hm & Hle).
      destruct (IH c s Hin) as [Hnone|(m' & Hm' & Hle')]; [congruence|].
      rewrite Hm in Hm'. injection Hm' as <-. lia.
Qed.

Lemma exit_gap_s st : InvS st [] -> queue st = [] -> held st = [] -> ExitGap st.
Proof.
  intros (C & W & (Gk & Gs & Gok)) Hq Hh Hk0 c n Hc Hn.
  destruct Gok as [Hgap|[_ Hz]]; [|eauto].
  destruct (s_fin st C c n Hn) as [Hn0 _].
  destruct (Hgap c n Hc Hn) as [Hlt|Hge]; [lia|].
  exfalso.
  assert (pumps (rules st) c) as Hp.
  { apply (gap_pumps_s st c n C Gk Hgap); auto.
    intros r n' Hr Hpn Hlt. destruct (s_fin st C _ _ Hpn). lia. }
  destruct (complete_at_exit_s st C W Hq Hh c (n + 1) (Hp (n + 1))) as [E|(m & Em & Hle)]; [congruence|].
  rewrite Hn in Em. injection Em as <-. lia.
Qed.

(* enlarging the table with zero entries (lookups of unseen labels) *)
Lemma final_extend_s st f1 : FinalS st ->
  (forall c, getf f1 c = getf (fn st) c) -> (length (fn st) <= length f1)%nat ->
  FinalS (mktm (rules st) f1 (gsize st) (cgap st) (queue st) (held st)).
Proof.
  intros ((C & W & (Gk & Gs & Gok)) & Hq & Hh & HX) Hg Hl.
  assert (forall r, can_fire f1 r = can_fire (fn st) r) as Hcf.
  { intros r. apply can_fire_ext; auto. }
  assert (forall c n, (c < length f1)%nat -> getf f1 c = Some n ->
            ((c < length (fn st))%nat /\ getf (fn st) c = Some n) \/ n = 0) as Hnew.
  { intros c n Hc Hn. rewrite Hg in Hn. destruct (Nat.lt_ge_cases c (length (fn st))); auto.
    right. rewrite getf_out in Hn by auto. congruence. }
  split; [split; [|split]|csplit; auto].
  - constructor; simpl.
    + intros c n H. rewrite Hg in H. apply (s_fin st C c n H).
    + intros c H. rewrite Hg in H. apply (s_inf st C c H).
    + intros r Hr. destruct (s_dom st C r Hr) as [A B]. split; [lia|].
      intros Hlive c s Hin. rewrite Hg in Hlive. specialize (B Hlive c s Hin). lia.
    + apply C.
    + intros j Hj n Hn. unfold rule_at in Hn; simpl in Hn. rewrite Hg in Hn.
      apply (s_held st C j Hj n Hn).
    + apply C.
  - intros j Hj Hfj. simpl in *. unfold rule_at in Hfj; simpl in Hfj. rewrite Hcf in Hfj.
    apply (W j Hj Hfj).
  - unfold Gap; simpl. csplit; auto.
    destruct (Z.eq_dec (fst (cgap st)) 0) as [Hk0|Hk0].
    + right. split; auto. intros c n Hc Hn.
      destruct (Hnew c n Hc Hn) as [[Hc' Hn']|]; auto. apply (HX Hk0 c n Hc' Hn').
    + destruct Gok as [Hgap|[Hk _]]; [|contradiction]. left. intros c n Hc Hn.
      destruct (Hnew c n Hc Hn) as [[Hc' Hn']| ->]; [apply (Hgap c n Hc' Hn')|left; lia].
  - intros Hk0 c n Hc Hn. simpl in *.
    destruct (Hnew c n Hc Hn) as [[Hc' Hn']|]; auto. apply (HX Hk0 c n Hc' Hn').
Qed.

Lemma FinalS_init : FinalS init.
Proof. apply Final_FinalS, Final_init. Qed.

Lemma perm_nil_inv (h' : list nat) : Permutation h' [] -> h' = [].
Proof. intros P. apply Permutation_sym, Permutation_nil in P. exact P. Qed.

(* ---- add_rule_key hands a state satisfying the loop invariant to _process_queue ---- *)
Lemma pre_process_s_inv st r f1 h' : FinalS st -> ext_ok (fn st) f1 r -> Permutation h' (held st) ->
  InvS (pre_process_s st r f1 h') [] /\ rules (pre_process_s st r f1 h') = rules st ++ [r].
Proof.
  intros F (Hg & Hl & _ & Hlp & Hlk) HP. unfold pre_process_s.
  pose proof (final_extend_s st f1 F Hg Hl) as FE.
  destruct FE as ((C & W & (Gk & Gs & Gok)) & Hq & Hh & HX). simpl in Hq, Hh.
  destruct F as (_ & Hq0 & Hh0 & _).
  rewrite Hh0 in HP. apply perm_nil_inv in HP. subst h'.
  rewrite Hq0, Hh0 in *. cbn [rules fn gsize cgap queue held].
  set (g' := if gsize st <? max_abs r then max_abs r else gsize st).
  set (stA := mktm (rules st ++ [r]) f1 g' (cgap st) [] []).
  assert (incl (rules st) (rules st ++ [r])) as Hincl by (apply incl_appl, incl_refl).
  assert (gsize st <= g') as Hgg by (unfold g'; destruct (gsize st <? max_abs r) eqn:E; lia).
  assert (max_abs r <= g') as Hmg by (unfold g'; destruct (gsize st <? max_abs r) eqn:E; lia).
  assert (CoreS stA) as CA.
  { constructor; simpl.
    - intros c n Hn. destruct (s_fin _ C c n Hn) as [A B]. split; auto.
      eapply derivable_incl; eauto.
    - intros c Hn. eapply pumps_incl; eauto. apply (s_inf _ C c Hn).
    - intros r' Hr'. apply in_app_iff in Hr'. destruct Hr' as [Hr'|[<-|[]]].
      + apply (s_dom _ C r' Hr').
      + split; auto. intros Hlive. apply Hlk. rewrite <- Hg. exact Hlive.
    - split; [pose proof (proj1 (s_g _ C)); simpl in *; lia|].
      intros r' c s Hr' Hin. apply in_app_iff in Hr'. destruct Hr' as [Hr'|[<-|[]]].
      + pose proof (proj2 (s_g _ C) r' c s Hr' Hin). simpl in *. lia.
      + pose proof (max_abs_bound r c s Hin). lia.
    - intros j [].
    - split; intros j []. }
  assert (forall j, (j < length (rules st))%nat ->
            can_fire f1 (nth j (rules st ++ [r]) dummy) = false) as Hold.
  { intros j Hj. rewrite app_nth1 by auto.
    destruct (can_fire f1 (nth j (rules st) dummy)) eqn:E; auto. exfalso.
    destruct (W j Hj E) as [[]|[[]|[]]]. }
  set (st2 := if gsize st <? max_abs r
              then correct_gap_s (mktm (rules st ++ [r]) f1 (max_abs r) (cgap st) [] []) []
              else mktm (rules st ++ [r]) f1 (gsize st) (cgap st) [] []) in *.
  assert (CoreS st2 /\ Gap st2 /\ rules st2 = rules st ++ [r] /\ fn st2 = f1 /\
          queue st2 = [] /\ held st2 = []) as (C2 & G2 & R2 & F2 & Q2 & H2).
  { unfold st2, g' in *. destruct (gsize st <? max_abs r) eqn:E.
    - assert (Permutation [] (held stA)) as PA by constructor.
      destruct (correct_gap_s_core stA [] PA CA) as [A B].
      destruct (correct_gap_s_fields stA [] PA) as (Er & Ef & _ & Eq & _).
      csplit; auto.
      + apply empty_list. intros j Hj. destruct (proj2 (Eq j) (or_introl Hj)) as [[]|[]].
      + apply empty_list. intros j Hj. destruct (proj2 (Eq j) (or_intror Hj)) as [[]|[]].
    - csplit; auto. unfold Gap; simpl. csplit; auto. }
  assert (forall j, (j < length (rules st2))%nat -> can_fire (fn st2) (rule_at st2 j) = true ->
            j = length (rules st) /\ exists p, getf (fn st2) (parent r) = Some p) as Hnew.
  { intros j Hj Hfj. unfold rule_at in Hfj. rewrite R2, F2 in *. rewrite app_length in Hj; simpl in Hj.
    destruct (Nat.lt_ge_cases j (length (rules st))) as [Hlt|Hge].
    - rewrite Hold in Hfj by auto. discriminate.
    - assert (j = length (rules st)) as -> by lia. split; auto.
      rewrite app_nth2, Nat.sub_diag in Hfj by lia. simpl in Hfj.
      destruct (can_fire_true _ _ Hfj) as (p & Hp & _). exists p; auto. }
  destruct (getf (fn st2) (parent r)) as [p|] eqn:Ep.
  - split; [|simpl; auto]. split; [|split; [|exact G2]].
    + constructor; simpl; try apply C2.
      rewrite Q2, H2. split; [|intros j []]. intros j [<-|[]].
      rewrite R2, app_length. simpl. lia.
    + intros j Hj Hfj. simpl in *. destruct (Hnew j Hj Hfj) as [-> _].
      left. rewrite Q2. left; auto.
  - split; auto. split; [exact C2|split; [|exact G2]].
    intros j Hj Hfj. destruct (Hnew j Hj Hfj) as [_ [p Hp]]. congruence.
Qed.

Lemma sproc_final st st' : InvS st [] -> sproc st st' -> FinalS st' /\ SameS st st'.
Proof.
  intros I (H & Hq & Hh). destruct (sstar_inv st st' I H) as [I' S].
  split; auto. split; [exact I'|csplit; auto]. apply exit_gap_s; auto.
Qed.

Lemma is_pumping_final_s st c : FinalS st ->
  FinalS (fst (is_pumping st c)) /\ rules (fst (is_pumping st c)) = rules st.
Proof.
  intros F. unfold is_pumping; simpl. csplit; auto.
  apply final_extend_s; auto.
  - intros c'. apply getf_extend.
  - rewrite length_extend. lia.
Qed.

(* ---- whole histories, any schedule ---- *)
Theorem sruns_final : forall st ops st', sruns st ops st' -> FinalS st ->
  FinalS st' /\ rules st' = rules st ++ keys_of ops.
Proof.
  intros st ops st' H. induction H as [st | st r f1 h' st1 ops st' He HP Hp H IH | st c ops st' H IH]; intros F.
  - simpl. rewrite app_nil_r. auto.
  - destruct (pre_process_s_inv st r f1 h' F He HP) as [I3 R3].
    destruct (sproc_final _ _ I3 Hp) as [F1 (R1 & _ & _)].
    destruct (IH F1) as [F' R']. split; auto.
    rewrite R', R1, R3. simpl. rewrite <- app_assoc. reflexivity.
  - destruct (is_pumping_final_s st c F) as (F1 & R1).
    destruct (IH F1) as [F' R']. split; [exact F'|]. rewrite R', R1. reflexivity.
Qed.

Theorem final_sound_complete_s st : FinalS st ->
  forall c, (getf (fn st) c = None <-> pumps (rules st) c) /\
            (forall n, getf (fn st) c = Some n <-> terms (rules st) c n).
Proof.
  intros ((C & W & G) & Hq & Hh & _) c.
  assert (forall n, getf (fn st) c = Some n -> terms (rules st) c n) as Hfin.
  { intros n Hn. split; [apply (s_fin st C c n Hn)|]. intros D.
    destruct (complete_at_exit_s st C W Hq Hh c (n + 1) D) as [E|(m & Em & Hle)]; [congruence|].
    rewrite Hn in Em. injection Em as <-. lia. }
  split.
  - split; [apply (s_inf st C c)|]. intros P.
    destruct (getf (fn st) c) as [n|] eqn:E; auto.
    exfalso. apply (pumps_not_terms _ c n P). apply Hfin; auto.
  - intros n. split; auto. intros T.
    destruct (getf (fn st) c) as [m|] eqn:E.
    + f_equal. apply (terms_unique (rules st) c m n); auto.
    + exfalso. apply (pumps_not_terms _ c n (s_inf st C c E) T).
Qed.

Lemma sruns_init_rules ops st : sruns init ops st -> FinalS st /\ rules st = keys_of ops.
Proof. intros H. destruct (sruns_final init ops st H FinalS_init) as [F R]. split; auto. Qed.

(* ---- the C03 theorems for every schedule ---- *)
Theorem S_sound_complete ops st : sruns init ops st ->
  forall c, (pumping_answer st c = true <-> pumps (keys_of ops) c) /\
            (forall n, getf (fn st) c = Some n <-> terms (keys_of ops) c n).
Proof.
  intros H c. destruct (sruns_init_rules _ _ H) as [F R].
  destruct (final_sound_complete_s st F c) as [A B]. rewrite R in A, B.
  split; auto. unfold pumping_answer, is_pumping; simpl. rewrite <- A.
  destruct (getf (fn st) c); split; congruence.
Qed.

Theorem S_order_independent ops ops' st st' :
  sruns init ops st -> sruns init ops' st' ->
  (forall r, In r (keys_of ops) <-> In r (keys_of ops')) ->
  forall c, getf (fn st) c = getf (fn st') c.
Proof.
  intros H H' E.
  destruct (sruns_init_rules _ _ H) as [F R]. destruct (sruns_init_rules _ _ H') as [F' R'].
  apply (value_determined (keys_of ops) (keys_of ops')).
  - intros c. rewrite <- R. apply final_sound_complete_s; auto.
  - intros c. rewrite <- R'. apply final_sound_complete_s; auto.
  - apply derivable_same_set; auto.
Qed.

Theorem S_monotone ops ops' st st' :
  sruns init ops st -> sruns init ops' st' ->
  incl (keys_of ops) (keys_of ops') ->
  forall c, match getf (fn st) c, getf (fn st') c with
            | None, None => True
            | None, Some _ => False
            | Some n, Some m => n <= m
            | Some _, None => True
            end.
Proof.
  intros H H' Hi c.
  destruct (S_sound_complete _ _ H c) as [A B]. destruct (S_sound_complete _ _ H' c) as [A' B'].
  destruct (sruns_init_rules _ _ H) as [F R]. destruct (sruns_init_rules _ _ H') as [F' R'].
  destruct (final_sound_complete_s st F c) as [P _]. destruct (final_sound_complete_s st' F' c) as [P' _].
  rewrite R in P. rewrite R' in P'.
  destruct (getf (fn st) c) as [n|] eqn:E; destruct (getf (fn st') c) as [m|] eqn:E'; auto.
  - destruct (proj1 (B n) eq_refl) as [D _]. destruct (proj1 (B' m) eq_refl) as [_ ND].
    destruct (Z_le_gt_dec n m); auto. exfalso. apply ND.
    eapply derivable_mono; [eapply derivable_incl; eauto|lia].
  - assert (pumps (keys_of ops') c) as PP by (eapply pumps_incl; eauto; apply P; auto).
    apply P' in PP. congruence.
Qed.

Theorem S_subuniverse_spec ops st : sruns init ops st ->
  forall i, In i (pumping_subuniverse st) <->
    (i < length (keys_of ops))%nat /\
    let r := nth i (keys_of ops) dummy in
    pumps (keys_of ops) (parent r) /\ forall c s, In (c, s) (kids r) -> pumps (keys_of ops) c.
Proof.
  intros H i. destruct (sruns_init_rules _ _ H) as [F R].
  assert (forall c, getf (fn st) c = None <-> pumps (keys_of ops) c) as P.
  { intros c. destruct (final_sound_complete_s st F c) as [A _]. rewrite R in A. exact A. }
  unfold pumping_subuniverse. rewrite filter_In, in_seq. unfold rule_at. rewrite R. simpl.
  set (r := nth i (keys_of ops) dummy).
  split.
  - intros [Hi Hb]. split; [lia|].
    destruct (getf (fn st) (parent r)) eqn:E; [discriminate|]. split; [apply P; auto|].
    intros c s Hin. rewrite forallb_forall in Hb. specialize (Hb _ Hin). simpl in Hb.
    apply P. destruct (getf (fn st) c); [discriminate|auto].
  - intros [Hi [Hp Hk]]. split; [lia|]. apply P in Hp. rewrite Hp.
    apply forallb_forall. intros [c s] Hin. simpl. rewrite (proj2 (P c) (Hk c s Hin)). reflexivity.
Qed.

(* ---- layer A is one schedule of layer S ---- *)
Lemma correct_gap_is_s st : correct_gap st = correct_gap_s st (held st).
Proof. reflexivity. Qed.

Lemma increase_value_is_s st c i : forall v, getf (fn st) c = Some v ->
  increase_value st c i =
  increase_value_s st c i (held st) (requeue st (upd (fn st) c (Some (v + 1))) c).
Proof.
  intros v Hv. unfold increase_value, increase_value_s. rewrite Hv.
  destruct (snd (cgap st) <? v); [reflexivity|].
  destruct (fst (cgap st) =? preimage_gap (upd (fn st) c (Some (v + 1))) (gsize st)).
  - cbn [rules fn gsize cgap queue held]. f_equal.
  - rewrite correct_gap_is_s. cbn [held]. f_equal. f_equal. apply requeue_rules_s.
    unfold correct_gap_s. destruct (_ <? _); reflexivity.
Qed.

Lemma pstep_is_sstep pick st st' : pstep pick st = Some st' -> sstep st st'.
Proof.
  unfold pstep. destruct (queue st) as [|i q] eqn:Eq.
  - destruct (held st) as [|h0 hs] eqn:Eh; [discriminate|]. rewrite <- Eh.
    intros H. injection H as <-.
    set (n := Nat.modulo (pick (held st)) (length (held st))).
    assert (n < length (held st))%nat as Hn.
    { apply Nat.mod_upper_bound. rewrite Eh. simpl. lia. }
    set (st1 := mktm (rules st) (fn st) (gsize st) (cgap st) [] (remove_at n (held st))).
    set (c := parent (rule_at st1 (nth n (held st) O))).
    assert (set_infinite st1 c = set_infinite_s st1 c (requeue st (upd (fn st) c None) c)) as E.
    { unfold set_infinite, set_infinite_s. destruct (getf (fn st1) c); reflexivity. }
    rewrite E. apply (ss_inf st n _ Eq Hn). intros _. apply rq_ok_requeue.
  - intros H. injection H as <-.
    set (st1 := mktm (rules st) (fn st) (gsize st) (cgap st) q (held st)).
    change (fn st1) with (fn st). change (rule_at st1 i) with (rule_at st i).
    destruct (can_fire (fn st) (rule_at st i)) eqn:Ef.
    + destruct (can_fire_true _ _ Ef) as (p & Hp & _).
      rewrite (increase_value_is_s st1 (parent (rule_at st i)) i p Hp).
      apply (ss_fire st i q (held st) _ Eq Ef (Permutation_refl _)).
      intros v Hv. rewrite Hp in Hv. injection Hv as <-.
      apply (rq_ok_rules st1 st); [reflexivity|]. apply rq_ok_requeue.
    + apply (ss_skip st i q Eq Ef).
Qed.

Lemma process_is_sproc pick : forall fuel st st', process pick fuel st = Some st' -> sproc st st'.
Proof.
  induction fuel as [|fuel IH]; intros st st' H; [discriminate|].
  assert (process pick (S fuel) st =
          match pstep pick st with None => Some st | Some s => process pick fuel s end) as U.
  { unfold pstep. simpl. destruct (queue st); [|reflexivity]. destruct (held st); reflexivity. }
  rewrite U in H. destruct (pstep pick st) as [s|] eqn:E.
  - destruct (IH s st' H) as (A & B & D). split; [|auto].
    eapply sstar_step; [eapply pstep_is_sstep; eauto|exact A].
  - injection H as <-. unfold pstep in E.
    destruct (queue st) eqn:Eq; [|discriminate]. destruct (held st) eqn:Eh; [|discriminate].
    split; [apply sstar_refl|auto].
Qed.

Lemma extend_key_ext_ok f r : ext_ok f (extend_key f r) r.
Proof.
  destruct (extend_key_length f r) as (A & B & D).
  split; [apply extend_key_getf|]. split; [exact A|]. split; [lia|]. split; [exact B|].
  intros _. exact D.
Qed.

Lemma pre_process_is_s st r : pre_process st r = pre_process_s st r (extend_key (fn st) r) (held st).
Proof. reflexivity. Qed.

Theorem A_run_is_S pick fuel : forall ops st st', run pick fuel st ops = Some st' -> sruns st ops st'.
Proof.
  induction ops as [|o ops IH]; intros st st' H; simpl in H.
  - injection H as <-. constructor.
  - destruct (step pick fuel st o) as [st1|] eqn:E; [|discriminate].
    destruct o as [r|c]; simpl in E.
    + rewrite add_rule_key_pre, pre_process_is_s in E.
      eapply sr_add; [apply extend_key_ext_ok|apply Permutation_refl|eapply process_is_sproc; eauto|].
      apply IH; auto.
    + injection E as <-. apply sr_query. apply IH; auto.
Qed.
