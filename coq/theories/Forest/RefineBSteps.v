(* Layer B refines layer S, operation by operation: each of
   _increase_value, _set_infinite, the preparation part of add_rule_key and
   is_pumping of ModelB.v, viewed through absB (forget the cache and the
   indices), is the corresponding operation of SchedDefs.v for SOME admissible
   re-queue list / table growth, and preserves the layer-B invariant BInv. *)
From Coq Require Import ZArith List Bool Lia Permutation.
From CSS Require Import Base.PyList Forest.Spec Forest.Model Forest.Basics Forest.Invariant
  Forest.Correct Forest.TerminationDefs Forest.ModelB Forest.GenBridge Forest.SchedDefs
  Forest.SchedInvariant Forest.SchedCorrect Forest.RefineBLists Forest.RefineBInv.
From CSS Require Import Gen.Prelude Gen.ForestCanGiveTerms Gen.ForestComputeShift
  Gen.ForestIncreaseValueHold Gen.ForestCorrectGapNewGap Gen.ForestCorrectGapRelease.
Import ListNotations.
Open Scope Z_scope.

Definition perm_ok (ord : list nat -> list nat) : Prop := forall l, Permutation (ord l) l.

Lemma with_fn_id b : with_fn b (b_fn b) = b.
Proof. destruct b; reflexivity. Qed.

(* ---------------- sizes of the two indices ---------------- *)
Fixpoint pairs_from (k : nat) (rs : list fkey) : list (nat * nat) :=
  match rs with
  | [] => []
  | r :: t => map (pair k) (seq 0 (length (kids r))) ++ pairs_from (S k) t
  end.

Lemma in_pairs_from : forall rs k i j,
  (k <= i < k + length rs)%nat -> (j < length (kids (nth (i - k) rs dummy)))%nat ->
  In (i, j) (pairs_from k rs).
Proof.
  induction rs as [|r t IH]; intros k i j Hi Hj; simpl in *; [lia|].
  apply in_app_iff. destruct (Nat.eq_dec i k) as [->|Hne].
  - left. rewrite Nat.sub_diag in Hj. apply in_map. apply in_seq. lia.
  - right. apply IH; [lia|]. replace (i - k)%nat with (S (i - S k)) in Hj by lia. exact Hj.
Qed.

Lemma pairs_from_len : forall rs k, zl (pairs_from k rs) + zl rs = slots rs.
Proof.
  induction rs as [|r t IH]; intros k; [reflexivity|].
  change (slots (r :: t)) with (1 + zl (kids r) + slots t). rewrite <- (IH (S k)).
  cbn [pairs_from]. unfold zl. rewrite app_length, map_length, seq_length. cbn [length]. lia.
Qed.

Lemma index_sizes b c : BInv b ->
  zl (dl_get (b_pumping b) c) + zl (dl_get (b_using b) c) <= slots (b_rules b).
Proof.
  intros I. rewrite <- (pairs_from_len (b_rules b) O). unfold zl.
  assert (length (dl_get (b_pumping b) c) <= length (seq 0 (length (b_rules b))))%nat as H1.
  { apply NoDup_incl_length; [apply (bi_pump_nd b I)|]. intros i Hi. apply in_seq.
    apply (bi_pump b I) in Hi. lia. }
  assert (length (dl_get (b_using b) c) <= length (pairs_from 0 (b_rules b)))%nat as H2.
  { apply NoDup_incl_length; [apply (bi_use_nd b I)|]. intros [i j] Hi.
    apply (bi_use b I) in Hi. destruct Hi as (A & _ & _ & B & _).
    apply in_pairs_from; [lia|]. rewrite Nat.sub_0_r. exact B. }
  rewrite seq_length in H1. lia.
Qed.

(* ---------------- _correct_gap ---------------- *)
Lemma absB_correct_gapB ord b : FInv (b_fn b) ->
  absB (correct_gapB ord b) = correct_gap_s (absB b) (ord (b_held b)).
Proof.
  intros HF. unfold correct_gapB, correct_gap_s. rewrite (fn_preimage_gap_spec _ _ HF).
  cbn [absB rules fn gsize cgap queue held].
  unfold correct_gap_release, correct_gap_new_gap.
  set (k := Model.preimage_gap (fval (b_fn b)) (b_gsize b)).
  change (py_get 0 [k; k + b_gsize b - 1] 1) with (k + b_gsize b - 1).
  change (py_get 0 [k; k + b_gsize b - 1] 0) with k.
  cbn [snd]. destruct (snd (b_cgap b) <? k + b_gsize b - 1); reflexivity.
Qed.

Lemma correct_gapB_fields ord b :
  b_rules (correct_gapB ord b) = b_rules b /\ b_shifts (correct_gapB ord b) = b_shifts b /\
  b_fn (correct_gapB ord b) = b_fn b /\ b_gsize (correct_gapB ord b) = b_gsize b /\
  b_using (correct_gapB ord b) = b_using b /\ b_pumping (correct_gapB ord b) = b_pumping b /\
  b_fail (correct_gapB ord b) = b_fail b.
Proof. unfold correct_gapB. destruct (correct_gap_release _ _); repeat split. Qed.

Lemma BInv_same b b' :
  b_rules b' = b_rules b -> b_shifts b' = b_shifts b -> b_fn b' = b_fn b ->
  b_using b' = b_using b -> b_pumping b' = b_pumping b -> b_fail b' = b_fail b ->
  BInv b -> BInv b'.
Proof.
  intros E1 E2 E3 E4 E5 E6 I. constructor; unfold fB, ruleB; rewrite ?E1, ?E2, ?E3, ?E4, ?E5, ?E6; apply I.
Qed.

Lemma BInv_correct_gapB ord b : BInv b -> BInv (correct_gapB ord b).
Proof.
  intros I. destruct (correct_gapB_fields ord b) as (A & B & C & D & E & F & G).
  apply (BInv_same b); auto.
Qed.

(* ---------------- _increase_value: the cached rows after the two loops ---------------- *)
Lemma getf_upd_live f c x y z : (c < length f)%nat -> getf f c = Some y ->
  (getf (upd f c (Some z)) x <> None <-> getf f x <> None).
Proof.
  intros Hc Hy. destruct (Nat.eq_dec c x) as [<-|Hne].
  - rewrite getf_upd_same by auto. rewrite Hy. split; discriminate.
  - rewrite getf_upd_other by auto. tauto.
Qed.

Lemma inc_rows b c v q0 : BInv b -> getf (fB b) c = Some v -> (c < length (fB b))%nat ->
  let f' := upd (fB b) c (Some (v + 1)) in
  let s2 := fold_left use_step (dl_get (b_using b) c)
              (fold_left pump_step (dl_get (b_pumping b) c) (b_shifts b, q0, true)) in
  forall i, (i < length (b_rules b))%nat -> getf f' (parent (ruleB b i)) <> None ->
    nth i (tab_of s2) [] = source_shifts f' (ruleB b i).
Proof.
  intros I Hv Hc f' s2 i Hi Hlive'.
  assert (getf (fB b) (parent (ruleB b i)) <> None) as Hlive.
  { apply (getf_upd_live (fB b) c _ v (v + 1) Hc Hv). exact Hlive'. }
  set (r := ruleB b i) in *.
  destruct (getf (fB b) (parent r)) as [p|] eqn:Hp; [|congruence].
  destruct (getf f' (parent r)) as [p'|] eqn:Hp'; [|congruence].
  pose proof (bi_rows b I i Hi ltac:(fold r; congruence)) as Hrow. fold r in Hrow.
  set (P := dl_get (b_pumping b) c) in *. set (U := dl_get (b_using b) c) in *.
  pose proof (bi_pump_nd b I c) as HPnd. fold P in HPnd.
  pose proof (bi_use_nd b I c) as HUnd. fold U in HUnd.
  set (s1 := fold_left pump_step P (b_shifts b, q0, true)) in *.
  assert (nth i (tab_of s1) [] = if memn i P then dec_row (source_shifts (fB b) r) else source_shifts (fB b) r) as Hr1.
  { unfold s1. rewrite pump_tab_row by auto. unfold tab_of at 1 2; simpl. rewrite Hrow. reflexivity. }
  apply row_ext.
  - unfold s2. rewrite use_tab_row_length, Hr1.
    destruct (memn i P); rewrite ?length_dec_row, !source_shifts_length; reflexivity.
  - intros k. change (nth k (nth i (tab_of s2) []) None) with (entry (tab_of s2) i k).
    unfold s2. rewrite use_tab_entry by auto. unfold entry at 1. rewrite Hr1.
    rewrite (source_shifts_entry f' r p' k Hp').
    assert (nth k (if memn i P then dec_row (source_shifts (fB b) r) else source_shifts (fB b) r) None =
            match sh_entry (fB b) r p k with
            | Some x => Some (if memn i P then x - 1 else x) | None => None end) as E1.
    { destruct (memn i P); rewrite ?nth_dec_row, (source_shifts_entry (fB b) r p k Hp);
        destruct (sh_entry (fB b) r p k); reflexivity. }
    rewrite E1. unfold sh_entry.
    destruct (nth_error (kids r) k) as [[ck sk]|] eqn:Ek; [|reflexivity]. cbn [fst snd].
    destruct (kid_class_nth r k (ck, sk) Ek) as [Hkc Hkl]. cbn [fst] in Hkc.
    (* membership in the two indices *)
    assert (memn i P = true <-> parent r = c) as HmP.
    { rewrite memn_In. unfold P. rewrite (bi_pump b I c i). fold r. split; [tauto|].
      intros E. split; auto. split; auto. congruence. }
    destruct (getf (fB b) ck) as [m|] eqn:Hm.
    + assert (memp (i, k) U = true <-> ck = c) as HmU.
      { rewrite memp_In. unfold U. rewrite (bi_use b I c i k). fold r. rewrite Hkc. split; [tauto|].
        intros E. repeat split; auto; congruence. }
      clear Hkc. unfold f' in *.
      destruct (Nat.eq_dec c ck) as [Eck|Nck]; destruct (Nat.eq_dec c (parent r)) as [Epr|Npr].
      * subst ck. rewrite <- Epr in *. rewrite getf_upd_same in * by auto.
        assert (memn i P = true) as -> by (apply HmP; auto).
        assert (memp (i, k) U = true) as -> by (apply HmU; auto).
        injection Hp' as <-. rewrite Hv in Hm, Hp. injection Hm as <-. injection Hp as <-. f_equal. lia.
      * subst ck. rewrite getf_upd_same by auto. rewrite getf_upd_other in Hp' by auto.
        assert (memn i P = false) as ->.
        { destruct (memn i P) eqn:E; auto. exfalso. apply Npr. symmetry. apply HmP; auto. }
        assert (memp (i, k) U = true) as -> by (apply HmU; auto).
        rewrite Hv in Hm. injection Hm as <-. rewrite Hp in Hp'. injection Hp' as <-. f_equal. lia.
      * rewrite getf_upd_other by auto. rewrite <- Epr in *. rewrite getf_upd_same in Hp' by auto.
        assert (memn i P = true) as -> by (apply HmP; auto).
        assert (memp (i, k) U = false) as ->.
        { destruct (memp (i, k) U) eqn:E; auto. exfalso. apply Nck. symmetry. apply HmU; auto. }
        rewrite Hm. injection Hp' as <-. rewrite Hv in Hp. injection Hp as <-. f_equal. lia.
      * rewrite getf_upd_other by auto. rewrite getf_upd_other in Hp' by auto.
        assert (memn i P = false) as ->.
        { destruct (memn i P) eqn:E; auto. exfalso. apply Npr. symmetry. apply HmP; auto. }
        assert (memp (i, k) U = false) as ->.
        { destruct (memp (i, k) U) eqn:E; auto. exfalso. apply Nck. symmetry. apply HmU; auto. }
        rewrite Hm. rewrite Hp in Hp'. injection Hp' as <-. reflexivity.
    + assert (c <> ck) as Nck by (intros ->; congruence).
      unfold f'. rewrite getf_upd_other by auto. rewrite Hm. reflexivity.
Qed.

(* ---------------- the three loops: what they append to the queue ---------------- *)
Lemma pump_loop_spec P s :
  exists l, queue_of (fold_left pump_step P s) = queue_of s ++ l /\
            (forall j, In j l -> In j P) /\ (length l <= length P)%nat /\
            (forall j, In j P ->
               can_give_terms (nth j (tab_of (fold_left pump_step P s)) []) = true -> In j l).
Proof.
  destruct (loop_spec nat (fun x => x) pump_step (fun _ _ => True)
              (fun T q ok x _ => pump_step_queue T q ok x)
              (fun T q ok x j H => pump_step_other T q ok x j H)
              (fun _ _ _ _ _ _ => Logic.I) P s (fun _ _ => Logic.I)) as (l & A & B & C & D).
  rewrite map_id in B, D. exists l. auto.
Qed.

Lemma use_loop_spec U s : (forall p, In p U -> use_good (tab_of s) p) ->
  exists l, queue_of (fold_left use_step U s) = queue_of s ++ l /\
            (forall j, In j l -> In j (map fst U)) /\ (length l <= length U)%nat /\
            (forall j, In j (map fst U) ->
               can_give_terms (nth j (tab_of (fold_left use_step U s)) []) = true -> In j l).
Proof.
  intros Hg.
  apply (loop_spec (nat * nat) fst use_step use_good
              (fun T q ok x H => use_step_queue T q ok x H)
              (fun T q ok x j H => use_step_other T q ok x j H)
              (fun T q ok x y H => use_good_pres T q ok x y H) U s Hg).
Qed.

Lemma inf_loop_spec U s :
  exists l, queue_of (fold_left inf_step U s) = queue_of s ++ l /\
            (forall j, In j l -> In j (map fst U)) /\ (length l <= length U)%nat /\
            (forall j, In j (map fst U) ->
               can_give_terms (nth j (tab_of (fold_left inf_step U s)) []) = true -> In j l).
Proof.
  apply (loop_spec (nat * nat) fst inf_step (fun _ _ => True)
              (fun T q ok x _ => inf_step_queue T q ok x)
              (fun T q ok x j H => inf_step_other T q ok x j H)
              (fun _ _ _ _ _ _ => Logic.I) U s (fun _ _ => Logic.I)).
Qed.

Lemma rule_at_absB b i : rule_at (absB b) i = ruleB b i.
Proof. reflexivity. Qed.

Lemma in_kids_nth_error r c s : In (c, s) (kids r) -> exists k, nth_error (kids r) k = Some (c, s).
Proof. apply In_nth_error. Qed.

(* ---------------- _increase_value ---------------- *)
Lemma increase_valueB_sim ord b i :
  BInv b -> (i < length (b_rules b))%nat ->
  can_fire (fB b) (ruleB b i) = true ->
  (parent (ruleB b i) < length (fB b))%nat ->
  (forall v, getf (fB b) (parent (ruleB b i)) = Some v -> 0 <= v) ->
  exists l,
    absB (increase_valueB ord b (parent (ruleB b i)) i) =
      increase_value_s (absB b) (parent (ruleB b i)) i (ord (b_held b)) l /\
    (forall v, getf (fB b) (parent (ruleB b i)) = Some v ->
       rq_ok (absB b) (upd (fB b) (parent (ruleB b i)) (Some (v + 1))) (parent (ruleB b i)) l) /\
    BInv (increase_valueB ord b (parent (ruleB b i)) i).
Proof.
  intros I Hi Hf Hc Hnn. set (c := parent (ruleB b i)) in *.
  destruct (can_fire_true _ _ Hf) as (v & Hv & _). fold c in Hv.
  pose proof (Hnn v Hv) as Hv0.
  unfold increase_valueB. rewrite (fn_extend_id (b_fn b) c Hc), with_fn_id.
  change (fval (b_fn b)) with (fB b). rewrite Hv. unfold increase_value_hold.
  destruct (snd (b_cgap b) <? v) eqn:Eh.
  - (* put on hold *)
    exists (requeue (absB b) (upd (fB b) c (Some (v + 1))) c). split; [|split].
    + unfold increase_value_s. cbn [absB fn cgap]. change (fval (b_fn b)) with (fB b). rewrite Hv, Eh. reflexivity.
    + intros v' Hv'. assert (v' = v) as -> by (first [congruence | (unfold c in Hv; congruence)]). apply rq_ok_requeue.
    + apply BInv_with_held; auto.
  - (* the value increases *)
    destruct (fn_increase_spec (b_fn b) c v (bi_fn b I) Hc Hv Hv0) as [Ef' HF'].
    set (f' := upd (fB b) c (Some (v + 1))) in *.
    set (b1 := with_fn b (fn_increase (b_fn b) c)).
    assert (fn_preimage_gap (b_fn b1) (b_gsize b1) = Model.preimage_gap f' (b_gsize b)) as Eg.
    { unfold b1. cbn [with_fn b_fn b_gsize]. rewrite (fn_preimage_gap_spec _ _ HF'), Ef'. reflexivity. }
    rewrite Eg.
    set (st1 := mktm (b_rules b) f' (b_gsize b) (b_cgap b) (b_queue b) (b_held b)).
    assert (absB b1 = st1) as Ea1 by (unfold b1, st1, absB; cbn; rewrite Ef'; reflexivity).
    set (b2 := if fst (b_cgap b1) =? Model.preimage_gap f' (b_gsize b) then b1 else correct_gapB ord b1).
    set (st2 := if fst (b_cgap b) =? Model.preimage_gap f' (b_gsize b) then st1 else correct_gap_s st1 (ord (b_held b))).
    assert (absB b2 = st2 /\ b_rules b2 = b_rules b /\ b_shifts b2 = b_shifts b /\
            b_fn b2 = fn_increase (b_fn b) c /\ b_using b2 = b_using b /\ b_pumping b2 = b_pumping b /\
            b_fail b2 = b_fail b) as (Ea2 & R2 & S2 & F2 & U2 & P2 & X2).
    { unfold b2, st2. change (b_cgap b1) with (b_cgap b).
      destruct (fst (b_cgap b) =? Model.preimage_gap f' (b_gsize b)).
      - repeat split; auto.
      - destruct (correct_gapB_fields ord b1) as (A1 & A2 & A3 & A4 & A5 & A6 & A7).
        rewrite absB_correct_gapB by exact HF'. rewrite Ea1. repeat split; auto. }
    rewrite P2, U2, S2.
    set (P := dl_get (b_pumping b) c). set (U := dl_get (b_using b) c).
    set (s1 := fold_left pump_step P (b_shifts b, b_queue b2, true)).
    (* the pumping loop *)
    destruct (pump_loop_spec P (b_shifts b, b_queue b2, true)) as (l1 & Q1 & In1 & Len1 & Cov1).
    fold s1 in Q1, Cov1. change (queue_of (b_shifts b, b_queue b2, true)) with (b_queue b2) in Q1.
    (* rows after the pumping loop, for the registered pairs *)
    assert (forall p, In p U -> use_good (tab_of s1) p) as Hgood.
    { intros [i0 k0] Hp. unfold use_good. cbn [fst snd].
      apply (bi_use b I c i0 k0) in Hp. destruct Hp as (Hi0 & Hl0 & Hc0 & Hk0 & Hkc).
      unfold entry, s1. rewrite pump_tab_row by apply (bi_pump_nd b I). unfold tab_of at 1 2; simpl.
      rewrite (bi_rows b I i0 Hi0 Hl0).
      destruct (getf (fB b) (parent (ruleB b i0))) as [p0|] eqn:Hp0; [|congruence].
      assert (sh_entry (fB b) (ruleB b i0) p0 k0 <> None) as Hne.
      { unfold sh_entry. destruct (nth_error (kids (ruleB b i0)) k0) as [cs|] eqn:Ek.
        - destruct (kid_class_nth _ _ _ Ek) as [Hkc' _]. rewrite Hkc in Hkc'. rewrite <- Hkc'.
          destruct (getf (fB b) c); [discriminate|congruence].
        - apply nth_error_None in Ek. lia. }
      destruct (memn i0 P); rewrite ?nth_dec_row, (source_shifts_entry _ _ _ _ Hp0);
        destruct (sh_entry (fB b) (ruleB b i0) p0 k0); congruence. }
    destruct (use_loop_spec U s1 Hgood) as (l2 & Q2 & In2 & Len2 & Cov2).
    pose proof (use_ok U s1 Hgood) as Hok. unfold s1 at 2 in Hok. rewrite pump_ok in Hok.
    change (ok_of (b_shifts b, b_queue b2, true)) with true in Hok.
    pose proof (inc_rows b c v (b_queue b2) I Hv Hc) as Hrows. cbv zeta in Hrows. fold f' P U s1 in Hrows.
    assert (length (tab_of (fold_left use_step U s1)) = length (b_rules b)) as HlenT.
    { rewrite use_tab_length. unfold s1. rewrite pump_tab_length. unfold tab_of; simpl. apply (bi_len b I). }
    destruct (fold_left use_step U s1) as [[T q] ok] eqn:Es2.
    unfold queue_of, tab_of, ok_of in Q2, Cov2, Hok, Hrows, HlenT; simpl in Q2, Cov2, Hok, Hrows, HlenT.
    unfold queue_of in Q1; simpl in Q1.
    subst ok. rewrite Q1 in Q2. rewrite <- app_assoc in Q2.
    assert (forall x, getf f' x <> None <-> getf (fB b) x <> None) as Hlive.
    { intros x. apply (getf_upd_live (fB b) c x v (v + 1) Hc Hv). }
    exists (l1 ++ l2). split; [|split].
    + (* the layer-A view *)
      unfold increase_value_s. cbn [absB fn cgap gsize rules queue held].
      change (fval (b_fn b)) with (fB b). rewrite Hv, Eh. fold f' st1 st2.
      unfold absB at 1. cbn [b_rules b_fn b_gsize b_cgap b_queue b_held].
      rewrite <- Ea2. unfold absB. cbn [rules fn gsize cgap queue held]. rewrite Q2. reflexivity.
    + (* the appended list is an admissible re-queue list *)
      intros v' Hv'. assert (v' = v) as -> by (first [congruence | (unfold c in Hv; congruence)]). fold f'.
      split; [|split].
      * intros j Hj. apply in_requeue in Hj. destruct Hj as (Hj & Hm & Hfj).
        rewrite rule_at_absB in Hm, Hfj. cbn [absB rules] in Hj.
        destruct (can_fire_true _ _ Hfj) as (pj & Hpj & _).
        assert (getf f' (parent (ruleB b j)) <> None) as Hlj by congruence.
        pose proof (Hrows j Hj Hlj) as Hrow.
        assert (can_give_terms (nth j T []) = true) as Hcg.
        { rewrite Hrow, (can_give_source f' _ pj Hpj). exact Hfj. }
        apply in_app_iff.
        destruct (in_dec Nat.eq_dec j (map fst U)) as [HjU|HjU].
        -- right. apply Cov2; auto.
        -- left. apply Cov1.
           ++ (* no child is c, so the parent is *)
              unfold mentions in Hm. apply orb_true_iff in Hm. destruct Hm as [Hm|Hm].
              ** apply Nat.eqb_eq in Hm. apply (bi_pump b I c j). repeat split; auto. congruence.
              ** exfalso. apply HjU. apply existsb_exists in Hm. destruct Hm as ([cc ss] & Hin & Ecc).
                 simpl in Ecc. apply Nat.eqb_eq in Ecc. subst cc.
                 destruct (in_kids_nth_error _ _ _ Hin) as [k Hk].
                 destruct (kid_class_nth _ _ _ Hk) as [Hkc Hkl]. cbn [fst] in Hkc.
                 apply in_map_iff. exists (j, k). split; auto.
                 apply (bi_use b I c j k). repeat split; auto.
                 --- apply Hlive. exact Hlj.
                 --- congruence.
           ++ (* the row was not touched by the second loop *)
              assert (nth j T [] = nth j (tab_of s1) []) as Erow.
              { pose proof (loop_row_other (nat * nat) fst use_step
                              (fun T q ok x j H => use_step_other T q ok x j H) U s1 j HjU) as E.
                rewrite Es2 in E. exact E. }
              rewrite <- Erow. exact Hcg.
      * intros j Hj. cbn [absB rules]. apply in_app_iff in Hj. destruct Hj as [Hj|Hj].
        -- apply In1 in Hj. apply (bi_pump b I c j) in Hj. apply Hj.
        -- apply In2 in Hj. apply in_map_iff in Hj. destruct Hj as ([j' k] & <- & Hjk).
           apply (bi_use b I c j' k) in Hjk. apply Hjk.
      * cbn [absB rules]. pose proof (index_sizes b c I) as Hs. fold P U in Hs.
        unfold zl in *. rewrite app_length. lia.
    + (* the invariant *)
      constructor; cbn [b_rules b_shifts b_fn b_using b_pumping b_fail]; unfold fB, ruleB;
        cbn [b_rules b_shifts b_fn b_using b_pumping b_fail]; rewrite ?R2, ?F2, ?U2, ?P2, ?X2, ?Ef'.
      * exact HlenT.
      * intros j Hj Hlj. apply Hrows; auto.
      * intros c0 j. rewrite (bi_pump b I c0 j). pose proof (Hlive c0) as H0.
        unfold f', fB, ruleB in *. tauto.
      * apply (bi_pump_nd b I).
      * intros c0 j k. rewrite (bi_use b I c0 j k). pose proof (Hlive c0) as H0.
        pose proof (Hlive (parent (ruleB b j))) as H1. unfold f', fB, ruleB in *. tauto.
      * apply (bi_use_nd b I).
      * exact HF'.
      * rewrite (bi_ok b I). reflexivity.
Qed.

(* ---------------- _set_infinite: the purge of _rules_using_class ---------------- *)
Definition keep_not (ri : nat) (p : nat * nat) : bool := negb (Nat.eqb (fst p) ri).

Lemma dl_get_set {A} (l : list (list A)) c c' x :
  dl_get (dl_set l c x) c' = if Nat.eqb c c' then x else dl_get l c'.
Proof.
  destruct (Nat.eqb c c') eqn:E.
  - apply Nat.eqb_eq in E. subst. apply dl_get_set_same.
  - apply Nat.eqb_neq in E. apply dl_get_set_other; auto.
Qed.

Lemma purge_inner_spec ri : forall cs (U : list (list (nat * nat))) c' p,
  In p (dl_get (fold_left (fun U child => dl_set U child (filter (keep_not ri) (dl_get U child))) cs U) c') <->
  In p (dl_get U c') /\ (In c' cs -> fst p <> ri).
Proof.
  induction cs as [|a cs IH]; intros U c' p; simpl.
  - tauto.
  - rewrite IH, dl_get_set. destruct (Nat.eqb a c') eqn:E.
    + apply Nat.eqb_eq in E. subst a. rewrite filter_In. unfold keep_not. rewrite negb_true_iff, Nat.eqb_neq. tauto.
    + apply Nat.eqb_neq in E. tauto.
Qed.

Lemma purge_inner_nodup ri : forall cs (U : list (list (nat * nat))) c',
  NoDup (dl_get U c') ->
  NoDup (dl_get (fold_left (fun U child => dl_set U child (filter (keep_not ri) (dl_get U child))) cs U) c').
Proof.
  induction cs as [|a cs IH]; intros U c' H; simpl; auto.
  apply IH. rewrite dl_get_set. destruct (Nat.eqb a c') eqn:E; auto.
  apply Nat.eqb_eq in E. subst a. apply NoDup_filter. exact H.
Qed.

Lemma purge_rule_unfold rs U ri :
  purge_rule rs U ri =
  fold_left (fun U child => dl_set U child (filter (keep_not ri) (dl_get U child)))
            (map fst (kids (nth ri rs dummy))) U.
Proof. reflexivity. Qed.

Lemma purge_spec rs : forall P (U : list (list (nat * nat))) c' p,
  In p (dl_get (fold_left (purge_rule rs) P U) c') <->
  In p (dl_get U c') /\
  (forall ri, In ri P -> In c' (map fst (kids (nth ri rs dummy))) -> fst p <> ri).
Proof.
  induction P as [|a P IH]; intros U c' p; simpl.
  - split; [intros H; split; auto; intros ri []|tauto].
  - rewrite IH, purge_rule_unfold, purge_inner_spec. split.
    + intros ((A & B) & D). split; auto. intros ri [<-|Hri]; auto.
    + intros (A & B). split; [split; auto|]. intros ri Hri. apply B. right; auto.
Qed.

Lemma purge_nodup rs : forall P (U : list (list (nat * nat))) c',
  NoDup (dl_get U c') -> NoDup (dl_get (fold_left (purge_rule rs) P U) c').
Proof.
  induction P as [|a P IH]; intros U c' H; simpl; auto.
  apply IH. rewrite purge_rule_unfold. apply purge_inner_nodup. exact H.
Qed.

Lemma kid_class_in r k : (k < length (kids r))%nat -> In (kid_class r k) (map fst (kids r)).
Proof. intros H. unfold kid_class. apply in_map. apply nth_In. exact H. Qed.

(* with the invariant: the purge removes exactly the pairs of the rules of class c *)
Lemma purge_BInv b c c' i j : BInv b ->
  In (i, j) (dl_get (fold_left (purge_rule (b_rules b)) (dl_get (b_pumping b) c) (b_using b)) c') <->
  In (i, j) (dl_get (b_using b) c') /\ ~ In i (dl_get (b_pumping b) c).
Proof.
  intros I. rewrite purge_spec. split; intros [A B]; split; auto.
  - intros Hi. apply (B i Hi); auto.
    apply (bi_use b I c' i j) in A. destruct A as (_ & _ & _ & Hj & <-). apply kid_class_in. exact Hj.
  - intros ri Hri _ E. simpl in E. subst ri. contradiction.
Qed.

(* ---------------- _set_infinite ---------------- *)
Lemma getf_upd_none_live f c x : (c < length f)%nat ->
  (getf (upd f c None) x <> None <-> getf f x <> None /\ x <> c).
Proof.
  intros Hc. destruct (Nat.eq_dec c x) as [<-|Hne].
  - rewrite getf_upd_same by auto. split; [congruence|intros [_ H]; congruence].
  - rewrite getf_upd_other by auto. split; [intros H; split; auto|tauto].
Qed.

Lemma set_infiniteB_sim b c :
  BInv b -> b_queue b = [] -> (c < length (fB b))%nat ->
  (forall v, getf (fB b) c = Some v -> 0 <= v /\ snd (b_cgap b) < v) ->
  exists l,
    absB (set_infiniteB b c) = set_infinite_s (absB b) c l /\
    (getf (fB b) c <> None -> rq_ok (absB b) (upd (fB b) c None) c l) /\
    BInv (set_infiniteB b c).
Proof.
  intros I Hq Hc Hheld.
  unfold set_infiniteB. rewrite (fn_extend_id (b_fn b) c Hc), with_fn_id.
  change (fval (b_fn b)) with (fB b).
  destruct (getf (fB b) c) as [v|] eqn:Hv.
  2:{ exists []. split; [|split; [congruence|exact I]].
      unfold set_infinite_s. cbn [absB fn]. change (fval (b_fn b)) with (fB b). rewrite Hv. reflexivity. }
  destruct (Hheld v eq_refl) as [Hv0 Hgt].
  destruct (fn_set_infinite_spec (b_fn b) c v (bi_fn b I) Hc Hv Hv0) as [Ef' HF'].
  set (f' := upd (fB b) c None) in *.
  assert (((snd (b_cgap b) <? v) && match b_queue b with [] => true | _ :: _ => false end) = true) as Eok.
  { rewrite Hq. apply andb_true_iff. split; auto. apply Z.ltb_lt. exact Hgt. }
  rewrite Eok.
  set (P := dl_get (b_pumping b) c).
  set (U1 := fold_left (purge_rule (b_rules b)) P (b_using b)).
  set (Uc := dl_get U1 c).
  assert (forall c' i j, In (i, j) (dl_get U1 c') <-> In (i, j) (dl_get (b_using b) c') /\ ~ In i P) as HU1.
  { intros c' i j. apply purge_BInv. exact I. }
  assert (forall c', NoDup (dl_get U1 c')) as HU1nd.
  { intros c'. apply purge_nodup. apply (bi_use_nd b I). }
  assert (forall x, getf f' x <> None <-> getf (fB b) x <> None /\ x <> c) as Hlive.
  { intros x. apply getf_upd_none_live. exact Hc. }
  destruct (inf_loop_spec Uc (b_shifts b, b_queue b, true)) as (l & Q & Inl & Lenl & Cov).
  pose proof (inf_ok Uc (b_shifts b, b_queue b, true)) as Hok.
  (* the rows of the live rules after the loop *)
  assert (forall i, (i < length (b_rules b))%nat -> getf f' (parent (ruleB b i)) <> None ->
            nth i (tab_of (fold_left inf_step Uc (b_shifts b, b_queue b, true))) [] =
            source_shifts f' (ruleB b i)) as Hrows.
  { intros i Hi Hli. apply Hlive in Hli. destruct Hli as [Hli Hpc].
    set (r := ruleB b i) in *.
    destruct (getf (fB b) (parent r)) as [p|] eqn:Hp; [|congruence].
    assert (getf f' (parent r) = Some p) as Hp'.
    { unfold f'. rewrite getf_upd_other by auto. exact Hp. }
    pose proof (bi_rows b I i Hi ltac:(fold r; congruence)) as Hrow. fold r in Hrow.
    apply row_ext.
    - rewrite inf_tab_row_length. unfold tab_of; simpl. rewrite Hrow, !source_shifts_length. reflexivity.
    - intros k.
      change (nth k (nth i (tab_of (fold_left inf_step Uc (b_shifts b, b_queue b, true))) []) None)
        with (entry (tab_of (fold_left inf_step Uc (b_shifts b, b_queue b, true))) i k).
      rewrite inf_tab_entry. unfold tab_of at 1; simpl. unfold entry. rewrite Hrow.
      rewrite (source_shifts_entry (fB b) r p k Hp), (source_shifts_entry f' r p k Hp').
      unfold sh_entry.
      destruct (nth_error (kids r) k) as [[ck sk]|] eqn:Ek.
      2:{ destruct (memp (i, k) Uc); reflexivity. }
      cbn [fst snd]. destruct (kid_class_nth r k (ck, sk) Ek) as [Hkc Hkl]. cbn [fst] in Hkc.
      destruct (Nat.eq_dec ck c) as [->|Nck].
      + unfold f' at 1. rewrite getf_upd_same by auto.
        assert (memp (i, k) Uc = true) as ->; [|reflexivity].
        apply memp_In. unfold Uc. apply HU1. split.
        * apply (bi_use b I c i k). fold r. repeat split; auto; congruence.
        * intros HiP. apply (bi_pump b I c i) in HiP. fold r in HiP. destruct HiP as (_ & E & _). congruence.
      + assert (memp (i, k) Uc = false) as ->.
        { destruct (memp (i, k) Uc) eqn:E; auto. exfalso. apply memp_In in E. unfold Uc in E.
          apply HU1 in E. destruct E as [E _]. apply (bi_use b I c i k) in E. fold r in E.
          destruct E as (_ & _ & _ & _ & E). congruence. }
        unfold f'. rewrite getf_upd_other by auto. reflexivity. }
  assert (length (tab_of (fold_left inf_step Uc (b_shifts b, b_queue b, true))) = length (b_rules b)) as HlenT.
  { rewrite inf_tab_length. unfold tab_of; simpl. apply (bi_len b I). }
  destruct (fold_left inf_step Uc (b_shifts b, b_queue b, true)) as [[T q] ok] eqn:Es.
  unfold queue_of, tab_of, ok_of in Q, Cov, Hok, Hrows, HlenT; simpl in Q, Cov, Hok, Hrows, HlenT.
  subst ok. rewrite Hq in Q. simpl in Q. subst q.
  exists l. split; [|split].
  - unfold set_infinite_s. cbn [absB fn rules gsize cgap queue held b_rules b_fn b_gsize b_cgap b_queue b_held].
    change (fval (b_fn b)) with (fB b). rewrite Hv, Hq. unfold absB. cbn [b_rules b_fn b_gsize b_cgap b_queue b_held].
    rewrite Ef'. reflexivity.
  - intros _. fold f'. split; [|split].
    + intros j Hj. apply in_requeue in Hj. destruct Hj as (Hj & Hm & Hfj).
      rewrite rule_at_absB in Hm, Hfj. cbn [absB rules] in Hj.
      destruct (can_fire_true _ _ Hfj) as (pj & Hpj & _).
      assert (getf f' (parent (ruleB b j)) <> None) as Hlj by congruence.
      pose proof (Hrows j Hj Hlj) as Hrow.
      apply Hlive in Hlj. destruct Hlj as [Hlj Hpc].
      apply Cov.
      * unfold mentions in Hm. apply orb_true_iff in Hm. destruct Hm as [Hm|Hm].
        { apply Nat.eqb_eq in Hm. congruence. }
        apply existsb_exists in Hm. destruct Hm as ([cc ss] & Hin & Ecc).
        simpl in Ecc. apply Nat.eqb_eq in Ecc. subst cc.
        destruct (in_kids_nth_error _ _ _ Hin) as [k Hk].
        destruct (kid_class_nth _ _ _ Hk) as [Hkc Hkl]. cbn [fst] in Hkc.
        apply in_map_iff. exists (j, k). split; auto. unfold Uc. apply HU1. split.
        -- apply (bi_use b I c j k). repeat split; auto. congruence.
        -- intros HjP. apply (bi_pump b I c j) in HjP. destruct HjP as (_ & E & _). congruence.
      * rewrite Hrow, (can_give_source f' _ pj Hpj). exact Hfj.
    + intros j Hj. cbn [absB rules]. apply Inl in Hj. apply in_map_iff in Hj.
      destruct Hj as ([j' k] & <- & Hjk). unfold Uc in Hjk. apply HU1 in Hjk. destruct Hjk as [Hjk _].
      apply (bi_use b I c j' k) in Hjk. apply Hjk.
    + cbn [absB rules]. pose proof (index_sizes b c I) as Hs.
      assert (length Uc <= length (dl_get (b_using b) c))%nat as Hle.
      { apply NoDup_incl_length; [apply HU1nd|]. intros [i j] Hij. unfold Uc in Hij. apply HU1 in Hij. apply Hij. }
      unfold zl in *. lia.
  - constructor; cbn [b_rules b_shifts b_fn b_using b_pumping b_fail].
    + exact HlenT.
    + intros i Hi Hli. unfold fB, ruleB in *. cbn [b_rules b_fn] in *. rewrite Ef' in *. apply Hrows; auto.
    + intros c0 i. unfold fB, ruleB. cbn [b_rules b_fn]. rewrite Ef'. rewrite dl_get_set.
      destruct (Nat.eqb c c0) eqn:E.
      * apply Nat.eqb_eq in E. subst c0. simpl. split; [tauto|]. intros (_ & _ & H). apply Hlive in H. tauto.
      * apply Nat.eqb_neq in E. rewrite (bi_pump b I c0 i). pose proof (Hlive c0) as H0.
        assert (c0 <> c) as E' by (intros ->; apply E; reflexivity).
        unfold f', fB, ruleB in *. split; intros (A & B & D); repeat split; auto; tauto.
    + intros c0. rewrite dl_get_set. destruct (Nat.eqb c c0); [constructor|apply (bi_pump_nd b I)].
    + intros c0 i j. unfold fB, ruleB. cbn [b_rules b_fn]. rewrite Ef'. rewrite dl_get_set.
      destruct (Nat.eqb c c0) eqn:E.
      * apply Nat.eqb_eq in E. subst c0. simpl. split; [tauto|]. intros (_ & _ & H & _). apply Hlive in H. tauto.
      * apply Nat.eqb_neq in E. rewrite HU1, (bi_use b I c0 i j). unfold P. rewrite (bi_pump b I c i).
        pose proof (Hlive c0) as H0. pose proof (Hlive (parent (ruleB b i))) as H1.
        assert (c0 <> c) as E' by (intros ->; apply E; reflexivity).
        unfold f', fB, ruleB in *. split.
        -- intros ((A & B & D & F & G) & N). repeat split; auto; try tauto.
           apply H1. split; auto. intros Epc. apply N. repeat split; auto. rewrite Hv. discriminate.
        -- intros (A & B & D & F & G). apply H1 in B. apply H0 in D. split; [repeat split; tauto|].
           intros (_ & Epc & _). tauto.
    + intros c0. rewrite dl_get_set. destruct (Nat.eqb c c0); [constructor|apply HU1nd].
    + exact HF'.
    + rewrite (bi_ok b I). reflexivity.
Qed.

(* ---------------- add_rule_key: the lookups, the new row, the registration ---------------- *)
Lemma fold_extend_fval : forall cs F,
  fval (fold_left fn_extend cs F) = fold_left (fun f c => extend f c) cs (fval F).
Proof. induction cs as [|a cs IH]; intros F; simpl; auto. rewrite IH. reflexivity. Qed.

Lemma fold_extend_inv : forall cs F, FInv F -> FInv (fold_left fn_extend cs F).
Proof. induction cs as [|a cs IH]; intros F H; simpl; auto. apply IH. apply fn_extend_inv. exact H. Qed.

Lemma fold_extend_len : forall cs f, (length f <= length (fold_left (fun f c => extend f c) cs f))%nat.
Proof.
  induction cs as [|a cs IH]; intros f; simpl; auto.
  specialize (IH (extend f a)). rewrite length_extend in IH. lia.
Qed.

Lemma fn_extend_key_spec F r : FInv F ->
  FInv (fn_extend_key F r) /\ ext_ok (fval F) (fval (fn_extend_key F r)) r.
Proof.
  intros HF. unfold fn_extend_key.
  pose proof (fn_extend_inv F (parent r) HF) as HF0.
  destruct (extend_key_length (fval F) r) as (L1 & L2 & L3).
  cbn [fn_extend fval].
  destruct (getf (extend (fval F) (parent r)) (parent r)) as [p|] eqn:Ep.
  - split; [apply fold_extend_inv; exact HF0|].
    rewrite fold_extend_fval. cbn [fn_extend fval]. fold (extend_key (fval F) r).
    split; [apply extend_key_getf|]. split; [exact L1|]. split; [lia|]. split; [exact L2|].
    intros _. exact L3.
  - split; [exact HF0|]. cbn [fn_extend fval].
    split; [intros c; apply getf_extend|]. rewrite length_extend.
    split; [lia|]. split.
    + unfold extend_key. pose proof (fold_extend_len (map fst (kids r)) (extend (fval F) (parent r))) as H.
      rewrite length_extend in H. exact H.
    + split; [lia|]. intros Hl. rewrite getf_extend in Ep. congruence.
Qed.

Definition reg_step (f : vals) (idx : nat) (U : list (list (nat * nat))) (jc : nat * nat) :=
  match getf f (snd jc) with
  | None => U
  | Some _ => dl_set U (snd jc) (dl_get U (snd jc) ++ [(idx, fst jc)])
  end.

Lemma register_children_unfold f idx r U :
  register_children f idx r U =
  fold_left (reg_step f idx) (combine (seq 0 (length (map fst (kids r)))) (map fst (kids r))) U.
Proof. unfold register_children. rewrite map_length. reflexivity. Qed.

Lemma register_spec f idx : forall l s (U : list (list (nat * nat))) c' p,
  In p (dl_get (fold_left (reg_step f idx) (combine (seq s (length l)) l) U) c') <->
  In p (dl_get U c') \/
  (fst p = idx /\ (s <= snd p < s + length l)%nat /\ nth (snd p - s) l O = c' /\ getf f c' <> None).
Proof.
  induction l as [|a l IH]; intros s U c' p.
  - simpl. split; [auto|]. intros [H|(_ & H & _)]; auto. lia.
  - cbn [length seq combine fold_left]. rewrite IH. unfold reg_step. cbn [fst snd].
    assert (In p (dl_get (match getf f a with
                          | Some _ => dl_set U a (dl_get U a ++ [(idx, s)]) | None => U end) c') <->
            In p (dl_get U c') \/ (a = c' /\ getf f a <> None /\ p = (idx, s))) as E.
    { destruct (getf f a) as [m|] eqn:Ea.
      - rewrite dl_get_set. destruct (Nat.eqb a c') eqn:Eac.
        + apply Nat.eqb_eq in Eac. subst c'. rewrite in_app_iff. simpl.
          split; [intros [H|[H|[]]]; auto; right; repeat split; auto; discriminate
                 |intros [H|(_ & _ & H)]; auto].
        + apply Nat.eqb_neq in Eac. split; [auto|]. intros [H|(H & _)]; auto. contradiction.
      - split; [auto|]. intros [H|(_ & H & _)]; auto. congruence. }
    rewrite E. split.
    + intros [[H|(Ha & Hf & ->)]|(A & B & C & D)].
      * left; auto.
      * right. cbn [fst snd]. rewrite Nat.sub_diag. simpl. subst. repeat split; auto; lia.
      * right. repeat split; auto; try lia.
        replace (snd p - s)%nat with (S (snd p - S s)) by lia. exact C.
    + intros [H|(A & B & C & D)]; [left; left; auto|].
      destruct (Nat.eq_dec (snd p) s) as [Es|Ns].
      * left. right. rewrite Es, Nat.sub_diag in C. simpl in C. subst a.
        repeat split; auto. destruct p; simpl in *; subst; reflexivity.
      * right. repeat split; auto; try lia.
        replace (snd p - s)%nat with (S (snd p - S s)) in C by lia. exact C.
Qed.

Lemma register_nodup f idx : forall l s (U : list (list (nat * nat))) c',
  NoDup (dl_get U c') -> (forall p, In p (dl_get U c') -> fst p = idx -> (snd p < s)%nat) ->
  NoDup (dl_get (fold_left (reg_step f idx) (combine (seq s (length l)) l) U) c').
Proof.
  induction l as [|a l IH]; intros s U c' Hnd Hlt; [exact Hnd|].
  cbn [length seq combine fold_left]. apply IH.
  - unfold reg_step. cbn [fst snd]. destruct (getf f a); auto.
    rewrite dl_get_set. destruct (Nat.eqb a c') eqn:E; auto.
    apply Nat.eqb_eq in E. subst a. apply NoDup_snoc_gen; auto.
    intros Hin. specialize (Hlt _ Hin eq_refl). simpl in Hlt. lia.
  - intros p Hp Hi. unfold reg_step in Hp. cbn [fst snd] in Hp. destruct (getf f a).
    + rewrite dl_get_set in Hp. destruct (Nat.eqb a c') eqn:E.
      * apply Nat.eqb_eq in E. subst a. apply in_app_iff in Hp. destruct Hp as [Hp|[<-|[]]]; [specialize (Hlt p Hp Hi); lia|simpl; lia].
      * specialize (Hlt p Hp Hi). lia.
    + specialize (Hlt p Hp Hi). lia.
Qed.

Lemma nth_kid_class r j : nth j (map fst (kids r)) O = kid_class r j.
Proof. exact (map_nth fst (kids r) (O, 0) j). Qed.

(* the invariant after a rule has been appended and (if live) registered *)
Lemma BInv_add b r F1 U' P' g q cg h :
  BInv b -> FInv F1 -> (forall c, getf (fval F1) c = getf (fB b) c) ->
  (forall c i, In i (dl_get P' c) <->
     In i (dl_get (b_pumping b) c) \/
     (i = length (b_rules b) /\ parent r = c /\ getf (fval F1) c <> None)) ->
  (forall c, NoDup (dl_get P' c)) ->
  (forall c i j, In (i, j) (dl_get U' c) <->
     In (i, j) (dl_get (b_using b) c) \/
     (i = length (b_rules b) /\ getf (fval F1) (parent r) <> None /\ getf (fval F1) c <> None /\
      (j < length (kids r))%nat /\ kid_class r j = c)) ->
  (forall c, NoDup (dl_get U' c)) ->
  BInv (mktmB (b_rules b ++ [r]) (b_shifts b ++ [source_shifts (fval F1) r]) F1 g U' P' q cg h (b_fail b)).
Proof.
  intros I HF1 Hg HP HPnd HU HUnd.
  assert (forall i, (i < length (b_rules b))%nat -> nth i (b_rules b ++ [r]) dummy = ruleB b i) as Rold.
  { intros i Hi. rewrite app_nth1 by auto. reflexivity. }
  assert (nth (length (b_rules b)) (b_rules b ++ [r]) dummy = r) as Rnew.
  { rewrite app_nth2, Nat.sub_diag by lia. reflexivity. }
  constructor; cbn [b_rules b_shifts b_fn b_using b_pumping b_fail]; unfold fB, ruleB;
    cbn [b_rules b_shifts b_fn b_using b_pumping b_fail].
  - rewrite !app_length. simpl. rewrite (bi_len b I). reflexivity.
  - intros i Hi Hl. rewrite app_length in Hi; simpl in Hi.
    destruct (Nat.lt_ge_cases i (length (b_rules b))) as [Hlt|Hge].
    + rewrite Rold in * by auto. rewrite app_nth1 by (rewrite (bi_len b I); auto).
      rewrite Hg in Hl. rewrite (bi_rows b I i Hlt Hl).
      apply source_shifts_ext; [symmetry; apply Hg|]. intros c s _. symmetry. apply Hg.
    + assert (i = length (b_rules b)) as -> by lia. rewrite Rnew.
      rewrite app_nth2 by (rewrite (bi_len b I); lia). rewrite (bi_len b I), Nat.sub_diag. reflexivity.
  - intros c i. rewrite HP, (bi_pump b I c i), app_length. simpl. split.
    + intros [(A & B & D)|(-> & B & D)].
      * rewrite Rold by auto. rewrite Hg. repeat split; auto. lia.
      * rewrite Rnew. repeat split; auto. lia.
    + intros (A & B & D). destruct (Nat.lt_ge_cases i (length (b_rules b))) as [Hlt|Hge].
      * left. rewrite Rold in B by auto. rewrite Hg in D. auto.
      * right. assert (i = length (b_rules b)) as -> by lia. rewrite Rnew in B. auto.
  - exact HPnd.
  - intros c i j. rewrite HU, (bi_use b I c i j), app_length. simpl. split.
    + intros [(A & B & D & E & F)|(-> & B & D & E & F)].
      * rewrite Rold by auto. rewrite !Hg. repeat split; auto. lia.
      * rewrite Rnew. repeat split; auto. lia.
    + intros (A & B & D & E & F). destruct (Nat.lt_ge_cases i (length (b_rules b))) as [Hlt|Hge].
      * left. rewrite Rold in B, E, F by auto. rewrite Hg in B, D. repeat split; auto.
      * right. assert (i = length (b_rules b)) as -> by lia. rewrite Rnew in B, E, F. repeat split; auto.
  - exact HUnd.
  - exact HF1.
  - apply (bi_ok b I).
Qed.

Lemma pre_processB_sim ord b r : BInv b ->
  absB (pre_processB ord b r) =
    pre_process_s (absB b) r (fval (fn_extend_key (b_fn b) r)) (ord (b_held b)) /\
  ext_ok (fB b) (fval (fn_extend_key (b_fn b) r)) r /\
  BInv (pre_processB ord b r).
Proof.
  intros I. destruct (fn_extend_key_spec (b_fn b) r (bi_fn b I)) as [HF1 Hext].
  split; [|split; [exact Hext|]].
  - (* the layer-A view *)
    unfold pre_processB, pre_process_s. cbn [absB rules fn gsize cgap queue held].
    set (F1 := fn_extend_key (b_fn b) r) in *.
    set (b1 := mktmB (b_rules b ++ [r]) (b_shifts b ++ [compute_shiftB F1 r]) F1 (b_gsize b) (b_using b)
                     (b_pumping b) (b_queue b) (b_cgap b) (b_held b) (b_fail b)).
    change (b_gsize b1) with (b_gsize b).
    destruct (b_gsize b <? max_abs r).
    + pose proof (absB_correct_gapB ord (with_gsize b1 (max_abs r)) HF1) as E.
      destruct (correct_gapB_fields ord (with_gsize b1 (max_abs r))) as (A1 & A2 & A3 & A4 & A5 & A6 & A7).
      rewrite A3. cbn [with_gsize b_fn b1].
      change (absB (with_gsize b1 (max_abs r))) with
        (mktm (b_rules b ++ [r]) (fval F1) (max_abs r) (b_cgap b) (b_queue b) (b_held b)) in E.
      cbn [with_gsize b_held b1] in E. rewrite <- E.
      assert (fn (absB (correct_gapB ord (with_gsize b1 (max_abs r)))) = fval F1) as Ef.
      { unfold absB. cbn [fn]. rewrite A3. reflexivity. }
      rewrite Ef. destruct (getf (fval F1) (parent r)); [|reflexivity].
      unfold absB. cbn [b_rules b_fn b_gsize b_cgap b_queue b_held rules fn gsize cgap queue held].
      rewrite A1. reflexivity.
    + cbn [b_fn b1 fn]. destruct (getf (fval F1) (parent r)); reflexivity.
  - (* the invariant *)
    unfold pre_processB.
    set (F1 := fn_extend_key (b_fn b) r) in *.
    change (compute_shiftB F1 r) with (source_shifts (fval F1) r).
    set (b1 := mktmB (b_rules b ++ [r]) (b_shifts b ++ [source_shifts (fval F1) r]) F1 (b_gsize b) (b_using b)
                     (b_pumping b) (b_queue b) (b_cgap b) (b_held b) (b_fail b)).
    destruct Hext as (Hg & _).
    set (b2 := if b_gsize b1 <? max_abs r then correct_gapB ord (with_gsize b1 (max_abs r)) else b1).
    assert (exists g q cg h, b2 = mktmB (b_rules b ++ [r]) (b_shifts b ++ [source_shifts (fval F1) r]) F1 g
                                        (b_using b) (b_pumping b) q cg h (b_fail b)) as (g & q & cg & h & E2).
    { unfold b2. destruct (b_gsize b1 <? max_abs r).
      - unfold correct_gapB. destruct (correct_gap_release _ _); eexists _, _, _, _; reflexivity.
      - eexists _, _, _, _; reflexivity. }
    rewrite E2. cbn [b_rules b_shifts b_fn b_gsize b_using b_pumping b_queue b_cgap b_held b_fail].
    destruct (getf (fval F1) (parent r)) as [p|] eqn:Ep.
    + apply (BInv_add b r F1); auto.
      * intros c i. rewrite dl_get_set. destruct (Nat.eqb (parent r) c) eqn:E.
        -- apply Nat.eqb_eq in E. subst c. rewrite in_app_iff. simpl. rewrite Ep.
           split; [intros [H|[<-|[]]]; auto; right; repeat split; auto; discriminate
                  |intros [H|(-> & _)]; auto].
        -- apply Nat.eqb_neq in E. split; [auto|]. intros [H|(_ & H & _)]; auto. contradiction.
      * intros c. rewrite dl_get_set. destruct (Nat.eqb (parent r) c) eqn:E; [|apply (bi_pump_nd b I)].
        apply Nat.eqb_eq in E. subst c. apply NoDup_snoc_gen; [apply (bi_pump_nd b I)|].
        intros Hin. apply (bi_pump b I) in Hin. lia.
      * intros c i j. rewrite register_children_unfold.
        rewrite (register_spec (fval F1) (length (b_rules b)) (map fst (kids r)) 0 (b_using b) c (i, j)).
        cbn [fst snd]. rewrite map_length, Nat.sub_0_r, nth_kid_class, Ep.
        split; (intros [H|(A & B & D & E)]; [left; auto|right; repeat split; auto; try lia; discriminate]).
      * intros c. rewrite register_children_unfold. apply register_nodup; [apply (bi_use_nd b I)|].
        intros [i j] Hin Hi. apply (bi_use b I) in Hin. simpl in Hi. lia.
    + apply (BInv_add b r F1); auto.
      * intros c i. split; [auto|]. intros [H|(_ & <- & H)]; auto. congruence.
      * apply (bi_pump_nd b I).
      * intros c i j. split; [auto|]. intros [H|(_ & H & _)]; auto. congruence.
      * apply (bi_use_nd b I).
Qed.

(* ---------------- is_pumping ---------------- *)
Lemma is_pumpingB_sim b c : BInv b ->
  absB (fst (is_pumpingB b c)) = fst (is_pumping (absB b) c) /\
  snd (is_pumpingB b c) = snd (is_pumping (absB b) c) /\
  BInv (fst (is_pumpingB b c)).
Proof.
  intros I. split; [reflexivity|]. split; [reflexivity|].
  unfold is_pumpingB. cbn [fst].
  constructor; cbn [with_fn b_rules b_shifts b_fn b_using b_pumping b_fail]; unfold fB, ruleB;
    cbn [with_fn b_rules b_shifts b_fn b_using b_pumping b_fail]; rewrite ?fn_extend_fval.
  - apply (bi_len b I).
  - intros i Hi Hl. rewrite getf_extend in Hl. rewrite (bi_rows b I i Hi Hl).
    apply source_shifts_ext; [symmetry; apply getf_extend|]. intros c' s _. symmetry. apply getf_extend.
  - intros c0 i. rewrite getf_extend. apply (bi_pump b I).
  - apply (bi_pump_nd b I).
  - intros c0 i j. rewrite !getf_extend. apply (bi_use b I).
  - apply (bi_use_nd b I).
  - apply fn_extend_inv. apply (bi_fn b I).
  - apply (bi_ok b I).
Qed.

Lemma increase_valueB_dead ord b c i : (c < length (fB b))%nat -> getf (fB b) c = None ->
  increase_valueB ord b c i = b.
Proof.
  intros Hc Hn. unfold increase_valueB. rewrite (fn_extend_id (b_fn b) c Hc), with_fn_id.
  change (fval (b_fn b)) with (fB b). rewrite Hn. reflexivity.
Qed.
