(* Axiom-free versions of the theorems of Positional.v / PositionalExtractor.v:
   termination of the table method (Forest/TerminationRun.v, run_total_spec)
   decides, for every key list, whether a class pumps or has exactly n terms,
   which is the only thing Positional.v used Classical_Prop.classic for. *)
From Coq Require Import ZArith List Bool Lia.
From CSS Require Import Forest.Spec Forest.Model Forest.Basics Forest.Invariant Forest.Correct
  Forest.Theorems Forest.Run Forest.Extractor Forest.ExtractorProofs Forest.ExtractorRun
  Forest.ExtractorTheorems Forest.TerminationDefs Forest.TerminationRun
  Forest.Positional Forest.PositionalExtractor.
Import ListNotations.

Lemma keys_of_addkeys (R : list fkey) : keys_of (map AddKey R) = R.
Proof. induction R as [|r R IH]; simpl; auto. rewrite IH. reflexivity. Qed.

Theorem valued_total (R : list fkey) (c : nat) : valued R c.
Proof.
  destruct (total_sound_complete pick0 (map AddKey R) c) as [_ B].
  pose proof (run_init_rules _ _ _ _ (run_total_spec pick0 (map AddKey R))) as [F E].
  destruct (final_sound_complete _ F c) as [A _]. rewrite E in A.
  rewrite keys_of_addkeys in A, B.
  destruct (getf (fn (run_total pick0 (map AddKey R))) c) as [n|] eqn:G.
  - right. exists n. apply B. reflexivity.
  - left. apply A. reflexivity.
Qed.

Theorem minimal_one_rule_per_class_total : forall (R : list fkey) (root : nat),
  pumps R root ->
  (forall i, (i < length R)%nat -> ~ pumps (firstn i R ++ skipn (S i) R) root) ->
  forall i j, (i < length R)%nat -> (j < length R)%nat ->
    parent (nth i R dummy) = parent (nth j R dummy) -> i = j.
Proof.
  intros R root. apply minimal_one_rule_per_class_valued. intros i c _. apply valued_total.
Qed.

Theorem extract_one_rule_per_class_total : forall fuel root ks res,
  (forall k, In k ks -> (bk_bucket k < 4)%nat) -> extract fuel root ks = Ok res -> Pk root ks ->
  forall i j, (i < length res)%nat -> (j < length res)%nat ->
    parent (bk_key (nth i res (mkb dummy 0))) = parent (bk_key (nth j res (mkb dummy 0))) -> i = j.
Proof.
  intros fuel root ks res B H P.
  apply (extract_one_rule_per_class_runs fuel root ks res B H P).
  intros i _. exists pick0, (fuel_bound (add_ops (remove_at i res))), (run_total pick0 (add_ops (remove_at i res))).
  apply run_total_spec.
Qed.

Print Assumptions minimal_one_rule_per_class_total.
Print Assumptions extract_one_rule_per_class_total.
