(* Axiom-free versions of the theorems of Positional.v / PositionalExtractor.v:
   termination of the table method (Forest/TerminationRun.v, run_total_spec)
   decides, for every key list, whether a class pumps or has exactly n terms,
   which is the only thing Positional.v used Classical_Prop.classic for. *)
From Coq Require Import ZArith List ListDec Bool Lia Arith Wf_nat.
From CSS Require Import Forest.Spec Forest.Model Forest.Basics Forest.Invariant Forest.Correct
  Forest.Theorems Forest.Run Forest.Extractor Forest.ExtractorProofs Forest.ExtractorRun
  Forest.ExtractorTheorems Forest.TerminationDefs Forest.TerminationRun
  Forest.Positional Forest.PositionalExtractor.
Import ListNotations.

Lemma keys_of_addkeys (R : list fkey) : keys_of (map AddKey R) = R.
Proof. induction R as [|r R IH]; simpl; auto. rewrite IH. reflexivity. Qed.

Theorem valued_total (R : list fkey) (c : nat) : valued R c.
Proof.
  destruct (total_sound_complete pick0 (map AddKey R) c) as [_ B].
  pose proof (run_init_rules _ _ _ _ (run_total_spec pick0 (map AddKey R))) as [F E].
  destruct (final_sound_complete _ F c) as [A _]. rewrite E in A.
  rewrite keys_of_addkeys in A, B.
  destruct (getf (fn (run_total pick0 (map AddKey R))) c) as [n|] eqn:G.
  - right. exists n. apply B. reflexivity.
  - left. apply A. reflexivity.
Qed.

Theorem minimal_one_rule_per_class_total : forall (R : list fkey) (root : nat),
  pumps R root ->
  (forall i, (i < length R)%nat -> ~ pumps (firstn i R ++ skipn (S i) R) root) ->
  forall i j, (i < length R)%nat -> (j < length R)%nat ->
    parent (nth i R dummy) = parent (nth j R dummy) -> i = j.
Proof.
  intros R root. apply minimal_one_rule_per_class_valued. intros i c _. apply valued_total.
Qed.

Theorem extract_one_rule_per_class_total : forall fuel root ks res,
  (forall k, In k ks -> (bk_bucket k < 4)%nat) -> extract fuel root ks = Ok res -> Pk root ks ->
  forall i j, (i < length res)%nat -> (j < length res)%nat ->
    parent (bk_key (nth i res (mkb dummy 0))) = parent (bk_key (nth j res (mkb dummy 0))) -> i = j.
Proof.
  intros fuel root ks res B H P.
  apply (extract_one_rule_per_class_runs fuel root ks res B H P).
  intros i _. exists pick0, (fuel_bound (add_ops (remove_at i res))), (run_total pick0 (add_ops (remove_at i res))).
  apply run_total_spec.
Qed.

(* positional determinacy without any axiom: Positional.positional_strong with the value dichotomy
   decided by the table method (valued_total) instead of Classical_Prop.classic *)
Theorem positional_strong_total : forall R : list fkey,
  exists R', incl R' R /\ NoDup (map parent R') /\
             forall c v, derivable R c v -> derivable R' c v.
Proof.
  intros R. remember (length R) as n eqn:En. revert R En.
  induction n as [n IH] using lt_wf_ind. intros R En.
  destruct (ListDec.NoDup_dec Nat.eq_dec (map parent R)) as [ND|ND].
  - exists R. split; [apply incl_refl|]. split; auto.
  - destruct (dup_positions _ ND) as (i & j & Hi & Hj & Hne & E).
    rewrite map_length in Hi, Hj.
    change O with (parent dummy) in E. rewrite !map_nth in E.
    assert (exists k, (k < length R)%nat /\
              forall c v, derivable R c v -> derivable (remove_at k R) c v) as (k & Hk & Hd).
    { destruct (two_rules_one_redundant_valued R i j Hi Hj Hne E
                  (valued_total _ _) (valued_total _ _)) as [H|H]; eauto. }
    destruct (IH (length (remove_at k R))) with (R := remove_at k R)
      as (R' & Hincl & HND & HD); auto.
    { rewrite remove_at_length; auto. lia. }
    exists R'. split; [|split; auto].
    intros x Hx. apply (remove_at_incl k R). apply Hincl; auto.
Qed.

Print Assumptions minimal_one_rule_per_class_total.
Print Assumptions extract_one_rule_per_class_total.
Print Assumptions positional_strong_total.
