(* Executable model of the second half of ForestRuleExtractor (rule_db/forest.py):
   _rules_for_class, _find_rule, rules().  No proofs here.

   "Each extracted key can be turned back into a concrete rule with the same key."
   The pack and the classes are the STRATEGY TABLE of Searcher/Model.v (property C04);
   a forest key is the event `EvKey parent children shifts bucket` that the model of
   RuleDBForest.add emits, computed by the SAME functions `forest_key` / `plain_key` of
   Searcher/Model.v (Rule/ReverseRule/VerificationRule.forest_key), on the class database
   carried by the searcher state `st`: _find_rule calls classdb.get_label / classdb.is_empty
   for every candidate, which allocates labels for classes the search never saw and fills
   the emptiness cache - modelled as it is, the state is threaded.

   A candidate rule is a rule object of the table `r` (strategy id, parent class, kind) in
   one of its forms: `VNormal` the rule itself, `VReverse i` = r.to_reverse_rule(i).

   Python modelled as it is:
   - all_classes = (parent,) + children of the key, in order; a label occurring twice is
     replayed twice;
   - _rules_for_class(label): EmptyStrategy first (it applies iff the class says it is
     empty: comb_class.is_empty(), NOT the cache), then the strategies of the pack in
     StrategyPack.__iter__ order (initial, verification, inferral, symmetries, expansion;
     `pack` below), a factory being expanded into what it yields; a strategy that does not
     apply yields nothing (StrategyDoesNotApply caught inside _rules_for_class);
   - for every normal rule: the rule, then - if rule.is_reversible() - its reverse rules
     for i in range(len(children)); the first candidate whose forest key EQUALS the key
     (parent, children, shifts AND bucket) is returned;
   - a ready rule of a factory whose children cannot be computed: get_label(parent) is
     evaluated, then rule.children raises StrategyDoesNotApply, caught by the try of
     _find_rule (fix 42414fc): the rule is skipped;
   - no candidate: RuntimeError("Can't find a rule for ...") = `NotFound`;
   - rules(cache): cache_dict = {forest_key(rule): rule} (a later rule with the same key
     replaces an earlier one); a key found in the cache is not searched; rules of
     EmptyStrategy are dropped; a rule that is an equivalence (bucket EQUIV: exactly one
     non-empty child) with more than one child is handed out as rule.to_equivalence_rule().
   The cache holds plain Rule / ReverseRule / VerificationRule objects only (what the
   harness feeds); EquivalenceRule / EquivalencePathRule entries are not modelled. *)
From Coq Require Import ZArith List Bool.
From CSS Require Import Base.PyList ClassDB.Model Gen.Prelude Gen.ReverseShifts Searcher.Model.
Import ListNotations.
Open Scope Z_scope.

Inductive variant := VNormal | VReverse (i : nat).

Definition zlist_eqb (a b : list Z) : bool := if list_eq_dec Z.eq_dec a b then true else false.

(* ForestRuleKey.__eq__ (a NamedTuple: parent, children, shifts, bucket) *)
Definition key_eqb (a b : event) : bool :=
  match a, b with
  | EvKey p cs sh bk, EvKey p' cs' sh' bk' =>
      (p =? p') && zlist_eqb cs cs' && zlist_eqb sh sh' && (bk =? bk')
  | _, _ => false
  end.

Definition key_parent (k : event) : Z := match k with EvKey p _ _ _ => p | _ => -1 end.
Definition key_children (k : event) : list Z := match k with EvKey _ cs _ _ => cs | _ => [] end.
Definition key_bucket (k : event) : Z := match k with EvKey _ _ _ b => b | _ => -1 end.

Section FindRule.
Variable T : table.
Variable pack : list Z.       (* the sids of the pack in StrategyPack.__iter__ order *)

(* rule.forest_key(classdb.get_label, classdb.is_empty) of the candidate (r, v):
   VNormal is Searcher.Model.forest_key, VReverse i is the i-th step of
   Searcher.Model.reverse_keys *)
Definition cand_key (s : st) (r : rule) (v : variant) : st * event :=
  match v with
  | VNormal => forest_key T s r
  | VReverse i =>
      let cs := kids_of T r in
      plain_key T s false (nth i cs 0) (r_parent r :: remove_nth i cs)
                (reverse_shifts (r_shifts T r) (Z.of_nat i))
  end.

(* potential_rules of one normal rule *)
Definition variants_of (r : rule) : list variant :=
  match rule_children T r with
  | None => []
  | Some cs => VNormal :: (if r_reversible T r then map VReverse (seq 0 (length cs)) else [])
  end.

(* for rule in potential_rules: if rule.forest_key(...) == rule_key: return rule *)
Fixpoint try_variants (s : st) (r : rule) (vs : list variant) (key : event) : st * option variant :=
  match vs with
  | [] => (s, None)
  | v :: t =>
      let '(s1, k) := cand_key s r v in
      if key_eqb k key then (s1, Some v) else try_variants s1 r t key
  end.

(* the body of `for normal_rule in all_normal_rules: try: ... except StrategyDoesNotApply: continue` *)
Definition try_rule (s : st) (r : rule) (key : event) : st * option variant :=
  match rule_children T r with
  | None => let '(s1, _) := get_label_c T s (r_parent r) in (s1, None)
  | Some _ => try_variants s r (variants_of r) key
  end.

Fixpoint find_in (s : st) (rules : list rule) (key : event) : st * option (rule * variant) :=
  match rules with
  | [] => (s, None)
  | r :: t =>
      let '(s1, o) := try_rule s r key in
      match o with
      | Some v => (s1, Some (r, v))
      | None => find_in s1 t key
      end
  end.

(* EmptyStrategy()(comb_class) *)
Definition empty_rule (c : Z) : rule := mkR (-1) c REmpty.

(* ForestRuleExtractor._rules_for_class, given the class carrying the label *)
Definition rules_for_class (c : Z) : list rule :=
  (if oracle T c then [empty_rule c] else []) ++
  flat_map (fun sid => rules_from_strategy T sid c) pack.

Fixpoint find_classes (s : st) (labels : list Z) (key : event) : st * option (rule * variant) :=
  match labels with
  | [] => (s, None)
  | l :: t =>
      let '(s1, c) := get_class_l T s l in          (* self.classdb.get_class(label) *)
      let '(s2, o) := find_in s1 (rules_for_class c) key in
      match o with
      | Some x => (s2, Some x)
      | None => find_classes s2 t key
      end
  end.

Inductive fres := Found (r : rule) (v : variant) | NotFound | BadKey.

Definition key_labels (k : event) : list Z := key_parent k :: key_children k.

(* range(len(self.classdb.label_to_info)) *)
Definition all_labels (d : @db Z) : list Z := map Z.of_nat (seq 0 (length (classes d))).

(* the labels whose classes are replayed.  scan = false: the code as it is,
   all_classes = (parent,) + children.  scan = true: the code with the repair proposed for the
   open finding find-rule-foreign-parent-outside-key (findings/c11_find_rule_scan_all_classes.diff):
   after the classes of the key, every other label in use when the call starts *)
Definition search_labels_d (scan : bool) (d : @db Z) (key : event) : list Z :=
  key_labels key ++
  (if scan then filter (fun l => negb (mem l (key_labels key))) (all_labels d) else []).
Definition search_labels (scan : bool) (s : st) (key : event) : list Z :=
  search_labels_d scan (cdb s) key.

(* ForestRuleExtractor._find_rule *)
Definition find_rule (scan : bool) (s : st) (key : event) : st * fres :=
  match key with
  | EvKey _ _ _ _ =>
      let '(s1, o) := find_classes s (search_labels scan s key) key in
      (s1, match o with Some (r, v) => Found r v | None => NotFound end)
  | _ => (s, BadKey)
  end.

(* ------------------------------------------------------------------ rules() *)
(* cache_dict = {rule.forest_key(...): rule for rule in cache}, as the list of its items in
   cache order (a later item with the same key wins, see cache_get) *)
Fixpoint cache_keys (s : st) (cache : list (rule * variant)) : st * list (event * (rule * variant)) :=
  match cache with
  | [] => (s, [])
  | (r, v) :: t =>
      let '(s1, k) := cand_key s r v in
      let '(s2, ks) := cache_keys s1 t in
      (s2, (k, (r, v)) :: ks)
  end.

Fixpoint cache_get (d : list (event * (rule * variant))) (key : event) : option (rule * variant) :=
  match d with
  | [] => None
  | (k, x) :: t =>
      match cache_get t key with
      | Some y => Some y
      | None => if key_eqb k key then Some x else None
      end
  end.

(* what rules() yields for one needed key: the rule, and whether it is handed out as
   rule.to_equivalence_rule() *)
Inductive orule := ORule (r : rule) (v : variant) (as_equiv : bool).

Definition post (key : event) (r : rule) (v : variant) : list orule :=
  match r_kind r with
  | REmpty => []                               (* isinstance(rule.strategy, EmptyStrategy): continue *)
  | RVer => [ORule r v false]                  (* VerificationRule.is_equivalence() is False *)
  | RPlain => [ORule r v ((key_bucket key =? 2) && (1 <? zlen (key_children key)))]
  end.

(* the generator is consumed up to the first key that cannot be turned back into a rule:
   (rules yielded so far, that key) *)
Fixpoint rules_loop (scan : bool) (s : st) (d : list (event * (rule * variant))) (needed : list event)
  : st * list orule * option event :=
  match needed with
  | [] => (s, [], None)
  | k :: t =>
      match cache_get d k with
      | Some (r, v) =>
          let '(s1, out, e) := rules_loop scan s d t in (s1, post k r v ++ out, e)
      | None =>
          let '(s1, f) := find_rule scan s k in
          match f with
          | Found r v => let '(s2, out, e) := rules_loop scan s1 d t in (s2, post k r v ++ out, e)
          | _ => (s1, [], Some k)
          end
      end
  end.

(* ForestRuleExtractor.rules(cache) over self.needed_rules = needed *)
Definition rules (scan : bool) (s : st) (cache : list (rule * variant)) (needed : list event)
  : st * list orule * option event :=
  let '(s1, d) := cache_keys s cache in rules_loop scan s1 d needed.

End FindRule.
