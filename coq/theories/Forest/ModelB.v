(* LAYER B: executable model of comb_spec_searcher/rule_db/forest.py (Function,
   DefaultList, TableMethod) with the data structures of the code AS THEY ARE:

     _rules                      b_rules    list of keys
     _shifts                     b_shifts   one row per rule, one entry per child: the CACHED
                                            shift (None = the child is infinite), written once by
                                            _compute_shift in add_rule_key and then only updated
                                            by -1 / +1 / := None in _increase_value/_set_infinite
     _function                   b_fn       Function: _value (grown lazily by every lookup),
                                            _preimage_count (raw DefaultList, maintained
                                            incrementally), _infinity_count
     _gap_size, _current_gap     b_gsize, b_cgap
     _rules_using_class          b_using    DefaultList: class -> [(rule_idx, child_idx)]
     _rules_pumping_class        b_pumping  DefaultList: class -> [rule_idx]
     _processing_queue           b_queue    deque, duplicates allowed, order of the code
     _rule_holding_extra_terms   b_held     set

   The firing test reads the CACHED row (_can_give_terms(self._shifts[rule_idx])), the rules
   re-examined after a change are those of the two indices, in the order of the code, once per
   registered (rule, child) pair.  Nothing is recomputed from the value table.

   The arithmetic is the SOURCE's: can_give_terms, compute_shift, preimage_gap,
   increase_value_hold, correct_gap_new_gap, correct_gap_release are the definitions
   re-translated from forest.py on every run (Gen/Forest*.v).

   Arbitrary choices of the Python set _rule_holding_extra_terms:
     pick : set.pop()                            (as in layer A)
     ord  : the iteration order of `self._processing_queue.extend(<the set>)`
   both are parameters, universally quantified in the theorems (Forest/RefineB.v).

   The three `assert` statements of the code set b_fail (proved never to happen).
   Not modelled: a DefaultList grows by trailing empty entries when it is merely READ
   (dl_get below does not grow the list); invisible once trailing empties are stripped.
   No proofs here. *)
From Coq Require Import ZArith List Bool.
From CSS Require Import Base.PyList Forest.Spec Forest.Model.
From CSS Require Import Gen.Prelude Gen.ForestCanGiveTerms Gen.ForestComputeShift
  Gen.ForestIncreaseValueHold Gen.ForestCorrectGapNewGap Gen.ForestCorrectGapRelease.
From CSS Require Gen.ForestPreimageGap.
Import ListNotations.
Open Scope Z_scope.

(* ---------------- DefaultList ---------------- *)
(* DefaultList(int): xs[i] += d  (__getitem__ grows the list, then __setitem__) *)
Definition pc_add (pc : list Z) (i : nat) (d : Z) : list Z :=
  let pc' := pc ++ repeat 0 (S i - length pc) in
  set_nth pc' i (nth i pc' 0 + d).

(* DefaultList(list) *)
Definition dl_get {A} (l : list (list A)) (c : nat) : list A := nth c l [].
Definition dl_set {A} (l : list (list A)) (c : nat) (x : list A) : list (list A) :=
  set_nth (l ++ repeat [] (S c - length l)) c x.

(* ---------------- Function ---------------- *)
Record fnB := mkfnB {
  fval : vals;        (* _value *)
  fpc : list Z;       (* _preimage_count._list *)
  finf : Z            (* _infinity_count *)
}.

Definition fn_init : fnB := mkfnB [] [] 0.

(* Function.__getitem__ on a key outside the table: _increase_list_len *)
Definition fn_extend (F : fnB) (c : nat) : fnB :=
  let k := (S c - length (fval F))%nat in
  mkfnB (extend (fval F) c)
        (match k with O => fpc F | _ => pc_add (fpc F) 0 (Z.of_nat k) end)
        (finf F).

(* Function.increase_value(key) *)
Definition fn_increase (F : fnB) (c : nat) : fnB :=
  let F := fn_extend F c in
  match getf (fval F) c with
  | None => F                                   (* ValueError: excluded by the caller's test *)
  | Some v =>
      mkfnB (upd (fval F) c (Some (v + 1)))
            (pc_add (pc_add (fpc F) (Z.to_nat v) (-1)) (Z.to_nat (v + 1)) 1)
            (finf F)
  end.

(* Function.set_infinite(key) *)
Definition fn_set_infinite (F : fnB) (c : nat) : fnB :=
  let F := fn_extend F c in
  match getf (fval F) c with
  | None => F                                   (* ValueError: excluded by the caller's test *)
  | Some v =>
      mkfnB (upd (fval F) c None) (pc_add (fpc F) (Z.to_nat v) (-1)) (finf F + 1)
  end.

(* Function.preimage_gap(length): the regenerated loop over the raw _preimage_count *)
Definition fn_preimage_gap (F : fnB) (g : Z) : Z := ForestPreimageGap.preimage_gap (fpc F) g.

(* Function.preimage_count (property): trailing zeros stripped *)
Fixpoint strip_zeros (l : list Z) : list Z :=
  match l with
  | [] => []
  | v :: t => match strip_zeros t with
              | [] => if v =? 0 then [] else [v]
              | t' => v :: t'
              end
  end.
Definition fn_preimage_count (F : fnB) : list Z := strip_zeros (fpc F).

(* ---------------- TableMethod ---------------- *)
Record tmB := mktmB {
  b_rules : list fkey;
  b_shifts : list (list (option Z));
  b_fn : fnB;
  b_gsize : Z;
  b_using : list (list (nat * nat));
  b_pumping : list (list nat);
  b_queue : list nat;
  b_cgap : Z * Z;
  b_held : list nat;
  b_fail : bool                 (* an `assert` of the code failed *)
}.

Definition initB : tmB := mktmB [] [] fn_init 1 [] [] [] (1, 1) [] false.

Definition with_fn (b : tmB) (F : fnB) : tmB :=
  mktmB (b_rules b) (b_shifts b) F (b_gsize b) (b_using b) (b_pumping b) (b_queue b) (b_cgap b) (b_held b) (b_fail b).
Definition with_queue (b : tmB) (q : list nat) : tmB :=
  mktmB (b_rules b) (b_shifts b) (b_fn b) (b_gsize b) (b_using b) (b_pumping b) q (b_cgap b) (b_held b) (b_fail b).
Definition with_held (b : tmB) (h : list nat) : tmB :=
  mktmB (b_rules b) (b_shifts b) (b_fn b) (b_gsize b) (b_using b) (b_pumping b) (b_queue b) (b_cgap b) h (b_fail b).
Definition with_gsize (b : tmB) (g : Z) : tmB :=
  mktmB (b_rules b) (b_shifts b) (b_fn b) g (b_using b) (b_pumping b) (b_queue b) (b_cgap b) (b_held b) (b_fail b).

(* the layer-A view: forget the cache and the indices *)
Definition absB (b : tmB) : tm :=
  mktm (b_rules b) (fval (b_fn b)) (b_gsize b) (b_cgap b) (b_queue b) (b_held b).

Definition ruleB (b : tmB) (i : nat) : fkey := nth i (b_rules b) dummy.

(* TableMethod._correct_gap *)
Definition correct_gapB (ord : list nat -> list nat) (b : tmB) : tmB :=
  let k := fn_preimage_gap (b_fn b) (b_gsize b) in
  let ng := correct_gap_new_gap k (b_gsize b) in
  let new := (py_get 0 ng 0, py_get 0 ng 1) in
  if correct_gap_release ng (snd (b_cgap b))
  then mktmB (b_rules b) (b_shifts b) (b_fn b) (b_gsize b) (b_using b) (b_pumping b)
             (b_queue b ++ ord (b_held b)) new [] (b_fail b)
  else mktmB (b_rules b) (b_shifts b) (b_fn b) (b_gsize b) (b_using b) (b_pumping b)
             (b_queue b) new (b_held b) (b_fail b).

(* the loops of _increase_value / _set_infinite over the two indices: state =
   (the _shifts table, the queue, no assertion failed so far) *)
Definition lstate : Type := list (list (option Z)) * list nat * bool.

Definition dec_row (row : list (option Z)) : list (option Z) :=
  map (fun v => match v with Some x => Some (x - 1) | None => None end) row.

Definition requeue_if (row : list (option Z)) (q : list nat) (i : nat) : list nat :=
  if can_give_terms row then q ++ [i] else q.

(* for r_idx in self._rules_pumping_class[comb_class]: every shift of the row -1 *)
Definition pump_step (s : lstate) (r_idx : nat) : lstate :=
  let '(T, q, ok) := s in
  let row := dec_row (nth r_idx T []) in
  (set_nth T r_idx row, requeue_if row q r_idx, ok).

(* for r_idx, class_idx in self._rules_using_class[comb_class]: that shift +1 *)
Definition use_step (s : lstate) (p : nat * nat) : lstate :=
  let '(T, q, ok) := s in
  let row := nth (fst p) T [] in
  match nth (snd p) row None with
  | None => (T, q, false)                       (* assert current_shift is not None *)
  | Some x =>
      let row' := set_nth row (snd p) (Some (x + 1)) in
      (set_nth T (fst p) row', requeue_if row' q (fst p), ok)
  end.

(* for rule_idx, class_idx in self._rules_using_class[comb_class]: that shift := None *)
Definition inf_step (s : lstate) (p : nat * nat) : lstate :=
  let '(T, q, ok) := s in
  let row' := set_nth (nth (fst p) T []) (snd p) None in
  (set_nth T (fst p) row', requeue_if row' q (fst p), ok).

(* TableMethod._increase_value(comb_class, rule_idx) *)
Definition increase_valueB (ord : list nat -> list nat) (b : tmB) (c i : nat) : tmB :=
  let b := with_fn b (fn_extend (b_fn b) c) in
  match getf (fval (b_fn b)) c with
  | None => b
  | Some v =>
      if increase_value_hold v (snd (b_cgap b))
      then with_held b (add_held (b_held b) i)
      else
        let b1 := with_fn b (fn_increase (b_fn b) c) in
        let gap_start := fn_preimage_gap (b_fn b1) (b_gsize b1) in
        let b2 := if fst (b_cgap b1) =? gap_start then b1 else correct_gapB ord b1 in
        let s1 := fold_left pump_step (dl_get (b_pumping b2) c) (b_shifts b2, b_queue b2, true) in
        let '(T, q, ok) := fold_left use_step (dl_get (b_using b2) c) s1 in
        mktmB (b_rules b2) T (b_fn b2) (b_gsize b2) (b_using b2) (b_pumping b2) q (b_cgap b2)
              (b_held b2) (b_fail b2 || negb ok)
  end.

(* the purge of _set_infinite: every pair of rule_idx leaves _rules_using_class[child],
   for every child of that rule *)
Definition purge_rule (rs : list fkey) (U : list (list (nat * nat))) (rule_idx : nat)
  : list (list (nat * nat)) :=
  fold_left (fun U child =>
               dl_set U child (filter (fun p => negb (Nat.eqb (fst p) rule_idx)) (dl_get U child)))
            (map fst (kids (nth rule_idx rs dummy))) U.

(* TableMethod._set_infinite(comb_class) *)
Definition set_infiniteB (b : tmB) (c : nat) : tmB :=
  let b := with_fn b (fn_extend (b_fn b) c) in
  match getf (fval (b_fn b)) c with
  | None => b
  | Some v =>
      (* assert current_value > self._current_gap[1]; assert not self._processing_queue *)
      let ok := (snd (b_cgap b) <? v) && (match b_queue b with [] => true | _ => false end) in
      let F := fn_set_infinite (b_fn b) c in
      let U1 := fold_left (purge_rule (b_rules b)) (dl_get (b_pumping b) c) (b_using b) in
      let P1 := dl_set (b_pumping b) c [] in
      let '(T, q, ok') := fold_left inf_step (dl_get U1 c) (b_shifts b, b_queue b, ok) in
      let U2 := dl_set U1 c [] in
      mktmB (b_rules b) T F (b_gsize b) U2 P1 q (b_cgap b) (b_held b) (b_fail b || negb ok')
  end.

(* TableMethod._process_queue; None = out of fuel *)
Fixpoint processB (pick : list nat -> nat) (ord : list nat -> list nat) (fuel : nat) (b : tmB)
  : option tmB :=
  match fuel with
  | O => None
  | S fuel' =>
      match b_queue b with
      | i :: q =>
          let b1 := with_queue b q in
          processB pick ord fuel'
            (if can_give_terms (nth i (b_shifts b1) [])
             then increase_valueB ord b1 (parent (ruleB b1 i)) i
             else b1)
      | [] =>
          match b_held b with
          | [] => Some b
          | _ =>
              let n := Nat.modulo (pick (b_held b)) (length (b_held b)) in
              let i := nth n (b_held b) O in
              let b1 := with_held b (remove_at n (b_held b)) in
              processB pick ord fuel' (set_infiniteB b1 (parent (ruleB b1 i)))
          end
      end
  end.

(* the lookups of _compute_shift: the parent always; the children only when the parent is
   finite (with an infinite parent the code returns before reading them) *)
Definition fn_extend_key (F : fnB) (r : fkey) : fnB :=
  let F0 := fn_extend F (parent r) in
  match getf (fval F0) (parent r) with
  | None => F0
  | Some _ => fold_left fn_extend (map fst (kids r)) F0
  end.

(* TableMethod._compute_shift on the (extended) table *)
Definition compute_shiftB (F : fnB) (r : fkey) : list (option Z) :=
  compute_shift (getf (fval F) (parent r))
                (map (fun cs => getf (fval F) (fst cs)) (kids r)) (map snd (kids r)).

(* the registration loop of add_rule_key:
   for child_idx, child in enumerate(children): if finite: using[child].append((rule_idx, child_idx)) *)
Definition register_children (f : vals) (idx : nat) (r : fkey) (U : list (list (nat * nat)))
  : list (list (nat * nat)) :=
  fold_left (fun U (jc : nat * nat) =>
               match getf f (snd jc) with
               | None => U
               | Some _ => dl_set U (snd jc) (dl_get U (snd jc) ++ [(idx, fst jc)])
               end)
            (combine (seq 0 (length (kids r))) (map fst (kids r))) U.

(* the state add_rule_key hands to _process_queue *)
Definition pre_processB (ord : list nat -> list nat) (b : tmB) (r : fkey) : tmB :=
  let idx := length (b_rules b) in
  let F := fn_extend_key (b_fn b) r in
  let row := compute_shiftB F r in
  let b1 := mktmB (b_rules b ++ [r]) (b_shifts b ++ [row]) F (b_gsize b) (b_using b) (b_pumping b)
                  (b_queue b) (b_cgap b) (b_held b) (b_fail b) in
  let b2 := if b_gsize b1 <? max_abs r then correct_gapB ord (with_gsize b1 (max_abs r)) else b1 in
  match getf (fval (b_fn b2)) (parent r) with
  | None => b2
  | Some _ =>
      mktmB (b_rules b2) (b_shifts b2) (b_fn b2) (b_gsize b2)
            (register_children (fval (b_fn b2)) idx r (b_using b2))
            (dl_set (b_pumping b2) (parent r) (dl_get (b_pumping b2) (parent r) ++ [idx]))
            (b_queue b2 ++ [idx]) (b_cgap b2) (b_held b2) (b_fail b2)
  end.

(* TableMethod.add_rule_key *)
Definition add_rule_keyB (pick : list nat -> nat) (ord : list nat -> list nat) (fuel : nat)
  (b : tmB) (r : fkey) : option tmB :=
  processB pick ord fuel (pre_processB ord b r).

(* TableMethod.is_pumping(label): the lookup extends the table *)
Definition is_pumpingB (b : tmB) (c : nat) : tmB * bool :=
  (with_fn b (fn_extend (b_fn b) c),
   match getf (fval (b_fn b)) c with None => true | Some _ => false end).

Definition stepB pick ord (fuel : nat) (b : tmB) (o : op) : option tmB :=
  match o with
  | AddKey r => add_rule_keyB pick ord fuel b r
  | IsPumping c => Some (fst (is_pumpingB b c))
  end.

Fixpoint runB pick ord (fuel : nat) (b : tmB) (ops : list op) : option tmB :=
  match ops with
  | [] => Some b
  | o :: t => match stepB pick ord fuel b o with
              | None => None
              | Some b' => runB pick ord fuel b' t
              end
  end.

(* the observable answers of layer B: TableMethod.function, pumping_subuniverse(),
   is_pumping — read off the value table exactly as the code does *)
Definition function_dictB (b : tmB) : list (nat * option Z) := function_dict (absB b).
Definition pumping_subuniverseB (b : tmB) : list nat := pumping_subuniverse (absB b).
Definition pumping_answerB (b : tmB) (c : nat) : bool := snd (is_pumpingB b c).

(* the set-iteration order used by the extracted model *)
Definition ord_id (l : list nat) : list nat := l.
