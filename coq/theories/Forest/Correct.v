(* Soundness and completeness of the table-method model w.r.t. Spec.derivable. *)
From Coq Require Import ZArith List Bool Lia.
From CSS Require Import Base.PyList Forest.Spec Forest.Model Forest.Basics Forest.Invariant.
Import ListNotations.
Open Scope Z_scope.

(* ---- the gap lemma applied to a model state ---- *)
Lemma gap_pumps st c n : Core st ->
  0 <= fst (cgap st) ->
  (forall c n, (c < length (fn st))%nat -> getf (fn st) c = Some n ->
               n < fst (cgap st) \/ fst (cgap st) + gsize st <= n) ->
  (forall r n', In r (rules st) -> getf (fn st) (parent r) = Some n' -> n' < fst (cgap st) ->
                can_fire (fn st) r = false) ->
  getf (fn st) c = Some n -> fst (cgap st) + gsize st <= n -> pumps (rules st) c.
Proof.
  intros C Hk Hgap Hlow Hc Hn.
  apply (gap_lemma (rules st) (getf (fn st)) (fun c => (c < length (fn st))%nat)
                   (fst (cgap st)) (gsize st)) with (n := n); auto.
  - apply (c_g st C).
  - intros r c' s Hr Hin. apply (proj2 (c_dom st C r Hr) c' s Hin).
  - apply (c_g st C).
  - intros c' n' H. apply (c_fin st C c' n' H).
  - apply (c_inf st C).
  - intros c' n' H. apply (c_fin st C c' n' H).
  - intros r n' Hr Hp Hlt. apply (can_fire_false _ _ _ (Hlow r n' Hr Hp Hlt) Hp).
Qed.

(* ---- _set_infinite ---- *)
Lemma in_remove_at n l j : In j (remove_at n l) -> In j l.
Proof.
  revert n; induction l as [|a l IH]; intros [|n] H; simpl in *; auto.
  destruct H as [->|H]; auto. right. eapply IH; eauto.
Qed.

Lemma in_remove_at_inv n l j : (n < length l)%nat -> In j l -> j = nth n l O \/ In j (remove_at n l).
Proof.
  revert n; induction l as [|a l IH]; intros [|n] Hn H; simpl in *; try lia.
  - destruct H as [->|H]; auto.
  - destruct H as [->|H]; [right; left; auto|].
    destruct (IH n ltac:(lia) H); auto.
Qed.

Lemma set_infinite_inv st n : Inv st [] -> queue st = [] -> (n < length (held st))%nat ->
  let i := nth n (held st) O in
  let st1 := mktm (rules st) (fn st) (gsize st) (cgap st) [] (remove_at n (held st)) in
  Inv (set_infinite st1 (parent (rule_at st1 i))) [].
Proof.
  intros (C & W & G) Hq Hn i st1.
  assert (In i (held st)) as Hi by (apply nth_In; auto).
  assert (i < length (rules st))%nat as Hil by (apply (c_idx st C); auto).
  set (c := parent (rule_at st i)).
  assert (rule_at st1 i = rule_at st i) as Er by reflexivity.
  rewrite Er. fold c.
  assert (Core st1) as C1.
  { constructor; simpl; try apply C.
    - intros j Hj. apply (c_held st C j (in_remove_at _ _ _ Hj)).
    - split; [intros j []|]. intros j Hj. apply (c_idx st C). eapply in_remove_at; eauto. }
  unfold set_infinite. simpl.
  destruct (getf (fn st) c) as [v|] eqn:Hv.
  - (* the class becomes infinite *)
    pose proof (c_held st C i Hi v Hv) as Hgt.
    destruct G as (Gk & Gs & Gok).
    assert (c < length (fn st))%nat as Hc.
    { apply (c_dom st C (rule_at st i) (rule_at_In st i Hil)). }
    assert (pumps (rules st) c) as Hp.
    { destruct Gok as [Hgap|[Hk0 Hz]].
      - apply (gap_pumps st c v C Gk Hgap); auto; [|lia].
        intros r n' Hr Hpn Hlt. destruct (can_fire (fn st) r) eqn:Ef; auto. exfalso.
        destruct (In_rule_at st r Hr) as (j & Hj & Ej). rewrite <- Ej in Ef.
        destruct (W j Hj Ef) as [H|[H|[]]]; [rewrite Hq in H; destruct H|].
        rewrite <- Ej in Hpn. pose proof (c_held st C j H n' Hpn).
        pose proof (proj1 (c_g st C)). lia.
      - pose proof (Hz c v Hc Hv). pose proof (proj1 (c_g st C)). lia. }
    set (f' := upd (fn st) c None).
    split; [|split].
    + constructor; simpl.
      * intros c' n' H. destruct (Nat.eq_dec c c') as [<-|Hne].
        -- unfold f' in H. rewrite getf_upd_same in H by auto. discriminate.
        -- unfold f' in H. rewrite getf_upd_other in H by auto. apply (c_fin st C c' n' H).
      * intros c' H. destruct (Nat.eq_dec c c') as [<-|Hne]; auto.
        unfold f' in H. rewrite getf_upd_other in H by auto. apply (c_inf st C c' H).
      * unfold f'. rewrite length_upd. apply C.
      * apply C.
      * intros j Hj n' Hn'. unfold rule_at in Hn'; simpl in Hn'. fold (rule_at st j) in Hn'.
        destruct (Nat.eq_dec c (parent (rule_at st j))) as [E|Hne].
        -- rewrite <- E in Hn'. unfold f' in Hn'. rewrite getf_upd_same in Hn' by auto. discriminate.
        -- unfold f' in Hn'. rewrite getf_upd_other in Hn' by auto.
           apply (c_held st C j (in_remove_at _ _ _ Hj) n' Hn').
      * split.
        -- intros j Hj. apply in_requeue in Hj. apply Hj.
        -- intros j Hj. apply (c_idx st C). eapply in_remove_at; eauto.
    + intros j Hj Hfj. simpl in *. unfold rule_at in Hfj; simpl in Hfj. fold (rule_at st j) in Hfj.
      destruct (mentions c (rule_at st j)) eqn:Em.
      * left. apply in_requeue. simpl. csplit; auto.
      * unfold f' in Hfj. rewrite can_fire_unmentioned in Hfj by auto.
        destruct (W j Hj Hfj) as [H|[H|[]]]; [rewrite Hq in H; destruct H|].
        destruct (in_remove_at_inv n _ j Hn H) as [E|H']; auto.
        fold i in E. subst j. unfold c in Em. rewrite mentions_parent in Em. discriminate.
    + unfold Gap; simpl. csplit; auto. unfold f'.
      destruct Gok as [Hgap|[Hk0 Hz]]; [left|right; split; auto]; intros c' n' Hc' Hn';
        rewrite length_upd in Hc';
        (destruct (Nat.eq_dec c c') as [<-|Hne];
         [rewrite getf_upd_same in Hn' by auto; discriminate
         |rewrite getf_upd_other in Hn' by auto; eauto]).
  - (* already infinite: nothing happens *)
    split; [exact C1|split; [|exact G]].
    intros j Hj Hfj. simpl in *.
    destruct (W j Hj Hfj) as [H|[H|[]]]; [rewrite Hq in H; destruct H|].
    destruct (in_remove_at_inv n _ j Hn H) as [E|H']; auto.
    fold i in E. subst j. exfalso.
    rewrite Er in Hfj. destruct (can_fire_true _ _ Hfj) as (p & Hp & _). fold c in Hp. congruence.
Qed.

(* ---- fields preserved ---- *)
Lemma increase_value_rules st c i :
  rules (increase_value st c i) = rules st /\ gsize (increase_value st c i) = gsize st /\
  length (fn (increase_value st c i)) = length (fn st).
Proof.
  unfold increase_value. destruct (getf (fn st) c); auto.
  destruct (snd (cgap st) <? z); simpl; auto.
  destruct (fst (cgap st) =? _); simpl; rewrite ?length_upd; auto.
  unfold correct_gap. destruct (_ <? _); simpl; rewrite ?length_upd; auto.
Qed.

Lemma set_infinite_rules st c :
  rules (set_infinite st c) = rules st /\ gsize (set_infinite st c) = gsize st /\
  length (fn (set_infinite st c)) = length (fn st).
Proof.
  unfold set_infinite. destruct (getf (fn st) c); simpl; rewrite ?length_upd; auto.
Qed.

(* ---- _process_queue ---- *)
Lemma process_inv pick fuel : forall st st', Inv st [] -> process pick fuel st = Some st' ->
  Inv st' [] /\ queue st' = [] /\ held st' = [] /\ rules st' = rules st /\
  gsize st' = gsize st /\ length (fn st') = length (fn st).
Proof.
  induction fuel as [|fuel IH]; intros st st' I H; simpl in H; [discriminate|].
  destruct (queue st) as [|i q] eqn:Eq.
  - destruct (held st) as [|h0 hs] eqn:Eh.
    + injection H as <-. csplit; auto.
    + rewrite <- Eh in H.
      set (n := Nat.modulo (pick (held st)) (length (held st))) in *.
      assert (n < length (held st))%nat as Hn.
      { apply Nat.mod_upper_bound. rewrite Eh. simpl. lia. }
      pose proof (set_infinite_inv st n I Eq Hn) as I'. cbv zeta in I'.
      set (st1 := mktm (rules st) (fn st) (gsize st) (cgap st) [] (remove_at n (held st))) in *.
      set (cc := parent (rule_at st1 (nth n (held st) O))) in *.
      destruct (IH _ _ I' H) as (A & B & C & D & E & F).
      destruct (set_infinite_rules st1 cc) as (R1 & R2 & R3).
      rewrite R1 in D. rewrite R2 in E. rewrite R3 in F. csplit; auto.
  - set (st1 := mktm (rules st) (fn st) (gsize st) (cgap st) q (held st)) in *.
    destruct I as (C & W & G).
    assert (i < length (rules st))%nat as Hi by (apply (proj1 (c_idx st C)); rewrite Eq; left; auto).
    assert (Core st1) as C1.
    { constructor; simpl; try apply C. split; [|apply C].
      intros j Hj. apply (proj1 (c_idx st C)). rewrite Eq. right; auto. }
    assert (Work st1 [i]) as W1.
    { intros j Hj Hfj. simpl in *. destruct (W j Hj Hfj) as [Hin|[Hin|[]]]; auto.
      rewrite Eq in Hin. destruct Hin as [->|Hin]; auto. }
    destruct (can_fire (fn st) (rule_at st1 i)) eqn:Ef.
    + pose proof (increase_value_inv st1 i (conj C1 (conj W1 G)) Hi Ef) as I'.
      destruct (IH _ _ I' H) as (A & B & C' & D & E & F).
      destruct (increase_value_rules st1 (parent (rule_at st1 i)) i) as (R1 & R2 & R3).
      rewrite R1 in D. rewrite R2 in E. rewrite R3 in F. csplit; auto.
    + assert (Inv st1 []) as I'.
      { split; [exact C1|split; [|exact G]]. intros j Hj Hfj.
        destruct (W1 j Hj Hfj) as [Hin|[Hin|[E|[]]]]; auto. subst j.
        change (fn st1) with (fn st) in Hfj. congruence. }
      destruct (IH _ _ I' H) as (A & B & C' & D & E & F). csplit; auto.
Qed.

(* ---- what holds between operations ---- *)
Definition ExitGap (st : tm) : Prop :=
  fst (cgap st) = 0 -> forall c n, (c < length (fn st))%nat -> getf (fn st) c = Some n -> n = 0.

Definition Final (st : tm) : Prop :=
  Inv st [] /\ queue st = [] /\ held st = [] /\ ExitGap st.

(* no rule can fire any more: the table is a pre-fixed point, hence complete *)
Lemma complete_at_exit st : Core st -> Work st [] -> queue st = [] -> held st = [] ->
  forall c v, derivable (rules st) c v ->
              getf (fn st) c = None \/ exists n, getf (fn st) c = Some n /\ v <= n.
Proof.
  intros C W Hq Hh c v D.
  induction D as [c v Hv | r v Hr Hk IH].
  - destruct (getf (fn st) c) as [n|] eqn:E; auto. right. exists n; split; auto.
    destruct (c_fin st C c n E). lia.
  - destruct (getf (fn st) (parent r)) as [n|] eqn:E; auto. right. exists n; split; auto.
    destruct (Z_le_gt_dec v n) as [|Hgt]; auto. exfalso.
    destruct (In_rule_at st r Hr) as (j & Hj & Ej).
    destruct (can_fire (fn st) r) eqn:Ef.
    + rewrite <- Ej in Ef. destruct (W j Hj Ef) as [H|[H|[]]].
      * rewrite Hq in H; destruct H.
      * rewrite Hh in H; destruct H.
    + destruct (can_fire_false _ _ _ Ef E) as (c & s & m & Hin & Hm & Hle).
      destruct (IH c s Hin) as [Hnone|(m' & Hm' & Hle')]; [congruence|].
      rewrite Hm in Hm'. injection Hm' as <-. lia.
Qed.

Lemma exit_gap st : Inv st [] -> queue st = [] -> held st = [] -> ExitGap st.
Proof.
  intros (C & W & (Gk & Gs & Gok)) Hq Hh Hk0 c n Hc Hn.
  destruct Gok as [Hgap|[_ Hz]]; [|eauto].
  destruct (c_fin st C c n Hn) as [Hn0 _].
  destruct (Hgap c n Hc Hn) as [Hlt|Hge]; [lia|].
  exfalso.
  assert (pumps (rules st) c) as Hp.
  { apply (gap_pumps st c n C Gk Hgap); auto.
    intros r n' Hr Hpn Hlt. destruct (c_fin st C _ _ Hpn). lia. }
  destruct (complete_at_exit st C W Hq Hh c (n + 1) (Hp (n + 1))) as [E|(m & Em & Hle)]; [congruence|].
  rewrite Hn in Em. injection Em as <-. lia.
Qed.

(* enlarging the table with zero entries (lookups of unseen labels) *)
Lemma final_extend st f1 : Final st ->
  (forall c, getf f1 c = getf (fn st) c) -> (length (fn st) <= length f1)%nat ->
  Final (mktm (rules st) f1 (gsize st) (cgap st) (queue st) (held st)).
Proof.
  intros ((C & W & (Gk & Gs & Gok)) & Hq & Hh & HX) Hg Hl.
  assert (forall r, can_fire f1 r = can_fire (fn st) r) as Hcf.
  { intros r. apply can_fire_ext; auto. }
  assert (forall c n, (c < length f1)%nat -> getf f1 c = Some n ->
            ((c < length (fn st))%nat /\ getf (fn st) c = Some n) \/ n = 0) as Hnew.
  { intros c n Hc Hn. rewrite Hg in Hn. destruct (Nat.lt_ge_cases c (length (fn st))); auto.
    right. rewrite getf_out in Hn by auto. congruence. }
  split; [split; [|split]|csplit; auto].
  - constructor; simpl.
    + intros c n H. rewrite Hg in H. apply (c_fin st C c n H).
    + intros c H. rewrite Hg in H. apply (c_inf st C c H).
    + intros r Hr. destruct (c_dom st C r Hr) as [A B]. split; [lia|].
      intros c s Hin. specialize (B c s Hin). lia.
    + apply C.
    + intros j Hj n Hn. unfold rule_at in Hn; simpl in Hn. rewrite Hg in Hn.
      apply (c_held st C j Hj n Hn).
    + apply C.
  - intros j Hj Hfj. simpl in *. unfold rule_at in Hfj; simpl in Hfj. rewrite Hcf in Hfj.
    apply (W j Hj Hfj).
  - unfold Gap; simpl. csplit; auto.
    destruct (Z.eq_dec (fst (cgap st)) 0) as [Hk0|Hk0].
    + right. split; auto. intros c n Hc Hn.
      destruct (Hnew c n Hc Hn) as [[Hc' Hn']|]; auto. apply (HX Hk0 c n Hc' Hn').
    + destruct Gok as [Hgap|[Hk _]]; [|contradiction]. left. intros c n Hc Hn.
      destruct (Hnew c n Hc Hn) as [[Hc' Hn']| ->]; [apply (Hgap c n Hc' Hn')|left; lia].
  - intros Hk0 c n Hc Hn. simpl in *.
    destruct (Hnew c n Hc Hn) as [[Hc' Hn']|]; auto. apply (HX Hk0 c n Hc' Hn').
Qed.

Lemma Final_init : Final init.
Proof.
  split; [split; [|split]|csplit; auto].
  - constructor; simpl.
    + intros c n H. unfold getf in H. destruct c; simpl in H; injection H as <-;
        (split; [lia|apply der_zero; lia]).
    + intros c H. unfold getf in H. destruct c; discriminate.
    + intros r [].
    + split; [lia|]. intros r c s [].
    + intros j [].
    + split; intros j [].
  - intros j Hj. simpl in Hj. lia.
  - unfold Gap; simpl. csplit; try lia. left. intros c n Hc. simpl in Hc. lia.
  - intros H. simpl in H. lia.
Qed.

Lemma empty_list {A} (l : list A) : (forall x, ~ In x l) -> l = [].
Proof. destruct l; auto. intros H. exfalso. apply (H a). left; auto. Qed.

(* ---- add_rule_key ---- *)
(* the state add_rule_key hands to _process_queue *)
Definition pre_process (st : tm) (r : fkey) : tm :=
  let f1 := extend_key (fn st) r in
  let st1 := mktm (rules st ++ [r]) f1 (gsize st) (cgap st) (queue st) (held st) in
  let st2 := if gsize st <? max_abs r
             then correct_gap (mktm (rules st1) f1 (max_abs r) (cgap st1) (queue st1) (held st1))
             else st1 in
  match getf (fn st2) (parent r) with
  | None => st2
  | Some _ => mktm (rules st2) (fn st2) (gsize st2) (cgap st2)
                   (queue st2 ++ [length (rules st)]) (held st2)
  end.

Lemma add_rule_key_pre pick fuel st r :
  add_rule_key pick fuel st r = process pick fuel (pre_process st r).
Proof. reflexivity. Qed.

Lemma pre_process_inv st r : Final st ->
  Inv (pre_process st r) [] /\ rules (pre_process st r) = rules st ++ [r].
Proof.
  intros F. unfold pre_process.
  set (f1 := extend_key (fn st) r) in *.
  destruct (extend_key_length (fn st) r) as (Hl & Hlp & Hlk). fold f1 in Hl, Hlp, Hlk.
  pose proof (final_extend st f1 F (extend_key_getf (fn st) r) Hl) as FE.
  destruct FE as ((C & W & (Gk & Gs & Gok)) & Hq & Hh & HX). simpl in Hq, Hh.
  destruct F as (_ & Hq0 & Hh0 & _).
  rewrite Hq0, Hh0 in *. cbn [rules fn gsize cgap queue held].
  set (g' := if gsize st <? max_abs r then max_abs r else gsize st).
  set (stA := mktm (rules st ++ [r]) f1 g' (cgap st) [] []).
  assert (incl (rules st) (rules st ++ [r])) as Hincl by (apply incl_appl, incl_refl).
  assert (gsize st <= g') as Hgg by (unfold g'; destruct (gsize st <? max_abs r) eqn:E; lia).
  assert (max_abs r <= g') as Hmg by (unfold g'; destruct (gsize st <? max_abs r) eqn:E; lia).
  assert (Core stA) as CA.
  { constructor; simpl.
    - intros c n Hn. destruct (c_fin _ C c n Hn) as [A B]. split; auto.
      eapply derivable_incl; eauto.
    - intros c Hn. eapply pumps_incl; eauto. apply (c_inf _ C c Hn).
    - intros r' Hr'. apply in_app_iff in Hr'. destruct Hr' as [Hr'|[<-|[]]].
      + apply (c_dom _ C r' Hr').
      + split; auto.
    - split; [pose proof (proj1 (c_g _ C)); simpl in *; lia|].
      intros r' c s Hr' Hin. apply in_app_iff in Hr'. destruct Hr' as [Hr'|[<-|[]]].
      + pose proof (proj2 (c_g _ C) r' c s Hr' Hin). simpl in *. lia.
      + pose proof (max_abs_bound r c s Hin). lia.
    - intros j [].
    - split; intros j []. }
  (* no old rule can fire; the new one is index length (rules st) *)
  assert (forall j, (j < length (rules st))%nat ->
            can_fire f1 (nth j (rules st ++ [r]) dummy) = false) as Hold.
  { intros j Hj. rewrite app_nth1 by auto.
    destruct (can_fire f1 (nth j (rules st) dummy)) eqn:E; auto. exfalso.
    destruct (W j Hj E) as [[]|[[]|[]]]. }
  (* state after the possible gap-size change *)
  set (st2 := if gsize st <? max_abs r
              then correct_gap (mktm (rules st ++ [r]) f1 (max_abs r) (cgap st) [] [])
              else mktm (rules st ++ [r]) f1 (gsize st) (cgap st) [] []) in *.
  assert (Core st2 /\ Gap st2 /\ rules st2 = rules st ++ [r] /\ fn st2 = f1 /\
          queue st2 = [] /\ held st2 = []) as (C2 & G2 & R2 & F2 & Q2 & H2).
  { unfold st2, g' in *. destruct (gsize st <? max_abs r) eqn:E.
    - destruct (correct_gap_core stA CA) as [A B].
      destruct (correct_gap_fields stA) as (Er & Ef & _ & Eq & _).
      csplit; auto.
      + apply empty_list. intros j Hj. destruct (proj2 (Eq j) (or_introl Hj)) as [[]|[]].
      + apply empty_list. intros j Hj. destruct (proj2 (Eq j) (or_intror Hj)) as [[]|[]].
    - csplit; auto. unfold Gap; simpl. csplit; auto. }
  assert (forall j, (j < length (rules st2))%nat -> can_fire (fn st2) (rule_at st2 j) = true ->
            j = length (rules st) /\ exists p, getf (fn st2) (parent r) = Some p) as Hnew.
  { intros j Hj Hfj. unfold rule_at in Hfj. rewrite R2, F2 in *. rewrite app_length in Hj; simpl in Hj.
    destruct (Nat.lt_ge_cases j (length (rules st))) as [Hlt|Hge].
    - rewrite Hold in Hfj by auto. discriminate.
    - assert (j = length (rules st)) as -> by lia. split; auto.
      rewrite app_nth2, Nat.sub_diag in Hfj by lia. simpl in Hfj.
      destruct (can_fire_true _ _ Hfj) as (p & Hp & _). exists p; auto. }
  destruct (getf (fn st2) (parent r)) as [p|] eqn:Ep.
  - split; [|simpl; auto]. split; [|split; [|exact G2]].
    + constructor; simpl; try apply C2.
      rewrite Q2, H2. split; [|intros j []]. intros j [<-|[]].
      rewrite R2, app_length. simpl. lia.
    + intros j Hj Hfj. simpl in *. destruct (Hnew j Hj Hfj) as [-> _].
      left. rewrite Q2. left; auto.
  - split; auto. split; [exact C2|split; [|exact G2]].
    intros j Hj Hfj. destruct (Hnew j Hj Hfj) as [_ [p Hp]]. congruence.
Qed.

Lemma add_rule_key_final pick fuel st r st' : Final st ->
  add_rule_key pick fuel st r = Some st' ->
  Final st' /\ rules st' = rules st ++ [r].
Proof.
  intros F H. rewrite add_rule_key_pre in H.
  destruct (pre_process_inv st r F) as [I3 R3].
  destruct (process_inv pick fuel _ st' I3 H) as (I' & Q' & H' & R' & _).
  split; [|congruence]. split; [exact I'|csplit; auto]. apply exit_gap; auto.
Qed.

(* ---- is_pumping ---- *)
Lemma is_pumping_final st c : Final st ->
  Final (fst (is_pumping st c)) /\ rules (fst (is_pumping st c)) = rules st /\
  snd (is_pumping st c) = match getf (fn st) c with None => true | Some _ => false end.
Proof.
  intros F. unfold is_pumping; simpl. csplit; auto.
  apply final_extend; auto.
  - intros c'. apply getf_extend.
  - rewrite length_extend. lia.
Qed.

(* ---- whole histories ---- *)
Lemma run_final pick fuel : forall ops st st', Final st -> run pick fuel st ops = Some st' ->
  Final st' /\ rules st' = rules st ++ keys_of ops.
Proof.
  induction ops as [|o ops IH]; intros st st' F H; simpl in H.
  - injection H as <-. simpl. rewrite app_nil_r. auto.
  - destruct (step pick fuel st o) as [st1|] eqn:E; [|discriminate].
    destruct o as [r|c]; simpl in E.
    + destruct (add_rule_key_final pick fuel st r st1 F E) as [F1 R1].
      destruct (IH st1 st' F1 H) as [F' R']. split; auto.
      rewrite R', R1. simpl. rewrite <- app_assoc. reflexivity.
    + injection E as <-. destruct (is_pumping_final st c F) as (F1 & R1 & _).
      destruct (IH _ st' F1 H) as [F' R']. split; [exact F'|]. rewrite R'. reflexivity.
Qed.

(* ---- the characterisation ---- *)
Theorem final_sound_complete st : Final st ->
  forall c, (getf (fn st) c = None <-> pumps (rules st) c) /\
            (forall n, getf (fn st) c = Some n <-> terms (rules st) c n).
Proof.
  intros ((C & W & G) & Hq & Hh & _) c.
  assert (forall n, getf (fn st) c = Some n -> terms (rules st) c n) as Hfin.
  { intros n Hn. split; [apply (c_fin st C c n Hn)|]. intros D.
    destruct (complete_at_exit st C W Hq Hh c (n + 1) D) as [E|(m & Em & Hle)]; [congruence|].
    rewrite Hn in Em. injection Em as <-. lia. }
  split.
  - split; [apply (c_inf st C c)|]. intros P.
    destruct (getf (fn st) c) as [n|] eqn:E; auto.
    exfalso. apply (pumps_not_terms _ c n P). apply Hfin; auto.
  - intros n. split; auto. intros T.
    destruct (getf (fn st) c) as [m|] eqn:E.
    + f_equal. apply (terms_unique (rules st) c m n); auto.
    + exfalso. apply (pumps_not_terms _ c n (c_inf st C c E) T).
Qed.
