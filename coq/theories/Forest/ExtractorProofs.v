(* Loop invariants of the minimisation, and the "pumping sub-universe suffices"
   lemma that gives productivity of the restriction and closedness of a
   minimal set. *)
From Coq Require Import ZArith List Bool Lia.
From CSS Require Import Base.PyList Forest.Spec Forest.Model Forest.Basics Forest.Invariant
  Forest.Correct Forest.Theorems Forest.Extractor.
Import ListNotations.
Open Scope Z_scope.

Ltac inapp := repeat (rewrite in_app_iff in * || (progress simpl In in * )).

(* ------------------------------------------------------------------ *)
(* Only rules all of whose classes pump matter for pumping.           *)
Section SubUniverse.
Variables R R' : list fkey.
Variables T g : Z.
Hypothesis g_nonneg : 0 <= g.
Hypothesis g_bound : forall r c s, In r R -> In (c, s) (kids r) -> - g <= s <= g.
Hypothesis T_nonneg : 0 <= T.
Hypothesis dich : forall c, pumps R c \/ (forall v, derivable R c v -> v <= T).
Hypothesis keep : forall r, In r R -> pumps R (parent r) ->
  (forall c s, In (c, s) (kids r) -> pumps R c) -> In r R'.

Lemma translate : forall c v, derivable R c v ->
  forall w, w + (T + g + 1) <= v -> derivable R' c w.
Proof.
  induction 1 as [c v Hv | r v Hr Hk IH]; intros w Hw.
  - apply der_zero. lia.
  - destruct (Z_le_gt_dec w 0) as [Hw0|Hw0]; [apply der_zero; auto|].
    assert (derivable R (parent r) v) as Dp by (apply der_rule; auto).
    apply der_rule.
    + apply keep; auto.
      * destruct (dich (parent r)) as [P|B]; auto. specialize (B v Dp). lia.
      * intros c s Hin. destruct (dich c) as [P|B]; auto.
        specialize (B (v - s) (Hk c s Hin)). pose proof (g_bound r c s Hr Hin). lia.
    + intros c s Hin. apply (IH c s Hin). lia.
Qed.

Lemma sub_pumps c : pumps R c -> pumps R' c.
Proof. intros P w. apply (translate c (w + (T + g + 1))); [apply P|lia]. Qed.
End SubUniverse.

(* the dichotomy and the bounds, read off a final table-method state *)
Lemma final_dichotomy st : Final st ->
  0 <= maxv (fn st) /\
  forall c, pumps (rules st) c \/ (forall v, derivable (rules st) c v -> v <= maxv (fn st)).
Proof.
  intros F. split; [apply maxv_nonneg|]. intros c.
  destruct (final_sound_complete st F c) as [A B].
  destruct (getf (fn st) c) as [n|] eqn:E.
  - right. intros v D. destruct (proj1 (B n) eq_refl) as [_ ND].
    assert (n <= maxv (fn st)) as Hn.
    { destruct (Nat.lt_ge_cases c (length (fn st))) as [Hc|Hc].
      - apply (maxv_ge (fn st) c n). rewrite getf_in by auto. congruence.
      - rewrite getf_out in E by auto. injection E as <-. apply maxv_nonneg. }
    destruct (Z_le_gt_dec v n); [lia|]. exfalso. apply ND.
    eapply derivable_mono; eauto. lia.
  - left. apply A. reflexivity.
Qed.

Lemma final_gbound st : Final st ->
  0 <= gsize st /\ forall r c s, In r (rules st) -> In (c, s) (kids r) -> - gsize st <= s <= gsize st.
Proof. intros ((C & _) & _). destruct (c_g st C) as [A B]. split; [lia|exact B]. Qed.

(* ------------------------------------------------------------------ *)
Section MinProofs.
Variable prod : list bkey -> option bool.
Variable P : list bkey -> Prop.
Hypothesis P_mono : forall a b, incl a b -> P a -> P b.
Hypothesis prod_spec : forall ks b, prod ks = Some b -> (b = true <-> P ks).

Lemma prod_true ks : prod ks = Some true -> P ks.
Proof. intros H. apply (prod_spec ks true H). reflexivity. Qed.
Lemma prod_false ks : prod ks = Some false -> ~ P ks.
Proof. intros H HP. apply (prod_spec ks false H) in HP. discriminate. Qed.

Lemma first_prod_spec base : forall rest pre pre' rk,
  first_prod prod base pre rest = Ok (pre', rk) ->
  exists post, pre ++ rest = pre' ++ rk :: post /\ P (base ++ pre' ++ [rk]).
Proof.
  induction rest as [|x rest IH]; intros pre pre' rk H; simpl in H; [discriminate|].
  destruct (prod (base ++ pre ++ [x])) as [[|]|] eqn:E; try discriminate.
  - injection H as <- <-. exists rest. split; auto. apply prod_true; auto.
  - destruct (IH _ _ _ H) as (post & Hp & HP). exists post. split; auto.
    rewrite <- Hp, <- app_assoc. reflexivity.
Qed.

Lemma phase1_spec : forall fuel needed maybe others minimizing maybe',
  phase1 prod fuel needed maybe others minimizing = Ok maybe' ->
  incl maybe' (maybe ++ minimizing) /\
  (P (needed ++ maybe ++ minimizing ++ others) -> P (needed ++ maybe' ++ others)).
Proof.
  induction fuel as [|fuel IH]; intros needed maybe others minimizing maybe' H; simpl in H;
    [discriminate|].
  destruct minimizing as [|m0 ms] eqn:Em.
  - injection H as <-. split; [apply incl_appl, incl_refl|]. simpl. auto.
  - rewrite <- Em in *.
    destruct (prod (needed ++ maybe ++ others)) as [[|]|] eqn:E; try discriminate.
    + injection H as <-. split; [apply incl_appl, incl_refl|]. intros _. apply prod_true; auto.
    + destruct (first_prod prod (needed ++ maybe ++ others) [] minimizing) as [[pre rk]| |] eqn:Ef;
        try discriminate.
      destruct (first_prod_spec _ _ _ _ _ Ef) as (post & Hp & HP). simpl in Hp.
      destruct (IH _ _ _ _ _ H) as [Hi HPP]. split.
      * intros x Hx. specialize (Hi x Hx). rewrite Hp. clear - Hi. inapp. tauto.
      * intros _. apply HPP. eapply P_mono; [|exact HP].
        intros x Hx. clear - Hx. inapp. tauto.
Qed.

(* needed minus its i-th element, together with the remaining candidates, is
   not productive: every needed rule is indispensable *)
Definition MinInv (needed pool : list bkey) : Prop :=
  forall i, (i < length needed)%nat ->
    ~ P (firstn i needed ++ skipn (S i) needed ++ pool).

Lemma MinInv_pool needed pool pool' : incl pool' pool -> MinInv needed pool -> MinInv needed pool'.
Proof.
  intros Hi M i Hl HP. apply (M i Hl). eapply P_mono; [|exact HP].
  intros x Hx. inapp. destruct Hx as [Hx|[Hx|Hx]]; auto.
Qed.

Lemma MinInv_nil pool : MinInv [] pool.
Proof. intros i Hl. simpl in Hl. lia. Qed.

Lemma phase2_spec : forall rmaybe needed others needed',
  phase2 prod needed rmaybe others = Ok needed' ->
  (exists ext, needed' = needed ++ ext /\ incl ext rmaybe) /\
  (P (needed ++ rev rmaybe ++ others) -> P (needed' ++ others)) /\
  (MinInv needed (rev rmaybe ++ others) -> MinInv needed' others).
Proof.
  induction rmaybe as [|rk rest IH]; intros needed others needed' H; simpl in H.
  - injection H as <-. split; [exists []; rewrite app_nil_r; split; auto; apply incl_refl|].
    simpl. auto.
  - destruct (prod (needed ++ rev rest ++ others)) as [[|]|] eqn:E; try discriminate.
    + destruct (IH _ _ _ H) as ((ext & He & Hi) & HP & HM). split; [|split].
      * exists ext. split; auto. apply incl_tl; auto.
      * intros _. apply HP. apply prod_true; auto.
      * intros M. apply HM. eapply MinInv_pool; [|exact M].
        intros x Hx. clear - Hx. inapp. tauto.
    + destruct (IH _ _ _ H) as ((ext & He & Hi) & HP & HM). split; [|split].
      * exists (rk :: ext). split; [rewrite He, <- app_assoc; reflexivity|].
        intros x [<-|Hx]; [left; auto|right; auto].
      * intros HPP. apply HP. eapply P_mono; [|exact HPP].
        intros x Hx. clear - Hx. inapp. tauto.
      * intros M. apply HM. intros i Hl.
        rewrite app_length in Hl. simpl in Hl.
        destruct (Nat.lt_ge_cases i (length needed)) as [Hlt|Hge].
        -- intros HPP. apply (M i Hlt). eapply P_mono; [|exact HPP].
           rewrite firstn_app, skipn_app.
           replace (i - length needed)%nat with O by lia.
           replace (S i - length needed)%nat with O by lia. simpl.
           intros x Hx. clear - Hx. inapp. tauto.
        -- assert (i = length needed) as -> by lia.
           rewrite (skipn_all2 (needed ++ [rk])) by (rewrite app_length; simpl; lia).
           rewrite firstn_app, firstn_all, Nat.sub_diag. simpl. rewrite app_nil_r.
           apply prod_false; auto.
Qed.

Lemma minimize_key_spec needed minimizing others needed' :
  minimize_key prod needed minimizing others = Ok needed' ->
  (exists ext, needed' = needed ++ ext /\ incl ext minimizing) /\
  (P (needed ++ minimizing ++ others) -> P (needed' ++ others)) /\
  (MinInv needed (minimizing ++ others) -> MinInv needed' others).
Proof.
  unfold minimize_key. intros H.
  destruct (phase1 prod (S (length minimizing)) needed [] others minimizing) as [maybe| |] eqn:E1;
    try discriminate.
  destruct (phase1_spec _ _ _ _ _ _ E1) as [Hi HP1]. simpl in Hi, HP1.
  destruct (phase2_spec _ _ _ _ H) as ((ext & He & Hie) & HP2 & HM). rewrite rev_involutive in *.
  split; [|split].
  - exists ext. split; auto. intros x Hx. apply Hi. apply in_rev. apply Hie; auto.
  - intros HP. apply HP2. apply HP1; auto.
  - intros M. apply HM. eapply MinInv_pool; [|exact M].
    intros x Hx. inapp. destruct Hx as [Hx|Hx]; auto.
Qed.

Theorem minimize_spec b0 b1 b2 b3 res :
  minimize prod b0 b1 b2 b3 = Ok res ->
  incl res (b0 ++ b1 ++ b2 ++ b3) /\
  (P (b0 ++ b1 ++ b2 ++ b3) -> P res) /\
  (forall i, (i < length res)%nat -> ~ P (firstn i res ++ skipn (S i) res)) /\
  (P (b1 ++ b2 ++ b3) -> incl res (b1 ++ b2 ++ b3)).
Proof.
  unfold minimize. intros H.
  destruct (minimize_key prod [] b0 (b1 ++ b2 ++ b3)) as [n0| |] eqn:E0; try discriminate.
  destruct (minimize_key prod n0 b1 (b2 ++ b3)) as [n1| |] eqn:E1; try discriminate.
  destruct (minimize_key prod n1 b2 b3) as [n2| |] eqn:E2; try discriminate.
  destruct (minimize_key_spec _ _ _ _ E0) as ((x0 & He0 & Hi0) & HP0 & HM0).
  destruct (minimize_key_spec _ _ _ _ E1) as ((x1 & He1 & Hi1) & HP1 & HM1).
  destruct (minimize_key_spec _ _ _ _ E2) as ((x2 & He2 & Hi2) & HP2 & HM2).
  destruct (minimize_key_spec _ _ _ _ H) as ((x3 & He3 & Hi3) & HP3 & HM3).
  simpl in He0. subst n0 n1 n2 res.
  split; [|split; [|split]].
  - intros x Hx. clear - Hx Hi0 Hi1 Hi2 Hi3. inapp. intuition.
  - intros HP. rewrite <- (app_nil_r (((x0 ++ x1) ++ x2) ++ x3)). apply HP3. rewrite app_nil_r.
    apply HP2. apply HP1. apply HP0. simpl. exact HP.
  - intros i Hl. rewrite app_nil_r in HM3.
    specialize (HM3 (HM2 (HM1 (HM0 (MinInv_nil _))))).
    specialize (HM3 i Hl). rewrite app_nil_r in HM3. exact HM3.
  - intros HP.
    (* the REVERSE bucket contributes nothing when the others already suffice *)
    assert (x0 = []) as ->.
    { unfold minimize_key in E0. destruct b0 as [|k0 b0'].
      - simpl in E0. injection E0 as <-. reflexivity.
      - simpl in E0. destruct (prod (b1 ++ b2 ++ b3)) as [[|]|] eqn:Ep.
        + simpl in E0. injection E0 as <-. reflexivity.
        + exfalso. apply (prod_false _ Ep). exact HP.
        + discriminate. }
    intros x Hx. clear - Hx Hi1 Hi2 Hi3. inapp. intuition.
Qed.

End MinProofs.
