(* sx interface of the extractor model.
   input : ( root ((parent ((child shift)...) bucket) ...) )   keys in insertion order
   output: ( status needed check ) with status 0 ok / 1 out of fuel / 2 RuntimeError /
           3 root does not pump; needed = list of keys (parent ((child shift)...) bucket);
           check = 1 iff distinct parents and productive.
   Status 1 cannot occur (ExtractorTermination.extract_never_out_of_fuel). *)
From Coq Require Import ZArith List Bool.
From CSS Require Import Base.Sx Forest.Spec Forest.Model Forest.Run Forest.Extractor.
Import ListNotations.
Open Scope Z_scope.

Definition dec_bkey (s : sx) : bkey :=
  mkb (mkkey (sx_nat (sx_nth s 0))
             (map (fun p => (sx_nat (sx_nth p 0), sx_Z (sx_nth p 1))) (sx_list (sx_nth s 1))))
      (sx_nat (sx_nth s 2)).

Definition enc_bkey (k : bkey) : sx :=
  L [of_nat (parent (bk_key k));
     L (map (fun cs => L [of_nat (fst cs); I (snd cs)]) (kids (bk_key k)));
     of_nat (bk_bucket k)].

(* every table-method run gets at least the fuel PROVED sufficient for its own
   history (TerminationRun.run_terminates): the `fuel` argument is only a floor
   and no run below can return None (ExtractorTermination.v) *)
Definition enough (fuel : nat) (ops : list op) : nat := Nat.max fuel (fuel_for ops).

(* _is_productive: a fresh table method fed with the keys *)
Definition prod_tm (fuel : nat) (root : nat) (ks : list bkey) : option bool :=
  let ops := map (fun k => AddKey (bk_key k)) ks in
  match run pick0 (enough fuel ops) init ops with
  | None => None
  | Some st => Some (snd (is_pumping st root))
  end.

Definition extract (fuel : nat) (root : nat) (ks : list bkey) : mres (list bkey) :=
  let ops := map (fun k => AddKey (bk_key k)) ks in
  match run pick0 (enough fuel ops) init ops with
  | None => OutOfFuel
  | Some st =>
      let sub := map (fun i => nth i ks (mkb dummy 0)) (pumping_subuniverse st) in
      minimize (prod_tm fuel root)
               (filter (in_bucket 0) sub) (filter (in_bucket 1) sub)
               (filter (in_bucket 2) sub) (filter (in_bucket 3) sub)
  end.

Definition run_c11 (inp : sx) : sx :=
  let root := sx_nat (sx_nth inp 0) in
  let ks := map dec_bkey (sx_list (sx_nth inp 1)) in
  let fuel := fuel_for (map (fun k => AddKey (bk_key k)) ks ++ [IsPumping root]) in
  match prod_tm fuel root ks with
  | None => L [I 1; L []; I 0]
  | Some false => L [I 3; L []; I 0]
  | Some true =>
      match extract fuel root ks with
      | OutOfFuel => L [I 1; L []; I 0]
      | RuntimeErr => L [I 2; L []; I 0]
      | Ok needed =>
          let chk := distinct_parents needed &&
                     match prod_tm fuel root needed with Some true => true | _ => false end in
          L [I 0; L (map enc_bkey needed); of_bool chk]
      end
  end.
