(* The arithmetic of the table-method model is the arithmetic of the SOURCE:
   Gen/ForestCanGiveTerms.v, Gen/ForestComputeShift.v and
   Gen/ForestPreimageGap.v are re-translated from
   comb_spec_searcher/rule_db/forest.py on every run; this file proves that the
   hand-written model (Forest/Model.v: can_fire, preimage_gap) computes exactly
   what those regenerated definitions compute.  A source edit that changes the
   firing test (`s > 0`), the shift bookkeeping (`fvalue + sfz - parent`) or the
   gap search changes the generated definitions and breaks these lemmas, hence
   the obligations of Props/C03.v. *)
From Coq Require Import ZArith List Bool Lia.
From CSS Require Import Base.PyList Forest.Spec Forest.Model.
From CSS Require Import Gen.Prelude Gen.ForestCanGiveTerms Gen.ForestComputeShift Gen.ForestPreimageGap.
Import ListNotations.
Open Scope Z_scope.

(* the shifts TableMethod._compute_shift stores for a rule, read off the table f *)
Definition source_shifts (f : vals) (r : fkey) : list (option Z) :=
  compute_shift (getf f (parent r)) (map (fun cs => getf f (fst cs)) (kids r)) (map snd (kids r)).

Lemma combine_map_fst_snd : forall (A B C : Type) (g : A -> C) (h : A -> B) (l : list A),
  combine (map g l) (map h l) = map (fun a => (g a, h a)) l.
Proof. induction l as [|a l IH]; simpl; [reflexivity | now rewrite IH]. Qed.

Lemma forallb_map_ext : forall (A B : Type) (g : A -> B) (p : B -> bool) (q : A -> bool) (l : list A),
  (forall a, p (g a) = q a) -> forallb p (map g l) = forallb q l.
Proof. intros A B g p q l H. induction l as [|a l IH]; simpl; [reflexivity | now rewrite H, IH]. Qed.

(* _can_give_terms(_compute_shift(key)) is the model's firing test, for a rule
   whose parent is finite (rules of an infinite parent are never examined:
   add_rule_key does not queue them and _set_infinite unregisters them) *)
Lemma can_fire_is_source : forall f r p,
  getf f (parent r) = Some p ->
  can_fire f r = can_give_terms (source_shifts f r).
Proof.
  intros f r p Hp. unfold can_fire, source_shifts, compute_shift, can_give_terms.
  rewrite Hp. cbn [is_none py_unopt].
  rewrite combine_map_fst_snd, map_map. symmetry. apply forallb_map_ext. intros [c s]. cbn [fst snd].
  destruct (getf f c) as [v|]; cbn [is_some is_none py_unopt orb]; reflexivity.
Qed.

(* with an infinite parent the code stores all-None shifts *)
Lemma source_shifts_infinite_parent : forall f r,
  getf f (parent r) = None ->
  source_shifts f r = map (fun _ => None) (kids r).
Proof.
  intros f r Hp. unfold source_shifts, compute_shift. rewrite Hp. cbn [is_none].
  now rewrite map_map.
Qed.

(* Function.preimage_gap: the generated loop over enumerate(_preimage_count)
   is the model's loop over the histogram *)
Lemma pg_loop_is_source : forall h pc i last g,
  preimage_gap_loop (py_enumerate_from i h) pc g last = pg_loop h i last g.
Proof.
  induction h as [|v t IH]; intros pc i last g; cbn [py_enumerate_from preimage_gap_loop pg_loop].
  - reflexivity.
  - destruct (v =? 0); cbn [negb].
    + destruct (g <=? i - last); [reflexivity | apply IH].
    + apply IH.
Qed.

Lemma preimage_gap_is_source : forall f g,
  Model.preimage_gap f g = ForestPreimageGap.preimage_gap (hist f) g.
Proof.
  intros f g. unfold Model.preimage_gap, ForestPreimageGap.preimage_gap, py_enumerate.
  symmetry. apply pg_loop_is_source.
Qed.

(* trailing zero buckets (the raw DefaultList may carry some) do not matter *)
Lemma pg_loop_trailing_zeros : forall h i last g n,
  pg_loop (h ++ repeat 0 n) i last g = pg_loop h i last g.
Proof.
  induction h as [|v t IH]; intros i last g n.
  - cbn [app pg_loop]. revert i. induction n as [|n IHn]; intros i; cbn [repeat pg_loop]; [reflexivity|].
    cbn [Z.eqb]. destruct (g <=? i - last); [reflexivity | apply IHn].
  - cbn [app pg_loop]. destruct (v =? 0); [destruct (g <=? i - last)|]; auto.
Qed.
