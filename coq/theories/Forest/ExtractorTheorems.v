(* The extractor model instantiated with the table-method productivity test,
   whose meaning is given by C03 (Theorems.sound_complete). *)
From Coq Require Import ZArith List Bool Lia.
From CSS Require Import Base.Sx Base.PyList Forest.Spec Forest.Model Forest.Basics Forest.Invariant
  Forest.Correct Forest.Theorems Forest.TerminationRun Forest.Run Forest.Extractor Forest.ExtractorProofs
  Forest.ExtractorRun.
Import ListNotations.
Open Scope Z_scope.

Definition add_ops (ks : list bkey) : list op := map (fun k => AddKey (bk_key k)) ks.
Definition Pk (root : nat) (ks : list bkey) : Prop := pumps (map bk_key ks) root.

Lemma keys_of_add_ops ks : keys_of (add_ops ks) = map bk_key ks.
Proof. induction ks as [|k ks IH]; simpl; auto. rewrite IH. reflexivity. Qed.

Lemma Pk_mono root a b : incl a b -> Pk root a -> Pk root b.
Proof.
  intros Hi. apply pumps_incl. intros r Hr. apply in_map_iff in Hr.
  destruct Hr as (k & <- & Hk). apply in_map. apply Hi; auto.
Qed.

Lemma prod_tm_spec fuel root ks b : prod_tm fuel root ks = Some b -> (b = true <-> Pk root ks).
Proof.
  unfold prod_tm. cbv zeta. fold (add_ops ks).
  destruct (run pick0 (enough fuel (add_ops ks)) init (add_ops ks)) as [st|] eqn:E; [|discriminate].
  intros [= <-]. destruct (sound_complete _ _ _ _ E root) as [A _].
  rewrite keys_of_add_ops in A. exact A.
Qed.

Definition mentions_class (c : nat) (k : bkey) : Prop :=
  parent (bk_key k) = c \/ exists s, In (c, s) (kids (bk_key k)).

Lemma nth_bk j ks : nth j (map bk_key ks) dummy = bk_key (nth j ks (mkb dummy 0)).
Proof. change dummy with (bk_key (mkb dummy 0)) at 1. apply map_nth. Qed.

Section Extract.
Variables (fuel root : nat) (ks res : list bkey).
Hypothesis buckets_ok : forall k, In k ks -> (bk_bucket k < 4)%nat.
Hypothesis Hex : extract fuel root ks = Ok res.

Lemma extract_inv :
  exists st sub,
    run pick0 (enough fuel (add_ops ks)) init (add_ops ks) = Some st /\
    sub = map (fun i => nth i ks (mkb dummy 0)) (pumping_subuniverse st) /\
    minimize (prod_tm fuel root) (filter (in_bucket 0) sub) (filter (in_bucket 1) sub)
             (filter (in_bucket 2) sub) (filter (in_bucket 3) sub) = Ok res.
Proof.
  unfold extract in Hex. cbv zeta in Hex. fold (add_ops ks) in Hex.
  destruct (run pick0 (enough fuel (add_ops ks)) init (add_ops ks)) as [st|] eqn:E; [|discriminate].
  exists st, (map (fun i => nth i ks (mkb dummy 0)) (pumping_subuniverse st)). auto.
Qed.

Lemma sub_in fuel0 st k :
  run pick0 fuel0 init (add_ops ks) = Some st ->
  In k (map (fun i => nth i ks (mkb dummy 0)) (pumping_subuniverse st)) ->
  In k ks /\ pumps (map bk_key ks) (parent (bk_key k)) /\
  forall c s, In (c, s) (kids (bk_key k)) -> pumps (map bk_key ks) c.
Proof.
  intros E Hk. apply in_map_iff in Hk. destruct Hk as (i & <- & Hi).
  apply (subuniverse_spec _ _ _ _ E) in Hi. rewrite keys_of_add_ops in Hi.
  destruct Hi as [Hl [Hp Hc]]. rewrite map_length in Hl. rewrite nth_bk in Hp, Hc.
  split; [apply nth_In; auto|]. split; auto.
Qed.

Lemma buckets_cover sub k : In k sub -> (bk_bucket k < 4)%nat ->
  In k (filter (in_bucket 0) sub ++ filter (in_bucket 1) sub ++
        filter (in_bucket 2) sub ++ filter (in_bucket 3) sub).
Proof.
  intros Hk Hb. rewrite !in_app_iff, !filter_In. unfold in_bucket.
  destruct (bk_bucket k) as [|[|[|[|n]]]]; simpl; try lia; tauto.
Qed.

Lemma buckets_sub sub k :
  In k (filter (in_bucket 0) sub ++ filter (in_bucket 1) sub ++
        filter (in_bucket 2) sub ++ filter (in_bucket 3) sub) -> In k sub.
Proof. rewrite !in_app_iff, !filter_In. tauto. Qed.

(* 1. the extracted keys are inserted keys whose classes all pump *)
Theorem extract_subset : forall k, In k res ->
  In k ks /\ pumps (map bk_key ks) (parent (bk_key k)) /\
  forall c s, In (c, s) (kids (bk_key k)) -> pumps (map bk_key ks) c.
Proof.
  destruct extract_inv as (st & sub & E & Hs & Hm). intros k Hk.
  destruct (minimize_spec _ (Pk root) (Pk_mono root) (prod_tm_spec fuel root) _ _ _ _ _ Hm)
    as (Hi & _). apply Hi in Hk. apply buckets_sub in Hk. subst sub. apply (sub_in _ st k E Hk).
Qed.

(* 2. the start class pumps w.r.t. the extracted keys alone *)
Theorem extract_productive : Pk root ks -> Pk root res.
Proof.
  destruct extract_inv as (st & sub & E & Hs & Hm). intros HP.
  destruct (minimize_spec _ (Pk root) (Pk_mono root) (prod_tm_spec fuel root) _ _ _ _ _ Hm)
    as (_ & Hp & _). apply Hp. clear Hp.
  destruct (run_init_rules _ _ _ _ E) as [F R]. rewrite keys_of_add_ops in R.
  destruct (final_dichotomy st F) as [HT Hd]. destruct (final_gbound st F) as [Hg Hgb].
  rewrite R in Hd, Hgb.
  unfold Pk. apply (sub_pumps (map bk_key ks) _ (maxv (fn st)) (gsize st) Hg Hgb HT Hd); auto.
  intros r Hr Hpp Hkp. destruct (In_nth _ _ dummy Hr) as (j & Hj & Ej).
  rewrite nth_bk in Ej. rewrite map_length in Hj.
  apply in_map_iff. exists (nth j ks (mkb dummy 0)). split; auto.
  apply buckets_cover; [|apply buckets_ok, nth_In; auto].
  subst sub. apply in_map_iff. exists j. split; auto.
  apply (subuniverse_spec _ _ _ _ E). rewrite keys_of_add_ops, map_length. split; auto.
  rewrite nth_bk, Ej. split; auto.
Qed.

(* 3. removing any single extracted key makes the start class stop pumping *)
Theorem extract_minimal : forall i, (i < length res)%nat ->
  ~ Pk root (firstn i res ++ skipn (S i) res).
Proof.
  destruct extract_inv as (st & sub & E & Hs & Hm).
  destruct (minimize_spec _ (Pk root) (Pk_mono root) (prod_tm_spec fuel root) _ _ _ _ _ Hm)
    as (_ & _ & Hmin & _). exact Hmin.
Qed.

(* 4. REVERSE keys are used only when the other buckets of the pumping
      sub-universe do not suffice *)
Theorem extract_reverse_last :
  (exists st, run pick0 fuel init (add_ops ks) = Some st /\
     Pk root (filter (fun k => negb (in_bucket 0 k))
                     (map (fun i => nth i ks (mkb dummy 0)) (pumping_subuniverse st)))) ->
  forall k, In k res -> bk_bucket k <> 0%nat.
Proof.
  destruct extract_inv as (st & sub & E & Hs & Hm). intros (st' & E' & HP) k Hk.
  assert (st = st') as <- by exact (run_fuel_irrelevant _ _ _ _ _ _ _ E E'). rewrite <- Hs in HP.
  destruct (minimize_spec _ (Pk root) (Pk_mono root) (prod_tm_spec fuel root) _ _ _ _ _ Hm)
    as (_ & _ & _ & Hrev).
  assert (Pk root (filter (in_bucket 1) sub ++ filter (in_bucket 2) sub ++ filter (in_bucket 3) sub)) as HP'.
  { eapply Pk_mono; [|exact HP]. intros x Hx. apply filter_In in Hx. destruct Hx as [Hx Hb].
    assert (In x ks) as Hxk by (subst sub; apply (sub_in _ st x E Hx)).
    pose proof (buckets_cover sub x Hx (buckets_ok x Hxk)) as Hc.
    rewrite in_app_iff in Hc. destruct Hc as [Hc|Hc]; auto.
    apply filter_In in Hc. destruct Hc as [_ Hc]. rewrite Hc in Hb. discriminate. }
  specialize (Hrev HP' k Hk). rewrite !in_app_iff, !filter_In in Hrev. unfold in_bucket in Hrev.
  intros E0. rewrite E0 in Hrev. simpl in Hrev. intuition discriminate.
Qed.

(* 5a. EVERY class mentioned by an extracted key (as parent or as child) pumps w.r.t. the extracted
       keys alone - not only the start class.  Minimality gives it: a key mentioning a class that
       does not pump is outside the pumping sub-universe of `res`, so it could be dropped
       (sub_pumps), contradicting extract_minimal.  Uses the run of the table method on the
       extracted keys that check() performs (discharged in ExtractorTermination.v). *)
Theorem extract_all_classes_pump pick' fuel' stS :
  run pick' fuel' init (add_ops res) = Some stS -> Pk root res ->
  forall k c, In k res -> mentions_class c k -> pumps (map bk_key res) c.
Proof.
  intros ES HP k c Hk Hc.
  destruct (run_init_rules _ _ _ _ ES) as [F R]. rewrite keys_of_add_ops in R.
  destruct (final_dichotomy stS F) as [HT Hd]. destruct (final_gbound stS F) as [Hg Hgb].
  rewrite R in Hd, Hgb.
  destruct (Hd c) as [Hp|Hb]; auto. exfalso.
  destruct (In_nth _ _ (mkb dummy 0) Hk) as (i & Hi & Ei).
  apply (extract_minimal i Hi). unfold Pk.
  apply (sub_pumps (map bk_key res) _ (maxv (fn stS)) (gsize stS) Hg Hgb HT Hd); auto.
  intros r Hr Hpp Hkp.
  (* r is not the i-th key, since that one mentions the non-pumping class c *)
  destruct (In_nth _ _ dummy Hr) as (j & Hj & Ej). rewrite map_length in Hj. rewrite nth_bk in Ej.
  destruct (Nat.eq_dec j i) as [->|Hne].
  - exfalso. rewrite Ei in Ej. subst r.
    assert (pumps (map bk_key res) c) as Hp.
    { destruct Hc as [<-|[s Hs]]; auto. apply (Hkp c s Hs). }
    specialize (Hb (maxv (fn stS) + 1) (Hp (maxv (fn stS) + 1))). lia.
  - apply in_map_iff. exists (nth j res (mkb dummy 0)). split; auto.
    rewrite in_app_iff.
    destruct (Nat.lt_ge_cases j i) as [Hlt|Hge].
    + left. rewrite <- (firstn_skipn i res) at 1.
      rewrite app_nth1 by (rewrite firstn_length; lia).
      apply nth_In. rewrite firstn_length. lia.
    + right. assert (j = S i + (j - S i))%nat as Ej' by lia.
      rewrite <- (firstn_skipn (S i) res) at 1. rewrite app_nth2 by (rewrite firstn_length; lia).
      rewrite firstn_length. replace (Nat.min (S i) (length res)) with (S i) by lia.
      apply nth_In. rewrite skipn_length. lia.
Qed.

(* 5. closed: every class mentioned by an extracted key is the left-hand side
      of an extracted key.  Uses the run of the table method on the extracted
      keys that check() performs. *)
Theorem extract_closed pick' fuel' stS :
  run pick' fuel' init (add_ops res) = Some stS -> Pk root res ->
  forall k c, In k res -> mentions_class c k ->
  exists k', In k' res /\ parent (bk_key k') = c.
Proof.
  intros ES HP k c Hk Hc.
  pose proof (extract_all_classes_pump pick' fuel' stS ES HP k c Hk Hc) as Hpc.
  (* a pumping class is the parent of some key *)
  pose proof (Hpc 1) as D. inversion D as [c0 v Hv | r v Hr _ Epar]; [lia|].
  apply in_map_iff in Hr. destruct Hr as (k' & Ek & Hk'). exists k'. split; auto. congruence.
Qed.

End Extract.

(* check(): distinct_parents decides that left-hand sides are pairwise distinct *)
Lemma distinct_parents_sound : forall l,
  distinct_parents l = true ->
  forall i j, (i < length l)%nat -> (j < length l)%nat ->
    parent (bk_key (nth i l (mkb dummy 0))) = parent (bk_key (nth j l (mkb dummy 0))) -> i = j.
Proof.
  induction l as [|k l IH]; intros H i j Hi Hj E; simpl in *; [lia|].
  apply andb_true_iff in H. destruct H as [Hn Hd]. apply negb_true_iff in Hn.
  assert (forall m, (m < length l)%nat ->
            parent (bk_key (nth m l (mkb dummy 0))) <> parent (bk_key k)) as Hne.
  { intros m Hm Em.
    assert (existsb (fun k' => Nat.eqb (parent (bk_key k')) (parent (bk_key k))) l = true) as Ex.
    { apply existsb_exists. exists (nth m l (mkb dummy 0)). split; [apply nth_In; auto|].
      apply Nat.eqb_eq; auto. }
    congruence. }
  destruct i as [|i]; destruct j as [|j]; auto.
  - exfalso. apply (Hne j); [lia|auto].
  - exfalso. apply (Hne i); [lia|auto].
  - f_equal. apply IH; auto; lia.
Qed.
