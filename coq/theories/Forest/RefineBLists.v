(* List plumbing for the layer-B refinement (RefineB*.v): set_nth / DefaultList
   access, the incrementally maintained _preimage_count versus the histogram
   of the value table, and the row-update loops of _increase_value /
   _set_infinite characterised entry by entry. *)
From Coq Require Import ZArith List Bool Lia.
From CSS Require Import Base.PyList Forest.Spec Forest.Model Forest.Basics Forest.ModelB.
From CSS Require Import Gen.Prelude Gen.ForestCanGiveTerms.
Import ListNotations.
Open Scope Z_scope.

(* ---------------- set_nth ---------------- *)
Lemma nth_set_nth_same {A} (l : list A) n v d : (n < length l)%nat -> nth n (set_nth l n v) d = v.
Proof.
  revert n; induction l as [|h t IH]; intros [|n] H; simpl in *; try lia; auto. apply IH; lia.
Qed.

Lemma nth_set_nth_other {A} (l : list A) n m v d : n <> m -> nth m (set_nth l n v) d = nth m l d.
Proof.
  revert n m; induction l as [|h t IH]; intros [|n] [|m] H; simpl; auto; try congruence.
Qed.

Lemma set_nth_out {A} (l : list A) n v : (length l <= n)%nat -> set_nth l n v = l.
Proof.
  revert n; induction l as [|h t IH]; intros [|n] H; simpl in *; auto; try lia. f_equal. apply IH; lia.
Qed.

Lemma nth_ext_len {A} (l l' : list A) d : length l = length l' ->
  (forall n, (n < length l)%nat -> nth n l d = nth n l' d) -> l = l'.
Proof.
  revert l'; induction l as [|h t IH]; intros [|h' t'] Hl H; simpl in *; try discriminate; auto.
  f_equal.
  - apply (H O). lia.
  - apply IH; [lia|]. intros n Hn. apply (H (S n)). lia.
Qed.

Lemma NoDup_snoc_gen {A} (h : list A) (x : A) : NoDup h -> ~ In x h -> NoDup (h ++ [x]).
Proof.
  induction h as [|a h IH]; simpl; intros H Hn.
  - constructor; auto.
  - inversion H; subst. constructor.
    + intros Hin. apply in_app_iff in Hin. destruct Hin as [Hin|[->|[]]]; [contradiction|].
      apply Hn. left; auto.
    + apply IH; auto.
Qed.

(* ---------------- DefaultList ---------------- *)
Lemma dl_get_set_same {A} (l : list (list A)) c x : dl_get (dl_set l c x) c = x.
Proof.
  unfold dl_get, dl_set. apply nth_set_nth_same. rewrite app_length, repeat_length. lia.
Qed.

Lemma nth_app_repeat_nil {A} (l : list (list A)) k c : nth c (l ++ repeat [] k) [] = nth c l [].
Proof.
  destruct (Nat.lt_ge_cases c (length l)) as [H|H].
  - apply app_nth1; auto.
  - rewrite app_nth2 by lia. rewrite (nth_overflow l) by lia.
    destruct (Nat.lt_ge_cases (c - length l) k) as [H1|H1].
    + apply nth_repeat.
    + apply nth_overflow. rewrite repeat_length. lia.
Qed.

Lemma dl_get_set_other {A} (l : list (list A)) c c' x : c <> c' -> dl_get (dl_set l c x) c' = dl_get l c'.
Proof.
  intros H. unfold dl_get, dl_set. rewrite nth_set_nth_other by auto. apply nth_app_repeat_nil.
Qed.

(* ---------------- _preimage_count ---------------- *)
Lemma nth_app_repeat_0 (l : list Z) k j : nth j (l ++ repeat 0 k) 0 = nth j l 0.
Proof.
  destruct (Nat.lt_ge_cases j (length l)) as [H|H].
  - apply app_nth1; auto.
  - rewrite app_nth2 by lia. rewrite (nth_overflow l) by lia.
    destruct (Nat.lt_ge_cases (j - length l) k) as [H1|H1].
    + apply nth_repeat.
    + apply nth_overflow. rewrite repeat_length. lia.
Qed.

Lemma nth_pc_add pc i d j : nth j (pc_add pc i d) 0 = nth j pc 0 + (if Nat.eqb j i then d else 0).
Proof.
  unfold pc_add. destruct (Nat.eqb j i) eqn:E.
  - apply Nat.eqb_eq in E. subst j. rewrite nth_set_nth_same.
    + rewrite nth_app_repeat_0. reflexivity.
    + rewrite app_length, repeat_length. lia.
  - apply Nat.eqb_neq in E. rewrite nth_set_nth_other by auto. rewrite nth_app_repeat_0. lia.
Qed.

(* the histogram entries of the value table *)
Lemma count_app f g j : count (f ++ g) j = count f j + count g j.
Proof. unfold count. rewrite filter_app, app_length. lia. Qed.

Lemma count_repeat_zero k j : count (repeat (Some 0) k) j = if j =? 0 then Z.of_nat k else 0.
Proof.
  unfold count. induction k as [|k IH].
  - simpl. destruct (j =? 0); reflexivity.
  - cbn [repeat filter is_val]. rewrite (Z.eqb_sym 0 j). destruct (j =? 0) eqn:E; cbn [length]; lia.
Qed.

Lemma count_extend f c j :
  count (extend f c) j = count f j + (if j =? 0 then Z.of_nat (S c - length f) else 0).
Proof. unfold extend. rewrite count_app, count_repeat_zero. reflexivity. Qed.

Lemma count_upd : forall f c x j, (c < length f)%nat ->
  count (upd f c x) j = count f j - (if is_val j (getf f c) then 1 else 0) + (if is_val j x then 1 else 0).
Proof.
  unfold upd, getf, count. induction f as [|y f IH]; intros [|c] x j H; simpl in *; try lia.
  - destruct (is_val j x), (is_val j y); simpl length; lia.
  - specialize (IH c x j ltac:(lia)). destruct (is_val j y); simpl length; lia.
Qed.

(* the gap search only depends on the histogram up to trailing zeros *)
Lemma pg_loop_zeros : forall h i last g, (forall j, nth j h 0 = 0) -> pg_loop h i last g = last + 1.
Proof.
  induction h as [|v t IH]; intros i last g H; simpl; auto.
  pose proof (H O) as H0. simpl in H0. subst v. simpl.
  destruct (g <=? i - last); auto. apply IH. intros j. apply (H (S j)).
Qed.

Lemma pg_loop_pointwise : forall h h' i last g, (forall j, nth j h 0 = nth j h' 0) ->
  pg_loop h i last g = pg_loop h' i last g.
Proof.
  induction h as [|v t IH]; intros h' i last g H.
  - simpl. symmetry. apply pg_loop_zeros. intros j. rewrite <- H. destruct j; reflexivity.
  - destruct h' as [|v' t'].
    + rewrite (pg_loop_zeros (v :: t)); [reflexivity|].
      intros j. rewrite H. destruct j; reflexivity.
    + pose proof (H O) as H0. simpl in H0. subst v'. simpl.
      assert (forall j, nth j t 0 = nth j t' 0) as Ht by (intros j; apply (H (S j))).
      destruct (v =? 0); [destruct (g <=? i - last); auto|]; apply IH; auto.
Qed.

Lemma nth_hist f j : nth j (hist f) 0 = count f (Z.of_nat j).
Proof.
  unfold hist. destruct (Nat.lt_ge_cases j (S (Z.to_nat (maxv f)))) as [H|H].
  - rewrite nth_indep with (d' := (fun j => count f (Z.of_nat j)) O)
      by (rewrite map_length, seq_length; auto).
    change (count f (Z.of_nat 0)) with ((fun j : nat => count f (Z.of_nat j)) O).
    rewrite map_nth, seq_nth by auto. reflexivity.
  - rewrite nth_overflow by (rewrite map_length, seq_length; lia).
    symmetry. unfold count.
    assert (filter (is_val (Z.of_nat j)) f = []) as E.
    { pose proof (maxv_nonneg f) as Hm0.
      assert (forall f0, (forall x n, In x f0 -> x = Some n -> n <= maxv f) -> filter (is_val (Z.of_nat j)) f0 = []) as G.
      { induction f0 as [|x f0 IH]; intros Hb; simpl; auto.
        destruct x as [n|]; simpl.
        - pose proof (Hb (Some n) n (or_introl eq_refl) eq_refl) as Hn.
          destruct (n =? Z.of_nat j) eqn:E; [apply Z.eqb_eq in E; lia|].
          apply IH. intros x m Hx. apply Hb. right; auto.
        - apply IH. intros x m Hx. apply Hb. right; auto. }
      apply G. intros x n Hx ->. destruct (In_nth_error _ _ Hx) as [c Hc].
      eapply maxv_ge; eauto. }
    rewrite E. reflexivity.
Qed.

(* ---------------- rows ---------------- *)
Definition entry (T : list (list (option Z))) (i k : nat) : option Z := nth k (nth i T []) None.

Lemma row_ext (r r' : list (option Z)) : length r = length r' ->
  (forall k, nth k r None = nth k r' None) -> r = r'.
Proof. intros Hl H. apply (nth_ext_len r r' None Hl). intros n _. apply H. Qed.

Lemma nth_set_row (T : list (list (option Z))) i row j :
  nth j (set_nth T i row) [] = if Nat.eqb j i then (if Nat.ltb i (length T) then row else []) else nth j T [].
Proof.
  destruct (Nat.eqb j i) eqn:E.
  - apply Nat.eqb_eq in E. subst j. destruct (Nat.ltb i (length T)) eqn:El.
    + apply Nat.ltb_lt in El. apply nth_set_nth_same; auto.
    + apply Nat.ltb_ge in El. rewrite set_nth_out by auto. apply nth_overflow; auto.
  - apply Nat.eqb_neq in E. apply nth_set_nth_other; auto.
Qed.

Lemma nth_dec_row row k : nth k (dec_row row) None =
  match nth k row None with Some x => Some (x - 1) | None => None end.
Proof. unfold dec_row. revert k; induction row as [|a row IH]; intros [|k]; simpl; auto. Qed.

Lemma length_dec_row row : length (dec_row row) = length row.
Proof. apply map_length. Qed.

Definition memn (i : nat) (l : list nat) : bool := existsb (Nat.eqb i) l.
Definition memp (p : nat * nat) (l : list (nat * nat)) : bool :=
  existsb (fun q => Nat.eqb (fst p) (fst q) && Nat.eqb (snd p) (snd q)) l.

Lemma memn_In i l : memn i l = true <-> In i l.
Proof.
  unfold memn. rewrite existsb_exists. split.
  - intros (x & Hx & E). apply Nat.eqb_eq in E. subst; auto.
  - intros H. exists i. split; auto. apply Nat.eqb_refl.
Qed.

Lemma memp_In p l : memp p l = true <-> In p l.
Proof.
  unfold memp. rewrite existsb_exists. split.
  - intros ([a b] & Hx & E). apply andb_true_iff in E. destruct E as [E1 E2].
    apply Nat.eqb_eq in E1, E2. destruct p; simpl in *; subst; auto.
  - intros H. exists p. split; auto. rewrite !Nat.eqb_refl. reflexivity.
Qed.

(* ---- the table after the loop over _rules_pumping_class[c] ---- *)
Definition tab_of (s : lstate) : list (list (option Z)) := fst (fst s).
Definition queue_of (s : lstate) : list nat := snd (fst s).
Definition ok_of (s : lstate) : bool := snd s.

Lemma pump_tab_length : forall P s, length (tab_of (fold_left pump_step P s)) = length (tab_of s).
Proof.
  induction P as [|a P IH]; intros [[T q] ok]; simpl; auto.
  rewrite IH. unfold tab_of; simpl. apply set_nth_length.
Qed.

Lemma pump_tab_row : forall P s i, NoDup P ->
  nth i (tab_of (fold_left pump_step P s)) [] =
  if memn i P then dec_row (nth i (tab_of s) []) else nth i (tab_of s) [].
Proof.
  induction P as [|a P IH]; intros [[T q] ok] i Hnd; simpl; auto.
  inversion Hnd as [|? ? Hna Hnd']; subst.
  rewrite IH by auto. unfold tab_of at 1 2; simpl. rewrite nth_set_row.
  destruct (Nat.eqb i a) eqn:E.
  - apply Nat.eqb_eq in E. subst i. simpl.
    assert (memn a P = false) as Em.
    { destruct (memn a P) eqn:Em; auto. apply memn_In in Em. contradiction. }
    rewrite Em. unfold tab_of; simpl. destruct (Nat.ltb a (length T)) eqn:El; auto.
    apply Nat.ltb_ge in El. rewrite (nth_overflow T) by auto. reflexivity.
  - simpl. unfold tab_of; simpl. reflexivity.
Qed.

(* ---- the loop over _rules_using_class[c] of _increase_value ---- *)
Lemma use_tab_length : forall U s, length (tab_of (fold_left use_step U s)) = length (tab_of s).
Proof.
  induction U as [|a U IH]; intros [[T q] ok]; simpl; auto.
  rewrite IH. unfold tab_of; simpl. destruct (nth (snd a) (nth (fst a) T []) None); simpl; auto.
  apply set_nth_length.
Qed.

Lemma use_step_entry T q ok p i k :
  entry (tab_of (use_step (T, q, ok) p)) i k =
  match entry T i k with
  | None => None
  | Some x => Some (if Nat.eqb i (fst p) && Nat.eqb k (snd p) then x + 1 else x)
  end.
Proof.
  unfold use_step, entry. destruct (nth (snd p) (nth (fst p) T []) None) as [x|] eqn:Ex; unfold tab_of; simpl.
  - rewrite nth_set_row. destruct (Nat.eqb i (fst p)) eqn:Ei; simpl.
    + apply Nat.eqb_eq in Ei. subst i.
      assert (fst p < length T)%nat as Hl.
      { destruct (Nat.lt_ge_cases (fst p) (length T)); auto.
        rewrite (nth_overflow T) in Ex by auto. destruct (snd p); discriminate. }
      apply Nat.ltb_lt in Hl. rewrite Hl.
      destruct (Nat.eqb k (snd p)) eqn:Ek.
      * apply Nat.eqb_eq in Ek. subst k. rewrite Ex. apply nth_set_nth_same.
        destruct (Nat.lt_ge_cases (snd p) (length (nth (fst p) T []))); auto.
        rewrite nth_overflow in Ex by auto. discriminate.
      * apply Nat.eqb_neq in Ek. rewrite nth_set_nth_other by auto.
        destruct (nth k (nth (fst p) T []) None); reflexivity.
    + destruct (nth k (nth i T []) None); reflexivity.
  - destruct (nth k (nth i T []) None) as [y|] eqn:Ey; auto.
    destruct (Nat.eqb i (fst p) && Nat.eqb k (snd p)) eqn:E; auto.
    apply andb_true_iff in E. destruct E as [E1 E2]. apply Nat.eqb_eq in E1, E2. subst. congruence.
Qed.

Lemma use_step_row_length T q ok p i :
  length (nth i (tab_of (use_step (T, q, ok) p)) []) = length (nth i T []).
Proof.
  unfold use_step. destruct (nth (snd p) (nth (fst p) T []) None) as [x|] eqn:Ex; unfold tab_of; simpl; auto.
  rewrite nth_set_row. destruct (Nat.eqb i (fst p)) eqn:Ei; auto.
  apply Nat.eqb_eq in Ei. subst i. destruct (Nat.ltb (fst p) (length T)) eqn:El.
  - apply set_nth_length.
  - apply Nat.ltb_ge in El. rewrite (nth_overflow T) by auto. reflexivity.
Qed.

Lemma use_tab_entry : forall U s i k, NoDup U ->
  entry (tab_of (fold_left use_step U s)) i k =
  match entry (tab_of s) i k with
  | None => None
  | Some x => Some (if memp (i, k) U then x + 1 else x)
  end.
Proof.
  induction U as [|a U IH]; intros [[T q] ok] i k Hnd.
  - simpl. unfold tab_of; simpl. destruct (entry T i k); reflexivity.
  - inversion Hnd as [|? ? Hna Hnd']; subst.
    cbn [fold_left]. rewrite IH by auto.
    destruct (use_step (T, q, ok) a) as [[T1 q1] ok1] eqn:Es.
    assert (tab_of (use_step (T, q, ok) a) = T1) as ET by (rewrite Es; reflexivity).
    unfold tab_of at 1; simpl. rewrite <- ET, use_step_entry. unfold tab_of at 1; simpl.
    destruct (entry T i k) as [x|]; auto. f_equal.
    cbn [memp existsb fst snd].
    destruct (Nat.eqb i (fst a) && Nat.eqb k (snd a)) eqn:E; simpl.
    + assert (memp (i, k) U = false) as Em.
      { destruct (memp (i, k) U) eqn:Em; auto. apply memp_In in Em.
        apply andb_true_iff in E. destruct E as [E1 E2]. apply Nat.eqb_eq in E1, E2.
        destruct a; simpl in *; subst. contradiction. }
      rewrite Em. reflexivity.
    + reflexivity.
Qed.

Lemma use_tab_row_length : forall U s i,
  length (nth i (tab_of (fold_left use_step U s)) []) = length (nth i (tab_of s) []).
Proof.
  induction U as [|a U IH]; intros [[T q] ok] i; simpl; auto.
  rewrite IH. apply use_step_row_length.
Qed.

(* the assertion `current_shift is not None` never fails when every registered entry is finite *)
Lemma use_ok : forall U s, (forall p, In p U -> entry (tab_of s) (fst p) (snd p) <> None) ->
  ok_of (fold_left use_step U s) = ok_of s.
Proof.
  induction U as [|a U IH]; intros [[T q] ok] H; [reflexivity|].
  cbn [fold_left]. rewrite IH.
  - unfold use_step. pose proof (H a (or_introl eq_refl)) as Ha. unfold entry, tab_of in Ha; simpl in Ha.
    destruct (nth (snd a) (nth (fst a) T []) None); [reflexivity|congruence].
  - intros p Hp. pose proof (H p (or_intror Hp)) as Hp'. unfold tab_of in Hp'; simpl in Hp'.
    rewrite (use_step_entry T q ok a (fst p) (snd p)).
    destruct (entry T (fst p) (snd p)); [discriminate|congruence].
Qed.

(* ---- the loop over _rules_using_class[c] of _set_infinite ---- *)
Lemma inf_tab_length : forall U s, length (tab_of (fold_left inf_step U s)) = length (tab_of s).
Proof.
  induction U as [|a U IH]; intros [[T q] ok]; simpl; auto.
  rewrite IH. unfold tab_of; simpl. apply set_nth_length.
Qed.

Lemma nth_set_none (row : list (option Z)) k k' :
  nth k' (set_nth row k None) None = if Nat.eqb k' k then None else nth k' row None.
Proof.
  destruct (Nat.eqb k' k) eqn:E.
  - apply Nat.eqb_eq in E. subst k'. destruct (Nat.lt_ge_cases k (length row)).
    + apply nth_set_nth_same; auto.
    + rewrite set_nth_out by auto. apply nth_overflow; auto.
  - apply Nat.eqb_neq in E. apply nth_set_nth_other; auto.
Qed.

Lemma inf_step_entry T q ok p i k :
  entry (tab_of (inf_step (T, q, ok) p)) i k =
  if Nat.eqb i (fst p) && Nat.eqb k (snd p) then None else entry T i k.
Proof.
  unfold inf_step, entry, tab_of; simpl. rewrite nth_set_row.
  destruct (Nat.eqb i (fst p)) eqn:Ei; simpl; auto.
  apply Nat.eqb_eq in Ei. subst i. destruct (Nat.ltb (fst p) (length T)) eqn:El.
  - apply nth_set_none.
  - apply Nat.ltb_ge in El. rewrite (nth_overflow T) by auto.
    destruct (Nat.eqb k (snd p)); destruct k; reflexivity.
Qed.

Lemma inf_step_row_length T q ok p i :
  length (nth i (tab_of (inf_step (T, q, ok) p)) []) = length (nth i T []).
Proof.
  unfold inf_step, tab_of; simpl. rewrite nth_set_row. destruct (Nat.eqb i (fst p)) eqn:Ei; auto.
  apply Nat.eqb_eq in Ei. subst i. destruct (Nat.ltb (fst p) (length T)) eqn:El.
  - apply set_nth_length.
  - apply Nat.ltb_ge in El. rewrite (nth_overflow T) by auto. reflexivity.
Qed.

Lemma inf_tab_entry : forall U s i k,
  entry (tab_of (fold_left inf_step U s)) i k =
  if memp (i, k) U then None else entry (tab_of s) i k.
Proof.
  induction U as [|a U IH]; intros [[T q] ok] i k.
  - reflexivity.
  - cbn [fold_left]. rewrite IH.
    destruct (inf_step (T, q, ok) a) as [[T1 q1] ok1] eqn:Es.
    assert (tab_of (inf_step (T, q, ok) a) = T1) as ET by (rewrite Es; reflexivity).
    unfold tab_of at 1 2; simpl. rewrite <- ET, inf_step_entry.
    cbn [memp existsb fst snd].
    destruct (Nat.eqb i (fst a) && Nat.eqb k (snd a)); simpl.
    + match goal with |- (if ?b then _ else _) = _ => destruct b end; reflexivity.
    + reflexivity.
Qed.

Lemma inf_tab_row_length : forall U s i,
  length (nth i (tab_of (fold_left inf_step U s)) []) = length (nth i (tab_of s) []).
Proof.
  induction U as [|a U IH]; intros [[T q] ok] i; simpl; auto.
  rewrite IH. apply inf_step_row_length.
Qed.

Lemma inf_ok : forall U s, ok_of (fold_left inf_step U s) = ok_of s.
Proof. induction U as [|a U IH]; intros [[T q] ok]; simpl; auto. rewrite IH. reflexivity. Qed.

Lemma pump_ok : forall P s, ok_of (fold_left pump_step P s) = ok_of s.
Proof. induction P as [|a P IH]; intros [[T q] ok]; simpl; auto. rewrite IH. reflexivity. Qed.

(* ---------------- the queue built by a loop ----------------
   a loop step touches one row (index ix x) and appends that index when the
   UPDATED row passes _can_give_terms *)
Section Loop.
Variable X : Type.
Variable ix : X -> nat.
Variable step : lstate -> X -> lstate.
Variable good : list (list (option Z)) -> X -> Prop.
Hypothesis step_queue : forall T q ok x, good T x ->
  queue_of (step (T, q, ok) x) = requeue_if (nth (ix x) (tab_of (step (T, q, ok) x)) []) q (ix x).
Hypothesis step_other : forall T q ok x j, j <> ix x ->
  nth j (tab_of (step (T, q, ok) x)) [] = nth j T [].
Hypothesis good_pres : forall T q ok x y, good T y -> good (tab_of (step (T, q, ok) x)) y.

Lemma loop_queue : forall xs s, (forall x, In x xs -> good (tab_of s) x) ->
  exists l, queue_of (fold_left step xs s) = queue_of s ++ l /\
            (forall j, In j l -> In j (map ix xs)) /\ (length l <= length xs)%nat.
Proof.
  induction xs as [|x xs IH]; intros [[T q] ok] Hg.
  - exists []. simpl. rewrite app_nil_r. repeat split; auto.
  - cbn [fold_left].
    pose proof (step_queue T q ok x (Hg x (or_introl eq_refl))) as Eq.
    destruct (step (T, q, ok) x) as [[T1 q1] ok1] eqn:Es.
    destruct (IH (T1, q1, ok1)) as (l & El & Hin & Hlen).
    { intros y Hy. unfold tab_of; simpl.
      replace T1 with (tab_of (step (T, q, ok) x)) by (rewrite Es; reflexivity).
      apply good_pres. apply (Hg y (or_intror Hy)). }
    unfold queue_of, tab_of in Eq; simpl in Eq. unfold requeue_if in Eq.
    destruct (can_give_terms (nth (ix x) T1 [])).
    + exists (ix x :: l). rewrite El. unfold queue_of at 1; simpl. rewrite Eq, <- app_assoc.
      split; [reflexivity|]. split.
      * intros j [<-|Hj]; simpl; auto.
      * simpl. lia.
    + exists l. rewrite El. unfold queue_of at 1; simpl. rewrite Eq.
      split; [reflexivity|]. split.
      * intros j Hj. simpl. auto.
      * simpl. lia.
Qed.

Lemma loop_row_other : forall xs s j, ~ In j (map ix xs) ->
  nth j (tab_of (fold_left step xs s)) [] = nth j (tab_of s) [].
Proof.
  induction xs as [|x xs IH]; intros [[T q] ok] j Hj; simpl; auto.
  rewrite IH by (intros H; apply Hj; right; auto).
  apply step_other. intros E. apply Hj. left; auto.
Qed.

(* the appended list: only touched rules, at most one entry per step, and every touched rule
   whose FINAL row passes the test is in it *)
Lemma loop_spec : forall xs s, (forall x, In x xs -> good (tab_of s) x) ->
  exists l, queue_of (fold_left step xs s) = queue_of s ++ l /\
            (forall j, In j l -> In j (map ix xs)) /\ (length l <= length xs)%nat /\
            (forall j, In j (map ix xs) ->
               can_give_terms (nth j (tab_of (fold_left step xs s)) []) = true -> In j l).
Proof.
  induction xs as [|x xs IH]; intros [[T q] ok] Hg.
  - exists []. simpl. rewrite app_nil_r. repeat split; auto.
  - cbn [fold_left].
    pose proof (step_queue T q ok x (Hg x (or_introl eq_refl))) as Eq.
    assert (forall y, In y xs -> good (tab_of (step (T, q, ok) x)) y) as Hg1.
    { intros y Hy. apply good_pres. apply (Hg y (or_intror Hy)). }
    destruct (IH (step (T, q, ok) x) Hg1) as (l & El & Hin & Hlen & Hcov).
    exists ((if can_give_terms (nth (ix x) (tab_of (step (T, q, ok) x)) []) then [ix x] else []) ++ l).
    split; [|split; [|split]].
    + rewrite El, Eq. unfold requeue_if. change (queue_of (T, q, ok)) with q.
      destruct (can_give_terms (nth (ix x) (tab_of (step (T, q, ok) x)) [])); simpl.
      * rewrite <- app_assoc. reflexivity.
      * reflexivity.
    + intros j Hj. apply in_app_iff in Hj. destruct Hj as [Hj|Hj].
      * destruct (can_give_terms _); [|destruct Hj]. destruct Hj as [<-|[]]. left; auto.
      * right. auto.
    + rewrite app_length. destruct (can_give_terms _); simpl; lia.
    + intros j Hj Hc. apply in_app_iff.
      destruct (in_dec Nat.eq_dec j (map ix xs)) as [Hin'|Hnin].
      * right. apply Hcov; auto.
      * destruct Hj as [Ej|Hj]; [|contradiction]. subst j.
        rewrite loop_row_other in Hc by auto. rewrite Hc. left. left; auto.
Qed.
End Loop.

(* the three loops are instances *)
Lemma pump_step_queue T q ok x :
  queue_of (pump_step (T, q, ok) x) = requeue_if (nth x (tab_of (pump_step (T, q, ok) x)) []) q x.
Proof.
  unfold pump_step, queue_of, tab_of; simpl. rewrite nth_set_row, Nat.eqb_refl.
  destruct (Nat.ltb x (length T)) eqn:El; auto.
  apply Nat.ltb_ge in El. rewrite (nth_overflow T) by auto. reflexivity.
Qed.

Lemma pump_step_other T q ok x j : j <> x -> nth j (tab_of (pump_step (T, q, ok) x)) [] = nth j T [].
Proof. intros H. unfold pump_step, tab_of; simpl. apply nth_set_nth_other; auto. Qed.

Definition use_good (T : list (list (option Z))) (p : nat * nat) : Prop := entry T (fst p) (snd p) <> None.

Lemma use_step_queue T q ok p : use_good T p ->
  queue_of (use_step (T, q, ok) p) =
  requeue_if (nth (fst p) (tab_of (use_step (T, q, ok) p)) []) q (fst p).
Proof.
  unfold use_good, entry, use_step. intros H.
  destruct (nth (snd p) (nth (fst p) T []) None) as [x|] eqn:Ex; [|congruence].
  unfold queue_of, tab_of; simpl. rewrite nth_set_row, Nat.eqb_refl.
  assert (fst p < length T)%nat as Hl.
  { destruct (Nat.lt_ge_cases (fst p) (length T)); auto.
    rewrite (nth_overflow T) in Ex by auto. destruct (snd p); discriminate. }
  apply Nat.ltb_lt in Hl. rewrite Hl. reflexivity.
Qed.

Lemma use_step_other T q ok p j : j <> fst p -> nth j (tab_of (use_step (T, q, ok) p)) [] = nth j T [].
Proof.
  intros H. unfold use_step, tab_of. destruct (nth (snd p) (nth (fst p) T []) None); simpl; auto.
  apply nth_set_nth_other; auto.
Qed.

Lemma use_good_pres T q ok x y : use_good T y -> use_good (tab_of (use_step (T, q, ok) x)) y.
Proof.
  unfold use_good. intros H. rewrite use_step_entry. destruct (entry T (fst y) (snd y)); [discriminate|congruence].
Qed.

Lemma inf_step_queue T q ok p :
  queue_of (inf_step (T, q, ok) p) =
  requeue_if (nth (fst p) (tab_of (inf_step (T, q, ok) p)) []) q (fst p).
Proof.
  unfold inf_step, queue_of, tab_of; simpl. rewrite nth_set_row, Nat.eqb_refl.
  destruct (Nat.ltb (fst p) (length T)) eqn:El; auto.
  apply Nat.ltb_ge in El. rewrite (nth_overflow T) by auto.
  assert (set_nth (@nil (option Z)) (snd p) None = []) as -> by (destruct (snd p); reflexivity).
  reflexivity.
Qed.

Lemma inf_step_other T q ok p j : j <> fst p -> nth j (tab_of (inf_step (T, q, ok) p)) [] = nth j T [].
Proof. intros H. unfold inf_step, tab_of; simpl. apply nth_set_nth_other; auto. Qed.
