(* LAYER A: executable model of comb_spec_searcher/rule_db/forest.py: Function and
   TableMethod.  Same algorithm as the code: a processing queue, the set of
   rules "holding extra terms", the cached gap, increase_value/set_infinite.
   Simplifications (layer A of DESIGN.md) — this is an ABSTRACTION of the code:
   - whether a rule can give a term is decided from the current table (child
     value + shift - parent value > 0) instead of from the cached, incrementally
     updated _shifts rows the code reads;
   - the rules re-queued after a change are "all rules mentioning the class that
     can fire", once each, in index order (the code: _rules_pumping_class then
     _rules_using_class, once per registered (rule, child) pair, duplicates);
   - _preimage_count is the histogram recomputed from the values;
   - the value table is grown to cover every label of an inserted key (the code
     does not look up the children of a rule whose parent is already infinite);
   - the held set is released in insertion order.
   The theorems of Props/C03.v named C03_sound_complete ... C03_total_* are about THIS
   schedule (for every `pick`).  That the observable answers (function,
   is_pumping, pumping_subuniverse) do not depend on these choices is proved
   separately: Forest/SchedDefs.v generalises this layer over the re-queue list,
   the release order and the table growth (layer S, theorems C03_S_...), this layer is
   one schedule of it (C03_A_is_S), and Forest/ModelB.v — the data structures
   of the code as they are — is another one (C03_B_refines_S, C03_B_refines_A).
   set.pop() on the held set is an arbitrary choice: modelled by the oracle
   `pick`, universally quantified in the theorems. *)
From Coq Require Import ZArith List Bool Lia.
From CSS Require Import Base.PyList Forest.Spec.
Import ListNotations.
Open Scope Z_scope.

Definition vals := list (option Z).     (* Function._value ; None = infinity *)

(* Function.__getitem__ : default 0 *)
Definition getf (f : vals) (c : nat) : option Z := nth c f (Some 0).

(* Function._increase_list_len : make label c valid *)
Definition extend (f : vals) (c : nat) : vals :=
  f ++ repeat (Some 0) (S c - length f).

Definition upd (f : vals) (c : nat) (x : option Z) : vals := set_nth f c x.

(* Function._preimage_count, as the histogram of the finite values *)
Definition is_val (j : Z) (x : option Z) : bool :=
  match x with Some n => n =? j | None => false end.
Definition count (f : vals) (j : Z) : Z := Z.of_nat (length (filter (is_val j) f)).
Definition maxv (f : vals) : Z :=
  fold_right (fun x m => match x with Some n => Z.max n m | None => m end) 0 f.
Definition hist (f : vals) : list Z :=
  map (fun j => count f (Z.of_nat j)) (seq 0 (S (Z.to_nat (maxv f)))).

(* Function.preimage_gap(length) *)
Fixpoint pg_loop (h : list Z) (i last g : Z) : Z :=
  match h with
  | [] => last + 1
  | v :: t =>
      if v =? 0 then (if g <=? i - last then last + 1 else pg_loop t (i + 1) last g)
      else pg_loop t (i + 1) i g
  end.
Definition preimage_gap (f : vals) (g : Z) : Z := pg_loop (hist f) 0 (-1) g.

Record tm := mktm {
  rules : list fkey;      (* _rules (key and shifts; the bucket plays no role here) *)
  fn : vals;              (* _function *)
  gsize : Z;              (* _gap_size *)
  cgap : Z * Z;           (* _current_gap *)
  queue : list nat;       (* _processing_queue *)
  held : list nat         (* _rule_holding_extra_terms *)
}.

Definition init : tm := mktm [] [] 1 (1, 1) [] [].

Definition dummy : fkey := mkkey 0 [].
Definition rule_at (st : tm) (i : nat) : fkey := nth i (rules st) dummy.

(* _can_give_terms on the shifts the code would hold for this rule *)
Definition can_fire (f : vals) (r : fkey) : bool :=
  match getf f (parent r) with
  | None => false
  | Some p =>
      forallb (fun cs => match getf f (fst cs) with
                         | None => true
                         | Some v => 0 <? v + snd cs - p
                         end) (kids r)
  end.

Definition mentions (c : nat) (r : fkey) : bool :=
  Nat.eqb (parent r) c || existsb (fun cs => Nat.eqb (fst cs) c) (kids r).

(* rules to re-examine after the value of c changed *)
Definition requeue (st : tm) (f : vals) (c : nat) : list nat :=
  filter (fun i => mentions c (rule_at st i) && can_fire f (rule_at st i))
         (seq 0 (length (rules st))).

(* TableMethod._correct_gap *)
Definition correct_gap (st : tm) : tm :=
  let k := preimage_gap (fn st) (gsize st) in
  let new := (k, k + gsize st - 1) in
  if snd (cgap st) <? snd new
  then mktm (rules st) (fn st) (gsize st) new (queue st ++ held st) []
  else mktm (rules st) (fn st) (gsize st) new (queue st) (held st).

Definition add_held (h : list nat) (i : nat) : list nat :=
  if existsb (Nat.eqb i) h then h else h ++ [i].

(* TableMethod._increase_value(comb_class, rule_idx) *)
Definition increase_value (st : tm) (c i : nat) : tm :=
  match getf (fn st) c with
  | None => st
  | Some v =>
      if snd (cgap st) <? v
      then mktm (rules st) (fn st) (gsize st) (cgap st) (queue st) (add_held (held st) i)
      else
        let f' := upd (fn st) c (Some (v + 1)) in
        let st1 := mktm (rules st) f' (gsize st) (cgap st) (queue st) (held st) in
        let st2 := if fst (cgap st) =? preimage_gap f' (gsize st) then st1 else correct_gap st1 in
        mktm (rules st2) (fn st2) (gsize st2) (cgap st2)
             (queue st2 ++ requeue st2 f' c) (held st2)
  end.

(* TableMethod._set_infinite(comb_class) *)
Definition set_infinite (st : tm) (c : nat) : tm :=
  match getf (fn st) c with
  | None => st
  | Some _ =>
      let f' := upd (fn st) c None in
      mktm (rules st) f' (gsize st) (cgap st) (queue st ++ requeue st f' c) (held st)
  end.

Fixpoint remove_at (n : nat) (l : list nat) : list nat :=
  match l, n with
  | [], _ => []
  | _ :: t, O => t
  | h :: t, S n' => h :: remove_at n' t
  end.

(* TableMethod._process_queue; None = out of fuel *)
Fixpoint process (pick : list nat -> nat) (fuel : nat) (st : tm) : option tm :=
  match fuel with
  | O => None
  | S fuel' =>
      match queue st with
      | i :: q =>
          let st1 := mktm (rules st) (fn st) (gsize st) (cgap st) q (held st) in
          process pick fuel'
            (if can_fire (fn st1) (rule_at st1 i)
             then increase_value st1 (parent (rule_at st1 i)) i
             else st1)
      | [] =>
          match held st with
          | [] => Some st
          | _ =>
              let n := Nat.modulo (pick (held st)) (length (held st)) in
              let i := nth n (held st) O in
              let st1 := mktm (rules st) (fn st) (gsize st) (cgap st) [] (remove_at n (held st)) in
              process pick fuel' (set_infinite st1 (parent (rule_at st1 i)))
          end
      end
  end.

Definition max_abs (r : fkey) : Z :=
  fold_right (fun cs m => Z.max (Z.abs (snd cs)) m) 0 (kids r).

(* the lookups of _compute_shift extend the table to cover every label of the key *)
Definition extend_key (f : vals) (r : fkey) : vals :=
  fold_left (fun f c => extend f c) (map fst (kids r)) (extend f (parent r)).

(* TableMethod.add_rule_key *)
Definition add_rule_key (pick : list nat -> nat) (fuel : nat) (st : tm) (r : fkey) : option tm :=
  let f1 := extend_key (fn st) r in
  let st1 := mktm (rules st ++ [r]) f1 (gsize st) (cgap st) (queue st) (held st) in
  let st2 := if gsize st <? max_abs r
             then correct_gap (mktm (rules st1) f1 (max_abs r) (cgap st1) (queue st1) (held st1))
             else st1 in
  let st3 := match getf (fn st2) (parent r) with
             | None => st2
             | Some _ => mktm (rules st2) (fn st2) (gsize st2) (cgap st2)
                              (queue st2 ++ [length (rules st)]) (held st2)
             end in
  process pick fuel st3.

(* TableMethod.is_pumping(label): the lookup extends the table *)
Definition is_pumping (st : tm) (c : nat) : tm * bool :=
  (mktm (rules st) (extend (fn st) c) (gsize st) (cgap st) (queue st) (held st),
   match getf (fn st) c with None => true | Some _ => false end).

Inductive op := AddKey (r : fkey) | IsPumping (c : nat).

Definition step (pick : list nat -> nat) (fuel : nat) (st : tm) (o : op) : option tm :=
  match o with
  | AddKey r => add_rule_key pick fuel st r
  | IsPumping c => Some (fst (is_pumping st c))
  end.

Fixpoint run (pick : list nat -> nat) (fuel : nat) (st : tm) (ops : list op) : option tm :=
  match ops with
  | [] => Some st
  | o :: t => match step pick fuel st o with
              | None => None
              | Some st' => run pick fuel st' t
              end
  end.

(* the keys inserted by a history, in order *)
Definition keys_of (ops : list op) : list fkey :=
  flat_map (fun o => match o with AddKey r => [r] | IsPumping _ => [] end) ops.

(* TableMethod.function : only the non-zero entries *)
Definition function_dict (st : tm) : list (nat * option Z) :=
  filter (fun p => match snd p with Some 0 => false | _ => true end)
         (combine (seq 0 (length (fn st))) (fn st)).

(* TableMethod.pumping_subuniverse, as indices of the inserted keys *)
Definition pumping_subuniverse (st : tm) : list nat :=
  filter (fun i => let r := rule_at st i in
                   match getf (fn st) (parent r) with
                   | None => forallb (fun cs => match getf (fn st) (fst cs) with
                                               | None => true | Some _ => false end) (kids r)
                   | Some _ => false
                   end)
         (seq 0 (length (rules st))).
