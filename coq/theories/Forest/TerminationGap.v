(* Pigeonhole bound on Function.preimage_gap: the first window of g consecutive
   values with empty pre-image starts at most at (number of table entries) * g. *)
From Coq Require Import ZArith List Bool Lia.
From CSS Require Import Base.PyList Forest.Spec Forest.Model Forest.Basics Forest.TerminationDefs.
Import ListNotations.
Open Scope Z_scope.

(* number of non-zero buckets of a histogram *)
Fixpoint nzc (h : list Z) : Z :=
  match h with [] => 0 | v :: t => (if v =? 0 then 0 else 1) + nzc t end.

Lemma nzc_nonneg h : 0 <= nzc h.
Proof. induction h as [|v t IH]; simpl; [lia|destruct (v =? 0); lia]. Qed.

(* between two occupied buckets below the result there are fewer than g empty ones *)
Lemma pg_loop_bound : forall t i last g, 1 <= g -> i - last <= g ->
  pg_loop t i last g <= last + 1 + g * nzc t.
Proof.
  induction t as [|v t IH]; intros i last g Hg Hi; simpl.
  - lia.
  - pose proof (nzc_nonneg t) as Hn. destruct (v =? 0).
    + destruct (g <=? i - last) eqn:E.
      * nia.
      * apply Z.leb_gt in E. specialize (IH (i + 1) last g Hg ltac:(lia)). lia.
    + specialize (IH (i + 1) i g Hg ltac:(lia)). nia.
Qed.

Definition sumZ {A} (w : A -> Z) (l : list A) : Z := fold_right (fun x a => w x + a) 0 l.

Lemma nzc_le_sum {A} (w : A -> Z) (l : list A) : (forall x, 0 <= w x) ->
  nzc (map w l) <= sumZ w l.
Proof.
  intros Hw. induction l as [|a l IH]; simpl; [lia|].
  pose proof (Hw a). destruct (w a =? 0) eqn:E; [|apply Z.eqb_neq in E]; lia.
Qed.

Definition hit (x : option Z) (j : nat) : Z := if is_val (Z.of_nat j) x then 1 else 0.

Lemma count_cons x f j : count (x :: f) (Z.of_nat j) = hit x j + count f (Z.of_nat j).
Proof.
  unfold count, hit. simpl. destruct (is_val (Z.of_nat j) x); simpl length; lia.
Qed.

Lemma count_nonneg f j : 0 <= count f j.
Proof. unfold count. lia. Qed.

Lemma hit_sum_zero x js : (forall j, In j js -> hit x j = 0) -> sumZ (hit x) js = 0.
Proof.
  induction js as [|a js IH]; intros H; simpl; [reflexivity|].
  rewrite (H a) by (left; auto). rewrite IH; [reflexivity|]. intros j Hj. apply H. right; auto.
Qed.

Lemma hit_sum_le_1 x js : NoDup js -> sumZ (hit x) js <= 1.
Proof.
  induction 1 as [|a js Hna Hnd IH]; simpl; [lia|].
  unfold hit at 1. destruct (is_val (Z.of_nat a) x) eqn:E; [|lia].
  rewrite hit_sum_zero; [lia|]. intros j Hj. unfold hit.
  destruct (is_val (Z.of_nat j) x) eqn:E'; auto. exfalso.
  destruct x as [v|]; simpl in E, E'; [|discriminate].
  apply Z.eqb_eq in E, E'. assert (a = j) by lia. subst. contradiction.
Qed.

Lemma count_sum_le f js : NoDup js -> sumZ (fun j => count f (Z.of_nat j)) js <= zl f.
Proof.
  intros Hnd. induction f as [|x f IH].
  - assert (sumZ (fun j => count [] (Z.of_nat j)) js = 0) as E.
    { clear. induction js as [|a js IHj]; simpl; [reflexivity|]. rewrite IHj. reflexivity. }
    rewrite E. unfold zl; simpl; lia.
  - assert (sumZ (fun j => count (x :: f) (Z.of_nat j)) js =
            sumZ (hit x) js + sumZ (fun j => count f (Z.of_nat j)) js) as E.
    { clear. induction js as [|a js IHj]; simpl; [reflexivity|]. rewrite count_cons, IHj. lia. }
    rewrite E. pose proof (hit_sum_le_1 x js Hnd). unfold zl in *. simpl length. lia.
Qed.

Lemma nzc_hist_le f : nzc (hist f) <= zl f.
Proof.
  unfold hist. eapply Z.le_trans.
  - apply nzc_le_sum. intros j. apply count_nonneg.
  - apply count_sum_le. apply seq_NoDup.
Qed.

Theorem preimage_gap_le f g : 1 <= g -> preimage_gap f g <= zl f * g.
Proof.
  intros Hg. unfold preimage_gap.
  pose proof (pg_loop_bound (hist f) 0 (-1) g Hg ltac:(lia)) as H.
  pose proof (nzc_hist_le f) as Hn. pose proof (nzc_nonneg (hist f)). nia.
Qed.
