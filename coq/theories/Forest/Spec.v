(* What "the number of computable terms" MEANS, independently of any algorithm.
   A forest key is (parent, [(child, shift) ...]).  derivable R c v reads
   "the first v terms of class c can be computed from the rules R": it is the
   inductive (= least fixed point) reading of the operator
     Phi(f)(p) = max(0, max_{r for p} min_i (f(c_i) + s_i)).                  *)
From Coq Require Import ZArith List Lia.
Import ListNotations.
Open Scope Z_scope.

Record fkey := mkkey { parent : nat; kids : list (nat * Z) }.

Section Sem.
Variable R : list fkey.

Inductive derivable : nat -> Z -> Prop :=
| der_zero : forall c v, v <= 0 -> derivable c v
| der_rule : forall r v, In r R ->
    (forall c s, In (c, s) (kids r) -> derivable c (v - s)) ->
    derivable (parent r) v.

Definition pumps (c : nat) : Prop := forall v, derivable c v.
Definition terms (c : nat) (n : Z) : Prop := derivable c n /\ ~ derivable c (n + 1).

Lemma derivable_mono : forall c v, derivable c v -> forall w, w <= v -> derivable c w.
Proof.
  induction 1 as [c v Hv | r v Hr Hk IH]; intros w Hw.
  - apply der_zero; lia.
  - apply der_rule; auto. intros c s Hin. apply (IH c s Hin). lia.
Qed.

Lemma terms_unique c n m : terms c n -> terms c m -> n = m.
Proof.
  intros [A B] [C D].
  destruct (Z_lt_le_dec n m); [exfalso; apply B; apply (derivable_mono _ _ C); lia|].
  destruct (Z_lt_le_dec m n); [exfalso; apply D; apply (derivable_mono _ _ A); lia|]. lia.
Qed.

Lemma pumps_not_terms c n : pumps c -> ~ terms c n.
Proof. intros P [_ B]. apply B, P. Qed.

(* a class that is the parent of no rule has no term *)
Lemma derivable_no_rule c v :
  (forall r, In r R -> parent r <> c) -> derivable c v -> v <= 0.
Proof. intros H D. inversion D as [|r ? Hr]; subst; auto. exfalso. eapply H; eauto. Qed.

(* ---------- the gap lemma ----------
   f : current table (None = infinity), sound; g bounds every |shift|;
   no finite value (of a class of the domain) lies in [k, k+g-1]; no rule whose
   parent sits below the gap can fire.  Then every class whose finite value is
   at or above k+g pumps.  This is what makes TableMethod._set_infinite sound. *)
Variable f : nat -> option Z.
Variable dom : nat -> Prop.
Variables k g : Z.
Hypothesis g_pos : 1 <= g.
Hypothesis k_nonneg : 0 <= k.
Hypothesis rules_dom : forall r c s, In r R -> In (c, s) (kids r) -> dom c.
Hypothesis shifts_bounded : forall r c s, In r R -> In (c, s) (kids r) -> - g <= s <= g.
Hypothesis sound_fin : forall c n, f c = Some n -> derivable c n.
Hypothesis sound_inf : forall c, f c = None -> pumps c.
Hypothesis gap_empty : forall c n, dom c -> f c = Some n -> n < k \/ k + g <= n.
Hypothesis fin_nonneg : forall c n, f c = Some n -> 0 <= n.
Hypothesis low_stable : forall r n, In r R -> f (parent r) = Some n -> n < k ->
   exists c s m, In (c, s) (kids r) /\ f c = Some m /\ m + s <= n.

Lemma low_tight : forall c v, derivable c v -> forall n, f c = Some n -> n < k -> v <= n.
Proof.
  induction 1 as [c v Hv | r v Hr Hk IH]; intros n Hf Hn.
  - pose proof (fin_nonneg _ _ Hf). lia.
  - destruct (low_stable r n Hr Hf Hn) as (c & s & m & Hin & Hfc & Hle).
    pose proof (shifts_bounded r c s Hr Hin) as Hs.
    assert (m < k) as Hm.
    { destruct (gap_empty _ _ (rules_dom _ _ _ Hr Hin) Hfc); lia. }
    pose proof (IH c s Hin m Hfc Hm). lia.
Qed.

Lemma high_at_least : forall c v, dom c -> derivable c v -> k <= v -> derivable c (k + g).
Proof.
  intros c v Hdom Hd Hk. destruct (f c) as [n|] eqn:Hf.
  - destruct (gap_empty _ _ Hdom Hf) as [Hlt|Hge].
    + pose proof (low_tight c v Hd n Hf Hlt). lia.
    + eapply derivable_mono. apply (sound_fin _ _ Hf). lia.
  - apply sound_inf; auto.
Qed.

Lemma lift : forall c v, derivable c v -> k + g <= v -> derivable c (v + 1).
Proof.
  induction 1 as [c v Hv | r v Hr Hk IH]; intros Hge.
  - lia.
  - apply der_rule; auto. intros c s Hin.
    pose proof (shifts_bounded r c s Hr Hin) as Hs.
    destruct (Z_le_gt_dec (k + g) (v - s)) as [Hhi|Hlo].
    + replace (v + 1 - s) with (v - s + 1) by lia. apply IH; auto.
    + eapply derivable_mono.
      * apply (high_at_least c (v - s)); [eapply rules_dom; eauto | apply Hk; auto | lia].
      * lia.
Qed.

Theorem gap_lemma : forall c n, f c = Some n -> k + g <= n -> pumps c.
Proof.
  intros c n Hf Hn.
  assert (forall j, 0 <= j -> derivable c (n + j)) as H.
  { intros j Hj. pattern j. apply natlike_ind; auto.
    - replace (n + 0) with n by lia. apply sound_fin; auto.
    - intros x Hx IHx. replace (n + Z.succ x) with (n + x + 1) by lia. apply lift; auto. lia. }
  intros v. destruct (Z_le_gt_dec v n).
  - eapply derivable_mono. apply (sound_fin _ _ Hf). lia.
  - replace v with (n + (v - n)) by lia. apply H. lia.
Qed.
End Sem.

(* monotone in the rule set *)
Lemma derivable_incl R R' : incl R R' -> forall c v, derivable R c v -> derivable R' c v.
Proof.
  intros Hi c v D. induction D as [c v Hv | r v Hr Hk IH].
  - apply der_zero; auto.
  - apply der_rule; auto.
Qed.

Lemma pumps_incl R R' c : incl R R' -> pumps R c -> pumps R' c.
Proof. intros Hi P v. eapply derivable_incl; eauto. Qed.
