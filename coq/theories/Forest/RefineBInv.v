(* The layer-B invariant BInv and the facts about Function (ModelB.fnB) and
   _compute_shift it rests on:
     - the CACHED row of every live rule (finite parent) is what _compute_shift
       would return on the CURRENT value table;
     - _rules_pumping_class[c] / _rules_using_class[c] list exactly the live rules of
       class c / the live (rule, child) pairs whose child c is finite, without duplicates;
     - _preimage_count is the histogram of the finite values, _infinity_count the
       number of infinite ones;
     - no `assert` of the code has failed. *)
From Coq Require Import ZArith List Bool Lia.
From CSS Require Import Base.PyList Forest.Spec Forest.Model Forest.Basics Forest.ModelB
  Forest.GenBridge Forest.RefineBLists.
From CSS Require Import Gen.Prelude Gen.ForestCanGiveTerms Gen.ForestComputeShift.
From CSS Require Gen.ForestPreimageGap.
Import ListNotations.
Open Scope Z_scope.

Definition fB (b : tmB) : vals := fval (b_fn b).
Definition kid_class (r : fkey) (j : nat) : nat := fst (nth j (kids r) (O, 0)).
Definition is_inf (x : option Z) : bool := match x with None => true | Some _ => false end.
Definition count_none (f : vals) : Z := Z.of_nat (length (filter is_inf f)).

Definition FInv (F : fnB) : Prop :=
  (forall j, nth j (fpc F) 0 = count (fval F) (Z.of_nat j)) /\ finf F = count_none (fval F).

Record BInv (b : tmB) : Prop := {
  bi_len : length (b_shifts b) = length (b_rules b);
  bi_rows : forall i, (i < length (b_rules b))%nat -> getf (fB b) (parent (ruleB b i)) <> None ->
            nth i (b_shifts b) [] = source_shifts (fB b) (ruleB b i);
  bi_pump : forall c i, In i (dl_get (b_pumping b) c) <->
            ((i < length (b_rules b))%nat /\ parent (ruleB b i) = c /\ getf (fB b) c <> None);
  bi_pump_nd : forall c, NoDup (dl_get (b_pumping b) c);
  bi_use : forall c i j, In (i, j) (dl_get (b_using b) c) <->
            ((i < length (b_rules b))%nat /\ getf (fB b) (parent (ruleB b i)) <> None /\
             getf (fB b) c <> None /\ (j < length (kids (ruleB b i)))%nat /\
             kid_class (ruleB b i) j = c);
  bi_use_nd : forall c, NoDup (dl_get (b_using b) c);
  bi_fn : FInv (b_fn b);
  bi_ok : b_fail b = false
}.

(* ---------------- Function ---------------- *)
Lemma count_none_app f g : count_none (f ++ g) = count_none f + count_none g.
Proof. unfold count_none. rewrite filter_app, app_length. lia. Qed.

Lemma count_none_repeat k : count_none (repeat (Some 0) k) = 0.
Proof. unfold count_none. induction k; simpl; auto. Qed.

Lemma count_none_upd : forall f c x, (c < length f)%nat ->
  count_none (upd f c x) = count_none f - (if is_inf (getf f c) then 1 else 0) + (if is_inf x then 1 else 0).
Proof.
  unfold upd, getf, count_none. induction f as [|y f IH]; intros [|c] x H; simpl in *; try lia.
  - destruct (is_inf x), (is_inf y); simpl length; lia.
  - specialize (IH c x ltac:(lia)). destruct (is_inf y); simpl length; lia.
Qed.

Lemma fn_extend_id F c : (c < length (fval F))%nat -> fn_extend F c = F.
Proof.
  intros H. unfold fn_extend, extend. replace (S c - length (fval F))%nat with O by lia.
  simpl. rewrite app_nil_r. destruct F; reflexivity.
Qed.

Lemma fn_extend_fval F c : fval (fn_extend F c) = extend (fval F) c.
Proof. reflexivity. Qed.

Lemma fn_extend_inv F c : FInv F -> FInv (fn_extend F c).
Proof.
  intros [Hp Hi]. unfold fn_extend. split; cbn [fval fpc finf].
  - intros j. rewrite count_extend. destruct (S c - length (fval F))%nat as [|k] eqn:Ek.
    + rewrite Hp. destruct (Z.of_nat j =? 0); simpl; lia.
    + rewrite nth_pc_add, Hp. destruct j; simpl; lia.
  - unfold extend. rewrite count_none_app, count_none_repeat. lia.
Qed.

Lemma is_val_of_nat v j : 0 <= v -> is_val (Z.of_nat j) (Some v) = Nat.eqb j (Z.to_nat v).
Proof.
  intros Hv. simpl. destruct (Nat.eqb j (Z.to_nat v)) eqn:E.
  - apply Nat.eqb_eq in E. apply Z.eqb_eq. lia.
  - apply Nat.eqb_neq in E. apply Z.eqb_neq. lia.
Qed.

Lemma fn_increase_spec F c v : FInv F -> (c < length (fval F))%nat -> getf (fval F) c = Some v -> 0 <= v ->
  fval (fn_increase F c) = upd (fval F) c (Some (v + 1)) /\ FInv (fn_increase F c).
Proof.
  intros [Hp Hi] Hc Hv Hv0. unfold fn_increase. rewrite (fn_extend_id F c Hc), Hv.
  split; [reflexivity|]. split; cbn [fval fpc finf].
  - intros j. rewrite !nth_pc_add, Hp, count_upd by auto. rewrite Hv.
    rewrite (is_val_of_nat v j Hv0), (is_val_of_nat (v + 1) j ltac:(lia)).
    destruct (Nat.eqb j (Z.to_nat v)), (Nat.eqb j (Z.to_nat (v + 1))); lia.
  - rewrite count_none_upd by auto. rewrite Hv. simpl. lia.
Qed.

Lemma fn_set_infinite_spec F c v : FInv F -> (c < length (fval F))%nat -> getf (fval F) c = Some v -> 0 <= v ->
  fval (fn_set_infinite F c) = upd (fval F) c None /\ FInv (fn_set_infinite F c).
Proof.
  intros [Hp Hi] Hc Hv Hv0. unfold fn_set_infinite. rewrite (fn_extend_id F c Hc), Hv.
  split; [reflexivity|]. split; cbn [fval fpc finf].
  - intros j. rewrite nth_pc_add, Hp, count_upd by auto. rewrite Hv.
    rewrite (is_val_of_nat v j Hv0). simpl. destruct (Nat.eqb j (Z.to_nat v)); lia.
  - rewrite count_none_upd by auto. rewrite Hv, Hi. simpl. lia.
Qed.

(* the gap search on the incrementally maintained counts = the gap search of layer A *)
Lemma fn_preimage_gap_spec F g : FInv F -> fn_preimage_gap F g = Model.preimage_gap (fval F) g.
Proof.
  intros [Hp _]. unfold fn_preimage_gap, Model.preimage_gap, ForestPreimageGap.preimage_gap, py_enumerate.
  rewrite pg_loop_is_source. apply pg_loop_pointwise. intros j. rewrite Hp, nth_hist. reflexivity.
Qed.

(* ---------------- _compute_shift ---------------- *)
Definition sh_entry (f : vals) (r : fkey) (p : Z) (k : nat) : option Z :=
  match nth_error (kids r) k with
  | Some cs => match getf f (fst cs) with Some m => Some (m + snd cs - p) | None => None end
  | None => None
  end.

Lemma source_shifts_live f r p : getf f (parent r) = Some p ->
  source_shifts f r =
  map (fun cs => match getf f (fst cs) with Some m => Some (m + snd cs - p) | None => None end) (kids r).
Proof.
  intros Hp. unfold source_shifts, compute_shift. rewrite Hp. cbn [is_none py_unopt].
  rewrite combine_map_fst_snd, map_map. apply map_ext. intros [c s]. cbn [fst snd].
  destruct (getf f c); reflexivity.
Qed.

Lemma source_shifts_length f r : length (source_shifts f r) = length (kids r).
Proof.
  unfold source_shifts, compute_shift. destruct (getf f (parent r)); cbn [is_none].
  - rewrite map_length, combine_length, !map_length. lia.
  - rewrite !map_length. reflexivity.
Qed.

Lemma source_shifts_entry f r p k : getf f (parent r) = Some p ->
  nth k (source_shifts f r) None = sh_entry f r p k.
Proof.
  intros Hp. rewrite (source_shifts_live f r p Hp). unfold sh_entry.
  generalize (kids r). intros l. revert k. induction l as [|a l IH]; intros [|k]; simpl; auto.
Qed.

Lemma source_shifts_ext f f' r :
  getf f (parent r) = getf f' (parent r) ->
  (forall c s, In (c, s) (kids r) -> getf f c = getf f' c) ->
  source_shifts f r = source_shifts f' r.
Proof.
  intros Hp Hk. unfold source_shifts. rewrite Hp. f_equal.
  apply map_ext_in. intros [c s] Hin. simpl. apply (Hk c s Hin).
Qed.

Lemma kid_class_nth r k cs : nth_error (kids r) k = Some cs -> kid_class r k = fst cs /\ (k < length (kids r))%nat.
Proof.
  intros H. split.
  - unfold kid_class. rewrite (nth_error_nth _ _ _ H). reflexivity.
  - apply nth_error_Some. congruence.
Qed.

Lemma nth_error_kid_In r k cs : nth_error (kids r) k = Some cs -> In (fst cs, snd cs) (kids r).
Proof. intros H. destruct cs. simpl. eapply nth_error_In; eauto. Qed.

(* the firing test on a cached row = layer A's firing test, for a live rule *)
Lemma can_give_source f r p : getf f (parent r) = Some p ->
  can_give_terms (source_shifts f r) = can_fire f r.
Proof. intros Hp. symmetry. apply (can_fire_is_source f r p Hp). Qed.

(* ---------------- views ---------------- *)
Lemma absB_with_queue b q : absB (with_queue b q) = mktm (b_rules b) (fB b) (b_gsize b) (b_cgap b) q (b_held b).
Proof. reflexivity. Qed.

Lemma BInv_with_queue b q : BInv b -> BInv (with_queue b q).
Proof. intros I. constructor; try apply I. Qed.

Lemma BInv_with_held b h : BInv b -> BInv (with_held b h).
Proof. intros I. constructor; try apply I. Qed.

Lemma BInv_init : BInv initB.
Proof.
  constructor; simpl; auto.
  - intros i Hi. lia.
  - intros c i. unfold dl_get. destruct c; simpl; split; try tauto; intros (H & _); lia.
  - intros c. unfold dl_get. destruct c; constructor.
  - intros c i j. unfold dl_get. destruct c; simpl; split; try tauto; intros (H & _); lia.
  - intros c. unfold dl_get. destruct c; constructor.
  - split; simpl; auto. intros j. destruct j; reflexivity.
Qed.
