(* "Exactly one rule per class" for the keys returned by the extractor model:
   Positional.minimal_one_rule_per_class applied to C11_productive + C11_minimal. *)
From Coq Require Import ZArith List Bool Lia.
From CSS Require Import Forest.Spec Forest.Model Forest.Basics Forest.Invariant Forest.Correct
  Forest.Theorems Forest.Run Forest.Extractor Forest.ExtractorProofs Forest.ExtractorRun
  Forest.ExtractorTheorems Forest.Positional.
Import ListNotations.

Lemma map_remove_at (ks : list bkey) i :
  map bk_key (remove_at i ks) = remove_at i (map bk_key ks).
Proof. unfold remove_at. rewrite map_app, firstn_map, skipn_map. reflexivity. Qed.

(* a terminating run of the table method decides the value of every class *)
Lemma run_valued pick fuel (ks : list bkey) st :
  run pick fuel init (add_ops ks) = Some st -> forall c, valued (map bk_key ks) c.
Proof.
  intros H c. destruct (run_init_rules _ _ _ _ H) as [F R]. rewrite keys_of_add_ops in R.
  destruct (final_sound_complete st F c) as [A B]. rewrite R in A, B.
  destruct (getf (fn st) c) as [n|] eqn:E.
  - right. exists n. apply B. reflexivity.
  - left. apply A. reflexivity.
Qed.

Section Extract.
Variables (fuel root : nat) (ks res : list bkey).
Hypothesis buckets_ok : forall k, In k ks -> (bk_bucket k < 4)%nat.
Hypothesis Hex : extract fuel root ks = Ok res.
Hypothesis Hroot : Pk root ks.

Lemma res_minimal : forall i, (i < length (map bk_key res))%nat ->
  ~ pumps (firstn i (map bk_key res) ++ skipn (S i) (map bk_key res)) root.
Proof.
  intros i Hi. rewrite map_length in Hi.
  pose proof (extract_minimal fuel root ks res Hex i Hi) as M. unfold Pk in M.
  fold (remove_at i res) in M. rewrite map_remove_at in M. exact M.
Qed.

(* uses Classical_Prop.classic (through Positional.minimal_one_rule_per_class) *)
Theorem extract_one_rule_per_class :
  forall i j, (i < length res)%nat -> (j < length res)%nat ->
    parent (bk_key (nth i res (mkb dummy 0))) = parent (bk_key (nth j res (mkb dummy 0))) -> i = j.
Proof.
  intros i j Hi Hj E.
  apply (minimal_one_rule_per_class (map bk_key res) root
           (extract_productive fuel root ks res buckets_ok Hex Hroot) res_minimal);
    rewrite ?map_length, ?nth_bk; auto.
Qed.

(* axiom free, given that the table method terminates on the result with one
   key removed (these are not runs the extractor itself performs) *)
Theorem extract_one_rule_per_class_runs :
  (forall i, (i < length res)%nat ->
     exists pick' fuel' st, run pick' fuel' init (add_ops (remove_at i res)) = Some st) ->
  forall i j, (i < length res)%nat -> (j < length res)%nat ->
    parent (bk_key (nth i res (mkb dummy 0))) = parent (bk_key (nth j res (mkb dummy 0))) -> i = j.
Proof.
  intros Hruns i j Hi Hj E.
  apply (minimal_one_rule_per_class_valued (map bk_key res) root); 
    rewrite ?map_length, ?nth_bk; auto.
  - intros k c Hk. destruct (Hruns k Hk) as (pk & fl & st & Hr).
    rewrite <- map_remove_at. apply (run_valued pk fl _ st Hr).
  - apply (extract_productive fuel root ks res buckets_ok Hex Hroot).
  - intros k Hk. apply res_minimal. rewrite map_length; auto.
Qed.
End Extract.
