(* What the harness runs (Forest/Run.v): the list of observable answers of the
   extracted layer-B model, operation by operation, IS the list of observable
   answers of the extracted layer-A model — hence never "out of fuel" (-1) and
   never "assertion failed" (-2).  The verdicts on the internals (second
   component of run_obsB) do not enter any theorem: they are informational. *)
From Coq Require Import ZArith List Bool Lia Permutation.
From CSS Require Import Base.Sx Base.PyList Forest.Spec Forest.Model Forest.Basics Forest.Invariant
  Forest.Correct Forest.Theorems Forest.TerminationDefs Forest.TerminationRun Forest.ModelB
  Forest.SchedDefs Forest.SchedInvariant Forest.SchedCorrect Forest.SchedTermination
  Forest.RefineBInv Forest.RefineBSteps Forest.RefineB Forest.Run.
Import ListNotations.
Open Scope Z_scope.

(* two quiescent states over the same rules hold the same values *)
Lemma final_getf_eq b st : FinalS (absB b) -> Final st -> b_rules b = rules st ->
  forall c, getf (fB b) c = getf (fn st) c.
Proof.
  intros F F' E.
  apply (value_determined (rules st) (rules st)).
  - intros c. rewrite <- E. apply (final_sound_complete_s (absB b) F c).
  - intros c. apply (final_sound_complete st F' c).
  - intros c v. reflexivity.
Qed.

Lemma obs_eq fb fa : forall ops b st ints bf sf,
  runB pick0 ord_id fb b ops = Some bf -> run pick0 fa st ops = Some sf ->
  BInv b -> FinalS (absB b) -> Final st -> b_rules b = rules st ->
  fst (run_obsB fb b ops ints) = run_obs fa st ops.
Proof.
  induction ops as [|o ops IH]; intros b st ints bf sf HB HA I F F' E; [reflexivity|].
  simpl in HB, HA.
  destruct (stepB pick0 ord_id fb b o) as [b1|] eqn:EB; [|discriminate].
  destruct (step pick0 fa st o) as [st1|] eqn:EA; [|discriminate].
  destruct o as [r|c]; simpl in EB, EA.
  - (* insertion of a key *)
    assert (runB pick0 ord_id fb b [AddKey r] = Some b1) as H1 by (simpl; rewrite EB; reflexivity).
    destruct (runB_sim pick0 ord_id fb perm_ok_id [AddKey r] b b1 I F H1) as [R1 I1].
    destruct (sruns_final _ _ _ R1 F) as [F1 E1].
    destruct (add_rule_key_final pick0 fa st r st1 F' EA) as [F1' E1'].
    assert (b_rules b1 = rules st1) as Er.
    { cbn [absB rules] in E1. rewrite E1, E1', E. reflexivity. }
    pose proof (final_getf_eq b1 st1 F1 F1' Er) as Hg.
    cbn [run_obsB run_obs]. rewrite EB, EA. rewrite (bi_ok b1 I1).
    specialize (IH b1 st1 (tl ints) bf sf HB HA I1 F1 F1' Er).
    destruct (run_obsB fb b1 ops (tl ints)) as [os vs]. cbn [fst] in *. rewrite IH. f_equal.
    unfold enc_funB, enc_fun, function_dictB, pumping_subuniverseB.
    rewrite (function_dict_getf (absB b1) st1 Hg).
    rewrite (pumping_subuniverse_getf (absB b1) st1 Er Hg). reflexivity.
  - (* query *)
    injection EB as <-. injection EA as <-.
    destruct (is_pumpingB_sim b c I) as (Ea & _ & I1).
    destruct (is_pumping_final_s (absB b) c F) as [F1 _]. rewrite <- Ea in F1.
    destruct (is_pumping_final st c F') as (F1' & E1' & _).
    assert (b_rules (fst (is_pumpingB b c)) = rules (fst (is_pumping st c))) as Er by (simpl; exact E).
    pose proof (final_getf_eq b st F F' E c) as Hg.
    cbn [run_obsB run_obs]. unfold is_pumpingB at 1, is_pumping at 1.
    specialize (IH _ _ (tl ints) bf sf HB HA I1 F1 F1' Er).
    unfold is_pumpingB, is_pumping in IH. cbn [fst] in IH.
    destruct (run_obsB fb (with_fn b (fn_extend (b_fn b) c)) ops (tl ints)) as [os vs]. cbn [fst] in *.
    rewrite IH. change (fval (b_fn b)) with (fB b). rewrite Hg. reflexivity.
Qed.

(* the observable output of layer B = the observable output of layer A, for every history
   (and whatever internals the harness supplies for the informational comparison) *)
Theorem run_obsB_is_run_obs ops ints :
  fst (run_obsB (fuel_forB ops) initB ops ints) = run_obs (fuel_for ops) init ops.
Proof.
  destruct (runB_terminates pick0 ord_id ops (fuel_forB ops) perm_ok_id (Nat.le_refl _)) as [bf HB].
  destruct (run_terminates pick0 ops (fuel_for ops) (Nat.le_refl _)) as [sf HA].
  apply (obs_eq _ _ ops initB init ints bf sf HB HA BInv_init).
  - rewrite absB_init. apply FinalS_init.
  - apply Final_init.
  - reflexivity.
Qed.

Theorem run_obsB_never_out_of_fuel ops ints :
  ~ In (L [I (-1)]) (fst (run_obsB (fuel_forB ops) initB ops ints)).
Proof. rewrite run_obsB_is_run_obs. apply run_obs_never_out_of_fuel. Qed.

Lemma run_obs_no_assert fuel : forall ops st, ~ In (L [I (-2)]) (run_obs fuel st ops).
Proof.
  induction ops as [|o ops IH]; intros st; simpl; [tauto|].
  destruct o as [r|c].
  - destruct (add_rule_key pick0 fuel st r) as [st'|].
    + intros [A|A]; [discriminate|]. exact (IH _ A).
    + intros [A|[]]. discriminate.
  - intros [A|A]; [destruct (getf (fn st) c); discriminate|]. exact (IH _ A).
Qed.

Theorem run_obsB_never_asserts ops ints :
  ~ In (L [I (-2)]) (fst (run_obsB (fuel_forB ops) initB ops ints)).
Proof. rewrite run_obsB_is_run_obs. apply run_obs_no_assert. Qed.
