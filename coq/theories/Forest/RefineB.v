(* C03_B_refines_A: the incremental table method AS THE CODE RUNS IT (layer B,
   ModelB.v: cached _shifts updated by -1/+1/None, the two indices, the
   incrementally maintained _preimage_count, the code's queue with duplicates)
   refines the schedule-parametric layer S (SchedDefs.v) in lock step:

     every iteration of _process_queue of layer B, viewed through absB (forget the
     cache and the indices; value table, gap, queue and held set are kept as they
     are), IS an iteration of layer S, and the layer-B invariant BInv
     (RefineBInv.v: cached rows = _compute_shift of the current table for every live
     rule; the two indices = exactly the live (rule, child) pairs; _preimage_count =
     histogram; no assertion failed) is preserved.

   Since every run of layer S computes the least fixed point (SchedCorrect.v) and
   terminates within fuel_boundS (SchedTermination.v), and layer A is a run of
   layer S too, the observable answers of B and A coincide after every operation,
   for every resolution of set.pop() (pick) and of the set iteration order (ord),
   and all C03 theorems hold for layer B. *)
From Coq Require Import ZArith List Bool Lia Permutation.
From CSS Require Import Base.PyList Forest.Spec Forest.Model Forest.Basics Forest.Invariant
  Forest.Correct Forest.Theorems Forest.TerminationDefs Forest.TerminationGap Forest.Termination
  Forest.TerminationRun Forest.ModelB Forest.GenBridge
  Forest.SchedDefs Forest.SchedInvariant Forest.SchedCorrect Forest.SchedTermination
  Forest.RefineBLists Forest.RefineBInv Forest.RefineBSteps.
From CSS Require Import Gen.Prelude Gen.ForestCanGiveTerms.
Import ListNotations.
Open Scope Z_scope.

(* ---- one iteration of the `while` loop of _process_queue, layer B ---- *)
Definition pstepB (pick : list nat -> nat) (ord : list nat -> list nat) (b : tmB) : option tmB :=
  match b_queue b with
  | i :: q =>
      let b1 := with_queue b q in
      Some (if can_give_terms (nth i (b_shifts b1) [])
            then increase_valueB ord b1 (parent (ruleB b1 i)) i
            else b1)
  | [] =>
      match b_held b with
      | [] => None
      | _ =>
          let n := Nat.modulo (pick (b_held b)) (length (b_held b)) in
          let i := nth n (b_held b) O in
          let b1 := with_held b (remove_at n (b_held b)) in
          Some (set_infiniteB b1 (parent (ruleB b1 i)))
      end
  end.

Lemma processB_unfold pick ord fuel b :
  processB pick ord (S fuel) b =
  match pstepB pick ord b with None => Some b | Some b' => processB pick ord fuel b' end.
Proof.
  unfold pstepB. simpl. destruct (b_queue b); [|reflexivity]. destruct (b_held b); reflexivity.
Qed.

(* ---- LOCK STEP: an iteration of layer B is an iteration of layer S ---- *)
Theorem pstepB_sim pick ord b b' : perm_ok ord -> BInv b -> InvS (absB b) [] ->
  pstepB pick ord b = Some b' -> sstep (absB b) (absB b') /\ BInv b'.
Proof.
  intros Hord I (C & W & G) H. unfold pstepB in H.
  destruct (b_queue b) as [|i q] eqn:Eq.
  - (* pop from the held set *)
    destruct (b_held b) as [|h0 hs] eqn:Eh; [discriminate|]. rewrite <- Eh in H.
    set (n := Nat.modulo (pick (b_held b)) (length (b_held b))) in *.
    assert (n < length (b_held b))%nat as Hn.
    { apply Nat.mod_upper_bound. rewrite Eh. simpl. lia. }
    set (i := nth n (b_held b) O) in *.
    set (b1 := with_held b (remove_at n (b_held b))) in *.
    injection H as <-.
    assert (In i (b_held b)) as Hi by (apply nth_In; auto).
    assert (i < length (b_rules b))%nat as Hil by (apply (proj2 (s_idx _ C) i Hi)).
    set (c := parent (ruleB b1 i)).
    assert (c < length (fB b))%nat as Hc.
    { apply (s_dom _ C (ruleB b i)). apply (rule_at_In (absB b) i Hil). }
    destruct (set_infiniteB_sim b1 c (BInv_with_held b _ I) Eq Hc) as (l & Ea & Hrq & I').
    { intros v Hv. split.
      - apply (s_fin _ C c v Hv).
      - apply (s_held _ C i Hi v Hv). }
    split; [|exact I'].
    assert (absB b1 = mktm (rules (absB b)) (fn (absB b)) (gsize (absB b)) (cgap (absB b)) []
                           (remove_at n (held (absB b)))) as Eb1.
    { unfold b1, absB. cbn. rewrite Eq. reflexivity. }
    rewrite Ea, Eb1.
    apply (ss_inf (absB b) n l Eq Hn).
    intros Hl. apply (rq_ok_rules (absB b1) (absB b)); [reflexivity|]. apply Hrq. exact Hl.
  - (* pop from the queue *)
    injection H as <-.
    assert (i < length (b_rules b))%nat as Hi by (apply (proj1 (s_idx _ C)); cbn [absB queue]; rewrite Eq; left; auto).
    set (b1 := with_queue b q).
    set (c := parent (ruleB b1 i)).
    assert (c < length (fB b))%nat as Hc.
    { apply (s_dom _ C (ruleB b i)). apply (rule_at_In (absB b) i Hi). }
    cbn [with_queue b_shifts].
    destruct (getf (fB b) c) as [p|] eqn:Hp.
    + (* live rule: the cached row IS _compute_shift of the current table *)
      assert (nth i (b_shifts b) [] = source_shifts (fB b) (ruleB b i)) as Hrow.
      { apply (bi_rows b I i Hi). change (getf (fB b) c <> None). congruence. }
      change (parent (ruleB b i)) with c in *. rewrite Hrow, (can_give_source (fB b) (ruleB b i) p Hp).
      destruct (can_fire (fB b) (ruleB b i)) eqn:Ef.
      * destruct (increase_valueB_sim ord b1 i (BInv_with_queue b q I) Hi Ef Hc) as (l & Ea & Hrq & I').
        { intros v Hv. apply (s_fin _ C c v Hv). }
        fold c in Ea, Hrq, I'. split; [|exact I']. rewrite Ea.
        apply (ss_fire (absB b) i q (ord (b_held b)) l Eq Ef (Hord _)).
        intros v Hv. apply (rq_ok_rules (absB b1) (absB b)); [reflexivity|]. apply Hrq. exact Hv.
      * split; [|apply BInv_with_queue; exact I]. apply (ss_skip (absB b) i q Eq Ef).
    + (* the parent is already infinite: whatever the stale row says, nothing happens *)
      assert (can_fire (fB b) (ruleB b i) = false) as Ef.
      { unfold can_fire. change (parent (ruleB b i)) with c. rewrite Hp. reflexivity. }
      assert ((if can_give_terms (nth i (b_shifts b) [])
               then increase_valueB ord b1 c i else b1) = b1) as ->.
      { destruct (can_give_terms (nth i (b_shifts b) [])); auto.
        apply increase_valueB_dead; auto. }
      split; [|apply BInv_with_queue; exact I]. apply (ss_skip (absB b) i q Eq Ef).
Qed.

Theorem processB_sim pick ord : perm_ok ord -> forall fuel b b', BInv b -> InvS (absB b) [] ->
  processB pick ord fuel b = Some b' -> sproc (absB b) (absB b') /\ BInv b'.
Proof.
  intros Hord. induction fuel as [|fuel IH]; intros b b' I V H; [discriminate|].
  rewrite processB_unfold in H. destruct (pstepB pick ord b) as [b1|] eqn:E.
  - destruct (pstepB_sim pick ord b b1 Hord I V E) as [S1 I1].
    destruct (sstep_inv _ _ V S1) as [V1 _].
    destruct (IH b1 b' I1 V1 H) as ((A & B & D) & I').
    split; auto. split; [|auto]. eapply sstar_step; eauto.
  - injection H as <-. unfold pstepB in E.
    destruct (b_queue b) eqn:Eq; [|discriminate]. destruct (b_held b) eqn:Eh; [|discriminate].
    split; auto. split; [apply sstar_refl|auto].
Qed.

(* ---- whole histories: layer B is a run of layer S, and BInv holds between operations ---- *)
Theorem runB_sim pick ord fuel : perm_ok ord -> forall ops b b', BInv b -> FinalS (absB b) ->
  runB pick ord fuel b ops = Some b' -> sruns (absB b) ops (absB b') /\ BInv b'.
Proof.
  intros Hord. induction ops as [|o ops IH]; intros b b' I F H; simpl in H.
  - injection H as <-. split; auto. constructor.
  - destruct (stepB pick ord fuel b o) as [b1|] eqn:E; [|discriminate].
    destruct o as [r|c]; simpl in E.
    + unfold add_rule_keyB in E.
      destruct (pre_processB_sim ord b r I) as (Ea & Hext & I3).
      destruct (pre_process_s_inv (absB b) r _ (ord (b_held b)) F Hext (Hord _)) as [V3 _].
      rewrite <- Ea in V3.
      destruct (processB_sim pick ord Hord fuel _ b1 I3 V3 E) as (P1 & I1).
      destruct (sproc_final _ _ V3 P1) as [F1 _].
      destruct (IH b1 b' I1 F1 H) as [R' I'].
      split; auto. rewrite Ea in P1. eapply sr_add; eauto.
    + injection E as <-. destruct (is_pumpingB_sim b c I) as (Ea & _ & I1).
      destruct (is_pumping_final_s (absB b) c F) as [F1 _]. rewrite <- Ea in F1.
      destruct (IH _ b' I1 F1 H) as [R' I'].
      split; auto. apply sr_query. rewrite <- Ea. exact R'.
Qed.

Lemma absB_init : absB initB = init.
Proof. reflexivity. Qed.

Theorem B_refines_S pick ord fuel ops b : perm_ok ord ->
  runB pick ord fuel initB ops = Some b -> sruns init ops (absB b) /\ BInv b.
Proof.
  intros Hord H. rewrite <- absB_init. apply (runB_sim pick ord fuel Hord ops initB b BInv_init); auto.
  rewrite absB_init. apply FinalS_init.
Qed.

(* no `assert` of the code ever fails *)
Theorem runB_never_asserts pick ord fuel ops b : perm_ok ord ->
  runB pick ord fuel initB ops = Some b -> b_fail b = false.
Proof. intros Hord H. apply (bi_ok b (proj2 (B_refines_S pick ord fuel ops b Hord H))). Qed.

(* ---------------- TERMINATION of layer B ---------------- *)
Theorem processB_terminates pick ord : perm_ok ord -> forall fuel b, BInv b -> TInvS (absB b) ->
  mu_s (absB b) < Z.of_nat fuel -> exists b', processB pick ord fuel b = Some b'.
Proof.
  intros Hord. induction fuel as [|fuel IH]; intros b I T Hmu.
  - pose proof (mu_s_nonneg (absB b)). simpl in Hmu. lia.
  - rewrite processB_unfold. destruct (pstepB pick ord b) as [b1|] eqn:E.
    + destruct (pstepB_sim pick ord b b1 Hord I (proj1 T) E) as [S1 I1].
      destruct (sstep_decreases _ _ T S1) as (T1 & _ & Hlt).
      apply IH; auto. lia.
    + exists b. reflexivity.
Qed.

Lemma processB_fuel_mono pick ord : forall fuel fuel' b b',
  processB pick ord fuel b = Some b' -> (fuel <= fuel')%nat -> processB pick ord fuel' b = Some b'.
Proof.
  induction fuel as [|fuel IH]; intros fuel' b b' H Hle; [discriminate|].
  destruct fuel' as [|fuel']; [lia|].
  rewrite processB_unfold in *. destruct (pstepB pick ord b) as [b1|]; auto.
  apply (IH fuel' b1 b' H). lia.
Qed.

Lemma runB_fuel_mono pick ord fuel fuel' : forall ops b b',
  runB pick ord fuel b ops = Some b' -> (fuel <= fuel')%nat -> runB pick ord fuel' b ops = Some b'.
Proof.
  induction ops as [|o ops IH]; intros b b' H Hle; simpl in *; auto.
  destruct (stepB pick ord fuel b o) as [b1|] eqn:E; [|discriminate].
  assert (stepB pick ord fuel' b o = Some b1) as E'.
  { destruct o as [r|c]; simpl in *; auto. unfold add_rule_keyB in *. eapply processB_fuel_mono; eauto. }
  rewrite E'. eauto.
Qed.

Lemma runB_terminates_gen pick ord fuel R K n g : perm_ok ord -> pbound_s R K n g <= Z.of_nat fuel ->
  forall ops b, BInv b -> TFinalS (absB b) ->
    zl (b_rules b) + zl (keys_of ops) <= R -> slots (b_rules b) + slots (keys_of ops) <= K ->
    zl (fB b) <= n -> b_gsize b <= g ->
    Forall (op_ok n g) ops ->
    exists b', runB pick ord fuel b ops = Some b'.
Proof.
  intros Hord Hfuel. induction ops as [|o ops IH]; intros b I T HR HK Hn Hg Hok; simpl.
  - eauto.
  - inversion Hok as [|? ? Ho Hok']; subst. destruct o as [r|c]; simpl in Ho.
    + destruct Ho as (Hp & Hk & Hs). rewrite keys_of_cons_add in HR, HK.
      assert (zl (r :: keys_of ops) = 1 + zl (keys_of ops)) as El by (unfold zl; simpl length; lia).
      rewrite slots_keys_cons in HK.
      pose proof (zl_nonneg (keys_of ops)) as Hk0. pose proof (slots_nonneg (keys_of ops)) as HK0.
      pose proof (zl_nonneg (kids r)) as Hkr.
      destruct (pre_processB_sim ord b r I) as (Ea & Hext & I3).
      set (f1 := fval (fn_extend_key (b_fn b) r)) in *.
      assert (zl f1 <= n) as Hn1.
      { destruct Hext as (_ & _ & Hle & _).
        pose proof (extend_key_len_le (fB b) r n Hn Hp Hk) as H1. unfold zl in *. lia. }
      destruct (pre_process_s_TInv (absB b) r f1 (ord (b_held b)) R K n g T Hext (Hord _))
        as [T3 Hmu]; cbn [absB rules gsize]; try lia.
      rewrite <- Ea in T3, Hmu.
      destruct (processB_terminates pick ord Hord fuel _ I3 T3 ltac:(lia)) as [b1 E].
      unfold add_rule_keyB. simpl. unfold add_rule_keyB. rewrite E.
      destruct (processB_sim pick ord Hord fuel _ b1 I3 (proj1 T3) E) as (P1 & I1).
      destruct (sproc_TFinal _ _ T3 P1) as [T1 (S1 & S2 & S3)].
      rewrite Ea in S1, S2, S3.
      destruct (pre_process_s_inv (absB b) r f1 (ord (b_held b)) (proj1 T) Hext (Hord _)) as [_ R3].
      destruct (pre_process_s_fields (absB b) r f1 (ord (b_held b)) (proj1 T) (proj2 T) Hext (Hord _))
        as (Ef & Eg & _).
      cbn [absB rules gsize fn] in S1, S2, S3. rewrite R3 in S1. rewrite Eg in S2. rewrite Ef in S3.
      cbn [absB rules gsize fn] in S1, S2.
      apply IH; auto.
      * rewrite S1. unfold zl in *. rewrite app_length. simpl length. lia.
      * rewrite S1, slots_app. change (slots [r]) with (1 + zl (kids r) + 0). lia.
      * unfold fB, zl in *. rewrite S3. exact Hn1.
      * rewrite S2. lia.
    + rewrite keys_of_cons_q in HR, HK. simpl.
      destruct (is_pumpingB_sim b c I) as (Ea & _ & I1).
      apply IH; auto.
      * exact (is_pumping_TFinalS (absB b) c T).
      * unfold is_pumpingB, fB; simpl. apply extend_len_le; auto.
Qed.

Theorem runB_terminates pick ord ops fuel : perm_ok ord -> (fuel_boundS ops <= fuel)%nat ->
  exists b, runB pick ord fuel initB ops = Some b.
Proof.
  intros Hord Hf.
  apply (runB_terminates_gen pick ord fuel (zl (keys_of ops)) (slots (keys_of ops))
           (max_label ops + 1) (max_shift ops) Hord).
  - unfold fuel_boundS, fuel_boundSZ in Hf. lia.
  - apply BInv_init.
  - rewrite absB_init. apply TFinalS_init.
  - simpl. lia.
  - simpl. lia.
  - pose proof (max_label_lb ops). unfold zl; simpl. lia.
  - simpl. apply max_shift_pos.
  - apply ops_ok.
Qed.

(* layer B with enough fuel: a total function of (pick, ord, history) *)
Definition runB_total pick ord (ops : list op) : tmB :=
  match runB pick ord (fuel_boundS ops) initB ops with Some b => b | None => initB end.

Theorem runB_total_spec pick ord ops : perm_ok ord ->
  runB pick ord (fuel_boundS ops) initB ops = Some (runB_total pick ord ops).
Proof.
  intros Hord. unfold runB_total.
  destruct (runB_terminates pick ord ops (fuel_boundS ops) Hord (Nat.le_refl _)) as [b H].
  rewrite H. reflexivity.
Qed.

Theorem runB_some_is_total pick ord fuel ops b : perm_ok ord ->
  runB pick ord fuel initB ops = Some b -> b = runB_total pick ord ops.
Proof.
  intros Hord H.
  pose proof (runB_fuel_mono pick ord fuel (Nat.max fuel (fuel_boundS ops)) ops initB b H (Nat.le_max_l _ _)) as A.
  pose proof (runB_fuel_mono pick ord _ (Nat.max fuel (fuel_boundS ops)) ops initB _
                (runB_total_spec pick ord ops Hord) (Nat.le_max_r _ _)) as B.
  congruence.
Qed.

Lemma perm_ok_id : perm_ok ord_id.
Proof. intros l. apply Permutation_refl. Qed.

(* ---------------- the C03 theorems for layer B ---------------- *)
Theorem B_sound_complete pick ord fuel ops b : perm_ok ord ->
  runB pick ord fuel initB ops = Some b ->
  forall c, (pumping_answerB b c = true <-> pumps (keys_of ops) c) /\
            (forall n, getf (fB b) c = Some n <-> terms (keys_of ops) c n).
Proof.
  intros Hord H c. destruct (B_refines_S pick ord fuel ops b Hord H) as [R _].
  exact (S_sound_complete ops (absB b) R c).
Qed.

Theorem B_order_independent pick ord fuel pick' ord' fuel' ops ops' b b' : perm_ok ord -> perm_ok ord' ->
  runB pick ord fuel initB ops = Some b -> runB pick' ord' fuel' initB ops' = Some b' ->
  (forall r, In r (keys_of ops) <-> In r (keys_of ops')) ->
  forall c, getf (fB b) c = getf (fB b') c.
Proof.
  intros Hord Hord' H H' E.
  destruct (B_refines_S _ _ _ _ _ Hord H) as [R _]. destruct (B_refines_S _ _ _ _ _ Hord' H') as [R' _].
  exact (S_order_independent ops ops' (absB b) (absB b') R R' E).
Qed.

Theorem B_monotone pick ord fuel pick' ord' fuel' ops ops' b b' : perm_ok ord -> perm_ok ord' ->
  runB pick ord fuel initB ops = Some b -> runB pick' ord' fuel' initB ops' = Some b' ->
  incl (keys_of ops) (keys_of ops') ->
  forall c, match getf (fB b) c, getf (fB b') c with
            | None, None => True
            | None, Some _ => False
            | Some n, Some m => n <= m
            | Some _, None => True
            end.
Proof.
  intros Hord Hord' H H' E.
  destruct (B_refines_S _ _ _ _ _ Hord H) as [R _]. destruct (B_refines_S _ _ _ _ _ Hord' H') as [R' _].
  exact (S_monotone ops ops' (absB b) (absB b') R R' E).
Qed.

Theorem B_subuniverse_spec pick ord fuel ops b : perm_ok ord ->
  runB pick ord fuel initB ops = Some b ->
  forall i, In i (pumping_subuniverseB b) <->
    (i < length (keys_of ops))%nat /\
    let r := nth i (keys_of ops) dummy in
    pumps (keys_of ops) (parent r) /\ forall c s, In (c, s) (kids r) -> pumps (keys_of ops) c.
Proof.
  intros Hord H. destruct (B_refines_S _ _ _ _ _ Hord H) as [R _].
  exact (S_subuniverse_spec ops (absB b) R).
Qed.

(* ---------------- B and A give the same observable answers ---------------- *)
Definition fdict_from (k : nat) (f : vals) : list (nat * option Z) :=
  filter (fun p => match snd p with Some 0 => false | _ => true end) (combine (seq k (length f)) f).

Lemma fdict_zeros : forall f k, (forall c, nth c f (Some 0) = Some 0) -> fdict_from k f = [].
Proof.
  induction f as [|x f IH]; intros k H; [reflexivity|].
  unfold fdict_from. cbn [length seq combine filter snd].
  pose proof (H O) as H0. simpl in H0. subst x.
  apply IH. intros c. apply (H (S c)).
Qed.

Lemma fdict_pointwise : forall f f' k, (forall c, nth c f (Some 0) = nth c f' (Some 0)) ->
  fdict_from k f = fdict_from k f'.
Proof.
  induction f as [|x f IH]; intros f' k H.
  - symmetry. apply fdict_zeros. intros c. rewrite <- H. destruct c; reflexivity.
  - destruct f' as [|x' f'].
    + apply fdict_zeros. intros c. rewrite H. destruct c; reflexivity.
    + pose proof (H O) as H0. simpl in H0. subst x'.
      unfold fdict_from. cbn [length seq combine filter snd].
      assert (fdict_from (S k) f = fdict_from (S k) f') as E.
      { apply IH. intros c. apply (H (S c)). }
      unfold fdict_from in E. rewrite E. reflexivity.
Qed.

Lemma function_dict_getf st st' : (forall c, getf (fn st) c = getf (fn st') c) ->
  function_dict st = function_dict st'.
Proof. intros H. apply (fdict_pointwise (fn st) (fn st') O H). Qed.

Lemma pumping_subuniverse_getf st st' : rules st = rules st' ->
  (forall c, getf (fn st) c = getf (fn st') c) ->
  pumping_subuniverse st = pumping_subuniverse st'.
Proof.
  intros Er H. unfold pumping_subuniverse, rule_at. rewrite Er. apply filter_ext. intros i.
  rewrite H. destruct (getf (fn st') (parent (nth i (rules st') dummy))); auto.
  induction (kids (nth i (rules st') dummy)) as [|cs l IHl]; simpl; auto. rewrite H, IHl. reflexivity.
Qed.

(* C03_B_refines_A: same history => same observable answers, whatever the set.pop()
   choices, the set iteration order and the fuels of the two runs *)
Theorem B_refines_A pick ord fuel pick' fuel' ops b st : perm_ok ord ->
  runB pick ord fuel initB ops = Some b -> run pick' fuel' init ops = Some st ->
  b_rules b = rules st /\
  (forall c, getf (fB b) c = getf (fn st) c) /\
  function_dictB b = function_dict st /\
  pumping_subuniverseB b = pumping_subuniverse st /\
  (forall c, pumping_answerB b c = pumping_answer st c).
Proof.
  intros Hord H H'.
  destruct (B_refines_S _ _ _ _ _ Hord H) as [R _].
  pose proof (A_run_is_S pick' fuel' ops init st H') as R'.
  destruct (sruns_init_rules _ _ R) as [_ E]. destruct (sruns_init_rules _ _ R') as [_ E'].
  assert (forall c, getf (fB b) c = getf (fn st) c) as Hg.
  { exact (S_order_independent ops ops (absB b) st R R' (fun r => iff_refl _)). }
  split; [cbn [absB rules] in E; congruence|]. split; [exact Hg|]. split; [|split].
  - apply (function_dict_getf (absB b) st Hg).
  - apply (pumping_subuniverse_getf (absB b) st); [cbn [absB rules] in *; congruence|exact Hg].
  - intros c. unfold pumping_answerB, pumping_answer, is_pumpingB, is_pumping. cbn [snd].
    change (fval (b_fn b)) with (fB b). rewrite Hg. reflexivity.
Qed.

Theorem B_refines_A_total pick ord pick' ops : perm_ok ord ->
  let b := runB_total pick ord ops in let st := run_total pick' ops in
  b_rules b = rules st /\
  (forall c, getf (fB b) c = getf (fn st) c) /\
  function_dictB b = function_dict st /\
  pumping_subuniverseB b = pumping_subuniverse st /\
  (forall c, pumping_answerB b c = pumping_answer st c).
Proof.
  intros Hord. exact (B_refines_A pick ord _ pick' _ ops _ _ Hord (runB_total_spec pick ord ops Hord)
                        (run_total_spec pick' ops)).
Qed.
