(* Termination of whole histories of the table-method model, with the explicit
   fuel bound fuel_bound (TerminationDefs.v), fuel monotonicity, and the total
   versions (no fuel hypothesis) of the theorems of Forest/Theorems.v. *)
From Coq Require Import ZArith List Bool Lia.
From CSS Require Import Base.PyList Forest.Spec Forest.Model Forest.Basics Forest.Invariant
  Forest.Correct Forest.Theorems Forest.TerminationDefs Forest.TerminationGap Forest.Termination.
Import ListNotations.
Open Scope Z_scope.

(* ---- more fuel gives the same answer, for whole histories ---- *)
Lemma step_fuel_mono pick fuel fuel' st o st' :
  step pick fuel st o = Some st' -> (fuel <= fuel')%nat -> step pick fuel' st o = Some st'.
Proof.
  destruct o as [r|c]; simpl; auto. unfold add_rule_key. apply process_fuel_mono.
Qed.

Theorem run_fuel_mono pick fuel fuel' : forall ops st st',
  run pick fuel st ops = Some st' -> (fuel <= fuel')%nat -> run pick fuel' st ops = Some st'.
Proof.
  induction ops as [|o ops IH]; intros st st' H Hle; simpl in *; auto.
  destruct (step pick fuel st o) as [st1|] eqn:E; [|discriminate].
  rewrite (step_fuel_mono _ _ _ _ _ _ E Hle). eauto.
Qed.

Theorem run_fuel_irrelevant pick fuel fuel' st ops st1 st2 :
  run pick fuel st ops = Some st1 -> run pick fuel' st ops = Some st2 -> st1 = st2.
Proof.
  intros H1 H2.
  pose proof (run_fuel_mono pick fuel (Nat.max fuel fuel') ops st st1 H1 (Nat.le_max_l _ _)) as A.
  pose proof (run_fuel_mono pick fuel' (Nat.max fuel fuel') ops st st2 H2 (Nat.le_max_r _ _)) as B.
  congruence.
Qed.

(* ---- what holds between operations ---- *)
Definition TFinal (st : tm) : Prop := Final st /\ GapBound st.

Lemma TFinal_init : TFinal init.
Proof. split; [apply Final_init|]. unfold GapBound, zl; simpl. lia. Qed.

(* the state handed to _process_queue by add_rule_key *)
Lemma pre_process_fields st r : Final st -> GapBound st ->
  let st3 := pre_process st r in
  fn st3 = extend_key (fn st) r /\
  gsize st3 = Z.max (gsize st) (max_abs r) /\
  held st3 = [] /\ zl (queue st3) <= 1 /\ GapBound st3.
Proof.
  intros ((C & _ & _) & Hq & Hh & _) HB. unfold pre_process.
  destruct (extend_key_length (fn st) r) as (Hl & _ & _).
  set (f1 := extend_key (fn st) r) in *.
  pose proof (proj1 (c_g st C)) as Hg1.
  assert (zl (fn st) <= zl f1) as Hl' by (unfold zl; lia).
  pose proof (zl_nonneg (fn st)) as Hn0.
  unfold GapBound in *. rewrite Hq, Hh. cbn [rules fn gsize cgap queue held].
  destruct (gsize st <? max_abs r) eqn:Eg.
  - apply Z.ltb_lt in Eg.
    pose proof (preimage_gap_le f1 (max_abs r) ltac:(lia)) as Hpg.
    unfold correct_gap. cbn [rules fn gsize cgap queue held snd].
    destruct (snd (cgap st) <? preimage_gap f1 (max_abs r) + max_abs r - 1);
      cbn [rules fn gsize cgap queue held];
      (destruct (getf f1 (parent r)); cbn [rules fn gsize cgap queue held fst];
       repeat split; auto; try (unfold zl; simpl; lia); try lia).
  - apply Z.ltb_ge in Eg. cbn [rules fn gsize cgap queue held].
    destruct (getf f1 (parent r)); cbn [rules fn gsize cgap queue held fst];
      repeat split; auto; try (unfold zl; simpl; lia); try lia; nia.
Qed.

(* the measure at the start of _process_queue, bounded by static data *)
Lemma mu_bound st R n g : Core st -> held st = [] -> zl (queue st) <= 1 ->
  zl (rules st) <= R -> zl (fn st) <= n -> gsize st <= g ->
  mu st < pbound R n g.
Proof.
  intros C Hh Hq HR Hn Hg.
  pose proof (proj1 (c_g st C)) as Hg1.
  pose proof (zl_nonneg (rules st)) as HR0. pose proof (zl_nonneg (fn st)) as Hn0.
  assert (0 <= vbound st) as HB0 by (unfold vbound; nia).
  pose proof (pot_le (vbound st) (fn st) HB0
                (fun c v H => proj1 (c_fin st C c v H))) as Hp.
  pose proof (pot_nonneg (vbound st) (fn st)) as Hp0.
  unfold mu, wt, pbound. rewrite Hh. change (zl (@nil nat)) with 0.
  assert (zl (fn st) * (1 + vbound st) <= n * ((n + 1) * g + 2)) as H1.
  { unfold vbound.
    assert ((zl (fn st) + 1) * gsize st <= (n + 1) * g) as H2 by (apply Z.mul_le_mono_nonneg; lia).
    apply Z.mul_le_mono_nonneg; lia. }
  assert ((3 * zl (rules st) + 1) * pot (vbound st) (fn st) <=
          (3 * R + 1) * (n * ((n + 1) * g + 2))) as H3.
  { apply Z.mul_le_mono_nonneg; lia. }
  lia.
Qed.

(* ---- add_rule_key terminates ---- *)
Lemma add_rule_key_total pick fuel st r R n g : TFinal st ->
  zl (rules st) + 1 <= R -> zl (extend_key (fn st) r) <= n -> Z.max (gsize st) (max_abs r) <= g ->
  pbound R n g <= Z.of_nat fuel ->
  exists st', add_rule_key pick fuel st r = Some st' /\ TFinal st' /\
              rules st' = rules st ++ [r] /\
              zl (fn st') = zl (extend_key (fn st) r) /\
              gsize st' = Z.max (gsize st) (max_abs r).
Proof.
  intros [F HB] HR Hn Hg Hfuel.
  destruct (pre_process_inv st r F) as [I3 R3].
  destruct (pre_process_fields st r F HB) as (Ef & Eg & Eh & Eq & HB3).
  set (st3 := pre_process st r) in *.
  assert (TInv st3) as T3.
  { split; [exact I3|split; [rewrite Eh; constructor|exact HB3]]. }
  assert (mu st3 < pbound R n g) as Hmu.
  { apply mu_bound; auto; try apply I3.
    - rewrite R3. unfold zl in *. rewrite app_length. simpl. lia.
    - rewrite Ef. exact Hn.
    - rewrite Eg. exact Hg. }
  destruct (process_terminates pick fuel st3 T3 ltac:(lia)) as [st' H].
  exists st'. rewrite add_rule_key_pre. split; [exact H|].
  destruct (process_TInv pick fuel st3 st' T3 H) as ((_ & _ & HB') & (A & B & D)).
  destruct (add_rule_key_final pick fuel st r st' F) as [F' R'].
  { rewrite add_rule_key_pre. exact H. }
  split; [split; auto|]. split; [exact R'|]. split.
  - unfold zl. rewrite D, Ef. reflexivity.
  - rewrite B. exact Eg.
Qed.

(* ---- static bounds of a history ---- *)
Definition op_ok (n g : Z) (o : op) : Prop :=
  match o with
  | AddKey r => Z.of_nat (parent r) < n /\
                (forall c s, In (c, s) (kids r) -> Z.of_nat c < n) /\ max_abs r <= g
  | IsPumping c => Z.of_nat c < n
  end.

Lemma extend_len_le f c n : zl f <= n -> Z.of_nat c < n -> zl (extend f c) <= n.
Proof. unfold zl. rewrite length_extend. lia. Qed.

Lemma extend_key_len_le f r n : zl f <= n -> Z.of_nat (parent r) < n ->
  (forall c s, In (c, s) (kids r) -> Z.of_nat c < n) -> zl (extend_key f r) <= n.
Proof.
  intros Hf Hp Hk. unfold extend_key.
  assert (forall l f0, zl f0 <= n -> (forall c, In c l -> Z.of_nat c < n) ->
            zl (fold_left (fun f c => extend f c) l f0) <= n) as H.
  { induction l as [|a l IH]; intros f0 H0 Hl; simpl; auto.
    apply IH; [apply extend_len_le; auto; apply Hl; left; auto|].
    intros c Hc. apply Hl. right; auto. }
  apply H; [apply extend_len_le; auto|].
  intros c Hc. apply in_map_iff in Hc. destruct Hc as ([c' s] & <- & Hin). eapply Hk; eauto.
Qed.

Lemma keys_of_cons_add r t : keys_of (AddKey r :: t) = r :: keys_of t.
Proof. reflexivity. Qed.
Lemma keys_of_cons_q c t : keys_of (IsPumping c :: t) = keys_of t.
Proof. reflexivity. Qed.

(* ---- a history terminates when the fuel exceeds pbound of its static data ---- *)
Lemma run_terminates_gen pick fuel R n g : pbound R n g <= Z.of_nat fuel ->
  forall ops st, TFinal st ->
    zl (rules st) + zl (keys_of ops) <= R -> zl (fn st) <= n -> gsize st <= g ->
    Forall (op_ok n g) ops ->
    exists st', run pick fuel st ops = Some st'.
Proof.
  intros Hfuel. induction ops as [|o ops IH]; intros st T HR Hn Hg Hok; simpl.
  - eauto.
  - inversion Hok as [|? ? Ho Hok']; subst. destruct o as [r|c]; simpl in Ho.
    + destruct Ho as (Hp & Hk & Hs). rewrite keys_of_cons_add in HR.
      assert (zl (r :: keys_of ops) = 1 + zl (keys_of ops)) as El by (unfold zl; simpl length; lia).
      pose proof (zl_nonneg (keys_of ops)) as Hk0.
      destruct (add_rule_key_total pick fuel st r R n g T ltac:(lia)
                  (extend_key_len_le _ _ _ Hn Hp Hk) ltac:(lia) Hfuel)
        as (st1 & E & T1 & R1 & F1 & G1).
      simpl. rewrite E. apply IH; auto.
      * rewrite R1. unfold zl in *. rewrite app_length. simpl length. lia.
      * rewrite F1. apply extend_key_len_le; auto.
      * rewrite G1. lia.
    + rewrite keys_of_cons_q in HR. simpl. apply IH; auto.
      * destruct T as [F HB]. destruct (is_pumping_final st c F) as (F1 & _ & _).
        split; auto. unfold GapBound in *. simpl.
        assert (zl (fn st) <= zl (extend (fn st) c)) by (unfold zl; rewrite length_extend; lia).
        pose proof (proj1 (c_g st (proj1 (proj1 F)))). nia.
      * simpl. apply extend_len_le; auto.
Qed.

Lemma key_maxl_spec r : Z.of_nat (parent r) <= key_maxl r /\
  forall c s, In (c, s) (kids r) -> Z.of_nat c <= key_maxl r.
Proof.
  unfold key_maxl. induction (kids r) as [|[c' s'] l IH]; simpl.
  - split; [lia|intros c s []].
  - destruct IH as [A B]. split; [lia|]. intros c s [E|Hin].
    + injection E as -> ->. lia.
    + specialize (B c s Hin). lia.
Qed.

Lemma max_label_ge ops o : In o ops -> op_maxl o <= max_label ops.
Proof.
  induction ops as [|a l IH]; simpl; [intros []|]. intros [->|H]; [lia|]. specialize (IH H). lia.
Qed.

Lemma max_label_lb ops : -1 <= max_label ops.
Proof. induction ops as [|a l IH]; cbn [max_label fold_right]; [lia|]. fold (max_label l). lia. Qed.

Lemma max_shift_ge ops o : In o ops -> op_shift o <= max_shift ops.
Proof.
  induction ops as [|a l IH]; simpl; [intros []|]. intros [->|H]; [lia|]. specialize (IH H). lia.
Qed.

Lemma max_shift_pos ops : 1 <= max_shift ops.
Proof. induction ops as [|a l IH]; simpl; lia. Qed.

Lemma ops_ok ops : Forall (op_ok (max_label ops + 1) (max_shift ops)) ops.
Proof.
  apply Forall_forall. intros o Ho.
  pose proof (max_label_ge ops o Ho) as Hl. pose proof (max_shift_ge ops o Ho) as Hs.
  destruct o as [r|c]; simpl in *; [|lia].
  destruct (key_maxl_spec r) as [A B]. split; [lia|]. split; [|lia].
  intros c s Hin. specialize (B c s Hin). lia.
Qed.

(* ---- TERMINATION: every history, every resolution of set.pop() ---- *)
Theorem run_terminates pick ops fuel : (fuel_bound ops <= fuel)%nat ->
  exists st, run pick fuel init ops = Some st.
Proof.
  intros Hf.
  apply (run_terminates_gen pick fuel (zl (keys_of ops)) (max_label ops + 1) (max_shift ops)).
  - unfold fuel_bound, fuel_boundZ in Hf. lia.
  - apply TFinal_init.
  - simpl. lia.
  - pose proof (max_label_lb ops). unfold zl; simpl. lia.
  - simpl. apply max_shift_pos.
  - apply ops_ok.
Qed.

Lemma fuel_bound_explicit ops :
  Z.of_nat (fuel_bound ops) =
  (3 * Z.of_nat (length (keys_of ops)) + 1) *
    ((max_label ops + 1) * ((max_label ops + 1 + 1) * max_shift ops + 2)) + 3.
Proof.
  unfold fuel_bound, fuel_boundZ, pbound. fold (zl (keys_of ops)).
  pose proof (max_label_lb ops). pose proof (max_shift_pos ops). pose proof (zl_nonneg (keys_of ops)).
  rewrite Z2Nat.id; [reflexivity|].
  assert (0 <= (max_label ops + 1 + 1) * max_shift ops) by (apply Z.mul_nonneg_nonneg; lia).
  assert (0 <= (max_label ops + 1) * ((max_label ops + 1 + 1) * max_shift ops + 2))
    by (apply Z.mul_nonneg_nonneg; lia).
  assert (0 <= (3 * zl (keys_of ops) + 1) *
               ((max_label ops + 1) * ((max_label ops + 1 + 1) * max_shift ops + 2)))
    by (apply Z.mul_nonneg_nonneg; lia).
  lia.
Qed.

Theorem run_total_spec pick ops : run pick (fuel_bound ops) init ops = Some (run_total pick ops).
Proof.
  unfold run_total. destruct (run_terminates pick ops (fuel_bound ops) (Nat.le_refl _)) as [st H].
  rewrite H. reflexivity.
Qed.

(* whatever fuel the run returns with, it returns run_total *)
Theorem run_some_is_total pick fuel ops st :
  run pick fuel init ops = Some st -> st = run_total pick ops.
Proof. intros H. exact (run_fuel_irrelevant _ _ _ _ _ _ _ H (run_total_spec pick ops)). Qed.

Theorem run_enough_fuel pick fuel ops : (fuel_bound ops <= fuel)%nat ->
  run pick fuel init ops = Some (run_total pick ops).
Proof. intros H. exact (run_fuel_mono _ _ _ _ _ _ (run_total_spec pick ops) H). Qed.

(* ---- the theorems of Forest/Theorems.v without fuel hypothesis ---- *)
Theorem total_sound_complete pick ops :
  forall c, (pumping_answer (run_total pick ops) c = true <-> pumps (keys_of ops) c) /\
            (forall n, getf (fn (run_total pick ops)) c = Some n <-> terms (keys_of ops) c n).
Proof. exact (sound_complete _ _ _ _ (run_total_spec pick ops)). Qed.

Theorem total_order_independent pick pick' ops ops' :
  (forall r, In r (keys_of ops) <-> In r (keys_of ops')) ->
  forall c, getf (fn (run_total pick ops)) c = getf (fn (run_total pick' ops')) c.
Proof.
  exact (order_independent _ _ _ _ _ _ _ _ (run_total_spec pick ops) (run_total_spec pick' ops')).
Qed.

Theorem total_monotone pick pick' ops ops' :
  incl (keys_of ops) (keys_of ops') ->
  forall c, match getf (fn (run_total pick ops)) c, getf (fn (run_total pick' ops')) c with
            | None, None => True
            | None, Some _ => False
            | Some n, Some m => n <= m
            | Some _, None => True
            end.
Proof.
  exact (monotone _ _ _ _ _ _ _ _ (run_total_spec pick ops) (run_total_spec pick' ops')).
Qed.

Theorem total_subuniverse_spec pick ops :
  forall i, In i (pumping_subuniverse (run_total pick ops)) <->
    (i < length (keys_of ops))%nat /\
    let r := nth i (keys_of ops) dummy in
    pumps (keys_of ops) (parent r) /\ forall c s, In (c, s) (kids r) -> pumps (keys_of ops) c.
Proof. exact (subuniverse_spec _ _ _ _ (run_total_spec pick ops)). Qed.
