(* The order in which the extractor model minimises the rule buckets is the
   constant of the SOURCE.  Gen/ForestMinimizeOrder.v is re-translated on every
   run from comb_spec_searcher/rule_db/forest.py,
       ForestRuleExtractor.MINIMIZE_ORDER = (REVERSE, NORMAL, EQUIV, VERIFICATION)
   with the bucket numbering of the model and the harness (Forest/Extractor.v
   bkey: 0 REVERSE, 1 NORMAL, 2 EQUIV, 3 VERIFICATION).  `minimize_in_order` is
   ForestRuleExtractor._minimize for an arbitrary order: for key in ORDER:
   _minimize_key(key), where the not-yet-minimised buckets are the "others" (a
   minimised bucket is left empty).  This file proves that the hand-written
   Extractor.minimize is that loop run over the source's order.  Reordering the
   constant changes the generated definition and breaks the lemma, hence the
   obligation of Props/C11.v. *)
From Coq Require Import ZArith List Bool Lia.
From CSS Require Import Forest.Spec Forest.Model Forest.Extractor Gen.Prelude Gen.ForestMinimizeOrder.
Import ListNotations.

Section Order.
Variable prod : list bkey -> option bool.

Fixpoint minimize_in_order (needed : list bkey) (order : list nat) (bucket : nat -> list bkey)
  : mres (list bkey) :=
  match order with
  | [] => Ok needed
  | k :: rest =>
      match minimize_key prod needed (bucket k) (flat_map bucket rest) with
      | Ok n => minimize_in_order n rest bucket
      | e => e
      end
  end.

Lemma minimize_is_source_order : forall b0 b1 b2 b3,
  minimize prod b0 b1 b2 b3 =
  minimize_in_order [] (map Z.to_nat minimize_order) (fun k => nth k [b0; b1; b2; b3] []).
Proof.
  intros b0 b1 b2 b3. unfold minimize.
  change (map Z.to_nat minimize_order) with [0; 1; 2; 3]%nat.
  cbn [minimize_in_order flat_map nth]. rewrite !app_nil_r.
  destruct (minimize_key prod [] b0 (b1 ++ b2 ++ b3)) as [n0| |]; try reflexivity.
  destruct (minimize_key prod n0 b1 (b2 ++ b3)) as [n1| |]; try reflexivity.
  destruct (minimize_key prod n1 b2 b3) as [n2| |]; try reflexivity.
  destruct (minimize_key prod n2 b3 []) as [n3| |]; reflexivity.
Qed.
End Order.
