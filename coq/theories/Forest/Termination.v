(* Termination of one TableMethod._process_queue call (model: Model.process):
   every iteration of the loop preserves the invariant TInv and strictly
   decreases the measure mu (TerminationDefs.v); hence `process` returns as soon
   as the fuel exceeds mu, and more fuel never changes the answer. *)
From Coq Require Import ZArith List Bool Lia.
From CSS Require Import Base.PyList Forest.Spec Forest.Model Forest.Basics Forest.Invariant
  Forest.Correct Forest.TerminationDefs Forest.TerminationGap.
Import ListNotations.
Open Scope Z_scope.

Lemma zl_nonneg {A} (l : list A) : 0 <= zl l.
Proof. unfold zl. lia. Qed.

(* ---- process is the iteration of pstep ---- *)
Lemma process_unfold pick fuel st :
  process pick (S fuel) st =
  match pstep pick st with None => Some st | Some st' => process pick fuel st' end.
Proof.
  unfold pstep. simpl. destruct (queue st); [|reflexivity]. destruct (held st); reflexivity.
Qed.

(* ---- more fuel gives the same answer ---- *)
Lemma process_fuel_mono pick : forall fuel fuel' st st',
  process pick fuel st = Some st' -> (fuel <= fuel')%nat -> process pick fuel' st = Some st'.
Proof.
  induction fuel as [|fuel IH]; intros fuel' st st' H Hle; [discriminate|].
  destruct fuel' as [|fuel']; [lia|].
  rewrite process_unfold in *. destruct (pstep pick st) as [st1|]; auto.
  apply (IH fuel' st1 st' H). lia.
Qed.

(* ---- the potential of the value table ---- *)
Lemma pot1_nonneg B x : 0 <= pot1 B x.
Proof. destruct x; unfold pot1; lia. Qed.

Lemma pot_nonneg B f : 0 <= pot B f.
Proof. induction f as [|x f IH]; simpl; [lia|]. pose proof (pot1_nonneg B x). lia. Qed.

Lemma pot_upd B : forall f c x, (c < length f)%nat ->
  pot B (upd f c x) = pot B f - pot1 B (getf f c) + pot1 B x.
Proof.
  unfold upd, getf. induction f as [|y f IH]; intros [|c] x H; simpl in *; try lia.
  rewrite IH by lia. lia.
Qed.

Lemma pot_le B : forall f, 0 <= B -> (forall c v, getf f c = Some v -> 0 <= v) ->
  pot B f <= zl f * (1 + B).
Proof.
  unfold zl. induction f as [|x f IH]; intros HB Hv; [simpl; lia|].
  assert (pot B f <= Z.of_nat (length f) * (1 + B)) as H.
  { apply IH; auto. intros c v Hc. apply (Hv (S c) v). exact Hc. }
  assert (pot1 B x <= 1 + B) as H1.
  { destruct x as [v|]; unfold pot1; [|lia]. pose proof (Hv O v eq_refl). lia. }
  change (pot B (x :: f)) with (pot1 B x + pot B f).
  change (length (x :: f)) with (S (length f)). lia.
Qed.

(* ---- small list facts ---- *)
Lemma NoDup_snoc (h : list nat) i : NoDup h -> ~ In i h -> NoDup (h ++ [i]).
Proof.
  induction h as [|a h IH]; simpl; intros H Hn.
  - constructor; auto.
  - inversion H; subst. constructor.
    + intros Hin. apply in_app_iff in Hin. destruct Hin as [Hin|[->|[]]]; [contradiction|].
      apply Hn. left; auto.
    + apply IH; auto.
Qed.

Lemma add_held_NoDup h i : NoDup h -> NoDup (add_held h i).
Proof.
  intros H. unfold add_held. destruct (existsb (Nat.eqb i) h) eqn:E; auto.
  apply NoDup_snoc; auto. intros Hin.
  assert (existsb (Nat.eqb i) h = true) as E'.
  { apply existsb_exists. exists i. split; auto. apply Nat.eqb_refl. }
  congruence.
Qed.

Lemma add_held_len h i : zl (add_held h i) <= zl h + 1.
Proof.
  unfold add_held, zl. destruct (existsb (Nat.eqb i) h); [lia|].
  rewrite app_length. simpl. lia.
Qed.

Lemma remove_at_NoDup : forall l n, NoDup l -> NoDup (remove_at n l).
Proof.
  induction l as [|a l IH]; intros [|n] H; simpl; auto; inversion H; subst; auto.
  constructor; auto. intros Hin. apply H2. eapply in_remove_at; eauto.
Qed.

Lemma remove_at_len : forall l n, (n < length l)%nat -> zl (remove_at n l) = zl l - 1.
Proof.
  unfold zl. induction l as [|a l IH]; intros [|n] H; cbn [remove_at length] in *; try lia.
  specialize (IH n ltac:(lia)). lia.
Qed.

Lemma filter_len {A} (p : A -> bool) l : (length (filter p l) <= length l)%nat.
Proof. induction l as [|a l IH]; simpl; [lia|destruct (p a); simpl; lia]. Qed.

Lemma requeue_len st f c : zl (requeue st f c) <= zl (rules st).
Proof.
  unfold requeue, zl. pose proof (filter_len
    (fun i => mentions c (rule_at st i) && can_fire f (rule_at st i)) (seq 0 (length (rules st)))) as H.
  rewrite seq_length in H. lia.
Qed.

Lemma held_len st : Core st -> NoDup (held st) -> zl (held st) <= zl (rules st).
Proof.
  intros C Hnd. unfold zl.
  assert (length (held st) <= length (seq 0 (length (rules st))))%nat as H.
  { apply NoDup_incl_length; auto. intros j Hj. apply in_seq.
    pose proof (proj2 (c_idx st C) j Hj). lia. }
  rewrite seq_length in H. lia.
Qed.

(* ---- the invariant of the loop ---- *)
Definition GapBound (st : tm) : Prop := fst (cgap st) <= zl (fn st) * gsize st + 1.

Definition TInv (st : tm) : Prop := Inv st [] /\ NoDup (held st) /\ GapBound st.

Lemma mu_nonneg st : 0 <= mu st.
Proof.
  unfold mu, wt, zl. pose proof (pot_nonneg (vbound st) (fn st)). nia.
Qed.

(* what one iteration leaves unchanged, and what it does to the measure *)
Definition Same (st st' : tm) : Prop :=
  rules st' = rules st /\ gsize st' = gsize st /\ length (fn st') = length (fn st).

Lemma mu_same st st' P Q H : Same st st' ->
  pot (vbound st) (fn st') = P -> zl (queue st') = Q -> zl (held st') = H ->
  mu st' = wt st * P + 2 * Q + H.
Proof.
  intros (Er & Eg & El) <- <- <-. unfold mu, wt, vbound, zl. rewrite Er, Eg, El. reflexivity.
Qed.

Lemma requeue_rules s s' f c : rules s = rules s' -> requeue s f c = requeue s' f c.
Proof. intros E. unfold requeue, rule_at. rewrite E. reflexivity. Qed.

(* _increase_value when the value really increases: the shape of the result *)
Lemma increase_value_real st c i p :
  getf (fn st) c = Some p -> (snd (cgap st) <? p) = false ->
  let f' := upd (fn st) c (Some (p + 1)) in
  exists k q h,
    increase_value st c i = mktm (rules st) f' (gsize st) k (q ++ requeue st f' c) h /\
    ((k = cgap st /\ q = queue st /\ h = held st) \/
     (fst k = preimage_gap f' (gsize st) /\
      ((q = queue st ++ held st /\ h = []) \/ (q = queue st /\ h = held st)))).
Proof.
  intros Hp E f'. unfold increase_value. rewrite Hp, E. fold f'.
  destruct (fst (cgap st) =? preimage_gap f' (gsize st)) eqn:Eg.
  - exists (cgap st), (queue st), (held st). split; [|left; auto].
    cbn [rules fn gsize cgap queue held]. erewrite requeue_rules; reflexivity.
  - unfold correct_gap. cbn [rules fn gsize cgap queue held snd].
    destruct (snd (cgap st) <? preimage_gap f' (gsize st) + gsize st - 1);
      cbn [rules fn gsize cgap queue held].
    + eexists _, (queue st ++ held st), []. split.
      * erewrite requeue_rules; reflexivity.
      * right. split; [reflexivity|]. left; auto.
    + eexists _, (queue st), (held st). split.
      * erewrite requeue_rules; reflexivity.
      * right. split; [reflexivity|]. right; auto.
Qed.

(* _increase_value, real increase *)
Lemma increase_step st c i p : Core st -> Gap st -> NoDup (held st) -> GapBound st ->
  (c < length (fn st))%nat ->
  getf (fn st) c = Some p -> (snd (cgap st) <? p) = false ->
  let st' := increase_value st c i in
  Same st st' /\ NoDup (held st') /\ GapBound st' /\
  mu st' < mu st.
Proof.
  intros C (Gk & Gs & Gok) Hnd HB Hc Hp Eheld st'.
  destruct (increase_value_real st c i p Hp Eheld) as (k & q & h & Est & Hcase).
  cbv zeta in Est. fold st' in Est.
  apply Z.ltb_ge in Eheld.
  pose proof (proj1 (c_g st C)) as Hg1.
  pose proof (held_len st C Hnd) as Hh.
  unfold GapBound in HB.
  set (f' := upd (fn st) c (Some (p + 1))) in *.
  assert (length f' = length (fn st)) as Hlf by (apply length_upd).
  assert (pot (vbound st) f' = pot (vbound st) (fn st) - 1) as Hpot.
  { unfold f'. rewrite pot_upd by auto. rewrite Hp. unfold pot1, vbound. lia. }
  pose proof (requeue_len st f' c) as Hrq.
  pose proof (pot_nonneg (vbound st) f') as Hpn.
  pose proof (preimage_gap_le f' (gsize st) Hg1) as Hpg. unfold zl in Hpg at 1. rewrite Hlf in Hpg.
  fold (zl (fn st)) in Hpg.
  assert (Same st st') as S by (rewrite Est; repeat split; auto).
  assert (zl (queue st') = zl q + zl (requeue st f' c)) as Eq.
  { rewrite Est. unfold zl. cbn [queue]. rewrite app_length. lia. }
  assert (zl (q ++ nil) = zl q) as _ by (rewrite app_nil_r; reflexivity).
  rewrite (mu_same st st' _ _ _ S eq_refl Eq eq_refl).
  rewrite Est. cbn [held fn cgap gsize]. rewrite Hpot.
  split; [rewrite <- Est; exact S|].
  assert (zl (queue st ++ held st) = zl (queue st) + zl (held st)) as Eqh.
  { unfold zl. rewrite app_length. lia. }
  unfold GapBound. cbn [held fn cgap gsize]. unfold zl at 1. rewrite Hlf. fold (zl (fn st)).
  pose proof (zl_nonneg (rules st)). pose proof (zl_nonneg (held st)).
  pose proof (zl_nonneg (requeue st f' c)).
  unfold mu, wt in *.
  destruct Hcase as [(-> & -> & ->)|(Ek & [(-> & ->)|(-> & ->)])].
  - split; [exact Hnd|]. split; [exact HB|]. lia.
  - split; [constructor|]. split; [lia|]. rewrite Eqh. change (zl (@nil nat)) with 0. lia.
  - split; [exact Hnd|]. split; [lia|]. lia.
Qed.

(* ---- one iteration: invariant preserved, measure strictly smaller ---- *)
Lemma pstep_decreases pick st st' : TInv st -> pstep pick st = Some st' ->
  TInv st' /\ Same st st' /\ mu st' < mu st.
Proof.
  intros (I & Hnd & HB) H. unfold pstep in H.
  destruct (queue st) as [|i q] eqn:Eq.
  - (* pop from the held set: _set_infinite *)
    destruct (held st) as [|h0 hs] eqn:Eh; [discriminate|]. rewrite <- Eh in H, Hnd.
    set (n := Nat.modulo (pick (held st)) (length (held st))) in *.
    assert (n < length (held st))%nat as Hn.
    { apply Nat.mod_upper_bound. rewrite Eh. simpl. lia. }
    pose proof (set_infinite_inv st n I Eq Hn) as I'. cbv zeta in I'.
    set (st1 := mktm (rules st) (fn st) (gsize st) (cgap st) [] (remove_at n (held st))) in *.
    set (i := nth n (held st) O) in *.
    set (c := parent (rule_at st1 i)) in *.
    injection H as <-.
    destruct I as (C & W & G).
    assert (In i (held st)) as Hi by (apply nth_In; auto).
    assert (i < length (rules st))%nat as Hil by (apply (c_idx st C); auto).
    assert (c < length (fn st))%nat as Hc.
    { apply (c_dom st C (rule_at st i) (rule_at_In st i Hil)). }
    pose proof (remove_at_len (held st) n Hn) as Hrl.
    pose proof (remove_at_NoDup (held st) n Hnd) as Hrn.
    pose proof (zl_nonneg (rules st)) as HR.
    unfold set_infinite in *. change (fn st1) with (fn st) in *.
    destruct (getf (fn st) c) as [v|] eqn:Hv.
    + (* a finite value becomes infinite *)
      set (f' := upd (fn st) c None) in *.
      assert (length f' = length (fn st)) as Hlf by apply length_upd.
      match goal with |- TInv ?s /\ _ => assert (Same st s) as S by (repeat split; auto) end.
      split; [split; [exact I'|split; [exact Hrn|]]|split; [exact S|]].
      * unfold GapBound, zl; simpl. rewrite Hlf. exact HB.
      * rewrite (mu_same _ _ _ _ _ S eq_refl eq_refl eq_refl). cbn [rules fn gsize cgap queue held].
        unfold f'. rewrite pot_upd by auto. rewrite Hv.
        change (queue st1) with (@nil nat). change (held st1) with (remove_at n (held st)).
        rewrite app_nil_l. rewrite Hrl.
        pose proof (requeue_len st1 (upd (fn st) c None) c) as Hrq. change (rules st1) with (rules st) in Hrq.
        unfold mu, wt. rewrite Eq. change (zl (@nil nat)) with 0.
        unfold pot1 at 1 2. nia.
    + (* already infinite *)
      assert (Same st st1) as S by (repeat split; auto).
      split; [split; [exact I'|split; [exact Hrn|exact HB]]|split; [exact S|]].
      unfold mu, wt, vbound, st1. cbn [rules fn gsize cgap queue held]. rewrite Eq, Hrl.
      change (zl (@nil nat)) with 0. lia.
  - (* pop from the queue *)
    set (st1 := mktm (rules st) (fn st) (gsize st) (cgap st) q (held st)) in *.
    injection H as <-.
    destruct I as (C & W & G).
    assert (i < length (rules st))%nat as Hi by (apply (proj1 (c_idx st C)); rewrite Eq; left; auto).
    assert (Core st1) as C1.
    { constructor; simpl; try apply C. split; [|apply C].
      intros j Hj. apply (proj1 (c_idx st C)). rewrite Eq. right; auto. }
    assert (Work st1 [i]) as W1.
    { intros j Hj Hfj. simpl in *. destruct (W j Hj Hfj) as [Hin|[Hin|[]]]; auto.
      rewrite Eq in Hin. destruct Hin as [->|Hin]; auto. }
    assert (mu st1 = mu st - 2) as Hmu1.
    { unfold mu, wt, vbound, st1. cbn [rules fn gsize cgap queue held]. rewrite Eq.
      unfold zl. cbn [length]. lia. }
    assert (Same st st1) as S1 by (repeat split; auto).
    change (fn st1) with (fn st).
    destruct (can_fire (fn st) (rule_at st1 i)) eqn:Ef.
    + pose proof (increase_value_inv st1 i (conj C1 (conj W1 G)) Hi Ef) as I'.
      destruct (can_fire_true _ _ Ef) as (p & Hp & _).
      set (c := parent (rule_at st1 i)) in *.
      assert (c < length (fn st))%nat as Hc.
      { apply (c_dom st C (rule_at st i) (rule_at_In st i Hi)). }
      destruct (snd (cgap st) <? p) eqn:Eheld.
      * (* the rule is put on hold *)
        assert (increase_value st1 c i =
                mktm (rules st) (fn st) (gsize st) (cgap st) q (add_held (held st) i)) as E.
        { unfold increase_value. change (fn st1) with (fn st). rewrite Hp.
          change (cgap st1) with (cgap st). rewrite Eheld. reflexivity. }
        rewrite E in *.
        split; [split; [exact I'|split; [apply add_held_NoDup; exact Hnd|exact HB]]|].
        split; [repeat split; auto|].
        pose proof (add_held_len (held st) i).
        assert (zl (queue st) = zl q + 1) as Hq1 by (rewrite Eq; unfold zl; cbn [length]; lia).
        clear Hmu1. unfold mu, wt, vbound. cbn [rules fn gsize cgap queue held]. lia.
      * (* the value increases *)
        destruct (increase_step st1 c i p C1 G Hnd HB Hc Hp Eheld) as (S & Hnd' & HB' & Hmu).
        split; [split; [exact I'|split; [exact Hnd'|exact HB']]|].
        split; [|lia].
        destruct S as (A & B & D). repeat split; auto.
    + assert (Inv st1 []) as I'.
      { split; [exact C1|split; [|exact G]]. intros j Hj Hfj.
        destruct (W1 j Hj Hfj) as [Hin|[Hin|[E|[]]]]; auto. subst j.
        change (fn st1) with (fn st) in Hfj. congruence. }
      split; [split; [exact I'|split; [exact Hnd|exact HB]]|].
      split; [exact S1|lia].
Qed.

Lemma pstep_decreases_nonneg pick st st' : TInv st -> pstep pick st = Some st' ->
  TInv st' /\ Same st st' /\ 0 <= mu st' < mu st.
Proof.
  intros T H. destruct (pstep_decreases pick st st' T H) as (A & B & C).
  split; [exact A|]. split; [exact B|]. split; [apply mu_nonneg|exact C].
Qed.

(* ---- _process_queue terminates: fuel above the measure is enough ---- *)
Theorem process_terminates pick : forall fuel st, TInv st -> mu st < Z.of_nat fuel ->
  exists st', process pick fuel st = Some st'.
Proof.
  induction fuel as [|fuel IH]; intros st T Hmu.
  - pose proof (mu_nonneg st). simpl in Hmu. lia.
  - rewrite process_unfold. destruct (pstep pick st) as [st1|] eqn:E.
    + destruct (pstep_decreases pick st st1 T E) as (T1 & _ & Hlt).
      apply IH; auto. lia.
    + exists st. reflexivity.
Qed.

(* the loop invariant holds at exit, the static data is unchanged *)
Lemma process_TInv pick : forall fuel st st', TInv st -> process pick fuel st = Some st' ->
  TInv st' /\ Same st st'.
Proof.
  induction fuel as [|fuel IH]; intros st st' T H; [discriminate|].
  rewrite process_unfold in H. destruct (pstep pick st) as [st1|] eqn:E.
  - destruct (pstep_decreases pick st st1 T E) as (T1 & (A & B & D) & _).
    destruct (IH st1 st' T1 H) as (T' & (A' & B' & D')).
    split; auto. repeat split; congruence.
  - injection H as <-. split; auto. repeat split; auto.
Qed.

(* the number of iterations is exactly determined: any two sufficient fuels agree *)
Lemma process_fuel_irrelevant pick fuel fuel' st st1 st2 :
  process pick fuel st = Some st1 -> process pick fuel' st = Some st2 -> st1 = st2.
Proof.
  intros H1 H2.
  pose proof (process_fuel_mono pick fuel (Nat.max fuel fuel') st st1 H1 (Nat.le_max_l _ _)) as A.
  pose proof (process_fuel_mono pick fuel' (Nat.max fuel fuel') st st2 H2 (Nat.le_max_r _ _)) as B.
  congruence.
Qed.
