(* sx interface of the model of ForestRuleExtractor._find_rule / rules() (Forest/FindRule.v),
   and the entry point of the C11 harness, which dispatches on the shape of the input:

   run_c11_all inp = run_c11 inp                       when the first component is an integer
                                                       (root, keys: the extractor model), and
   run_c11_all (L [L [I 1; I scan]; empty bits; strats; ver sids; sym sids; pack order;
                   classes by label; cached emptiness by label (-1 = None);
                   cache  [[sid; parent; kind; variant] ...];
                   needed [[parent; children; shifts; bucket] ...]])
     = [ status; per key result; classes; cached emptiness;
         status; rules yielded; first key that could not be re-created ([] if none);
         classes; cached emptiness ]
     per key result = [0; sid; parent; kind; variant; forest key of that rule] | [1] not found | [2]
     rule yielded   = [sid; parent; kind; variant; handed out as equivalence rule; forest key]
   (the forest key of a returned rule is re-evaluated in the state the call left, as the harness does
   with rule.forest_key(classdb.get_label, classdb.is_empty); the harness compares, per key, found / not
   found and THAT KEY, not the identity of the rule nor the class database: harness canon_model)
   (strats encoded as for Searcher/Run.v; kind 0 Rule / 1 VerificationRule / 2 EmptyStrategy
   rule; variant -1 = the rule itself, i >= 0 = to_reverse_rule(i); scan = 0: _find_rule as it is,
   1: with the repair proposed for the open finding, see FindRule.search_labels).
   First every needed key is handed to _find_rule, in order, on the class database of the
   input; then rules(cache) runs on the class database those calls left behind. *)
From Coq Require Import ZArith List Bool.
From CSS Require Import Base.Sx Base.PyList ClassDB.Model Searcher.Model Searcher.Run
  Forest.ExtractorRun Forest.FindRule.
Import ListNotations.
Open Scope Z_scope.

Definition dec_kind (z : Z) : rkind := if z =? 0 then RPlain else if z =? 1 then RVer else REmpty.
Definition enc_kind (k : rkind) : Z := match k with RPlain => 0 | RVer => 1 | REmpty => 2 end.
Definition dec_variant (z : Z) : variant := if z <? 0 then VNormal else VReverse (Z.to_nat z).
Definition enc_variant (v : variant) : Z := match v with VNormal => -1 | VReverse i => Z.of_nat i end.

Definition dec_cand (s : sx) : rule * variant :=
  (mkR (sx_Z (sx_nth s 0)) (sx_Z (sx_nth s 1)) (dec_kind (sx_Z (sx_nth s 2))),
   dec_variant (sx_Z (sx_nth s 3))).
Definition enc_cand (r : rule) (v : variant) : list sx :=
  [I (r_sid r); I (r_parent r); I (enc_kind (r_kind r)); I (enc_variant v)].

Definition dec_key (s : sx) : event :=
  EvKey (sx_Z (sx_nth s 0)) (sx_Zs (sx_nth s 1)) (sx_Zs (sx_nth s 2)) (sx_Z (sx_nth s 3)).
Definition enc_key (k : event) : sx :=
  match k with
  | EvKey p cs sh b => L [I p; of_Zs cs; of_Zs sh; I b]
  | _ => L []
  end.

Definition dec_empty (s : sx) : option bool :=
  let z := sx_Z s in if z <? 0 then None else Some (negb (z =? 0)).

Definition enc_fres (T : table) (fs : fres * st) : sx :=
  match fst fs with
  | Found r v => L (I 0 :: enc_cand r v ++ [enc_key (snd (cand_key T (snd fs) r v))])
  | NotFound => L [I 1]
  | BadKey => L [I 2]
  end.

Definition enc_orule (T : table) (s : st) (o : orule) : sx :=
  match o with ORule r v e => L (enc_cand r v ++ [of_bool e; enc_key (snd (cand_key T s r v))]) end.

(* label_dict of a well-formed class database: class i has label i *)
Fixpoint zip_labels (n : Z) (l : list Z) : list (Z * Z) :=
  match l with
  | [] => []
  | c :: t => (c, n) :: zip_labels (n + 1) t
  end.

Definition state_of (classes : list Z) (empties : list (option bool)) : st :=
  mkSt (mk classes (zip_labels 0 classes) empties 0) [] [] [] [] [] [] [] [] [] Running.

(* every result with the state its call left behind *)
Fixpoint find_all (T : table) (pack : list Z) (scan : bool) (s : st) (keys : list event)
  : st * list (fres * st) :=
  match keys with
  | [] => (s, [])
  | k :: t => let '(s1, f) := find_rule T pack scan s k in
              let '(s2, fs) := find_all T pack scan s1 t in (s2, (f, s1) :: fs)
  end.

Definition run_find (inp : sx) : sx :=
  let T := mkT (sx_Zs (sx_nth inp 1)) (map dec_strat (sx_list (sx_nth inp 2)))
               (sx_Zs (sx_nth inp 3)) (sx_Zs (sx_nth inp 4)) in
  let pack := sx_Zs (sx_nth inp 5) in
  let scan := sx_bool (sx_nth (sx_nth inp 0) 1) in
  let s0 := state_of (sx_Zs (sx_nth inp 6)) (map dec_empty (sx_list (sx_nth inp 7))) in
  let cache := map dec_cand (sx_list (sx_nth inp 8)) in
  let needed := map dec_key (sx_list (sx_nth inp 9)) in
  let '(s1, fs) := find_all T pack scan s0 needed in
  let '(s2, out, e) := rules T pack scan s1 cache needed in
  L [ I (enc_status (stat s1)); L (map (enc_fres T) fs);
      of_Zs (classes (cdb s1)); L (map enc_empty (empties (cdb s1)));
      I (enc_status (stat s2)); L (map (enc_orule T s2) out);
      match e with Some k => enc_key k | None => L [] end;
      of_Zs (classes (cdb s2)); L (map enc_empty (empties (cdb s2))) ].

Definition run_c11_all (inp : sx) : sx :=
  match sx_nth inp 0 with
  | I _ => run_c11 inp
  | L _ => run_find inp
  end.
