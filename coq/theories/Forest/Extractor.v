(* Executable model of ForestRuleExtractor (rule_db/forest.py):
   _sorted_stable_rules, _minimize, _minimize_key, _is_productive, check.
   The productivity test (a fresh TableMethod fed with the candidate keys, then
   is_pumping(root)) is a Section variable `prod`; ExtractorRun.v instantiates
   it with the table-method model of Model.v, Props/C11.v with its proved
   meaning (C03). *)
From Coq Require Import ZArith List Bool Lia.
From CSS Require Import Forest.Spec Forest.Model.
Import ListNotations.

(* a ForestRuleKey: key + shifts, and its bucket (index in MINIMIZE_ORDER:
   0 REVERSE, 1 NORMAL, 2 EQUIV, 3 VERIFICATION) *)
Record bkey := mkb { bk_key : fkey; bk_bucket : nat }.

Inductive mres (A : Type) :=
| Ok (a : A)
| OutOfFuel            (* the table-method model ran out of fuel *)
| RuntimeErr.          (* "Not pumping after adding all rules" *)
Arguments Ok {A} a. Arguments OutOfFuel {A}. Arguments RuntimeErr {A}.

Section Min.
Variable prod : list bkey -> option bool.   (* _is_productive ; None = out of fuel *)

(* the for-loop of _minimize_key: first i such that base ++ minimizing[0..i] is productive *)
Fixpoint first_prod (base pre rest : list bkey) : mres (list bkey * bkey) :=
  match rest with
  | [] => RuntimeErr
  | rk :: rest' =>
      match prod (base ++ pre ++ [rk]) with
      | None => OutOfFuel
      | Some true => Ok (pre, rk)
      | Some false => first_prod base (pre ++ [rk]) rest'
      end
  end.

(* first while-loop of _minimize_key *)
Fixpoint phase1 (fuel : nat) (needed maybe others minimizing : list bkey) : mres (list bkey) :=
  match fuel with
  | O => OutOfFuel
  | S fuel' =>
      match minimizing with
      | [] => Ok maybe
      | _ =>
          match prod (needed ++ maybe ++ others) with
          | None => OutOfFuel
          | Some true => Ok maybe              (* minimizing.clear(); break *)
          | Some false =>
              match first_prod (needed ++ maybe ++ others) [] minimizing with
              | Ok (pre, rk) => phase1 fuel' needed (maybe ++ [rk]) others pre
              | OutOfFuel => OutOfFuel
              | RuntimeErr => RuntimeErr
              end
          end
      end
  end.

(* second while-loop: maybe_useful.pop() takes from the end; rmaybe = rev maybe_useful *)
Fixpoint phase2 (needed rmaybe others : list bkey) : mres (list bkey) :=
  match rmaybe with
  | [] => Ok needed
  | rk :: rest =>
      match prod (needed ++ rev rest ++ others) with
      | None => OutOfFuel
      | Some true => phase2 needed rest others
      | Some false => phase2 (needed ++ [rk]) rest others
      end
  end.

(* _minimize_key(key): `minimizing` is the bucket, `others` the other buckets' rules *)
Definition minimize_key (needed minimizing others : list bkey) : mres (list bkey) :=
  match phase1 (S (length minimizing)) needed [] others minimizing with
  | Ok maybe => phase2 needed (rev maybe) others
  | OutOfFuel => OutOfFuel
  | RuntimeErr => RuntimeErr
  end.

(* _minimize over MINIMIZE_ORDER = REVERSE, NORMAL, EQUIV, VERIFICATION;
   a minimised bucket is left empty *)
Definition minimize (b0 b1 b2 b3 : list bkey) : mres (list bkey) :=
  match minimize_key [] b0 (b1 ++ b2 ++ b3) with
  | Ok n0 =>
      match minimize_key n0 b1 (b2 ++ b3) with
      | Ok n1 =>
          match minimize_key n1 b2 b3 with
          | Ok n2 => minimize_key n2 b3 []
          | e => e
          end
      | e => e
      end
  | e => e
  end.

End Min.

Definition in_bucket (b : nat) (k : bkey) : bool := Nat.eqb (bk_bucket k) b.

(* ForestRuleExtractor.check(): one rule per left-hand side *)
Fixpoint distinct_parents (l : list bkey) : bool :=
  match l with
  | [] => true
  | k :: t => negb (existsb (fun k' => Nat.eqb (parent (bk_key k')) (parent (bk_key k))) t)
              && distinct_parents t
  end.
