(* Run invariants of the table-method model and their preservation by
   _increase_value, _set_infinite, _correct_gap, _process_queue, add_rule_key. *)
From Coq Require Import ZArith List Bool Lia.
From CSS Require Import Base.PyList Forest.Spec Forest.Model Forest.Basics.
Import ListNotations.
Open Scope Z_scope.

Ltac csplit := repeat match goal with |- _ /\ _ => split end.

Definition GapOK (f : vals) (k g : Z) : Prop :=
  (forall c n, (c < length f)%nat -> getf f c = Some n -> n < k \/ k + g <= n) \/
  (k = 0 /\ forall c n, (c < length f)%nat -> getf f c = Some n -> n = 0).

(* everything except the work-list and gap bookkeeping *)
Record Core (st : tm) : Prop := {
  c_fin : forall c n, getf (fn st) c = Some n -> 0 <= n /\ derivable (rules st) c n;
  c_inf : forall c, getf (fn st) c = None -> pumps (rules st) c;
  c_dom : forall r, In r (rules st) ->
          (parent r < length (fn st))%nat /\
          forall c s, In (c, s) (kids r) -> (c < length (fn st))%nat;
  c_g : 1 <= gsize st /\
        forall r c s, In r (rules st) -> In (c, s) (kids r) -> - gsize st <= s <= gsize st;
  c_held : forall j, In j (held st) -> forall n,
           getf (fn st) (parent (rule_at st j)) = Some n -> snd (cgap st) < n;
  c_idx : (forall j, In j (queue st) -> (j < length (rules st))%nat) /\
          (forall j, In j (held st) -> (j < length (rules st))%nat)
}.

Definition Work (st : tm) (extra : list nat) : Prop :=
  forall j, (j < length (rules st))%nat -> can_fire (fn st) (rule_at st j) = true ->
            In j (queue st) \/ In j (held st) \/ In j extra.

Definition Gap (st : tm) : Prop :=
  0 <= fst (cgap st) /\ snd (cgap st) = fst (cgap st) + gsize st - 1 /\
  GapOK (fn st) (fst (cgap st)) (gsize st).

Definition Inv (st : tm) (extra : list nat) : Prop := Core st /\ Work st extra /\ Gap st.

Lemma rule_at_In st j : (j < length (rules st))%nat -> In (rule_at st j) (rules st).
Proof. intros H. unfold rule_at. apply nth_In; auto. Qed.

Lemma In_rule_at st r : In r (rules st) -> exists j, (j < length (rules st))%nat /\ rule_at st j = r.
Proof. intros H. destruct (In_nth _ _ dummy H) as (j & Hj & E). exists j; split; auto. Qed.

(* firing a rule is sound: the parent gets one more derivable term *)
Lemma fire_derivable st r p : Core st -> In r (rules st) ->
  can_fire (fn st) r = true -> getf (fn st) (parent r) = Some p ->
  derivable (rules st) (parent r) (p + 1).
Proof.
  intros C Hr Hf Hp. destruct (can_fire_true _ _ Hf) as (p' & Hp' & Hk).
  rewrite Hp in Hp'. injection Hp' as <-.
  apply der_rule; auto. intros c s Hin.
  destruct (Hk c s Hin) as [Hn|(v & Hv & Hlt)].
  - apply (c_inf st C c Hn).
  - destruct (c_fin st C c v Hv) as [_ D]. eapply derivable_mono; eauto. lia.
Qed.

Lemma in_add_held h i j : In j (add_held h i) <-> In j h \/ j = i.
Proof.
  unfold add_held. destruct (existsb (Nat.eqb i) h) eqn:E.
  - split; [left; auto|]. intros [H| ->]; auto.
    apply existsb_exists in E. destruct E as (x & Hx & Ex). apply Nat.eqb_eq in Ex. subst; auto.
  - rewrite in_app_iff. simpl. split; [intros [H|[->|[]]]; auto|intros [H| ->]; auto].
Qed.

(* ---- _correct_gap ---- *)
Lemma correct_gap_fields st :
  rules (correct_gap st) = rules st /\ fn (correct_gap st) = fn st /\
  gsize (correct_gap st) = gsize st /\
  (forall j, In j (queue st) \/ In j (held st) <->
             In j (queue (correct_gap st)) \/ In j (held (correct_gap st))) /\
  fst (cgap (correct_gap st)) = preimage_gap (fn st) (gsize st) /\
  snd (cgap (correct_gap st)) = preimage_gap (fn st) (gsize st) + gsize st - 1 /\
  ((held (correct_gap st) = [] ) \/
   (held (correct_gap st) = held st /\ queue (correct_gap st) = queue st /\
    snd (cgap (correct_gap st)) <= snd (cgap st))).
Proof.
  unfold correct_gap.
  destruct (snd (cgap st) <? snd (preimage_gap (fn st) (gsize st),
                                   preimage_gap (fn st) (gsize st) + gsize st - 1)) eqn:E;
    simpl in *; csplit; auto.
  - intros j. rewrite in_app_iff. simpl. tauto.
  - intros j. tauto.
  - right. csplit; auto. lia.
Qed.

Lemma gap_fresh f g : 1 <= g ->
  0 <= preimage_gap f g /\ GapOK f (preimage_gap f g) g.
Proof.
  intros Hg. destruct (preimage_gap_spec f g Hg) as [Hk Hs]. split; auto.
  left. intros c n Hc Hn. apply (Hs c n). rewrite getf_in by auto. congruence.
Qed.

Lemma correct_gap_core st : Core st -> Core (correct_gap st) /\ Gap (correct_gap st).
Proof.
  intros C. destruct (correct_gap_fields st) as (Er & Ef & Eg & Eq & Ek & Ee & Eh).
  destruct (gap_fresh (fn st) (gsize st) (proj1 (c_g st C))) as [Hk0 Hok].
  split.
  - constructor; rewrite ?Er, ?Ef, ?Eg; try apply C.
    + intros j Hj n Hn. unfold rule_at in Hn. rewrite Er in Hn.
      destruct Eh as [Eh|(Eh & _ & Hle)]; [rewrite Eh in Hj; destruct Hj|].
      rewrite Eh in Hj. pose proof (c_held st C j Hj n Hn). lia.
    + destruct (c_idx st C) as [A B]. split; intros j Hj.
      * destruct (proj2 (Eq j) (or_introl Hj)); auto.
      * destruct (proj2 (Eq j) (or_intror Hj)); auto.
  - unfold Gap. rewrite Ek, Ee, Ef, Eg. csplit; auto.
Qed.

(* the cached gap is still right when preimage_gap returns the cached start *)
Lemma keep_gap st : Core st ->
  snd (cgap st) = fst (cgap st) + gsize st - 1 ->
  fst (cgap st) = preimage_gap (fn st) (gsize st) ->
  Gap st.
Proof.
  intros C Hs Hk.
  destruct (gap_fresh (fn st) (gsize st) (proj1 (c_g st C))) as [Hk0 Hok].
  unfold Gap. rewrite Hk. csplit; auto. rewrite <- Hk. auto.
Qed.

(* ---- _increase_value ---- *)
Lemma in_requeue st f c j :
  In j (requeue st f c) <->
  (j < length (rules st))%nat /\ mentions c (rule_at st j) = true /\ can_fire f (rule_at st j) = true.
Proof.
  unfold requeue. rewrite filter_In, in_seq, andb_true_iff. simpl. intuition lia.
Qed.

Lemma can_fire_unmentioned f c x r : mentions c r = false ->
  can_fire (upd f c x) r = can_fire f r.
Proof.
  intros H. destruct (mentions_false _ _ H) as [Hp Hk].
  apply can_fire_ext.
  - apply getf_upd_other; auto.
  - intros c' s Hin. apply getf_upd_other. intros E. apply (Hk c' s Hin). auto.
Qed.

Lemma increase_value_inv st i : Inv st [i] -> (i < length (rules st))%nat ->
  can_fire (fn st) (rule_at st i) = true ->
  Inv (increase_value st (parent (rule_at st i)) i) [].
Proof.
  intros (C & W & G) Hi Hf.
  destruct (can_fire_true _ _ Hf) as (p & Hp & Hk).
  set (c := parent (rule_at st i)) in *.
  unfold increase_value. rewrite Hp.
  destruct (snd (cgap st) <? p) eqn:Eheld.
  - (* the rule is put on hold *)
    split; [|split; [|exact G]].
    + constructor; simpl; try apply C.
      * intros j Hj n Hn. apply in_add_held in Hj. destruct Hj as [Hj| ->].
        -- apply (c_held st C j Hj n Hn).
        -- unfold rule_at in Hn. simpl in Hn. fold (rule_at st i) in Hn. fold c in Hn.
           rewrite Hp in Hn. injection Hn as <-. lia.
      * destruct (c_idx st C) as [A B]. split; auto. intros j Hj.
        apply in_add_held in Hj. destruct Hj as [Hj| ->]; auto.
    + intros j Hj Hfj. simpl in *. destruct (W j Hj Hfj) as [H|[H|[->|[]]]]; auto.
      * right; left. apply in_add_held; auto.
      * right; left. apply in_add_held; auto.
  - (* the value really increases *)
    assert (c < length (fn st))%nat as Hc.
    { apply (c_dom st C (rule_at st i) (rule_at_In st i Hi)). }
    set (f' := upd (fn st) c (Some (p + 1))).
    set (st1 := mktm (rules st) f' (gsize st) (cgap st) (queue st) (held st)).
    assert (Core st1) as C1.
    { constructor; simpl.
      - intros c' n Hn. destruct (Nat.eq_dec c c') as [<-|Hne].
        + unfold f' in Hn. rewrite getf_upd_same in Hn by auto. injection Hn as <-.
          destruct (c_fin st C c p Hp) as [Hp0 _]. split; [lia|].
          apply (fire_derivable st (rule_at st i) p C (rule_at_In st i Hi) Hf Hp).
        + unfold f' in Hn. rewrite getf_upd_other in Hn by auto. apply (c_fin st C c' n Hn).
      - intros c' Hn. destruct (Nat.eq_dec c c') as [<-|Hne].
        + unfold f' in Hn. rewrite getf_upd_same in Hn by auto. discriminate.
        + unfold f' in Hn. rewrite getf_upd_other in Hn by auto. apply (c_inf st C c' Hn).
      - unfold f'. rewrite length_upd. apply C.
      - apply C.
      - intros j Hj n Hn. unfold rule_at in Hn; simpl in Hn. fold (rule_at st j) in Hn.
        destruct (Nat.eq_dec c (parent (rule_at st j))) as [E|Hne].
        + rewrite <- E in Hn. unfold f' in Hn. rewrite getf_upd_same in Hn by auto.
          injection Hn as <-. rewrite E in Hp. pose proof (c_held st C j Hj p Hp). lia.
        + unfold f' in Hn. rewrite getf_upd_other in Hn by auto. apply (c_held st C j Hj n Hn).
      - apply C. }
    (* the work list of st1 extended with the requeued rules covers everything *)
    assert (forall st2, rules st2 = rules st -> fn st2 = f' ->
              (forall j, In j (queue st1) \/ In j (held st1) -> In j (queue st2) \/ In j (held st2)) ->
              Work (mktm (rules st2) (fn st2) (gsize st2) (cgap st2)
                         (queue st2 ++ requeue st2 f' c) (held st2)) []) as HW.
    { intros st2 Er Ef Hq j Hj Hfj. simpl in *. rewrite Er in Hj.
      unfold rule_at in Hfj; simpl in Hfj. rewrite Er, Ef in Hfj. fold (rule_at st j) in Hfj.
      destruct (mentions c (rule_at st j)) eqn:Em.
      - left. apply in_app_iff. right. apply in_requeue. rewrite Er. csplit; auto.
        + unfold rule_at. rewrite Er. exact Em.
        + unfold rule_at. rewrite Er. exact Hfj.
      - unfold f' in Hfj. rewrite can_fire_unmentioned in Hfj by auto.
        destruct (W j Hj Hfj) as [H|[H|[->|[]]]].
        + destruct (Hq j (or_introl H)); auto. left. apply in_app_iff; auto.
        + destruct (Hq j (or_intror H)); auto. left. apply in_app_iff; auto.
        + unfold c in Em. rewrite mentions_parent in Em. discriminate. }
    assert (forall st2, Core st2 -> Gap st2 -> rules st2 = rules st -> fn st2 = f' ->
              (forall j, In j (queue st1) \/ In j (held st1) -> In j (queue st2) \/ In j (held st2)) ->
              Inv (mktm (rules st2) (fn st2) (gsize st2) (cgap st2)
                        (queue st2 ++ requeue st2 f' c) (held st2)) []) as HI.
    { intros st2 C2 G2 Er Ef Hq. split; [|split; [exact (HW st2 Er Ef Hq)|exact G2]].
      constructor; simpl; try apply C2.
      destruct (c_idx st2 C2) as [A B]. split; auto.
      intros j Hj. apply in_app_iff in Hj. destruct Hj as [Hj|Hj]; auto.
      apply in_requeue in Hj. apply Hj. }
    destruct G as (Gk & Gs & Gok).
    destruct (fst (cgap st) =? preimage_gap f' (gsize st)) eqn:Eg.
    + apply Z.eqb_eq in Eg.
      apply (HI st1 C1); auto. apply keep_gap; auto.
    + destruct (correct_gap_core st1 C1) as [C2 G2].
      destruct (correct_gap_fields st1) as (Er & Ef & _ & Eq & _).
      apply (HI (correct_gap st1) C2 G2 Er Ef). intros j Hj. apply Eq; auto.
Qed.
