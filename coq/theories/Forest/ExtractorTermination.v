(* The extractor model never runs out of fuel, and it is total on universes
   whose start class pumps.  Every productivity test (a fresh table method fed
   with candidate keys) runs with at least the fuel proved sufficient for its
   own history (TerminationRun.run_terminates), so it always answers; the
   structural fuel of phase1 (S (length minimizing)) suffices because each round
   strictly shortens `minimizing`; "Not pumping after adding all rules"
   (RuntimeErr) cannot happen when the start class pumps. *)
From Coq Require Import ZArith List Bool Lia.
From CSS Require Import Base.Sx Base.PyList Forest.Spec Forest.Model Forest.Basics Forest.Invariant
  Forest.Correct Forest.Theorems Forest.TerminationDefs Forest.TerminationRun Forest.Run
  Forest.Extractor Forest.ExtractorProofs Forest.ExtractorRun Forest.ExtractorTheorems.
Import ListNotations.

Section MinTotal.
Variable prod : list bkey -> option bool.
Hypothesis prod_total : forall ks, prod ks <> None.

(* ---- never OutOfFuel (no hypothesis on what prod means) ---- *)
Lemma first_prod_shape base : forall rest pre pre' rk,
  first_prod prod base pre rest = Ok (pre', rk) ->
  exists post, pre ++ rest = pre' ++ rk :: post.
Proof.
  induction rest as [|x rest IH]; intros pre pre' rk H; simpl in H; [discriminate|].
  destruct (prod (base ++ pre ++ [x])) as [[|]|] eqn:E; try discriminate.
  - injection H as <- <-. exists rest. reflexivity.
  - destruct (IH _ _ _ H) as (post & Hp). exists post. rewrite <- Hp, <- app_assoc. reflexivity.
Qed.

Lemma first_prod_fuel base : forall rest pre, first_prod prod base pre rest <> OutOfFuel.
Proof.
  induction rest as [|x rest IH]; intros pre; simpl; [discriminate|].
  destruct (prod (base ++ pre ++ [x])) as [[|]|] eqn:E; [discriminate|apply IH|].
  exfalso. exact (prod_total _ E).
Qed.

Lemma phase1_fuel : forall fuel needed maybe others minimizing,
  (length minimizing < fuel)%nat -> phase1 prod fuel needed maybe others minimizing <> OutOfFuel.
Proof.
  induction fuel as [|fuel IH]; intros needed maybe others minimizing Hl; [lia|]. simpl.
  destruct minimizing as [|m0 ms] eqn:Em; [discriminate|]. rewrite <- Em in *.
  destruct (prod (needed ++ maybe ++ others)) as [[|]|] eqn:E; [discriminate| |exact (fun _ => prod_total _ E)].
  destruct (first_prod prod (needed ++ maybe ++ others) [] minimizing) as [[pre rk]| |] eqn:Ef;
    [|exfalso; exact (first_prod_fuel _ _ _ Ef)|discriminate].
  apply IH. destruct (first_prod_shape _ _ _ _ _ Ef) as (post & Hp). simpl in Hp.
  rewrite Hp, app_length in Hl. simpl in Hl. lia.
Qed.

Lemma phase2_fuel : forall rmaybe needed others, phase2 prod needed rmaybe others <> OutOfFuel.
Proof.
  induction rmaybe as [|rk rest IH]; intros needed others; simpl; [discriminate|].
  destruct (prod (needed ++ rev rest ++ others)) as [[|]|] eqn:E; [apply IH|apply IH|].
  exfalso. exact (prod_total _ E).
Qed.

Lemma minimize_key_fuel needed minimizing others :
  minimize_key prod needed minimizing others <> OutOfFuel.
Proof.
  unfold minimize_key.
  destruct (phase1 prod (S (length minimizing)) needed [] others minimizing) as [maybe| |] eqn:E1.
  - apply phase2_fuel.
  - exfalso. apply (phase1_fuel _ _ _ _ _ (Nat.lt_succ_diag_r _) E1).
  - discriminate.
Qed.

Lemma minimize_fuel b0 b1 b2 b3 : minimize prod b0 b1 b2 b3 <> OutOfFuel.
Proof.
  unfold minimize.
  destruct (minimize_key prod [] b0 (b1 ++ b2 ++ b3)) as [n0| |] eqn:E0;
    [|exfalso; exact (minimize_key_fuel _ _ _ E0)|discriminate].
  destruct (minimize_key prod n0 b1 (b2 ++ b3)) as [n1| |] eqn:E1;
    [|exfalso; exact (minimize_key_fuel _ _ _ E1)|discriminate].
  destruct (minimize_key prod n1 b2 b3) as [n2| |] eqn:E2;
    [|exfalso; exact (minimize_key_fuel _ _ _ E2)|discriminate].
  apply minimize_key_fuel.
Qed.

(* ---- total when the candidates are productive ---- *)
Variable P : list bkey -> Prop.
Hypothesis P_mono : forall a b, incl a b -> P a -> P b.
Hypothesis prod_spec : forall ks b, prod ks = Some b -> (b = true <-> P ks).

Lemma first_prod_total base : forall rest pre,
  ~ P (base ++ pre) -> P (base ++ pre ++ rest) ->
  exists pre' rk, first_prod prod base pre rest = Ok (pre', rk).
Proof.
  induction rest as [|x rest IH]; intros pre Hn Hp; simpl.
  - rewrite app_nil_r in Hp. contradiction.
  - destruct (prod (base ++ pre ++ [x])) as [[|]|] eqn:E.
    + eauto.
    + apply IH.
      * exact (prod_false prod P prod_spec _ E).
      * rewrite <- app_assoc. exact Hp.
    + exfalso. exact (prod_total _ E).
Qed.

Lemma phase1_total : forall fuel needed maybe others minimizing,
  (length minimizing < fuel)%nat -> P (needed ++ maybe ++ minimizing ++ others) ->
  exists maybe', phase1 prod fuel needed maybe others minimizing = Ok maybe'.
Proof.
  induction fuel as [|fuel IH]; intros needed maybe others minimizing Hl HP; [lia|]. simpl.
  destruct minimizing as [|m0 ms] eqn:Em; [eauto|]. rewrite <- Em in *.
  destruct (prod (needed ++ maybe ++ others)) as [[|]|] eqn:E; [eauto| |exfalso; exact (prod_total _ E)].
  destruct (first_prod_total (needed ++ maybe ++ others) minimizing []) as (pre & rk & Ef).
  - rewrite app_nil_r. exact (prod_false prod P prod_spec _ E).
  - simpl. eapply P_mono; [|exact HP]. intros x Hx. clear - Hx. inapp. tauto.
  - rewrite Ef.
    destruct (first_prod_spec prod P prod_spec _ _ _ _ _ Ef) as (post & Hp & HP'). simpl in Hp.
    apply IH.
    + rewrite Hp, app_length in Hl. simpl in Hl. lia.
    + eapply P_mono; [|exact HP']. intros x Hx. clear - Hx. inapp. tauto.
Qed.

Lemma phase2_total : forall rmaybe needed others,
  exists needed', phase2 prod needed rmaybe others = Ok needed'.
Proof.
  induction rmaybe as [|rk rest IH]; intros needed others; simpl; [eauto|].
  destruct (prod (needed ++ rev rest ++ others)) as [[|]|] eqn:E; [apply IH|apply IH|].
  exfalso. exact (prod_total _ E).
Qed.

Lemma minimize_key_total needed minimizing others :
  P (needed ++ minimizing ++ others) ->
  exists needed', minimize_key prod needed minimizing others = Ok needed'.
Proof.
  intros HP. unfold minimize_key.
  destruct (phase1_total (S (length minimizing)) needed [] others minimizing
              (Nat.lt_succ_diag_r _) HP) as (maybe & E1).
  rewrite E1. apply phase2_total.
Qed.

Theorem minimize_total b0 b1 b2 b3 : P (b0 ++ b1 ++ b2 ++ b3) ->
  exists res, minimize prod b0 b1 b2 b3 = Ok res.
Proof.
  intros HP. unfold minimize.
  destruct (minimize_key_total [] b0 (b1 ++ b2 ++ b3) HP) as (n0 & E0). rewrite E0.
  destruct (minimize_key_spec prod P P_mono prod_spec _ _ _ _ E0) as (_ & HP0 & _).
  specialize (HP0 HP).
  destruct (minimize_key_total n0 b1 (b2 ++ b3) HP0) as (n1 & E1). rewrite E1.
  destruct (minimize_key_spec prod P P_mono prod_spec _ _ _ _ E1) as (_ & HP1 & _).
  specialize (HP1 HP0).
  destruct (minimize_key_total n1 b2 b3 HP1) as (n2 & E2). rewrite E2.
  destruct (minimize_key_spec prod P P_mono prod_spec _ _ _ _ E2) as (_ & HP2 & _).
  specialize (HP2 HP1).
  apply minimize_key_total. rewrite app_nil_r. exact HP2.
Qed.

End MinTotal.

(* ---- the table-method productivity test always answers ---- *)
Lemma enough_ge fuel ops : (fuel_bound ops <= enough fuel ops)%nat.
Proof. unfold enough, fuel_for. apply Nat.le_max_r. Qed.

Lemma prod_tm_total fuel root ks : prod_tm fuel root ks <> None.
Proof.
  unfold prod_tm. cbv zeta.
  destruct (run_terminates pick0 (map (fun k => AddKey (bk_key k)) ks) _ (enough_ge fuel _)) as [st E].
  rewrite E. discriminate.
Qed.

(* status "out of fuel" is impossible, whatever the universe and the floor `fuel` *)
Theorem extract_never_out_of_fuel fuel root ks : extract fuel root ks <> OutOfFuel.
Proof.
  unfold extract. cbv zeta.
  destruct (run_terminates pick0 (map (fun k => AddKey (bk_key k)) ks) _ (enough_ge fuel _)) as [st E].
  rewrite E. apply minimize_fuel. apply prod_tm_total.
Qed.

(* the pumping sub-universe, sorted into the four buckets, is productive *)
Lemma sub_productive fuel0 root ks st :
  (forall k, In k ks -> (bk_bucket k < 4)%nat) ->
  run pick0 fuel0 init (add_ops ks) = Some st -> Pk root ks ->
  let sub := map (fun i => nth i ks (mkb dummy 0)) (pumping_subuniverse st) in
  Pk root (filter (in_bucket 0) sub ++ filter (in_bucket 1) sub ++
           filter (in_bucket 2) sub ++ filter (in_bucket 3) sub).
Proof.
  intros buckets_ok E HP sub.
  destruct (run_init_rules _ _ _ _ E) as [F R]. rewrite keys_of_add_ops in R.
  destruct (final_dichotomy st F) as [HT Hd]. destruct (final_gbound st F) as [Hg Hgb].
  rewrite R in Hd, Hgb.
  unfold Pk. apply (sub_pumps (map bk_key ks) _ (maxv (fn st)) (gsize st) Hg Hgb HT Hd); auto.
  intros r Hr Hpp Hkp. destruct (In_nth _ _ dummy Hr) as (j & Hj & Ej).
  rewrite nth_bk in Ej. rewrite map_length in Hj.
  apply in_map_iff. exists (nth j ks (mkb dummy 0)). split; auto.
  apply buckets_cover; [|apply buckets_ok, nth_In; auto].
  unfold sub. apply in_map_iff. exists j. split; auto.
  apply (subuniverse_spec _ _ _ _ E). rewrite keys_of_add_ops, map_length. split; auto.
  rewrite nth_bk, Ej. split; auto.
Qed.

(* TOTALITY: when the start class pumps the extractor returns a rule set *)
Theorem extract_total fuel root ks :
  (forall k, In k ks -> (bk_bucket k < 4)%nat) -> Pk root ks ->
  exists res, extract fuel root ks = Ok res.
Proof.
  intros B HP. unfold extract. cbv zeta. fold (add_ops ks).
  destruct (run_terminates pick0 (add_ops ks) _ (enough_ge fuel _)) as [st E]. rewrite E.
  apply (minimize_total (prod_tm fuel root) (prod_tm_total fuel root) (Pk root) (Pk_mono root)
           (prod_tm_spec fuel root)).
  exact (sub_productive _ root ks st B E HP).
Qed.

(* the run of the table method on the extracted keys that check() performs
   always returns: the hypothesis of extract_closed can be discharged *)
Theorem extract_closed_total fuel root ks res :
  (forall k, In k ks -> (bk_bucket k < 4)%nat) -> Pk root ks ->
  extract fuel root ks = Ok res ->
  forall k c, In k res -> mentions_class c k ->
  exists k', In k' res /\ parent (bk_key k') = c.
Proof.
  intros B HP H.
  destruct (run_terminates pick0 (add_ops res) _ (Nat.le_refl _)) as [stS ES].
  exact (extract_closed fuel root ks res H pick0 _ stS ES (extract_productive fuel root ks res B H HP)).
Qed.

(* every class mentioned by the extracted keys pumps w.r.t. the extracted keys alone *)
Theorem extract_all_classes_pump_total fuel root ks res :
  (forall k, In k ks -> (bk_bucket k < 4)%nat) -> Pk root ks ->
  extract fuel root ks = Ok res ->
  forall k c, In k res -> mentions_class c k -> pumps (map bk_key res) c.
Proof.
  intros B HP H.
  destruct (run_terminates pick0 (add_ops res) _ (Nat.le_refl _)) as [stS ES].
  exact (extract_all_classes_pump fuel root ks res H pick0 _ stS ES (extract_productive fuel root ks res B H HP)).
Qed.

Theorem extract_total_correct fuel root ks :
  (forall k, In k ks -> (bk_bucket k < 4)%nat) -> Pk root ks ->
  exists res, extract fuel root ks = Ok res /\
    (forall k, In k res ->
       In k ks /\ pumps (map bk_key ks) (parent (bk_key k)) /\
       forall c s, In (c, s) (kids (bk_key k)) -> pumps (map bk_key ks) c) /\
    Pk root res /\
    (forall i, (i < length res)%nat -> ~ Pk root (firstn i res ++ skipn (S i) res)) /\
    (forall k c, In k res -> mentions_class c k ->
       exists k', In k' res /\ parent (bk_key k') = c).
Proof.
  intros B HP. destruct (extract_total fuel root ks B HP) as [res H].
  exists res. split; [exact H|]. split; [exact (extract_subset fuel root ks res H)|].
  split; [exact (extract_productive fuel root ks res B H HP)|].
  split; [exact (extract_minimal fuel root ks res H)|].
  exact (extract_closed_total fuel root ks res B HP H).
Qed.

(* ---- the `fuel` argument of the extractor model is irrelevant ---- *)
Lemma prod_tm_value fuel root ks :
  prod_tm fuel root ks = Some (pumping_answer (run_total pick0 (add_ops ks)) root).
Proof.
  unfold prod_tm. cbv zeta. fold (add_ops ks).
  rewrite (run_enough_fuel pick0 _ (add_ops ks) (enough_ge fuel _)). reflexivity.
Qed.

Section MinExt.
Variables prod prod' : list bkey -> option bool.
Hypothesis ext : forall ks, prod ks = prod' ks.

Lemma first_prod_ext base : forall rest pre, first_prod prod base pre rest = first_prod prod' base pre rest.
Proof. induction rest as [|x rest IH]; intros pre; simpl; auto. rewrite ext, IH. reflexivity. Qed.

Lemma phase1_ext : forall fuel needed maybe others minimizing,
  phase1 prod fuel needed maybe others minimizing = phase1 prod' fuel needed maybe others minimizing.
Proof.
  induction fuel as [|fuel IH]; intros; simpl; auto.
  destruct minimizing; auto. rewrite ext, first_prod_ext.
  destruct (prod' (needed ++ maybe ++ others)) as [[|]|]; auto.
  destruct (first_prod prod' (needed ++ maybe ++ others) [] (b :: minimizing)) as [[pre rk]| |]; auto.
Qed.

Lemma phase2_ext : forall rmaybe needed others,
  phase2 prod needed rmaybe others = phase2 prod' needed rmaybe others.
Proof.
  induction rmaybe as [|rk rest IH]; intros; simpl; auto. rewrite ext, !IH. reflexivity.
Qed.

Lemma minimize_key_ext needed minimizing others :
  minimize_key prod needed minimizing others = minimize_key prod' needed minimizing others.
Proof.
  unfold minimize_key. rewrite phase1_ext.
  destruct (phase1 prod' (S (length minimizing)) needed [] others minimizing); auto. apply phase2_ext.
Qed.

Lemma minimize_ext b0 b1 b2 b3 : minimize prod b0 b1 b2 b3 = minimize prod' b0 b1 b2 b3.
Proof.
  unfold minimize. rewrite minimize_key_ext.
  destruct (minimize_key prod' [] b0 (b1 ++ b2 ++ b3)); auto. rewrite minimize_key_ext.
  destruct (minimize_key prod' a b1 (b2 ++ b3)); auto. rewrite minimize_key_ext.
  destruct (minimize_key prod' a0 b2 b3); auto. apply minimize_key_ext.
Qed.
End MinExt.

Theorem extract_fuel_irrelevant fuel fuel' root ks : extract fuel root ks = extract fuel' root ks.
Proof.
  unfold extract. cbv zeta. fold (add_ops ks).
  rewrite (run_enough_fuel pick0 _ (add_ops ks) (enough_ge fuel _)).
  rewrite (run_enough_fuel pick0 _ (add_ops ks) (enough_ge fuel' _)).
  apply minimize_ext. intros l. rewrite !prod_tm_value. reflexivity.
Qed.

(* the harness entry point never reports status 1 (out of fuel) *)
Theorem run_c11_never_out_of_fuel inp : run_c11 inp <> L [I 1%Z; L []; I 0%Z].
Proof.
  unfold run_c11. cbv zeta.
  match goal with |- context [prod_tm ?f ?r ?k] =>
    destruct (prod_tm f r k) as [[|]|] eqn:E; [|discriminate|exact (fun _ => prod_tm_total _ _ _ E)] end.
  match goal with |- context [extract ?f ?r ?k] =>
    destruct (extract f r k) as [needed| |] eqn:Ex;
      [discriminate|exact (fun _ => extract_never_out_of_fuel _ _ _ Ex)|discriminate] end.
Qed.
