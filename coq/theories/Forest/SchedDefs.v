(* LAYER S: the schedule-parametric generalisation of layer A (Forest/Model.v).
   DEFINITIONS only; the proofs are in SchedInvariant.v, SchedCorrect.v,
   SchedTermination.v.

   Layer A fixes three choices that the code makes differently (or leaves to
   the Python runtime).  Layer S leaves them open; every theorem of layer A is
   re-proved for EVERY resolution of them:

   (1) the RE-QUEUE list.  After the value of class c changed, layer A appends
       `requeue st f' c` = the rules mentioning c that can fire, once each, in
       index order.  Layer S appends ANY list l with `rq_ok`: it contains every
       index of `requeue st f' c`, contains only rule indices, and is not longer
       than slots(rules) = SUM_r (1 + arity r)  (so duplicates, rules that cannot
       fire, any order are allowed).  The code's list (built from
       _rules_pumping_class / _rules_using_class, one entry per registered
       (rule, child) pair, tested on the half-updated cached row) is one such l.
   (2) the order in which _correct_gap moves the held SET to the queue
       (`self._processing_queue.extend(<set>)`): any permutation h' of `held`.
   (3) how far the value table is grown by the lookups of add_rule_key: layer A
       (extend_key) always grows it to cover the children; the code only reads
       the children when the parent is finite.  Layer S allows any zero-extension
       f1 with `ext_ok`.
   set.pop() (the oracle `pick` of layer A) is any index n < |held|.

   Layer A is the instance l := requeue, h' := held, f1 := extend_key
   (SchedCorrect.A_run_is_S); layer B (ModelB.v) is an instance by RefineB.v. *)
From Coq Require Import ZArith List Bool Permutation.
From CSS Require Import Base.PyList Forest.Spec Forest.Model Forest.TerminationDefs.
Import ListNotations.
Open Scope Z_scope.

(* number of (rule) + (rule, child) registrations: bounds the code's re-queue list *)
Definition slots (ks : list fkey) : Z := fold_right (fun r a => 1 + zl (kids r) + a) 0 ks.

Definition rq_ok (st : tm) (f' : vals) (c : nat) (l : list nat) : Prop :=
  (forall j, In j (requeue st f' c) -> In j l) /\
  (forall j, In j l -> (j < length (rules st))%nat) /\
  zl l <= slots (rules st).

(* TableMethod._correct_gap, the held set released in the order h' *)
Definition correct_gap_s (st : tm) (h' : list nat) : tm :=
  let k := preimage_gap (fn st) (gsize st) in
  let new := (k, k + gsize st - 1) in
  if snd (cgap st) <? snd new
  then mktm (rules st) (fn st) (gsize st) new (queue st ++ h') []
  else mktm (rules st) (fn st) (gsize st) new (queue st) (held st).

(* TableMethod._increase_value, re-queue list l *)
Definition increase_value_s (st : tm) (c i : nat) (h' l : list nat) : tm :=
  match getf (fn st) c with
  | None => st
  | Some v =>
      if snd (cgap st) <? v
      then mktm (rules st) (fn st) (gsize st) (cgap st) (queue st) (add_held (held st) i)
      else
        let f' := upd (fn st) c (Some (v + 1)) in
        let st1 := mktm (rules st) f' (gsize st) (cgap st) (queue st) (held st) in
        let st2 := if fst (cgap st) =? preimage_gap f' (gsize st) then st1 else correct_gap_s st1 h' in
        mktm (rules st2) (fn st2) (gsize st2) (cgap st2) (queue st2 ++ l) (held st2)
  end.

(* TableMethod._set_infinite, re-queue list l *)
Definition set_infinite_s (st : tm) (c : nat) (l : list nat) : tm :=
  match getf (fn st) c with
  | None => st
  | Some _ =>
      mktm (rules st) (upd (fn st) c None) (gsize st) (cgap st) (queue st ++ l) (held st)
  end.

Definition pop_queue (st : tm) (q : list nat) : tm :=
  mktm (rules st) (fn st) (gsize st) (cgap st) q (held st).

(* one iteration of the `while` loop of _process_queue, any schedule *)
Inductive sstep : tm -> tm -> Prop :=
| ss_skip : forall st i q,
    queue st = i :: q -> can_fire (fn st) (rule_at st i) = false ->
    sstep st (pop_queue st q)
| ss_fire : forall st i q h' l,
    queue st = i :: q -> can_fire (fn st) (rule_at st i) = true ->
    Permutation h' (held st) ->
    (forall v, getf (fn st) (parent (rule_at st i)) = Some v ->
               rq_ok st (upd (fn st) (parent (rule_at st i)) (Some (v + 1))) (parent (rule_at st i)) l) ->
    sstep st (increase_value_s (pop_queue st q) (parent (rule_at st i)) i h' l)
| ss_inf : forall st n l,
    queue st = [] -> (n < length (held st))%nat ->
    (getf (fn st) (parent (rule_at st (nth n (held st) O))) <> None ->
     rq_ok st (upd (fn st) (parent (rule_at st (nth n (held st) O))) None)
           (parent (rule_at st (nth n (held st) O))) l) ->
    sstep st (set_infinite_s (mktm (rules st) (fn st) (gsize st) (cgap st) [] (remove_at n (held st)))
                             (parent (rule_at st (nth n (held st) O))) l).

Inductive sstar : tm -> tm -> Prop :=
| sstar_refl : forall st, sstar st st
| sstar_step : forall st st1 st', sstep st st1 -> sstar st1 st' -> sstar st st'.

(* a complete _process_queue call *)
Definition sproc (st st' : tm) : Prop := sstar st st' /\ queue st' = [] /\ held st' = [].

(* admissible growth of the value table by the lookups of add_rule_key *)
Definition ext_ok (f f1 : vals) (r : fkey) : Prop :=
  (forall c, getf f1 c = getf f c) /\
  (length f <= length f1)%nat /\ (length f1 <= length (extend_key f r))%nat /\
  (parent r < length f1)%nat /\
  (getf f (parent r) <> None -> forall c s, In (c, s) (kids r) -> (c < length f1)%nat).

(* the state add_rule_key hands to _process_queue *)
Definition pre_process_s (st : tm) (r : fkey) (f1 : vals) (h' : list nat) : tm :=
  let st1 := mktm (rules st ++ [r]) f1 (gsize st) (cgap st) (queue st) (held st) in
  let st2 := if gsize st <? max_abs r
             then correct_gap_s (mktm (rules st1) f1 (max_abs r) (cgap st1) (queue st1) (held st1)) h'
             else st1 in
  match getf (fn st2) (parent r) with
  | None => st2
  | Some _ => mktm (rules st2) (fn st2) (gsize st2) (cgap st2)
                   (queue st2 ++ [length (rules st)]) (held st2)
  end.

(* whole histories, any schedule *)
Inductive sruns : tm -> list op -> tm -> Prop :=
| sr_nil : forall st, sruns st [] st
| sr_add : forall st r f1 h' st1 ops st',
    ext_ok (fn st) f1 r -> Permutation h' (held st) ->
    sproc (pre_process_s st r f1 h') st1 -> sruns st1 ops st' ->
    sruns st (AddKey r :: ops) st'
| sr_query : forall st c ops st',
    sruns (fst (is_pumping st c)) ops st' -> sruns st (IsPumping c :: ops) st'.

(* ---- the measure and the fuel bound of layer S ----
   as TerminationDefs.mu/pbound with the weight 3|rules|+1 replaced by
   2*slots + |rules| + 1: an event appends at most slots indices to the queue *)
Definition wt_s (st : tm) : Z := 2 * slots (rules st) + zl (rules st) + 1.
Definition mu_s (st : tm) : Z :=
  wt_s st * pot (vbound st) (fn st) + 2 * zl (queue st) + zl (held st).

Definition pbound_s (R K n g : Z) : Z := (2 * K + R + 1) * (n * ((n + 1) * g + 2)) + 3.
Definition fuel_boundSZ (ops : list op) : Z :=
  pbound_s (zl (keys_of ops)) (slots (keys_of ops)) (max_label ops + 1) (max_shift ops).
Definition fuel_boundS (ops : list op) : nat := Z.to_nat (fuel_boundSZ ops).
