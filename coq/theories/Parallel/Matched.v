(* What "the output is a matched pair" means for two label maps, and the soundness of the walk
   _maps_are_matched (fix 97589e3): if the walk succeeds over a sound matching_info, the
   two label maps are a matched pair. *)
From Coq Require Import ZArith List Bool Lia.
From CSS Require Import Base.PyList Parallel.Model Parallel.Basics Parallel.First Parallel.Second.
Import ListNotations.
Open Scope Z_scope.
Local Arguments Nat.eqb : simpl never.

Section Matched.
Variables s1 s2 : side.
Variables d1 d2 : smap.

(* the two labels carry matching rules and their children are related, position by position, through
   a permutation o:  child o[j] of the first  ~  child j of the second *)
Definition node_ok (R : lpair -> Prop) (a b : nat) : Prop :=
  exists c1 c2, sm_get d1 a = Some c1 /\ sm_get d2 b = Some c2 /\
  ( (c1 = [] /\ c2 = [] /\ atoms_match s1 s2 a b = true)
    \/ (exists k1 k2 o,
          In (c1, k1) (rules_of s1 a) /\ In (c2, k2) (rules_of s2 b) /\ rule_match k1 k2 = true /\
          c1 <> [] /\ length c2 = length c1 /\ perm_ok (length c1) o /\
          forall j, (j < length c1)%nat ->
            exists i, nth_error o j = Some (Z.of_nat i) /\ (i < length c1)%nat /\
                      R (nth i c1 O, nth j c2 O)) ).

Definition bisim (R : lpair -> Prop) : Prop := forall a b, R (a, b) -> node_ok R a b.

(* labels reachable from a root through a label map *)
Inductive reach (d : smap) (root : nat) : nat -> Prop :=
| reach_root : reach d root root
| reach_step l c x : reach d root l -> sm_get d l = Some c -> In x c -> reach d root x.

Definition closed_map (s : side) (d : smap) : Prop :=
  forall l, reach d (s_root s) l -> exists c, sm_get d l = Some c /\ good s l c.

(* THE notion: both maps are closed from their roots and consist of rules of their universes (the
   empty tuple for atoms), and the two unfoldings are isomorphic: some relation containing the pair
   of roots relates only labels with matching rules (same constructor class, resp. same atom) whose
   children are related through a permutation *)
Definition matched_pair : Prop :=
  closed_map s1 d1 /\ closed_map s2 d2 /\ exists R, R (s_root s1, s_root s2) /\ bisim R.

Lemma node_ok_mono (R R' : lpair -> Prop) a b :
  (forall p, R p -> R' p) -> node_ok R a b -> node_ok R' a b.
Proof.
  intros H [c1 [c2 [G1 [G2 [Ha|Hr]]]]]; exists c1, c2; split; auto; split; auto.
  right. destruct Hr as [k1 [k2 [o [A [B [C [D [E [F G]]]]]]]]].
  exists k1, k2, o. repeat (split; auto).
  intros j Hj. destruct (G j Hj) as [i [I1 [I2 I3]]]. exists i. auto.
Qed.

(* ---------------------------------------------------------------- a bisimulation closes the maps *)
Lemma bisim_left (R : lpair -> Prop) : bisim R -> R (s_root s1, s_root s2) ->
  forall l, reach d1 (s_root s1) l -> exists b, R (l, b).
Proof.
  intros Hb Hr l H. induction H as [|l c x H IH G Hx].
  - eauto.
  - destruct IH as [b Hlb]. destruct (Hb _ _ Hlb) as [c1 [c2 [G1 [G2 [Ha|Hrule]]]]].
    + destruct Ha as [-> _]. rewrite G1 in G. inversion G; subst. destruct Hx.
    + destruct Hrule as [k1 [k2 [o [_ [_ [_ [_ [Hlen [Hp Hch]]]]]]]]].
      rewrite G1 in G. inversion G; subst c. clear G.
      apply In_nth_error in Hx. destruct Hx as [i Hi].
      assert (Hil : (i < length c1)%nat) by (apply nth_error_Some; congruence).
      destruct (perm_ok_facts _ _ Hp) as [_ [_ Hs]]. destruct (Hs i Hil) as [j [Hj Hoj]].
      destruct (Hch j Hj) as [i' [E1 [E2 E3]]]. rewrite Hoj in E1. inversion E1.
      apply Nat2Z.inj in H1. subst i'. exists (nth j c2 O).
      rewrite (nth_error_nth _ _ O Hi) in E3. exact E3.
Qed.

Lemma bisim_right (R : lpair -> Prop) : bisim R -> R (s_root s1, s_root s2) ->
  forall l, reach d2 (s_root s2) l -> exists a, R (a, l).
Proof.
  intros Hb Hr l H. induction H as [|l c x H IH G Hx].
  - eauto.
  - destruct IH as [a Hal]. destruct (Hb _ _ Hal) as [c1 [c2 [G1 [G2 [Ha|Hrule]]]]].
    + destruct Ha as [_ [-> _]]. rewrite G2 in G. inversion G; subst. destruct Hx.
    + destruct Hrule as [k1 [k2 [o [_ [_ [_ [_ [Hlen [Hp Hch]]]]]]]]].
      rewrite G2 in G. inversion G; subst c. clear G.
      apply In_nth_error in Hx. destruct Hx as [j Hj].
      assert (Hjl : (j < length c1)%nat) by (rewrite <- Hlen; apply nth_error_Some; congruence).
      destruct (Hch j Hjl) as [i [E1 [E2 E3]]]. exists (nth i c1 O).
      rewrite (nth_error_nth _ _ O Hj) in E3. exact E3.
Qed.

Lemma node_ok_good (R : lpair -> Prop) a b : node_ok R a b ->
  (exists c, sm_get d1 a = Some c /\ good s1 a c) /\ (exists c, sm_get d2 b = Some c /\ good s2 b c).
Proof.
  intros [c1 [c2 [G1 [G2 [[-> [-> Ha]]|Hr]]]]].
  - apply atoms_match_atoms in Ha. destruct Ha as [A B].
    split; eexists; split; eauto; left; auto.
  - destruct Hr as [k1 [k2 [o [A [B _]]]]]. split; eexists; split; eauto; right; eauto.
Qed.

Theorem bisim_matched (R : lpair -> Prop) : R (s_root s1, s_root s2) -> bisim R -> matched_pair.
Proof.
  intros Hr Hb. split; [|split].
  - intros l Hl. destruct (bisim_left R Hb Hr l Hl) as [b Hlb].
    apply (node_ok_good R l b). apply Hb. exact Hlb.
  - intros l Hl. destruct (bisim_right R Hb Hr l Hl) as [a Hal].
    apply (node_ok_good R a l). apply Hb. exact Hal.
  - exists R. auto.
Qed.

(* ---------------------------------------------------------------- the walk *)
(* what zip((children1[i] for i in order), children2) yields *)
Lemma child_pairs_spec c1 : forall o c2 ps, child_pairs c1 c2 o = Some ps ->
  forall j x y, nth_error o j = Some x -> nth_error c2 j = Some y ->
    exists z, py_nth c1 x = Some z /\ In (z, y) ps.
Proof.
  induction o as [|i o IH]; intros c2 ps H j x y Hx Hy.
  - destruct j; discriminate.
  - destruct c2 as [|b c2]; [destruct j; discriminate|].
    simpl in H. destruct (py_nth c1 i) as [a|] eqn:Ea; [|discriminate].
    destruct (child_pairs c1 c2 o) as [r|] eqn:Er; [|discriminate]. inversion H; subst ps. clear H.
    destruct j as [|j]; simpl in Hx, Hy.
    + inversion Hx; inversion Hy; subst. exists a. split; auto. left. reflexivity.
    + destruct (IH _ _ Er j x y Hx Hy) as [z [Z1 Z2]]. exists z. split; auto. right. exact Z2.
Qed.

Variable m : minfo.
Hypothesis Hm : mi_sound s1 s2 m.

Definition node_in (S : list lpair) (p : lpair) : Prop := node_ok (fun q => In q S) (fst p) (snd p).

Lemma walk_sound fuel : forall stack seen seen',
  (forall p, In p seen -> node_in (seen ++ stack) p) ->
  walk m d1 d2 fuel stack seen = Ok (true, seen') ->
  (forall p, In p (seen ++ stack) -> In p seen') /\ (forall p, In p seen' -> node_in seen' p).
Proof.
  induction fuel as [|f IH]; intros stack seen seen' Hinv H; [discriminate|].
  simpl in H. destruct stack as [|[a b] rest].
  - inversion H; subst seen'. rewrite app_nil_r in *. split; auto.
  - destruct (mem_pair (a, b) seen) eqn:Emem.
    + apply mem_pair_In in Emem.
      assert (Hinv' : forall p, In p seen -> node_in (seen ++ rest) p).
      { intros p Hp. eapply node_ok_mono; [|apply Hinv; exact Hp].
        intros q Hq. simpl in Hq. apply in_app_or in Hq. apply in_or_app.
        destruct Hq as [Hq|[<-|Hq]]; auto. }
      destruct (IH _ _ _ Hinv' H) as [A B]. split; auto.
      intros p Hp. apply A. apply in_app_or in Hp. apply in_or_app.
      destruct Hp as [Hp|[<-|Hp]]; auto.
    + destruct (sm_get d1 a) as [c1|] eqn:G1; [|discriminate].
      destruct (sm_get d2 b) as [c2|] eqn:G2; [|discriminate].
      destruct (mi_get m (a, b)) as [d|] eqn:Gm; [|discriminate].
      destruct (inner_get d (c1, c2)) as [o|] eqn:Go; [|discriminate].
      destruct (child_pairs c1 c2 o) as [ps|] eqn:Ecp; [|discriminate].
      pose proof (Hm _ _ _ _ _ Gm (inner_get_In _ _ _ Go)) as Hs.
      assert (Hinv' : forall p, In p ((a, b) :: seen) -> node_in (((a, b) :: seen) ++ rev ps ++ rest) p).
      { intros p [<-|Hp].
        - unfold node_in. simpl. exists c1, c2. split; auto. split; auto.
          destruct Hs as [[E [_ Hat]]|[Hpc [Hne Hp]]].
          + inversion E; subst. left. auto.
          + right. simpl in Hne, Hp.
            destruct (potential_children_spec _ _ _ _ _ Hpc) as [k1 [k2 [A [B [C D]]]]]. simpl in A, B, C.
            exists k1, k2, o. repeat (split; auto).
            intros j Hj. destruct Hp as [Hlen Hsurj].
            destruct (nth_error o j) as [x|] eqn:Ex.
            2:{ apply nth_error_None in Ex. lia. }
            destruct (perm_ok_facts _ _ (conj Hlen Hsurj)) as [_ [Hrange _]].
            pose proof (Hrange x (nth_error_In _ _ Ex)) as Hx.
            exists (Z.to_nat x). rewrite Z2Nat.id by lia. split; [reflexivity|]. split; [lia|].
            destruct (nth_error c2 j) as [y|] eqn:Ey.
            2:{ apply nth_error_None in Ey. lia. }
            destruct (child_pairs_spec _ _ _ _ Ecp j x y Ex Ey) as [z [Z1 Z2]].
            replace x with (Z.of_nat (Z.to_nat x)) in Z1 by lia. rewrite py_nth_nat in Z1 by lia.
            rewrite (nth_error_nth _ _ O Z1), (nth_error_nth _ _ O Ey).
            right. apply in_or_app. right. apply in_or_app. left. apply in_rev in Z2.
            rewrite rev_involutive in Z2 || idtac. apply in_rev. rewrite rev_involutive. apply in_rev in Z2. exact Z2.
        - eapply node_ok_mono; [|apply Hinv; exact Hp].
          intros q Hq. simpl. apply in_app_or in Hq. destruct Hq as [Hq|[<-|Hq]]; auto.
          + right. apply in_or_app. auto.
          + right. apply in_or_app. right. apply in_or_app. auto. }
      destruct (IH _ _ _ Hinv' H) as [A B]. split; auto.
      intros p Hp. apply A. simpl. apply in_app_or in Hp.
      destruct Hp as [Hp|[<-|Hp]]; auto.
      * right. apply in_or_app. auto.
      * right. apply in_or_app. right. apply in_or_app. auto.
Qed.

Theorem walk_matched fuel seen :
  walk m d1 d2 fuel [(s_root s1, s_root s2)] [] = Ok (true, seen) -> matched_pair.
Proof.
  intros H. destruct (walk_sound fuel _ _ _ (fun p (F : In p []) => match F with end) H) as [A B].
  apply (bisim_matched (fun q => In q seen)).
  - apply A. left. reflexivity.
  - intros a b Hab. apply (B (a, b) Hab).
Qed.

End Matched.
