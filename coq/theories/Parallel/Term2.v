(* Termination of the second search of ParallelSpecFinder, and totality of its find(): with fuel above
   the number of pairs of labels, find() answers None or two label maps. *)
From Coq Require Import ZArith List Bool Lia.
From CSS Require Import Base.PyList Parallel.Model Parallel.Basics Parallel.First Parallel.Second Parallel.Term.
Import ListNotations.
Open Scope Z_scope.
Local Arguments Nat.eqb : simpl never.

(* ---------------------------------------------------------------- membership in label maps *)
Lemma sm_mem_set m k v l : sm_mem (sm_set m k v) l = Nat.eqb k l || sm_mem m l.
Proof. unfold sm_mem. rewrite sm_get_set. destruct (Nat.eqb k l); reflexivity. Qed.

Lemma sm_mem_del m k l : l <> k -> sm_mem (sm_del m k) l = sm_mem m l.
Proof.
  intros Hl. unfold sm_mem, sm_get. induction m as [|[k' v'] t IH]; simpl; auto.
  destruct (Nat.eqb k' k) eqn:E; simpl.
  - apply Nat.eqb_eq in E. subst k'. destruct (Nat.eqb k l) eqn:E2; auto.
    apply Nat.eqb_eq in E2. congruence.
  - destruct (Nat.eqb k' l); auto.
Qed.
Lemma sm_mem_del_all ks : forall m l, ~ In l ks -> sm_mem (sm_del_all m ks) l = sm_mem m l.
Proof.
  unfold sm_del_all. induction ks as [|k ks IH]; intros m l Hl; simpl; auto.
  rewrite IH by (intros H; apply Hl; right; exact H).
  apply sm_mem_del. intros ->. apply Hl. left. reflexivity.
Qed.

Definition keeps (st st' : sstate) : Prop :=
  (forall l, sm_mem (sp1 st) l = true -> sm_mem (sp1 st') l = true) /\
  (forall l, sm_mem (sp2 st) l = true -> sm_mem (sp2 st') l = true).
Definition fresh (st : sstate) (x y : list nat) : Prop :=
  (forall l, In l x -> sm_mem (sp1 st) l = false) /\ (forall l, In l y -> sm_mem (sp2 st) l = false).

Lemma keeps_refl st : keeps st st.
Proof. split; auto. Qed.
Lemma keeps_trans a b c : keeps a b -> keeps b c -> keeps a c.
Proof. intros [A1 A2] [B1 B2]. split; auto. Qed.
Lemma fresh_back base st x y : keeps base st -> fresh st x y -> fresh base x y.
Proof.
  intros [K1 K2] [F1 F2]. split; intros l Hl.
  - destruct (sm_mem (sp1 base) l) eqn:E; auto. specialize (F1 l Hl). rewrite (K1 _ E) in F1. discriminate.
  - destruct (sm_mem (sp2 base) l) eqn:E; auto. specialize (F2 l Hl). rewrite (K2 _ E) in F2. discriminate.
Qed.
Lemma fold_nset_In a tc l : In l (fold_right nset_add tc a) -> In l a \/ In l tc.
Proof.
  induction a as [|x a IH]; simpl; auto. intros H. apply nset_add_In in H.
  destruct H as [->|H]; auto. destruct (IH H); auto.
Qed.

(* bindings present when a call starts are present when it returns; what it reports as newly
   assigned was unassigned when it started *)
Definition call3_ok (call : nat -> nat -> sstate -> res rec_out) : Prop :=
  forall a b st r st' x y, call a b st = Ok (r, st', x, y) -> keeps st st' /\ fresh st x y.

Lemma all_children_keeps call : call3_ok call ->
  forall ps base st tc1 tc2 r st' x y,
    all_children call ps st tc1 tc2 = Ok (r, st', x, y) ->
    keeps base st -> fresh base tc1 tc2 -> keeps base st' /\ fresh base x y.
Proof.
  intros Hc. induction ps as [|[a b] ps IH]; intros base st tc1 tc2 r st' x y H Hk Hf.
  - simpl in H. inversion H; subst. auto.
  - simpl in H. destruct (call a b st) as [[[[[|] st1] a1] a2]| |e] eqn:E; try discriminate.
    + destruct (Hc _ _ _ _ _ _ _ E) as [K F].
      apply (IH base _ _ _ _ _ _ _ H); [eapply keeps_trans; eauto|].
      destruct (fresh_back _ _ _ _ Hk F) as [F1 F2]. destruct Hf as [G1 G2].
      split; intros l Hl; apply fold_nset_In in Hl; destruct Hl; auto.
    + inversion H; subst. destruct (Hc _ _ _ _ _ _ _ E) as [K F].
      split; [eapply keeps_trans; eauto|exact Hf].
Qed.

Lemma rec_loop_keeps call m id1 id2 entry : call3_ok call ->
  forall cs st r st' x y,
    rec_loop call m id1 id2 (sm_mem (sp1 entry) id1) (sm_mem (sp2 entry) id2) cs st = Ok (r, st', x, y) ->
    keeps entry st -> keeps entry st' /\ fresh entry x y.
Proof.
  intros Hc. induction cs as [|[c o] cs IH]; intros st r st' x y H Hk.
  - simpl in H. inversion H; subst. split; [exact Hk|split; intros l []].
  - simpl in H. destruct (negb (cand_ok (sp1 st) (sp2 st) id1 id2 c)); [eapply IH; eauto|].
    destruct (child_pairs (fst c) (snd c) o) as [ps|]; [|discriminate].
    set (st0 := mkS (sm_set (sp1 st) id1 (fst c)) (sm_set (sp2 st) id2 (snd c))) in *.
    assert (Hk0 : keeps entry st0).
    { destruct Hk as [K1 K2]. split; intros l Hl; unfold st0; simpl; rewrite sm_mem_set.
      - rewrite (K1 _ Hl). apply orb_true_r.
      - rewrite (K2 _ Hl). apply orb_true_r. }
    destruct (all_children call ps st0 [] []) as [[[[[|] st1] tc1] tc2]| |e] eqn:E; try discriminate.
    + inversion H; subst. clear H.
      destruct (all_children_keeps call Hc _ entry _ _ _ _ _ _ _ E Hk0) as [K [F1 F2]]; [split; intros l []|].
      split; [exact K|]. split.
      * destruct (sm_mem (sp1 entry) id1) eqn:R; [exact F1|].
        intros l Hl. apply nset_add_In in Hl. destruct Hl as [->|Hl]; auto.
      * destruct (sm_mem (sp2 entry) id2) eqn:R; [exact F2|].
        intros l Hl. apply nset_add_In in Hl. destruct Hl as [->|Hl]; auto.
    + destruct (all_children_keeps call Hc _ entry _ _ _ _ _ _ _ E Hk0) as [[K1 K2] [F1 F2]]; [split; intros l []|].
      eapply IH; [exact H|]. split; simpl; intros l Hl.
      * assert (Hn : ~ In l tc1) by (intros Hin; rewrite (F1 _ Hin) in Hl; discriminate).
        destruct (sm_mem (sp1 entry) id1) eqn:R.
        -- rewrite sm_mem_del_all by exact Hn. apply K1. exact Hl.
        -- rewrite sm_mem_del by (intros ->; congruence). rewrite sm_mem_del_all by exact Hn. apply K1. exact Hl.
      * assert (Hn : ~ In l tc2) by (intros Hin; rewrite (F2 _ Hin) in Hl; discriminate).
        destruct (sm_mem (sp2 entry) id2) eqn:R.
        -- rewrite sm_mem_del_all by exact Hn. apply K2. exact Hl.
        -- rewrite sm_mem_del by (intros ->; congruence). rewrite sm_mem_del_all by exact Hn. apply K2. exact Hl.
Qed.

Lemma rec2_keeps m fuel : call3_ok (rec2 m fuel).
Proof.
  induction fuel as [|f IH]; intros a b st r st' x y H; [discriminate|].
  simpl in H.
  destruct (inconsistent m a b (sp1 st) (sp2 st)).
  { inversion H; subst. split; [apply keeps_refl|split; intros l []]. }
  destruct (is_atom_pair m a b).
  { inversion H; subst. split; [|split; intros l []].
    split; intros l Hl; simpl; rewrite sm_mem_set, Hl; apply orb_true_r. }
  destruct (sm_mem (sp1 st) a && sm_mem (sp2 st) b).
  { inversion H; subst. split; [apply keeps_refl|split; intros l []]. }
  destruct (mi_get m (a, b)) as [d|]; [|discriminate].
  eapply rec_loop_keeps; eauto. apply keeps_refl.
Qed.

(* ---------------------------------------------------------------- termination *)
Section Term2.
Variables s1 s2 : side.
Variable m : minfo.
Hypothesis Hm : mi_sound s1 s2 m.

Notation P := (all_pairs s1 s2).

Definition assigned (S : list lpair) (st : sstate) : Prop :=
  forall p, In p S -> sm_mem (sp1 st) (fst p) = true /\ sm_mem (sp2 st) (snd p) = true.

Lemma assigned_keeps S st st' : assigned S st -> keeps st st' -> assigned S st'.
Proof. intros H [K1 K2] p Hp. destruct (H p Hp). split; auto. Qed.

Definition nf2 (call : nat -> nat -> sstate -> res rec_out) (S : list lpair) : Prop :=
  forall a b st, In (a, b) P -> assigned S st -> call a b st <> OutOfFuel.

Lemma all_children_nf call S : call3_ok call -> nf2 call S ->
  forall ps st tc1 tc2, (forall p, In p ps -> In p P) -> assigned S st ->
    all_children call ps st tc1 tc2 <> OutOfFuel.
Proof.
  intros Hc Hnf. induction ps as [|[a b] ps IH]; intros st tc1 tc2 Hps Has; simpl; [discriminate|].
  pose proof (Hnf a b st (Hps _ (or_introl eq_refl)) Has) as Hn.
  destruct (call a b st) as [[[[[|] st1] a1] a2]| |e] eqn:E; try discriminate; try contradiction.
  apply IH; [intros p Hp; apply Hps; right; exact Hp|].
  eapply assigned_keeps; eauto. apply (Hc _ _ _ _ _ _ _ E).
Qed.

Lemma py_nth_In {A} (l : list A) i x : py_nth l i = Some x -> In x l.
Proof.
  unfold py_nth. destruct ((0 <=? i) && (i <? zlen l)); [apply nth_error_In|].
  destruct ((i <? 0) && (- zlen l <=? i)); [apply nth_error_In|discriminate].
Qed.
Lemma child_pairs_In c1 : forall o c2 ps x y, child_pairs c1 c2 o = Some ps -> In (x, y) ps -> In x c1 /\ In y c2.
Proof.
  induction o as [|i o IH]; intros c2 ps x y H Hin.
  - destruct c2; simpl in H; inversion H; subst; destruct Hin.
  - destruct c2 as [|b c2]; simpl in H.
    + destruct (py_nth c1 i); inversion H; subst; destruct Hin.
    + destruct (py_nth c1 i) as [a|] eqn:Ea; [|discriminate].
      destruct (child_pairs c1 c2 o) as [r|] eqn:Er; [|discriminate]. inversion H; subst.
      destruct Hin as [E|Hin].
      * inversion E; subst. split; [eapply py_nth_In; eauto|left; reflexivity].
      * destruct (IH _ _ _ _ Er Hin). split; auto. right. assumption.
Qed.

Lemma rec_loop_nf call id1 id2 entry S : call3_ok call -> nf2 call ((id1, id2) :: S) ->
  forall cs, (forall c o, In (c, o) cs -> entry_sound s1 s2 id1 id2 c o) ->
  forall st, keeps entry st -> assigned S entry ->
    rec_loop call m id1 id2 (sm_mem (sp1 entry) id1) (sm_mem (sp2 entry) id2) cs st <> OutOfFuel.
Proof.
  intros Hc Hnf. induction cs as [|[c o] cs IH]; intros Hcs st Hk Has; simpl; [discriminate|].
  assert (Hcs' : forall c o, In (c, o) cs -> entry_sound s1 s2 id1 id2 c o) by (intros; apply Hcs; right; auto).
  destruct (negb (cand_ok (sp1 st) (sp2 st) id1 id2 c)); [apply IH; auto|].
  destruct (child_pairs (fst c) (snd c) o) as [ps|] eqn:Ecp; [|discriminate].
  set (st0 := mkS (sm_set (sp1 st) id1 (fst c)) (sm_set (sp2 st) id2 (snd c))).
  assert (Hk0 : keeps entry st0).
  { destruct Hk as [K1 K2]. split; intros l Hl; unfold st0; simpl; rewrite sm_mem_set.
    - rewrite (K1 _ Hl). apply orb_true_r.
    - rewrite (K2 _ Hl). apply orb_true_r. }
  assert (Has0 : assigned ((id1, id2) :: S) st0).
  { intros p [<-|Hp].
    - unfold st0. simpl. rewrite !sm_mem_set, !Nat.eqb_refl. auto.
    - apply (assigned_keeps S entry st0 Has Hk0 p Hp). }
  assert (Hps : forall p, In p ps -> In p P).
  { intros [x y] Hp. destruct (child_pairs_In _ _ _ _ _ _ Ecp Hp) as [Hx Hy].
    destruct (Hcs c o (or_introl eq_refl)) as [[-> _]|[Hpc _]]; [destruct Hx|].
    destruct (potential_children_spec _ _ _ _ _ Hpc) as [k1 [k2 [R1 [R2 _]]]].
    apply in_prod; eapply rules_of_labels; eauto. }
  pose proof (all_children_nf call _ Hc Hnf ps st0 [] [] Hps Has0) as Hn.
  destruct (all_children call ps st0 [] []) as [[[[[|] st1] tc1] tc2]| |e] eqn:E; try discriminate; try contradiction.
  destruct (all_children_keeps call Hc _ entry _ _ _ _ _ _ _ E Hk0) as [[K1 K2] [F1 F2]]; [split; intros l []|].
  apply IH; auto. split; simpl; intros l Hl.
  - assert (Hn' : ~ In l tc1) by (intros Hin; rewrite (F1 _ Hin) in Hl; discriminate).
    destruct (sm_mem (sp1 entry) id1) eqn:R.
    + rewrite sm_mem_del_all by exact Hn'. apply K1. exact Hl.
    + rewrite sm_mem_del by (intros ->; congruence). rewrite sm_mem_del_all by exact Hn'. apply K1. exact Hl.
  - assert (Hn' : ~ In l tc2) by (intros Hin; rewrite (F2 _ Hin) in Hl; discriminate).
    destruct (sm_mem (sp2 entry) id2) eqn:R.
    + rewrite sm_mem_del_all by exact Hn'. apply K2. exact Hl.
    + rewrite sm_mem_del by (intros ->; congruence). rewrite sm_mem_del_all by exact Hn'. apply K2. exact Hl.
Qed.

Lemma rec2_terminates : forall fuel a b st S,
  In (a, b) P -> NoDup S -> incl S P -> assigned S st ->
  (length P - length S < fuel)%nat -> rec2 m fuel a b st <> OutOfFuel.
Proof.
  induction fuel as [|f IH]; intros a b st S Hin Hnd Hincl Has Hf; [lia|]. simpl.
  destruct (inconsistent m a b (sp1 st) (sp2 st)); [discriminate|].
  destruct (is_atom_pair m a b); [discriminate|].
  destruct (sm_mem (sp1 st) a && sm_mem (sp2 st) b) eqn:Eboth; [discriminate|].
  destruct (mi_get m (a, b)) as [d|] eqn:G; [|discriminate].
  assert (Hnot : ~ In (a, b) S).
  { intros HS. destruct (Has _ HS) as [A B]. simpl in A, B. rewrite A, B in Eboth. discriminate. }
  assert (Hlt : (length S < length P)%nat).
  { destruct (Nat.lt_ge_cases (length S) (length P)) as [?|Hge]; [assumption|].
    exfalso. apply Hnot. apply (NoDup_length_incl Hnd Hge Hincl). exact Hin. }
  apply (rec_loop_nf (rec2 m f) a b st S (rec2_keeps m f)).
  - intros x y st0 Hxy Has0. apply (IH x y st0 ((a, b) :: S)); auto.
    + constructor; auto.
    + intros p [<-|Hp]; auto.
    + change (length ((a, b) :: S)) with (Datatypes.S (length S)). lia.
  - intros c o Hc. eapply Hm; eauto.
  - apply keeps_refl.
  - exact Has.
Qed.

End Term2.

(* ---------------------------------------------------------------- find() of ParallelSpecFinder is total *)
Theorem old_base_total s1 s2 fuel : (length (all_pairs s1 s2) < fuel)%nat ->
  find_base_old s1 s2 fuel = Nothing \/ exists d1 d2, find_base_old s1 s2 fuel = Found d1 d2.
Proof.
  intros Hf. pose proof (old_base_never_raises s1 s2 fuel) as Hnr.
  assert (Hnf : find_base_old s1 s2 fuel <> NoFuel).
  { unfold find_base_old.
    pose proof (first_search_terminates s1 s2 fuel Hf) as Ht.
    pose proof (first_search_sound s1 s2 fuel) as Hs.
    destruct (find s1 s2 fuel (s_root s1) (s_root s2) init_fstate) as [[[|] st]| |e] eqn:E; try discriminate; try contradiction.
    unfold search_base.
    pose proof (rec2_terminates s1 s2 (f_mi st) (Hs _ _ eq_refl) fuel (s_root s1) (s_root s2) (mkS [] []) []) as Hr.
    destruct (rec2 (f_mi st) fuel (s_root s1) (s_root s2) (mkS [] [])) as [[[[[|] st2] x] y]| |e]; try discriminate.
    exfalso. apply Hr; auto.
    all: try (apply in_prod; left; reflexivity).
    all: try (constructor; fail).
    all: try (intros p []; fail).
    all: try (simpl; lia). }
  destruct (find_base_old s1 s2 fuel) as [|d1 d2|c|]; eauto.
  - exfalso. eapply Hnr; eauto.
  - contradiction.
Qed.
