(* Totality of ParallelInfo._construct_eq_label_rules (Parallel/InfoModel.v `construct`).

   `construct` answers COk, CRefused (the documented ValueError "Only atoms can be verified.") or
   CErr 1/3/4 (KeyError in _get_class_and_rule, the `assert len(eq_chi) > 0`, the RuntimeError of
   rule.get_terms on a rule that is not a verification rule).  The two fix: commits a34d719 / a172a92 were
   assertion failures of exactly this kind.  Here: a DECIDABLE well-formedness of the rule database,
   relative to the replayed list `lis`, under which no CErr can occur, and a stricter one under which the
   answer is COk.

   db_wf db lis, three clauses (each is needed: Props/C13.v has a near miss for every one):
     preimage      every entry of lis is a stored key up to equivalence (rule_from_equivalence_rule_dict
                   has an entry for it: no KeyError)
     atoms         a stored key that lis uses, whose parent is a non-empty atom, carries a verification
                   rule (kind < 0): get_terms works
     children      a stored key that lis uses, whose parent is neither empty nor an atom and whose rule is a
                   `Rule` (kind >= 0), has at least one child: the assert holds
   "lis uses key" = key is stored and eqv_key key is an entry of lis (the model reads only the LAST such
   key; the clauses ask it of all of them, which is what one can say without replaying dict order).
   only_atoms_verified (the other direction of "atom <=> kind < 0"): a used key with a non-empty non-atom
   parent carries a `Rule`; with it the refusal is excluded too. *)
From Coq Require Import ZArith List Bool Lia Sorting.Mergesort Sorting.Permutation.
From CSS Require Import Spec.Extractor Spec.ExtractorProofs Parallel.Model Parallel.SpecStage Parallel.InfoModel
  Parallel.InfoProofs.
Import ListNotations.
Open Scope Z_scope.
Local Arguments Nat.eqb : simpl never.

Definition used_key (db : rdb) (lis : list rkey) (key : rkey) : Prop :=
  In key (db_keys db) /\ In (eqv_key (db_rep db) key) lis.

Definition has_preimage (db : rdb) (e : rkey) : Prop :=
  exists key, In key (db_keys db) /\ eqv_key (db_rep db) key = e.

Definition db_wf (db : rdb) (lis : list rkey) : Prop :=
  (forall e, In e lis -> has_preimage db e) /\
  (forall key a, used_key db lis key -> db_empty db (fst key) = false -> db_atom db (fst key) = Some a ->
     kind_of (db_stored db) key < 0) /\
  (forall key, used_key db lis key -> db_empty db (fst key) = false -> db_atom db (fst key) = None ->
     0 <= kind_of (db_stored db) key -> snd key <> []).

Definition only_atoms_verified (db : rdb) (lis : list rkey) : Prop :=
  forall key, used_key db lis key -> db_empty db (fst key) = false -> db_atom db (fst key) = None ->
    0 <= kind_of (db_stored db) key.

(* ---- the decision procedures *)
Definition is_nil (l : list nat) : bool := match l with [] => true | _ => false end.

Definition has_preimage_b (db : rdb) (e : rkey) : bool :=
  existsb (fun key => rkey_eqb (eqv_key (db_rep db) key) e) (db_keys db).

Definition used_key_b (db : rdb) (lis : list rkey) (key : rkey) : bool :=
  existsb (rkey_eqb (eqv_key (db_rep db) key)) lis.

Definition key_wfb (db : rdb) (key : rkey) : bool :=
  db_empty db (fst key) ||
  match db_atom db (fst key) with
  | Some _ => kind_of (db_stored db) key <? 0
  | None => (kind_of (db_stored db) key <? 0) || negb (is_nil (snd key))
  end.

Definition key_strictb (db : rdb) (key : rkey) : bool :=
  db_empty db (fst key) ||
  match db_atom db (fst key) with
  | Some _ => true
  | None => 0 <=? kind_of (db_stored db) key
  end.

Definition db_wfb (db : rdb) (lis : list rkey) : bool :=
  forallb (has_preimage_b db) lis &&
  forallb (fun key => negb (used_key_b db lis key) || key_wfb db key) (db_keys db).

Definition only_atoms_verified_b (db : rdb) (lis : list rkey) : bool :=
  forallb (fun key => negb (used_key_b db lis key) || key_strictb db key) (db_keys db).

(* ---- rule_for answers exactly when there is a preimage *)
Lemma rkey_eqb_iff a b : rkey_eqb a b = true <-> a = b.
Proof. split; [apply rkey_eqb_eq|intros ->; apply rkey_eqb_refl]. Qed.

Lemma rule_for_complete rep stored e :
  (exists key, In key stored /\ eqv_key rep key = e) -> exists k, rule_for rep stored e = Some k.
Proof.
  unfold rule_for.
  assert (G : forall acc,
    (acc <> None \/ exists key, In key stored /\ eqv_key rep key = e) ->
    fold_left (fun acc k => if rkey_eqb (eqv_key rep k) e then Some k else acc) stored acc <> None).
  { induction stored as [|k t IH]; intros acc H; simpl.
    - destruct H as [H|[key [[] _]]]. exact H.
    - apply IH. destruct H as [H|[key [[->|Hin] Hk]]].
      + left. destruct (rkey_eqb (eqv_key rep k) e); [discriminate|exact H].
      + left. rewrite <- Hk, rkey_eqb_refl. discriminate.
      + right. exists key. auto. }
  intros H.
  destruct (fold_left (fun acc k => if rkey_eqb (eqv_key rep k) e then Some k else acc) stored None) as [k|] eqn:E.
  - exists k. reflexivity.
  - exfalso. apply (G None); auto.
Qed.

Lemma eqv_key_children_nil rep key : snd (eqv_key rep key) = [] -> snd key = [].
Proof.
  unfold eqv_key. simpl. intros H.
  pose proof (NatSort.Permuted_sort (map rep (snd key))) as P. rewrite H in P.
  apply Permutation_sym, Permutation_nil in P. destruct (snd key); [reflexivity|discriminate].
Qed.

(* ---- totality *)
Lemma build_no_error db : forall lis atoms rules,
  db_wf db lis -> forall c, build db lis atoms rules <> CErr c.
Proof.
  induction lis as [|e rest IH]; intros atoms rules Hwf c; simpl; [discriminate|].
  assert (Hrest : db_wf db rest).
  { destruct Hwf as [P [A C]]. split; [|split].
    - intros e' He'. apply P. right. exact He'.
    - intros key a [U1 U2]. apply A. split; [exact U1|right; exact U2].
    - intros key [U1 U2]. apply C. split; [exact U1|right; exact U2]. }
  destruct Hwf as [P [A C]].
  destruct (rule_for_complete (db_rep db) (db_keys db) e (P e (or_introl eq_refl))) as [key Er].
  rewrite Er.
  destruct (rule_for_spec _ _ _ _ Er) as [Hin Hk].
  assert (U : used_key db (e :: rest) key) by (split; [exact Hin|left; symmetry; exact Hk]).
  destruct (db_empty db (fst key)) eqn:Ee; [apply IH; exact Hrest|].
  destruct (db_atom db (fst key)) as [a|] eqn:Ea.
  - pose proof (A key a U Ee Ea) as Hlt.
    destruct (0 <=? kind_of (db_stored db) key) eqn:Ek; [apply Z.leb_le in Ek; lia|].
    apply IH. exact Hrest.
  - destruct (kind_of (db_stored db) key <? 0) eqn:Ek; [discriminate|].
    apply Z.ltb_ge in Ek.
    pose proof (C key U Ee Ea Ek) as Hne.
    destruct (snd e) as [|c0 cs] eqn:Es.
    + exfalso. apply Hne. apply (eqv_key_children_nil (db_rep db)). rewrite Hk. exact Es.
    + apply IH. exact Hrest.
Qed.

Theorem construct_total db lis : db_wf db lis -> forall c, construct db lis <> CErr c.
Proof. intros H c. apply build_no_error. exact H. Qed.

Lemma build_ok db : forall lis atoms rules,
  db_wf db lis -> only_atoms_verified db lis -> exists s, build db lis atoms rules = COk s.
Proof.
  induction lis as [|e rest IH]; intros atoms rules Hwf Hs; simpl; [eexists; reflexivity|].
  assert (Hrest : db_wf db rest).
  { destruct Hwf as [P [A C]]. split; [|split].
    - intros e' He'. apply P. right. exact He'.
    - intros key a [U1 U2]. apply A. split; [exact U1|right; exact U2].
    - intros key [U1 U2]. apply C. split; [exact U1|right; exact U2]. }
  assert (Hsrest : only_atoms_verified db rest).
  { intros key [U1 U2]. apply Hs. split; [exact U1|right; exact U2]. }
  destruct Hwf as [P [A C]].
  destruct (rule_for_complete (db_rep db) (db_keys db) e (P e (or_introl eq_refl))) as [key Er].
  rewrite Er.
  destruct (rule_for_spec _ _ _ _ Er) as [Hin Hk].
  assert (U : used_key db (e :: rest) key) by (split; [exact Hin|left; symmetry; exact Hk]).
  destruct (db_empty db (fst key)) eqn:Ee; [apply IH; assumption|].
  destruct (db_atom db (fst key)) as [a|] eqn:Ea.
  - pose proof (A key a U Ee Ea) as Hlt.
    destruct (0 <=? kind_of (db_stored db) key) eqn:Ek; [apply Z.leb_le in Ek; lia|].
    apply IH; assumption.
  - pose proof (Hs key U Ee Ea) as Hge.
    destruct (kind_of (db_stored db) key <? 0) eqn:Ek; [apply Z.ltb_lt in Ek; lia|].
    pose proof (C key U Ee Ea Hge) as Hne.
    destruct (snd e) as [|c0 cs] eqn:Es.
    + exfalso. apply Hne. apply (eqv_key_children_nil (db_rep db)). rewrite Hk. exact Es.
    + apply IH; assumption.
Qed.

Theorem construct_ok db lis :
  db_wf db lis -> only_atoms_verified db lis -> exists s, construct db lis = COk s.
Proof. intros H1 H2. apply build_ok; assumption. Qed.

(* ---- the deciders decide *)
Lemma has_preimage_b_iff db e : has_preimage_b db e = true <-> has_preimage db e.
Proof.
  unfold has_preimage_b, has_preimage. rewrite existsb_exists.
  split; intros [key [H1 H2]]; exists key; (split; [exact H1|]); apply rkey_eqb_iff; exact H2.
Qed.

Lemma used_key_b_iff db lis key : In key (db_keys db) ->
  (used_key_b db lis key = true <-> used_key db lis key).
Proof.
  intros Hin. unfold used_key_b, used_key. rewrite existsb_exists. split.
  - intros [x [H1 H2]]. apply rkey_eqb_iff in H2. subst. auto.
  - intros [_ H]. exists (eqv_key (db_rep db) key). split; [exact H|apply rkey_eqb_refl].
Qed.

Theorem db_wfb_iff db lis : db_wfb db lis = true <-> db_wf db lis.
Proof.
  unfold db_wfb, db_wf. rewrite andb_true_iff, !forallb_forall. split.
  - intros [P K]. split; [|split].
    + intros e He. apply has_preimage_b_iff. apply P. exact He.
    + intros key a U Ee Ea. pose proof (K key (proj1 U)) as Hk.
      apply (used_key_b_iff db lis key (proj1 U)) in U. rewrite U in Hk. simpl in Hk.
      unfold key_wfb in Hk. rewrite Ee, Ea in Hk. simpl in Hk. apply Z.ltb_lt. exact Hk.
    + intros key U Ee Ea Hge. pose proof (K key (proj1 U)) as Hk.
      apply (used_key_b_iff db lis key (proj1 U)) in U. rewrite U in Hk. simpl in Hk.
      unfold key_wfb in Hk. rewrite Ee, Ea in Hk. simpl in Hk.
      apply orb_true_iff in Hk. destruct Hk as [Hk|Hk]; [apply Z.ltb_lt in Hk; lia|].
      intros Hn. rewrite Hn in Hk. discriminate.
  - intros [P [A C]]. split.
    + intros e He. apply has_preimage_b_iff. apply P. exact He.
    + intros key Hin. destruct (used_key_b db lis key) eqn:Eu; [|reflexivity]. simpl.
      apply (used_key_b_iff db lis key Hin) in Eu.
      unfold key_wfb. destruct (db_empty db (fst key)) eqn:Ee; [reflexivity|]. simpl.
      destruct (db_atom db (fst key)) as [a|] eqn:Ea.
      * apply Z.ltb_lt. eapply A; eauto.
      * destruct (kind_of (db_stored db) key <? 0) eqn:Ek; [reflexivity|]. simpl.
        apply Z.ltb_ge in Ek. pose proof (C key Eu Ee Ea Ek) as Hne.
        destruct (snd key); [congruence|reflexivity].
Qed.

Theorem only_atoms_verified_b_iff db lis :
  only_atoms_verified_b db lis = true <-> only_atoms_verified db lis.
Proof.
  unfold only_atoms_verified_b, only_atoms_verified. rewrite forallb_forall. split.
  - intros K key U Ee Ea. pose proof (K key (proj1 U)) as Hk.
    apply (used_key_b_iff db lis key (proj1 U)) in U. rewrite U in Hk. simpl in Hk.
    unfold key_strictb in Hk. rewrite Ee, Ea in Hk. simpl in Hk. apply Z.leb_le. exact Hk.
  - intros H key Hin. destruct (used_key_b db lis key) eqn:Eu; [|reflexivity]. simpl.
    apply (used_key_b_iff db lis key Hin) in Eu.
    unfold key_strictb. destruct (db_empty db (fst key)) eqn:Ee; [reflexivity|]. simpl.
    destruct (db_atom db (fst key)) as [a|] eqn:Ea; [reflexivity|].
    apply Z.leb_le. apply H; assumption.
Qed.

(* the form the run uses: the decider says yes, so no error state *)
Corollary construct_total_decided db lis : db_wfb db lis = true -> forall c, construct db lis <> CErr c.
Proof. intros H. apply construct_total. apply db_wfb_iff. exact H. Qed.

Corollary construct_ok_decided db lis :
  db_wfb db lis = true -> only_atoms_verified_b db lis = true -> exists s, construct db lis = COk s.
Proof.
  intros H1 H2. apply construct_ok; [apply db_wfb_iff|apply only_atoms_verified_b_iff]; assumption.
Qed.
