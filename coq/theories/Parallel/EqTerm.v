(* Termination of the second search of EqPathParallelSpecFinder, and totality of its find(). *)
From Coq Require Import ZArith List Bool Lia.
From CSS Require Import Base.PyList Parallel.Model Parallel.Basics Parallel.First Parallel.Second
  Parallel.Matched Parallel.Fixed Parallel.Term Parallel.Term2 Parallel.Term3 Parallel.EqSecond.
Import ListNotations.
Open Scope Z_scope.
Local Arguments Nat.eqb : simpl never.

Section EqTerm.
Variables s1 s2 : side.
Variable m : minfo.
Hypothesis Hm : mi_sound s1 s2 m.

Notation P := (all_pairs s1 s2).

(* the pairs below a recorded matching are pairs of labels of the two universes *)
Lemma recorded_children_in_P a b d c o ps :
  mi_get m (a, b) = Some d -> In (c, o) d -> child_pairs (fst c) (snd c) o = Some ps ->
  forall p, In p ps -> In p P.
Proof.
  intros G I Ecp [x y] Hp. destruct (child_pairs_In _ _ _ _ _ _ Ecp Hp) as [Hx Hy].
  destruct (Hm _ _ _ _ _ G I) as [[-> _]|[Hpc _]]; [destruct Hx|].
  destruct (potential_children_spec _ _ _ _ _ Hpc) as [k1 [k2 [R1 [R2 _]]]].
  apply in_prod; eapply rules_of_labels; eauto.
Qed.

Lemma validate_spec d1 d2 : forall fuel a b mem,
  In (a, b) P -> NoDup mem -> incl mem P -> (length P - length mem < fuel)%nat ->
  validate true m fuel a b d1 d2 mem <> OutOfFuel /\
  (forall r mem', validate true m fuel a b d1 d2 mem = Ok (r, mem') ->
     NoDup mem' /\ incl mem' P /\ incl mem mem').
Proof.
  induction fuel as [|f IH]; intros a b mem Hin Hnd Hincl Hf; [exfalso; apply (Nat.nlt_0_r _ Hf)|].
  simpl.
  destruct (mem_pair (a, b) mem) eqn:Emem.
  { split; [discriminate|]. intros r mem' H. inversion H; subst. split; [auto|]. split; [auto|]. intros p Hp; exact Hp. }
  apply mem_pair_false in Emem.
  assert (Hlt : (length mem < length P)%nat).
  { destruct (Nat.lt_ge_cases (length mem) (length P)) as [?|Hge]; [assumption|].
    exfalso. apply Emem. apply (NoDup_length_incl Hnd Hge Hincl). exact Hin. }
  assert (Hadd : set_add (a, b) mem = (a, b) :: mem).
  { unfold set_add. destruct (mem_pair (a, b) mem) eqn:E; [|reflexivity]. apply mem_pair_In in E. contradiction. }
  assert (Htriv : forall r mem', @Ok (bool * list lpair) (true, mem) = Ok (r, mem') ->
            NoDup mem' /\ incl mem' P /\ incl mem mem').
  { intros r mem' H. inversion H; subst. split; [auto|]. split; [auto|]. intros p Hp; exact Hp. }
  destruct (sm_get d1 a) as [c1|]; [|split; [discriminate|exact Htriv]].
  destruct (sm_get d2 b) as [c2|]; [|split; [discriminate|exact Htriv]].
  assert (Hmain :
    let r0 := match inner_get (match mi_get m (a, b) with Some d => d | None => [] end) (c1, c2) with
    | None => Ok (false, set_add (a, b) mem)
    | Some order =>
      match child_pairs c1 c2 order with
      | None => Err E_INDEX
      | Some ps =>
        (fix go (ps : list lpair) (mem : list lpair) : res (bool * list lpair) :=
           match ps with
           | [] => Ok (true, mem)
           | (a, b) :: ps' =>
             match validate true m f a b d1 d2 mem with
             | Ok (true, mem1) => go ps' mem1
             | r => r
             end
           end) ps (set_add (a, b) mem)
      end
    end in
    r0 <> OutOfFuel /\ (forall r mem', r0 = Ok (r, mem') -> NoDup mem' /\ incl mem' P /\ incl mem mem')).
  { rewrite Hadd.
    assert (Hnd1 : NoDup ((a, b) :: mem)) by (constructor; auto).
    assert (Hin1 : incl ((a, b) :: mem) P) by (intros p [<-|Hp]; auto).
    assert (Hsub1 : incl mem ((a, b) :: mem)) by (intros p Hp; right; exact Hp).
    destruct (mi_get m (a, b)) as [d|] eqn:G.
    2:{ simpl. split; [discriminate|]. intros r mem' H. inversion H; subst. auto. }
    destruct (inner_get d (c1, c2)) as [o|] eqn:I.
    2:{ split; [discriminate|]. intros r mem' H. inversion H; subst. auto. }
    destruct (child_pairs c1 c2 o) as [ps|] eqn:Ecp.
    2:{ split; [discriminate|]. intros; discriminate. }
    pose proof (recorded_children_in_P a b d (c1, c2) o ps G (inner_get_In _ _ _ I) Ecp) as Hps.
    assert (Hgo : forall ps mem0, (forall p, In p ps -> In p P) -> NoDup mem0 -> incl mem0 P ->
              (length P - length mem0 < f)%nat ->
              let r0 := (fix go (ps : list lpair) (mem : list lpair) : res (bool * list lpair) :=
                 match ps with
                 | [] => Ok (true, mem)
                 | (a, b) :: ps' =>
                   match validate true m f a b d1 d2 mem with
                   | Ok (true, mem1) => go ps' mem1
                   | r => r
                   end
                 end) ps mem0 in
              r0 <> OutOfFuel /\ (forall r mem', r0 = Ok (r, mem') -> NoDup mem' /\ incl mem' P /\ incl mem0 mem')).
    { clear Hps. induction ps0 as [|[x y] ps0 IHps]; intros mem0 Hps0 Hnd0 Hin0 Hf0.
      - simpl. split; [discriminate|]. intros r mem' H. inversion H; subst. split; [auto|]. split; [auto|]. intros p Hp; exact Hp.
      - simpl. destruct (IH x y mem0 (Hps0 _ (or_introl eq_refl)) Hnd0 Hin0 Hf0) as [Hne Hok].
        destruct (validate true m f x y d1 d2 mem0) as [[[|] mem1]| |e] eqn:Ev; try contradiction.
        + destruct (Hok _ _ eq_refl) as [A [B C]].
          assert (Hlen : (length mem0 <= length mem1)%nat) by (apply NoDup_incl_length; auto).
          destruct (IHps mem1 (fun p Hp => Hps0 p (or_intror Hp)) A B) as [Hne2 Hok2]; [lia|].
          split; [exact Hne2|]. intros r mem' H. destruct (Hok2 _ _ H) as [A2 [B2 C2]].
          split; [auto|]. split; [auto|]. intros p Hp. apply C2. apply C. exact Hp.
        + split; [discriminate|]. intros r mem' H. inversion H; subst. apply (Hok _ _ eq_refl).
        + split; [discriminate|]. intros; discriminate. }
    destruct (Hgo ps ((a, b) :: mem) Hps Hnd1 Hin1) as [Hne Hok].
    { change (length ((a, b) :: mem)) with (S (length mem)). lia. }
    split; [exact Hne|]. intros r mem' H. destruct (Hok _ _ H) as [A [B C]].
    split; [auto|]. split; [auto|]. intros p Hp. apply C. right. exact Hp. }
  destruct c1, c2; try exact Hmain.
  split; [discriminate|exact Htriv].
Qed.

Definition enf (call : lpair -> nat -> nat -> estate -> res erec_out) (S : list lpair) : Prop :=
  forall pid a b st, epre s1 s2 st -> In (a, b) P -> e_panc st = S -> call pid a b st <> OutOfFuel.

Lemma e_children_nf call key : ecall_ok s1 s2 call ->
  forall ps st tc1 tc2,
    enf call (key :: e_panc st) ->
    epre s1 s2 st -> ~ In key (e_panc st) ->
    sm_mem (e_sp1 st) (fst key) = true -> sm_mem (e_sp2 st) (snd key) = true ->
    (forall p, In p ps -> In p P) ->
    e_children call key ps st tc1 tc2 <> OutOfFuel.
Proof.
  intros Hc. induction ps as [|[a b] ps IH]; intros st tc1 tc2 Hnf Hpre Hnk Hk1 Hk2 Hps; simpl; [discriminate|].
  assert (Hadd : set_add key (e_panc st) = key :: e_panc st).
  { unfold set_add. destruct (mem_pair key (e_panc st)) eqn:E; [|reflexivity]. apply mem_pair_In in E. contradiction. }
  set (st0 := e_with_panc st (set_add key (e_panc st))).
  assert (Hpre0 : epre s1 s2 st0).
  { destruct Hpre as [G [A O]]. split; [exact G|]. split; [|exact O].
    unfold st0. simpl. rewrite Hadd. intros p [<-|Hp]; [split; assumption|apply A; exact Hp]. }
  pose proof (Hnf (S (fst key), S (snd key)) a b st0 Hpre0 (Hps _ (or_introl eq_refl))) as Hn.
  destruct (Hc (S (fst key), S (snd key)) a b st0 Hpre0) as [_ Hok].
  destruct (call (S (fst key), S (snd key)) a b st0) as [[[[ok st1] a1] a2]| |e] eqn:E; try discriminate.
  - destruct (Hok _ _ _ _ eq_refl) as [G1 [K1 [F1 [P1 O1]]]].
    unfold st0 in P1. simpl in P1. rewrite P1, Hadd. simpl. rewrite pair_eqb_refl.
    destruct ok; [|discriminate].
    set (st2 := e_with_panc st1 (e_panc st)).
    apply IH.
    + exact Hnf.
    + destruct Hpre as [G [A O]]. split; [exact G1|]. split.
      * unfold st2. simpl. eapply eassigned_keeps; [exact A|exact K1].
      * unfold st2. simpl. rewrite O1. exact O.
    + exact Hnk.
    + destruct K1 as [K1a _]. apply K1a. exact Hk1.
    + destruct K1 as [_ K1b]. apply K1b. exact Hk2.
    + intros p Hp. apply Hps. right. exact Hp.
  - exfalso. apply Hn; [unfold st0; simpl; exact Hadd|reflexivity].
Qed.

Lemma e_loop_nf call id1 id2 pid entry : ecall_ok s1 s2 call ->
  enf call ((id1, id2) :: e_panc entry) ->
  ~ In (id1, id2) (e_panc entry) ->
  forall d cs, mi_get m (id1, id2) = Some d -> incl cs d ->
  forall st, egood s1 s2 st -> ekeeps entry st -> eassigned (e_panc entry) entry ->
    e_panc st = e_panc entry -> e_oracle st = e_oracle entry -> oracle_total (e_oracle entry) ->
    e_loop call id1 id2 pid (sm_mem (e_sp1 entry) id1) (sm_mem (e_sp2 entry) id2) cs st <> OutOfFuel.
Proof.
  intros Hc Hnf Hnk d. induction cs as [|[c o] cs IH]; intros G Hcs st Hg Hk Has Hp Ho Hot; simpl; [discriminate|].
  assert (Hcs' : incl cs d) by (intros x Hx; apply Hcs; right; exact Hx).
  assert (Hin : In (c, o) d) by (apply Hcs; left; reflexivity).
  pose proof (Hm _ _ _ _ _ G Hin) as Hs.
  destruct (negb (cand_ok (e_sp1 st) (e_sp2 st) id1 id2 c)); [apply IH; auto|].
  set (st0 := e_with_sp st (sm_set (e_sp1 st) id1 (fst c)) (sm_set (e_sp2 st) id2 (snd c))).
  destruct (entry_sound_good s1 s2 _ _ _ _ Hs) as [G1 G2].
  assert (Hg0 : egood s1 s2 st0).
  { destruct Hg as [A B]. split; unfold st0; simpl; apply sm_all_set; auto. }
  assert (Hk0 : ekeeps entry st0).
  { destruct Hk as [K1 K2]. split; intros l Hl; unfold st0; simpl; rewrite sm_mem_set.
    - rewrite (K1 _ Hl). apply orb_true_r.
    - rewrite (K2 _ Hl). apply orb_true_r. }
  assert (Hm1 : sm_mem (e_sp1 st0) id1 = true) by (unfold st0; simpl; rewrite sm_mem_set, Nat.eqb_refl; reflexivity).
  assert (Hm2 : sm_mem (e_sp2 st0) id2 = true) by (unfold st0; simpl; rewrite sm_mem_set, Nat.eqb_refl; reflexivity).
  assert (Hot0 : oracle_total (e_oracle st0)) by (unfold st0; simpl; rewrite Ho; exact Hot).
  destruct (eq_path_ok id1 id2 pid st0 Hm1 Hm2 Hot0) as [pm [st1 [Eq [E1 [E2 [E3 E4]]]]]].
  rewrite Eq.
  assert (Hg1 : egood s1 s2 st1) by (destruct Hg0; split; [rewrite E1|rewrite E2]; assumption).
  assert (Hk1 : ekeeps entry st1) by (destruct Hk0; split; [rewrite E1|rewrite E2]; assumption).
  assert (Hp1 : e_panc st1 = e_panc entry) by (rewrite E3; unfold st0; simpl; exact Hp).
  assert (Ho1 : e_oracle st1 = e_oracle entry) by (rewrite E4; unfold st0; simpl; exact Ho).
  assert (Hfail : forall st' tc1 tc2, egood s1 s2 st' -> ekeeps entry st' -> efresh entry tc1 tc2 ->
            e_panc st' = e_panc entry -> e_oracle st' = e_oracle entry ->
            (let '(a, b) := clean tc1 tc2 id1 id2 (e_sp1 st') (e_sp2 st') (sm_mem (e_sp1 entry) id1) (sm_mem (e_sp2 entry) id2) in
             e_loop call id1 id2 pid (sm_mem (e_sp1 entry) id1) (sm_mem (e_sp2 entry) id2) cs (e_with_sp st' a b)) <> OutOfFuel).
  { intros st' tc1 tc2 Hg' Hk' Hf' Hp' Ho'.
    destruct (clean tc1 tc2 id1 id2 (e_sp1 st') (e_sp2 st') (sm_mem (e_sp1 entry) id1) (sm_mem (e_sp2 entry) id2)) as [a b] eqn:Ecl.
    apply IH; auto.
    - destruct Hg' as [A B]. destruct (clean_good s1 s2 _ _ _ _ _ _ _ _ _ _ A B Ecl). split; assumption.
    - eapply clean_ekeeps; eauto. }
  destruct pm.
  - pose proof (entry_sound_child_pairs s1 s2 _ _ _ _ Hs) as Hcp.
    destruct (child_pairs (fst c) (snd c) o) as [ps|] eqn:Ecp; [|contradiction].
    assert (Hpre1 : epre s1 s2 st1).
    { split; [exact Hg1|]. split; [|rewrite Ho1; exact Hot]. rewrite Hp1. eapply eassigned_keeps; eauto. }
    assert (Hps : forall p, In p ps -> In p P) by (eapply recorded_children_in_P; eauto).
    pose proof (e_children_nf call (id1, id2) Hc ps st1 [] []) as Hcn.
    rewrite Hp1 in Hcn. specialize (Hcn Hnf Hpre1 Hnk).
    assert (Hn : e_children call (id1, id2) ps st1 [] [] <> OutOfFuel).
    { apply Hcn; auto; simpl; [rewrite E1; exact Hm1|rewrite E2; exact Hm2]. }
    destruct (e_children_ok s1 s2 call (id1, id2) entry Hc ps st1 [] [] Hpre1) as [_ Hok].
    + rewrite Hp1. exact Hnk.
    + simpl. rewrite E1. exact Hm1.
    + simpl. rewrite E2. exact Hm2.
    + exact Hk1.
    + split; intros l [].
    + destruct (e_children call (id1, id2) ps st1 [] []) as [[[[[|] st2] tc1] tc2]| |e] eqn:Ech; try discriminate; try contradiction.
      destruct (Hok _ _ _ _ eq_refl) as [A1 [A2 [A3 [A4 [A5 A6]]]]].
      apply (Hfail st2 tc1 tc2); auto; congruence.
  - apply (Hfail st1 [] []); auto. split; intros l [].
Qed.

Lemma erec_terminates : forall fuel pid a b st,
  epre s1 s2 st -> In (a, b) P -> NoDup (e_panc st) -> incl (e_panc st) P ->
  (length P + (length P - length (e_panc st)) < fuel)%nat ->
  erec true m fuel pid a b st <> OutOfFuel.
Proof.
  induction fuel as [|f IH]; intros pid a b st Hpre Hin Hnd Hincl Hf; [exfalso; apply (Nat.nlt_0_r _ Hf)|].
  destruct Hpre as [Hg [Has Hot]].
  assert (Hval : forall d1 d2, validate true m (S f) a b d1 d2 [] <> OutOfFuel).
  { intros d1 d2. apply validate_spec; auto.
    - constructor.
    - intros p [].
    - change (length (@nil lpair)) with O. lia. }
  Opaque validate. simpl. Transparent validate.
  destruct (inconsistent m a b (e_sp1 st) (e_sp2 st)); [discriminate|].
  destruct (is_atom_pair m a b); [discriminate|].
  destruct (sm_mem (e_sp1 st) a && sm_mem (e_sp2 st) b) eqn:Eboth.
  { apply andb_true_iff in Eboth. destruct Eboth as [B1 B2].
    destruct (eq_path_ok a b pid st B1 B2 Hot) as [pm [st1 [Eq _]]]. rewrite Eq.
    destruct pm; [|discriminate].
    destruct (negb (mem_pair (a, b) (e_panc st1))); [|discriminate].
    specialize (Hval (e_sp1 st1) (e_sp2 st1)).
    destruct (validate true m (S f) a b (e_sp1 st1) (e_sp2 st1) []) as [[v mem']| |e]; try discriminate.
    contradiction. }
  destruct (mi_get m (a, b)) as [d|] eqn:G; [|discriminate].
  assert (Hnk : ~ In (a, b) (e_panc st)).
  { intros HS. destruct (Has _ HS) as [A B]. simpl in A, B. rewrite A, B in Eboth. discriminate. }
  assert (Hlt : (length (e_panc st) < length P)%nat).
  { destruct (Nat.lt_ge_cases (length (e_panc st)) (length P)) as [?|Hge]; [assumption|].
    exfalso. apply Hnk. apply (NoDup_length_incl Hnd Hge Hincl). exact Hin. }
  apply (e_loop_nf (erec true m f) a b pid st (erec_ok s1 s2 m Hm f)) with (d := d); auto.
  - intros pid' x y st0 Hpre0 Hxy Hp0. apply IH; auto; rewrite Hp0.
    + constructor; auto.
    + intros p [<-|Hp]; auto.
    + change (length ((a, b) :: e_panc st)) with (S (length (e_panc st))). lia.
  - intros x Hx; exact Hx.
  - apply ekeeps_refl.
Qed.

End EqTerm.

(* ---------------------------------------------------------------- the second walk of _maps_are_matched (fix 8a96a0c) *)
Lemma edge_eqb_eq (a b : edge) : edge_eqb a b = true <-> a = b.
Proof.
  destruct a as [a1 a2], b as [b1 b2]. unfold edge_eqb. simpl. rewrite andb_true_iff, !pair_eqb_eq.
  split; [intros [-> ->]; reflexivity|intros H; inversion H; auto].
Qed.
Lemma mem_edge_In (x : edge) l : mem_edge x l = true <-> In x l.
Proof.
  unfold mem_edge. rewrite existsb_exists. split.
  - intros [y [H1 H2]]. apply edge_eqb_eq in H2. subst. exact H1.
  - intros H. exists x. split; auto. apply edge_eqb_eq. reflexivity.
Qed.
Lemma mem_edge_false (x : edge) l : mem_edge x l = false <-> ~ In x l.
Proof.
  split.
  - intros H I. apply mem_edge_In in I. congruence.
  - intros H. destruct (mem_edge x l) eqn:E; auto. apply mem_edge_In in E. contradiction.
Qed.

Section EqWalk.
Variables s1 s2 : side.
Variable m : minfo.
Hypothesis Hm : mi_sound s1 s2 m.

Notation P := (all_pairs s1 s2).
Notation K := (max_arity s2).
Definition shift (p : lpair) : lpair := (S (fst p), S (snd p)).
Definition all_edges : list edge := list_prod P ((0%nat, 0%nat) :: map shift P).

Lemma sm_get_mem d l c : sm_get d l = Some c -> sm_mem d l = true.
Proof. unfold sm_mem. intros ->. reflexivity. Qed.

Lemma ewalk_never_raises : forall fuel stack seen st e,
  oracle_total (e_oracle st) -> ewalk m fuel stack seen st <> Err e.
Proof.
  induction fuel as [|f IH]; intros stack seen st e Hot; simpl; [discriminate|].
  destruct stack as [|[[a b] rel] rest]; [discriminate|].
  destruct (mem_edge (a, b, rel) seen); [apply IH; exact Hot|].
  destruct (sm_get (e_sp1 st) a) as [c1|] eqn:G1; [|discriminate].
  destruct (sm_get (e_sp2 st) b) as [c2|] eqn:G2; [|discriminate].
  assert (Hmain :
    match eq_path_matches a b rel st with
    | Ok (true, st') =>
      match inner_get (match mi_get m (a, b) with Some d => d | None => [] end) (c1, c2) with
      | None => Ok (false, st')
      | Some order =>
        match child_pairs c1 c2 order with
        | None => Err E_INDEX
        | Some ps => ewalk m f (rev (map (fun p => (p, (S a, S b))) ps) ++ rest) ((a, b, rel) :: seen) st'
        end
      end
    | Ok (false, st') => Ok (false, st')
    | OutOfFuel => OutOfFuel
    | Err e => Err e
    end <> Err e).
  { destruct (eq_path_ok a b rel st (sm_get_mem _ _ _ G1) (sm_get_mem _ _ _ G2) Hot) as [v [st1 [Eq [_ [_ [_ E4]]]]]].
    rewrite Eq. destruct v; [|discriminate].
    destruct (mi_get m (a, b)) as [d|] eqn:G; [|simpl; discriminate].
    destruct (inner_get d (c1, c2)) as [o|] eqn:I; [|discriminate].
    pose proof (entry_sound_child_pairs s1 s2 _ _ _ _ (Hm _ _ _ _ _ G (inner_get_In _ _ _ I))) as Hcp. simpl in Hcp.
    destruct (child_pairs c1 c2 o); [|contradiction]. apply IH. rewrite E4. exact Hot. }
  destruct c1, c2; try exact Hmain. apply IH. exact Hot.
Qed.

Lemma ewalk_terminates d1 d2 : forall fuel stack seen st,
  e_sp1 st = d1 -> e_sp2 st = d2 -> oracle_total (e_oracle st) ->
  incl stack all_edges -> incl seen all_edges -> NoDup seen ->
  ((length all_edges - length seen) * S K + length stack < fuel)%nat ->
  ewalk m fuel stack seen st <> OutOfFuel.
Proof.
  induction fuel as [|f IH]; intros stack seen st H1 H2 Hot Hst Hse Hnd Hf; [exfalso; apply (Nat.nlt_0_r _ Hf)|].
  simpl. destruct stack as [|[[a b] rel] rest]; [discriminate|].
  assert (Hrest : incl rest all_edges) by (intros p Hp; apply Hst; right; exact Hp).
  destruct (mem_edge (a, b, rel) seen) eqn:Emem.
  - apply IH; auto. change (length ((a, b, rel) :: rest)) with (S (length rest)) in Hf. lia.
  - apply mem_edge_false in Emem.
    assert (Hin : In (a, b, rel) all_edges) by (apply Hst; left; reflexivity).
    assert (Hlt : (length seen < length all_edges)%nat).
    { destruct (Nat.lt_ge_cases (length seen) (length all_edges)) as [?|Hge]; [assumption|].
      exfalso. apply Emem. apply (NoDup_length_incl Hnd Hge Hse). exact Hin. }
    assert (Hse' : incl ((a, b, rel) :: seen) all_edges) by (intros p [<-|Hp]; auto).
    assert (Hnd' : NoDup ((a, b, rel) :: seen)) by (constructor; auto).
    change (length ((a, b, rel) :: rest)) with (S (length rest)) in Hf.
    assert (Hskip : ewalk m f rest ((a, b, rel) :: seen) st <> OutOfFuel).
    { apply IH; auto. change (length ((a, b, rel) :: seen)) with (S (length seen)).
      remember (length all_edges) as np. remember (length seen) as ns.
      replace (np - ns)%nat with (S (np - S ns))%nat in Hf by lia. simpl in Hf. lia. }
    destruct (sm_get (e_sp1 st) a) as [c1|] eqn:G1; [|discriminate].
    destruct (sm_get (e_sp2 st) b) as [c2|] eqn:G2; [|discriminate].
    assert (Hmain :
      match eq_path_matches a b rel st with
      | Ok (true, st') =>
        match inner_get (match mi_get m (a, b) with Some d => d | None => [] end) (c1, c2) with
        | None => Ok (false, st')
        | Some order =>
          match child_pairs c1 c2 order with
          | None => Err E_INDEX
          | Some ps => ewalk m f (rev (map (fun p => (p, (S a, S b))) ps) ++ rest) ((a, b, rel) :: seen) st'
          end
        end
      | Ok (false, st') => Ok (false, st')
      | OutOfFuel => OutOfFuel
      | Err e => Err e
      end <> OutOfFuel).
    { destruct (eq_path_ok a b rel st (sm_get_mem _ _ _ G1) (sm_get_mem _ _ _ G2) Hot) as [v [st1 [Eq [E1 [E2 [_ E4]]]]]].
      rewrite Eq. destruct v; [|discriminate].
      destruct (mi_get m (a, b)) as [d|] eqn:G; [|simpl; discriminate].
      destruct (inner_get d (c1, c2)) as [o|] eqn:I; [|discriminate].
      destruct (child_pairs c1 c2 o) as [ps|] eqn:Ecp; [|discriminate].
      pose proof (recorded_children_in_P s1 s2 m Hm a b d (c1, c2) o ps G (inner_get_In _ _ _ I) Ecp) as Hps.
      assert (Hlen : (length ps <= K)%nat).
      { destruct (Hm _ _ _ _ _ G (inner_get_In _ _ _ I)) as [[E [Eo _]]|[Hpc _]].
        - inversion E; subst. simpl in Ecp. inversion Ecp; simpl; lia.
        - destruct (potential_children_spec _ _ _ _ _ Hpc) as [k1 [k2 [_ [R2 _]]]]. simpl in R2.
          pose proof (child_pairs_length _ _ _ _ Ecp). pose proof (rules_of_arity _ _ _ _ R2). lia. }
      assert (Hab : In (a, b) P).
      { unfold all_edges in Hin. apply in_prod_iff in Hin. tauto. }
      apply IH; auto; try congruence.
      - intros p Hp. apply in_app_or in Hp. destruct Hp as [Hp|Hp]; [|auto].
        apply in_rev in Hp. apply in_map_iff in Hp. destruct Hp as [q [<- Hq]].
        unfold all_edges. apply in_prod; [apply Hps; exact Hq|]. right. apply in_map_iff. exists (a, b). auto.
      - rewrite app_length, rev_length, map_length. change (length ((a, b, rel) :: seen)) with (S (length seen)).
        remember (length all_edges) as np. remember (length seen) as ns. remember (max_arity s2) as k.
        replace (np - ns)%nat with (S (np - S ns))%nat in Hf by lia. simpl in Hf.
        remember ((np - S ns) * S k)%nat as X. clear - Hf Hlen. unfold edge, lpair in *. lia. }
    destruct c1, c2; try exact Hmain. exact Hskip.
Qed.

End EqWalk.

Lemma length_le_prod {A B} (l : list A) (x : B) (l' : list B) : (length l <= length (list_prod l (x :: l')))%nat.
Proof.
  induction l as [|a l IH]; simpl; [lia|]. rewrite app_length, map_length. lia.
Qed.

(* ---------------------------------------------------------------- find() of EqPathParallelSpecFinder *)
Lemma path_checked_never_raises s1 s2 m wfuel oracle o e asked :
  mi_sound s1 s2 m -> oracle_total oracle -> (forall e', o <> Failed e') ->
  path_checked s1 s2 m wfuel oracle o <> (Failed e, asked).
Proof.
  intros Hm Hot Ho. unfold path_checked. destruct o as [|d1 d2|c|]; try (intros H; inversion H; fail).
  - pose proof (ewalk_never_raises s1 s2 m Hm wfuel [(s_root s1, s_root s2, (0%nat, 0%nat))] [] (mkE d1 d2 [] oracle [] [])) as Hw.
    destruct (ewalk m wfuel [(s_root s1, s_root s2, (0%nat, 0%nat))] [] (mkE d1 d2 [] oracle [] [])) as [[[|] st]| |c];
      intros H; inversion H. subst. eapply Hw; eauto.
  - intros H. inversion H. subst. eapply Ho; eauto.
Qed.

Theorem find_eq_never_raises s1 s2 pw fuel wfuel oracle woracle e asked :
  oracle_total oracle -> oracle_total woracle -> find_eq s1 s2 pw fuel wfuel oracle woracle <> EOut (Failed e) asked.
Proof.
  intros Hot Hwot. unfold find_eq.
  pose proof (first_search_never_raises s1 s2 fuel) as Hne.
  pose proof (first_search_sound s1 s2 fuel) as Hs.
  destruct (find s1 s2 fuel (s_root s1) (s_root s2) init_fstate) as [[[|] st]| |e'] eqn:E; try discriminate.
  - assert (Hmi : mi_sound s1 s2 (f_mi st)) by (eapply Hs; eauto).
    assert (Hchk : forall o1 asked1, search_eq s1 s2 true (f_mi st) fuel oracle = EOut o1 asked1 ->
              forall e', checked s1 s2 (f_mi st) wfuel o1 <> Failed e').
    { intros o1 asked1 Hse e'. unfold search_eq in Hse.
      assert (Hpre : epre s1 s2 (mkE [] [] [] oracle [] [])).
      { split; [split; apply sm_all_nil|]. split; [intros p []|exact Hot]. }
      destruct (erec_ok s1 s2 (f_mi st) Hmi fuel (0%nat, 0%nat) (s_root s1) (s_root s2) _ Hpre) as [Hn _].
      destruct (erec true (f_mi st) fuel (0%nat, 0%nat) (s_root s1) (s_root s2) (mkE [] [] [] oracle [] []))
        as [[[[[|] st2] x] y]| |e2] eqn:Er; inversion Hse; subst; simpl; try discriminate.
      + pose proof (walk_never_raises s1 s2 (f_mi st) (e_sp1 st2) (e_sp2 st2) Hmi wfuel [(s_root s1, s_root s2)] []) as Hw.
        destruct (walk (f_mi st) (e_sp1 st2) (e_sp2 st2) wfuel [(s_root s1, s_root s2)] []) as [[[|] seen]| |c]; try discriminate.
        intros H. inversion H. subst. eapply Hw; eauto.
      + exfalso. eapply Hn; eauto. }
    destruct (search_eq s1 s2 true (f_mi st) fuel oracle) as [o1 asked1] eqn:Es.
    specialize (Hchk o1 asked1 eq_refl).
    destruct pw.
    + destruct (path_checked s1 s2 (f_mi st) wfuel woracle (checked s1 s2 (f_mi st) wfuel o1)) as [o2 asked2] eqn:Ep.
      intros H. inversion H; subst. eapply path_checked_never_raises; eauto.
    + intros H. inversion H; subst. eapply Hchk; eauto.
  - exfalso. eapply Hne; eauto.
Qed.

Theorem find_eq_total s1 s2 pw fuel wfuel oracle woracle :
  oracle_total oracle -> oracle_total woracle ->
  (2 * length (all_pairs s1 s2) < fuel)%nat ->
  (length (all_edges s1 s2) * S (max_arity s2) + 1 < wfuel)%nat ->
  exists asked, find_eq s1 s2 pw fuel wfuel oracle woracle = EOut Nothing asked \/
                exists d1 d2, find_eq s1 s2 pw fuel wfuel oracle woracle = EOut (Found d1 d2) asked.
Proof.
  intros Hot Hwot Hf Hw.
  assert (Hpe : (length (all_pairs s1 s2) <= length (all_edges s1 s2))%nat).
  { unfold all_edges. apply length_le_prod. }
  unfold find_eq.
  pose proof (first_search_never_raises s1 s2 fuel) as Hne.
  pose proof (first_search_sound s1 s2 fuel) as Hs.
  assert (Hft : find s1 s2 fuel (s_root s1) (s_root s2) init_fstate <> OutOfFuel) by (apply first_search_terminates; lia).
  destruct (find s1 s2 fuel (s_root s1) (s_root s2) init_fstate) as [[[|] st]| |e'] eqn:E; try contradiction.
  - assert (Hmi : mi_sound s1 s2 (f_mi st)) by (eapply Hs; eauto).
    (* the search and the first walk *)
    assert (Hstage1 : exists o1 asked1, search_eq s1 s2 true (f_mi st) fuel oracle = EOut o1 asked1 /\
              (checked s1 s2 (f_mi st) wfuel o1 = Nothing \/ exists d1 d2, checked s1 s2 (f_mi st) wfuel o1 = Found d1 d2)).
    { unfold search_eq.
      assert (Hpre : epre s1 s2 (mkE [] [] [] oracle [] [])).
      { split; [split; apply sm_all_nil|]. split; [intros p []|exact Hot]. }
      destruct (erec_ok s1 s2 (f_mi st) Hmi fuel (0%nat, 0%nat) (s_root s1) (s_root s2) _ Hpre) as [Hn _].
      assert (Hterm : erec true (f_mi st) fuel (0%nat, 0%nat) (s_root s1) (s_root s2) (mkE [] [] [] oracle [] []) <> OutOfFuel).
      { apply (erec_terminates s1 s2 (f_mi st) Hmi); auto.
        - apply in_prod; left; reflexivity.
        - constructor.
        - intros p [].
        - change (length (e_panc (mkE [] [] [] oracle [] []))) with O. lia. }
      destruct (erec true (f_mi st) fuel (0%nat, 0%nat) (s_root s1) (s_root s2) (mkE [] [] [] oracle [] []))
        as [[[[[|] st2] x] y]| |e2] eqn:Er; try contradiction.
      + eexists _, _. split; [reflexivity|]. simpl.
        pose proof (walk_never_raises s1 s2 (f_mi st) (e_sp1 st2) (e_sp2 st2) Hmi wfuel [(s_root s1, s_root s2)] []) as Hwn.
        pose proof (walk_terminates s1 s2 (f_mi st) Hmi (e_sp1 st2) (e_sp2 st2) wfuel [(s_root s1, s_root s2)] []) as Hwt.
        destruct (walk (f_mi st) (e_sp1 st2) (e_sp2 st2) wfuel [(s_root s1, s_root s2)] []) as [[[|] seen]| |c]; eauto.
        * exfalso. apply Hwt; try reflexivity.
          -- intros p [<-|[]]. apply in_prod; left; reflexivity.
          -- intros p [].
          -- constructor.
          -- change (length (@nil lpair)) with O. change (length [(s_root s1, s_root s2)]) with 1%nat. nia.
        * exfalso. eapply Hwn; eauto.
      + eexists _, _. split; [reflexivity|]. left. reflexivity.
      + exfalso. eapply Hn; eauto. }
    destruct Hstage1 as [o1 [asked1 [Es Hc]]]. rewrite Es.
    destruct pw.
    + destruct Hc as [Hc|[d1 [d2 Hc]]]; rewrite Hc; simpl.
      * eexists. left. reflexivity.
      * pose proof (ewalk_never_raises s1 s2 (f_mi st) Hmi wfuel [(s_root s1, s_root s2, (0%nat, 0%nat))] [] (mkE d1 d2 [] woracle [] [])) as Hwn.
        pose proof (ewalk_terminates s1 s2 (f_mi st) Hmi d1 d2 wfuel [(s_root s1, s_root s2, (0%nat, 0%nat))] [] (mkE d1 d2 [] woracle [] [])) as Hwt.
        destruct (ewalk (f_mi st) wfuel [(s_root s1, s_root s2, (0%nat, 0%nat))] [] (mkE d1 d2 [] woracle [] [])) as [[[|] st3]| |c].
        -- eexists. right. eauto.
        -- eexists. left. reflexivity.
        -- exfalso. apply Hwt; try reflexivity; auto.
           all: try (intros p []; fail).
           all: try (constructor; fail).
           all: try (intros p [<-|[]]; unfold all_edges; apply in_prod; [apply in_prod; left; reflexivity|left; reflexivity]).
           all: change (length (@nil edge)) with O; change (length [(s_root s1, s_root s2, (0%nat, 0%nat))]) with 1%nat; lia.
        -- exfalso. eapply Hwn; eauto.
    + destruct Hc as [Hc|[d1 [d2 Hc]]]; rewrite Hc; eexists; eauto.
  - eexists. left. reflexivity.
  - exfalso. eapply Hne; eauto.
Qed.
