(* The second search of ParallelSpecFinder (_search_matching_info._rec), given a sound matching_info:
   it never raises, and every binding of the two label maps is a rule of its universe (or the empty
   tuple for an atom). *)
From Coq Require Import ZArith List Bool Lia.
From CSS Require Import Base.PyList Parallel.Model Parallel.Basics Parallel.First.
Import ListNotations.
Open Scope Z_scope.
Local Arguments Nat.eqb : simpl never.

Section Second.
Variables s1 s2 : side.

Definition good (s : side) (l : nat) (c : clist) : Prop :=
  (c = [] /\ atom_of s l <> None) \/ exists k, In (c, k) (rules_of s l).

Definition st_good (st : sstate) : Prop := sm_all (good s1) (sp1 st) /\ sm_all (good s2) (sp2 st).

Lemma atoms_match_atoms a b : atoms_match s1 s2 a b = true -> atom_of s1 a <> None /\ atom_of s2 b <> None.
Proof.
  unfold atoms_match. destruct (atom_of s1 a), (atom_of s2 b); intros H; try discriminate.
  split; discriminate.
Qed.

Lemma entry_sound_good a b c o :
  entry_sound s1 s2 a b c o -> good s1 a (fst c) /\ good s2 b (snd c).
Proof.
  intros [[-> [_ H]]|[H _]].
  - apply atoms_match_atoms in H. destruct H. split; left; auto.
  - apply potential_children_spec in H. destruct H as [k1 [k2 [H1 [H2 _]]]].
    split; right; eauto.
Qed.

(* a recorded child order never makes zip((children1[i] for i in order), children2) raise *)
Lemma child_pairs_some c1 o : (forall z, In z o -> 0 <= z < Z.of_nat (length c1)) ->
  forall c2, child_pairs c1 c2 o <> None.
Proof.
  induction o as [|i o IH]; intros Hr c2.
  - destruct c2; simpl; discriminate.
  - assert (Hi : 0 <= i < Z.of_nat (length c1)) by (apply Hr; left; reflexivity).
    assert (Hn : py_nth c1 i <> None).
    { replace i with (Z.of_nat (Z.to_nat i)) by lia. rewrite py_nth_nat by lia.
      intros E. apply nth_error_None in E. lia. }
    destruct c2 as [|b c2]; simpl.
    + destruct (py_nth c1 i); [discriminate|contradiction].
    + destruct (py_nth c1 i) as [a|]; [|contradiction].
      specialize (IH (fun z H => Hr z (or_intror H)) c2).
      destruct (child_pairs c1 c2 o); [discriminate|contradiction].
Qed.

Lemma entry_sound_child_pairs a b c o :
  entry_sound s1 s2 a b c o -> child_pairs (fst c) (snd c) o <> None.
Proof.
  intros [[-> [-> _]]|[_ [_ Hp]]].
  - simpl. discriminate.
  - apply child_pairs_some. apply perm_ok_facts in Hp. destruct Hp as [_ [Hr _]]. exact Hr.
Qed.

Definition call2_ok (call : nat -> nat -> sstate -> res rec_out) : Prop :=
  forall a b st, st_good st ->
    (forall e, call a b st <> Err e) /\
    (forall r st' x y, call a b st = Ok (r, st', x, y) -> st_good st').

Lemma all_children_ok call : call2_ok call ->
  forall ps st tc1 tc2, st_good st ->
    (forall e, all_children call ps st tc1 tc2 <> Err e) /\
    (forall r st' x y, all_children call ps st tc1 tc2 = Ok (r, st', x, y) -> st_good st').
Proof.
  intros Hc. induction ps as [|[a b] ps IH]; intros st tc1 tc2 Hg.
  - simpl. split; [discriminate|]. intros r st' x y H. inversion H; subst. exact Hg.
  - simpl. destruct (Hc a b st Hg) as [Hne Hok].
    destruct (call a b st) as [[[[[|] st1] a1] a2]| |e] eqn:E.
    + apply IH. eapply Hok; eauto.
    + split; [discriminate|]. intros r st' x y H. inversion H; subst. eapply Hok; eauto.
    + split; [discriminate|]. intros; discriminate.
    + exfalso. eapply Hne; eauto.
Qed.

Lemma clean_good tc1 tc2 id1 id2 a b r1 r2 a' b' :
  sm_all (good s1) a -> sm_all (good s2) b ->
  clean tc1 tc2 id1 id2 a b r1 r2 = (a', b') ->
  sm_all (good s1) a' /\ sm_all (good s2) b'.
Proof.
  intros Ha Hb H. unfold clean in H. inversion H; subst. split.
  - destruct r1; [|apply sm_all_del]; apply sm_all_del_all; exact Ha.
  - destruct r2; [|apply sm_all_del]; apply sm_all_del_all; exact Hb.
Qed.

Lemma rec_loop_ok call m id1 id2 r1 r2 : call2_ok call ->
  forall cs, (forall c o, In (c, o) cs -> entry_sound s1 s2 id1 id2 c o) ->
  forall st, st_good st ->
    (forall e, rec_loop call m id1 id2 r1 r2 cs st <> Err e) /\
    (forall r st' x y, rec_loop call m id1 id2 r1 r2 cs st = Ok (r, st', x, y) -> st_good st').
Proof.
  intros Hc. induction cs as [|[c o] cs IH]; intros Hcs st Hg.
  - simpl. split; [discriminate|]. intros r st' x y H. inversion H; subst. exact Hg.
  - simpl.
    assert (Hcs' : forall c o, In (c, o) cs -> entry_sound s1 s2 id1 id2 c o) by (intros; apply Hcs; right; auto).
    assert (Hs : entry_sound s1 s2 id1 id2 c o) by (apply Hcs; left; reflexivity).
    destruct (negb (cand_ok (sp1 st) (sp2 st) id1 id2 c)); [apply IH; auto|].
    pose proof (entry_sound_child_pairs _ _ _ _ Hs) as Hcp.
    destruct (child_pairs (fst c) (snd c) o) as [ps|]; [|contradiction].
    destruct (entry_sound_good _ _ _ _ Hs) as [G1 G2].
    assert (Hg0 : st_good (mkS (sm_set (sp1 st) id1 (fst c)) (sm_set (sp2 st) id2 (snd c)))).
    { destruct Hg as [A B]. split; simpl; apply sm_all_set; auto. }
    destruct (all_children_ok call Hc ps _ [] [] Hg0) as [Hne Hok].
    destruct (all_children call ps (mkS (sm_set (sp1 st) id1 (fst c)) (sm_set (sp2 st) id2 (snd c))) [] [])
      as [[[[[|] st1] tc1] tc2]| |e] eqn:E.
    + split; [discriminate|]. intros r st' x y H. inversion H; subst. eapply Hok; eauto.
    + pose proof (Hok _ _ _ _ eq_refl) as [A B].
      apply IH; auto. split; simpl.
      * destruct r1; [|apply sm_all_del]; apply sm_all_del_all; exact A.
      * destruct r2; [|apply sm_all_del]; apply sm_all_del_all; exact B.
    + split; [discriminate|]. intros; discriminate.
    + exfalso. eapply Hne; eauto.
Qed.

Lemma rec2_ok m : mi_sound s1 s2 m -> forall fuel, call2_ok (rec2 m fuel).
Proof.
  intros Hm. induction fuel as [|f IH]; intros id1 id2 st Hg.
  - simpl. split; [discriminate|]. intros; discriminate.
  - simpl.
    destruct (inconsistent m id1 id2 (sp1 st) (sp2 st)) eqn:Einc.
    { split; [discriminate|]. intros r st' x y H. inversion H; subst. exact Hg. }
    destruct (is_atom_pair m id1 id2) eqn:Eat.
    { split; [discriminate|]. intros r st' x y H. inversion H; subst. clear H.
      unfold is_atom_pair in Eat. destruct (mi_get m (id1, id2)) as [d|] eqn:G; [|discriminate].
      destruct (inner_get d ([], [])) as [o|] eqn:I; [|discriminate].
      apply inner_get_In in I. pose proof (Hm _ _ _ _ _ G I) as Hs.
      destruct (entry_sound_good _ _ _ _ Hs) as [G1 G2]. simpl in G1, G2.
      destruct Hg as [A B]. split; simpl; apply sm_all_set; auto. }
    destruct (sm_mem (sp1 st) id1 && sm_mem (sp2 st) id2).
    { split; [discriminate|]. intros r st' x y H. inversion H; subst. exact Hg. }
    destruct (mi_get m (id1, id2)) as [d|] eqn:G.
    + apply rec_loop_ok; auto. intros c o Hin. eapply Hm; eauto.
    + (* `inconsistent` was false, so the key is present *)
      exfalso. unfold inconsistent in Einc. apply orb_false_iff in Einc. destruct Einc as [Einc _].
      apply orb_false_iff in Einc. destruct Einc as [Einc _]. apply negb_false_iff in Einc.
      apply mi_mem_get in Einc. destruct Einc as [d Hd]. congruence.
Qed.

(* ---------------------------------------------------------------- find() of ParallelSpecFinder *)
Lemma search_base_ok (m : minfo) (fuel : nat) : mi_sound s1 s2 m ->
  (forall e, search_base s1 s2 m fuel <> Failed e) /\
  (forall d1 d2, search_base s1 s2 m fuel = Found d1 d2 -> sm_all (good s1) d1 /\ sm_all (good s2) d2).
Proof.
  intros Hm. unfold search_base.
  assert (Hg : st_good (mkS [] [])) by (split; apply sm_all_nil).
  destruct (rec2_ok m Hm fuel (s_root s1) (s_root s2) _ Hg) as [Hne Hok].
  destruct (rec2 m fuel (s_root s1) (s_root s2) (mkS [] [])) as [[[[[|] st] x] y]| |e] eqn:E.
  - split; [discriminate|]. intros d1 d2 H. inversion H; subst. apply (Hok _ _ _ _ eq_refl).
  - split; [discriminate|]. intros; discriminate.
  - split; [discriminate|]. intros; discriminate.
  - exfalso. eapply Hne; eauto.
Qed.

Theorem old_base_never_raises (fuel e : nat) : find_base_old s1 s2 fuel <> Failed e.
Proof.
  unfold find_base_old.
  pose proof (first_search_never_raises s1 s2 fuel) as Hne.
  pose proof (first_search_sound s1 s2 fuel) as Hs.
  destruct (find s1 s2 fuel (s_root s1) (s_root s2) init_fstate) as [[[|] st]| |e'] eqn:E.
  - apply search_base_ok. eapply Hs; eauto.
  - discriminate.
  - discriminate.
  - exfalso. eapply Hne; eauto.
Qed.

Theorem old_base_good (fuel : nat) d1 d2 :
  find_base_old s1 s2 fuel = Found d1 d2 -> sm_all (good s1) d1 /\ sm_all (good s2) d2.
Proof.
  unfold find_base_old. pose proof (first_search_sound s1 s2 fuel) as Hs.
  destruct (find s1 s2 fuel (s_root s1) (s_root s2) init_fstate) as [[[|] st]| |e'] eqn:E; try discriminate.
  apply search_base_ok. eapply Hs; eauto.
Qed.

End Second.
