(* From the finder's answer to the two rule sets: for the code as it is (fix 97589e3), whenever find() returns two
   label maps, the specification-construction stage of EACH side (tree + SpecificationRuleExtractor
   invoked with that side's start label) does not fail and yields a closed rules dictionary with a rule
   for the start label — provided the universe handed to the finder is what ParallelInfo reads off the
   rule database: every rule of the universe, and every atom, is a stored rule up to equivalence. *)
From Coq Require Import ZArith List Bool Lia.
From CSS Require Import Spec.Extractor Spec.ExtractorProofs
  Parallel.Model Parallel.Basics Parallel.First Parallel.Second Parallel.Matched Parallel.Fixed Parallel.SpecStage.
Import ListNotations.

Lemma bfs_reach d root : forall fuel queue visited acc keys,
  bfs d fuel queue visited acc = Some keys ->
  (forall x, In x queue -> reach d root x) ->
  (forall l c, In (l, c) acc -> reach d root l) ->
  forall l c, In (l, c) keys -> reach d root l.
Proof.
  induction fuel as [|f IH]; intros queue visited acc keys H Hq Ha; [discriminate|].
  simpl in H. destruct queue as [|v q].
  - inversion H; subst. intros l c Hin. apply in_rev in Hin. eauto.
  - destruct (mem_nat v visited).
    + eapply IH; eauto. intros x Hx. apply Hq. right. exact Hx.
    + eapply IH; eauto.
      * intros x Hx. apply in_app_or in Hx. destruct Hx as [Hx|Hx]; [apply Hq; right; exact Hx|].
        unfold sm_getd in Hx. destruct (sm_get d v) as [c|] eqn:G; [|destruct Hx].
        eapply reach_step; eauto. apply Hq. left. reflexivity.
      * intros l c [E|Hin]; [inversion E; subst; apply Hq; left; reflexivity|eauto].
Qed.

Lemma tree_keys_reach d root fuel keys : tree_keys d root fuel = Some keys ->
  forall l c, In (l, c) keys -> reach d root l.
Proof.
  unfold tree_keys. intros H. eapply bfs_reach; eauto.
  - intros x [<-|[]]. constructor.
  - intros l c [].
Qed.

Section EndToEnd.
Variable rep : nat -> nat.
Variable fpath : nat -> nat -> list nat.
Hypothesis fpath_ok : forall l t, rep l = rep t ->
  fpath l t <> [] /\ hd O (fpath l t) = l /\ last (fpath l t) O = t.

(* the universe of a side is read off the rule database *)
Definition universe_of (s : side) (stored : list rkey) : Prop :=
  (forall l c k, In (c, k) (rules_of s l) -> exists key, In key stored /\ eqv_key rep key = (l, c)) /\
  (forall l, atom_of s l <> None -> exists key, In key stored /\ eqv_key rep key = (l, [])).

Lemma closed_keys_stored s stored d fuel keys :
  universe_of s stored -> closed_map s d -> tree_keys d (s_root s) fuel = Some keys ->
  forall e, In e keys -> exists key, In key stored /\ eqv_key rep key = e.
Proof.
  intros [Hr Ha] Hc Hk [l c] Hin.
  destruct (tree_keys_spec _ _ _ _ Hk) as (_ & Hval & _).
  pose proof (Hval _ _ Hin) as Hcv. pose proof (tree_keys_reach _ _ _ _ Hk _ _ Hin) as Hreach.
  destruct (Hc _ Hreach) as [c' [G Hg]]. unfold sm_getd in Hcv. rewrite G in Hcv. subst c'.
  destruct Hg as [[-> Hat]|[k Hk']]; eauto.
Qed.

(* the extractor, invoked with the start label on the tree keys, succeeds with a closed dictionary that
   has an entry for the start label and consists of stored rules and explanation-path steps *)
Definition rule_set_ok (stored keys : list rkey) (start : nat) (order : list nat) : Prop :=
  exists dict, extract rep fpath stored keys start order = Some dict /\
    (forall e, In e dict -> forall c, In c (snd e) -> dom dict c = true) /\
    dom dict start = true /\
    (forall e, In e dict -> In e stored \/ exists l t p c, step_of (fpath l t) p c /\ e = (p, [c])).

(* `order` lists exactly the labels _no_lhs_labels() computes (the set is iterated in some order) *)
Definition order_ok (stored keys : list rkey) (start : nat) (order : list nat) : Prop :=
  forall d0 e2p, decompositions rep stored keys [] [] = Some (d0, e2p) ->
    forall l, In l order <-> no_lhs d0 start l = true.

Theorem side_spec_from_matched s stored d start order fuel keys :
  universe_of s stored -> closed_map s d ->
  tree_keys d (s_root s) fuel = Some keys ->
  rep start = s_root s ->
  order_ok stored keys start order ->
  rule_set_ok stored keys start order.
Proof.
  intros Hu Hc Hk Hs Ho.
  eapply spec_from_label_map; eauto. eapply closed_keys_stored; eauto.
Qed.

End EndToEnd.
