(* Soundness of the failure memo of the first search (= its completeness).
   `matchable` is the largest relation on pairs of labels in which every pair is a pair of atoms with
   the same identity or has two candidate rules (non-empty, same length, matching constructor classes)
   and an injective assignment of child positions whose pairs are again in the relation.
   Whatever the first search records as failed (in `visited`, not in matching_info) is NOT matchable;
   equivalently _find answers True on every matchable pair. *)
From Coq Require Import ZArith List Bool Lia.
From CSS Require Import Base.PyList Parallel.Model Parallel.Basics Parallel.First.
Import ListNotations.
Open Scope Z_scope.
Local Arguments Nat.eqb : simpl never.

Section Memo.
Variables s1 s2 : side.

Definition match_step (M : lpair -> Prop) (a b : nat) : Prop :=
  atoms_match s1 s2 a b = true \/
  exists c1 c2 (pi : list nat),
    In (c1, c2) (potential_children s1 s2 a b) /\ c1 <> [] /\
    length pi = length c1 /\ NoDup pi /\ (forall i2, In i2 pi -> (i2 < length c1)%nat) /\
    forall i1 i2, nth_error pi i1 = Some i2 -> M (nth i1 c1 O, nth i2 c2 O).
Definition matching_rel (M : lpair -> Prop) : Prop := forall a b, M (a, b) -> match_step M a b.
Definition matchable (p : lpair) : Prop := exists M, matching_rel M /\ M p.

Lemma matchable_step a b : matchable (a, b) -> match_step matchable a b.
Proof.
  intros [M [HM Hab]]. destruct (HM _ _ Hab) as [Hat|[c1 [c2 [pi [A [B [C [D [E F]]]]]]]]].
  - left. exact Hat.
  - right. exists c1, c2, pi. repeat (split; auto).
    intros i1 i2 H. exists M. split; auto.
Qed.

Definition Inv (st : fstate) : Prop :=
  forall p, In p (f_visited st) -> mi_mem (f_mi st) p = false -> ~ matchable p.
Definition mono (st st' : fstate) : Prop :=
  forall p, mi_mem (f_mi st) p = true -> mi_mem (f_mi st') p = true.

Definition call_good (call : nat -> nat -> fstate -> res (bool * fstate)) : Prop :=
  forall a b st r st', call a b st = Ok (r, st') -> Inv st ->
    Inv st' /\ mono st st' /\ (matchable (a, b) -> r = true).

Lemma mi_mem_set m k v p : mi_mem (mi_set m k v) p = pair_eqb k p || mi_mem m p.
Proof. unfold mi_mem. rewrite mi_get_set. destruct (pair_eqb k p); reflexivity. Qed.
Lemma mi_mem_put m k c o p : mi_mem (mi_put m k c o) p = pair_eqb k p || mi_mem m p.
Proof. unfold mi_put. apply mi_mem_set. Qed.

(* a way to finish the matching from level i1 on, avoiding the positions in use *)
Definition completion (c1 c2 : clist) (n i1 : nat) (in_use rest : list nat) : Prop :=
  (i1 + length rest = n)%nat /\ NoDup rest /\
  (forall x, In x rest -> (x < n)%nat /\ ~ In x in_use) /\
  forall k i2, nth_error rest k = Some i2 -> matchable (nth (i1 + k) c1 O, nth i2 c2 O).

Definition bl_sound (c1 c2 : clist) (bl : list lpair) : Prop :=
  forall x y, In (x, y) bl -> ~ matchable (nth x c1 O, nth y c2 O).

Definition pc_post (c1 c2 : clist) (n i1 : nat) (in_use : list nat) (first_in : list nat)
    (bl : list lpair) (st : fstate) (r : psr) : Prop :=
  forall ro bl' co' st', r = Ok (ro, bl', co', st') -> Inv st -> bl_sound c1 c2 bl ->
    Inv st' /\ mono st st' /\ bl_sound c1 c2 bl' /\
    ((exists r0 rest, completion c1 c2 n i1 in_use (r0 :: rest) /\ In r0 first_in) -> ro <> None).

Lemma try_level_complete call deeper c1 c2 n i1 in_use :
  call_good call -> (i1 < n)%nat ->
  (forall i2 bl co st, pc_post c1 c2 n (S i1) (i2 :: in_use) (free_indices n (i2 :: in_use)) bl st (deeper i2 bl co st)) ->
  forall cands bl co st,
    pc_post c1 c2 n i1 in_use cands bl st (try_level call deeper c1 c2 n i1 cands bl co st).
Proof.
  intros Hcall Hi1 Hdeep. induction cands as [|i2 more IH]; intros bl co st ro bl' co' st' H Hinv Hbl.
  - simpl in H. inversion H; subst. split; [auto|]. split; [intros p Hp; exact Hp|]. split; [auto|].
    intros [r0 [rest [_ []]]].
  - simpl in H.
    (* a completion starting with i2 is impossible in the three "not here" cases *)
    assert (Hskip : ~ matchable (nth i1 c1 O, nth i2 c2 O) ->
              (exists r0 rest, completion c1 c2 n i1 in_use (r0 :: rest) /\ In r0 (i2 :: more)) ->
              exists r0 rest, completion c1 c2 n i1 in_use (r0 :: rest) /\ In r0 more).
    { intros Hnm [r0 [rest [Hc [<-|Hin]]]]; [|eauto].
      exfalso. apply Hnm. destruct Hc as [_ [_ [_ Hm]]]. specialize (Hm O i2 eq_refl).
      rewrite Nat.add_0_r in Hm. exact Hm. }
    destruct (mem_pair (i1, i2) bl) eqn:Ebl.
    { apply mem_pair_In in Ebl. destruct (IH _ _ _ _ _ _ _ H Hinv Hbl) as [A [B [C D]]].
      split; [exact A|]. split; [exact B|]. split; [exact C|].
      intros Hex. apply D. apply Hskip; auto. }
    destruct (nth_error c1 i1) as [a|] eqn:Ea; [|discriminate].
    destruct (nth_error c2 i2) as [b|] eqn:Eb; [|discriminate].
    rewrite (nth_error_nth _ _ O Ea), (nth_error_nth _ _ O Eb) in Hskip.
    destruct (call a b st) as [[[|] st1]| |e] eqn:Ecall; try discriminate.
    + (* the call matched *)
      destruct (Hcall _ _ _ _ _ Ecall Hinv) as [Hinv1 [Hmono1 _]].
      destruct (py_set co (Z.of_nat i2) (Z.of_nat i1)) as [co1|]; [|discriminate].
      destruct (Nat.eqb (S i1) n) eqn:En.
      * inversion H; subst. split; [auto|]. split; [auto|]. split; [auto|]. intros _. discriminate.
      * destruct (deeper i2 bl co1 st1) as [[[[ro2 bl2] co2] st2]| |e] eqn:Ed; try discriminate.
        destruct (Hdeep i2 bl co1 st1 _ _ _ _ Ed Hinv1 Hbl) as [Hinv2 [Hmono2 [Hbl2 Hcomp2]]].
        destruct ro2 as [o2|].
        -- inversion H; subst. split; [auto|]. split; [intros p Hp; auto|]. split; [auto|].
           intros _. discriminate.
        -- destruct (IH _ _ _ _ _ _ _ H Hinv2 Hbl2) as [A [B [C D]]].
           split; [exact A|]. split; [intros p Hp; auto|]. split; [exact C|].
           intros [r0 [rest [Hc Hin]]]. apply D. destruct Hin as [<-|Hin]; [|eauto].
           (* the completion continues below i2: the deeper search cannot have failed *)
           exfalso. apply Hcomp2; [|reflexivity].
           destruct Hc as [Hlen [Hnd [Hfree Hm]]]. simpl in Hlen.
           destruct rest as [|r1 rest'].
           { simpl in Hlen. apply Nat.eqb_neq in En. lia. }
           exists r1, rest'. split.
           ++ split; [simpl in *; lia|]. inversion Hnd; subst. split; [assumption|]. split.
              ** intros x Hx. destruct (Hfree x (or_intror Hx)) as [X1 X2]. split; [exact X1|].
                 intros [<-|Hx']; [|contradiction]. apply H2. exact Hx.
              ** intros k j Hk. specialize (Hm (S k) j Hk). replace (S i1 + k)%nat with (i1 + S k)%nat by lia. exact Hm.
           ++ unfold free_indices. apply filter_In. destruct (Hfree r1 (or_intror (or_introl eq_refl))) as [X1 X2].
              split; [apply in_seq; lia|]. apply negb_true_iff. apply mem_nat_false.
              intros [<-|Hx]; [|contradiction]. inversion Hnd; subst. apply H2. left. reflexivity.
    + (* the call failed: the pair is not matchable *)
      destruct (Hcall _ _ _ _ _ Ecall Hinv) as [Hinv1 [Hmono1 Htrue]].
      assert (Hnm : ~ matchable (a, b)) by (intros Hm; specialize (Htrue Hm); discriminate).
      assert (Hbl1 : bl_sound c1 c2 ((i1, i2) :: bl)).
      { intros x y [E|Hin]; [|apply Hbl; exact Hin]. inversion E; subst.
        rewrite (nth_error_nth _ _ O Ea), (nth_error_nth _ _ O Eb). exact Hnm. }
      destruct (IH _ _ _ _ _ _ _ H Hinv1 Hbl1) as [A [B [C D]]].
      split; [exact A|]. split; [intros p Hp; auto|]. split.
      * intros x y Hin. apply C. exact Hin.
      * intros Hex. apply D. apply Hskip; auto.
Qed.

Lemma perm_search_complete call c1 c2 n : call_good call ->
  forall lev i1 in_use bl co st, (i1 + lev = n)%nat ->
    pc_post c1 c2 n i1 in_use (free_indices n in_use) bl st (perm_search call c1 c2 n lev i1 in_use bl co st).
Proof.
  intros Hcall. induction lev as [|lev IH]; intros i1 in_use bl co st Hsum.
  - simpl. intros ro bl' co' st' H Hinv Hbl. inversion H; subst.
    split; [auto|]. split; [intros p Hp; exact Hp|]. split; [auto|].
    intros [r0 [rest [[Hlen _] _]]]. simpl in Hlen. lia.
  - simpl. apply try_level_complete; auto; try lia.
    intros i2 bl0 co0 st0. apply IH. lia.
Qed.

Lemma over_cands_complete call key : call_good call ->
  forall cs st st', over_cands call key cs st = Ok st' -> Inv st ->
    Inv st' /\ mono st st' /\
    ((exists c1 c2 pi, In (c1, c2) cs /\ c1 <> [] /\ length (c2) = length c1 /\
        completion c1 c2 (length c1) O [] pi) -> mi_mem (f_mi st') key = true).
Proof.
  intros Hcall. induction cs as [|[c1 c2] cs IH]; intros st st' H Hinv.
  - simpl in H. inversion H; subst. split; [auto|]. split; [intros p Hp; exact Hp|].
    intros [c1 [c2 [pi [[] _]]]].
  - simpl in H.
    destruct (perm_search call c1 c2 (length c1) (length c1) 0 [] [] (repeat (-1) (length c1)) st)
      as [[[[ro bl'] co'] st1]| |e] eqn:Eps; try discriminate.
    destruct (perm_search_complete call c1 c2 (length c1) Hcall (length c1) O [] [] _ st eq_refl
                _ _ _ _ Eps Hinv (fun x y (F : In (x, y) []) => match F with end)) as [Hinv1 [Hmono1 [_ Hcomp]]].
    assert (Hhere : forall pi, c1 <> [] -> completion c1 c2 (length c1) O [] pi -> ro <> None).
    { intros pi Hne Hc. apply Hcomp. destruct pi as [|r0 rest].
      - destruct Hc as [Hlen _]. simpl in Hlen. destruct c1; [contradiction|discriminate].
      - exists r0, rest. split; [exact Hc|]. destruct Hc as [_ [_ [Hfree _]]].
        destruct (Hfree r0 (or_introl eq_refl)) as [X _]. unfold free_indices. apply filter_In.
        split; [apply in_seq; lia|reflexivity]. }
    destruct ro as [order|].
    + set (st2 := mkF (mi_put (f_mi st1) key (c1, c2) order) (f_visited st1) (f_anc st1)) in *.
      assert (Hinv2 : Inv st2).
      { intros p Hp Hm. unfold st2 in Hm. simpl in Hm. rewrite mi_mem_put in Hm.
        apply orb_false_iff in Hm. destruct Hm as [_ Hm]. apply Hinv1; auto. }
      assert (Hmono2 : mono st1 st2).
      { intros p Hp. unfold st2. simpl. rewrite mi_mem_put, Hp. apply orb_true_r. }
      destruct (IH _ _ H Hinv2) as [A [B D]].
      split; [exact A|]. split; [intros p Hp; auto|].
      intros _. apply B. unfold st2. simpl. rewrite mi_mem_put, pair_eqb_refl. reflexivity.
    + destruct (IH _ _ H Hinv1) as [A [B D]].
      split; [exact A|]. split; [intros p Hp; auto|].
      intros [d1 [d2 [pi [[E|Hin] [Hne [Hl Hc]]]]]].
      * inversion E; subst. exfalso. eapply Hhere; eauto.
      * apply D. exists d1, d2, pi. auto.
Qed.
Lemma find_good fuel : call_good (find s1 s2 fuel).
Proof.
  induction fuel as [|f IH]; intros id1 id2 st r st' H Hinv; [discriminate|].
  simpl in H.
  destruct (atoms_match s1 s2 id1 id2) eqn:Eat.
  { inversion H; subst. split; [|split; [|auto]].
    - intros p Hp Hm. simpl in Hm. rewrite mi_mem_set in Hm. apply orb_false_iff in Hm.
      destruct Hm as [_ Hm]. apply Hinv; auto.
    - intros p Hp. simpl. rewrite mi_mem_set, Hp. apply orb_true_r. }
  destruct (mi_mem (f_mi st) (id1, id2)) eqn:Emi.
  { inversion H; subst. split; [auto|]. split; [intros p Hp; exact Hp|auto]. }
  destruct (mem_pair (id1, id2) (f_visited st)) eqn:Evis.
  { inversion H; subst. split; [auto|]. split; [intros p Hp; exact Hp|].
    intros Hm. exfalso. apply mem_pair_In in Evis. exact (Hinv _ Evis Emi Hm). }
  destruct (mem_pair (id1, id2) (f_anc st)) eqn:Eanc.
  { inversion H; subst. split; [auto|]. split; [intros p Hp; exact Hp|auto]. }
  destruct (over_cands (find s1 s2 f) (id1, id2) (potential_children s1 s2 id1 id2)
              (mkF (f_mi st) (f_visited st) (set_add (id1, id2) (f_anc st)))) as [st1| |e] eqn:Eo; try discriminate.
  destruct (set_remove (id1, id2) (f_anc st1)) as [anc'|]; [|discriminate].
  inversion H; subst r st'. clear H.
  destruct (over_cands_complete (find s1 s2 f) (id1, id2) IH _ _ _ Eo Hinv) as [Hinv1 [Hmono1 Hcomp]].
  assert (Htrue : matchable (id1, id2) -> mi_mem (f_mi st1) (id1, id2) = true).
  { intros Hm. apply matchable_step in Hm. destruct Hm as [Hat|[c1 [c2 [pi [A [B [C [D [E F]]]]]]]]]; [congruence|].
    apply Hcomp. exists c1, c2, pi. split; [exact A|]. split; [exact B|].
    destruct (potential_children_spec _ _ _ _ _ A) as [k1 [k2 [_ [_ [Hl _]]]]]. simpl in Hl.
    split; [exact Hl|]. split; [simpl; lia|]. split; [exact D|]. split.
    - intros x Hx. split; [apply E; exact Hx|intros []].
    - intros k i2 Hk. simpl. apply F. exact Hk. }
  split; [|split].
  - intros p Hp Hm. simpl in Hp, Hm. apply set_add_In in Hp. destruct Hp as [->|Hp].
    + intros Hmm. rewrite (Htrue Hmm) in Hm. discriminate.
    + apply Hinv1; auto.
  - intros p Hp. simpl. apply Hmono1. exact Hp.
  - simpl. exact Htrue.
Qed.

(* what find() starts *)
Theorem failure_memo_sound fuel b st :
  find s1 s2 fuel (s_root s1) (s_root s2) init_fstate = Ok (b, st) ->
  (forall p, In p (f_visited st) -> mi_mem (f_mi st) p = false -> ~ matchable p) /\
  (matchable (s_root s1, s_root s2) -> b = true).
Proof.
  intros H. destruct (find_good fuel _ _ _ _ _ H) as [A [_ B]].
  - intros p [].
  - split; [exact A|exact B].
Qed.

End Memo.
