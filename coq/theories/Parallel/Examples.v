(* Helper facts for the applied examples of Props/C13.v: a find_path that honours its contract for every
   representative function, and a second small rule database. *)
From Coq Require Import ZArith List Bool Lia.
From CSS Require Import Spec.Extractor Spec.ExtractorProofs Parallel.Model Parallel.InfoModel Parallel.EndToEnd
  Parallel.Final.
Import ListNotations.

(* find_path between equivalent labels: the label itself, or the two labels *)
Definition path2 := fun l t : nat => if Nat.eqb l t then [l] else [l; t].

Lemma path2_ok (rep : nat -> nat) : fpath_ok rep path2.
Proof.
  intros l t _. unfold path2. destruct (Nat.eqb l t) eqn:E.
  - apply Nat.eqb_eq in E. subst. repeat split; discriminate || reflexivity.
  - repeat split; discriminate || reflexivity.
Qed.

Lemma path2_contract (rep : nat -> nat) : forall l t, rep l = rep t ->
  path2 l t <> [] /\ hd O (path2 l t) = l /\ last (path2 l t) O = t.
Proof. exact (path2_ok rep). Qed.

(* a second rule database: start label 3 (its own representative), 3 -> (7, 7), 7 an atom *)
Definition ex_db2 : rdb :=
  mkDB 3%nat [0; 1; 2; 3; 4; 5; 6; 7]%nat
       [(false, None); (false, None); (false, None); (false, None); (false, None); (false, None); (false, None);
        (false, Some 1%Z)]
       [((3, [7; 7])%nat, 0%Z); ((7, [])%nat, (-1)%Z)].
Definition ex_lis2 : list rkey := [(3, [7; 7]); (7, [])]%nat.
Definition ex_side2 : side := mkSide 3%nat [(7%nat, 1%Z)] [(3, [([7; 7], 0%Z)]); (7, [([], (-1)%Z)])]%nat.

Lemma ex_db2_construct : construct ex_db2 ex_lis2 = COk ex_side2 /\ lis_agrees ex_db2 ex_lis2 = true.
Proof. split; vm_compute; reflexivity. Qed.

Lemma ex_db2_ver : ver_no_children ex_db2.
Proof. intros key z [H|[H|[]]] Hz; inversion H; subst; try reflexivity. discriminate. Qed.

Lemma ex_db2_order : order_ok (db_rep ex_db2) (db_keys ex_db2) [(3, [7; 7]); (7, [])]%nat 3%nat [].
Proof.
  intros d0 e2p H. vm_compute in H. inversion H; subst. intros l.
  destruct l as [|[|[|[|[|[|[|[|l]]]]]]]]; vm_compute; intuition congruence.
Qed.
