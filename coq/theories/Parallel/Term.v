(* Termination of the first search: with fuel above the number of pairs of labels that occur in the
   two universes, _find never runs out of fuel (the pairs on the ancestor stack are distinct). *)
From Coq Require Import ZArith List Bool Lia.
From CSS Require Import Base.PyList Parallel.Model Parallel.Basics Parallel.First.
Import ListNotations.
Open Scope Z_scope.
Local Arguments Nat.eqb : simpl never.

Definition labels (s : side) : list nat :=
  s_root s :: flat_map (fun e => fst e :: flat_map fst (snd e)) (s_rules s).

Lemma rules_of_labels s a c k x : In (c, k) (rules_of s a) -> In x c -> In x (labels s).
Proof.
  unfold rules_of, labels. destruct (assoc_nat (s_rules s) a) as [rs|] eqn:E; [|intros []].
  apply assoc_nat_In in E. intros Hc Hx. right. apply in_flat_map. exists (a, rs). split; [exact E|].
  simpl. right. apply in_flat_map. exists (c, k). split; auto.
Qed.

Section Term.
Variables s1 s2 : side.

Definition all_pairs : list lpair := list_prod (labels s1) (labels s2).

Lemma children_pairs id1 id2 c i1 i2 a b :
  In c (potential_children s1 s2 id1 id2) ->
  nth_error (fst c) i1 = Some a -> nth_error (snd c) i2 = Some b -> In (a, b) all_pairs.
Proof.
  intros Hc Ha Hb. destruct (potential_children_spec _ _ _ _ _ Hc) as [k1 [k2 [H1 [H2 _]]]].
  apply in_prod.
  - eapply rules_of_labels; eauto. eapply nth_error_In; eauto.
  - eapply rules_of_labels; eauto. eapply nth_error_In; eauto.
Qed.

Definition nf_call (call : nat -> nat -> fstate -> res (bool * fstate)) (A : list lpair) : Prop :=
  forall a b st, In (a, b) all_pairs -> f_anc st = A -> call a b st <> OutOfFuel.

Lemma try_level_nf call deeper c1 c2 n i1 in_use A :
  call_ok s1 s2 call -> nf_call call A ->
  length c1 = n -> length c2 = n -> (i1 < n)%nat ->
  (forall x y a b, nth_error c1 x = Some a -> nth_error c2 y = Some b -> In (a, b) all_pairs) ->
  (forall j, In j in_use -> (j < n)%nat) ->
  (forall i2 bl co st, (i2 < n)%nat -> ~ In i2 in_use -> length co = n ->
     ps_post s1 s2 n (S i1) (i2 :: in_use) co st (deeper i2 bl co st) /\
     (f_anc st = A -> deeper i2 bl co st <> OutOfFuel)) ->
  forall cands, (forall i2, In i2 cands -> (i2 < n)%nat /\ ~ In i2 in_use) ->
  forall bl co st, length co = n -> f_anc st = A ->
    try_level call deeper c1 c2 n i1 cands bl co st <> OutOfFuel.
Proof.
  intros Hcall Hnf Hc1 Hc2 Hi1 Hkids Huse Hdeep.
  induction cands as [|i2 more IH]; intros Hc bl co st Hco Hanc; simpl; [discriminate|].
  destruct (Hc i2 (or_introl eq_refl)) as [Hi2 Hni2].
  assert (Hmore : forall x, In x more -> (x < n)%nat /\ ~ In x in_use) by (intros x Hx; apply Hc; right; exact Hx).
  destruct (mem_pair (i1, i2) bl); [apply IH; auto|].
  destruct (nth_error c1 i1) as [a|] eqn:Ea; [|discriminate].
  destruct (nth_error c2 i2) as [b|] eqn:Eb; [|discriminate].
  pose proof (Hnf a b st (Hkids _ _ _ _ Ea Eb) Hanc) as Hnfc.
  destruct (Hcall a b st) as [_ Hok].
  destruct (call a b st) as [[[|] st1]| |e] eqn:Ecall; try discriminate; try contradiction.
  - destruct (Hok _ _ eq_refl) as [Hanc1 _].
    rewrite py_set_nat by lia.
    set (co1 := set_nth co i2 (Z.of_nat i1)).
    assert (Hco1 : length co1 = n) by (unfold co1; rewrite set_nth_length; exact Hco).
    destruct (Nat.eqb (S i1) n); [discriminate|].
    destruct (Hdeep i2 bl co1 st1 Hi2 Hni2 Hco1) as [[_ Hpost] Hdnf].
    specialize (Hdnf (eq_trans Hanc1 Hanc)).
    destruct (deeper i2 bl co1 st1) as [[[[ro2 bl2] co2] st2]| |e] eqn:Ed; try discriminate; try contradiction.
    destruct (Hpost _ _ _ _ eq_refl) as [Hanc2 [_ [Hco2 _]]].
    destruct ro2; [discriminate|]. apply IH; auto. congruence.
  - destruct (Hok _ _ eq_refl) as [Hanc1 _]. apply IH; auto. congruence.
Qed.

Lemma perm_search_nf call c1 c2 n A :
  call_ok s1 s2 call -> nf_call call A -> length c1 = n -> length c2 = n ->
  (forall x y a b, nth_error c1 x = Some a -> nth_error c2 y = Some b -> In (a, b) all_pairs) ->
  forall lev i1 in_use bl co st,
    (i1 + lev = n)%nat -> (forall j, In j in_use -> (j < n)%nat) -> length co = n -> f_anc st = A ->
    perm_search call c1 c2 n lev i1 in_use bl co st <> OutOfFuel.
Proof.
  intros Hcall Hnf Hc1 Hc2 Hkids. induction lev as [|lev IH]; intros i1 in_use bl co st Hsum Huse Hco Hanc; simpl; [discriminate|].
  eapply try_level_nf; eauto; try lia.
  - intros i2 bl0 co0 st0 Hi2 Hni Hco0. split.
    + apply perm_search_post; auto; try lia. intros j [<-|Hj]; auto.
    + intros Ha. apply IH; auto; try lia. intros j [<-|Hj]; auto.
  - intros i2 Hi2. apply free_indices_spec. exact Hi2.
Qed.

Lemma over_cands_nf call key A :
  call_ok s1 s2 call -> nf_call call A ->
  forall cs, (forall c, In c cs -> In c (potential_children s1 s2 (fst key) (snd key))) ->
  forall st, f_anc st = A -> over_cands call key cs st <> OutOfFuel.
Proof.
  intros Hcall Hnf. induction cs as [|[c1 c2] cs IH]; intros Hcs st Hanc; simpl; [discriminate|].
  assert (Hin : In (c1, c2) (potential_children s1 s2 (fst key) (snd key))) by (apply Hcs; left; reflexivity).
  destruct (potential_children_spec _ _ _ _ _ Hin) as [k1 [k2 [_ [_ [Hlen _]]]]]. simpl in Hlen.
  assert (Hcs' : forall c, In c cs -> In c (potential_children s1 s2 (fst key) (snd key))) by (intros c Hc; apply Hcs; right; exact Hc).
  assert (Hkids : forall x y a b, nth_error c1 x = Some a -> nth_error c2 y = Some b -> In (a, b) all_pairs).
  { intros x y a b Ha Hb. eapply (children_pairs _ _ (c1, c2)); eauto. }
  pose proof (perm_search_nf call c1 c2 (length c1) A Hcall Hnf eq_refl Hlen Hkids (length c1) 0%nat [] []
                (repeat (-1) (length c1)) st eq_refl (fun j (H : In j []) => match H with end) (repeat_length _ _) Hanc) as Hne.
  pose proof (perm_search_post s1 s2 call c1 c2 (length c1) Hcall eq_refl Hlen (length c1) 0%nat [] [] (repeat (-1) (length c1)) st
                eq_refl (fun j (H : In j []) => match H with end) (repeat_length _ _)) as [_ Hok].
  destruct (perm_search call c1 c2 (length c1) (length c1) 0 [] [] (repeat (-1) (length c1)) st)
    as [[[[ro bl'] co'] st1]| |e] eqn:Eps; try discriminate; try contradiction.
  destruct (Hok _ _ _ _ eq_refl) as [Hanc1 _].
  destruct ro; apply IH; auto; simpl; congruence.
Qed.

Lemma find_terminates : forall fuel a b st,
  In (a, b) all_pairs -> NoDup (f_anc st) -> incl (f_anc st) all_pairs ->
  (length all_pairs - length (f_anc st) < fuel)%nat ->
  find s1 s2 fuel a b st <> OutOfFuel.
Proof.
  induction fuel as [|f IH]; intros a b st Hin Hnd Hincl Hf; [lia|]. simpl.
  destruct (atoms_match s1 s2 a b); [discriminate|].
  destruct (mi_mem (f_mi st) (a, b)); [discriminate|].
  destruct (mem_pair (a, b) (f_visited st)); [discriminate|].
  destruct (mem_pair (a, b) (f_anc st)) eqn:Eanc; [discriminate|].
  apply mem_pair_false in Eanc.
  assert (Hlt : (length (f_anc st) < length all_pairs)%nat).
  { destruct (Nat.lt_ge_cases (length (f_anc st)) (length all_pairs)) as [?|Hge]; [assumption|].
    exfalso. apply Eanc. apply (NoDup_length_incl Hnd Hge Hincl). exact Hin. }
  set (A := set_add (a, b) (f_anc st)).
  assert (HA : A = (a, b) :: f_anc st).
  { unfold A, set_add. destruct (mem_pair (a, b) (f_anc st)) eqn:E; [|reflexivity].
    apply mem_pair_In in E. contradiction. }
  assert (Hnf : nf_call (find s1 s2 f) A).
  { intros x y st0 Hxy Hst0. apply IH; auto; rewrite Hst0, HA.
    - constructor; auto.
    - intros p [<-|Hp]; auto.
    - change (length ((a, b) :: f_anc st)) with (S (length (f_anc st))). lia. }
  pose proof (over_cands_nf (find s1 s2 f) (a, b) A (find_ok s1 s2 f) Hnf (potential_children s1 s2 a b) (fun c H => H)
                (mkF (f_mi st) (f_visited st) A) eq_refl) as Hne.
  fold A.
  destruct (over_cands (find s1 s2 f) (a, b) (potential_children s1 s2 a b) (mkF (f_mi st) (f_visited st) A))
    as [st1| |e]; try discriminate; try contradiction.
  destruct (set_remove (a, b) (f_anc st1)); discriminate.
Qed.

Theorem first_search_terminates fuel :
  (length all_pairs < fuel)%nat ->
  find s1 s2 fuel (s_root s1) (s_root s2) init_fstate <> OutOfFuel.
Proof.
  intros H. apply find_terminates.
  - apply in_prod; left; reflexivity.
  - constructor.
  - intros p [].
  - change (length (f_anc init_fstate)) with O. lia.
Qed.

End Term.
