(* End to end, from the two rule databases to the two rule sets: ParallelInfo builds the universes, the
   finder returns two label maps, and on each side the specification stage (tree + extractor invoked with
   the start label) succeeds with a closed rules dictionary that has a rule for the start label. *)
From Coq Require Import ZArith List Bool.
From CSS Require Import Spec.Extractor Spec.ExtractorProofs
  Parallel.Model Parallel.Basics Parallel.First Parallel.Second Parallel.Matched Parallel.Fixed
  Parallel.SpecStage Parallel.EndToEnd Parallel.InfoModel Parallel.InfoProofs.
Import ListNotations.

Definition ver_no_children (db : rdb) : Prop :=
  forall key z, In (key, z) (db_stored db) -> (z < 0)%Z -> snd key = [].
Definition fpath_ok (rep : nat -> nat) (fpath : nat -> nat -> list nat) : Prop :=
  forall l t, rep l = rep t -> fpath l t <> [] /\ hd O (fpath l t) = l /\ last (fpath l t) O = t.

Lemma side_rule_set db lis s d fpath order tf keys :
  construct db lis = COk s -> ver_no_children db -> closed_map s d ->
  fpath_ok (db_rep db) fpath ->
  tree_keys d (s_root s) tf = Some keys ->
  order_ok (db_rep db) (db_keys db) keys (db_start db) order ->
  rule_set_ok (db_rep db) fpath (db_keys db) keys (db_start db) order.
Proof.
  intros Hc Hv Hcl Hf Hk Ho. destruct (construct_universe db Hv lis s Hc) as [Hu Hr].
  eapply side_spec_from_matched; eauto.
Qed.

Theorem two_rule_sets db1 lis1 db2 lis2 s1 s2 fuel wfuel d1 d2 :
  construct db1 lis1 = COk s1 -> construct db2 lis2 = COk s2 ->
  ver_no_children db1 -> ver_no_children db2 ->
  find_base s1 s2 fuel wfuel = Found d1 d2 ->
  forall fpath1 order1 tf1 keys1 fpath2 order2 tf2 keys2,
  fpath_ok (db_rep db1) fpath1 -> fpath_ok (db_rep db2) fpath2 ->
  tree_keys d1 (s_root s1) tf1 = Some keys1 -> tree_keys d2 (s_root s2) tf2 = Some keys2 ->
  order_ok (db_rep db1) (db_keys db1) keys1 (db_start db1) order1 ->
  order_ok (db_rep db2) (db_keys db2) keys2 (db_start db2) order2 ->
  rule_set_ok (db_rep db1) fpath1 (db_keys db1) keys1 (db_start db1) order1 /\
  rule_set_ok (db_rep db2) fpath2 (db_keys db2) keys2 (db_start db2) order2.
Proof.
  intros C1 C2 V1 V2 H. destruct (find_base_matched s1 s2 fuel wfuel d1 d2 H) as [L1 [L2 _]].
  intros. split; eapply side_rule_set; eauto.
Qed.

Theorem two_rule_sets_eqpath db1 lis1 db2 lis2 s1 s2 pw fuel wfuel oracle woracle d1 d2 asked :
  construct db1 lis1 = COk s1 -> construct db2 lis2 = COk s2 ->
  ver_no_children db1 -> ver_no_children db2 ->
  find_eq s1 s2 pw fuel wfuel oracle woracle = EOut (Found d1 d2) asked ->
  forall fpath1 order1 tf1 keys1 fpath2 order2 tf2 keys2,
  fpath_ok (db_rep db1) fpath1 -> fpath_ok (db_rep db2) fpath2 ->
  tree_keys d1 (s_root s1) tf1 = Some keys1 -> tree_keys d2 (s_root s2) tf2 = Some keys2 ->
  order_ok (db_rep db1) (db_keys db1) keys1 (db_start db1) order1 ->
  order_ok (db_rep db2) (db_keys db2) keys2 (db_start db2) order2 ->
  rule_set_ok (db_rep db1) fpath1 (db_keys db1) keys1 (db_start db1) order1 /\
  rule_set_ok (db_rep db2) fpath2 (db_keys db2) keys2 (db_start db2) order2.
Proof.
  intros C1 C2 V1 V2 H. destruct (find_eq_matched s1 s2 pw fuel wfuel oracle woracle d1 d2 asked H) as [L1 [L2 _]].
  intros. split; eapply side_rule_set; eauto.
Qed.
