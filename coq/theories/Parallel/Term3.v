(* Termination of the walk _maps_are_matched (fix 97589e3), and totality of find() of ParallelSpecFinder as it is. *)
From Coq Require Import ZArith List Bool Lia.
From CSS Require Import Base.PyList Parallel.Model Parallel.Basics Parallel.First Parallel.Second
  Parallel.Matched Parallel.Fixed Parallel.Term Parallel.Term2.
Import ListNotations.
Open Scope Z_scope.
Local Arguments Nat.eqb : simpl never.

Definition max_arity (s : side) : nat :=
  fold_right Nat.max O (flat_map (fun e => map (fun r => length (fst r)) (snd e)) (s_rules s)).

Lemma fold_max_ge l x : In x l -> (x <= fold_right Nat.max O l)%nat.
Proof. induction l as [|y l IH]; simpl; [intros []|]. intros [->|H]; [lia|]. specialize (IH H). lia. Qed.

Lemma rules_of_arity s a c k : In (c, k) (rules_of s a) -> (length c <= max_arity s)%nat.
Proof.
  unfold rules_of, max_arity. destruct (assoc_nat (s_rules s) a) as [rs|] eqn:E; [|intros []].
  apply assoc_nat_In in E. intros Hc. apply fold_max_ge. apply in_flat_map. exists (a, rs). split; [exact E|].
  simpl. apply in_map_iff. exists (c, k). auto.
Qed.

Lemma child_pairs_length c1 : forall o c2 ps, child_pairs c1 c2 o = Some ps -> (length ps <= length c2)%nat.
Proof.
  induction o as [|i o IH]; intros c2 ps H.
  - destruct c2; simpl in H; inversion H; simpl; lia.
  - destruct c2 as [|b c2]; simpl in H.
    + destruct (py_nth c1 i); inversion H; simpl; lia.
    + destruct (py_nth c1 i); [|discriminate]. destruct (child_pairs c1 c2 o) as [r|] eqn:Er; [|discriminate].
      inversion H; subst. simpl. specialize (IH _ _ Er). lia.
Qed.

Section Term3.
Variables s1 s2 : side.
Variable m : minfo.
Hypothesis Hm : mi_sound s1 s2 m.
Variables d1 d2 : smap.

Notation P := (all_pairs s1 s2).
Notation K := (max_arity s2).

Lemma walk_terminates : forall fuel stack seen,
  incl stack P -> incl seen P -> NoDup seen ->
  ((length P - length seen) * S K + length stack < fuel)%nat ->
  walk m d1 d2 fuel stack seen <> OutOfFuel.
Proof.
  induction fuel as [|f IH]; intros stack seen Hst Hse Hnd Hf; [exfalso; apply (Nat.nlt_0_r _ Hf)|]. simpl.
  destruct stack as [|[a b] rest]; [discriminate|].
  assert (Hrest : incl rest P) by (intros p Hp; apply Hst; right; exact Hp).
  destruct (mem_pair (a, b) seen) eqn:Emem.
  - apply IH; auto. change (length ((a, b) :: rest)) with (S (length rest)) in Hf. lia.
  - apply mem_pair_false in Emem.
    assert (Hlt : (length seen < length P)%nat).
    { destruct (Nat.lt_ge_cases (length seen) (length P)) as [?|Hge]; [assumption|].
      exfalso. apply Emem. apply (NoDup_length_incl Hnd Hge Hse). apply Hst. left. reflexivity. }
    destruct (sm_get d1 a) as [c1|]; [|discriminate].
    destruct (sm_get d2 b) as [c2|]; [|discriminate].
    destruct (mi_get m (a, b)) as [d|] eqn:Gm; [|discriminate].
    destruct (inner_get d (c1, c2)) as [o|] eqn:Go; [|discriminate].
    destruct (child_pairs c1 c2 o) as [ps|] eqn:Ecp; [|discriminate].
    pose proof (Hm _ _ _ _ _ Gm (inner_get_In _ _ _ Go)) as Hs.
    assert (Hps : incl ps P /\ (length ps <= K)%nat).
    { destruct Hs as [[E [Eo _]]|[Hpc _]].
      - inversion E; subst. simpl in Ecp. inversion Ecp; subst. split; [intros p []|simpl; lia].
      - destruct (potential_children_spec _ _ _ _ _ Hpc) as [k1 [k2 [R1 [R2 _]]]]. simpl in R1, R2. split.
        + intros [x y] Hp. destruct (child_pairs_In _ _ _ _ _ _ Ecp Hp) as [Hx Hy].
          apply in_prod; eapply rules_of_labels; eauto.
        + pose proof (child_pairs_length _ _ _ _ Ecp). pose proof (rules_of_arity _ _ _ _ R2). lia. }
    destruct Hps as [Hps Hlen].
    apply IH.
    + intros p Hp. apply in_app_or in Hp. destruct Hp as [Hp|Hp]; [apply Hps; apply in_rev; exact Hp|auto].
    + intros p [<-|Hp]; auto. apply Hst. left. reflexivity.
    + constructor; auto.
    + rewrite app_length, rev_length. change (length ((a, b) :: seen)) with (S (length seen)).
      change (length ((a, b) :: rest)) with (S (length rest)) in Hf.
      remember (length (all_pairs s1 s2)) as np. remember (length seen) as ns. remember (max_arity s2) as k.
      replace (np - ns)%nat with (S (np - S ns))%nat in Hf by lia. simpl in Hf. lia.
Qed.

End Term3.

Theorem find_base_total s1 s2 fuel wfuel :
  (length (all_pairs s1 s2) < fuel)%nat ->
  (length (all_pairs s1 s2) * S (max_arity s2) + 1 < wfuel)%nat ->
  find_base s1 s2 fuel wfuel = Nothing \/ exists d1 d2, find_base s1 s2 fuel wfuel = Found d1 d2.
Proof.
  intros Hf Hw. pose proof (find_base_never_raises s1 s2 fuel wfuel) as Hnr.
  assert (Hnf : find_base s1 s2 fuel wfuel <> NoFuel).
  { unfold find_base.
    pose proof (old_base_total s1 s2 fuel Hf) as Htot. unfold find_base_old in Htot.
    pose proof (first_search_sound s1 s2 fuel) as Hs.
    destruct (find s1 s2 fuel (s_root s1) (s_root s2) init_fstate) as [[[|] st]| |e] eqn:E.
    - destruct Htot as [Hn|[e1 [e2 Hfd]]].
      + rewrite Hn. simpl. discriminate.
      + rewrite Hfd. simpl.
        pose proof (walk_terminates s1 s2 (f_mi st) (Hs _ _ eq_refl) e1 e2 wfuel [(s_root s1, s_root s2)] []) as Hwt.
        destruct (walk (f_mi st) e1 e2 wfuel [(s_root s1, s_root s2)] []) as [[[|] seen]| |c]; try discriminate.
        exfalso. apply Hwt.
        * intros p [<-|[]]. apply in_prod; left; reflexivity.
        * intros p [].
        * constructor.
        * change (length (@nil lpair)) with O. change (length [(s_root s1, s_root s2)]) with 1%nat. lia.
        * reflexivity.
    - discriminate.
    - destruct Htot as [Hn|[e1 [e2 Hfd]]]; discriminate.
    - discriminate. }
  destruct (find_base s1 s2 fuel wfuel) as [|e1 e2|c|]; eauto.
  - exfalso. eapply Hnr; eauto.
  - contradiction.
Qed.
