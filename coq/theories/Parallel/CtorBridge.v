(* From the rule set of the parallel finder (Parallel/EndToEnd.v rule_set_ok: what SpecificationRuleExtractor's
   key-level model `extract` returns for one side) to the input of CombinatorialSpecification.__init__ as C02
   models it (Spec/Grouping.v spec_init; hypothesis wf_input of C02_constructor_never_raises, Spec/GroupingWf.v).

   The two representations:
     rule_set_ok     dict : list rkey = (parent label, labels of the NON-EMPTY children) per class, closed, with an
                     entry for the start label, every entry a stored key or a step (p, [c]) of an explanation path
     wf_input        a dictionary class -> grule (class, ALL children, is_equivalence(), shifts, identity), which
                     must be path_free, keyed, unary_eqv, closed, chains, reachable, root_ok
   What a key does not carry is supplied as RULE DATA `ch` (the children of the rule object SpecificationRuleExtractor.
   rules() hands out for the key: the non-empty ones plus empty classes) and `eqv` (its is_equivalence()); `sh`, `tag`
   are irrelevant to wf_input.  ruledata_ok states what rules() guarantees about them: a rule that is an equivalence
   is handed out in its unary form (to_equivalence_rule, since 398db71), children beyond the key's are empty classes.

   PROVED here from rule_set_ok + ruledata_ok: five of the seven clauses (path_free, keyed, unary_eqv, closed,
   root_ok) and that _ungroup_equiv_path leaves the dictionary as it is; hence, GIVEN the other two clauses,
   wf_input and so "the constructor never raises" (spec_init_ok = C02_constructor_never_raises).
   NOT proved (this is why the theorem is _partial), and what each would take:
     reachable   every class with a rule is reachable from the start class.  TRUE of `extract` on the keys of a tree
                 (tree_keys: every key reachable from the root label, one key per label) under order_ok, but not a
                 consequence of rule_set_ok as stated (its four conjuncts allow a closed component next to the
                 reachable one): it needs an invariant of add_path/equivalences ("every step entry leads to the
                 decomposition parent of its equivalence label", "every label of `order` is a child of a reachable
                 entry or the start label") - about 300 lines over Spec/ExtractorProofs.v, not written.
     chains      no cycle of hidden unary equivalence rules.  NOT derivable: a label map with l1 -> [l2], l2 -> [l1]
                 through one-way unary equivalence rules is closed, matched and survives prune; nothing in the
                 finder excludes it (productivity is not checked by ParallelSpecFinder).  It has to stay a
                 hypothesis; it is decidable (wf_inputb, C02_wf_decided). *)
From Coq Require Import ZArith List Bool Lia.
From CSS Require Import Spec.Extractor Spec.ExtractorProofs Spec.Grouping Spec.GroupingWf Spec.GroupingFacts
  Spec.GroupingInit Parallel.Model Parallel.EndToEnd.
Import ListNotations.

Section Bridge.
Variable is_empty : nat -> bool.
Variable ch : rkey -> list nat.
Variable eqv : rkey -> bool.
Variable sh : rkey -> list Z.
Variable tag : rkey -> Z.

Definition mk_rule (e : rkey) : grule := GB (mkB (fst e) (ch e) (eqv e) (sh e) (tag e)).
Definition to_rules (dict : list rkey) : list grule := map mk_rule dict.
Definition to_gdict (dict : list rkey) : Grouping.dict := map (fun e => (fst e, mk_rule e)) dict.

Definition ruledata_ok (dict : list rkey) : Prop :=
  (forall e c, In e dict -> In c (snd e) -> In c (ch e)) /\
  (forall e c, In e dict -> In c (ch e) -> In c (snd e) \/ is_empty c = true) /\
  (forall e, In e dict -> eqv e = true -> exists y, ch e = [y] /\ snd e = [y]).

Lemma to_gdict_keys dict : map fst (to_gdict dict) = map fst dict.
Proof. unfold to_gdict. rewrite map_map. reflexivity. Qed.

Lemma dmem_to_gdict dict k : dmem k (to_gdict dict) = dom dict k.
Proof.
  unfold dmem, Json.Model.dmem, dom, lookup.
  induction dict as [|[p cs] t IH]; simpl; [reflexivity|].
  rewrite (Nat.eqb_sym p k). destruct (Nat.eqb k p); simpl; [reflexivity|exact IH].
Qed.

Lemma in_to_gdict dict k g : In (k, g) (to_gdict dict) -> exists e, In e dict /\ k = fst e /\ g = mk_rule e.
Proof.
  unfold to_gdict. intros H. apply in_map_iff in H. destruct H as [e [E H]]. inversion E; subst. eauto.
Qed.

(* rules_dict = {rule.comb_class: rule for rule in rules} keeps the order when the classes are distinct *)
Lemma dset_new k (v : grule) (d : Grouping.dict) : ~ In k (map fst d) -> dset k v d = d ++ [(k, v)].
Proof.
  unfold dset. induction d as [|[k' v'] t IH]; simpl; intros H; [reflexivity|].
  destruct (Nat.eqb k k') eqn:E; [apply Nat.eqb_eq in E; subst; exfalso; apply H; left; reflexivity|].
  f_equal. apply IH. intros G. apply H. right. exact G.
Qed.

Lemma rules_dict_fold : forall dict acc, NoDup (map fst acc ++ map fst dict) ->
  fold_left (fun d g => dset (g_cls g) g d) (to_rules dict) acc = acc ++ to_gdict dict.
Proof.
  induction dict as [|e t IH]; intros acc H; simpl; [rewrite app_nil_r; reflexivity|].
  assert (Hn : ~ In (fst e) (map fst acc)).
  { simpl in H. apply NoDup_remove_2 in H. intros G. apply H. apply in_or_app. left. exact G. }
  rewrite dset_new by exact Hn. rewrite IH.
  - rewrite <- app_assoc. reflexivity.
  - rewrite map_app. simpl. rewrite <- app_assoc. simpl. exact H.
Qed.

Lemma rules_dict_to_rules dict : NoDup (map fst dict) -> rules_dict (to_rules dict) = to_gdict dict.
Proof. intros H. unfold rules_dict. rewrite rules_dict_fold; [reflexivity|exact H]. Qed.

(* _ungroup_equiv_path finds no EquivalencePathRule among them *)
Lemma ungroup_to_gdict dict : ungroup (to_gdict dict) = to_gdict dict.
Proof.
  unfold ungroup.
  assert (G : forall l acc,
    fold_left (fun acc kv => fold_left (fun a r => dset (b_cls r) (GB r) a) (members (snd kv)) acc)
              (to_gdict l) acc = acc).
  { induction l as [|e t IH]; intros acc; simpl; [reflexivity|apply IH]. }
  rewrite G. reflexivity.
Qed.

Section Dict.
Variables (dict : list rkey) (start : nat).
Hypothesis Hnd : NoDup (map fst dict).
Hypothesis Hclosed : forall e, In e dict -> forall c, In c (snd e) -> dom dict c = true.
Hypothesis Hstart : dom dict start = true.
Hypothesis Hdata : ruledata_ok dict.

Lemma bridge_path_free : path_free (to_gdict dict).
Proof. intros k g H. destruct (in_to_gdict _ _ _ H) as [e [_ [_ ->]]]. reflexivity. Qed.

Lemma bridge_keyed : keyed (to_gdict dict).
Proof.
  split; [rewrite to_gdict_keys; exact Hnd|].
  intros k g H. destruct (in_to_gdict _ _ _ H) as [e [_ [-> ->]]]. reflexivity.
Qed.

Lemma bridge_unary_eqv : unary_eqv (to_gdict dict).
Proof.
  intros k g H Hg. destruct (in_to_gdict _ _ _ H) as [e [He [-> ->]]]. simpl in Hg.
  destruct Hdata as (_ & _ & D). destruct (D e He Hg) as [y [Hc Hs]].
  exists y. split; [exact Hc|]. rewrite dmem_to_gdict. apply (Hclosed e He). rewrite Hs. left. reflexivity.
Qed.

Lemma bridge_closed : closed is_empty (to_gdict dict).
Proof.
  intros k g c H Hc. destruct (in_to_gdict _ _ _ H) as [e [He [-> ->]]]. simpl in Hc.
  destruct Hdata as (_ & D & _). destruct (D e c He Hc) as [G|G]; [left|right; exact G].
  rewrite dmem_to_gdict. apply (Hclosed e He c G).
Qed.

Lemma bridge_root_ok : root_ok is_empty start (to_gdict dict).
Proof. left. rewrite dmem_to_gdict. exact Hstart. Qed.

Theorem bridge_wf_input :
  chains start (to_gdict dict) -> reachable start (to_gdict dict) ->
  wf_input is_empty start (ungroup (rules_dict (to_rules dict))).
Proof.
  intros Hch Hre. rewrite rules_dict_to_rules by exact Hnd. rewrite ungroup_to_gdict.
  repeat split; try apply bridge_keyed; auto using bridge_path_free, bridge_unary_eqv, bridge_closed, bridge_root_ok.
Qed.
End Dict.
End Bridge.

(* the composition: C13's rule set, C02's constructor *)
Theorem rule_set_ctor_bridge_partial rep fpath stored keys start order :
  rule_set_ok rep fpath stored keys start order ->
  exists dict, extract rep fpath stored keys start order = Some dict /\
    forall is_empty ch eqv sh tag,
      ruledata_ok is_empty ch eqv dict ->
      chains start (to_gdict ch eqv sh tag dict) -> reachable start (to_gdict ch eqv sh tag dict) ->
      ungroup (rules_dict (to_rules ch eqv sh tag dict)) = to_gdict ch eqv sh tag dict /\
      wf_input is_empty start (to_gdict ch eqv sh tag dict) /\
      (forall e, spec_init is_empty start (to_rules ch eqv sh tag dict) true <> XErr e).
Proof.
  intros (dict & He & Hc & Hs & _). exists dict. split; [exact He|].
  intros is_empty ch eqv sh tag Hd Hch Hre.
  destruct (extract_functional rep fpath stored keys start order dict He) as [Hnd _].
  pose proof (bridge_wf_input is_empty ch eqv sh tag dict start Hnd Hc Hs Hd Hch Hre) as W.
  assert (E : ungroup (rules_dict (to_rules ch eqv sh tag dict)) = to_gdict ch eqv sh tag dict).
  { rewrite rules_dict_to_rules by exact Hnd. apply ungroup_to_gdict. }
  split; [exact E|]. split; [rewrite <- E; exact W|].
  exact (proj1 (spec_init_ok is_empty start (to_rules ch eqv sh tag dict) W)).
Qed.

(* ---------------------------------------------------------------- with `reachable` proved (Parallel/CtorReach.v) *)
From CSS Require Import Parallel.CtorReach Parallel.Basics Parallel.Matched Parallel.SpecStage.

Lemma kreach_reach ch eqv sh tag dict start p :
  NoDup (map fst dict) -> (forall e c, In e dict -> In c (snd e) -> In c (ch e)) ->
  kreach dict start p -> GroupingWf.reach (to_gdict ch eqv sh tag dict) start p.
Proof.
  intros Hnd Hch R. induction R as [|y z cs R IH Hin Hz]; [apply GroupingWf.reach_root|].
  eapply GroupingWf.reach_step; [exact IH|]. unfold kids.
  assert (G : dget y (to_gdict ch eqv sh tag dict) = Some (mk_rule ch eqv sh tag (y, cs))).
  { apply In_dget; [rewrite to_gdict_keys; exact Hnd|].
    unfold to_gdict. apply in_map_iff. exists (y, cs). split; [reflexivity|exact Hin]. }
  rewrite G. simpl. apply (Hch (y, cs) z Hin Hz).
Qed.

(* the keys of a tree: every label reachable from the root through the keys *)
Lemma tree_keys_treach d root fuel keys : tree_keys d root fuel = Some keys ->
  forall e, In e keys -> treach keys root (fst e).
Proof.
  intros Hk. destruct (tree_keys_spec _ _ _ _ Hk) as (Kroot & Kval & Kclosed).
  assert (G : forall l, Matched.reach d root l -> treach keys root l /\ exists c, In (l, c) keys).
  { intros l R. induction R as [|l c x R [IH1 [c' IH2]] Hc Hx].
    - split; [constructor|eauto].
    - assert (c' = c) by (rewrite (Kval _ _ IH2); unfold sm_getd; rewrite Hc; reflexivity). subst c'.
      split; [eapply tr_step; eauto|]. exact (Kclosed _ _ _ IH2 Hx). }
  intros [l c] Hin. simpl. apply G. eapply tree_keys_reach; eauto.
Qed.

Section Final.
Variable rep : nat -> nat.
Variable fpath : nat -> nat -> list nat.
Hypothesis fpath_ok : forall l t, rep l = rep t ->
  fpath l t <> [] /\ hd O (fpath l t) = l /\ last (fpath l t) O = t.
Hypothesis fpath_class : forall l t, rep l = rep t -> forall x, In x (fpath l t) -> rep x = rep l.
Hypothesis fpath_nodup : forall l t, rep l = rep t -> NoDup (fpath l t).

(* from a label map to the constructor: everything wf_input asks except `chains` is a consequence *)
Theorem label_map_meets_constructor_contract stored (d : smap) root_eq start order fuel keys :
  tree_keys d root_eq fuel = Some keys ->
  rep start = root_eq ->
  (forall e, In e keys -> exists k, In k stored /\ eqv_key rep k = e) ->
  (forall d0 e2p, decompositions rep stored keys [] [] = Some (d0, e2p) ->
     forall l, In l order <-> no_lhs d0 start l = true) ->
  exists dict, extract rep fpath stored keys start order = Some dict /\
    forall is_empty ch eqv sh tag,
      ruledata_ok is_empty ch eqv dict ->
      chains start (to_gdict ch eqv sh tag dict) ->
      reachable start (to_gdict ch eqv sh tag dict) /\
      wf_input is_empty start (ungroup (rules_dict (to_rules ch eqv sh tag dict))) /\
      (forall e, spec_init is_empty start (to_rules ch eqv sh tag dict) true <> XErr e).
Proof.
  intros Hk Hs Hst Hord.
  destruct (spec_from_label_map rep fpath fpath_ok stored d root_eq start order fuel keys Hk Hs Hst Hord)
    as (dict & He & Hc & Hd & _).
  exists dict. split; [exact He|]. intros is_empty ch eqv sh tag Hdata Hch.
  destruct (extract_functional rep fpath stored keys start order dict He) as [Hnd _].
  destruct (tree_keys_spec _ _ _ _ Hk) as (_ & Kval & _).
  assert (Hre : reachable start (to_gdict ch eqv sh tag dict)).
  { intros k g Hin. destruct (in_to_gdict _ _ _ _ _ _ _ Hin) as ([p cs] & Hp & -> & _). simpl.
    apply kreach_reach; [exact Hnd|exact (proj1 Hdata)|].
    apply (extract_reachable rep fpath stored keys start order dict fpath_ok fpath_class fpath_nodup) with (cs := cs); auto.
    - intros l c c' H1 H2. rewrite (Kval _ _ H1), (Kval _ _ H2). reflexivity.
    - rewrite Hs. apply (tree_keys_treach d root_eq fuel keys Hk).
    - intros d0 e2p Hdec l Hl. apply (Hord d0 e2p Hdec). exact Hl. }
  pose proof (bridge_wf_input is_empty ch eqv sh tag dict start Hnd Hc Hd Hdata Hch Hre) as W.
  split; [exact Hre|]. split; [exact W|].
  exact (proj1 (spec_init_ok is_empty start (to_rules ch eqv sh tag dict) W)).
Qed.
End Final.
