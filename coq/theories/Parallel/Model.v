(* Executable model of comb_spec_searcher/bijection.py:
     ParallelSpecFinder        find / _find / _base_case / _atom_match / _rule_match /
                               _potential_children / _extend_stack (first search)
                               _matching_info_to_specs / _search_matching_info (+ _rec,
                               _search_matching_info_recursion_base_cases,
                               _inconsistent_with_matching_info, _clean_descendants) (second search)
                               _create_tree (+ tree_searcher.Node.rule_keys)
     EqPathParallelSpecFinder  _search_matching_info (+ _rec),
                               _search_matching_info_recursion_base_cases_eq,
                               _validate_atoms_for_existing_entries, _atom_path_match, the cache of
                               _eq_path_matches
   over two RULE UNIVERSES UP TO EQUIVALENCE (what ParallelInfo hands to the finder):
     root      : ParallelInfo.root_eq_label
     atoms     : ParallelInfo.atom_map, an atom being represented by the identity that
                 _atom_match compares ((size, terms) up to equality)
     rules     : ParallelInfo.eq_label_rules; for every label the candidate children tuples in the
                 order in which _potential_children meets them (grouped by number of children, groups
                 in dictionary order), each with the KIND of its rule: -1 for a rule that is not a
                 `Rule` (a verification rule), otherwise the class of its constructor under
                 Constructor.equiv.
   What comes from other components is an argument: the answers of _eq_path_matches (they are computed
   by EquivalenceRuleExtractor from the rule database) are an oracle table, keyed like the cache of
   _eq_path_matches and consulted at every cache miss.

   Python behaviours kept as they are: dict insertion order (matching_info[(id1,id2)] is iterated in
   insertion order by the second search, with the filter evaluated lazily against the CURRENT label
   maps), sets (add is idempotent, remove of a missing element is KeyError), negative list indices wrap,
   `all` stops at the first failure, the atom base case overwrites matching_info[(id1,id2)] and the
   label-map entries unconditionally, atoms assigned by a failed branch are never cleaned.

   One loop is transcribed in recursive form: the explicit stack of _find (elements
   (i1, i2, in_use), popped from the end, _extend_stack pushing (i1+1, i) for i = n-1 .. 0) holds at
   every moment exactly the unexplored siblings of the current node and of its ancestors in the
   depth-first traversal of the partial injections  {0..i1} -> {0..n-1}; popping it visits them in the
   order in which `perm_search` below visits them (i2 ascending at every level, deeper levels first).
   The blacklist and child_order are threaded through as state exactly as the Python mutates them.

   Recursion depth is bounded by explicit fuel; OutOfFuel is a result of its own. *)
From Coq Require Import ZArith List Bool Lia.
From CSS Require Import Base.PyList.
Import ListNotations.
Open Scope Z_scope.

Inductive res (A : Type) : Type :=
| Ok (a : A)
| OutOfFuel
| Err (code : nat).      (* 1 KeyError, 2 IndexError, 3 AssertionError *)
Arguments Ok {A} a.
Arguments OutOfFuel {A}.
Arguments Err {A} code.

Definition E_KEY : nat := 1%nat.
Definition E_INDEX : nat := 2%nat.

(* ---------------------------------------------------------------- basic data *)
Definition lpair := (nat * nat)%type.               (* (id1, id2) *)
Definition clist := list nat.                       (* a children tuple *)
Definition cand := (clist * clist)%type.            (* (children1, children2) *)

Definition pair_eqb (a b : lpair) : bool := Nat.eqb (fst a) (fst b) && Nat.eqb (snd a) (snd b).
Fixpoint clist_eqb (a b : clist) : bool :=
  match a, b with
  | [], [] => true
  | x :: a', y :: b' => Nat.eqb x y && clist_eqb a' b'
  | _, _ => false
  end.
Definition cand_eqb (a b : cand) : bool := clist_eqb (fst a) (fst b) && clist_eqb (snd a) (snd b).

Definition mem_nat (x : nat) (l : list nat) : bool := existsb (Nat.eqb x) l.
Definition mem_pair (x : lpair) (l : list lpair) : bool := existsb (pair_eqb x) l.
Definition mem_clist (x : clist) (l : list clist) : bool := existsb (clist_eqb x) l.

(* set.add / set.remove on a duplicate-free list *)
Definition set_add (x : lpair) (l : list lpair) : list lpair := if mem_pair x l then l else x :: l.
Fixpoint set_remove (x : lpair) (l : list lpair) : option (list lpair) :=   (* None = KeyError *)
  match l with
  | [] => None
  | y :: t => if pair_eqb x y then Some t
              else match set_remove x t with Some t' => Some (y :: t') | None => None end
  end.
Definition nset_add (x : nat) (l : list nat) : list nat := if mem_nat x l then l else x :: l.

(* the universe of one searcher, up to equivalence *)
Record side : Type := mkSide {
  s_root : nat;
  s_atoms : list (nat * Z);
  s_rules : list (nat * list (clist * Z))
}.

Fixpoint assoc_nat {A} (l : list (nat * A)) (k : nat) : option A :=
  match l with
  | [] => None
  | (k', v) :: t => if Nat.eqb k' k then Some v else assoc_nat t k
  end.

Definition atom_of (s : side) (l : nat) : option Z := assoc_nat (s_atoms s) l.
Definition rules_of (s : side) (l : nat) : list (clist * Z) :=
  match assoc_nat (s_rules s) l with Some r => r | None => [] end.

(* _rule_match *)
Definition rule_match (k1 k2 : Z) : bool :=
  if k1 <? 0 then k2 <? 0 else if k2 <? 0 then false else k1 =? k2.

(* ---------------------------------------------------------------- dictionaries *)
(* matching_info : (id1,id2) -> ( (children1,children2) -> child_order ), insertion ordered *)
Definition inner := list (cand * list Z).
Definition minfo := list (lpair * inner).

Fixpoint mi_get (m : minfo) (k : lpair) : option inner :=
  match m with
  | [] => None
  | (k', v) :: t => if pair_eqb k' k then Some v else mi_get t k
  end.
Definition mi_mem (m : minfo) (k : lpair) : bool :=
  match mi_get m k with Some _ => true | None => false end.
(* matching_info[k] = v *)
Fixpoint mi_set (m : minfo) (k : lpair) (v : inner) : minfo :=
  match m with
  | [] => [(k, v)]
  | (k', v') :: t => if pair_eqb k' k then (k, v) :: t else (k', v') :: mi_set t k v
  end.
Fixpoint inner_get (d : inner) (c : cand) : option (list Z) :=
  match d with
  | [] => None
  | (c', o) :: t => if cand_eqb c' c then Some o else inner_get t c
  end.
Fixpoint inner_set (d : inner) (c : cand) (o : list Z) : inner :=
  match d with
  | [] => [(c, o)]
  | (c', o') :: t => if cand_eqb c' c then (c, o) :: t else (c', o') :: inner_set t c o
  end.
(* matching_info[k][c] = o   (matching_info is a defaultdict(dict)) *)
Definition mi_put (m : minfo) (k : lpair) (c : cand) (o : list Z) : minfo :=
  mi_set m k (inner_set (match mi_get m k with Some d => d | None => [] end) c o).

(* SpecMap : label -> children tuple *)
Definition smap := list (nat * clist).
Definition sm_get (m : smap) (k : nat) : option clist := assoc_nat m k.
Definition sm_mem (m : smap) (k : nat) : bool := match sm_get m k with Some _ => true | None => false end.
Fixpoint sm_set (m : smap) (k : nat) (v : clist) : smap :=
  match m with
  | [] => [(k, v)]
  | (k', v') :: t => if Nat.eqb k' k then (k, v) :: t else (k', v') :: sm_set t k v
  end.
Fixpoint sm_del (m : smap) (k : nat) : smap :=     (* `if i in sp: del sp[i]` *)
  match m with
  | [] => []
  | (k', v') :: t => if Nat.eqb k' k then t else (k', v') :: sm_del t k
  end.
Definition sm_del_all (m : smap) (ks : list nat) : smap := fold_left sm_del ks m.

(* ================================================================ first search *)
Record fstate : Type := mkF { f_mi : minfo; f_visited : list lpair; f_anc : list lpair }.

Section Finder.
Variables s1 s2 : side.

(* _atom_match guarded by the two membership tests of _base_case *)
Definition atoms_match (id1 id2 : nat) : bool :=
  match atom_of s1 id1, atom_of s2 id2 with
  | Some a, Some b => a =? b
  | _, _ => false
  end.

(* _potential_children *)
Definition potential_children (id1 id2 : nat) : list cand :=
  flat_map (fun r1 =>
    map (fun r2 => (fst r1, fst r2))
        (filter (fun r2 => Nat.eqb (length (fst r2)) (length (fst r1)) && rule_match (snd r1) (snd r2))
                (rules_of s2 id2)))
    (rules_of s1 id1).

Definition free_indices (n : nat) (in_use : list nat) : list nat :=
  filter (fun i => negb (mem_nat i in_use)) (seq 0 n).

(* the while-loop of _find over its stack, in recursive form (see the header).
   call = the recursive _find; lev = n - i1 levels still to fill.
   Returns (Some child_order when a complete matching was reached, blacklist, child_order, state).
   try_level = the elements (i1, i2, _) of the stack for one value of i1, i2 ascending;
   deeper    = what popping the elements pushed by _extend_stack(i1, ...) amounts to. *)
Definition psr : Type := res (option (list Z) * list lpair * list Z * fstate).

Fixpoint try_level (call : nat -> nat -> fstate -> res (bool * fstate))
    (deeper : nat -> list lpair -> list Z -> fstate -> psr)
    (c1 c2 : clist) (n i1 : nat) (cands : list nat)
    (bl : list lpair) (co : list Z) (st : fstate) {struct cands} : psr :=
  match cands with
  | [] => Ok (None, bl, co, st)
  | i2 :: more =>
    if mem_pair (i1, i2) bl then try_level call deeper c1 c2 n i1 more bl co st   (* already failed *)
    else
      match nth_error c1 i1, nth_error c2 i2 with
      | Some a, Some b =>
        match call a b st with
        | Ok (false, st') => try_level call deeper c1 c2 n i1 more ((i1, i2) :: bl) co st'
        | Ok (true, st') =>
          match py_set co (Z.of_nat i2) (Z.of_nat i1) with       (* child_order[i2] = i1 *)
          | None => Err E_INDEX
          | Some co' =>
            if Nat.eqb (S i1) n then Ok (Some co', bl, co', st')    (* i1 == n - 1 *)
            else
              match deeper i2 bl co' st' with
              | Ok (None, bl', co'', st'') => try_level call deeper c1 c2 n i1 more bl' co'' st''
              | r => r
              end
          end
        | OutOfFuel => OutOfFuel
        | Err e => Err e
        end
      | _, _ => Err E_INDEX
      end
  end.

Fixpoint perm_search (call : nat -> nat -> fstate -> res (bool * fstate))
    (c1 c2 : clist) (n lev i1 : nat) (in_use : list nat)
    (bl : list lpair) (co : list Z) (st : fstate) {struct lev} : psr :=
  match lev with
  | O => Ok (None, bl, co, st)
  | S lev' =>
    try_level call
      (fun i2 bl co st => perm_search call c1 c2 n lev' (S i1) (i2 :: in_use) bl co st)
      c1 c2 n i1 (free_indices n in_use) bl co st
  end.

(* the for-loop of _find over _potential_children *)
Fixpoint over_cands (call : nat -> nat -> fstate -> res (bool * fstate))
    (key : lpair) (cs : list cand) (st : fstate) : res fstate :=
  match cs with
  | [] => Ok st
  | (c1, c2) :: cs' =>
    let n := length c1 in
    match perm_search call c1 c2 n n 0%nat [] [] (repeat (-1) n) st with
    | Ok (Some order, _, _, st') =>
        over_cands call key cs' (mkF (mi_put (f_mi st') key (c1, c2) order) (f_visited st') (f_anc st'))
    | Ok (None, _, _, st') => over_cands call key cs' st'
    | OutOfFuel => OutOfFuel
    | Err e => Err e
    end
  end.

(* _find (with _base_case) *)
Fixpoint find (fuel : nat) (id1 id2 : nat) (st : fstate) : res (bool * fstate) :=
  match fuel with
  | O => OutOfFuel
  | S f =>
    let key := (id1, id2) in
    if atoms_match id1 id2 then
      Ok (true, mkF (mi_set (f_mi st) key [(([], []), [])]) (f_visited st) (f_anc st))
    else if mi_mem (f_mi st) key then Ok (true, st)
    else if mem_pair key (f_visited st) then Ok (false, st)
    else if mem_pair key (f_anc st) then Ok (true, st)
    else
      let st0 := mkF (f_mi st) (f_visited st) (set_add key (f_anc st)) in
      match over_cands (find f) key (potential_children id1 id2) st0 with
      | Ok st1 =>
        match set_remove key (f_anc st1) with
        | None => Err E_KEY
        | Some anc' =>
          let st2 := mkF (f_mi st1) (set_add key (f_visited st1)) anc' in
          Ok (mi_mem (f_mi st2) key, st2)
        end
      | OutOfFuel => OutOfFuel
      | Err e => Err e
      end
  end.

Definition init_fstate : fstate := mkF [] [] [].

(* ================================================================ second search *)
(* matching_info1[id1][id2] and matching_info2[id2][id1] of _search_matching_info_init are the sets of
   first / second components of the keys of matching_info[(id1,id2)] *)
Definition mi1_set (m : minfo) (id1 id2 : nat) : list clist :=
  match mi_get m (id1, id2) with Some d => map (fun e => fst (fst e)) d | None => [] end.
Definition mi2_set (m : minfo) (id1 id2 : nat) : list clist :=
  match mi_get m (id1, id2) with Some d => map (fun e => snd (fst e)) d | None => [] end.

(* _inconsistent_with_matching_info *)
Definition inconsistent (m : minfo) (id1 id2 : nat) (sp1 sp2 : smap) : bool :=
  negb (mi_mem m (id1, id2))
  || match sm_get sp1 id1 with Some c => negb (mem_clist c (mi1_set m id1 id2)) | None => false end
  || match sm_get sp2 id2 with Some c => negb (mem_clist c (mi2_set m id1 id2)) | None => false end.

Definition is_atom_pair (m : minfo) (id1 id2 : nat) : bool :=        (* ((), ()) in matching_info[(id1,id2)] *)
  match mi_get m (id1, id2) with
  | Some d => match inner_get d ([], []) with Some _ => true | None => false end
  | None => false
  end.

(* the filter of _rec, evaluated against the current label maps *)
Definition cand_ok (sp1 sp2 : smap) (id1 id2 : nat) (c : cand) : bool :=
  match sm_get sp1 id1 with Some x => clist_eqb (fst c) x | None => true end
  && match sm_get sp2 id2 with Some x => clist_eqb (snd c) x | None => true end.

(* zip((children1[i] for i in order), children2); None = IndexError *)
Fixpoint child_pairs (c1 c2 : clist) (order : list Z) : option (list lpair) :=
  match order, c2 with
  | [], _ => Some []
  | _, [] =>
      (* zip evaluates the first generator before noticing that the second is exhausted *)
      match order with
      | i :: _ => match py_nth c1 i with Some _ => Some [] | None => None end
      | [] => Some []
      end
  | i :: order', b :: c2' =>
      match py_nth c1 i with
      | None => None
      | Some a => match child_pairs c1 c2' order' with
                  | Some r => Some ((a, b) :: r)
                  | None => None
                  end
      end
  end.

(* _clean_descendants *)
Definition clean (tc1 tc2 : list nat) (id1 id2 : nat) (sp1 sp2 : smap) (rec1 rec2 : bool) : smap * smap :=
  let sp1' := sm_del_all sp1 tc1 in
  let sp2' := sm_del_all sp2 tc2 in
  (if rec1 then sp1' else sm_del sp1' id1, if rec2 then sp2' else sm_del sp2' id2).

Record sstate : Type := mkS { sp1 : smap; sp2 : smap }.

(* result of one _rec call: success flag, the label maps, and what was added to id_sets *)
Definition rec_out := (bool * sstate * list nat * list nat)%type.

(* `all(_rec(child1, child2, to_clean) for ...)`: stops at the first failure *)
Fixpoint all_children (call : nat -> nat -> sstate -> res rec_out)
    (ps : list lpair) (st : sstate) (tc1 tc2 : list nat) : res (bool * sstate * list nat * list nat) :=
  match ps with
  | [] => Ok (true, st, tc1, tc2)
  | (a, b) :: ps' =>
    match call a b st with
    | Ok (true, st', a1, a2) =>
        all_children call ps' st' (fold_right nset_add tc1 a1) (fold_right nset_add tc2 a2)
    | Ok (false, st', _, _) => Ok (false, st', tc1, tc2)
    | OutOfFuel => OutOfFuel
    | Err e => Err e
    end
  end.

(* the for-loop of _rec over the (lazily filtered) keys of matching_info[(id1,id2)] *)
Fixpoint rec_loop (call : nat -> nat -> sstate -> res rec_out) (m : minfo)
    (id1 id2 : nat) (rec1 rec2 : bool) (cs : list (cand * list Z)) (st : sstate) : res rec_out :=
  match cs with
  | [] => Ok (false, st, [], [])
  | (c, order) :: cs' =>
    if negb (cand_ok (sp1 st) (sp2 st) id1 id2 c) then rec_loop call m id1 id2 rec1 rec2 cs' st
    else
      let st0 := mkS (sm_set (sp1 st) id1 (fst c)) (sm_set (sp2 st) id2 (snd c)) in
      match child_pairs (fst c) (snd c) order with
      | None => Err E_INDEX
      | Some ps =>
        match all_children call ps st0 [] [] with
        | Ok (true, st', tc1, tc2) =>
            Ok (true, st', if rec1 then tc1 else nset_add id1 tc1, if rec2 then tc2 else nset_add id2 tc2)
        | Ok (false, st', tc1, tc2) =>
            let '(a, b) := clean tc1 tc2 id1 id2 (sp1 st') (sp2 st') rec1 rec2 in
            rec_loop call m id1 id2 rec1 rec2 cs' (mkS a b)
        | OutOfFuel => OutOfFuel
        | Err e => Err e
        end
      end
  end.

(* ParallelSpecFinder._search_matching_info._rec *)
Fixpoint rec2 (m : minfo) (fuel : nat) (id1 id2 : nat) (st : sstate) : res rec_out :=
  match fuel with
  | O => OutOfFuel
  | S f =>
    if inconsistent m id1 id2 (sp1 st) (sp2 st) then Ok (false, st, [], [])
    else if is_atom_pair m id1 id2 then
      Ok (true, mkS (sm_set (sp1 st) id1 []) (sm_set (sp2 st) id2 []), [], [])
    else if sm_mem (sp1 st) id1 && sm_mem (sp2 st) id2 then Ok (true, st, [], [])
    else
      let rec1 := sm_mem (sp1 st) id1 in
      let rec2' := sm_mem (sp2 st) id2 in
      match mi_get m (id1, id2) with
      | None => Err E_KEY          (* unreachable: `inconsistent` answered first *)
      | Some d => rec_loop (rec2 m f) m id1 id2 rec1 rec2' d st
      end
  end.

(* ================================================================ _create_tree + Node.rule_keys *)
(* The breadth-first construction expands every label once (the first time it is dequeued) with
   d.get(label, ()); rule_keys() then keeps, for every label of the tree, its non-empty children
   tuple when it has one.  Result: the list of (label, d.get(label, ())) for the labels reachable
   from the root, in breadth-first order of first visit. *)
Definition sm_getd (m : smap) (k : nat) : clist := match sm_get m k with Some c => c | None => [] end.

Fixpoint bfs (d : smap) (fuel : nat) (queue : list nat) (visited : list nat) (acc : list (nat * clist))
  : option (list (nat * clist)) :=
  match fuel with
  | O => None
  | S f =>
    match queue with
    | [] => Some (rev acc)
    | v :: q =>
      if mem_nat v visited then bfs d f q visited acc
      else
        let rule := sm_getd d v in
        bfs d f (q ++ rule) (v :: visited) ((v, rule) :: acc)
    end
  end.

Definition tree_keys (d : smap) (root : nat) (fuel : nat) : option (list (nat * clist)) :=
  bfs d fuel [root] [] [].

(* ================================================================ find (base variant) *)
Inductive outcome : Type :=
| Nothing                                      (* find() returned None *)
| Found (d1 d2 : smap)                         (* the two label maps handed to _create_spec *)
| Failed (code : nat)                          (* an exception *)
| NoFuel.

Definition search_base (m : minfo) (fuel : nat) : outcome :=
  match rec2 m fuel (s_root s1) (s_root s2) (mkS [] []) with
  | Ok (true, st, _, _) => Found (sp1 st) (sp2 st)
  | Ok (false, _, _, _) => Nothing
  | OutOfFuel => NoFuel
  | Err e => Failed e
  end.

Definition find_base_old (fuel : nat) : outcome :=
  match find fuel (s_root s1) (s_root s2) init_fstate with
  | Ok (false, _) => Nothing
  | Ok (true, st) => search_base (f_mi st) fuel
  | OutOfFuel => NoFuel
  | Err e => Failed e
  end.


(* ---------------------------------------------------------------- _maps_are_matched (since 97589e3)
   a walk from the root pair along the
   recorded child orders; the rules assigned to every pair met must be a recorded matching of it.
   stack.pop() takes the last element and stack.extend appends: head of the list = top. *)
Fixpoint walk (m : minfo) (d1 d2 : smap) (fuel : nat) (stack seen : list lpair) : res (bool * list lpair) :=
  match fuel with
  | O => OutOfFuel
  | S f =>
    match stack with
    | [] => Ok (true, seen)
    | (a, b) :: rest =>
      if mem_pair (a, b) seen then walk m d1 d2 f rest seen
      else
        match sm_get d1 a, sm_get d2 b, mi_get m (a, b) with
        | Some c1, Some c2, Some d =>
          match inner_get d (c1, c2) with
          | None => Ok (false, (a, b) :: seen)
          | Some order =>
            match child_pairs c1 c2 order with
            | None => Err E_INDEX
            | Some ps => walk m d1 d2 f (rev ps ++ rest) ((a, b) :: seen)
            end
          end
        | _, _, _ => Ok (false, (a, b) :: seen)
        end
    end
  end.

Definition checked (m : minfo) (wfuel : nat) (o : outcome) : outcome :=
  match o with
  | Found d1 d2 =>
    match walk m d1 d2 wfuel [(s_root s1, s_root s2)] [] with
    | Ok (true, _) => Found d1 d2
    | Ok (false, _) => Nothing
    | OutOfFuel => NoFuel
    | Err e => Failed e
    end
  | o => o
  end.

Definition find_base (fuel wfuel : nat) : outcome :=
  match find fuel (s_root s1) (s_root s2) init_fstate with
  | Ok (false, _) => Nothing
  | Ok (true, st) => checked (f_mi st) wfuel (search_base (f_mi st) fuel)
  | OutOfFuel => NoFuel
  | Err e => Failed e
  end.

(* ================================================================ EqPath variant *)
(* relations = self._path[-1] = (pid1, pid2, idx1, idx2) (pid stored shifted by one, see search_eq); the cache of _eq_path_matches is keyed by
   ((id1,id2), (pid1,pid2), (children1,children2)); a miss consumes the next oracle answer and the key
   is logged *)
Definition qkey := (lpair * lpair * cand)%type.
Definition qkey_eqb (a b : qkey) : bool :=
  pair_eqb (fst (fst a)) (fst (fst b)) && pair_eqb (snd (fst a)) (snd (fst b)) && cand_eqb (snd a) (snd b).

Record estate : Type := mkE {
  e_sp1 : smap; e_sp2 : smap;
  e_cache : list (qkey * bool);
  e_oracle : qkey -> option bool;  (* the answers EquivalenceRuleExtractor gives, by cache key (None: not replayed) *)
  e_log : list qkey;               (* keys asked, most recent first *)
  e_panc : list lpair              (* self._path_ancestors *)
}.

Definition E_ORACLE : nat := 9%nat.     (* a question the replayed table has no answer to: model and run diverged *)

Fixpoint cache_get (c : list (qkey * bool)) (k : qkey) : option bool :=
  match c with
  | [] => None
  | (k', v) :: t => if qkey_eqb k' k then Some v else cache_get t k
  end.

(* _eq_path_matches; None = KeyError on sp1[id1] / sp2[id2] *)
Definition eq_path_matches (id1 id2 : nat) (pid : lpair) (st : estate) : res (bool * estate) :=
  match sm_get (e_sp1 st) id1, sm_get (e_sp2 st) id2 with
  | Some c1, Some c2 =>
    let k := ((id1, id2), pid, (c1, c2)) in
    match cache_get (e_cache st) k with
    | Some v => Ok (v, st)
    | None =>
      match e_oracle st k with
      | None => Err E_ORACLE
      | Some v =>
        Ok (v, mkE (e_sp1 st) (e_sp2 st) ((k, v) :: e_cache st) (e_oracle st) (k :: e_log st) (e_panc st))
      end
    end
  | _, _ => Err E_KEY
  end.

(* _validate_atoms_for_existing_entries (with _atom_path_match = True); mem is threaded through.
   fx = true : the code as it is since 97589e3 (an unrecorded combination answers False);
   fx = false: the form before 97589e3 (KeyError), kept for the refutation theorems (history) *)
Fixpoint validate (fx : bool) (m : minfo) (fuel : nat) (id1 id2 : nat) (d1 d2 : smap) (mem : list lpair)
  : res (bool * list lpair) :=
  match fuel with
  | O => OutOfFuel
  | S f =>
    if mem_pair (id1, id2) mem then Ok (true, mem)
    else
      match sm_get d1 id1, sm_get d2 id2 with
      | Some c1, Some c2 =>
        match c1, c2 with
        | [], [] => Ok (true, mem)
        | _, _ =>
          let mem' := set_add (id1, id2) mem in
          (* matching_info is a defaultdict: the outer lookup creates, the inner one raises *)
          match inner_get (match mi_get m (id1, id2) with Some d => d | None => [] end) (c1, c2) with
          | None => if fx then Ok (false, mem') else Err E_KEY
          | Some order =>
            match child_pairs c1 c2 order with
            | None => Err E_INDEX
            | Some ps =>
              (fix go (ps : list lpair) (mem : list lpair) : res (bool * list lpair) :=
                 match ps with
                 | [] => Ok (true, mem)
                 | (a, b) :: ps' =>
                   match validate fx m f a b d1 d2 mem with
                   | Ok (true, mem1) => go ps' mem1
                   | r => r
                   end
                 end) ps mem'
            end
          end
        end
      | _, _ => Ok (true, mem)
      end
  end.

Definition erec_out := (bool * estate * list nat * list nat)%type.

Definition e_with_sp (st : estate) (a b : smap) : estate :=
  mkE a b (e_cache st) (e_oracle st) (e_log st) (e_panc st).
Definition e_with_panc (st : estate) (p : list lpair) : estate :=
  mkE (e_sp1 st) (e_sp2 st) (e_cache st) (e_oracle st) (e_log st) p.

(* the loop over the matched children of EqPath's _rec: the path entry (id1,id2,j1,j2) is pushed and
   (id1,id2) added to _path_ancestors around every child call *)
Fixpoint e_children (call : lpair -> nat -> nat -> estate -> res erec_out) (key : lpair)
    (ps : list lpair) (st : estate) (tc1 tc2 : list nat) : res (bool * estate * list nat * list nat) :=
  match ps with
  | [] => Ok (true, st, tc1, tc2)
  | (a, b) :: ps' =>
    let st0 := e_with_panc st (set_add key (e_panc st)) in
    match call (S (fst key), S (snd key)) a b st0 with
    | Ok (ok, st', a1, a2) =>
      match set_remove key (e_panc st') with
      | None => Err E_KEY
      | Some p =>
        let st'' := e_with_panc st' p in
        if ok then e_children call key ps' st'' (fold_right nset_add tc1 a1) (fold_right nset_add tc2 a2)
        else Ok (false, st'', tc1, tc2)
      end
    | OutOfFuel => OutOfFuel
    | Err e => Err e
    end
  end.

Fixpoint e_loop (call : lpair -> nat -> nat -> estate -> res erec_out)
    (id1 id2 : nat) (pid : lpair) (rec1 rec2 : bool) (cs : list (cand * list Z)) (st : estate) : res erec_out :=
  match cs with
  | [] => Ok (false, st, [], [])
  | (c, order) :: cs' =>
    if negb (cand_ok (e_sp1 st) (e_sp2 st) id1 id2 c) then e_loop call id1 id2 pid rec1 rec2 cs' st
    else
      let st0 := e_with_sp st (sm_set (e_sp1 st) id1 (fst c)) (sm_set (e_sp2 st) id2 (snd c)) in
      match eq_path_matches id1 id2 pid st0 with
      | Ok (pm, st1) =>
        let after_fail (st' : estate) (tc1 tc2 : list nat) :=
          let '(a, b) := clean tc1 tc2 id1 id2 (e_sp1 st') (e_sp2 st') rec1 rec2 in
          e_loop call id1 id2 pid rec1 rec2 cs' (e_with_sp st' a b) in
        if pm then
          match child_pairs (fst c) (snd c) order with
          | None => Err E_INDEX
          | Some ps =>
            match e_children call (id1, id2) ps st1 [] [] with
            | Ok (true, st', tc1, tc2) =>
                Ok (true, st', if rec1 then tc1 else nset_add id1 tc1, if rec2 then tc2 else nset_add id2 tc2)
            | Ok (false, st', tc1, tc2) => after_fail st' tc1 tc2
            | OutOfFuel => OutOfFuel
            | Err e => Err e
            end
          end
        else after_fail st1 [] []
      | OutOfFuel => OutOfFuel
      | Err e => Err e
      end
  end.

(* EqPathParallelSpecFinder._search_matching_info._rec with
   _search_matching_info_recursion_base_cases_eq; pid = (pid1, pid2) of self._path[-1]
   (idx1, idx2 only reach the oracle) *)
Fixpoint erec (fx : bool) (m : minfo) (fuel : nat) (pid : lpair) (id1 id2 : nat) (st : estate) : res erec_out :=
  match fuel with
  | O => OutOfFuel
  | S f =>
    if inconsistent m id1 id2 (e_sp1 st) (e_sp2 st) then Ok (false, st, [], [])
    else if is_atom_pair m id1 id2 then
      Ok (true, e_with_sp st (sm_set (e_sp1 st) id1 []) (sm_set (e_sp2 st) id2 []), [], [])
    else if sm_mem (e_sp1 st) id1 && sm_mem (e_sp2 st) id2 then
      match eq_path_matches id1 id2 pid st with
      | Ok (true, st1) =>
        if negb (mem_pair (id1, id2) (e_panc st1)) then
          match validate fx m fuel id1 id2 (e_sp1 st1) (e_sp2 st1) [] with
          | Ok (v, _) => Ok (v, st1, [], [])
          | OutOfFuel => OutOfFuel
          | Err e => Err e
          end
        else Ok (true, st1, [], [])
      | Ok (false, st1) => Ok (false, st1, [], [])
      | OutOfFuel => OutOfFuel
      | Err e => Err e
      end
    else
      let rec1 := sm_mem (e_sp1 st) id1 in
      let rec2' := sm_mem (e_sp2 st) id2 in
      match mi_get m (id1, id2) with
      | None => Err E_KEY
      | Some d => e_loop (erec fx m f) id1 id2 pid rec1 rec2' d st
      end
  end.

Inductive eoutcome : Type := EOut (o : outcome) (asked : list qkey).

Definition search_eq (fx : bool) (m : minfo) (fuel : nat) (oracle : qkey -> option bool) : eoutcome :=
  (* parent pairs are stored shifted by one: (0,0) stands for the initial path entry (-1,-1,-1,-1),
     (S p1, S p2) for the parent pair (p1, p2) *)
  let none := (0%nat, 0%nat) in
  match erec fx m fuel none (s_root s1) (s_root s2) (mkE [] [] [] oracle [] []) with
  | Ok (true, st, _, _) => EOut (Found (e_sp1 st) (e_sp2 st)) (rev (e_log st))
  | Ok (false, st, _, _) => EOut Nothing (rev (e_log st))
  | OutOfFuel => EOut NoFuel []
  | Err e => EOut (Failed e) []
  end.

Definition find_eq_old (fuel : nat) (oracle : qkey -> option bool) : eoutcome :=
  match find fuel (s_root s1) (s_root s2) init_fstate with
  | Ok (false, _) => EOut Nothing []
  | Ok (true, st) => search_eq false (f_mi st) fuel oracle
  | OutOfFuel => EOut NoFuel []
  | Err e => EOut (Failed e) []
  end.

(* ---------------------------------------------------------------- the repair of F-C13e (fix 8a96a0c, in /repo)
   EqPathParallelSpecFinder overrides _maps_are_matched (was findings/eqpath_unvalidated_child_paths.diff):
   after the walk above, a second walk over the (parent pair -> child pair) edges of the two maps asks
   _eq_path_matches (fresh cache) for every pair of children under the pair of parents it is reached from.
   Elements of the stack: (pair, parent pair shifted by one as in search_eq).  The real `seen` also holds
   the two child indices; the cache of _eq_path_matches ignores them, so visiting an edge again with other
   indices asks nothing new and pushes nothing new. *)
Definition edge := (lpair * lpair)%type.
Definition edge_eqb (a b : edge) : bool := pair_eqb (fst a) (fst b) && pair_eqb (snd a) (snd b).
Definition mem_edge (x : edge) (l : list edge) : bool := existsb (edge_eqb x) l.

Fixpoint ewalk (m : minfo) (fuel : nat) (stack seen : list edge) (st : estate) : res (bool * estate) :=
  match fuel with
  | O => OutOfFuel
  | S f =>
    match stack with
    | [] => Ok (true, st)
    | ((a, b), rel) :: rest =>
      if mem_edge ((a, b), rel) seen then ewalk m f rest seen st
      else
        let seen' := ((a, b), rel) :: seen in
        match sm_get (e_sp1 st) a, sm_get (e_sp2 st) b with
        | Some c1, Some c2 =>
          match c1, c2 with
          | [], [] => ewalk m f rest seen' st
          | _, _ =>
            match eq_path_matches a b rel st with
            | Ok (true, st') =>
              match inner_get (match mi_get m (a, b) with Some d => d | None => [] end) (c1, c2) with
              | None => Ok (false, st')
              | Some order =>
                match child_pairs c1 c2 order with
                | None => Err E_INDEX
                | Some ps => ewalk m f (rev (map (fun p => (p, (S a, S b))) ps) ++ rest) seen' st'
                end
              end
            | Ok (false, st') => Ok (false, st')
            | OutOfFuel => OutOfFuel
            | Err e => Err e
            end
          end
        | _, _ => Ok (false, st)
        end
    end
  end.

Definition path_checked (m : minfo) (wfuel : nat) (oracle : qkey -> option bool) (o : outcome)
  : outcome * list qkey :=
  match o with
  | Found d1 d2 =>
    match ewalk m wfuel [((s_root s1, s_root s2), (0%nat, 0%nat))] [] (mkE d1 d2 [] oracle [] []) with
    | Ok (true, st) => (Found d1 d2, rev (e_log st))
    | Ok (false, st) => (Nothing, rev (e_log st))
    | OutOfFuel => (NoFuel, [])
    | Err e => (Failed e, [])
    end
  | o => (o, [])
  end.

(* pw = true: the code as it is (since fix 8a96a0c); pw = false: the code before that fix (history; no case of
   the harness runs it).  What pw = true adds is a theorem: Parallel/EqSound.v (find_eq_edges_checked).
   oracle answers _eq_path_matches during the search (partial label maps), woracle during the second walk
   (fresh cache, final label maps: the same key may get another answer) *)
Definition find_eq (pw : bool) (fuel wfuel : nat) (oracle woracle : qkey -> option bool) : eoutcome :=
  match find fuel (s_root s1) (s_root s2) init_fstate with
  | Ok (false, _) => EOut Nothing []
  | Ok (true, st) =>
    match search_eq true (f_mi st) fuel oracle with
    | EOut o asked =>
      let o1 := checked (f_mi st) wfuel o in
      if pw then let '(o2, asked2) := path_checked (f_mi st) wfuel woracle o1 in EOut o2 (asked ++ asked2)
      else EOut o1 asked
    end
  | OutOfFuel => EOut NoFuel []
  | Err e => EOut (Failed e) []
  end.

End Finder.
