(* Executable model of bijection.py ParallelInfo._construct_eq_label_rules (with
   _pruned_rules_up_to_eq, RuleDBBase.rules_up_to_equivalence, tree_searcher.prune,
   RuleDBBase.rule_from_equivalence_rule_dict, _get_class_and_rule): how the universe up to
   equivalence that the finder works on is read off a rule database and its equivalence database.

   The database is described by
     db_start  : the searcher's start label
     db_reps   : equivdb[label] for every label (after connect_cycles)
     db_info   : for every label, is_empty() of its class and, when the class is an atom, the identity
                 _atom_match compares ((size, terms) up to equality)
     db_stored : the keys of rule_to_strategy in dictionary order, each with the KIND of the rule its
                 strategy gives on the key's parent: -1 not a `Rule` (a verification rule), otherwise the
                 class of its constructor under Constructor.equiv.
   The keys of eqv_rule_to_strategy are not needed: rules_up_to_equivalence skips every unary rule whose
   two ends are equivalent, and those keys are two-way unary rules whose ends the database joined.

   `lis`, the list of rules up to equivalence that survive pruning, is iterated by the real code in the
   order of a dict of sets (CPython hash order).  The model takes that ORDER from the real run (argument
   lis), computes the SET itself (rules_up_to_equivalence + prune) and reports whether the two agree.

   Per entry (eq_par, eq_chi) of lis, with (actual_par, actual_children) = the LAST stored key that is
   this entry up to equivalence (KeyError if none):
     parent empty (since a172a92)   -> skipped
     parent an atom                  -> atom_map[eq_par] = its identity; a non-verification rule here makes
                                        rule.get_terms raise RuntimeError (set_subrecs must be set first)
     otherwise                       -> the rule must be a `Rule` (else ValueError "Only atoms can be
                                        verified.", a documented refusal) and eq_chi non-empty (assert)
     eq_label_rules[eq_par][len(eq_chi)].append((eq_chi, rule))
   The result is handed to the finder as a `side`: candidate lists in the order in which
   _potential_children meets them (grouped by number of children, groups in order of first appearance). *)
From Coq Require Import ZArith List Bool Lia.
From CSS Require Import Spec.Extractor Parallel.Model.
Import ListNotations.
Open Scope Z_scope.

Record rdb : Type := mkDB {
  db_start : nat;
  db_reps : list nat;
  db_info : list (bool * option Z);
  db_stored : list (rkey * Z)
}.

Definition db_rep (db : rdb) (l : nat) : nat := nth l (db_reps db) l.
Definition db_empty (db : rdb) (l : nat) : bool := fst (nth l (db_info db) (false, None)).
Definition db_atom (db : rdb) (l : nat) : option Z := snd (nth l (db_info db) (false, None)).
Definition db_keys (db : rdb) : list rkey := map fst (db_stored db).

Fixpoint kind_of (st : list (rkey * Z)) (k : rkey) : Z :=
  match st with
  | [] => -1
  | (k', z) :: t => if rkey_eqb k' k then z else kind_of t k
  end.

(* RuleDBBase.rules_up_to_equivalence, as a list (the real one is a dict of sets) *)
Definition up_to_eq (db : rdb) : list rkey :=
  flat_map (fun k =>
    match snd k with
    | [e] => if Nat.eqb (db_rep db (fst k)) (db_rep db e) then [] else [eqv_key (db_rep db) k]
    | _ => [eqv_key (db_rep db) k]
    end) (db_keys db).

(* tree_searcher.prune: rules with a child that is no left-hand side are removed until nothing changes *)
Definition has_parent (rs : list rkey) (x : nat) : bool := existsb (fun r => Nat.eqb (fst r) x) rs.
Definition prune_pass (rs : list rkey) : list rkey := filter (fun r => forallb (has_parent rs) (snd r)) rs.
Fixpoint prune (fuel : nat) (rs : list rkey) : list rkey :=
  match fuel with
  | O => rs
  | S f => let rs' := prune_pass rs in if Nat.eqb (length rs') (length rs) then rs else prune f rs'
  end.
Definition pruned_rules (db : rdb) : list rkey := let rs := up_to_eq db in prune (S (length rs)) rs.

Definition subset_b (a b : list rkey) : bool := forallb (fun x => existsb (rkey_eqb x) b) a.
Definition same_set_b (a b : list rkey) : bool := subset_b a b && subset_b b a.

(* dict / defaultdict(list) updates *)
Fixpoint atoms_set (m : list (nat * Z)) (k : nat) (v : Z) : list (nat * Z) :=
  match m with
  | [] => [(k, v)]
  | (k', v') :: t => if Nat.eqb k' k then (k, v) :: t else (k', v') :: atoms_set t k v
  end.
Fixpoint rules_add (m : list (nat * list (clist * Z))) (k : nat) (r : clist * Z) : list (nat * list (clist * Z)) :=
  match m with
  | [] => [(k, [r])]
  | (k', rs) :: t => if Nat.eqb k' k then (k', rs ++ [r]) :: t else (k', rs) :: rules_add t k r
  end.

(* eq_label_rules[label] is a dict  number of children -> list: flattened in dictionary order *)
Fixpoint dedup (l : list nat) (seen : list nat) : list nat :=
  match l with
  | [] => []
  | x :: t => if mem_nat x seen then dedup t seen else x :: dedup t (x :: seen)
  end.
Definition group_by_len (rs : list (clist * Z)) : list (clist * Z) :=
  flat_map (fun n => filter (fun r => Nat.eqb (length (fst r)) n) rs) (dedup (map (fun r => length (fst r)) rs) []).

Inductive cres : Type :=
| COk (s : side)
| CRefused                 (* ValueError "Only atoms can be verified." *)
| CErr (code : nat).       (* 1 KeyError, 3 AssertionError, 4 RuntimeError *)

Definition E_ASSERT : nat := 3%nat.
Definition E_RUNTIME : nat := 4%nat.

Fixpoint build (db : rdb) (lis : list rkey) (atoms : list (nat * Z)) (rules : list (nat * list (clist * Z)))
  : cres :=
  match lis with
  | [] => COk (mkSide (db_rep db (db_start db)) atoms (map (fun e => (fst e, group_by_len (snd e))) rules))
  | e :: rest =>
    match rule_for (db_rep db) (db_keys db) e with
    | None => CErr E_KEY
    | Some key =>
      let par := fst key in
      let k := kind_of (db_stored db) key in
      if db_empty db par then build db rest atoms rules
      else
        match db_atom db par with
        | Some a =>
          if 0 <=? k then CErr E_RUNTIME
          else build db rest (atoms_set atoms (fst e) a) (rules_add rules (fst e) (snd e, k))
        | None =>
          if k <? 0 then CRefused
          else match snd e with
               | [] => CErr E_ASSERT
               | _ => build db rest atoms (rules_add rules (fst e) (snd e, k))
               end
        end
    end
  end.

(* ParallelInfo(searcher) once the searcher has a specification: the universe, and whether the replayed
   order lists exactly the pruned rules up to equivalence *)
Definition construct (db : rdb) (lis : list rkey) : cres := build db lis [] [].
Definition lis_agrees (db : rdb) (lis : list rkey) : bool := same_set_b lis (pruned_rules db).
