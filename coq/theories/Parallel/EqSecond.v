(* The second search of EqPathParallelSpecFinder (as it is since 97589e3), given a sound matching_info
   and an oracle that answers every question of _eq_path_matches: it never raises, it restores
   _path_ancestors, every binding of the label maps is a rule of its universe, and bindings present when a
   call starts are present when it returns. *)
From Coq Require Import ZArith List Bool Lia.
From CSS Require Import Base.PyList Parallel.Model Parallel.Basics Parallel.First Parallel.Second
  Parallel.Term Parallel.Term2.
Import ListNotations.
Open Scope Z_scope.
Local Arguments Nat.eqb : simpl never.

Section EqSecond.
Variables s1 s2 : side.
Variable m : minfo.
Hypothesis Hm : mi_sound s1 s2 m.

Definition egood (st : estate) : Prop := sm_all (good s1) (e_sp1 st) /\ sm_all (good s2) (e_sp2 st).
Definition ekeeps (st st' : estate) : Prop :=
  (forall l, sm_mem (e_sp1 st) l = true -> sm_mem (e_sp1 st') l = true) /\
  (forall l, sm_mem (e_sp2 st) l = true -> sm_mem (e_sp2 st') l = true).
Definition efresh (st : estate) (x y : list nat) : Prop :=
  (forall l, In l x -> sm_mem (e_sp1 st) l = false) /\ (forall l, In l y -> sm_mem (e_sp2 st) l = false).
Definition eassigned (S : list lpair) (st : estate) : Prop :=
  forall p, In p S -> sm_mem (e_sp1 st) (fst p) = true /\ sm_mem (e_sp2 st) (snd p) = true.
Definition oracle_total (o : qkey -> option bool) : Prop := forall k, o k <> None.

Definition epre (st : estate) : Prop :=
  egood st /\ eassigned (e_panc st) st /\ oracle_total (e_oracle st).
Definition epost (st st' : estate) (x y : list nat) : Prop :=
  egood st' /\ ekeeps st st' /\ efresh st x y /\ e_panc st' = e_panc st /\ e_oracle st' = e_oracle st.

Definition ecall_ok (call : lpair -> nat -> nat -> estate -> res erec_out) : Prop :=
  forall pid a b st, epre st ->
    (forall e, call pid a b st <> Err e) /\
    (forall r st' x y, call pid a b st = Ok (r, st', x, y) -> epost st st' x y).

Lemma ekeeps_refl st : ekeeps st st.
Proof. split; auto. Qed.
Lemma ekeeps_trans a b c : ekeeps a b -> ekeeps b c -> ekeeps a c.
Proof. intros [A1 A2] [B1 B2]. split; auto. Qed.
Lemma efresh_back base st x y : ekeeps base st -> efresh st x y -> efresh base x y.
Proof.
  intros [K1 K2] [F1 F2]. split; intros l Hl.
  - destruct (sm_mem (e_sp1 base) l) eqn:E; auto. specialize (F1 l Hl). rewrite (K1 _ E) in F1. discriminate.
  - destruct (sm_mem (e_sp2 base) l) eqn:E; auto. specialize (F2 l Hl). rewrite (K2 _ E) in F2. discriminate.
Qed.
Lemma eassigned_keeps S st st' : eassigned S st -> ekeeps st st' -> eassigned S st'.
Proof. intros H [K1 K2] p Hp. destruct (H p Hp). split; auto. Qed.

(* _eq_path_matches on two assigned labels *)
Lemma eq_path_ok id1 id2 pid st :
  sm_mem (e_sp1 st) id1 = true -> sm_mem (e_sp2 st) id2 = true -> oracle_total (e_oracle st) ->
  exists v st1, eq_path_matches id1 id2 pid st = Ok (v, st1) /\
    e_sp1 st1 = e_sp1 st /\ e_sp2 st1 = e_sp2 st /\ e_panc st1 = e_panc st /\ e_oracle st1 = e_oracle st.
Proof.
  intros H1 H2 Ho. unfold eq_path_matches, sm_mem in *.
  destruct (sm_get (e_sp1 st) id1) as [c1|]; [|discriminate].
  destruct (sm_get (e_sp2 st) id2) as [c2|]; [|discriminate].
  destruct (cache_get (e_cache st) (id1, id2, pid, (c1, c2))) as [v|].
  - exists v, st. auto.
  - specialize (Ho (id1, id2, pid, (c1, c2))). destruct (e_oracle st (id1, id2, pid, (c1, c2))) as [v|]; [|contradiction].
    eexists v, _. split; [reflexivity|]. simpl. auto.
Qed.

(* _validate_atoms_for_existing_entries never raises (an unrecorded combination answers False) *)
Lemma validate_never_raises d1 d2 : forall fuel a b mem e, validate true m fuel a b d1 d2 mem <> Err e.
Proof.
  induction fuel as [|f IH]; intros a b mem e; simpl; [discriminate|].
  destruct (mem_pair (a, b) mem); [discriminate|].
  destruct (sm_get d1 a) as [c1|]; [|discriminate].
  destruct (sm_get d2 b) as [c2|]; [|discriminate].
  assert (Hmain : forall mem',
    match inner_get (match mi_get m (a, b) with Some d => d | None => [] end) (c1, c2) with
    | None => Ok (false, mem')
    | Some order =>
      match child_pairs c1 c2 order with
      | None => Err E_INDEX
      | Some ps =>
        (fix go (ps : list lpair) (mem : list lpair) : res (bool * list lpair) :=
           match ps with
           | [] => Ok (true, mem)
           | (a, b) :: ps' =>
             match validate true m f a b d1 d2 mem with
             | Ok (true, mem1) => go ps' mem1
             | r => r
             end
           end) ps mem'
      end
    end <> Err e).
  { intros mem'. destruct (mi_get m (a, b)) as [d|] eqn:G; [|simpl; discriminate].
    destruct (inner_get d (c1, c2)) as [o|] eqn:I; [|discriminate].
    pose proof (entry_sound_child_pairs s1 s2 _ _ _ _ (Hm _ _ _ _ _ G (inner_get_In _ _ _ I))) as Hcp. simpl in Hcp.
    destruct (child_pairs c1 c2 o) as [ps|]; [|contradiction].
    clear Hcp. revert mem'. induction ps as [|[x y] ps IHps]; intros mem'; [discriminate|].
    pose proof (IH x y mem' e) as Hv.
    destruct (validate true m f x y d1 d2 mem') as [[[|] mem1]| |e']; try discriminate.
    - apply IHps.
    - intros E. inversion E; subst. contradiction. }
  destruct c1, c2; try discriminate; apply Hmain.
Qed.

Lemma e_children_ok call key base : ecall_ok call ->
  forall ps st tc1 tc2,
    epre st -> ~ In key (e_panc st) ->
    sm_mem (e_sp1 st) (fst key) = true -> sm_mem (e_sp2 st) (snd key) = true ->
    ekeeps base st -> efresh base tc1 tc2 ->
    (forall e, e_children call key ps st tc1 tc2 <> Err e) /\
    (forall r st' x y, e_children call key ps st tc1 tc2 = Ok (r, st', x, y) ->
       egood st' /\ ekeeps st st' /\ ekeeps base st' /\ efresh base x y /\
       e_panc st' = e_panc st /\ e_oracle st' = e_oracle st).
Proof.
  intros Hc. induction ps as [|[a b] ps IH]; intros st tc1 tc2 Hpre Hnk Hk1 Hk2 Hkb Hf.
  - simpl. split; [discriminate|]. intros r st' x y H. inversion H; subst.
    destruct Hpre as [G _]. split; [exact G|]. split; [apply ekeeps_refl|]. auto.
  - simpl.
    assert (Hadd : set_add key (e_panc st) = key :: e_panc st).
    { unfold set_add. destruct (mem_pair key (e_panc st)) eqn:E; [|reflexivity].
      apply mem_pair_In in E. contradiction. }
    set (st0 := e_with_panc st (set_add key (e_panc st))).
    assert (Hpre0 : epre st0).
    { destruct Hpre as [G [A O]]. split; [exact G|]. split; [|exact O].
      unfold st0. simpl. rewrite Hadd. intros p [<-|Hp]; [split; assumption|apply A; exact Hp]. }
    destruct (Hc (S (fst key), S (snd key)) a b st0 Hpre0) as [Hne Hok].
    destruct (call (S (fst key), S (snd key)) a b st0) as [[[[ok st1] a1] a2]| |e] eqn:E.
    + destruct (Hok _ _ _ _ eq_refl) as [G1 [K1 [F1 [P1 O1]]]].
      unfold st0 in P1. simpl in P1. rewrite P1, Hadd. simpl. rewrite pair_eqb_refl.
      set (st2 := e_with_panc st1 (e_panc st)).
      assert (Hk01 : ekeeps st st2) by exact K1.
      assert (Hpre2 : epre st2).
      { destruct Hpre as [G [A O]]. split; [exact G1|]. split.
        - unfold st2. simpl. eapply eassigned_keeps; [exact A|exact K1].
        - unfold st2. simpl. rewrite O1. exact O. }
      destruct ok.
      * destruct K1 as [K1a K1b].
        destruct (IH st2 (fold_right nset_add tc1 a1) (fold_right nset_add tc2 a2) Hpre2 Hnk
                    (K1a _ Hk1) (K1b _ Hk2) (ekeeps_trans _ _ _ Hkb Hk01)) as [IHne IHok].
        { destruct (efresh_back _ _ _ _ Hkb F1) as [B1 B2]. destruct Hf as [C1 C2].
          split; intros l Hl; apply fold_nset_In in Hl; destruct Hl; auto. }
        split; [exact IHne|]. intros r st' x y H. destruct (IHok _ _ _ _ H) as [A1 [A2 [A3 [A4 [A5 A6]]]]].
        split; [exact A1|]. split; [eapply ekeeps_trans; eauto|]. split; [exact A3|]. split; [exact A4|].
        split; [exact A5|]. rewrite A6. exact O1.
      * split; [discriminate|]. intros r st' x y H. inversion H; subst.
        split; [exact G1|]. split; [exact Hk01|]. split; [eapply ekeeps_trans; eauto|]. split; [exact Hf|].
        split; [reflexivity|exact O1].
    + split; [discriminate|]. intros; discriminate.
    + exfalso. eapply Hne; eauto.
Qed.

Lemma clean_ekeeps entry st1 tc1 tc2 id1 id2 :
  ekeeps entry st1 -> efresh entry tc1 tc2 ->
  forall a b, clean tc1 tc2 id1 id2 (e_sp1 st1) (e_sp2 st1) (sm_mem (e_sp1 entry) id1) (sm_mem (e_sp2 entry) id2) = (a, b) ->
  ekeeps entry (e_with_sp st1 a b).
Proof.
  intros [K1 K2] [F1 F2] a b H. unfold clean in H. inversion H; subst. split; simpl; intros l Hl.
  - assert (Hn : ~ In l tc1) by (intros Hin; rewrite (F1 _ Hin) in Hl; discriminate).
    destruct (sm_mem (e_sp1 entry) id1) eqn:R.
    + rewrite sm_mem_del_all by exact Hn. apply K1. exact Hl.
    + rewrite sm_mem_del by (intros ->; congruence). rewrite sm_mem_del_all by exact Hn. apply K1. exact Hl.
  - assert (Hn : ~ In l tc2) by (intros Hin; rewrite (F2 _ Hin) in Hl; discriminate).
    destruct (sm_mem (e_sp2 entry) id2) eqn:R.
    + rewrite sm_mem_del_all by exact Hn. apply K2. exact Hl.
    + rewrite sm_mem_del by (intros ->; congruence). rewrite sm_mem_del_all by exact Hn. apply K2. exact Hl.
Qed.

Lemma e_loop_ok call id1 id2 pid entry : ecall_ok call ->
  ~ In (id1, id2) (e_panc entry) ->
  forall cs, (forall c o, In (c, o) cs -> entry_sound s1 s2 id1 id2 c o) ->
  forall st, egood st -> ekeeps entry st -> eassigned (e_panc entry) entry ->
    e_panc st = e_panc entry -> e_oracle st = e_oracle entry -> oracle_total (e_oracle entry) ->
    (forall e, e_loop call id1 id2 pid (sm_mem (e_sp1 entry) id1) (sm_mem (e_sp2 entry) id2) cs st <> Err e) /\
    (forall r st' x y,
       e_loop call id1 id2 pid (sm_mem (e_sp1 entry) id1) (sm_mem (e_sp2 entry) id2) cs st = Ok (r, st', x, y) ->
       egood st' /\ ekeeps entry st' /\ efresh entry x y /\ e_panc st' = e_panc entry /\ e_oracle st' = e_oracle entry).
Proof.
  intros Hc Hnk. induction cs as [|[c o] cs IH]; intros Hcs st Hg Hk Has Hp Ho Hot.
  - simpl. split; [discriminate|]. intros r st' x y H. inversion H; subst.
    split; [exact Hg|]. split; [exact Hk|]. split; [split; intros l []|]. auto.
  - simpl.
    assert (Hcs' : forall c o, In (c, o) cs -> entry_sound s1 s2 id1 id2 c o) by (intros; apply Hcs; right; auto).
    assert (Hs : entry_sound s1 s2 id1 id2 c o) by (apply Hcs; left; reflexivity).
    destruct (negb (cand_ok (e_sp1 st) (e_sp2 st) id1 id2 c)); [apply IH; auto|].
    set (st0 := e_with_sp st (sm_set (e_sp1 st) id1 (fst c)) (sm_set (e_sp2 st) id2 (snd c))).
    destruct (entry_sound_good s1 s2 _ _ _ _ Hs) as [G1 G2].
    assert (Hg0 : egood st0).
    { destruct Hg as [A B]. split; unfold st0; simpl; apply sm_all_set; auto. }
    assert (Hk0 : ekeeps entry st0).
    { destruct Hk as [K1 K2]. split; intros l Hl; unfold st0; simpl; rewrite sm_mem_set.
      - rewrite (K1 _ Hl). apply orb_true_r.
      - rewrite (K2 _ Hl). apply orb_true_r. }
    assert (Hm1 : sm_mem (e_sp1 st0) id1 = true) by (unfold st0; simpl; rewrite sm_mem_set, Nat.eqb_refl; reflexivity).
    assert (Hm2 : sm_mem (e_sp2 st0) id2 = true) by (unfold st0; simpl; rewrite sm_mem_set, Nat.eqb_refl; reflexivity).
    assert (Hot0 : oracle_total (e_oracle st0)) by (unfold st0; simpl; rewrite Ho; exact Hot).
    destruct (eq_path_ok id1 id2 pid st0 Hm1 Hm2 Hot0) as [pm [st1 [Eq [E1 [E2 [E3 E4]]]]]].
    rewrite Eq.
    assert (Hg1 : egood st1) by (destruct Hg0; split; [rewrite E1|rewrite E2]; assumption).
    assert (Hk1 : ekeeps entry st1) by (destruct Hk0; split; [rewrite E1|rewrite E2]; assumption).
    assert (Hp1 : e_panc st1 = e_panc entry) by (rewrite E3; unfold st0; simpl; exact Hp).
    assert (Ho1 : e_oracle st1 = e_oracle entry) by (rewrite E4; unfold st0; simpl; exact Ho).
    (* what happens after a failed candidate *)
    assert (Hfail : forall st' tc1 tc2, egood st' -> ekeeps entry st' -> efresh entry tc1 tc2 ->
              e_panc st' = e_panc entry -> e_oracle st' = e_oracle entry ->
              let '(a, b) := clean tc1 tc2 id1 id2 (e_sp1 st') (e_sp2 st') (sm_mem (e_sp1 entry) id1) (sm_mem (e_sp2 entry) id2) in
              (forall e, e_loop call id1 id2 pid (sm_mem (e_sp1 entry) id1) (sm_mem (e_sp2 entry) id2) cs (e_with_sp st' a b) <> Err e) /\
              (forall r st'' x y,
                 e_loop call id1 id2 pid (sm_mem (e_sp1 entry) id1) (sm_mem (e_sp2 entry) id2) cs (e_with_sp st' a b) = Ok (r, st'', x, y) ->
                 egood st'' /\ ekeeps entry st'' /\ efresh entry x y /\ e_panc st'' = e_panc entry /\ e_oracle st'' = e_oracle entry)).
    { intros st' tc1 tc2 Hg' Hk' Hf' Hp' Ho'.
      destruct (clean tc1 tc2 id1 id2 (e_sp1 st') (e_sp2 st') (sm_mem (e_sp1 entry) id1) (sm_mem (e_sp2 entry) id2)) as [a b] eqn:Ecl.
      apply IH; auto.
      - destruct Hg' as [A B]. destruct (clean_good s1 s2 _ _ _ _ _ _ _ _ _ _ A B Ecl). split; assumption.
      - eapply clean_ekeeps; eauto. }
    destruct pm.
    + pose proof (entry_sound_child_pairs s1 s2 _ _ _ _ Hs) as Hcp.
      destruct (child_pairs (fst c) (snd c) o) as [ps|]; [|contradiction].
      assert (Hpre1 : epre st1).
      { split; [exact Hg1|]. split; [|rewrite Ho1; exact Hot].
        rewrite Hp1. eapply eassigned_keeps; eauto. }
      destruct (e_children_ok call (id1, id2) entry Hc ps st1 [] [] Hpre1) as [Hne Hok].
      * rewrite Hp1. exact Hnk.
      * simpl. rewrite E1. exact Hm1.
      * simpl. rewrite E2. exact Hm2.
      * exact Hk1.
      * split; intros l [].
      * destruct (e_children call (id1, id2) ps st1 [] []) as [[[[[|] st2] tc1] tc2]| |e] eqn:Ech.
        -- split; [discriminate|]. intros r st' x y H. inversion H; subst. clear H.
           destruct (Hok _ _ _ _ eq_refl) as [A1 [A2 [A3 [[F1 F2] [A5 A6]]]]].
           split; [exact A1|]. split; [exact A3|]. split.
           ++ split.
              ** destruct (sm_mem (e_sp1 entry) id1) eqn:R; [exact F1|].
                 intros l Hl. apply nset_add_In in Hl. destruct Hl as [->|Hl]; auto.
              ** destruct (sm_mem (e_sp2 entry) id2) eqn:R; [exact F2|].
                 intros l Hl. apply nset_add_In in Hl. destruct Hl as [->|Hl]; auto.
           ++ split; congruence.
        -- destruct (Hok _ _ _ _ eq_refl) as [A1 [A2 [A3 [A4 [A5 A6]]]]].
           apply (Hfail st2 tc1 tc2); auto; congruence.
        -- split; [discriminate|]. intros; discriminate.
        -- exfalso. eapply Hne; eauto.
    + apply (Hfail st1 [] []); auto. split; intros l [].
Qed.

Opaque validate.
Lemma erec_ok fuel : ecall_ok (erec true m fuel).
Proof.
  induction fuel as [|f IH]; intros pid a b st Hpre.
  - simpl. split; [discriminate|]. intros; discriminate.
  - destruct Hpre as [Hg [Has Hot]]. simpl.
    destruct (inconsistent m a b (e_sp1 st) (e_sp2 st)) eqn:Einc.
    { split; [discriminate|]. intros r st' x y H. inversion H; subst.
      split; [exact Hg|]. split; [apply ekeeps_refl|]. split; [split; intros l []|auto]. }
    destruct (is_atom_pair m a b) eqn:Eat.
    { split; [discriminate|]. intros r st' x y H. inversion H; subst. clear H.
      unfold is_atom_pair in Eat. destruct (mi_get m (a, b)) as [d|] eqn:G; [|discriminate].
      destruct (inner_get d ([], [])) as [o|] eqn:I; [|discriminate].
      apply inner_get_In in I. pose proof (Hm _ _ _ _ _ G I) as Hs.
      destruct (entry_sound_good s1 s2 _ _ _ _ Hs) as [G1 G2]. simpl in G1, G2.
      split; [destruct Hg as [A B]; split; simpl; apply sm_all_set; auto|].
      split; [split; intros l Hl; simpl; rewrite sm_mem_set, Hl; apply orb_true_r|].
      split; [split; intros l []|auto]. }
    destruct (sm_mem (e_sp1 st) a && sm_mem (e_sp2 st) b) eqn:Eboth.
    { apply andb_true_iff in Eboth. destruct Eboth as [B1 B2].
      destruct (eq_path_ok a b pid st B1 B2 Hot) as [pm [st1 [Eq [E1 [E2 [E3 E4]]]]]]. rewrite Eq.
      assert (Hpost1 : epost st st1 [] []).
      { split; [destruct Hg; split; [rewrite E1|rewrite E2]; assumption|].
        split; [split; intros l Hl; [rewrite E1|rewrite E2]; exact Hl|]. split; [split; intros l []|auto]. }
      destruct pm.
      - destruct (negb (mem_pair (a, b) (e_panc st1))).
        + pose proof (validate_never_raises (e_sp1 st1) (e_sp2 st1) (S f) a b []) as Hv.
          destruct (validate true m (S f) a b (e_sp1 st1) (e_sp2 st1) []) as [[v mem']| |e] eqn:Ev.
          * split; [discriminate|]. intros r st' x y H. inversion H; subst. exact Hpost1.
          * split; [discriminate|]. intros; discriminate.
          * exfalso. eapply Hv; eauto.
        + split; [discriminate|]. intros r st' x y H. inversion H; subst. exact Hpost1.
      - split; [discriminate|]. intros r st' x y H. inversion H; subst. exact Hpost1. }
    destruct (mi_get m (a, b)) as [d|] eqn:G.
    + assert (Hnk : ~ In (a, b) (e_panc st)).
      { intros Hin. destruct (Has _ Hin) as [A B]. simpl in A, B. rewrite A, B in Eboth. discriminate. }
      destruct (e_loop_ok (erec true m f) a b pid st IH Hnk d (fun c o Hin => Hm _ _ _ _ _ G Hin) st Hg
                  (ekeeps_refl st) Has eq_refl eq_refl Hot) as [Hne Hok].
      split; [exact Hne|]. intros r st' x y H. destruct (Hok _ _ _ _ H) as [A1 [A2 [A3 [A4 A5]]]].
      split; [exact A1|]. split; [exact A2|]. split; [exact A3|]. auto.
    + exfalso. unfold inconsistent in Einc. apply orb_false_iff in Einc. destruct Einc as [Einc _].
      apply orb_false_iff in Einc. destruct Einc as [Einc _]. apply negb_false_iff in Einc.
      apply mi_mem_get in Einc. destruct Einc as [d Hd]. congruence.
Qed.

Transparent validate.

End EqSecond.
