(* The first search (_find): it never raises, it restores the ancestor set, and everything it
   records in matching_info is SOUND: a recorded entry for (id1,id2) is either the atom entry of two
   atoms with the same identity, or a pair of candidate rules of the two labels (same number of
   children, matching kinds) together with a genuine permutation of the child positions. *)
From Coq Require Import ZArith List Bool Lia FinFun.
From CSS Require Import Base.PyList Parallel.Model Parallel.Basics.
Import ListNotations.
Open Scope Z_scope.
Local Arguments Nat.eqb : simpl never.

Section First.
Variables s1 s2 : side.

(* every value 0..n-1 sits at some position of o *)
Definition surj (n : nat) (o : list Z) : Prop :=
  forall k, (k < n)%nat -> exists j, (j < n)%nat /\ nth_error o j = Some (Z.of_nat k).
Definition perm_ok (n : nat) (o : list Z) : Prop := length o = n /\ surj n o.

Definition entry_sound (a b : nat) (c : cand) (o : list Z) : Prop :=
  (c = ([], []) /\ o = [] /\ atoms_match s1 s2 a b = true)
  \/ (In c (potential_children s1 s2 a b) /\ fst c <> [] /\ perm_ok (length (fst c)) o).

Definition mi_sound (m : minfo) : Prop :=
  forall a b d c o, mi_get m (a, b) = Some d -> In (c, o) d -> entry_sound a b c o.

Lemma mi_sound_nil : mi_sound [].
Proof. intros a b d c o H. discriminate. Qed.

(* ---------------------------------------------------------------- perm_ok gives a permutation *)
Lemma perm_ok_facts n o : perm_ok n o ->
  NoDup o /\ (forall z, In z o -> 0 <= z < Z.of_nat n) /\
  (forall i, (i < n)%nat -> exists j, (j < n)%nat /\ nth_error o j = Some (Z.of_nat i)).
Proof.
  intros [Hl Hs].
  assert (Hincl : incl (map Z.of_nat (seq 0 n)) o).
  { intros z Hz. apply in_map_iff in Hz. destruct Hz as [k [<- Hk]]. apply in_seq in Hk.
    destruct (Hs k) as [j [_ Hj]]; [lia|]. eapply nth_error_In; eauto. }
  assert (Hnd : NoDup (map Z.of_nat (seq 0 n))).
  { apply Injective_map_NoDup. - intros x y H. lia. - apply seq_NoDup. }
  assert (Hlen : (length o <= length (map Z.of_nat (seq 0 n)))%nat).
  { rewrite map_length, seq_length. lia. }
  split; [|split].
  - eapply NoDup_incl_NoDup; eauto.
  - intros z Hz. pose proof (NoDup_length_incl Hnd Hlen Hincl z Hz) as H.
    apply in_map_iff in H. destruct H as [k [<- Hk]]. apply in_seq in Hk. lia.
  - exact Hs.
Qed.

(* ---------------------------------------------------------------- what a recursive call must satisfy *)
Definition call_ok (call : nat -> nat -> fstate -> res (bool * fstate)) : Prop :=
  forall a b st,
    (forall e, call a b st <> Err e) /\
    (forall r st', call a b st = Ok (r, st') ->
       f_anc st' = f_anc st /\ (mi_sound (f_mi st) -> mi_sound (f_mi st'))).

Definition covered (co : list Z) (i1 : nat) (in_use : list nat) : Prop :=
  forall k, (k < i1)%nat -> exists j, In j in_use /\ nth_error co j = Some (Z.of_nat k).

Definition ps_post (n i1 : nat) (in_use : list nat) (co : list Z) (st : fstate) (r : psr) : Prop :=
  (forall e, r <> Err e) /\
  forall ro bl' co' st', r = Ok (ro, bl', co', st') ->
    f_anc st' = f_anc st /\ (mi_sound (f_mi st) -> mi_sound (f_mi st')) /\
    length co' = n /\ (forall j, In j in_use -> nth_error co' j = nth_error co j) /\
    (forall o, ro = Some o -> o = co' /\ (covered co i1 in_use -> surj n co')).

Lemma try_level_post call deeper c1 c2 n i1 in_use :
  call_ok call ->
  length c1 = n -> length c2 = n -> (i1 < n)%nat ->
  (forall j, In j in_use -> (j < n)%nat) ->
  (forall i2 bl co st, (i2 < n)%nat -> ~ In i2 in_use -> length co = n ->
     ps_post n (S i1) (i2 :: in_use) co st (deeper i2 bl co st)) ->
  forall cands, (forall i2, In i2 cands -> (i2 < n)%nat /\ ~ In i2 in_use) ->
  forall bl co st, length co = n ->
    ps_post n i1 in_use co st (try_level call deeper c1 c2 n i1 cands bl co st).
Proof.
  intros Hcall Hc1 Hc2 Hi1 Huse Hdeep.
  induction cands as [|i2 more IH]; intros Hc bl co st Hco.
  - simpl. split; [discriminate|]. intros ro bl' co' st' H. inversion H; subst ro bl' co' st'.
    split; [reflexivity|]. split; [auto|]. split; [exact Hco|]. split; [auto|]. intros o Ho. discriminate.
  - simpl. destruct (Hc i2 (or_introl eq_refl)) as [Hi2 Hni2].
    assert (Hmore : forall x, In x more -> (x < n)%nat /\ ~ In x in_use) by (intros x Hx; apply Hc; right; exact Hx).
    destruct (mem_pair (i1, i2) bl); [apply IH; auto|].
    destruct (nth_error c1 i1) as [a|] eqn:Ea.
    2:{ apply nth_error_None in Ea. lia. }
    destruct (nth_error c2 i2) as [b|] eqn:Eb.
    2:{ apply nth_error_None in Eb. lia. }
    destruct (Hcall a b st) as [Hne Hok].
    destruct (call a b st) as [[[|] st1]| |e] eqn:Ecall.
    + (* matched *)
      destruct (Hok _ _ eq_refl) as [Hanc1 Hmi1].
      rewrite py_set_nat by lia.
      set (co1 := set_nth co i2 (Z.of_nat i1)).
      assert (Hco1 : length co1 = n) by (unfold co1; rewrite set_nth_length; exact Hco).
      assert (Hframe1 : forall j, In j in_use -> nth_error co1 j = nth_error co j).
      { intros j Hj. unfold co1. apply nth_error_set_nth_other. intros ->. contradiction. }
      assert (Hcov1 : covered co i1 in_use -> covered co1 (S i1) (i2 :: in_use)).
      { intros Hcov k Hk. destruct (Nat.eq_dec k i1) as [->|Hne1].
        - exists i2. split; [left; reflexivity|]. unfold co1. apply nth_error_set_nth_same. lia.
        - destruct (Hcov k) as [j [Hj Hn]]; [lia|]. exists j. split; [right; exact Hj|].
          rewrite Hframe1; auto. }
      destruct (Nat.eqb (S i1) n) eqn:En.
      * apply Nat.eqb_eq in En. split; [discriminate|].
        intros ro bl' co' st' H. inversion H; subst ro bl' co' st'. clear H.
        split; [congruence|]. split; [auto|]. split; [exact Hco1|]. split; [exact Hframe1|].
        intros o Ho. inversion Ho; subst o. split; [reflexivity|].
        intros Hcov k Hk. destruct (Hcov1 Hcov k) as [j [Hj Hn]]; [lia|].
        exists j. split; auto. destruct Hj as [<-|Hj]; auto.
      * specialize (Hdeep i2 bl co1 st1 Hi2 Hni2 Hco1). destruct Hdeep as [Hdne Hdok].
        destruct (deeper i2 bl co1 st1) as [[[[ro2 bl2] co2] st2]| |e] eqn:Ed.
        -- destruct (Hdok _ _ _ _ eq_refl) as [Hanc2 [Hmi2 [Hco2 [Hframe2 Hsucc2]]]].
           assert (Hframe12 : forall j, In j in_use -> nth_error co2 j = nth_error co j).
           { intros j Hj. rewrite Hframe2 by (right; exact Hj). apply Hframe1. exact Hj. }
           destruct ro2 as [o2|].
           ++ split; [discriminate|]. intros ro bl' co' st' H. inversion H; subst ro bl' co' st'. clear H.
              split; [congruence|]. split; [auto|]. split; [exact Hco2|]. split; [exact Hframe12|].
              intros o Ho. inversion Ho; subst o. destruct (Hsucc2 _ eq_refl) as [He Hs]. split; [exact He|].
              intros Hcov. apply Hs. apply Hcov1. exact Hcov.
           ++ specialize (IH Hmore bl2 co2 st2 Hco2). destruct IH as [IHne IHok].
              split; [exact IHne|]. intros ro bl' co' st' H.
              destruct (IHok _ _ _ _ H) as [A [B [C [D F]]]].
              split; [congruence|]. split; [auto|]. split; [exact C|].
              split; [intros j Hj; rewrite D by exact Hj; apply Hframe12; exact Hj|].
              intros o Ho. destruct (F _ Ho) as [F1 F2]. split; [exact F1|].
              intros Hcov. apply F2. intros k Hk. destruct (Hcov k Hk) as [j [Hj Hn]].
              exists j. split; auto. rewrite Hframe12; auto.
        -- split; [discriminate|]. intros; discriminate.
        -- exfalso. eapply Hdne; eauto.
    + (* not matched: blacklist and go on *)
      destruct (Hok _ _ eq_refl) as [Hanc1 Hmi1].
      specialize (IH Hmore ((i1, i2) :: bl) co st1 Hco). destruct IH as [IHne IHok].
      split; [exact IHne|]. intros ro bl' co' st' H.
      destruct (IHok _ _ _ _ H) as [A [B [C [D F]]]].
      split; [congruence|]. split; [auto|]. auto.
    + split; [discriminate|]. intros; discriminate.
    + exfalso. eapply Hne; eauto.
Qed.

Lemma free_indices_spec n in_use i : In i (free_indices n in_use) -> (i < n)%nat /\ ~ In i in_use.
Proof.
  unfold free_indices. intros H. apply filter_In in H. destruct H as [H1 H2].
  apply in_seq in H1. split; [lia|]. apply negb_true_iff in H2. apply mem_nat_false. exact H2.
Qed.

Lemma perm_search_post call c1 c2 n :
  call_ok call -> length c1 = n -> length c2 = n ->
  forall lev i1 in_use bl co st,
    (i1 + lev = n)%nat -> (forall j, In j in_use -> (j < n)%nat) -> length co = n ->
    ps_post n i1 in_use co st (perm_search call c1 c2 n lev i1 in_use bl co st).
Proof.
  intros Hcall Hc1 Hc2. induction lev as [|lev IH]; intros i1 in_use bl co st Hsum Huse Hco.
  - simpl. split; [discriminate|]. intros ro bl' co' st' H. inversion H; subst ro bl' co' st'.
    split; [reflexivity|]. split; [auto|]. split; [exact Hco|]. split; [auto|]. intros o Ho. discriminate.
  - simpl. apply try_level_post; auto; try lia.
    + intros i2 bl0 co0 st0 Hi2 Hni Hco0. apply IH; auto; try lia.
      intros j [<-|Hj]; auto.
    + intros i2 Hi2. apply free_indices_spec. exact Hi2.
Qed.

(* ---------------------------------------------------------------- potential_children *)
Lemma potential_children_spec id1 id2 c :
  In c (potential_children s1 s2 id1 id2) ->
  exists k1 k2, In (fst c, k1) (rules_of s1 id1) /\ In (snd c, k2) (rules_of s2 id2) /\
                length (snd c) = length (fst c) /\ rule_match k1 k2 = true.
Proof.
  unfold potential_children. intros H. apply in_flat_map in H. destruct H as [[c1 k1] [H1 H2]].
  apply in_map_iff in H2. destruct H2 as [[c2 k2] [<- H2]]. apply filter_In in H2.
  destruct H2 as [H2 H3]. simpl in *. apply andb_true_iff in H3. destruct H3 as [H3 H4].
  apply Nat.eqb_eq in H3. exists k1, k2. auto.
Qed.

Lemma mi_sound_put m key c o :
  mi_sound m -> entry_sound (fst key) (snd key) c o -> mi_sound (mi_put m key c o).
Proof.
  intros Hm He a b d c' o' Hg Hin. unfold mi_put in Hg. rewrite mi_get_set in Hg.
  destruct (pair_eqb key (a, b)) eqn:E.
  - apply pair_eqb_eq in E. subst key. inversion Hg; subst d. clear Hg.
    apply inner_set_In in Hin. destruct Hin as [[-> ->]|Hin]; [exact He|].
    destruct (mi_get m (a, b)) as [d0|] eqn:G; [|destruct Hin]. eapply Hm; eauto.
  - eapply Hm; eauto.
Qed.

Lemma over_cands_ok call key :
  call_ok call ->
  forall cs, (forall c, In c cs -> In c (potential_children s1 s2 (fst key) (snd key))) ->
  forall st,
    (forall e, over_cands call key cs st <> Err e) /\
    (forall st', over_cands call key cs st = Ok st' ->
       f_anc st' = f_anc st /\ (mi_sound (f_mi st) -> mi_sound (f_mi st'))).
Proof.
  intros Hcall. induction cs as [|[c1 c2] cs IH]; intros Hcs st.
  - simpl. split; [discriminate|]. intros st' H. inversion H. auto.
  - simpl.
    assert (Hin : In (c1, c2) (potential_children s1 s2 (fst key) (snd key))) by (apply Hcs; left; reflexivity).
    destruct (potential_children_spec _ _ _ Hin) as [k1 [k2 [_ [_ [Hlen _]]]]]. simpl in Hlen.
    assert (Hcs' : forall c, In c cs -> In c (potential_children s1 s2 (fst key) (snd key))) by (intros c Hc; apply Hcs; right; exact Hc).
    pose proof (perm_search_post call c1 c2 (length c1) Hcall eq_refl Hlen (length c1) 0%nat [] [] (repeat (-1) (length c1)) st
                  eq_refl (fun j (H : In j []) => match H with end) (repeat_length _ _)) as [Hne Hok].
    destruct (perm_search call c1 c2 (length c1) (length c1) 0 [] [] (repeat (-1) (length c1)) st)
      as [[[[ro bl'] co'] st1]| |e] eqn:Eps.
    + destruct (Hok _ _ _ _ eq_refl) as [Hanc [Hmi [Hco [_ Hsucc]]]].
      destruct ro as [order|].
      * destruct (Hsucc _ eq_refl) as [-> Hs].
        specialize (IH Hcs' (mkF (mi_put (f_mi st1) key (c1, c2) co') (f_visited st1) (f_anc st1))).
        destruct IH as [IHne IHok]. split; [exact IHne|]. intros st' H.
        destruct (IHok _ H) as [A B]. simpl in A, B. split; [congruence|].
        intros Hms. apply B. apply mi_sound_put; [auto|].
        right. simpl. split; [exact Hin|]. split.
        -- intros ->. simpl in Eps. discriminate.
        -- split; [exact Hco|]. apply Hs. intros k Hk. lia.
      * specialize (IH Hcs' st1). destruct IH as [IHne IHok]. split; [exact IHne|]. intros st' H.
        destruct (IHok _ H) as [A B]. split; [congruence|auto].
    + split; [discriminate|]. intros; discriminate.
    + exfalso. eapply Hne; eauto.
Qed.

Lemma find_ok fuel : call_ok (find s1 s2 fuel).
Proof.
  induction fuel as [|f IH]; intros id1 id2 st.
  - simpl. split; [discriminate|]. intros; discriminate.
  - simpl.
    destruct (atoms_match s1 s2 id1 id2) eqn:Eat.
    { split; [discriminate|]. intros r st' H. inversion H; subst. simpl. split; [reflexivity|].
      intros Hm a b d c o Hg Hin. rewrite mi_get_set in Hg.
      destruct (pair_eqb (id1, id2) (a, b)) eqn:E.
      - apply pair_eqb_eq in E. inversion E; subst. inversion Hg; subst.
        destruct Hin as [Hin|[]]. inversion Hin; subst. left. auto.
      - eapply Hm; eauto. }
    destruct (mi_mem (f_mi st) (id1, id2)).
    { split; [discriminate|]. intros r st' H. inversion H; subst. auto. }
    destruct (mem_pair (id1, id2) (f_visited st)).
    { split; [discriminate|]. intros r st' H. inversion H; subst. auto. }
    destruct (mem_pair (id1, id2) (f_anc st)) eqn:Eanc.
    { split; [discriminate|]. intros r st' H. inversion H; subst. auto. }
    pose proof (over_cands_ok (find s1 s2 f) (id1, id2) IH (potential_children s1 s2 id1 id2) (fun c H => H)
                  (mkF (f_mi st) (f_visited st) (set_add (id1, id2) (f_anc st)))) as [Hne Hok].
    destruct (over_cands (find s1 s2 f) (id1, id2) (potential_children s1 s2 id1 id2)
                (mkF (f_mi st) (f_visited st) (set_add (id1, id2) (f_anc st)))) as [st1| |e] eqn:Eo.
    + destruct (Hok _ eq_refl) as [Hanc Hmi]. simpl in Hanc, Hmi.
      rewrite Hanc, set_remove_head by exact Eanc.
      split; [discriminate|]. intros r st' H. inversion H; subst. simpl. auto.
    + split; [discriminate|]. intros; discriminate.
    + exfalso. eapply Hne; eauto.
Qed.

(* the first search as find() starts it *)
Theorem first_search_never_raises fuel e :
  find s1 s2 fuel (s_root s1) (s_root s2) init_fstate <> Err e.
Proof. apply (find_ok fuel). Qed.

Theorem first_search_sound fuel b st :
  find s1 s2 fuel (s_root s1) (s_root s2) init_fstate = Ok (b, st) -> mi_sound (f_mi st).
Proof.
  intros H. destruct (find_ok fuel (s_root s1) (s_root s2) init_fstate) as [_ Hok].
  destruct (Hok _ _ H) as [_ Hm]. apply Hm. exact mi_sound_nil.
Qed.

End First.
