(* The finder as it is since 97589e3 (_maps_are_matched): what it returns is a matched pair, for both
   variants, whatever the second search did before the final walk. *)
From Coq Require Import ZArith List Bool Lia.
From CSS Require Import Base.PyList Parallel.Model Parallel.Basics Parallel.First Parallel.Second Parallel.Matched.
Import ListNotations.
Open Scope Z_scope.
Local Arguments Nat.eqb : simpl never.

Section Fixed.
Variables s1 s2 : side.

Lemma walk_never_raises m d1 d2 : mi_sound s1 s2 m ->
  forall fuel stack seen e, walk m d1 d2 fuel stack seen <> Err e.
Proof.
  intros Hm. induction fuel as [|f IH]; intros stack seen e; simpl; [discriminate|].
  destruct stack as [|[a b] rest]; [discriminate|].
  destruct (mem_pair (a, b) seen); [apply IH|].
  destruct (sm_get d1 a) as [c1|]; [|discriminate].
  destruct (sm_get d2 b) as [c2|]; [|discriminate].
  destruct (mi_get m (a, b)) as [d|] eqn:Gm; [|discriminate].
  destruct (inner_get d (c1, c2)) as [o|] eqn:Go; [|discriminate].
  pose proof (entry_sound_child_pairs s1 s2 _ _ _ _ (Hm _ _ _ _ _ Gm (inner_get_In _ _ _ Go))) as Hcp.
  simpl in Hcp. destruct (child_pairs c1 c2 o); [apply IH|contradiction].
Qed.

Lemma checked_matched m wfuel o d1 d2 : mi_sound s1 s2 m ->
  checked s1 s2 m wfuel o = Found d1 d2 -> matched_pair s1 s2 d1 d2.
Proof.
  intros Hm H. unfold checked in H. destruct o as [|e1 e2|c|]; try discriminate.
  destruct (walk m e1 e2 wfuel [(s_root s1, s_root s2)] []) as [[[|] seen]| |c] eqn:W; try discriminate.
  inversion H; subst. eapply walk_matched; eauto.
Qed.

Theorem find_base_matched fuel wfuel d1 d2 :
  find_base s1 s2 fuel wfuel = Found d1 d2 -> matched_pair s1 s2 d1 d2.
Proof.
  unfold find_base. pose proof (first_search_sound s1 s2 fuel) as Hs.
  destruct (find s1 s2 fuel (s_root s1) (s_root s2) init_fstate) as [[[|] st]| |e'] eqn:E; try discriminate.
  apply checked_matched. eapply Hs; eauto.
Qed.

Lemma path_checked_found m wfuel oracle o d1 d2 asked :
  path_checked s1 s2 m wfuel oracle o = (Found d1 d2, asked) -> o = Found d1 d2.
Proof.
  unfold path_checked. destruct o as [|e1 e2|c|]; try (intros H; inversion H; fail).
  destruct (ewalk m wfuel [(s_root s1, s_root s2, (0%nat, 0%nat))] [] (mkE e1 e2 [] oracle [] [])) as [[[|] st]| |c];
    intros H; inversion H; reflexivity.
Qed.

Theorem find_eq_matched pw fuel wfuel oracle woracle d1 d2 asked :
  find_eq s1 s2 pw fuel wfuel oracle woracle = EOut (Found d1 d2) asked -> matched_pair s1 s2 d1 d2.
Proof.
  unfold find_eq. pose proof (first_search_sound s1 s2 fuel) as Hs.
  destruct (find s1 s2 fuel (s_root s1) (s_root s2) init_fstate) as [[[|] st]| |e'] eqn:E; try discriminate.
  destruct (search_eq s1 s2 true (f_mi st) fuel oracle) as [o asked'] eqn:Es.
  assert (Hm : mi_sound s1 s2 (f_mi st)) by (eapply Hs; eauto).
  destruct pw.
  - destruct (path_checked s1 s2 (f_mi st) wfuel woracle (checked s1 s2 (f_mi st) wfuel o)) as [o2 asked2] eqn:Ep.
    intros H. inversion H; subst. apply path_checked_found in Ep. eapply checked_matched; eauto.
  - intros H. inversion H. eapply checked_matched; eauto.
Qed.

Theorem find_base_never_raises fuel wfuel e : find_base s1 s2 fuel wfuel <> Failed e.
Proof.
  unfold find_base.
  pose proof (first_search_never_raises s1 s2 fuel) as Hne.
  pose proof (first_search_sound s1 s2 fuel) as Hs.
  destruct (find s1 s2 fuel (s_root s1) (s_root s2) init_fstate) as [[[|] st]| |e'] eqn:E; try discriminate.
  - assert (Hm : mi_sound s1 s2 (f_mi st)) by (eapply Hs; eauto).
    destruct (search_base_ok s1 s2 (f_mi st) fuel Hm) as [A _].
    unfold checked. destruct (search_base s1 s2 (f_mi st) fuel) as [|e1 e2|c|] eqn:Es; try discriminate.
    + pose proof (walk_never_raises (f_mi st) e1 e2 Hm wfuel [(s_root s1, s_root s2)] []) as Hw.
      destruct (walk (f_mi st) e1 e2 wfuel [(s_root s1, s_root s2)] []) as [[[|] seen]| |c]; try discriminate.
      exfalso. eapply Hw; eauto.
    + exfalso. eapply A; eauto.
  - exfalso. eapply Hne; eauto.
Qed.

Theorem find_base_good fuel wfuel d1 d2 :
  find_base s1 s2 fuel wfuel = Found d1 d2 -> sm_all (good s1) d1 /\ sm_all (good s2) d2.
Proof.
  unfold find_base. pose proof (first_search_sound s1 s2 fuel) as Hs.
  destruct (find s1 s2 fuel (s_root s1) (s_root s2) init_fstate) as [[[|] st]| |e'] eqn:E; try discriminate.
  assert (Hm : mi_sound s1 s2 (f_mi st)) by (eapply Hs; eauto).
  destruct (search_base_ok s1 s2 (f_mi st) fuel Hm) as [_ A].
  unfold checked. destruct (search_base s1 s2 (f_mi st) fuel) as [|e1 e2|c|] eqn:Es; try discriminate.
  destruct (walk (f_mi st) e1 e2 wfuel [(s_root s1, s_root s2)] []) as [[[|] seen]| |c]; try discriminate.
  intros H. inversion H; subst. apply A. reflexivity.
Qed.

End Fixed.
