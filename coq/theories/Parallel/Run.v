(* sx interface for C13.
   input : ( mode fuel side1 side2 oracle )
     mode   : 0 ParallelSpecFinder, 1 EqPathParallelSpecFinder, 2 / 3 the same two with the proposed
              repair findings/second_search_shortcut.diff applied (the harness looks whether the
              repository has it),
              9 the real run stopped before the finder's searches (ParallelInfo refused or failed):
                nothing to model, the answer is the marker (9)
     fuel   : recursion-depth budget (the harness sends a bound that always suffices)
     side   : ( root ((label atom_identity) ...) ((label (((child ...) kind) ...)) ...) )
     oracle : ((id1 id2 pid1 pid2 (children1) (children2) 0/1) ...) the answers of _eq_path_matches at its
              cache misses in the real run, by cache key (modes 1, 3); pid = -1 for the root
   output: ( status keys1 keys2 asked )
     status : 0 find() returned None, 1 two label maps, 2 out of fuel, 10+c exception c
              (1 KeyError, 2 IndexError, 9 the replayed oracle ran out)
     keys   : ((label (child ...)) ...) = Node.rule_keys() of _create_tree(label map, root), i.e. the
              part of the label map reachable from the root -- what the specification is built from
     asked  : ((id1 id2 pid1 pid2 (children1) (children2)) ...) cache misses of _eq_path_matches
              (information only: the harness does not compare it) *)
From Coq Require Import ZArith List Bool.
From CSS Require Import Base.Sx Base.PyList Parallel.Model.
Import ListNotations.
Open Scope Z_scope.

Definition dec_rule (s : sx) : clist * Z := (sx_nats (sx_nth s 0), sx_Z (sx_nth s 1)).
Definition dec_side (s : sx) : side :=
  mkSide (sx_nat (sx_nth s 0))
         (map (fun e => (sx_nat (sx_nth e 0), sx_Z (sx_nth e 1))) (sx_list (sx_nth s 1)))
         (map (fun e => (sx_nat (sx_nth e 0), map dec_rule (sx_list (sx_nth e 1)))) (sx_list (sx_nth s 2))).

Definition enc_keys (l : list (nat * clist)) : sx :=
  L (map (fun e => L [of_nat (fst e); of_nats (snd e)]) l).

Definition enc_qkey (k : qkey) : sx :=
  let '((id1, id2), (p1, p2), (c1, c2)) := k in
  L [of_nat id1; of_nat id2; I (Z.of_nat p1 - 1); I (Z.of_nat p2 - 1); of_nats c1; of_nats c2].

Definition dec_answer (s : sx) : qkey * bool :=
  (((sx_nat (sx_nth s 0), sx_nat (sx_nth s 1)),
    (Z.to_nat (sx_Z (sx_nth s 2) + 1), Z.to_nat (sx_Z (sx_nth s 3) + 1)),
    (sx_nats (sx_nth s 4), sx_nats (sx_nth s 5))),
   sx_bool (sx_nth s 6)).

Definition size_of (d : smap) : nat := S (length d + fold_right (fun e a => (length (snd e) + a)%nat) O d).

Definition enc_outcome (s1 s2 : side) (o : outcome) (asked : list qkey) : sx :=
  let q := L (map enc_qkey asked) in
  match o with
  | Nothing => L [I 0; L []; L []; q]
  | NoFuel => L [I 2; L []; L []; q]
  | Failed c => L [I (10 + Z.of_nat c); L []; L []; q]
  | Found d1 d2 =>
      match tree_keys d1 (s_root s1) (S (size_of d1)), tree_keys d2 (s_root s2) (S (size_of d2)) with
      | Some k1, Some k2 => L [I 1; enc_keys k1; enc_keys k2; q]
      | _, _ => L [I 2; L []; L []; q]
      end
  end.

Definition run_c13 (inp : sx) : sx :=
  let mode := sx_Z (sx_nth inp 0) in
  if mode =? 9 then L [I 9]
  else
    let fuel := sx_nat (sx_nth inp 1) in
    let s1 := dec_side (sx_nth inp 2) in
    let s2 := dec_side (sx_nth inp 3) in
    let wfuel := (fuel * fuel + fuel)%nat in
    if mode =? 0 then enc_outcome s1 s2 (find_base s1 s2 fuel) []
    else if mode =? 2 then enc_outcome s1 s2 (find_base_fixed s1 s2 fuel wfuel) []
    else
      let oracle := map dec_answer (sx_list (sx_nth inp 4)) in
      match (if mode =? 1 then find_eq s1 s2 fuel oracle else find_eq_fixed s1 s2 fuel wfuel oracle) with
      | EOut o asked => enc_outcome s1 s2 o asked
      end.
