(* sx interface for C13.
   input : ( mode fuel A B oracle woracle )
     mode   : 0 ParallelSpecFinder, 3 EqPathParallelSpecFinder as it is since fix 8a96a0c (it overrides
              _maps_are_matched: the second final walk, pw = true), 1 EqPathParallelSpecFinder before that fix
              (pw = false; sent only if the class does not override _maps_are_matched, i.e. never on /repo as it is),
              9 the real run stopped before ParallelInfo read the rule databases (a searcher without a
                specification, a rule database that is not RuleDB): nothing to model, the answer is (9)
     fuel   : a LOWER bound for the recursion-depth budget; the budget actually used is computed here from the
              two universes: fuel = max(sent, run_fuel s1 s2), wfuel = run_wfuel s1 s2 (Parallel/Fuel.v), which
              are at least the bounds of the termination theorems: status 2 cannot occur
              (C13_harness_never_out_of_fuel; EqPath: for oracles answering every question — an unanswered
              question is status 19, never 2 ... by the structure of eq_path_matches, not by theorem)
     A, B   : how each universe is obtained
              (0 side)      given (the synthetic stream): side = ( root ((label atom_identity) ...)
                            ((label (((child ...) kind) ...)) ...) )
              (1 db lis)    built by the model of ParallelInfo._construct_eq_label_rules from the rule
                            database db = ( start (rep_of_label_0 ...) ((is_empty atom_identity_or_-1) ...)
                                            ((parent (child ...) kind) ...) )
                            and the order lis = ((eq_parent (eq_child ...)) ...) in which the real run
                            iterated the pruned rules up to equivalence
     oracle : ((id1 id2 pid1 pid2 (children1) (children2) 0/1) ...) the answers of _eq_path_matches at its
              cache misses during the search of the real run, by cache key (modes 1, 3); pid = -1 for the root
     woracle: the same for the second walk of _maps_are_matched (mode 3; fresh cache, final label maps)
   output: ( status keys1 keys2 asked c1 side1 c2 side2 w1 w2 )
     status : 0 find() returned None, 1 two label maps, 2 out of fuel, 8 a universe was not built (see c1,
              c2), 10+c exception c (1 KeyError, 2 IndexError, 9 a question the replayed oracle has no
              answer to)
     keys   : ((label (child ...)) ...) = Node.rule_keys() of _create_tree(label map, root)
     asked  : cache misses of _eq_path_matches (information only: the harness does not compare it)
     c      : 9 universe given; 0 built, 5 built but lis is not the set of pruned rules the model computes,
              7 ValueError "Only atoms can be verified.", 10+c exception c (1 KeyError, 3 AssertionError,
              4 RuntimeError)
     side   : the universe built (empty when given or not built), in the format of the input
     w      : 9 universe given; otherwise bit 0 = db_wfb db lis, bit 1 = only_atoms_verified_b db lis
              (Parallel/InfoTotal.v): the decidable hypotheses of C13_construct_total (bit 0: c is not 11/13/14)
              and C13_construct_ok (both bits: c is 0 or 5), evaluated on the replayed rule database; the harness
              decides the same two facts on the real objects and the two verdicts are compared *)
From Coq Require Import ZArith List Bool.
From CSS Require Import Base.Sx Base.PyList Spec.Extractor Parallel.Model Parallel.InfoModel Parallel.InfoTotal Parallel.Fuel.
Import ListNotations.
Open Scope Z_scope.

Definition dec_rule (s : sx) : clist * Z := (sx_nats (sx_nth s 0), sx_Z (sx_nth s 1)).
Definition dec_side (s : sx) : side :=
  mkSide (sx_nat (sx_nth s 0))
         (map (fun e => (sx_nat (sx_nth e 0), sx_Z (sx_nth e 1))) (sx_list (sx_nth s 1)))
         (map (fun e => (sx_nat (sx_nth e 0), map dec_rule (sx_list (sx_nth e 1)))) (sx_list (sx_nth s 2))).
Definition enc_side (s : side) : sx :=
  L [of_nat (s_root s);
     L (map (fun e => L [of_nat (fst e); I (snd e)]) (s_atoms s));
     L (map (fun e => L [of_nat (fst e); L (map (fun r => L [of_nats (fst r); I (snd r)]) (snd e))]) (s_rules s))].

Definition dec_rkey (s : sx) : rkey := (sx_nat (sx_nth s 0), sx_nats (sx_nth s 1)).
Definition dec_db (s : sx) : rdb :=
  mkDB (sx_nat (sx_nth s 0)) (sx_nats (sx_nth s 1))
       (map (fun e => (sx_bool (sx_nth e 0),
                       let a := sx_Z (sx_nth e 1) in if a <? 0 then None else Some a)) (sx_list (sx_nth s 2)))
       (map (fun e => (dec_rkey e, sx_Z (sx_nth e 2))) (sx_list (sx_nth s 3))).

Definition wf_code (db : rdb) (lis : list rkey) : Z :=
  (if db_wfb db lis then 1 else 0) + (if only_atoms_verified_b db lis then 2 else 0).

(* (c, the universe when there is one, its encoding for the output, w) *)
Definition universe_arg (a : sx) : Z * option side * sx * Z :=
  if sx_Z (sx_nth a 0) =? 0 then (9, Some (dec_side (sx_nth a 1)), L [], 9)
  else
    let db := dec_db (sx_nth a 1) in
    let lis := map dec_rkey (sx_list (sx_nth a 2)) in
    let w := wf_code db lis in
    match construct db lis with
    | COk s => (if lis_agrees db lis then 0 else 5, Some s, enc_side s, w)
    | CRefused => (7, None, L [], w)
    | CErr c => (10 + Z.of_nat c, None, L [], w)
    end.

Definition enc_keys (l : list (nat * clist)) : sx :=
  L (map (fun e => L [of_nat (fst e); of_nats (snd e)]) l).

Definition enc_qkey (k : qkey) : sx :=
  let '((id1, id2), (p1, p2), (c1, c2)) := k in
  L [of_nat id1; of_nat id2; I (Z.of_nat p1 - 1); I (Z.of_nat p2 - 1); of_nats c1; of_nats c2].

Definition dec_answer (s : sx) : qkey * bool :=
  (((sx_nat (sx_nth s 0), sx_nat (sx_nth s 1)),
    (Z.to_nat (sx_Z (sx_nth s 2) + 1), Z.to_nat (sx_Z (sx_nth s 3) + 1)),
    (sx_nats (sx_nth s 4), sx_nats (sx_nth s 5))),
   sx_bool (sx_nth s 6)).

Definition enc_outcome (s1 s2 : side) (o : outcome) (asked : list qkey) : list sx :=
  let q := L (map enc_qkey asked) in
  match o with
  | Nothing => [I 0; L []; L []; q]
  | NoFuel => [I 2; L []; L []; q]
  | Failed c => [I (10 + Z.of_nat c); L []; L []; q]
  | Found d1 d2 =>
      match tree_keys d1 (s_root s1) (S (size_of d1)), tree_keys d2 (s_root s2) (S (size_of d2)) with
      | Some k1, Some k2 => [I 1; enc_keys k1; enc_keys k2; q]
      | _, _ => [I 2; L []; L []; q]
      end
  end.

Definition run_c13 (inp : sx) : sx :=
  let mode := sx_Z (sx_nth inp 0) in
  if mode =? 9 then L [I 9]
  else
    let sent := sx_nat (sx_nth inp 1) in
    let '(c1, u1, e1, w1) := universe_arg (sx_nth inp 2) in
    let '(c2, u2, e2, w2) := universe_arg (sx_nth inp 3) in
    let tail := [I c1; e1; I c2; e2; I w1; I w2] in
    match u1, u2 with
    | Some s1, Some s2 =>
      let fuel := harness_fuel sent s1 s2 in
      let wfuel := run_wfuel s1 s2 in
      if mode =? 0 then L (enc_outcome s1 s2 (find_base s1 s2 fuel wfuel) [] ++ tail)
      else
        let table := map dec_answer (sx_list (sx_nth inp 4)) in
        let wtable := map dec_answer (sx_list (sx_nth inp 5)) in
        match find_eq s1 s2 (mode =? 3) fuel wfuel (fun k => cache_get table k) (fun k => cache_get wtable k) with
        | EOut o asked => L (enc_outcome s1 s2 o asked ++ tail)
        end
    | _, _ => L ([I 8; L []; L []; L []] ++ tail)
    end.
