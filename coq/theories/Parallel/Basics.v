(* Elementary facts about the data structures of Parallel/Model.v *)
From Coq Require Import ZArith List Bool Lia.
From CSS Require Import Base.PyList Parallel.Model.
Import ListNotations.
Open Scope Z_scope.

Lemma pair_eqb_eq (a b : lpair) : pair_eqb a b = true <-> a = b.
Proof.
  destruct a as [a1 a2], b as [b1 b2]. unfold pair_eqb. simpl.
  rewrite andb_true_iff, !Nat.eqb_eq. split.
  - intros [-> ->]. reflexivity.
  - intros H. inversion H. auto.
Qed.
Lemma pair_eqb_refl (a : lpair) : pair_eqb a a = true.
Proof. apply pair_eqb_eq. reflexivity. Qed.
Lemma pair_eqb_neq (a b : lpair) : pair_eqb a b = false <-> a <> b.
Proof.
  split.
  - intros H E. apply pair_eqb_eq in E. congruence.
  - intros H. destruct (pair_eqb a b) eqn:E; auto. apply pair_eqb_eq in E. contradiction.
Qed.

Lemma clist_eqb_eq (a b : clist) : clist_eqb a b = true <-> a = b.
Proof.
  revert b. induction a as [|x a IH]; intros [|y b]; simpl; split; intros H; try congruence; auto.
  - apply andb_true_iff in H. destruct H as [H1 H2]. apply Nat.eqb_eq in H1. apply IH in H2. congruence.
  - inversion H. subst. rewrite Nat.eqb_refl. simpl. apply IH. reflexivity.
Qed.
Lemma clist_eqb_refl (a : clist) : clist_eqb a a = true.
Proof. apply clist_eqb_eq. reflexivity. Qed.

Lemma cand_eqb_eq (a b : cand) : cand_eqb a b = true <-> a = b.
Proof.
  destruct a as [a1 a2], b as [b1 b2]. unfold cand_eqb. simpl.
  rewrite andb_true_iff, !clist_eqb_eq. split.
  - intros [-> ->]. reflexivity.
  - intros H. inversion H. auto.
Qed.
Lemma cand_eqb_refl (a : cand) : cand_eqb a a = true.
Proof. apply cand_eqb_eq. reflexivity. Qed.

Lemma mem_nat_In (x : nat) l : mem_nat x l = true <-> In x l.
Proof.
  unfold mem_nat. rewrite existsb_exists. split.
  - intros [y [H1 H2]]. apply Nat.eqb_eq in H2. subst. exact H1.
  - intros H. exists x. split; auto. apply Nat.eqb_refl.
Qed.
Lemma mem_nat_false (x : nat) l : mem_nat x l = false <-> ~ In x l.
Proof.
  split.
  - intros H I. apply mem_nat_In in I. congruence.
  - intros H. destruct (mem_nat x l) eqn:E; auto. apply mem_nat_In in E. contradiction.
Qed.
Lemma mem_pair_In (x : lpair) l : mem_pair x l = true <-> In x l.
Proof.
  unfold mem_pair. rewrite existsb_exists. split.
  - intros [y [H1 H2]]. apply pair_eqb_eq in H2. subst. exact H1.
  - intros H. exists x. split; auto. apply pair_eqb_refl.
Qed.
Lemma mem_pair_false (x : lpair) l : mem_pair x l = false <-> ~ In x l.
Proof.
  split.
  - intros H I. apply mem_pair_In in I. congruence.
  - intros H. destruct (mem_pair x l) eqn:E; auto. apply mem_pair_In in E. contradiction.
Qed.
Lemma mem_clist_In (x : clist) l : mem_clist x l = true <-> In x l.
Proof.
  unfold mem_clist. rewrite existsb_exists. split.
  - intros [y [H1 H2]]. apply clist_eqb_eq in H2. subst. exact H1.
  - intros H. exists x. split; auto. apply clist_eqb_refl.
Qed.

(* ---------------------------------------------------------------- sets as lists *)
Lemma set_add_In x y l : In y (set_add x l) <-> y = x \/ In y l.
Proof.
  unfold set_add. destruct (mem_pair x l) eqn:E.
  - apply mem_pair_In in E. split; auto. intros [->|H]; auto.
  - simpl. split; intros [H|H]; auto.
Qed.

Lemma set_remove_head x l : mem_pair x l = false -> set_remove x (set_add x l) = Some l.
Proof.
  intros H. unfold set_add. rewrite H. simpl. rewrite pair_eqb_refl. reflexivity.
Qed.

Lemma nset_add_In x y l : In y (nset_add x l) <-> y = x \/ In y l.
Proof.
  unfold nset_add. destruct (mem_nat x l) eqn:E.
  - apply mem_nat_In in E. split; auto. intros [->|H]; auto.
  - simpl. split; intros [H|H]; auto.
Qed.

(* ---------------------------------------------------------------- assoc_nat / smap *)
Lemma assoc_nat_In {A} (l : list (nat * A)) k v : assoc_nat l k = Some v -> In (k, v) l.
Proof.
  induction l as [|[k' v'] t IH]; simpl; intros H; try discriminate.
  destruct (Nat.eqb k' k) eqn:E.
  - apply Nat.eqb_eq in E. inversion H. subst. auto.
  - auto.
Qed.

Lemma sm_get_set_same m k v : sm_get (sm_set m k v) k = Some v.
Proof.
  unfold sm_get. induction m as [|[k' v'] t IH]; simpl.
  - rewrite Nat.eqb_refl. reflexivity.
  - destruct (Nat.eqb k' k) eqn:E; simpl.
    + rewrite Nat.eqb_refl. reflexivity.
    + rewrite E. exact IH.
Qed.
Lemma sm_get_set_other m k v x : x <> k -> sm_get (sm_set m k v) x = sm_get m x.
Proof.
  intros Hx. unfold sm_get. induction m as [|[k' v'] t IH]; simpl.
  - destruct (Nat.eqb k x) eqn:E; auto. apply Nat.eqb_eq in E. congruence.
  - destruct (Nat.eqb k' k) eqn:E; simpl.
    + apply Nat.eqb_eq in E. subst k'.
      destruct (Nat.eqb k x) eqn:E2; auto. apply Nat.eqb_eq in E2. congruence.
    + destruct (Nat.eqb k' x); auto.
Qed.
Lemma sm_get_set m k v x : sm_get (sm_set m k v) x = if Nat.eqb k x then Some v else sm_get m x.
Proof.
  destruct (Nat.eqb k x) eqn:E.
  - apply Nat.eqb_eq in E. subst. apply sm_get_set_same.
  - apply sm_get_set_other. intros ->. rewrite Nat.eqb_refl in E. discriminate.
Qed.

(* label maps are only ever compared through the property "every binding is good": work with In *)
Definition sm_all (P : nat -> clist -> Prop) (m : smap) : Prop := forall k c, In (k, c) m -> P k c.

Lemma sm_all_get P m k c : sm_all P m -> sm_get m k = Some c -> P k c.
Proof. intros H G. apply H. apply assoc_nat_In. exact G. Qed.

Lemma sm_set_In m k v x c : In (x, c) (sm_set m k v) -> (x = k /\ c = v) \/ In (x, c) m.
Proof.
  induction m as [|[k' v'] t IH]; simpl.
  - intros [H|[]]. inversion H. auto.
  - destruct (Nat.eqb k' k) eqn:E; simpl.
    + intros [H|H]; [inversion H; auto | auto].
    + intros [H|H]; auto. destruct (IH H) as [?|?]; auto.
Qed.
Lemma sm_all_set P m k v : sm_all P m -> P k v -> sm_all P (sm_set m k v).
Proof.
  intros H Hv x c I. destruct (sm_set_In _ _ _ _ _ I) as [[-> ->]|I']; auto.
Qed.
Lemma sm_del_In m k x c : In (x, c) (sm_del m k) -> In (x, c) m.
Proof.
  induction m as [|[k' v'] t IH]; simpl; auto.
  destruct (Nat.eqb k' k); simpl; auto. intros [H|H]; auto.
Qed.
Lemma sm_all_del P m k : sm_all P m -> sm_all P (sm_del m k).
Proof. intros H x c I. apply H. eapply sm_del_In; eauto. Qed.
Lemma sm_all_del_all P ks m : sm_all P m -> sm_all P (sm_del_all m ks).
Proof.
  unfold sm_del_all. revert m. induction ks as [|k ks IH]; simpl; auto.
  intros m H. apply IH. apply sm_all_del. exact H.
Qed.
Lemma sm_all_nil P : sm_all P [].
Proof. intros k c []. Qed.

(* ---------------------------------------------------------------- matching_info *)
Lemma mi_get_set_same m k v : mi_get (mi_set m k v) k = Some v.
Proof.
  induction m as [|[k' v'] t IH]; simpl.
  - rewrite pair_eqb_refl. reflexivity.
  - destruct (pair_eqb k' k) eqn:E; simpl.
    + rewrite pair_eqb_refl. reflexivity.
    + rewrite E. exact IH.
Qed.
Lemma mi_get_set_other m k v x : x <> k -> mi_get (mi_set m k v) x = mi_get m x.
Proof.
  intros Hx. induction m as [|[k' v'] t IH]; simpl.
  - destruct (pair_eqb k x) eqn:E; auto. apply pair_eqb_eq in E. congruence.
  - destruct (pair_eqb k' k) eqn:E; simpl.
    + apply pair_eqb_eq in E. subst k'.
      destruct (pair_eqb k x) eqn:E2; auto. apply pair_eqb_eq in E2. congruence.
    + destruct (pair_eqb k' x); auto.
Qed.
Lemma mi_get_set m k v x : mi_get (mi_set m k v) x = if pair_eqb k x then Some v else mi_get m x.
Proof.
  destruct (pair_eqb k x) eqn:E.
  - apply pair_eqb_eq in E. subst. apply mi_get_set_same.
  - apply mi_get_set_other. intros ->. rewrite pair_eqb_refl in E. discriminate.
Qed.

Lemma inner_set_In d c o c' o' :
  In (c', o') (inner_set d c o) -> (c' = c /\ o' = o) \/ In (c', o') d.
Proof.
  induction d as [|[c0 o0] t IH]; simpl.
  - intros [H|[]]. inversion H. auto.
  - destruct (cand_eqb c0 c) eqn:E; simpl.
    + intros [H|H]; [inversion H; auto | auto].
    + intros [H|H]; auto. destruct (IH H) as [?|?]; auto.
Qed.
Lemma inner_get_In d c o : inner_get d c = Some o -> In (c, o) d.
Proof.
  induction d as [|[c0 o0] t IH]; simpl; intros H; try discriminate.
  destruct (cand_eqb c0 c) eqn:E.
  - apply cand_eqb_eq in E. inversion H. subst. auto.
  - auto.
Qed.

Lemma mi_mem_get m k : mi_mem m k = true <-> exists d, mi_get m k = Some d.
Proof.
  unfold mi_mem. destruct (mi_get m k); split; intros H; eauto; try discriminate.
  destruct H as [d H]. discriminate.
Qed.

(* ---------------------------------------------------------------- py_nth / py_set *)
Lemma py_set_length {A} (l : list A) k v l' : py_set l k v = Some l' -> length l' = length l.
Proof.
  unfold py_set. destruct ((0 <=? k) && (k <? zlen l)).
  - intros H. inversion H. apply set_nth_length.
  - destruct ((k <? 0) && (- zlen l <=? k)); intros H; inversion H. apply set_nth_length.
Qed.

Lemma py_set_nat {A} (l : list A) (i : nat) v :
  (i < length l)%nat -> py_set l (Z.of_nat i) v = Some (set_nth l i v).
Proof.
  intros H. unfold py_set, zlen.
  destruct (0 <=? Z.of_nat i) eqn:E1; [|lia].
  destruct (Z.of_nat i <? Z.of_nat (length l)) eqn:E2; [|lia].
  simpl. rewrite Nat2Z.id. reflexivity.
Qed.

Lemma py_nth_nat {A} (l : list A) (i : nat) :
  (i < length l)%nat -> py_nth l (Z.of_nat i) = nth_error l i.
Proof.
  intros H. rewrite py_nth_nonneg by lia. unfold zlen.
  destruct (Z.of_nat i <? Z.of_nat (length l)) eqn:E; [|lia].
  rewrite Nat2Z.id. reflexivity.
Qed.
