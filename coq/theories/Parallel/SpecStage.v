(* The specification-construction stage: _create_tree + Node.rule_keys (tree_keys) and
   SpecificationRuleExtractor (model and theorem of C02) invoked with the START label.
   If every tuple of the label map that is reachable from the root equivalence label is a stored
   rule up to equivalence, the extractor does not fail and its rules dictionary is closed, contains
   the start label and consists of stored rules and steps of explanation paths. *)
From Coq Require Import ZArith List Bool Lia Sorting.Permutation.
From CSS Require Import Spec.Extractor Spec.ExtractorProofs Parallel.Model Parallel.Basics.
Import ListNotations.

(* ---------------------------------------------------------------- tree_keys *)
Definition keys_closed (keys : list (nat * clist)) : Prop :=
  forall l c x, In (l, c) keys -> In x c -> exists c', In (x, c') keys.

Lemma bfs_spec d : forall fuel queue visited acc keys,
  bfs d fuel queue visited acc = Some keys ->
  (forall l, In l visited <-> exists c, In (l, c) acc) ->
  (forall l c, In (l, c) acc -> c = sm_getd d l) ->
  (forall l c x, In (l, c) acc -> In x c -> In x visited \/ In x queue) ->
  (forall l c, In (l, c) keys -> c = sm_getd d l) /\
  (forall e, In e acc -> In e keys) /\
  (forall x, In x queue -> exists c, In (x, c) keys) /\
  keys_closed keys.
Proof.
  induction fuel as [|f IH]; intros queue visited acc keys H Hv Hd Hc; [discriminate|].
  simpl in H. destruct queue as [|v q].
  - inversion H; subst keys. clear H.
    split; [intros l c Hin; apply in_rev in Hin; eauto|].
    split; [intros e He; apply in_rev; rewrite rev_involutive; exact He|].
    split; [intros x []|].
    intros l c x Hin Hx. apply in_rev in Hin. destruct (Hc _ _ _ Hin Hx) as [Hxv|[]].
    apply Hv in Hxv. destruct Hxv as [c' Hc']. exists c'. apply in_rev. rewrite rev_involutive. exact Hc'.
  - destruct (mem_nat v visited) eqn:Ev.
    + apply mem_nat_In in Ev.
      destruct (IH _ _ _ _ H Hv Hd) as (A & B & C & D).
      * intros l c x Hin Hx. destruct (Hc _ _ _ Hin Hx) as [?|[<-|?]]; auto.
      * split; [exact A|]. split; [exact B|]. split; [|exact D].
        intros x [<-|Hx]; [|apply C; exact Hx].
        apply Hv in Ev. destruct Ev as [c Hc']. exists c. apply B. exact Hc'.
    + apply mem_nat_false in Ev.
      destruct (IH _ _ _ _ H) as (A & B & C & D).
      * intros l. simpl. rewrite Hv. split.
        -- intros [<-|[c Hc']]; eauto.
        -- intros [c [Hc'|Hc']]; [inversion Hc'; auto|right; eauto].
      * intros l c [Hin|Hin]; [inversion Hin; reflexivity|eauto].
      * intros l c x [Hin|Hin] Hx.
        -- inversion Hin; subst. right. apply in_or_app. right. exact Hx.
        -- destruct (Hc _ _ _ Hin Hx) as [?|[<-|?]]; [left; right; auto|left; left; auto|].
           right. apply in_or_app. left. assumption.
      * split; [exact A|]. split; [intros e He; apply B; right; exact He|]. split; [|exact D].
        intros x [<-|Hx].
        -- exists (sm_getd d v). apply B. left. reflexivity.
        -- apply C. apply in_or_app. left. exact Hx.
Qed.

Lemma tree_keys_spec d root fuel keys : tree_keys d root fuel = Some keys ->
  In (root, sm_getd d root) keys /\
  (forall l c, In (l, c) keys -> c = sm_getd d l) /\
  keys_closed keys.
Proof.
  unfold tree_keys. intros H.
  destruct (bfs_spec d fuel [root] [] [] keys H) as (A & B & C & D).
  - intros l. split; [intros H0; destruct H0|intros [c H0]; destruct H0].
  - intros l c H0. destruct H0.
  - intros l c x H0. destruct H0.
  - destruct (C root (or_introl eq_refl)) as [c Hc]. rewrite (A _ _ Hc) in Hc. auto.
Qed.

(* ---------------------------------------------------------------- the extractor succeeds *)
Section Stage.
Variable rep : nat -> nat.
Variable fpath : nat -> nat -> list nat.
Hypothesis fpath_ok : forall l t, rep l = rep t ->
  fpath l t <> [] /\ hd O (fpath l t) = l /\ last (fpath l t) O = t.

Lemma list_eqb_refl l : list_eqb l l = true.
Proof.
  unfold list_eqb. rewrite Nat.eqb_refl. simpl.
  induction l as [|x l IH]; simpl; auto. rewrite Nat.eqb_refl. exact IH.
Qed.
Lemma rkey_eqb_refl k : rkey_eqb k k = true.
Proof. unfold rkey_eqb. rewrite Nat.eqb_refl, list_eqb_refl. reflexivity. Qed.

Lemma fold_keeps_some e : forall stored acc, acc <> None ->
  fold_left (fun acc k => if rkey_eqb (eqv_key rep k) e then Some k else acc) stored acc <> None.
Proof.
  induction stored as [|a t IH]; intros acc Ha; simpl; auto.
  apply IH. destruct (rkey_eqb (eqv_key rep a) e); [discriminate|exact Ha].
Qed.

Lemma fold_finds e k : eqv_key rep k = e -> forall stored acc, In k stored ->
  fold_left (fun acc k => if rkey_eqb (eqv_key rep k) e then Some k else acc) stored acc <> None.
Proof.
  intros Hk. induction stored as [|a t IH]; intros acc Hin; [destruct Hin|].
  destruct Hin as [->|Hin]; simpl.
  - apply fold_keeps_some. rewrite Hk, rkey_eqb_refl. discriminate.
  - apply IH. exact Hin.
Qed.

Lemma rule_for_complete stored e : (exists k, In k stored /\ eqv_key rep k = e) -> rule_for rep stored e <> None.
Proof. unfold rule_for. intros [k [Hin Hk]]. eapply fold_finds; eauto. Qed.

Lemma decompositions_total stored : forall tree d e2p,
  (forall e, In e tree -> exists k, In k stored /\ eqv_key rep k = e) ->
  exists d' e2p', decompositions rep stored tree d e2p = Some (d', e2p') /\
    (forall x, In x d' -> In x d \/ exists e, In e tree /\ rule_for rep stored e = Some x).
Proof.
  induction tree as [|e t IH]; intros d e2p Ht; simpl.
  - exists d, e2p. split; auto.
  - pose proof (rule_for_complete stored e (Ht e (or_introl eq_refl))) as Hr.
    destruct (rule_for rep stored e) as [[p cs]|] eqn:Er; [|contradiction].
    destruct (IH (assign d p cs) ((fst e, p) :: e2p)) as [d' [e2p' [H1 H2]]].
    { intros x Hx. apply Ht. right. exact Hx. }
    exists d', e2p'. split; [exact H1|].
    intros x Hx. destruct (H2 x Hx) as [Hin|[e' [He' Hr']]].
    + destruct (in_assign _ _ _ _ Hin) as [->|Hin']; auto.
      right. exists e. split; [left; reflexivity|exact Er].
    + right. exists e'. split; [right; exact He'|exact Hr'].
Qed.

Lemma e2p_get_some e2p k p : In (k, p) e2p -> e2p_get e2p k <> None.
Proof.
  unfold e2p_get. induction e2p as [|a l IH]; simpl; [intros []|].
  intros [->|H]; simpl.
  - rewrite Nat.eqb_refl. simpl. discriminate.
  - destruct (Nat.eqb (fst a) k); simpl; [discriminate|auto].
Qed.

Lemma equivalences_total e2p : forall labels d,
  (forall l, In l labels -> exists p, In (rep l, p) e2p) ->
  exists d', equivalences rep fpath d e2p labels = Some d'.
Proof.
  induction labels as [|l t IH]; intros d Hl; simpl; [eauto|].
  destruct (Hl l (or_introl eq_refl)) as [p Hp]. pose proof (e2p_get_some _ _ _ Hp) as Hg.
  destruct (e2p_get e2p (rep l)) as [target|]; [|contradiction].
  apply IH. intros x Hx. apply Hl. right. exact Hx.
Qed.

Lemma in_sort_map l cs : In l cs -> In (rep l) (NatSort.sort (map rep cs)).
Proof.
  intros H. eapply Permutation_in; [apply NatSort.Permuted_sort|]. apply in_map. exact H.
Qed.

Theorem spec_from_label_map stored (d : smap) root_eq start order fuel keys :
  tree_keys d root_eq fuel = Some keys ->
  rep start = root_eq ->
  (forall e, In e keys -> exists k, In k stored /\ eqv_key rep k = e) ->
  (forall d0 e2p, decompositions rep stored keys [] [] = Some (d0, e2p) ->
     forall l, In l order <-> no_lhs d0 start l = true) ->
  exists dict, extract rep fpath stored keys start order = Some dict /\
    (forall e, In e dict -> forall c, In c (snd e) -> dom dict c = true) /\
    dom dict start = true /\
    (forall e, In e dict -> In e stored \/ exists l t p c, step_of (fpath l t) p c /\ e = (p, [c])).
Proof.
  intros Hk Hstart Hrules Horder.
  destruct (tree_keys_spec _ _ _ _ Hk) as (Kroot & _ & Kclosed).
  destruct (decompositions_total stored keys [] [] Hrules) as [d0 [e2p [Hd Hfrom]]].
  destruct (decompositions_spec rep stored keys [] [] d0 e2p Hd) as (_ & _ & He2p & _);
    [intros e []|intros q p []|].
  assert (Hlab : forall l, In l order -> exists p, In (rep l, p) e2p).
  { intros l Hl. apply (Horder d0 e2p Hd) in Hl. unfold no_lhs in Hl.
    apply orb_true_iff in Hl. destruct Hl as [Hl|Hl].
    - apply andb_true_iff in Hl. destruct Hl as [Hl _]. apply existsb_exists in Hl.
      destruct Hl as [x [Hx Ex]]. apply Nat.eqb_eq in Ex. subst x.
      unfold all_rhs in Hx. apply in_flat_map in Hx. destruct Hx as [[p cs] [Hin Hc]]. simpl in Hc.
      destruct (Hfrom _ Hin) as [[]|[e [He Hr]]].
      destruct (rule_for_spec rep _ _ _ Hr) as [_ Hkey].
      destruct e as [le ce]. unfold eqv_key in Hkey. simpl in Hkey. inversion Hkey. subst le ce.
      destruct (Kclosed _ _ (rep l) He (in_sort_map _ _ Hc)) as [c' Hc'].
      destruct (He2p _ Hc') as [p' Hp']. exists p'. exact Hp'.
    - apply andb_true_iff in Hl. destruct Hl as [Hl _]. apply Nat.eqb_eq in Hl. subst l.
      rewrite Hstart. destruct (He2p _ Kroot) as [p' Hp']. exists p'. exact Hp'. }
  destruct (equivalences_total e2p order d0 Hlab) as [dict Hdict].
  exists dict.
  assert (Hex : extract rep fpath stored keys start order = Some dict).
  { unfold extract. rewrite Hd. exact Hdict. }
  split; [exact Hex|].
  apply (extract_closed rep fpath fpath_ok stored keys start order dict Hex).
  intros d0' e2p' Hd' l Hl. rewrite Hd in Hd'. inversion Hd'; subst. apply (Horder _ _ Hd). exact Hl.
Qed.

End Stage.
