(* The fuel run_c13 (Parallel/Run.v) gives to the finder model is computed FROM THE TWO UNIVERSES, at least
   the bound of the termination theorems, so that "out of fuel" (status 2) is excluded by theorem on every
   compared run and not only per instance.

   The bound of ewalk_terminates (EqTerm.v) is over all_edges = all_pairs x (1 + all_pairs): quadratic in
   the number of pairs, not computable as a unary number for real universes.  Here the second walk of the
   EqPath variant is shown to terminate within a bound LINEAR in the number of pairs: the edges it can meet
   are the root edge and, for every pair q, the at most max_arity pairs of children the two (fixed) label
   maps and the (fixed) matching_info give q. *)
From Coq Require Import ZArith List Bool Lia.
From CSS Require Import Base.PyList Parallel.Model Parallel.Basics Parallel.First Parallel.Second
  Parallel.Matched Parallel.Fixed Parallel.Term Parallel.Term2 Parallel.Term3 Parallel.EqSecond Parallel.EqTerm.
Import ListNotations.
Open Scope Z_scope.
Local Arguments Nat.eqb : simpl never.

(* ---------------------------------------------------------------- the fuel of run_c13 *)
Definition npairs (s1 s2 : side) : nat := (length (labels s1) * length (labels s2))%nat.
(* Arithmetic on the extracted unary numbers: Nat.add / Nat.mul recurse (not in tail position) on their FIRST
   argument, to a depth equal to its value.  The bounds below reach millions, so they are computed with
   accumulator (tail-recursive) versions; add_tr_spec / mul_acc_spec say these are the usual operations. *)
Fixpoint add_tr (n m : nat) : nat := match n with O => m | S p => add_tr p (S m) end.
Fixpoint mul_acc (k x acc : nat) : nat := match k with O => acc | S k' => mul_acc k' x (add_tr x acc) end.

Lemma add_tr_spec n : forall m, add_tr n m = (n + m)%nat.
Proof. induction n as [|n IH]; intros m; simpl; [reflexivity|]. rewrite IH. lia. Qed.
Lemma mul_acc_spec k x : forall acc, mul_acc k x acc = (k * x + acc)%nat.
Proof. induction k as [|k IH]; intros acc; simpl; [reflexivity|]. rewrite IH, add_tr_spec. lia. Qed.

Definition run_fuel (s1 s2 : side) : nat := S (add_tr (npairs s1 s2) (npairs s1 s2)).
Definition run_wfuel (s1 s2 : side) : nat :=
  let np := npairs s1 s2 in
  let k := max_arity s2 in
  let a := mul_acc (S k) np O in                 (* np * S k : the bound of the first walk *)
  let b := S (mul_acc k np O) in                 (* S (np * k) : the edges the second walk can meet *)
  S (S (add_tr a (mul_acc (S k) b O))).

Lemma run_fuel_spec s1 s2 : run_fuel s1 s2 = S (2 * npairs s1 s2).
Proof. unfold run_fuel. rewrite add_tr_spec. lia. Qed.
Lemma run_wfuel_spec s1 s2 :
  run_wfuel s1 s2 =
  (2 + npairs s1 s2 * S (max_arity s2) + S (npairs s1 s2 * max_arity s2) * S (max_arity s2))%nat.
Proof.
  unfold run_wfuel. cbv zeta. rewrite !mul_acc_spec, add_tr_spec, !Nat.add_0_r.
  rewrite (Nat.mul_comm (npairs s1 s2) (S (max_arity s2))), (Nat.mul_comm (npairs s1 s2) (max_arity s2)),
          (Nat.mul_comm (S (max_arity s2 * npairs s1 s2)) (S (max_arity s2))).
  lia.
Qed.

Lemma npairs_length s1 s2 : length (all_pairs s1 s2) = npairs s1 s2.
Proof. unfold all_pairs, npairs. apply prod_length. Qed.

Section Tight.
Variables s1 s2 : side.
Variable m : minfo.
Hypothesis Hm : mi_sound s1 s2 m.
Variables d1 d2 : smap.

Notation P := (all_pairs s1 s2).
Notation K := (max_arity s2).

(* the pairs of children the walk pushes below the pair q *)
Definition kids (q : lpair) : list lpair :=
  match sm_get d1 (fst q), sm_get d2 (snd q) with
  | Some c1, Some c2 =>
    match inner_get (match mi_get m q with Some d => d | None => [] end) (c1, c2) with
    | Some o => match child_pairs c1 c2 o with Some ps => ps | None => [] end
    | None => []
    end
  | _, _ => []
  end.

Definition walk_edges (r : lpair) : list edge :=
  (r, (0%nat, 0%nat)) :: flat_map (fun q => map (fun p => (p, shift q)) (kids q)) P.

Lemma kids_spec a b : forall p, In p (kids (a, b)) ->
  exists c1 c2 d o ps, sm_get d1 a = Some c1 /\ sm_get d2 b = Some c2 /\ mi_get m (a, b) = Some d /\
    inner_get d (c1, c2) = Some o /\ child_pairs c1 c2 o = Some ps /\ In p ps.
Proof.
  intros p. unfold kids. simpl.
  destruct (sm_get d1 a) as [c1|]; [|intros []].
  destruct (sm_get d2 b) as [c2|]; [|intros []].
  destruct (mi_get m (a, b)) as [d|]; [|simpl; intros []].
  destruct (inner_get d (c1, c2)) as [o|] eqn:I; [|intros []].
  destruct (child_pairs c1 c2 o) as [ps|] eqn:E; [|intros []].
  intros Hp. exists c1, c2, d, o, ps. repeat split; auto.
Qed.

Lemma kids_in_P q : forall p, In p (kids q) -> In p P.
Proof.
  destruct q as [a b]. intros p Hp. destruct (kids_spec a b p Hp) as [c1 [c2 [d [o [ps [_ [_ [G [I [E Hin]]]]]]]]]].
  eapply (recorded_children_in_P s1 s2 m Hm a b d (c1, c2) o ps); eauto. apply inner_get_In. exact I.
Qed.

Lemma kids_length q : (length (kids q) <= K)%nat.
Proof.
  destruct q as [a b]. unfold kids. simpl.
  destruct (sm_get d1 a) as [c1|]; [|simpl; lia].
  destruct (sm_get d2 b) as [c2|]; [|simpl; lia].
  destruct (mi_get m (a, b)) as [d|] eqn:G; [|simpl; lia].
  destruct (inner_get d (c1, c2)) as [o|] eqn:I; [|simpl; lia].
  destruct (child_pairs c1 c2 o) as [ps|] eqn:Ecp; [|simpl; lia].
  destruct (Hm _ _ _ _ _ G (inner_get_In _ _ _ I)) as [[E [Eo _]]|[Hpc _]].
  - inversion E; subst. simpl in Ecp. inversion Ecp; simpl; lia.
  - destruct (potential_children_spec _ _ _ _ _ Hpc) as [k1 [k2 [_ [R2 _]]]]. simpl in R2.
    pose proof (child_pairs_length _ _ _ _ Ecp). pose proof (rules_of_arity _ _ _ _ R2). lia.
Qed.

Lemma flat_map_length_le {A B} (f : A -> list B) k l :
  (forall x, length (f x) <= k)%nat -> (length (flat_map f l) <= length l * k)%nat.
Proof.
  intros H. induction l as [|x l IH]; simpl; [lia|]. rewrite app_length. specialize (H x). lia.
Qed.

Lemma walk_edges_length r : (length (walk_edges r) <= S (length P * K))%nat.
Proof.
  unfold walk_edges. change (length (?x :: ?l)) with (S (length l)). cbn [length]. apply le_n_S. apply flat_map_length_le.
  intros q. rewrite map_length. apply kids_length.
Qed.

Lemma walk_edges_pair r : In r P -> forall e, In e (walk_edges r) -> In (fst e) P.
Proof.
  intros Hr e [<-|He]; [exact Hr|].
  apply in_flat_map in He. destruct He as [q [Hq He]]. apply in_map_iff in He. destruct He as [p [<- Hp]].
  simpl. eapply kids_in_P; eauto.
Qed.

Lemma ewalk_terminates_tight r : In r P -> forall fuel stack seen st,
  e_sp1 st = d1 -> e_sp2 st = d2 -> oracle_total (e_oracle st) ->
  incl stack (walk_edges r) -> incl seen (walk_edges r) -> NoDup seen ->
  ((length (walk_edges r) - length seen) * S K + length stack < fuel)%nat ->
  ewalk m fuel stack seen st <> OutOfFuel.
Proof.
  intros Hr.
  induction fuel as [|f IH]; intros stack seen st H1 H2 Hot Hst Hse Hnd Hf; [exfalso; apply (Nat.nlt_0_r _ Hf)|].
  simpl. destruct stack as [|[[a b] rel] rest]; [discriminate|].
  assert (Hrest : incl rest (walk_edges r)) by (intros p Hp; apply Hst; right; exact Hp).
  destruct (mem_edge (a, b, rel) seen) eqn:Emem.
  - apply IH; auto. change (length ((a, b, rel) :: rest)) with (S (length rest)) in Hf. lia.
  - apply mem_edge_false in Emem.
    assert (Hin : In (a, b, rel) (walk_edges r)) by (apply Hst; left; reflexivity).
    assert (Hlt : (length seen < length (walk_edges r))%nat).
    { destruct (Nat.lt_ge_cases (length seen) (length (walk_edges r))) as [?|Hge]; [assumption|].
      exfalso. apply Emem. apply (NoDup_length_incl Hnd Hge Hse). exact Hin. }
    assert (Hse' : incl ((a, b, rel) :: seen) (walk_edges r)) by (intros p [<-|Hp]; auto).
    assert (Hnd' : NoDup ((a, b, rel) :: seen)) by (constructor; auto).
    change (length ((a, b, rel) :: rest)) with (S (length rest)) in Hf.
    assert (Hskip : ewalk m f rest ((a, b, rel) :: seen) st <> OutOfFuel).
    { apply IH; auto. change (length ((a, b, rel) :: seen)) with (S (length seen)).
      remember (length (walk_edges r)) as np. remember (length seen) as ns.
      replace (np - ns)%nat with (S (np - S ns))%nat in Hf by lia. simpl in Hf. lia. }
    rewrite H1, H2.
    destruct (sm_get d1 a) as [c1|] eqn:G1; [|discriminate].
    destruct (sm_get d2 b) as [c2|] eqn:G2; [|discriminate].
    assert (Hmain :
      match eq_path_matches a b rel st with
      | Ok (true, st') =>
        match inner_get (match mi_get m (a, b) with Some d => d | None => [] end) (c1, c2) with
        | None => Ok (false, st')
        | Some order =>
          match child_pairs c1 c2 order with
          | None => Err E_INDEX
          | Some ps => ewalk m f (rev (map (fun p => (p, (S a, S b))) ps) ++ rest) ((a, b, rel) :: seen) st'
          end
        end
      | Ok (false, st') => Ok (false, st')
      | OutOfFuel => OutOfFuel
      | Err e => Err e
      end <> OutOfFuel).
    { assert (M1 : sm_mem (e_sp1 st) a = true) by (rewrite H1; eapply sm_get_mem; eauto).
      assert (M2 : sm_mem (e_sp2 st) b = true) by (rewrite H2; eapply sm_get_mem; eauto).
      destruct (eq_path_ok a b rel st M1 M2 Hot) as [v [st1 [Eq [E1 [E2 [_ E4]]]]]].
      rewrite Eq. destruct v; [|discriminate].
      pose proof (kids_length (a, b)) as Hlen.
      assert (Hkids : forall ps, kids (a, b) = ps -> forall p, In p ps -> In (p, (S a, S b)) (walk_edges r)).
      { intros ps Hps p Hp. right. apply in_flat_map. exists (a, b). split.
        - apply (walk_edges_pair r Hr _ Hin).
        - apply in_map_iff. exists p. rewrite Hps. auto. }
      unfold kids in Hlen, Hkids. simpl in Hlen, Hkids. rewrite G1, G2 in Hlen, Hkids.
      destruct (inner_get (match mi_get m (a, b) with Some d => d | None => [] end) (c1, c2)) as [o|] eqn:I; [|discriminate].
      destruct (child_pairs c1 c2 o) as [ps|] eqn:Ecp; [|discriminate].
      specialize (Hkids ps eq_refl).
      apply IH; auto; try congruence.
      - intros p Hp. apply in_app_or in Hp. destruct Hp as [Hp|Hp]; [|auto].
        apply in_rev in Hp. apply in_map_iff in Hp. destruct Hp as [q [<- Hq]]. apply Hkids. exact Hq.
      - rewrite app_length, rev_length, map_length. change (length ((a, b, rel) :: seen)) with (S (length seen)).
        remember (length (walk_edges r)) as np. remember (length seen) as ns. remember (max_arity s2) as k.
        replace (np - ns)%nat with (S (np - S ns))%nat in Hf by lia. simpl in Hf.
        remember ((np - S ns) * S k)%nat as X. clear - Hf Hlen. unfold edge, lpair in *. lia. }
    destruct c1, c2; try exact Hmain. exact Hskip.
Qed.

End Tight.

(* ---------------------------------------------------------------- totality with the tight bound *)
Theorem find_eq_total_tight s1 s2 pw fuel wfuel oracle woracle :
  oracle_total oracle -> oracle_total woracle ->
  (2 * length (all_pairs s1 s2) < fuel)%nat ->
  (length (all_pairs s1 s2) * S (max_arity s2) + 1 < wfuel)%nat ->
  (S (length (all_pairs s1 s2) * max_arity s2) * S (max_arity s2) + 1 < wfuel)%nat ->
  exists asked, find_eq s1 s2 pw fuel wfuel oracle woracle = EOut Nothing asked \/
                exists d1 d2, find_eq s1 s2 pw fuel wfuel oracle woracle = EOut (Found d1 d2) asked.
Proof.
  intros Hot Hwot Hf Hw Hw2.
  unfold find_eq.
  pose proof (first_search_never_raises s1 s2 fuel) as Hne.
  pose proof (first_search_sound s1 s2 fuel) as Hs.
  assert (Hft : find s1 s2 fuel (s_root s1) (s_root s2) init_fstate <> OutOfFuel) by (apply first_search_terminates; lia).
  destruct (find s1 s2 fuel (s_root s1) (s_root s2) init_fstate) as [[[|] st]| |e'] eqn:E; try contradiction.
  - assert (Hmi : mi_sound s1 s2 (f_mi st)) by (eapply Hs; eauto).
    assert (Hstage1 : exists o1 asked1, search_eq s1 s2 true (f_mi st) fuel oracle = EOut o1 asked1 /\
              (checked s1 s2 (f_mi st) wfuel o1 = Nothing \/ exists d1 d2, checked s1 s2 (f_mi st) wfuel o1 = Found d1 d2)).
    { unfold search_eq.
      assert (Hpre : epre s1 s2 (mkE [] [] [] oracle [] [])).
      { split; [split; apply sm_all_nil|]. split; [intros p []|exact Hot]. }
      destruct (erec_ok s1 s2 (f_mi st) Hmi fuel (0%nat, 0%nat) (s_root s1) (s_root s2) _ Hpre) as [Hn _].
      assert (Hterm : erec true (f_mi st) fuel (0%nat, 0%nat) (s_root s1) (s_root s2) (mkE [] [] [] oracle [] []) <> OutOfFuel).
      { apply (erec_terminates s1 s2 (f_mi st) Hmi); auto.
        - apply in_prod; left; reflexivity.
        - constructor.
        - intros p [].
        - change (length (e_panc (mkE [] [] [] oracle [] []))) with O. lia. }
      destruct (erec true (f_mi st) fuel (0%nat, 0%nat) (s_root s1) (s_root s2) (mkE [] [] [] oracle [] []))
        as [[[[[|] st2] x] y]| |e2] eqn:Er; try contradiction.
      + eexists _, _. split; [reflexivity|]. simpl.
        pose proof (walk_never_raises s1 s2 (f_mi st) (e_sp1 st2) (e_sp2 st2) Hmi wfuel [(s_root s1, s_root s2)] []) as Hwn.
        pose proof (walk_terminates s1 s2 (f_mi st) Hmi (e_sp1 st2) (e_sp2 st2) wfuel [(s_root s1, s_root s2)] []) as Hwt.
        destruct (walk (f_mi st) (e_sp1 st2) (e_sp2 st2) wfuel [(s_root s1, s_root s2)] []) as [[[|] seen]| |c]; eauto.
        * exfalso. apply Hwt; try reflexivity.
          -- intros p [<-|[]]. apply in_prod; left; reflexivity.
          -- intros p [].
          -- constructor.
          -- change (length (@nil lpair)) with O. change (length [(s_root s1, s_root s2)]) with 1%nat. nia.
        * exfalso. eapply Hwn; eauto.
      + eexists _, _. split; [reflexivity|]. left. reflexivity.
      + exfalso. eapply Hn; eauto. }
    destruct Hstage1 as [o1 [asked1 [Es Hc]]]. rewrite Es.
    destruct pw.
    + destruct Hc as [Hc|[d1 [d2 Hc]]]; rewrite Hc; simpl.
      * eexists. left. reflexivity.
      * assert (Hr : In (s_root s1, s_root s2) (all_pairs s1 s2)) by (apply in_prod; left; reflexivity).
        pose proof (ewalk_never_raises s1 s2 (f_mi st) Hmi wfuel [(s_root s1, s_root s2, (0%nat, 0%nat))] [] (mkE d1 d2 [] woracle [] [])) as Hwn.
        pose proof (ewalk_terminates_tight s1 s2 (f_mi st) Hmi d1 d2 (s_root s1, s_root s2) Hr wfuel
                      [(s_root s1, s_root s2, (0%nat, 0%nat))] [] (mkE d1 d2 [] woracle [] [])) as Hwt.
        pose proof (walk_edges_length s1 s2 (f_mi st) Hmi d1 d2 (s_root s1, s_root s2)) as Hlen.
        destruct (ewalk (f_mi st) wfuel [(s_root s1, s_root s2, (0%nat, 0%nat))] [] (mkE d1 d2 [] woracle [] [])) as [[[|] st3]| |c].
        -- eexists. right. eauto.
        -- eexists. left. reflexivity.
        -- exfalso. apply Hwt; try reflexivity; auto.
           ++ intros p [<-|[]]. left. reflexivity.
           ++ intros p [].
           ++ constructor.
           ++ change (length (@nil edge)) with O. change (length [(s_root s1, s_root s2, (0%nat, 0%nat))]) with 1%nat.
              rewrite Nat.sub_0_r.
              remember (length (walk_edges s1 s2 (f_mi st) d1 d2 (s_root s1, s_root s2))) as L.
              remember (length (all_pairs s1 s2) * max_arity s2)%nat as B.
              assert (L * S (max_arity s2) <= S B * S (max_arity s2))%nat by (apply Nat.mul_le_mono_r; exact Hlen).
              lia.
        -- exfalso. eapply Hwn; eauto.
    + destruct Hc as [Hc|[d1 [d2 Hc]]]; rewrite Hc; eexists; eauto.
  - eexists. left. reflexivity.
  - exfalso. eapply Hne; eauto.
Qed.

(* ---------------------------------------------------------------- the fuel of run_c13 suffices *)
Lemma run_fuel_ok s1 s2 fuel : (run_fuel s1 s2 <= fuel)%nat -> (2 * length (all_pairs s1 s2) < fuel)%nat.
Proof. rewrite npairs_length, run_fuel_spec. lia. Qed.

Lemma run_wfuel_ok s1 s2 wfuel : (run_wfuel s1 s2 <= wfuel)%nat ->
  (length (all_pairs s1 s2) * S (max_arity s2) + 1 < wfuel)%nat /\
  (S (length (all_pairs s1 s2) * max_arity s2) * S (max_arity s2) + 1 < wfuel)%nat.
Proof. rewrite npairs_length, run_wfuel_spec. lia. Qed.

Theorem harness_base_never_out_of_fuel s1 s2 fuel wfuel :
  (run_fuel s1 s2 <= fuel)%nat -> (run_wfuel s1 s2 <= wfuel)%nat ->
  find_base s1 s2 fuel wfuel <> NoFuel.
Proof.
  intros Hf Hw. pose proof (run_fuel_ok _ _ _ Hf). destruct (run_wfuel_ok _ _ _ Hw) as [Hw1 _].
  destruct (find_base_total s1 s2 fuel wfuel) as [E|[d1 [d2 E]]]; try lia; rewrite E; discriminate.
Qed.

Theorem harness_eq_never_out_of_fuel s1 s2 pw fuel wfuel oracle woracle asked :
  oracle_total oracle -> oracle_total woracle ->
  (run_fuel s1 s2 <= fuel)%nat -> (run_wfuel s1 s2 <= wfuel)%nat ->
  find_eq s1 s2 pw fuel wfuel oracle woracle <> EOut NoFuel asked.
Proof.
  intros Ho Hwo Hf Hw. pose proof (run_fuel_ok _ _ _ Hf). destruct (run_wfuel_ok _ _ _ Hw) as [Hw1 Hw2].
  destruct (find_eq_total_tight s1 s2 pw fuel wfuel oracle woracle Ho Hwo) as [a [E|[d1 [d2 E]]]]; try lia;
    rewrite E; discriminate.
Qed.

(* the fuel the harness sends is kept as a lower bound only *)
Definition harness_fuel (sent : nat) (s1 s2 : side) : nat := Nat.max sent (run_fuel s1 s2).

(* ---------------------------------------------------------------- _create_tree / rule_keys: the fuel of enc_outcome suffices *)
Definition size_of (d : smap) : nat := S (length d + fold_right (fun e a => (length (snd e) + a)%nat) O d).

(* children still to be enqueued: the entries of labels not yet visited *)
Fixpoint pending (d : smap) (visited : list nat) : nat :=
  match d with
  | [] => O
  | (k, c) :: t => ((if mem_nat k visited then O else length c) + pending t visited)%nat
  end.

Lemma pending_visit d v visited :
  (pending d (v :: visited) + length (sm_getd d v) <= pending d visited + (if mem_nat v visited then length (sm_getd d v) else O))%nat.
Proof.
  induction d as [|[k c] t IH]; simpl; [destruct (mem_nat v visited); simpl; lia|].
  unfold sm_getd, sm_get in *. simpl.
  destruct (Nat.eqb k v) eqn:E.
  - apply Nat.eqb_eq in E. subst k. simpl.
    assert (Hle : (pending t (v :: visited) <= pending t visited)%nat).
    { clear. induction t as [|[k c] t IH]; simpl; [lia|].
      destruct (Nat.eqb k v); simpl; [lia|]. destruct (mem_nat k visited); lia. }
    destruct (mem_nat v visited); simpl; lia.
  - simpl. destruct (mem_nat k visited); simpl; lia.
Qed.

Lemma bfs_total d : forall fuel queue visited acc,
  (length queue + pending d visited < fuel)%nat -> bfs d fuel queue visited acc <> None.
Proof.
  induction fuel as [|f IH]; intros queue visited acc H; [lia|]. simpl.
  destruct queue as [|v q]; [discriminate|]. simpl in H.
  destruct (mem_nat v visited) eqn:E.
  - apply IH. lia.
  - apply IH. rewrite app_length. pose proof (pending_visit d v visited) as Hp. rewrite E in Hp. lia.
Qed.

Lemma pending_le_size d visited : (pending d visited < size_of d)%nat.
Proof.
  unfold size_of. induction d as [|[k c] t IH]; simpl; [lia|]. destruct (mem_nat k visited); simpl; lia.
Qed.

Theorem tree_keys_total d root : tree_keys d root (S (size_of d)) <> None.
Proof.
  unfold tree_keys. apply bfs_total. pose proof (pending_le_size d []). simpl. lia.
Qed.

(* ---------------------------------------------------------------- what run_c13 runs is never out of fuel *)
Theorem harness_never_out_of_fuel s1 s2 sent :
  find_base s1 s2 (harness_fuel sent s1 s2) (run_wfuel s1 s2) <> NoFuel /\
  (forall pw oracle woracle asked, oracle_total oracle -> oracle_total woracle ->
     find_eq s1 s2 pw (harness_fuel sent s1 s2) (run_wfuel s1 s2) oracle woracle <> EOut NoFuel asked) /\
  (forall d root, tree_keys d root (S (size_of d)) <> None).
Proof.
  assert (Hf : (run_fuel s1 s2 <= harness_fuel sent s1 s2)%nat) by (unfold harness_fuel; apply Nat.le_max_r).
  split; [|split].
  - apply harness_base_never_out_of_fuel; auto.
  - intros. apply harness_eq_never_out_of_fuel; auto.
  - intros. apply tree_keys_total.
Qed.
