(* The universe ParallelInfo builds satisfies what the other theorems assume about a universe:
   every candidate rule of a label, and every atom, is a stored rule of the database up to equivalence,
   and the root is the representative of the start label. *)
From Coq Require Import ZArith List Bool Lia.
From CSS Require Import Spec.Extractor Spec.ExtractorProofs
  Parallel.Model Parallel.Basics Parallel.InfoModel Parallel.SpecStage Parallel.EndToEnd.
Import ListNotations.
Open Scope Z_scope.
Local Arguments Nat.eqb : simpl never.

Lemma rkey_eqb_true a b : rkey_eqb a b = true -> a = b.
Proof. apply rkey_eqb_eq. Qed.

Lemma kind_of_in st key : In key (map fst st) -> In (key, kind_of st key) st.
Proof.
  induction st as [|[k z] t IH]; simpl; [intros []|].
  destruct (rkey_eqb k key) eqn:E.
  - apply rkey_eqb_true in E. subst. auto.
  - intros [H|H]; [simpl in H; subst; rewrite rkey_eqb_refl in E; discriminate|auto].
Qed.

Lemma atoms_set_In m k v l a : In (l, a) (atoms_set m k v) -> (l = k /\ a = v) \/ In (l, a) m.
Proof.
  induction m as [|[k' v'] t IH]; simpl.
  - intros [H|[]]. inversion H. auto.
  - destruct (Nat.eqb k' k); simpl; intros [H|H]; auto; try (inversion H; auto).
    destruct (IH H); auto.
Qed.
Lemma rules_add_In m k r l rs x : In (l, rs) (rules_add m k r) -> In x rs ->
  (l = k /\ x = r) \/ exists rs', In (l, rs') m /\ In x rs'.
Proof.
  induction m as [|[k' rs0] t IH]; simpl.
  - intros [H|[]] Hx. inversion H; subst. destruct Hx as [<-|[]]. auto.
  - destruct (Nat.eqb k' k) eqn:E; simpl.
    + intros [H|H] Hx.
      * inversion H; subst. apply Nat.eqb_eq in E. subst. apply in_app_or in Hx.
        destruct Hx as [Hx|[<-|[]]]; [right; exists rs0; auto|auto].
      * right. exists rs. auto.
    + intros [H|H] Hx.
      * inversion H; subst. right. exists rs. auto.
      * destruct (IH H Hx) as [?|[rs' [A B]]]; auto. right. exists rs'. auto.
Qed.

Lemma group_by_len_In rs x : In x (group_by_len rs) -> In x rs.
Proof.
  unfold group_by_len. intros H. apply in_flat_map in H. destruct H as [n [_ H]].
  apply filter_In in H. tauto.
Qed.

Section Info.
Variable db : rdb.
(* verification rules have no children (atoms are verified by AtomStrategy) *)
Hypothesis ver_no_children : forall key z, In (key, z) (db_stored db) -> z < 0 -> snd key = [].

Notation rep := (db_rep db).

Definition atoms_ok (atoms : list (nat * Z)) : Prop :=
  forall l a, In (l, a) atoms -> exists key, In key (db_keys db) /\ eqv_key rep key = (l, []).
Definition rules_ok (rules : list (nat * list (clist * Z))) : Prop :=
  forall l rs c k, In (l, rs) rules -> In (c, k) rs -> exists key, In key (db_keys db) /\ eqv_key rep key = (l, c).

Lemma build_universe : forall lis atoms rules s,
  build db lis atoms rules = COk s -> atoms_ok atoms -> rules_ok rules ->
  universe_of rep s (db_keys db) /\ s_root s = rep (db_start db).
Proof.
  induction lis as [|e rest IH]; intros atoms rules s H Ha Hr.
  - simpl in H. inversion H; subst. clear H. split; [|reflexivity]. split.
    + intros l c k Hin. unfold rules_of in Hin. simpl in Hin.
      destruct (assoc_nat (map (fun e => (fst e, group_by_len (snd e))) rules) l) as [rs|] eqn:E; [|destruct Hin].
      apply assoc_nat_In in E. apply in_map_iff in E. destruct E as [[l' rs'] [E1 E2]]. simpl in E1. inversion E1; subst.
      eapply Hr; eauto. apply group_by_len_In. exact Hin.
    + intros l Hat. unfold atom_of in Hat. simpl in Hat.
      destruct (assoc_nat atoms l) as [a|] eqn:E; [|congruence].
      apply assoc_nat_In in E. eapply Ha; eauto.
  - simpl in H.
    destruct (rule_for rep (db_keys db) e) as [key|] eqn:Er; [|discriminate].
    destruct (rule_for_spec rep _ _ _ Er) as [Hin Hk].
    destruct (db_empty db (fst key)); [eapply IH; eauto|].
    destruct e as [p c]. simpl in H.
    assert (Hadd : forall k, rules_ok (rules_add rules p (c, k))).
    { intros k l rs c' k' Hl Hc'. destruct (rules_add_In _ _ _ _ _ _ Hl Hc') as [[-> E]|[rs' [A B]]].
      - inversion E; subst. exists key. auto.
      - eapply Hr; eauto. }
    destruct (db_atom db (fst key)) as [a|].
    + destruct (0 <=? kind_of (db_stored db) key) eqn:Ek; [discriminate|].
      eapply IH; [exact H| |apply Hadd].
      intros l a' Hl. destruct (atoms_set_In _ _ _ _ _ Hl) as [[-> ->]|Hl']; [|eapply Ha; eauto].
      exists key. split; [exact Hin|].
      pose proof (kind_of_in _ _ Hin) as Hst. apply Z.leb_gt in Ek.
      pose proof (ver_no_children _ _ Hst Ek) as Hnc.
      unfold eqv_key in Hk. rewrite Hnc in Hk. simpl in Hk. inversion Hk; subst.
      unfold eqv_key. rewrite Hnc. reflexivity.
    + destruct (kind_of (db_stored db) key <? 0); [discriminate|].
      destruct c as [|c0 c']; [discriminate|]. eapply IH; [exact H|exact Ha|apply Hadd].
Qed.

Theorem construct_universe lis s : construct db lis = COk s ->
  universe_of rep s (db_keys db) /\ s_root s = rep (db_start db).
Proof.
  intros H. eapply build_universe; eauto.
  - intros l a [].
  - intros l rs c k [].
Qed.

End Info.
