(* What the w fields of run_c13's output (Parallel/Run.v) mean for its c fields: when the run prints
   w = 1 or 3 for a side (db_wfb = true on the replayed rule database), the theorem construct_total applies to
   that very evaluation, so the c field of that side is 0, 5 (universe built) or 7 (the documented refusal),
   never 11 / 13 / 14; when it prints 3 (only_atoms_verified_b too), the universe was built. *)
From Coq Require Import ZArith List Bool Lia.
From CSS Require Import Base.Sx Spec.Extractor Parallel.Model Parallel.InfoModel Parallel.InfoTotal Parallel.Run.
Import ListNotations.
Open Scope Z_scope.

Lemma wf_code_cases db lis :
  (wf_code db lis = 1 \/ wf_code db lis = 3 -> db_wfb db lis = true) /\
  (wf_code db lis = 3 -> only_atoms_verified_b db lis = true).
Proof.
  unfold wf_code. destruct (db_wfb db lis), (only_atoms_verified_b db lis); simpl; split; intros; auto; lia.
Qed.

Theorem universe_arg_covered a c u e w :
  universe_arg a = (c, u, e, w) ->
  (w = 1 \/ w = 3 -> c = 0 \/ c = 5 \/ c = 7) /\ (w = 3 -> (c = 0 \/ c = 5) /\ u <> None).
Proof.
  unfold universe_arg. destruct (sx_Z (sx_nth a 0) =? 0).
  - intros H. inversion H; subst. split; intros; lia.
  - set (db := dec_db (sx_nth a 1)). set (lis := map dec_rkey (sx_list (sx_nth a 2))).
    destruct (wf_code_cases db lis) as [W1 W3].
    destruct (construct db lis) as [s| |k] eqn:Ec; intros H; inversion H; subst; clear H.
    + split; intros _; [|split; [|discriminate]]; destruct (lis_agrees db lis); auto.
    + split; [auto|]. intros Hw. exfalso.
      destruct (construct_ok_decided db lis (W1 (or_intror Hw)) (W3 Hw)) as [s Hs]. congruence.
    + split; intros Hw; exfalso.
      * exact (construct_total_decided db lis (W1 Hw) k Ec).
      * exact (construct_total_decided db lis (W1 (or_intror Hw)) k Ec).
Qed.
