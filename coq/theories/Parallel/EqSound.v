(* Soundness of the second walk of EqPathParallelSpecFinder._maps_are_matched (fix 8a96a0c), the content
   of that fix as a theorem: when find() of the EqPath variant (pw = true, the code as it is) returns two
   label maps, EVERY (parent pair -> child pair) edge of the two maps that is reachable from the pair of
   roots along the recorded child orders was compared by _eq_path_matches in the final walk (fresh cache,
   final label maps) and the answer was True.  For pw = false (the code before 8a96a0c) nothing of the
   kind holds: find_eq_matched is all there is (that is the finding 8a96a0c repaired). *)
From Coq Require Import ZArith List Bool Lia.
From CSS Require Import Base.PyList Parallel.Model Parallel.Basics Parallel.First Parallel.Second
  Parallel.Matched Parallel.Fixed.
Import ListNotations.
Open Scope Z_scope.
Local Arguments Nat.eqb : simpl never.

Lemma edge_eqb_eq' (a b : edge) : edge_eqb a b = true <-> a = b.
Proof.
  destruct a as [a1 a2], b as [b1 b2]. unfold edge_eqb. simpl. rewrite andb_true_iff, !pair_eqb_eq.
  split; [intros [-> ->]; reflexivity|intros H; inversion H; auto].
Qed.
Lemma mem_edge_In' (x : edge) l : mem_edge x l = true <-> In x l.
Proof.
  unfold mem_edge. rewrite existsb_exists. split.
  - intros [y [H1 H2]]. apply edge_eqb_eq' in H2. subst. exact H1.
  - intros H. exists x. split; auto. apply edge_eqb_eq'. reflexivity.
Qed.

Lemma qkey_eqb_eq (a b : qkey) : qkey_eqb a b = true <-> a = b.
Proof.
  destruct a as [[a1 a2] a3], b as [[b1 b2] b3]. unfold qkey_eqb. simpl.
  rewrite !andb_true_iff, !pair_eqb_eq, cand_eqb_eq.
  split; [intros [[-> ->] ->]; reflexivity|intros H; inversion H; auto].
Qed.

Lemma cache_get_cons c k v k' :
  cache_get ((k, v) :: c) k' = if qkey_eqb k k' then Some v else cache_get c k'.
Proof. reflexivity. Qed.

Section EqSound.
Variable m : minfo.
Variables d1 d2 : smap.
Variable wo : qkey -> option bool.          (* the answers of _eq_path_matches in the final walk *)

(* the rules the two maps assign to the pair of an edge, and what the walk requires of them *)
Definition edge_passed (e : edge) : Prop :=
  exists c1 c2, sm_get d1 (fst (fst e)) = Some c1 /\ sm_get d2 (snd (fst e)) = Some c2 /\
    ( (c1 = [] /\ c2 = [])
      \/ (wo (fst e, snd e, (c1, c2)) = Some true /\
          exists d o ps, mi_get m (fst e) = Some d /\ inner_get d (c1, c2) = Some o /\
                         child_pairs c1 c2 o = Some ps) ).

(* e' is a (parent pair -> child pair) edge below e: its pair is one of the pairs
   zip((children1[i] for i in order), children2) of the rules assigned to the pair of e, its parent pair is
   the pair of e (stored shifted by one, as everywhere in the model) *)
Definition esucc (e e' : edge) : Prop :=
  exists c1 c2 d o ps, sm_get d1 (fst (fst e)) = Some c1 /\ sm_get d2 (snd (fst e)) = Some c2 /\
    (c1, c2) <> ([], []) /\
    mi_get m (fst e) = Some d /\ inner_get d (c1, c2) = Some o /\ child_pairs c1 c2 o = Some ps /\
    In (fst e') ps /\ snd e' = (S (fst (fst e)), S (snd (fst e))).

Inductive edge_reach (r : lpair) : edge -> Prop :=
| er_root : edge_reach r (r, (0%nat, 0%nat))
| er_step e e' : edge_reach r e -> esucc e e' -> edge_reach r e'.

Definition cache_ok (st : estate) : Prop :=
  forall k v, cache_get (e_cache st) k = Some v -> wo k = Some v.
Definition st_ok (st : estate) : Prop :=
  e_sp1 st = d1 /\ e_sp2 st = d2 /\ e_oracle st = wo /\ cache_ok st.

Lemma eq_path_sound a b rel st v st1 :
  st_ok st -> eq_path_matches a b rel st = Ok (v, st1) ->
  st_ok st1 /\ exists c1 c2, sm_get d1 a = Some c1 /\ sm_get d2 b = Some c2 /\ wo ((a, b), rel, (c1, c2)) = Some v.
Proof.
  intros [E1 [E2 [E3 Hc]]] H. unfold eq_path_matches in H. rewrite E1, E2 in H.
  destruct (sm_get d1 a) as [c1|]; [|discriminate].
  destruct (sm_get d2 b) as [c2|]; [|discriminate].
  destruct (cache_get (e_cache st) (a, b, rel, (c1, c2))) as [v'|] eqn:G.
  - inversion H; subst. split; [repeat split; auto|]. exists c1, c2. repeat split; auto.
  - rewrite E3 in H. destruct (wo (a, b, rel, (c1, c2))) as [v'|] eqn:W; [|discriminate].
    inversion H; subst. split.
    + repeat split; auto. intros k v0. cbn [e_cache]. rewrite cache_get_cons.
      destruct (qkey_eqb (a, b, rel, (c1, c2)) k) eqn:Ek.
      * apply qkey_eqb_eq in Ek. subst k. intros Hv. inversion Hv; subst. exact W.
      * apply Hc.
    + exists c1, c2. repeat split; auto.
Qed.

Definition winv (seen stack : list edge) : Prop :=
  forall e, In e seen -> edge_passed e /\ forall e', esucc e e' -> In e' (seen ++ stack).

Lemma winv_weaken seen stack stack' :
  (forall e, In e (seen ++ stack) -> In e (seen ++ stack')) -> winv seen stack -> winv seen stack'.
Proof. intros H Hi e He. destruct (Hi e He) as [A B]. split; auto. Qed.

Lemma ewalk_sound : forall fuel stack seen st st',
  st_ok st -> winv seen stack ->
  ewalk m fuel stack seen st = Ok (true, st') ->
  exists seen', (forall e, In e (seen ++ stack) -> In e seen') /\ winv seen' [].
Proof.
  induction fuel as [|f IH]; intros stack seen st st' Hst Hinv H; [discriminate|].
  simpl in H. destruct stack as [|[[a b] rel] rest].
  - exists seen. rewrite app_nil_r. split; auto.
  - destruct (mem_edge (a, b, rel) seen) eqn:Emem.
    + apply mem_edge_In' in Emem.
      assert (Hinv' : winv seen rest).
      { eapply winv_weaken; [|exact Hinv]. intros e He. apply in_app_or in He. apply in_or_app.
        destruct He as [He|[<-|He]]; auto. }
      destruct (IH _ _ _ _ Hst Hinv' H) as [seen' [A B]]. exists seen'. split; auto.
      intros e He. apply A. apply in_app_or in He. apply in_or_app. destruct He as [He|[<-|He]]; auto.
    + destruct Hst as [E1 [E2 [E3 Hc]]].
      rewrite E1, E2 in H.
      destruct (sm_get d1 a) as [c1|] eqn:G1; [|discriminate].
      destruct (sm_get d2 b) as [c2|] eqn:G2; [|discriminate].
      assert (Hst0 : st_ok st) by (repeat split; auto).
      (* what both branches need at the end *)
      assert (Hfin : forall stack' st0, st_ok st0 ->
                edge_passed (a, b, rel) ->
                (forall e', esucc (a, b, rel) e' -> In e' (((a, b, rel) :: seen) ++ stack' ++ rest)) ->
                ewalk m f (stack' ++ rest) ((a, b, rel) :: seen) st0 = Ok (true, st') ->
                exists seen', (forall e, In e (seen ++ (a, b, rel) :: rest) -> In e seen') /\ winv seen' []).
      { intros stack' st0 Hst1 Hp Hs Hw.
        assert (Hinv' : winv ((a, b, rel) :: seen) (stack' ++ rest)).
        { intros e [<-|He]; [split; assumption|].
          destruct (Hinv e He) as [A B]. split; auto. intros e' He'. specialize (B e' He').
          apply in_app_or in B. simpl. destruct B as [B|[<-|B]]; auto.
          - right. apply in_or_app. auto.
          - right. apply in_or_app. right. apply in_or_app. auto. }
        destruct (IH _ _ _ _ Hst1 Hinv' Hw) as [seen' [A B]]. exists seen'. split; auto.
        intros e He. apply A. simpl. apply in_app_or in He. destruct He as [He|[<-|He]]; auto.
        - right. apply in_or_app. auto.
        - right. apply in_or_app. right. apply in_or_app. auto. }
      assert (Hmain :
        match eq_path_matches a b rel st with
        | Ok (true, st1) =>
          match inner_get (match mi_get m (a, b) with Some d => d | None => [] end) (c1, c2) with
          | None => Ok (false, st1)
          | Some order =>
            match child_pairs c1 c2 order with
            | None => Err E_INDEX
            | Some ps => ewalk m f (rev (map (fun p => (p, (S a, S b))) ps) ++ rest) ((a, b, rel) :: seen) st1
            end
          end
        | Ok (false, st1) => Ok (false, st1)
        | OutOfFuel => OutOfFuel
        | Err e => Err e
        end = Ok (true, st') ->
        (c1, c2) <> ([], []) ->
        exists seen', (forall e, In e (seen ++ (a, b, rel) :: rest) -> In e seen') /\ winv seen' []).
      { intros Hw Hne.
        destruct (eq_path_matches a b rel st) as [[[|] st1]| |e] eqn:Eq; try discriminate.
        destruct (eq_path_sound _ _ _ _ _ _ Hst0 Eq) as [Hst1 [x1 [x2 [X1 [X2 W]]]]].
        rewrite G1 in X1. rewrite G2 in X2. inversion X1; inversion X2; subst x1 x2. clear X1 X2.
        destruct (mi_get m (a, b)) as [d|] eqn:Gm; [|simpl in Hw; discriminate].
        destruct (inner_get d (c1, c2)) as [o|] eqn:Go; [|discriminate].
        destruct (child_pairs c1 c2 o) as [ps|] eqn:Ecp; [|discriminate].
        apply (Hfin (rev (map (fun p => (p, (S a, S b))) ps)) st1 Hst1).
        - exists c1, c2. simpl. split; auto. split; auto. right. split; auto. exists d, o, ps. auto.
        - intros [p q] [y1 [y2 [d' [o' [ps' [Y1 [Y2 [_ [Y3 [Y4 [Y5 [Y6 Y7]]]]]]]]]]]]. simpl in *.
          rewrite G1 in Y1. rewrite G2 in Y2. inversion Y1; inversion Y2; subst y1 y2.
          rewrite Gm in Y3. inversion Y3; subst d'. rewrite Go in Y4. inversion Y4; subst o'.
          rewrite Ecp in Y5. inversion Y5; subst ps'. subst q.
          right. apply in_or_app. right. apply in_or_app. left.
          apply -> in_rev. apply in_map_iff. exists p. auto.
        - exact Hw. }
      destruct c1 as [|x c1], c2 as [|y c2]; try (apply Hmain; [exact H|discriminate]).
      apply (Hfin [] st Hst0).
      * exists [], []. simpl. auto.
      * intros e' [y1 [y2 [d' [o' [ps' [Y1 [Y2 [Y3 _]]]]]]]]. simpl in *.
        rewrite G1 in Y1. rewrite G2 in Y2. inversion Y1; inversion Y2; subst. contradiction.
      * exact H.
Qed.

Theorem ewalk_edges_checked fuel r st' :
  ewalk m fuel [(r, (0%nat, 0%nat))] [] (mkE d1 d2 [] wo [] []) = Ok (true, st') ->
  forall e, edge_reach r e -> edge_passed e.
Proof.
  intros H.
  assert (Hst : st_ok (mkE d1 d2 [] wo [] [])).
  { repeat split; auto. intros k v Hk. discriminate. }
  destruct (ewalk_sound fuel _ _ _ _ Hst (fun e (F : In e []) => match F with end) H) as [seen' [A B]].
  assert (Hall : forall e, edge_reach r e -> In e seen').
  { intros e He. induction He as [|e e' He IH Hs].
    - apply A. left. reflexivity.
    - destruct (B e IH) as [_ C]. specialize (C e' Hs). rewrite app_nil_r in C. exact C. }
  intros e He. apply (B e (Hall e He)).
Qed.

End EqSound.

(* ---------------------------------------------------------------- find() of the EqPath variant as it is *)
Theorem find_eq_edges_checked s1 s2 fuel wfuel oracle woracle d1 d2 asked :
  find_eq s1 s2 true fuel wfuel oracle woracle = EOut (Found d1 d2) asked ->
  exists st, find s1 s2 fuel (s_root s1) (s_root s2) init_fstate = Ok (true, st) /\
    mi_sound s1 s2 (f_mi st) /\
    forall e, edge_reach (f_mi st) d1 d2 (s_root s1, s_root s2) e -> edge_passed (f_mi st) d1 d2 woracle e.
Proof.
  unfold find_eq. pose proof (first_search_sound s1 s2 fuel) as Hs.
  destruct (find s1 s2 fuel (s_root s1) (s_root s2) init_fstate) as [[[|] st]| |e'] eqn:E; try discriminate.
  destruct (search_eq s1 s2 true (f_mi st) fuel oracle) as [o asked'] eqn:Es.
  destruct (path_checked s1 s2 (f_mi st) wfuel woracle (checked s1 s2 (f_mi st) wfuel o)) as [o2 asked2] eqn:Ep.
  intros H. inversion H; subst. exists st. split; [reflexivity|]. split; [eapply Hs; eauto|].
  pose proof (path_checked_found s1 s2 _ _ _ _ _ _ _ Ep) as Ho. rewrite Ho in Ep.
  unfold path_checked in Ep.
  destruct (ewalk (f_mi st) wfuel [(s_root s1, s_root s2, (0%nat, 0%nat))] [] (mkE d1 d2 [] woracle [] []))
    as [[[|] st3]| |c] eqn:W; try (inversion Ep; fail).
  eapply ewalk_edges_checked; eauto.
Qed.

(* What this adds to find_eq_matched (C13_matched_pair_eqpath): under the contract of the oracle —
   an answer True to the question ((id1,id2), (pid1,pid2), (children1,children2)) means that the
   non-equivalence rules met inside the two equivalence classes on the way from the parents to the rules
   (children1, children2) match pairwise (paths_match) — the two label maps are a matched pair AND the
   equivalence paths match along every edge of the common unfolding: the specifications built from them
   are isomorphic including the rules hidden inside their equivalence labels. *)
Section Contract.
Variable paths_match : qkey -> Prop.

Definition oracle_contract (wo : qkey -> option bool) : Prop :=
  forall k, wo k = Some true -> paths_match k.

Theorem find_eq_matched_with_paths s1 s2 fuel wfuel oracle woracle d1 d2 asked :
  oracle_contract woracle ->
  find_eq s1 s2 true fuel wfuel oracle woracle = EOut (Found d1 d2) asked ->
  matched_pair s1 s2 d1 d2 /\
  exists m, mi_sound s1 s2 m /\
    forall a b rel, edge_reach m d1 d2 (s_root s1, s_root s2) ((a, b), rel) ->
      exists c1 c2, sm_get d1 a = Some c1 /\ sm_get d2 b = Some c2 /\
        ((c1 = [] /\ c2 = []) \/ paths_match ((a, b), rel, (c1, c2))).
Proof.
  intros Hc H. split; [eapply find_eq_matched; eauto|].
  destruct (find_eq_edges_checked _ _ _ _ _ _ _ _ _ H) as [st [_ [Hm He]]].
  exists (f_mi st). split; [exact Hm|]. intros a b rel Hr.
  destruct (He _ Hr) as [c1 [c2 [G1 [G2 [Ha|[W _]]]]]]; exists c1, c2; simpl in *; repeat split; auto.
Qed.
End Contract.
