(* Every class of the rule set SpecificationRuleExtractor builds for one side of the parallel finder is
   REACHABLE from the start class — the clause `reachable` of C02's wf_input (Spec/GroupingWf.v) — proved of the
   key-level model Spec/Extractor.v `extract` on the keys of a tree.

   It is NOT a consequence of the weak find_path contract (first / last element) that closedness needs: a path may
   leave the equivalence class or revisit a label, and then add_path's early exit ("the class already connects with
   something in the specification") strands the decomposition parent of the class.  Contracts used here, all three
   facts about EquivalenceDB.find_path (a breadth-first path inside one equivalence class):
     fpath_ok     first element l, last element t (as before)
     fpath_class  every label on the path is equivalent to l
     fpath_nodup  no label twice
   and about the tree: one children tuple per label (tree_fun), every key reachable from the root label through the
   tree (tree_reach; tree_keys gives both), `order` lists only labels _no_lhs_labels() computes (order_sound).

   Main invariant of _populate_equivalences (equivalences_leads): every left-hand label p of the dictionary leads,
   through entries of the dictionary, to the decomposition parent e2p[rep p] of its equivalence label; and is a
   decomposition parent or reachable from a label of `order`. *)
From Coq Require Import ZArith List Bool Lia Sorting.Mergesort Sorting.Permutation.
From CSS Require Import Spec.Extractor Spec.ExtractorProofs.
Import ListNotations.
Local Arguments Nat.eqb : simpl never.

Inductive kreach (d : list rkey) (x : nat) : nat -> Prop :=
| kr_refl : kreach d x x
| kr_step : forall y z cs, kreach d x y -> In (y, cs) d -> In z cs -> kreach d x z.

Lemma kreach_trans d x y z : kreach d x y -> kreach d y z -> kreach d x z.
Proof. intros H1 H2. induction H2; [exact H1|]. eapply kr_step; eauto. Qed.

Lemma kreach_mono d d' x y : (forall e, In e d -> In e d') -> kreach d x y -> kreach d' x y.
Proof. intros H R. induction R; [constructor|]. eapply kr_step; eauto. Qed.

(* reachability of labels in the tree of keys *)
Inductive treach (tree : list rkey) (root : nat) : nat -> Prop :=
| tr_root : treach tree root root
| tr_step : forall l cs l', treach tree root l -> In (l, cs) tree -> In l' cs -> treach tree root l'.

Lemma e2p_get_some e2p k x : In (k, x) e2p -> exists t, e2p_get e2p k = Some t.
Proof.
  unfold e2p_get. induction e2p as [|a l IH]; simpl; [intros []|].
  destruct (Nat.eqb (fst a) k) eqn:E; simpl; [eexists; reflexivity|].
  intros [->|H]; [simpl in E; rewrite Nat.eqb_refl in E; discriminate|auto].
Qed.

Lemma dom_mono_in d d' : (forall e, In e d -> In e d') -> forall x, dom d x = true -> dom d' x = true.
Proof. intros H x Hx. destruct (dom_in d x Hx) as [v Hv]. eapply in_dom. apply H. exact Hv. Qed.

Section Reach.
Variable rep : nat -> nat.
Variable fpath : nat -> nat -> list nat.

Notation eqv_key := (eqv_key rep).
Notation rule_for := (rule_for rep).
Notation decompositions := (decompositions rep).
Notation equivalences := (equivalences rep fpath).

(* ---------------------------------------------------------------- add_path *)
Lemma add_path_leads q : forall path d,
  NoDup path -> (forall x, In x path -> rep x = q) -> path <> [] -> dom d (last path O) = true ->
  forall x, dom (add_path d path) x = true -> dom d x = false ->
    In x path /\ kreach (add_path d path) (hd O path) x /\
    exists z, In z path /\ dom d z = true /\ kreach (add_path d path) x z.
Proof.
  induction path as [|p rest IH]; intros d Hnd Hrep Hne Hlast x Hx Hnx; [congruence|].
  destruct rest as [|c rest'].
  - simpl in Hx. congruence.
  - change (add_path d (p :: c :: rest')) with (if dom d p then d else add_path (assign d p [c]) (c :: rest')) in *.
    destruct (dom d p) eqn:Ep; [congruence|].
    set (d1 := assign d p [c]) in *.
    set (d' := add_path d1 (c :: rest')) in *.
    assert (Hnd' : NoDup (c :: rest')) by (inversion Hnd; assumption).
    assert (Hp : ~ In p (c :: rest')) by (inversion Hnd; assumption).
    assert (Hrep' : forall y, In y (c :: rest') -> rep y = q) by (intros y Hy; apply Hrep; right; exact Hy).
    assert (Hne' : c :: rest' <> []) by discriminate.
    assert (Hm1 : forall y, dom d y = true -> dom d1 y = true).
    { intros y Hy. unfold d1. rewrite dom_assign, Hy. apply orb_true_r. }
    assert (Hlast' : dom d1 (last (c :: rest') O) = true) by (apply Hm1; exact Hlast).
    destruct (add_path_spec (c :: rest') d1) as (A & B & _ & D). fold d' in A, B, D.
    destruct (D Hlast' Hne') as [Dh _]. simpl in Dh.
    assert (Hpc : In (p, [c]) d') by (apply B; unfold d1; apply in_assign_self).
    assert (Rpc : kreach d' p c).
    { eapply kr_step; [apply kr_refl|exact Hpc|left; reflexivity]. }
    specialize (IH d1 Hnd' Hrep' Hne' Hlast'). fold d' in IH.
    assert (Hold : forall z, In z (c :: rest') -> dom d1 z = true -> dom d z = true).
    { intros z Hz Hd1. unfold d1 in Hd1. rewrite dom_assign in Hd1. apply orb_true_iff in Hd1.
      destruct Hd1 as [E|E]; [|exact E]. apply Nat.eqb_eq in E. subst z. contradiction. }
    (* where c leads *)
    assert (Hc : exists z, In z (c :: rest') /\ dom d z = true /\ kreach d' c z).
    { destruct (dom d1 c) eqn:Ec.
      - exists c. split; [left; reflexivity|]. split; [apply Hold; [left; reflexivity|exact Ec]|apply kr_refl].
      - destruct (IH c Dh Ec) as (_ & _ & z & Hz & Hdz & Rz). exists z. split; [exact Hz|].
        split; [apply Hold; assumption|exact Rz]. }
    destruct (dom d1 x) eqn:Ex1.
    + (* x = p *)
      assert (x = p).
      { unfold d1 in Ex1. rewrite dom_assign in Ex1. apply orb_true_iff in Ex1.
        destruct Ex1 as [E|E]; [apply Nat.eqb_eq in E; auto|congruence]. }
      subst x. split; [left; reflexivity|]. split; [apply kr_refl|].
      destruct Hc as (z & Hz & Hdz & Rz). exists z. split; [right; exact Hz|]. split; [exact Hdz|].
      eapply kreach_trans; eauto.
    + destruct (IH x Hx Ex1) as (Hin & Rcx & z & Hz & Hdz & Rz).
      split; [right; exact Hin|]. split; [simpl; eapply kreach_trans; eauto|].
      exists z. split; [right; exact Hz|]. split; [apply Hold; assumption|exact Rz].
Qed.

(* ---------------------------------------------------------------- _populate_equivalences *)
Section Equiv.
Variables (e2p : list (nat * nat)) (d0 : list rkey) (order : list nat).
Hypothesis He2p : forall q p, In (q, p) e2p -> dom d0 p = true /\ rep p = q.

Definition leads (d : list rkey) : Prop :=
  forall p, dom d p = true -> exists t, e2p_get e2p (rep p) = Some t /\ kreach d p t.
Definition from_order (d : list rkey) : Prop :=
  forall p, dom d p = true -> dom d0 p = true \/ exists l, In l order /\ kreach d l p.

Lemma equivalences_leads : forall labels d d',
  (forall l, In l labels -> In l order) ->
  (forall l, In l labels -> forall t, rep l = rep t ->
     (fpath l t <> [] /\ hd O (fpath l t) = l /\ last (fpath l t) O = t) /\
     (forall x, In x (fpath l t) -> rep x = rep l) /\ NoDup (fpath l t)) ->
  equivalences d e2p labels = Some d' ->
  (forall x, dom d0 x = true -> dom d x = true) ->
  leads d -> from_order d ->
  (forall e, In e d -> In e d') /\ leads d' /\ from_order d'.
Proof.
  induction labels as [|l t IH]; intros d d' Hsub Hfp H Hd0 HL HF; simpl in H.
  - injection H as <-. auto.
  - destruct (e2p_get e2p (rep l)) as [target|] eqn:Et; [|discriminate].
    pose proof (e2p_get_in _ _ _ Et) as Hin. destruct (He2p _ _ Hin) as [Htd Hrep].
    destruct (Hfp l (or_introl eq_refl) target (eq_sym Hrep)) as ((Hne & Hhd & Hlast) & Hcls & Hnd).
    set (path := fpath l target) in *. set (d1 := add_path d path) in *.
    destruct (add_path_spec path d) as (A & B & _ & _). fold d1 in A, B.
    assert (Hl : dom d (last path O) = true) by (rewrite Hlast; apply Hd0; exact Htd).
    pose proof (add_path_leads (rep l) path d Hnd Hcls Hne Hl) as P. fold d1 in P.
    assert (HL1 : leads d1).
    { intros p Hp. destruct (dom d p) eqn:Ep.
      - destruct (HL p Ep) as (t0 & E0 & R0). exists t0. split; [exact E0|]. eapply kreach_mono; eauto.
      - destruct (P p Hp Ep) as (Hinp & _ & z & Hz & Hdz & Rz).
        destruct (HL z Hdz) as (t0 & E0 & R0). exists t0.
        rewrite (Hcls p Hinp), <- (Hcls z Hz). split; [exact E0|].
        eapply kreach_trans; [exact Rz|]. eapply kreach_mono; eauto. }
    assert (HF1 : from_order d1).
    { intros p Hp. destruct (dom d p) eqn:Ep.
      - destruct (HF p Ep) as [E0|(l0 & Hl0 & R0)]; [left; exact E0|].
        right. exists l0. split; [exact Hl0|]. eapply kreach_mono; eauto.
      - destruct (P p Hp Ep) as (_ & Rl & _). rewrite Hhd in Rl.
        right. exists l. split; [apply Hsub; left; reflexivity|exact Rl]. }
    destruct (IH d1 d') as (K & L' & F'); auto.
    + intros l0 Hl0. apply Hsub. right. exact Hl0.
    + intros l0 Hl0. apply Hfp. right. exact Hl0.
Qed.
End Equiv.

(* ---------------------------------------------------------------- _populate_decompositions *)
Lemma decompositions_origin stored : forall tree d e2p d' e2p',
  decompositions stored tree d e2p = Some (d', e2p') ->
  (forall p cs, In (p, cs) d' -> In (p, cs) d \/ exists e, In e tree /\ rule_for stored e = Some (p, cs)) /\
  (forall q p, In (q, p) e2p' -> In (q, p) e2p \/
     exists e cs, In e tree /\ fst e = q /\ rule_for stored e = Some (p, cs)).
Proof.
  induction tree as [|e t IH]; intros d e2p d' e2p' H; simpl in H.
  - injection H as <- <-. auto.
  - destruct (rule_for stored e) as [[p cs]|] eqn:Er; [|discriminate].
    destruct (IH _ _ _ _ H) as [A B]. split.
    + intros p' cs' Hin. destruct (A p' cs' Hin) as [H1|(e' & He' & Hr')].
      * destruct (in_assign _ _ _ _ H1) as [E|H2]; [|left; exact H2].
        inversion E; subst. right. exists e. split; [left; reflexivity|exact Er].
      * right. exists e'. split; [right; exact He'|exact Hr'].
    + intros q p' Hin. destruct (B q p' Hin) as [[E|H1]|(e' & cs' & He' & Hf & Hr')].
      * inversion E; subst. right. exists e, cs. split; [left; reflexivity|]. split; [reflexivity|exact Er].
      * left. exact H1.
      * right. exists e', cs'. split; [right; exact He'|]. split; assumption.
Qed.

(* ---------------------------------------------------------------- the whole extractor *)
Section Extract.
Variables (stored tree : list rkey) (start : nat) (order : list nat) (dict : list rkey).

Hypothesis fpath_ok : forall l t, rep l = rep t ->
  fpath l t <> [] /\ hd O (fpath l t) = l /\ last (fpath l t) O = t.
Hypothesis fpath_class : forall l t, rep l = rep t -> forall x, In x (fpath l t) -> rep x = rep l.
Hypothesis fpath_nodup : forall l t, rep l = rep t -> NoDup (fpath l t).
Hypothesis tree_fun : forall l c c', In (l, c) tree -> In (l, c') tree -> c = c'.
Hypothesis tree_reach : forall e, In e tree -> treach tree (rep start) (fst e).
Hypothesis order_sound : forall d0 e2p, decompositions stored tree [] [] = Some (d0, e2p) ->
  forall l, In l order -> no_lhs d0 start l = true.
Hypothesis Hext : extract rep fpath stored tree start order = Some dict.
Hypothesis Hclosed : forall e, In e dict -> forall c, In c (snd e) -> dom dict c = true.
Hypothesis Hstart : dom dict start = true.

Lemma tree_entry_eq e1 e2 : In e1 tree -> In e2 tree -> fst e1 = fst e2 -> e1 = e2.
Proof.
  destruct e1 as [l1 c1], e2 as [l2 c2]. simpl. intros H1 H2 E. subst l2.
  rewrite (tree_fun l1 c1 c2 H1 H2). reflexivity.
Qed.

Theorem extract_reachable : forall p cs, In (p, cs) dict -> kreach dict start p.
Proof.
  unfold extract in Hext.
  destruct (decompositions stored tree [] []) as [[d0 e2p]|] eqn:Ed; [|discriminate].
  pose proof (order_sound d0 e2p eq_refl) as Hord.
  destruct (decompositions_spec rep stored tree [] [] d0 e2p Ed) as (_ & He2p & Hcov & _);
    [intros e []|intros q p []|].
  destruct (decompositions_origin stored tree [] [] d0 e2p Ed) as [Od Oe].
  (* the target of an equivalence label is the parent the tree's key for that label was decomposed into *)
  assert (Htarget : forall e p cs, In e tree -> rule_for stored e = Some (p, cs) ->
            forall t, e2p_get e2p (fst e) = Some t -> t = p).
  { intros e p cs He Hr t Ht. apply e2p_get_in in Ht.
    destruct (Oe _ _ Ht) as [[]|(e' & cs' & He' & Hf & Hr')].
    rewrite (tree_entry_eq e' e He' He Hf) in Hr'. congruence. }
  assert (Hd0_origin : forall p, dom d0 p = true ->
            exists e cs, In e tree /\ rule_for stored e = Some (p, cs) /\ In (p, cs) d0 /\ fst e = rep p).
  { intros p Hp. destruct (dom_in d0 p Hp) as [cs Hcs].
    destruct (Od p cs Hcs) as [[]|(e & He & Hr)]. exists e, cs. repeat split; auto.
    destruct (rule_for_spec rep _ _ _ Hr) as [_ Hk]. rewrite <- Hk. reflexivity. }
  assert (L0 : leads e2p d0).
  { intros p Hp. destruct (Hd0_origin p Hp) as (e & cs & He & Hr & _ & Hf).
    destruct (Hcov e He) as [p' Hp']. destruct (e2p_get_some _ _ _ Hp') as [t Ht].
    exists t. rewrite <- Hf. split; [exact Ht|]. rewrite (Htarget e p cs He Hr t Ht). apply kr_refl. }
  assert (F0 : from_order d0 order d0) by (intros p Hp; left; exact Hp).
  destruct (equivalences_leads e2p d0 order He2p order d0 dict) as (K & HL & HF); auto.
  { intros l _ t Hlt. split; [apply fpath_ok; exact Hlt|]. split; [apply fpath_class; exact Hlt|apply fpath_nodup; exact Hlt]. }
  (* (A) the decomposition parent of every label reachable in the tree is reachable from the start label *)
  assert (HA : forall l, treach tree (rep start) l -> forall cs, In (l, cs) tree ->
            exists p, e2p_get e2p l = Some p /\ kreach dict start p).
  { intros l R. induction R as [|l cs l' R IH Hin Hl']; intros cs0 Hcs0.
    - destruct (HL start Hstart) as (t & Et & Rt). exists t. auto.
    - destruct (IH cs Hin) as (p & Ep & Rp).
      pose proof (e2p_get_in _ _ _ Ep) as Hinp. destruct (He2p _ _ Hinp) as [Hdp Hrp].
      destruct (Hd0_origin p Hdp) as (e & pcs & He & Hr & Hpcs & Hf).
      assert (e = (l, cs)) by (apply tree_entry_eq; auto; simpl; congruence). subst e.
      destruct (rule_for_spec rep _ _ _ Hr) as [_ Hk]. unfold Extractor.eqv_key in Hk. simpl in Hk.
      inversion Hk as [[Hk1 Hk2]].
      assert (Hc : exists c, In c pcs /\ rep c = l').
      { assert (In l' (map rep pcs)).
        { eapply Permutation_in; [apply Permutation_sym, NatSort.Permuted_sort|]. rewrite Hk2. exact Hl'. }
        apply in_map_iff in H. destruct H as [c [E Hc]]. eauto. }
      destruct Hc as (c & Hc & Hrc).
      assert (Hpd : In (p, pcs) dict) by (apply K; exact Hpcs).
      assert (Rc : kreach dict start c) by (eapply kr_step; eauto).
      destruct (HL c (Hclosed _ Hpd c Hc)) as (t & Et & Rt). rewrite Hrc in Et.
      exists t. split; [exact Et|]. eapply kreach_trans; eauto. }
  (* (B) decomposition parents *)
  assert (HB : forall p, dom d0 p = true -> kreach dict start p).
  { intros p Hp. destruct (Hd0_origin p Hp) as (e & cs & He & Hr & _ & Hf).
    destruct e as [l ecs]. simpl in Hf.
    destruct (HA l (tree_reach _ He) ecs He) as (p' & Ep' & Rp').
    rewrite (Htarget (l, ecs) p cs He Hr p' Ep') in Rp'. exact Rp'. }
  intros p cs Hin. destruct (HF p (in_dom _ _ _ Hin)) as [Hp|(l & Hl & Rl)]; [apply HB; exact Hp|].
  eapply kreach_trans; [|exact Rl].
  pose proof (Hord l Hl) as Hno. unfold no_lhs in Hno. apply orb_true_iff in Hno. destruct Hno as [Hno|Hno].
  - apply andb_true_iff in Hno. destruct Hno as [Hex _]. apply existsb_exists in Hex.
    destruct Hex as (x & Hx & E). apply Nat.eqb_eq in E. subst x.
    unfold all_rhs in Hx. apply in_flat_map in Hx. destruct Hx as ([p0 cs0] & He0 & Hl0). simpl in Hl0.
    eapply kr_step; [apply HB; eapply in_dom; exact He0|apply K; exact He0|exact Hl0].
  - apply andb_true_iff in Hno. destruct Hno as [E _]. apply Nat.eqb_eq in E. subst l. apply kr_refl.
Qed.
End Extract.
End Reach.
