(* HISTORY (the code before 97589e3).  Witnesses: on that form of the code, "what find() returns is a matched pair" and "find() does not
   raise" are FALSE of the faithful model.  Two universes with four labels each:

     side 1:  3 -> (1, 2)      1 -> (0) | (0, 1)     2 -> (0, 1)              0 an atom
     side 2:  3 -> (1, 2)      1 -> (0)              2 -> (0) | (0, 2)        0 the same atom

   (unary rules have constructor class 1, binary ones class 0).  The first search matches (1,1) by the
   unary rules, (2,2) by the binary rules, and (1,2) both by the unary and by the binary rules.  The
   second search gives label 1 of side 1 its UNARY rule (partner: label 1 of side 2, which has nothing
   else) and label 2 of side 2 its BINARY rule (partner: label 2 of side 1); below (2,2) it meets the
   pair (1,2), both labels assigned, and accepts it because each of the two rules occurs in SOME
   recorded matching of (1,2).  ParallelSpecFinder returns the two maps; they are not a matched pair
   (a unary node against a binary node).  EqPathParallelSpecFinder looks the unrecorded combination
   up in matching_info: KeyError.  The same happens with real searchers: findings/second_search_shortcut.py. *)
From Coq Require Import ZArith List Bool Lia.
From CSS Require Import Base.PyList Parallel.Model Parallel.Basics Parallel.First Parallel.Second Parallel.Matched.
Import ListNotations.
Open Scope Z_scope.

Definition w1 : side :=
  mkSide 3 [(0%nat, 1)]
    [(0%nat, [([], -1)]); (1%nat, [([0%nat], 1); ([0%nat; 1%nat], 0)]);
     (2%nat, [([0%nat; 1%nat], 0)]); (3%nat, [([1%nat; 2%nat], 0)])].
Definition w2 : side :=
  mkSide 3 [(0%nat, 1)]
    [(0%nat, [([], -1)]); (1%nat, [([0%nat], 1)]);
     (2%nat, [([0%nat], 1); ([0%nat; 2%nat], 0)]); (3%nat, [([1%nat; 2%nat], 0)])].

Definition wd1 : smap := [(3%nat, [1%nat; 2%nat]); (1%nat, [0%nat]); (0%nat, []); (2%nat, [0%nat; 1%nat])].
Definition wd2 : smap := [(3%nat, [1%nat; 2%nat]); (1%nat, [0%nat]); (0%nat, []); (2%nat, [0%nat; 2%nat])].

Lemma witness_found : find_base_old w1 w2 20 = Found wd1 wd2.
Proof. vm_compute. reflexivity. Qed.

Ltac open_node Hb H :=
  let c1 := fresh "c1" in let c2 := fresh "c2" in
  let G1 := fresh "G1" in let G2 := fresh "G2" in let Hc := fresh "Hc" in
  destruct (Hb _ _ H) as [c1 [c2 [G1 [G2 Hc]]]];
  vm_compute in G1; vm_compute in G2; inversion G1; inversion G2; subst c1 c2; clear G1 G2.

Lemma witness_not_matched : ~ matched_pair w1 w2 wd1 wd2.
Proof.
  intros [_ [_ [R [Hr Hb]]]].
  assert (N12 : R (1%nat, 2%nat) -> False).
  { intros H. open_node Hb H. destruct Hc as [[E _]|[k1 [k2 [o [_ [_ [_ [_ [L _]]]]]]]]]; discriminate. }
  assert (N02 : R (0%nat, 2%nat) -> False).
  { intros H. open_node Hb H. destruct Hc as [[_ [E _]]|[k1 [k2 [o [_ [_ [_ [E _]]]]]]]]; [discriminate|].
    apply E. reflexivity. }
  assert (N22 : R (2%nat, 2%nat) -> False).
  { intros H. open_node Hb H. destruct Hc as [[E _]|[k1 [k2 [o [_ [_ [_ [_ [_ [_ Hch]]]]]]]]]]; [discriminate|].
    destruct (Hch 1%nat) as [i [_ [Hi HR]]]; [simpl; lia|]. simpl in Hi, HR.
    destruct i as [|[|i]]; simpl in HR; [apply N02; exact HR|apply N12; exact HR|lia]. }
  open_node Hb Hr. destruct Hc as [[E _]|[k1 [k2 [o [_ [_ [_ [_ [_ [_ Hch]]]]]]]]]]; [discriminate|].
  destruct (Hch 1%nat) as [i [_ [Hi HR]]]; [simpl; lia|]. simpl in Hi, HR.
  destruct i as [|[|i]]; simpl in HR; [apply N12; exact HR|apply N22; exact HR|lia].
Qed.

Theorem base_returns_unmatched_pair :
  exists s1 s2 fuel d1 d2, find_base_old s1 s2 fuel = Found d1 d2 /\ ~ matched_pair s1 s2 d1 d2.
Proof. exists w1, w2, 20%nat, wd1, wd2. split; [exact witness_found|exact witness_not_matched]. Qed.

(* EquivalenceRuleExtractor finds no non-equivalence rule on any path: every question is answered True *)
Definition all_true : qkey -> option bool := fun _ => Some true.

Theorem eqpath_raises_keyerror :
  exists s1 s2 fuel oracle, find_eq_old s1 s2 fuel oracle = EOut (Failed E_KEY) [].
Proof. exists w1, w2, 20%nat, all_true. vm_compute. reflexivity. Qed.

(* the code as it is now (since 97589e3) answers the same input "nothing found" by both variants *)
Lemma witness_fixed :
  find_base w1 w2 20 100 = Nothing /\
  exists asked, find_eq w1 w2 false 20 100 all_true all_true = EOut Nothing asked.
Proof. split; [vm_compute; reflexivity|eexists; vm_compute; reflexivity]. Qed.
