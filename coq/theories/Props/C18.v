(* C18 — JSON round trips preserve specifications, rules, packs, strategies,
   bijections.  Only statements; proofs are applications of lemmas of
   Json/Proofs.v, Json/SpecProofs.v, Json/BijProofs.v.

   Quantification: ANY class type with a decidable equality and a codec that
   round-trips (the documented contract of CombinatorialClass.to_jsonable /
   from_dict), ANY emptiness test, ANY table of strategy classes (`cat_of`), ANY
   user from_dict, decomposition_function, is_reversible, can-be-equivalent
   behaviour.  `strat_ok s` is the documented contract of the strategy's class
   (from_dict restores the flags and settings to_jsonable wrote); `rule_ok r` is
   the invariant every rule object satisfies because it went through its
   constructor (asserts of EquivalenceRule / EquivalencePathRule / ReverseRule,
   children = decomposition_function(comb_class)); `spec_wf` is what
   CombinatorialSpecification.__init__ establishes (one rule per class, keyed by
   its own class, children of every rule present, root present).
   `strip` forgets the instance attributes that are not settings
   (__orig_class__); `strat_dict_ok s`: the settings form a dictionary and
   nothing but __orig_class__ was added to the instance. *)
From Coq Require Import ZArith List Bool String Ascii.
From CSS Require Import Base.PyList Json.Model Json.Proofs Json.SpecProofs Json.BijProofs Json.InitProofs.
Import ListNotations.
Open Scope Z_scope.

Section C18.
Variable cls : Type.
Variable cls_eqb : cls -> cls -> bool.
Hypothesis cls_eqb_spec : forall a b, cls_eqb a b = true <-> a = b.
Variable cls_to_json : cls -> json.
Variable cls_of_json : json -> res cls.
Hypothesis cls_roundtrip : forall c, cls_of_json (cls_to_json c) = Ok c.
Variable is_empty : cls -> bool.
Variable cat_of : str -> str -> option scat.
Variable user_from_dict : str -> str -> list (str * json) -> res (option flags * list (str * json)).
Variable decomp : strat -> cls -> option (list cls).
Variable reversible : strat -> cls -> bool.
Variable eqv_cap : strat -> cls -> option Z -> bool.

Notation strat_ok := (strat_ok cat_of user_from_dict).
Notation json_of_strat := (json_of_strat cat_of).
Notation strat_of_json := (strat_of_json cat_of user_from_dict).
Notation rule_ok := (rule_ok cls cls_eqb is_empty cat_of decomp reversible eqv_cap).
Notation rule_strats_ok := (rule_strats_all cls strat_ok).
Notation rule_strats_dict_ok := (rule_strats_all cls strat_dict_ok).
Notation json_of_rule := (json_of_rule cls cls_to_json cat_of).
Notation rule_of_json := (rule_of_json cls cls_of_json is_empty cat_of user_from_dict decomp reversible eqv_cap).
Notation rule_eq := (rule_eq cls cls_eqb is_empty).
Notation json_of_pack := (json_of_pack cat_of).
Notation pack_of_json := (pack_of_json cat_of user_from_dict).
Notation pack_ok := (pack_ok cat_of user_from_dict).
Notation json_of_spec := (json_of_spec cls cls_to_json cat_of).
Notation spec_of_json := (spec_of_json cls cls_eqb cls_of_json is_empty cat_of user_from_dict decomp reversible eqv_cap).
Notation spec_wf := (spec_wf cls cls_eqb is_empty cat_of user_from_dict decomp reversible eqv_cap).
Notation spec_eq := (spec_eq cls cls_eqb is_empty).
Notation json_of_bij := (json_of_bij cls cls_eqb cls_to_json cat_of).
Notation bij_of_json := (bij_of_json cls cls_eqb cls_of_json is_empty cat_of user_from_dict decomp reversible eqv_cap).
Notation bij_wf := (bij_wf cls cls_eqb is_empty cat_of user_from_dict decomp reversible eqv_cap).
Notation pair_eqb := (pair_eqb cls cls_eqb).

(* strategies: loading the dumped strategy gives the same kind, flags and
   settings (without __orig_class__), and the result is == the original in both
   directions, however the original was created *)
Theorem C18_strategy_roundtrip : forall s,
  strat_ok s ->
  strat_of_json (json_of_strat s) = Ok (strip s) /\
  (strat_dict_ok s -> strat_eq (strip s) s = true /\ strat_eq s (strip s) = true).
Proof.
  intros s H. split.
  - apply strat_roundtrip. exact H.
  - intros Hd. destruct (strat_eq_strip s Hd) as (H1 & H2 & _). auto.
Qed.

(* equality of two strategies depends only on their kind (class) and settings
   (flags and further settings), not on how the instance was created *)
Theorem C18_strategy_eq_kind_settings : forall a b,
  only_orig_class a = true -> only_orig_class b = true ->
  strat_eq a b = settings_eq a b /\
  strat_eq (strip a) b = strat_eq a b /\ strat_eq a (strip b) = strat_eq a b.
Proof.
  intros a b Ha Hb. rewrite !strat_eq_settings by auto using only_orig_strip.
  rewrite settings_eq_strip_l, settings_eq_strip_r. auto.
Qed.

(* whatever from_dict returns carries no __orig_class__ *)
Theorem C18_loaded_strategy_plain : forall j s, strat_of_json j = Ok s -> plain s = true.
Proof. intros j s. apply strat_of_json_plain. Qed.

(* every rule form, arbitrarily nested (equivalence paths of equivalence rules
   of reverse rules ...): the reloaded rule has the same form, the same nested
   original rules, the same idx, strategies and classes, children recomputed to
   the same tuple; it is == the original in both directions; it is identical
   when no strategy instance carries __orig_class__ *)
Theorem C18_rule_roundtrip : forall r,
  rule_ok r = true -> rule_strats_ok r ->
  rule_of_json (json_of_rule r) = Ok (strip_rule cls r) /\
  (rule_strats_dict_ok r -> rule_eq (strip_rule cls r) r = true /\ rule_eq r (strip_rule cls r) = true) /\
  (rule_plain cls r = true -> strip_rule cls r = r).
Proof.
  intros r Hok Hs. split; [|split].
  - eapply rule_roundtrip; eauto.
  - intros Hd. eapply rule_eq_strip; eauto.
  - apply strip_rule_plain.
Qed.

(* packs: name, the five groups of strategies (order and nesting), symmetries
   and the iterative flag all survive *)
Theorem C18_pack_roundtrip : forall p,
  pack_ok p ->
  pack_of_json (json_of_pack p) = Ok (strip_pack p) /\
  (pack_dicts_ok p -> pack_eq (strip_pack p) p = true /\ pack_eq p (strip_pack p) = true).
Proof.
  intros p H. split.
  - apply pack_roundtrip. exact H.
  - apply pack_eq_strip.
Qed.

(* specifications: same root, same classes in the same order, for every class
   the same rule (up to __orig_class__), == in both directions, identical when
   every strategy instance was created plainly.  Counts, objects, equations and
   labels are functions of (root, rules_dict) and therefore agree. *)
Theorem C18_spec_roundtrip : forall s,
  spec_wf s ->
  spec_of_json (json_of_spec s) = Ok (strip_spec cls s) /\
  sp_root cls (strip_spec cls s) = sp_root cls s /\
  map fst (sp_rules cls (strip_spec cls s)) = map fst (sp_rules cls s) /\
  (spec_dicts_ok cls s -> spec_eq (strip_spec cls s) s = true /\ spec_eq s (strip_spec cls s) = true) /\
  (spec_plain cls s = true -> strip_spec cls s = s).
Proof.
  intros s H. split; [|split; [|split; [|split]]].
  - eapply spec_roundtrip; eauto.
  - reflexivity.
  - unfold strip_spec. simpl. rewrite map_map. reflexivity.
  - intros Hd. eapply spec_eq_strip; eauto.
  - apply strip_spec_plain.
Qed.

(* every specification object that CombinatorialSpecification(root, rules,
   group_equiv=False) hands back — from rules that went through their own
   constructors — satisfies the hypothesis of C18_spec_roundtrip (incl. the
   lazily added rules of empty classes), and the constructor adds no strategy
   instance carrying __orig_class__ : such an object is reproduced exactly *)
Theorem C18_constructed_spec_roundtrip : forall root rules s,
  cat_of strategy_module n_EmptyStrategy = Some CEmpty ->
  Forall (fun r => rule_ok r = true /\ rule_strats_ok r) rules ->
  spec_init cls cls_eqb is_empty cat_of decomp root rules = Ok s ->
  spec_wf s /\
  spec_of_json (json_of_spec s) = Ok (strip_spec cls s) /\
  (forallb (rule_plain cls) rules = true -> spec_of_json (json_of_spec s) = Ok s).
Proof.
  intros root rules s He Hr Hi.
  assert (spec_wf s) as Hw by (eapply spec_init_wf; eauto).
  split; [exact Hw|]. split.
  - eapply spec_roundtrip; eauto.
  - intros Hp. erewrite spec_roundtrip; eauto. f_equal. apply strip_spec_plain.
    eapply spec_init_plain; eauto.
Qed.

(* bijections: both specifications are reproduced and every entry of the order
   map and of the index data is found again under the same pair of classes —
   nothing is lost, added or re-indexed wrongly by the classes array *)
Theorem C18_bijection_roundtrip : forall b,
  bij_wf b ->
  exists b', bij_of_json (json_of_bij b) = Ok b' /\
    b_spec cls b' = strip_spec cls (b_spec cls b) /\
    b_other cls b' = strip_spec cls (b_other cls b) /\
    (forall k, dget pair_eqb k (b_order cls b') = dget pair_eqb k (b_order cls b)) /\
    (forall k, dget pair_eqb k (b_data cls b') = dget pair_eqb k (b_data cls b)).
Proof. intros b H. eapply bij_roundtrip; eauto. Qed.

End C18.

(* the decimal object keys of the bijection's maps: int(f"{n}") = n *)
Theorem C18_decimal_keys : forall n, 0 <= n -> Z_of_dec (dec_of_Z n) = Some n.
Proof. exact dec_roundtrip. Qed.

(* ------------------------------------------------------------------ non-vacuity *)
Module Example.
Fixpoint s2l (s : string) : str :=
  match s with
  | EmptyString => []
  | String a r => Z.of_N (N_of_ascii a) :: s2l r
  end.
Definition U := s2l "U".
Definition V := s2l "V".
Definition M := s2l "m".
Definition cat_of (m n : str) : option scat :=
  if str_eqb n U then Some CStrategy
  else if str_eqb n V then Some CVerif
  else if str_eqb n n_EmptyStrategy then Some CEmpty else None.
Definition user_from_dict (m n : str) (d : list (str * json)) : res (option flags * list (str * json)) :=
  match cat_of m n, d with
  | Some CStrategy, (_, JBool a) :: (_, JBool b) :: (_, JBool c) :: (_, JBool e) :: u => Ok (Some (a, b, c, e), u)
  | Some CVerif, (_, JBool a) :: u => Ok (Some (a, false, false, false), u)
  | _, _ => Err EType
  end.
Definition to_json (c : Z) : json := JNum c.
Definition of_json (j : json) : res Z := match j with JNum z => Ok z | _ => Err EType end.
Definition is_empty (c : Z) : bool := c <? 0.
Definition decomp (s : strat) (c : Z) : option (list Z) :=
  if str_eqb (s_name s) U then (if 0 <? c then Some [c - 1; -1] else None)
  else if c =? 0 then Some [] else None.
Definition u : strat :=
  mkStrat M U (Some (false, true, true, true)) [(s2l "k", JNum 3); (s2l "tag", JStr (s2l "x"))] [].
Definition u_alias : strat :=
  mkStrat M U (Some (false, true, true, true)) [(s2l "k", JNum 3); (s2l "tag", JStr (s2l "x"))]
          [(k_orig_class, 7)].
Definition v : strat := mkStrat M V (Some (true, false, false, false)) [(s2l "depth", JNum 0)] [].
Definition base : rule Z := RRule Z u 3 [2; -1].
(* an equivalence path made of an equivalence rule of a reverse rule and an
   equivalence rule *)
Definition r : rule Z := RPath Z [REquiv Z (RReverse Z base 0); REquiv Z base].
Definition rt (x : rule Z) :=
  rule_of_json Z of_json is_empty cat_of user_from_dict decomp (fun _ _ => true) (fun _ _ _ => true)
               (json_of_rule Z to_json cat_of x).
Definition s0 :=
  spec_init Z Z.eqb is_empty cat_of decomp 1 [RRule Z u_alias 1 [0; -1]; RVerif Z v 0 []].
End Example.

Example C18_nonvacuous :
  rule_ok Z Z.eqb Example.is_empty Example.cat_of Example.decomp (fun _ _ => true) (fun _ _ _ => true) Example.r = true /\
  Example.rt Example.r = Ok Example.r /\
  strat_eq Example.u Example.u_alias = true /\
  match Example.s0 with
  | Ok s =>
      List.length (sp_rules Z s) = 3%nat /\
      spec_closed Z Z.eqb Example.is_empty s = true /\
      spec_of_json Z Z.eqb Example.of_json Example.is_empty Example.cat_of Example.user_from_dict Example.decomp
                   (fun _ _ => true) (fun _ _ _ => true) (json_of_spec Z Example.to_json Example.cat_of s)
      = Ok (strip_spec Z s) /\
      spec_eq Z Z.eqb Example.is_empty (strip_spec Z s) s = true /\ strip_spec Z s <> s
  | Err _ => False
  end.
Proof. vm_compute. repeat split; try reflexivity. discriminate. Qed.

Print Assumptions C18_strategy_roundtrip.
Print Assumptions C18_strategy_eq_kind_settings.
Print Assumptions C18_loaded_strategy_plain.
Print Assumptions C18_rule_roundtrip.
Print Assumptions C18_pack_roundtrip.
Print Assumptions C18_spec_roundtrip.
Print Assumptions C18_constructed_spec_roundtrip.
Print Assumptions C18_bijection_roundtrip.
Print Assumptions C18_decimal_keys.
