(* C18 — JSON round trips preserve specifications, rules, packs, strategies,
   bijections.  Only statements; proofs are applications of lemmas of
   Json/Proofs.v, Json/SpecProofs.v, Json/BijProofs.v.

   Quantification: ANY class type with a decidable equality and a codec that
   round-trips (the documented contract of CombinatorialClass.to_jsonable /
   from_dict), ANY emptiness test, ANY table of strategy classes (`cat_of`), ANY
   user from_dict, decomposition_function, is_reversible, can-be-equivalent
   behaviour.  `strat_ok s` is the documented contract of the strategy's class
   (from_dict restores the flags and settings to_jsonable wrote); `rule_ok r` is
   the invariant every rule object satisfies because it went through its
   constructor (asserts of EquivalenceRule / EquivalencePathRule / ReverseRule,
   children = decomposition_function(comb_class)); `spec_wf` is what
   CombinatorialSpecification.__init__ establishes (one rule per class, keyed by
   its own class, children of every rule present, root present).
   `strip` forgets the instance attributes that are not settings
   (__orig_class__); `strat_dict_ok s`: the settings form a dictionary and
   nothing but __orig_class__ was added to the instance. *)
From Coq Require Import ZArith List Bool String Ascii.
From CSS Require Import Base.PyList Json.Model Json.Proofs Json.SpecProofs Json.BijProofs Json.InitProofs.
From CSS Require Import Forest.Spec Spec.Eval Json.EvalProofs.
Import ListNotations.
Open Scope Z_scope.

Section C18.
Variable cls : Type.
Variable cls_eqb : cls -> cls -> bool.
Hypothesis cls_eqb_spec : forall a b, cls_eqb a b = true <-> a = b.
Variable cls_to_json : cls -> json.
Variable cls_of_json : json -> res cls.
Hypothesis cls_roundtrip : forall c, cls_of_json (cls_to_json c) = Ok c.
Variable is_empty : cls -> bool.
Variable cat_of : str -> str -> option scat.
Variable user_from_dict : str -> str -> list (str * json) -> res (option flags * list (str * json)).
Variable decomp : strat -> cls -> option (list cls).
Variable reversible : strat -> cls -> bool.
Variable eqv_cap : strat -> cls -> option Z -> bool.

Notation strat_ok := (strat_ok cat_of user_from_dict).
Notation json_of_strat := (json_of_strat cat_of).
Notation strat_of_json := (strat_of_json cat_of user_from_dict).
Notation rule_ok := (rule_ok cls cls_eqb is_empty cat_of decomp reversible eqv_cap).
Notation rule_strats_ok := (rule_strats_all cls strat_ok).
Notation rule_strats_dict_ok := (rule_strats_all cls strat_dict_ok).
Notation json_of_rule := (json_of_rule cls cls_to_json cat_of).
Notation rule_of_json := (rule_of_json cls cls_of_json is_empty cat_of user_from_dict decomp reversible eqv_cap).
Notation rule_eq := (rule_eq cls cls_eqb is_empty).
Notation json_of_pack := (json_of_pack cat_of).
Notation pack_of_json := (pack_of_json cat_of user_from_dict).
Notation pack_ok := (pack_ok cat_of user_from_dict).
Notation json_of_spec := (json_of_spec cls cls_to_json cat_of).
Notation spec_of_json := (spec_of_json cls cls_eqb cls_of_json is_empty cat_of user_from_dict decomp reversible eqv_cap).
Notation spec_wf := (spec_wf cls cls_eqb is_empty cat_of user_from_dict decomp reversible eqv_cap).
Notation spec_eq := (spec_eq cls cls_eqb is_empty).
Notation json_of_bij := (json_of_bij cls cls_eqb cls_to_json cat_of).
Notation bij_of_json := (bij_of_json cls cls_eqb cls_of_json is_empty cat_of user_from_dict decomp reversible eqv_cap).
Notation bij_wf := (bij_wf cls cls_eqb is_empty cat_of user_from_dict decomp reversible eqv_cap).
Notation pair_eqb := (pair_eqb cls cls_eqb).

(* strategies: loading the dumped strategy gives the same kind, flags and
   settings (without __orig_class__), and the result is == the original in both
   directions, however the original was created *)
Theorem C18_strategy_roundtrip : forall s,
  strat_ok s ->
  strat_of_json (json_of_strat s) = Ok (strip s) /\
  (strat_dict_ok s -> strat_eq (strip s) s = true /\ strat_eq s (strip s) = true).
Proof.
  intros s H. split.
  - apply strat_roundtrip. exact H.
  - intros Hd. destruct (strat_eq_strip s Hd) as (H1 & H2 & _). auto.
Qed.

(* equality of two strategies depends only on their kind (class) and settings
   (flags and further settings), not on how the instance was created *)
Theorem C18_strategy_eq_kind_settings : forall a b,
  only_orig_class a = true -> only_orig_class b = true ->
  strat_eq a b = settings_eq a b /\
  strat_eq (strip a) b = strat_eq a b /\ strat_eq a (strip b) = strat_eq a b.
Proof.
  intros a b Ha Hb. rewrite !strat_eq_settings by auto using only_orig_strip.
  rewrite settings_eq_strip_l, settings_eq_strip_r. auto.
Qed.

(* whatever from_dict returns carries no __orig_class__ *)
Theorem C18_loaded_strategy_plain : forall j s, strat_of_json j = Ok s -> plain s = true.
Proof. intros j s. apply strat_of_json_plain. Qed.

(* every rule form, arbitrarily nested (equivalence paths of equivalence rules
   of reverse rules ...): the reloaded rule has the same form, the same nested
   original rules, the same idx, strategies and classes, children recomputed to
   the same tuple; it is == the original in both directions; it is identical
   when no strategy instance carries __orig_class__ *)
Theorem C18_rule_roundtrip : forall r,
  rule_ok r = true -> rule_strats_ok r ->
  rule_of_json (json_of_rule r) = Ok (strip_rule cls r) /\
  (rule_strats_dict_ok r -> rule_eq (strip_rule cls r) r = true /\ rule_eq r (strip_rule cls r) = true) /\
  (rule_plain cls r = true -> strip_rule cls r = r).
Proof.
  intros r Hok Hs. split; [|split].
  - eapply rule_roundtrip; eauto.
  - intros Hd. eapply rule_eq_strip; eauto.
  - apply strip_rule_plain.
Qed.

(* packs: name, the five groups of strategies (order and nesting), symmetries
   and the iterative flag all survive *)
Theorem C18_pack_roundtrip : forall p,
  pack_ok p ->
  pack_of_json (json_of_pack p) = Ok (strip_pack p) /\
  (pack_dicts_ok p -> pack_eq (strip_pack p) p = true /\ pack_eq p (strip_pack p) = true).
Proof.
  intros p H. split.
  - apply pack_roundtrip. exact H.
  - apply pack_eq_strip.
Qed.

(* specifications: same root, same classes in the same order, for every class
   the same rule (up to __orig_class__), == in both directions, identical when
   every strategy instance was created plainly.  Counts, objects, equations and
   labels are functions of (root, rules_dict) and therefore agree. *)
Theorem C18_spec_roundtrip : forall s,
  spec_wf s ->
  spec_of_json (json_of_spec s) = Ok (strip_spec cls s) /\
  sp_root cls (strip_spec cls s) = sp_root cls s /\
  map fst (sp_rules cls (strip_spec cls s)) = map fst (sp_rules cls s) /\
  (spec_dicts_ok cls s -> spec_eq (strip_spec cls s) s = true /\ spec_eq s (strip_spec cls s) = true) /\
  (spec_plain cls s = true -> strip_spec cls s = s).
Proof.
  intros s H. split; [|split; [|split; [|split]]].
  - eapply spec_roundtrip; eauto.
  - reflexivity.
  - unfold strip_spec. simpl. rewrite map_map. reflexivity.
  - intros Hd. eapply spec_eq_strip; eauto.
  - apply strip_spec_plain.
Qed.

(* every specification object that CombinatorialSpecification(root, rules,
   group_equiv=False) hands back — from rules that went through their own
   constructors — satisfies the hypothesis of C18_spec_roundtrip (incl. the
   lazily added rules of empty classes), and the constructor adds no strategy
   instance carrying __orig_class__ : such an object is reproduced exactly *)
Theorem C18_constructed_spec_roundtrip : forall root rules s,
  cat_of strategy_module n_EmptyStrategy = Some CEmpty ->
  Forall (fun r => rule_ok r = true /\ rule_strats_ok r) rules ->
  spec_init cls cls_eqb is_empty cat_of decomp root rules = Ok s ->
  spec_wf s /\
  spec_of_json (json_of_spec s) = Ok (strip_spec cls s) /\
  (forallb (rule_plain cls) rules = true -> spec_of_json (json_of_spec s) = Ok s).
Proof.
  intros root rules s He Hr Hi.
  assert (spec_wf s) as Hw by (eapply spec_init_wf; eauto).
  split; [exact Hw|]. split.
  - eapply spec_roundtrip; eauto.
  - intros Hp. erewrite spec_roundtrip; eauto. f_equal. apply strip_spec_plain.
    eapply spec_init_plain; eauto.
Qed.

(* bijections: both specifications are reproduced and every entry of the order
   map and of the index data is found again under the same pair of classes —
   nothing is lost, added or re-indexed wrongly by the classes array *)
Theorem C18_bijection_roundtrip : forall b,
  bij_wf b ->
  exists b', bij_of_json (json_of_bij b) = Ok b' /\
    b_spec cls b' = strip_spec cls (b_spec cls b) /\
    b_other cls b' = strip_spec cls (b_other cls b) /\
    (forall k, dget pair_eqb k (b_order cls b') = dget pair_eqb k (b_order cls b)) /\
    (forall k, dget pair_eqb k (b_data cls b') = dget pair_eqb k (b_data cls b)).
Proof. intros b H. eapply bij_roundtrip; eauto. Qed.

(* ------------------------------------------------------------------ same enumeration *)
(* "the reloaded specification has the same counts / objects / equations": connected to the
   evaluation model of C01 (Spec/Eval.v).  `sem` is what turns a rule OBJECT into its term
   operator (children labels with shifts + the constructor's get_terms; or get_sub_objects for
   object lists; ..), `label` numbers the classes, `terms` is ANY type of term tables, and
   `espec s` is the specification Spec/Eval.v evaluates: the rule stored for the class with that
   label.  ASSUMED of strategies (and of nothing else): `sem` is a deterministic function of the
   rule form, the classes, idx and the strategies' KIND AND SETTINGS - it gives the same operator
   for two rule objects that differ only in the instance attribute __orig_class__ (sem_settings) -
   and an operator's answer depends on its providers only through the values they return
   (sem_extensional; weaker than Spec/Eval.v's `local`).
   Then the reloaded specification has the same root, the same classes in the same order, and
   evaluates identically: for every fuel, class label and size `eval` returns the same table. *)
Section Enumeration.
Variable terms : Type.
Variable dflt : terms.
Variable label : cls -> nat.
Variable sem : rule cls -> option (srule terms).
Hypothesis sem_settings : forall r, sem (strip_rule cls r) = sem r.
Hypothesis sem_extensional : forall r sr, sem r = Some sr -> op_extensional terms sr.

Theorem C18_roundtrip_same_enumeration : forall s,
  spec_wf s ->
  exists s', spec_of_json (json_of_spec s) = Ok s' /\
    sp_root cls s' = sp_root cls s /\
    map fst (sp_rules cls s') = map fst (sp_rules cls s) /\
    forall fuel c n, eval terms dflt (espec cls terms label sem s') fuel c n
                     = eval terms dflt (espec cls terms label sem s) fuel c n.
Proof.
  intros s H. exists (strip_spec cls s). split; [eapply spec_roundtrip; eauto|].
  split; [reflexivity|]. split; [unfold strip_spec; simpl; rewrite map_map; reflexivity|].
  apply same_enumeration; auto. apply strip_same_structure.
Qed.

(* the general form: ANY two specification objects of the same structure (same root, same classes
   in the same order, rules equal up to __orig_class__) enumerate the same - e.g. the original and
   what a second, third .. round trip returns *)
Theorem C18_same_structure_same_enumeration : forall a b,
  same_structure cls a b ->
  forall fuel c n, eval terms dflt (espec cls terms label sem a) fuel c n
                   = eval terms dflt (espec cls terms label sem b) fuel c n.
Proof. intros a b H. apply same_enumeration; auto. Qed.

(* composition with C01: the CONCLUSION of C01_spec_correct / C01_spec_correct_constructors / the forest
   pipeline theorems (with enough recursion budget, eval returns the true table T of a class at every size)
   is inherited by the reloaded specification, for the same classes, sizes and budgets - "counts the same"
   is thus "counts CORRECTLY whenever the original did", without re-examining the reloaded rules *)
Theorem C18_roundtrip_still_correct : forall s (T : nat -> Z -> terms) c,
  spec_wf s ->
  (forall n, 0 <= n -> exists f0, forall f, (f0 <= f)%nat ->
     eval terms dflt (espec cls terms label sem s) f c n = T c n) ->
  exists s', spec_of_json (json_of_spec s) = Ok s' /\
    forall n, 0 <= n -> exists f0, forall f, (f0 <= f)%nat ->
      eval terms dflt (espec cls terms label sem s') f c n = T c n.
Proof.
  intros s T c Hwf Hc. destruct (C18_roundtrip_same_enumeration s Hwf) as (s' & Hr & _ & _ & He).
  exists s'. split; [exact Hr|]. intros n Hn. destruct (Hc n Hn) as (f0 & Hf0).
  exists f0. intros f Hf. rewrite He. exact (Hf0 f Hf).
Qed.
End Enumeration.

(* per-rule observables (get_equation of a rule, formal_step, constructor, shifts ..): any function
   of a rule object that does not read __orig_class__ has the same value, class by class in the same
   order, on the reloaded specification *)
Theorem C18_roundtrip_same_rule_observables : forall (X : Type) (obs : rule cls -> X) s,
  (forall r, obs (strip_rule cls r) = obs r) ->
  spec_wf s ->
  exists s', spec_of_json (json_of_spec s) = Ok s' /\
    map (fun kr : cls * rule cls => (fst kr, obs (snd kr))) (sp_rules cls s')
    = map (fun kr : cls * rule cls => (fst kr, obs (snd kr))) (sp_rules cls s).
Proof.
  intros X obs s Ho H. exists (strip_spec cls s). split; [eapply spec_roundtrip; eauto|].
  apply strip_same_observables. exact Ho.
Qed.

End C18.

(* the decimal object keys of the bijection's maps: int(f"{n}") = n *)
Theorem C18_decimal_keys : forall n, 0 <= n -> Z_of_dec (dec_of_Z n) = Some n.
Proof. exact dec_roundtrip. Qed.

(* ------------------------------------------------------------------ non-vacuity *)
Module Example.
Fixpoint s2l (s : string) : str :=
  match s with
  | EmptyString => []
  | String a r => Z.of_N (N_of_ascii a) :: s2l r
  end.
Definition U := s2l "U".
Definition V := s2l "V".
Definition M := s2l "m".
Definition cat_of (m n : str) : option scat :=
  if str_eqb n U then Some CStrategy
  else if str_eqb n V then Some CVerif
  else if str_eqb n n_EmptyStrategy then Some CEmpty else None.
Definition user_from_dict (m n : str) (d : list (str * json)) : res (option flags * list (str * json)) :=
  match cat_of m n, d with
  | Some CStrategy, (_, JBool a) :: (_, JBool b) :: (_, JBool c) :: (_, JBool e) :: u => Ok (Some (a, b, c, e), u)
  | Some CVerif, (_, JBool a) :: u => Ok (Some (a, false, false, false), u)
  | _, _ => Err EType
  end.
Definition to_json (c : Z) : json := JNum c.
Definition of_json (j : json) : res Z := match j with JNum z => Ok z | _ => Err EType end.
Definition is_empty (c : Z) : bool := c <? 0.
Definition decomp (s : strat) (c : Z) : option (list Z) :=
  if str_eqb (s_name s) U then (if 0 <? c then Some [c - 1; -1] else None)
  else if c =? 0 then Some [] else None.
Definition u : strat :=
  mkStrat M U (Some (false, true, true, true)) [(s2l "k", JNum 3); (s2l "tag", JStr (s2l "x"))] [].
Definition u_alias : strat :=
  mkStrat M U (Some (false, true, true, true)) [(s2l "k", JNum 3); (s2l "tag", JStr (s2l "x"))]
          [(k_orig_class, 7)].
Definition v : strat := mkStrat M V (Some (true, false, false, false)) [(s2l "depth", JNum 0)] [].
Definition base : rule Z := RRule Z u 3 [2; -1].
(* an equivalence path made of an equivalence rule of a reverse rule and an
   equivalence rule *)
Definition r : rule Z := RPath Z [REquiv Z (RReverse Z base 0); REquiv Z base].
Definition rt (x : rule Z) :=
  rule_of_json Z of_json is_empty cat_of user_from_dict decomp (fun _ _ => true) (fun _ _ _ => true)
               (json_of_rule Z to_json cat_of x).
Definition s0 :=
  spec_init Z Z.eqb is_empty cat_of decomp 1 [RRule Z u_alias 1 [0; -1]; RVerif Z v 0 []].
End Example.

Example C18_nonvacuous :
  rule_ok Z Z.eqb Example.is_empty Example.cat_of Example.decomp (fun _ _ => true) (fun _ _ _ => true) Example.r = true /\
  Example.rt Example.r = Ok Example.r /\
  strat_eq Example.u Example.u_alias = true /\
  match Example.s0 with
  | Ok s =>
      List.length (sp_rules Z s) = 3%nat /\
      spec_closed Z Z.eqb Example.is_empty s = true /\
      spec_of_json Z Z.eqb Example.of_json Example.is_empty Example.cat_of Example.user_from_dict Example.decomp
                   (fun _ _ => true) (fun _ _ _ => true) (json_of_spec Z Example.to_json Example.cat_of s)
      = Ok (strip_spec Z s) /\
      spec_eq Z Z.eqb Example.is_empty (strip_spec Z s) s = true /\ strip_spec Z s <> s
  | Err _ => False
  end.
Proof. vm_compute. repeat split; try reflexivity. discriminate. Qed.

(* ================================================================ NON-VACUITY (audit)
   Every theorem of Section C18 is APPLIED (all Section hypotheses and all premises discharged at once)
   to the instance of Module Example: classes are integers (negative = empty), codec JNum, three
   strategy classes (U : a Strategy with four flags and two settings, V : a verification strategy,
   the library's EmptyStrategy), an instance u_alias created through a subscripted alias (it carries
   __orig_class__), all five rule forms, a specification with a lazily added empty rule. *)
Module Audit.
Import Example.
Definition rev : strat -> Z -> bool := fun _ _ => true.
Definition cap : strat -> Z -> option Z -> bool := fun _ _ _ => true.
Lemma eqb_spec : forall a b : Z, Z.eqb a b = true <-> a = b.
Proof. exact Z.eqb_eq. Qed.
Lemma codec : forall c : Z, of_json (to_json c) = Ok c.
Proof. reflexivity. Qed.
Lemma empty_cat : cat_of strategy_module n_EmptyStrategy = Some CEmpty.
Proof. reflexivity. Qed.

Lemma u_ok : strat_ok cat_of user_from_dict u.
Proof. vm_compute. reflexivity. Qed.
Lemma ua_ok : strat_ok cat_of user_from_dict u_alias.
Proof. vm_compute. reflexivity. Qed.
Lemma v_ok : strat_ok cat_of user_from_dict v.
Proof. vm_compute. reflexivity. Qed.
Lemma e_ok : strat_ok cat_of user_from_dict empty_strategy.
Proof. vm_compute. split; reflexivity. Qed.
Lemma u_dict : strat_dict_ok u.       Proof. split; reflexivity. Qed.
Lemma ua_dict : strat_dict_ok u_alias. Proof. split; reflexivity. Qed.
Lemma v_dict : strat_dict_ok v.       Proof. split; reflexivity. Qed.
Lemma e_dict : strat_dict_ok empty_strategy. Proof. split; reflexivity. Qed.

(* the rule of Example.r with the aliased instance inside: an equivalence path made of an equivalence
   rule of a reverse rule and an equivalence rule *)
Definition base_a : rule Z := RRule Z u_alias 3 [2; -1].
Definition r_a : rule Z := RPath Z [REquiv Z (RReverse Z base_a 0); REquiv Z base_a].
Lemma r_a_ok : rule_ok Z Z.eqb is_empty cat_of decomp rev cap r_a = true.
Proof. vm_compute. reflexivity. Qed.
Lemma r_a_strats : rule_strats_all Z (strat_ok cat_of user_from_dict) r_a.
Proof. simpl. repeat split; exact ua_ok. Qed.
Lemma r_a_dicts : rule_strats_all Z strat_dict_ok r_a.
Proof. simpl. repeat split. Qed.

Definition pk : pack :=
  mkPack (s2l "pk") [u; u_alias] [v] [v; empty_strategy] [[u_alias; u]; [u]] [u_alias] true.
Lemma pk_ok : pack_ok cat_of user_from_dict pk.
Proof.
  unfold pack_ok, pk; simpl.
  repeat split; repeat constructor; first [exact u_ok | exact ua_ok | exact v_ok | exact e_ok].
Qed.
Lemma pk_dicts : pack_dicts_ok pk.
Proof.
  unfold pack_dicts_ok, pk; simpl.
  repeat split; repeat constructor; reflexivity.
Qed.

(* two specifications: s_a = Example.s0 (root 1; rules 1 -> (0, -1) by the aliased U, 0 verified by V,
   and the lazily added EmptyStrategy rule of -1), s_b with root 2 and one more U rule *)
Definition rules_a : list (rule Z) := [RRule Z u_alias 1 [0; -1]; RVerif Z v 0 []].
Definition rules_b : list (rule Z) := [RRule Z u 2 [1; -1]; RRule Z u_alias 1 [0; -1]; RVerif Z v 0 []].
Definition s_a : spec Z :=
  mkSpec Z 1 [(1, RRule Z u_alias 1 [0; -1]); (0, RVerif Z v 0 []); (-1, RVerif Z empty_strategy (-1) [])].
Definition s_b : spec Z :=
  mkSpec Z 2 [(2, RRule Z u 2 [1; -1]); (1, RRule Z u_alias 1 [0; -1]); (0, RVerif Z v 0 []);
              (-1, RVerif Z empty_strategy (-1) [])].
Lemma s_a_init : spec_init Z Z.eqb is_empty cat_of decomp 1 rules_a = Ok s_a.
Proof. vm_compute. reflexivity. Qed.
Lemma s_b_init : spec_init Z Z.eqb is_empty cat_of decomp 2 rules_b = Ok s_b.
Proof. vm_compute. reflexivity. Qed.
Lemma rules_a_good :
  Forall (fun r => rule_ok Z Z.eqb is_empty cat_of decomp rev cap r = true /\
                   rule_strats_all Z (strat_ok cat_of user_from_dict) r) rules_a.
Proof. repeat constructor; first [exact ua_ok | exact v_ok]. Qed.
Lemma s_a_wf : spec_wf Z Z.eqb is_empty cat_of user_from_dict decomp rev cap s_a.
Proof.
  split; [reflexivity|]. split; [vm_compute; reflexivity|].
  repeat constructor; first [exact ua_ok | exact v_ok | exact e_ok].
Qed.
Lemma s_b_wf : spec_wf Z Z.eqb is_empty cat_of user_from_dict decomp rev cap s_b.
Proof.
  split; [reflexivity|]. split; [vm_compute; reflexivity|].
  repeat constructor; first [exact u_ok | exact ua_ok | exact v_ok | exact e_ok].
Qed.
Lemma s_a_dicts : spec_dicts_ok Z s_a.
Proof. repeat constructor. Qed.

(* a bijection between them: three entries in the order map, two in the index data *)
Definition bj : bij Z :=
  mkBij Z s_a s_b
    [((1, 2), [1; 0]); ((0, 1), [0]); ((1, 1), [0; 1])]
    [((1, 2), JArr [JNum 4; JStr (s2l "d")]); ((1, 1), JNum 7)].
Lemma bj_wf : bij_wf Z Z.eqb is_empty cat_of user_from_dict decomp rev cap bj.
Proof.
  split; [exact s_a_wf|]. split; [exact s_b_wf|]. split; [reflexivity|]. split; [reflexivity|].
  simpl. intros k [<-|[<-|[]]]; auto.
Qed.
End Audit.

(* covers C18_strategy_roundtrip: the aliased instance is reloaded as the plain instance u, which is ==
   the original in both directions although it is a different object (u <> u_alias) *)
Example C18_strategy_roundtrip_nonvacuous :
  strat_of_json Example.cat_of Example.user_from_dict (json_of_strat Example.cat_of Example.u_alias)
    = Ok Example.u /\
  strat_eq Example.u Example.u_alias = true /\ strat_eq Example.u_alias Example.u = true /\
  Example.u <> Example.u_alias.
Proof.
  destruct (C18_strategy_roundtrip Example.cat_of Example.user_from_dict Example.u_alias Audit.ua_ok)
    as [A B].
  split; [exact A|]. destruct (B Audit.ua_dict) as [B1 B2].
  split; [exact B1|]. split; [exact B2|discriminate].
Qed.
(* ... also for a verification strategy and the library's EmptyStrategy (the other to_jsonable shapes) *)
Example C18_strategy_roundtrip_other_kinds :
  strat_of_json Example.cat_of Example.user_from_dict (json_of_strat Example.cat_of Example.v) = Ok Example.v /\
  strat_of_json Example.cat_of Example.user_from_dict (json_of_strat Example.cat_of empty_strategy)
    = Ok empty_strategy.
Proof.
  split.
  - exact (proj1 (C18_strategy_roundtrip Example.cat_of Example.user_from_dict Example.v Audit.v_ok)).
  - exact (proj1 (C18_strategy_roundtrip Example.cat_of Example.user_from_dict empty_strategy Audit.e_ok)).
Qed.

(* covers C18_strategy_eq_kind_settings: both values of the comparison occur *)
Example C18_strategy_eq_kind_settings_nonvacuous :
  strat_eq Example.u_alias Example.u = settings_eq Example.u_alias Example.u /\
  strat_eq Example.u_alias Example.v = settings_eq Example.u_alias Example.v /\
  settings_eq Example.u_alias Example.u = true /\ settings_eq Example.u_alias Example.v = false.
Proof.
  split; [exact (proj1 (C18_strategy_eq_kind_settings Example.u_alias Example.u eq_refl eq_refl))|].
  split; [exact (proj1 (C18_strategy_eq_kind_settings Example.u_alias Example.v eq_refl eq_refl))|].
  split; reflexivity.
Qed.
(* ... and the hypothesis matters: an instance with another added attribute is NOT == its stripped form *)
Example C18_strategy_eq_kind_settings_near_miss :
  let w := mkStrat Example.M Example.U (Some (false, true, true, true)) [] [(Example.s2l "cache", 1)] in
  only_orig_class w = false /\ strat_eq (strip w) w = false /\ settings_eq (strip w) w = true.
Proof. vm_compute. repeat split. Qed.

(* covers C18_loaded_strategy_plain *)
Example C18_loaded_strategy_plain_nonvacuous : plain Example.u = true /\ plain Example.u_alias = false.
Proof.
  split; [|reflexivity].
  apply (C18_loaded_strategy_plain Example.cat_of Example.user_from_dict
           (json_of_strat Example.cat_of Example.u_alias) Example.u).
  vm_compute. reflexivity.
Qed.

(* covers C18_rule_roundtrip (nested rule forms, aliased instances inside): reloaded as Example.r *)
Example C18_rule_roundtrip_nonvacuous :
  Example.rt Audit.r_a = Ok Example.r /\
  rule_eq Z Z.eqb Example.is_empty Example.r Audit.r_a = true /\
  rule_eq Z Z.eqb Example.is_empty Audit.r_a Example.r = true /\
  Example.r <> Audit.r_a.
Proof.
  destruct (C18_rule_roundtrip Z Z.eqb Audit.eqb_spec Example.to_json Example.of_json Audit.codec
              Example.is_empty Example.cat_of Example.user_from_dict Example.decomp Audit.rev Audit.cap
              Audit.r_a Audit.r_a_ok Audit.r_a_strats) as [A [B _]].
  split; [exact A|]. destruct (B Audit.r_a_dicts) as [B1 B2].
  split; [exact B1|]. split; [exact B2|discriminate].
Qed.
(* ... the third conjunct, on the plain rule *)
Example C18_rule_roundtrip_plain : Example.rt Example.r = Ok Example.r.
Proof.
  destruct (C18_rule_roundtrip Z Z.eqb Audit.eqb_spec Example.to_json Example.of_json Audit.codec
              Example.is_empty Example.cat_of Example.user_from_dict Example.decomp Audit.rev Audit.cap
              Example.r ltac:(vm_compute; reflexivity)
              ltac:(simpl; repeat split; exact Audit.u_ok)) as [A [_ C]].
  rewrite (C eq_refl) in A. exact A.
Qed.
(* rule_ok is not true of every rule: stored children that are not what the strategy produces *)
Example C18_rule_ok_near_miss :
  rule_ok Z Z.eqb Example.is_empty Example.cat_of Example.decomp Audit.rev Audit.cap
          (RRule Z Example.u 3 [2; 0]) = false.
Proof. vm_compute. reflexivity. Qed.

(* covers C18_pack_roundtrip: lists of length 2, nested expansion groups, aliased instances *)
Example C18_pack_roundtrip_nonvacuous :
  pack_of_json Example.cat_of Example.user_from_dict (json_of_pack Example.cat_of Audit.pk)
    = Ok (strip_pack Audit.pk) /\
  pack_eq (strip_pack Audit.pk) Audit.pk = true /\ pack_eq Audit.pk (strip_pack Audit.pk) = true /\
  strip_pack Audit.pk <> Audit.pk.
Proof.
  destruct (C18_pack_roundtrip Example.cat_of Example.user_from_dict Audit.pk Audit.pk_ok) as [A B].
  split; [exact A|]. destruct (B Audit.pk_dicts) as [B1 B2].
  split; [exact B1|]. split; [exact B2|discriminate].
Qed.

(* covers C18_spec_roundtrip *)
Example C18_spec_roundtrip_nonvacuous :
  spec_of_json Z Z.eqb Example.of_json Example.is_empty Example.cat_of Example.user_from_dict
               Example.decomp Audit.rev Audit.cap (json_of_spec Z Example.to_json Example.cat_of Audit.s_a)
    = Ok (strip_spec Z Audit.s_a) /\
  spec_eq Z Z.eqb Example.is_empty (strip_spec Z Audit.s_a) Audit.s_a = true /\
  spec_eq Z Z.eqb Example.is_empty Audit.s_a (strip_spec Z Audit.s_a) = true /\
  strip_spec Z Audit.s_a <> Audit.s_a.
Proof.
  destruct (C18_spec_roundtrip Z Z.eqb Audit.eqb_spec Example.to_json Example.of_json Audit.codec
              Example.is_empty Example.cat_of Example.user_from_dict Example.decomp Audit.rev Audit.cap
              Audit.s_a Audit.s_a_wf) as [A [_ [_ [B _]]]].
  split; [exact A|]. destruct (B Audit.s_a_dicts) as [B1 B2].
  split; [exact B1|]. split; [exact B2|discriminate].
Qed.
(* spec_eq discriminates: two well-formed specifications that are not == *)
Example C18_spec_eq_discriminates : spec_eq Z Z.eqb Example.is_empty Audit.s_a Audit.s_b = false.
Proof. vm_compute. reflexivity. Qed.

(* covers C18_constructed_spec_roundtrip (the object the constructor hands back, incl. the lazily
   added rule of the empty class -1) *)
Example C18_constructed_spec_roundtrip_nonvacuous :
  spec_wf Z Z.eqb Example.is_empty Example.cat_of Example.user_from_dict Example.decomp Audit.rev Audit.cap
          Audit.s_a /\
  spec_of_json Z Z.eqb Example.of_json Example.is_empty Example.cat_of Example.user_from_dict
               Example.decomp Audit.rev Audit.cap (json_of_spec Z Example.to_json Example.cat_of Audit.s_a)
    = Ok (strip_spec Z Audit.s_a).
Proof.
  destruct (C18_constructed_spec_roundtrip Z Z.eqb Audit.eqb_spec Example.to_json Example.of_json
              Audit.codec Example.is_empty Example.cat_of Example.user_from_dict Example.decomp
              Audit.rev Audit.cap 1 Audit.rules_a Audit.s_a Audit.empty_cat Audit.rules_a_good
              Audit.s_a_init) as [A [B _]].
  split; assumption.
Qed.
(* ... its last conjunct (exact reproduction) on plainly created rules *)
Example C18_constructed_spec_roundtrip_plain :
  let rules := [RRule Z Example.u 1 [0; -1]; RVerif Z Example.v 0 []] in
  let s := mkSpec Z 1 [(1, RRule Z Example.u 1 [0; -1]); (0, RVerif Z Example.v 0 []);
                       (-1, RVerif Z empty_strategy (-1) [])] in
  spec_of_json Z Z.eqb Example.of_json Example.is_empty Example.cat_of Example.user_from_dict
               Example.decomp Audit.rev Audit.cap (json_of_spec Z Example.to_json Example.cat_of s) = Ok s.
Proof.
  intros rules s.
  destruct (C18_constructed_spec_roundtrip Z Z.eqb Audit.eqb_spec Example.to_json Example.of_json
              Audit.codec Example.is_empty Example.cat_of Example.user_from_dict Example.decomp
              Audit.rev Audit.cap 1 rules s Audit.empty_cat
              ltac:(repeat constructor; first [exact Audit.u_ok | exact Audit.v_ok])
              ltac:(vm_compute; reflexivity)) as [_ [_ C]].
  apply C. reflexivity.
Qed.

(* covers C18_bijection_roundtrip *)
Example C18_bijection_roundtrip_nonvacuous :
  exists b',
    bij_of_json Z Z.eqb Example.of_json Example.is_empty Example.cat_of Example.user_from_dict
                Example.decomp Audit.rev Audit.cap
                (json_of_bij Z Z.eqb Example.to_json Example.cat_of Audit.bj) = Ok b' /\
    b_spec Z b' = strip_spec Z Audit.s_a /\ b_other Z b' = strip_spec Z Audit.s_b /\
    dget (pair_eqb Z Z.eqb) (1, 2) (b_order Z b') = Some [1; 0] /\
    dget (pair_eqb Z Z.eqb) (0, 1) (b_order Z b') = Some [0] /\
    dget (pair_eqb Z Z.eqb) (1, 1) (b_data Z b') = Some (JNum 7) /\
    dget (pair_eqb Z Z.eqb) (0, 1) (b_data Z b') = None.
Proof.
  destruct (C18_bijection_roundtrip Z Z.eqb Audit.eqb_spec Example.to_json Example.of_json Audit.codec
              Example.is_empty Example.cat_of Example.user_from_dict Example.decomp Audit.rev Audit.cap
              Audit.bj Audit.bj_wf) as (b' & A & B & C & D & E).
  exists b'. split; [exact A|]. split; [exact B|]. split; [exact C|].
  rewrite !D, !E. repeat split.
Qed.
(* ... and the dump is a real object (not the JNull of the KeyError branch), with the classes array
   in order of first occurrence *)
Example C18_bijection_roundtrip_value :
  match json_of_bij Z Z.eqb Example.to_json Example.cat_of Audit.bj with
  | JObj kv => dget str_eqb k_classes kv = Some (JArr [JNum 1; JNum 2; JNum 0])
  | _ => False
  end.
Proof. vm_compute. reflexivity. Qed.

(* C18_decimal_keys has a satisfiable premise and a conclusion that discriminates *)
Example C18_decimal_keys_nonvacuous :
  Z_of_dec (dec_of_Z 120) = Some 120 /\ dec_of_Z 120 = [49; 50; 48] /\ Z_of_dec [49; 97] = None.
Proof. split; [apply C18_decimal_keys; discriminate|split; reflexivity]. Qed.

(* ================================================================ factories and atom strategies
   The examples above exercise the categories CStrategy, CVerif and CEmpty.  Module Kinds adds a
   StrategyFactory class F (to_jsonable writes class_module, strategy_class and the settings, NO
   flags: s_flags = None) and the library's AtomStrategy (no flags written, no settings, from_dict
   asserts that nothing is left), alone, inside a pack, and - the atom - inside a rule and a
   specification. *)
Module Kinds.
Import Example.
Definition F := s2l "F".
Definition n_AtomStrategy := s2l "AtomStrategy".
Definition cat_of (m n : str) : option scat :=
  if str_eqb n F then Some CFactory
  else if str_eqb n n_AtomStrategy then Some CAtom
  else Example.cat_of m n.
Definition user_from_dict (m n : str) (d : list (str * json)) : res (option flags * list (str * json)) :=
  match cat_of m n with
  | Some CFactory => Ok (None, d)                      (* cls( **d): every key is a setting *)
  | _ => Example.user_from_dict m n d
  end.
(* the atom strategy verifies the class 0 *)
Definition decomp (s : strat) (c : Z) : option (list Z) :=
  if str_eqb (s_name s) n_AtomStrategy then (if c =? 0 then Some [] else None) else Example.decomp s c.
Definition f : strat := mkStrat M F None [(s2l "max_prefix", JNum 9); (s2l "as_rule", JBool true)] [].
Definition f2 : strat := mkStrat M F None [(s2l "max_prefix", JNum 2); (s2l "as_rule", JBool true)] [].
Definition f_alias : strat :=
  mkStrat M F None [(s2l "max_prefix", JNum 9); (s2l "as_rule", JBool true)] [(k_orig_class, 3)].
Definition atom : strat := mkStrat strategy_module n_AtomStrategy fixed_flags [] [].
Lemma f_ok : strat_ok cat_of user_from_dict f.             Proof. vm_compute. reflexivity. Qed.
Lemma f2_ok : strat_ok cat_of user_from_dict f2.           Proof. vm_compute. reflexivity. Qed.
Lemma fa_ok : strat_ok cat_of user_from_dict f_alias.      Proof. vm_compute. reflexivity. Qed.
Lemma atom_ok : strat_ok cat_of user_from_dict atom.       Proof. vm_compute. split; reflexivity. Qed.
Lemma u_ok : strat_ok cat_of user_from_dict u.             Proof. vm_compute. reflexivity. Qed.
Lemma v_ok : strat_ok cat_of user_from_dict v.             Proof. vm_compute. reflexivity. Qed.
Lemma e_ok : strat_ok cat_of user_from_dict empty_strategy. Proof. vm_compute. split; reflexivity. Qed.
Lemma fa_dict : strat_dict_ok f_alias.                     Proof. split; reflexivity. Qed.
(* a pack with two configurations of the factory class (and the aliased one) among the expansion
   strategies and the atom strategy among the verification strategies *)
Definition pk : pack := mkPack (s2l "kinds") [u] [] [atom; v] [[f; f2]; [f_alias; u]] [] false.
Lemma pk_ok : pack_ok cat_of user_from_dict pk.
Proof.
  unfold pack_ok, pk; simpl.
  repeat split; repeat constructor; first [exact u_ok | exact v_ok | exact atom_ok | exact f_ok | exact f2_ok | exact fa_ok].
Qed.
Lemma pk_dicts : pack_dicts_ok pk.
Proof. unfold pack_dicts_ok, pk; simpl. repeat split; repeat constructor; reflexivity. Qed.
(* a specification whose class 0 is verified by the atom strategy *)
Definition rules_k : list (rule Z) := [RRule Z u 1 [0; -1]; RVerif Z atom 0 []].
Definition s_k : spec Z :=
  mkSpec Z 1 [(1, RRule Z u 1 [0; -1]); (0, RVerif Z atom 0 []); (-1, RVerif Z empty_strategy (-1) [])].
Lemma s_k_init : spec_init Z Z.eqb is_empty cat_of decomp 1 rules_k = Ok s_k.
Proof. vm_compute. reflexivity. Qed.
Lemma rules_k_good :
  Forall (fun r => rule_ok Z Z.eqb is_empty cat_of decomp Audit.rev Audit.cap r = true /\
                   rule_strats_all Z (strat_ok cat_of user_from_dict) r) rules_k.
Proof. repeat constructor; first [exact u_ok | exact atom_ok]. Qed.
Lemma empty_cat : cat_of strategy_module n_EmptyStrategy = Some CEmpty.
Proof. reflexivity. Qed.
End Kinds.

(* C18_strategy_roundtrip on a factory: reloaded exactly; the aliased factory instance is reloaded as
   the plain one and is == it in both directions; the document has NO flag entries *)
Example C18_factory_roundtrip :
  strat_of_json Kinds.cat_of Kinds.user_from_dict (json_of_strat Kinds.cat_of Kinds.f) = Ok Kinds.f /\
  strat_of_json Kinds.cat_of Kinds.user_from_dict (json_of_strat Kinds.cat_of Kinds.f_alias) = Ok Kinds.f /\
  strat_eq Kinds.f Kinds.f_alias = true /\ strat_eq Kinds.f_alias Kinds.f = true /\
  Kinds.f <> Kinds.f_alias /\ strat_eq Kinds.f Kinds.f2 = false /\
  json_of_strat Kinds.cat_of Kinds.f =
    JObj [(k_class_module, JStr Example.M); (k_strategy_class, JStr Kinds.F);
          (Example.s2l "max_prefix", JNum 9); (Example.s2l "as_rule", JBool true)].
Proof.
  split; [exact (proj1 (C18_strategy_roundtrip Kinds.cat_of Kinds.user_from_dict Kinds.f Kinds.f_ok))|].
  destruct (C18_strategy_roundtrip Kinds.cat_of Kinds.user_from_dict Kinds.f_alias Kinds.fa_ok) as [A B].
  split; [exact A|]. destruct (B Kinds.fa_dict) as [B1 B2].
  split; [exact B1|]. split; [exact B2|]. split; [discriminate|]. split; reflexivity.
Qed.
(* ... and on the atom strategy: only the two header keys are written; a document of the atom strategy
   with anything else in it is refused (assert not d), and a factory instance carrying flags does NOT
   satisfy the contract (its to_jsonable would not write them) *)
Example C18_atom_roundtrip :
  strat_of_json Kinds.cat_of Kinds.user_from_dict (json_of_strat Kinds.cat_of Kinds.atom) = Ok Kinds.atom /\
  json_of_strat Kinds.cat_of Kinds.atom =
    JObj [(k_class_module, JStr strategy_module); (k_strategy_class, JStr Kinds.n_AtomStrategy)] /\
  strat_of_json Kinds.cat_of Kinds.user_from_dict
    (JObj [(k_class_module, JStr strategy_module); (k_strategy_class, JStr Kinds.n_AtomStrategy);
           (k_ignore_parent, JBool true)]) = Err EAssert /\
  ~ strat_ok Kinds.cat_of Kinds.user_from_dict
      (mkStrat Example.M Kinds.F (Some (true, false, false, false)) [] []).
Proof.
  split; [exact (proj1 (C18_strategy_roundtrip Kinds.cat_of Kinds.user_from_dict Kinds.atom Kinds.atom_ok))|].
  split; [reflexivity|]. split; [reflexivity|]. vm_compute. discriminate.
Qed.
(* C18_pack_roundtrip on a pack holding two configurations of the factory class, an aliased factory
   instance and the atom strategy: both configurations come back, in place *)
Example C18_pack_roundtrip_factory_atom :
  pack_of_json Kinds.cat_of Kinds.user_from_dict (json_of_pack Kinds.cat_of Kinds.pk) = Ok (strip_pack Kinds.pk) /\
  p_expansion (strip_pack Kinds.pk) = [[Kinds.f; Kinds.f2]; [Kinds.f; Example.u]] /\
  p_ver (strip_pack Kinds.pk) = [Kinds.atom; Example.v] /\
  pack_eq (strip_pack Kinds.pk) Kinds.pk = true /\ pack_eq Kinds.pk (strip_pack Kinds.pk) = true /\
  strip_pack Kinds.pk <> Kinds.pk.
Proof.
  destruct (C18_pack_roundtrip Kinds.cat_of Kinds.user_from_dict Kinds.pk Kinds.pk_ok) as [A B].
  split; [exact A|]. split; [reflexivity|]. split; [reflexivity|]. destruct (B Kinds.pk_dicts) as [B1 B2].
  split; [exact B1|]. split; [exact B2|discriminate].
Qed.
(* C18_rule_roundtrip on the verification rule of the atom strategy; a factory is not the strategy
   of any rule (Rule.from_dict asserts isinstance(strategy, Strategy)) *)
Example C18_rule_roundtrip_atom :
  rule_of_json Z Example.of_json Example.is_empty Kinds.cat_of Kinds.user_from_dict Kinds.decomp Audit.rev Audit.cap
               (json_of_rule Z Example.to_json Kinds.cat_of (RVerif Z Kinds.atom 0 [])) = Ok (RVerif Z Kinds.atom 0 []) /\
  rule_ok Z Z.eqb Example.is_empty Kinds.cat_of Kinds.decomp Audit.rev Audit.cap (RRule Z Kinds.f 1 [0; -1]) = false.
Proof.
  split; [|vm_compute; reflexivity].
  destruct (C18_rule_roundtrip Z Z.eqb Audit.eqb_spec Example.to_json Example.of_json Audit.codec
              Example.is_empty Kinds.cat_of Kinds.user_from_dict Kinds.decomp Audit.rev Audit.cap
              (RVerif Z Kinds.atom 0 []) ltac:(vm_compute; reflexivity) Kinds.atom_ok) as [A [_ C]].
  rewrite (C eq_refl) in A. exact A.
Qed.
(* C18_constructed_spec_roundtrip on a specification whose class 0 is verified by the atom strategy *)
Example C18_constructed_spec_roundtrip_atom :
  spec_of_json Z Z.eqb Example.of_json Example.is_empty Kinds.cat_of Kinds.user_from_dict
               Kinds.decomp Audit.rev Audit.cap (json_of_spec Z Example.to_json Kinds.cat_of Kinds.s_k) = Ok Kinds.s_k.
Proof.
  destruct (C18_constructed_spec_roundtrip Z Z.eqb Audit.eqb_spec Example.to_json Example.of_json
              Audit.codec Example.is_empty Kinds.cat_of Kinds.user_from_dict Kinds.decomp
              Audit.rev Audit.cap 1 Kinds.rules_k Kinds.s_k Kinds.empty_cat Kinds.rules_k_good Kinds.s_k_init)
    as [_ [_ C]].
  apply C. reflexivity.
Qed.

(* ================================================================ same enumeration, applied
   Term tables are plain counts (terms = Z).  The semantics of the universe of Module Example:
   a rule of the strategy class U counts the sum of its children's counts at the same size,
   multiplied by its SETTING k (so the operator depends on a setting); the verification strategy V
   counts one object of size 0; the EmptyStrategy counts nothing; the other rule forms have no
   operator here.  Classes are labelled c |-> c + 1. *)
Module Enum.
Import Example.
Definition label (c : Z) : nat := Z.to_nat (c + 1).
Definition weight (s : strat) : Z :=
  match dget str_eqb (s2l "k") (s_user s) with Some (JNum z) => z | _ => 1 end.
Definition sem (r : rule Z) : option (srule Z) :=
  match r with
  | RRule _ s c ch =>
      Some (mkrule Z (map (fun k => (label k, 0)) ch)
                   (fun p _ n => fold_right Z.add 0 (map (fun i => p i n) (seq 0 (List.length ch))) * weight s))
  | RVerif _ s c ch =>
      Some (mkrule Z [] (fun _ _ n => if str_eqb (s_name s) V then (if n =? 0 then 1 else 0) else 0))
  | _ => None
  end.
Lemma sem_settings : forall r, sem (strip_rule Z r) = sem r.
Proof. intros [s c ch|s c ch|r|rs|r i]; reflexivity. Qed.
Lemma sem_extensional : forall r sr, sem r = Some sr -> op_extensional Z sr.
Proof.
  intros [s c ch|s c ch|r|rs|r i] sr H; inversion H; subst; intros p p' o o' n Hp Ho; simpl; [|reflexivity].
  f_equal. f_equal. apply map_ext. intros i. apply Hp.
Qed.
(* the same specification with the setting k = 4 instead of 3 *)
Definition u4 : strat :=
  mkStrat M U (Some (false, true, true, true)) [(s2l "k", JNum 4); (s2l "tag", JStr (s2l "x"))] [].
Definition s_a4 : spec Z :=
  mkSpec Z 1 [(1, RRule Z u4 1 [0; -1]); (0, RVerif Z v 0 []); (-1, RVerif Z empty_strategy (-1) [])].
End Enum.

(* covers C18_roundtrip_same_enumeration: the specification s_a holds the ALIASED instance of U, the
   reloaded one the plain instance - a different object (C18_spec_roundtrip_nonvacuous) that evaluates
   identically, for every fuel, class and size *)
Example C18_roundtrip_same_enumeration_nonvacuous :
  exists s',
    spec_of_json Z Z.eqb Example.of_json Example.is_empty Example.cat_of Example.user_from_dict
                 Example.decomp Audit.rev Audit.cap (json_of_spec Z Example.to_json Example.cat_of Audit.s_a) = Ok s' /\
    sp_root Z s' = 1 /\ map fst (sp_rules Z s') = [1; 0; -1] /\
    forall fuel c n, eval Z 0 (espec Z Z Enum.label Enum.sem s') fuel c n
                     = eval Z 0 (espec Z Z Enum.label Enum.sem Audit.s_a) fuel c n.
Proof.
  exact (C18_roundtrip_same_enumeration Z Z.eqb Audit.eqb_spec Example.to_json Example.of_json Audit.codec
           Example.is_empty Example.cat_of Example.user_from_dict Example.decomp Audit.rev Audit.cap
           Z 0 Enum.label Enum.sem Enum.sem_settings Enum.sem_extensional Audit.s_a Audit.s_a_wf).
Qed.
(* ... the values: the root (label 2) counts 3 = (1 + 0) * k objects of size 0 and none of size 1, on both
   objects; too little fuel answers the default on both; and the evaluation DISCRIMINATES: the same
   specification with the setting k = 4 counts 4 (so "evaluates identically" is not true of any two
   specifications, and the assumption that sem depends on the settings is used) *)
Example C18_roundtrip_same_enumeration_values :
  eval Z 0 (espec Z Z Enum.label Enum.sem (strip_spec Z Audit.s_a)) 5 2%nat 0 = 3 /\
  eval Z 0 (espec Z Z Enum.label Enum.sem Audit.s_a) 5 2%nat 0 = 3 /\
  eval Z 0 (espec Z Z Enum.label Enum.sem Audit.s_a) 5 2%nat 1 = 0 /\
  eval Z 0 (espec Z Z Enum.label Enum.sem Audit.s_a) 5 1%nat 0 = 1 /\
  eval Z 0 (espec Z Z Enum.label Enum.sem Audit.s_a) 1 2%nat 0 = 0 /\
  eval Z 0 (espec Z Z Enum.label Enum.sem Enum.s_a4) 5 2%nat 0 = 4 /\
  strip_spec Z Audit.s_a <> Audit.s_a.
Proof. vm_compute. repeat split; try reflexivity. discriminate. Qed.
(* covers C18_roundtrip_still_correct: the original s_a evaluates its root (label 2) to the table
   "3 objects of size 0, none of any other size" at EVERY size; hence so does what the reload returns *)
Example C18_roundtrip_still_correct_nonvacuous :
  exists s',
    spec_of_json Z Z.eqb Example.of_json Example.is_empty Example.cat_of Example.user_from_dict
                 Example.decomp Audit.rev Audit.cap (json_of_spec Z Example.to_json Example.cat_of Audit.s_a) = Ok s' /\
    forall n, 0 <= n -> exists f0, forall f, (f0 <= f)%nat ->
      eval Z 0 (espec Z Z Enum.label Enum.sem s') f 2%nat n = (fun (_ : nat) m => if m =? 0 then 3 else 0) 2%nat n.
Proof.
  apply (C18_roundtrip_still_correct Z Z.eqb Audit.eqb_spec Example.to_json Example.of_json Audit.codec
           Example.is_empty Example.cat_of Example.user_from_dict Example.decomp Audit.rev Audit.cap
           Z 0 Enum.label Enum.sem Enum.sem_settings Enum.sem_extensional Audit.s_a
           (fun (_ : nat) m => if m =? 0 then 3 else 0) 2%nat Audit.s_a_wf).
  intros n Hn. exists 2%nat. intros f Hf.
  destruct f as [|[|f]]; [inversion Hf|inversion Hf as [|k Hk]; inversion Hk|].
  destruct (n =? 0) eqn:E0.
  - apply Z.eqb_eq in E0. subst n. vm_compute. reflexivity.
  - destruct n as [|p|p]; [discriminate E0|vm_compute; reflexivity|exfalso; apply Hn; reflexivity].
Qed.
(* covers C18_same_structure_same_enumeration (a second round trip: strip of strip) and
   C18_roundtrip_same_rule_observables (the observable: the weight of the rule's strategy) *)
Example C18_same_structure_same_enumeration_nonvacuous :
  forall fuel c n,
    eval Z 0 (espec Z Z Enum.label Enum.sem (strip_spec Z (strip_spec Z Audit.s_a))) fuel c n
    = eval Z 0 (espec Z Z Enum.label Enum.sem Audit.s_a) fuel c n.
Proof.
  apply (C18_same_structure_same_enumeration Z Z 0 Enum.label Enum.sem Enum.sem_settings Enum.sem_extensional).
  split; [reflexivity|]. split; reflexivity.
Qed.
Example C18_roundtrip_same_rule_observables_nonvacuous :
  exists s',
    spec_of_json Z Z.eqb Example.of_json Example.is_empty Example.cat_of Example.user_from_dict
                 Example.decomp Audit.rev Audit.cap (json_of_spec Z Example.to_json Example.cat_of Audit.s_a) = Ok s' /\
    map (fun kr : Z * rule Z => (fst kr, option_map Enum.weight (rule_strat Z Example.is_empty (snd kr)))) (sp_rules Z s')
    = [(1, Some 3); (0, Some 1); (-1, Some 1)].
Proof.
  destruct (C18_roundtrip_same_rule_observables Z Z.eqb Audit.eqb_spec Example.to_json Example.of_json Audit.codec
              Example.is_empty Example.cat_of Example.user_from_dict Example.decomp Audit.rev Audit.cap
              (option Z) (fun r => option_map Enum.weight (rule_strat Z Example.is_empty r)) Audit.s_a
              ltac:(intros r; cbv beta; rewrite rule_strat_strip; destruct (rule_strat Z Example.is_empty r); reflexivity)
              Audit.s_a_wf) as (s' & A & B).
  exists s'. split; [exact A|]. rewrite B. reflexivity.
Qed.

Print Assumptions C18_strategy_roundtrip.
Print Assumptions C18_strategy_eq_kind_settings.
Print Assumptions C18_loaded_strategy_plain.
Print Assumptions C18_rule_roundtrip.
Print Assumptions C18_pack_roundtrip.
Print Assumptions C18_spec_roundtrip.
Print Assumptions C18_constructed_spec_roundtrip.
Print Assumptions C18_bijection_roundtrip.
Print Assumptions C18_roundtrip_same_enumeration.
Print Assumptions C18_same_structure_same_enumeration.
Print Assumptions C18_roundtrip_still_correct.
Print Assumptions C18_roundtrip_same_rule_observables.
Print Assumptions C18_decimal_keys.

(* ================================================================ DECIDED HYPOTHESES (gap G.1 #2)
   A theorem about run_c18 covers a generated case only if its hypotheses hold on THAT case.
   Json/Deciders.v decides them: `strat_okb` RUNS the class's from_dict (`user_from_dict`) on what
   to_jsonable writes and compares the answer with the instance (json_eqb decides Leibniz equality of
   documents: Deciders.json_eqb_spec), `rule_strats_okb` does so for every strategy inside a rule,
   `spec_wfb` = distinct keys && spec_closed && every rule_ok && every rule's strategies ok,
   `bij_wfb` = spec_wfb of both specifications && distinct keys of the order map && distinct keys of
   the index data && every key of the index data is a key of the order map.  run_c18 appends the 11
   bits `bij_wf_bits` to its output on every kind-4 input (Json/Run.v, bij_wf_verdict); the harness
   computes the same bits in Python, the two are diffed on every case, and extra_checks counts on how
   many compared bijections all 11 are 1 ("covered_by_theorem C18_bijection_roundtrip: k of n").
   SOUNDNESS only (decider = true -> hypothesis); completeness is not needed for the counting. *)
From CSS Require Import Json.Deciders.

Section C18_decided.
Variable cls : Type.
Variable cls_eqb : cls -> cls -> bool.
Hypothesis cls_eqb_spec : forall a b, cls_eqb a b = true <-> a = b.
Variable cls_to_json : cls -> json.
Variable cls_of_json : json -> res cls.
Hypothesis cls_roundtrip : forall c, cls_of_json (cls_to_json c) = Ok c.
Variable is_empty : cls -> bool.
Variable cat_of : str -> str -> option scat.
Variable user_from_dict : str -> str -> list (str * json) -> res (option flags * list (str * json)).
Variable decomp : strat -> cls -> option (list cls).
Variable reversible : strat -> cls -> bool.
Variable eqv_cap : strat -> cls -> option Z -> bool.

Notation spec_wf := (spec_wf cls cls_eqb is_empty cat_of user_from_dict decomp reversible eqv_cap).
Notation spec_wfb := (spec_wfb cls cls_eqb is_empty cat_of user_from_dict decomp reversible eqv_cap).
Notation bij_wf := (bij_wf cls cls_eqb is_empty cat_of user_from_dict decomp reversible eqv_cap).
Notation bij_wfb := (bij_wfb cls cls_eqb is_empty cat_of user_from_dict decomp reversible eqv_cap).

Theorem C18_strat_ok_decided : forall s,
  strat_okb cat_of user_from_dict s = true -> strat_ok cat_of user_from_dict s.
Proof. exact (strat_okb_sound cat_of user_from_dict). Qed.

Theorem C18_rule_strats_ok_decided : forall r,
  rule_strats_okb cls cat_of user_from_dict r = true ->
  rule_strats_all cls (strat_ok cat_of user_from_dict) r.
Proof. exact (rule_strats_okb_sound cls cat_of user_from_dict). Qed.

Theorem C18_pack_ok_decided : forall p,
  pack_okb cat_of user_from_dict p = true -> pack_ok cat_of user_from_dict p.
Proof. exact (pack_okb_sound cat_of user_from_dict). Qed.

Theorem C18_spec_wf_decided : forall s, spec_wfb s = true -> spec_wf s.
Proof. apply spec_wfb_sound. Qed.

Theorem C18_bij_wf_decided : forall b, bij_wfb b = true -> bij_wf b.
Proof. apply bij_wfb_sound. intros a b H. apply cls_eqb_spec. exact H. Qed.

(* C18_spec_roundtrip (first conjunct) and C18_bijection_roundtrip with the hypothesis replaced by
   its decider *)
Theorem C18_spec_roundtrip_decided : forall s,
  spec_wfb s = true ->
  spec_of_json cls cls_eqb cls_of_json is_empty cat_of user_from_dict decomp reversible eqv_cap
               (json_of_spec cls cls_to_json cat_of s) = Ok (strip_spec cls s).
Proof.
  intros s H. apply (spec_roundtrip cls cls_eqb cls_eqb_spec cls_to_json cls_of_json cls_roundtrip).
  apply C18_spec_wf_decided. exact H.
Qed.

Theorem C18_bijection_roundtrip_decided : forall b,
  bij_wfb b = true ->
  exists b', bij_of_json cls cls_eqb cls_of_json is_empty cat_of user_from_dict decomp reversible eqv_cap
                         (json_of_bij cls cls_eqb cls_to_json cat_of b) = Ok b' /\
    b_spec cls b' = strip_spec cls (b_spec cls b) /\
    b_other cls b' = strip_spec cls (b_other cls b) /\
    (forall k, dget (pair_eqb cls cls_eqb) k (b_order cls b') = dget (pair_eqb cls cls_eqb) k (b_order cls b)) /\
    (forall k, dget (pair_eqb cls cls_eqb) k (b_data cls b') = dget (pair_eqb cls cls_eqb) k (b_data cls b)).
Proof.
  intros b H.
  apply (C18_bijection_roundtrip cls cls_eqb cls_eqb_spec cls_to_json cls_of_json cls_roundtrip).
  apply C18_bij_wf_decided. exact H.
Qed.
End C18_decided.

(* The verdict run_c18 PRINTS for a kind-4 input is sound for `bij_wf` at exactly the instantiation
   of the user-code variables that run_c18 uses (classes = their JSON compared by json_eqb, the
   per-case tables T): if all printed bits are non-zero, `bij_wf` holds of the decoded descriptor.
   (The two codec hypotheses cls_eqb_spec / cls_roundtrip of Section C18 are not part of bij_wf:
   the first is Deciders.json_eqb_spec at this instance, the second stays the class-codec contract.) *)
From CSS Require Base.Sx Json.Run.
Theorem C18_run_bij_verdict_sound : forall (T : Json.Run.tables) (d : Base.Sx.sx),
  forallb Base.Sx.sx_bool (Base.Sx.sx_list (Json.Run.bij_wf_verdict T d)) = true ->
  bij_wf json json_eqb (Json.Run.i_is_empty T) (Json.Run.i_cat_of T) (Json.Run.i_user_from_dict T)
         (Json.Run.i_decomp T) (Json.Run.i_reversible T) (Json.Run.i_eqv_cap T) (Json.Run.dec_bij d).
Proof.
  intros T d H. apply (bij_wfb_sound json json_eqb json_eqb_eq).
  unfold Deciders.bij_wfb. unfold Json.Run.bij_wf_verdict in H. cbn [Base.Sx.sx_list] in H.
  apply (forallb_map_bits Base.Sx.sx_bool Base.Sx.of_bool); [intros [|]; reflexivity|exact H].
Qed.

(* the same for the 4 bits printed for a kind-3 (specification) input and `spec_wf` *)
Theorem C18_run_spec_verdict_sound : forall (T : Json.Run.tables) (d : Base.Sx.sx),
  forallb Base.Sx.sx_bool (Base.Sx.sx_list (Json.Run.spec_wf_verdict T d)) = true ->
  spec_wf json json_eqb (Json.Run.i_is_empty T) (Json.Run.i_cat_of T) (Json.Run.i_user_from_dict T)
          (Json.Run.i_decomp T) (Json.Run.i_reversible T) (Json.Run.i_eqv_cap T) (Json.Run.dec_spec d).
Proof.
  intros T d H. apply spec_wfb_sound.
  apply (forallb_map_bits Base.Sx.sx_bool Base.Sx.of_bool); [intros [|]; reflexivity|exact H].
Qed.

(* ... and for the bits printed for kinds 0, 1, 2: strat_ok, rule_ok + rule_strats_ok, pack_ok *)
Theorem C18_run_small_verdicts_sound : forall (T : Json.Run.tables) (d : Base.Sx.sx),
  (forallb Base.Sx.sx_bool (Base.Sx.sx_list (Json.Run.strat_verdict T d)) = true ->
   strat_ok (Json.Run.i_cat_of T) (Json.Run.i_user_from_dict T) (Json.Run.dec_strat d)) /\
  (forallb Base.Sx.sx_bool (Base.Sx.sx_list (Json.Run.rule_verdict T d)) = true ->
   rule_ok json json_eqb (Json.Run.i_is_empty T) (Json.Run.i_cat_of T) (Json.Run.i_decomp T)
           (Json.Run.i_reversible T) (Json.Run.i_eqv_cap T) (Json.Run.dec_rule d) = true /\
   rule_strats_all json (strat_ok (Json.Run.i_cat_of T) (Json.Run.i_user_from_dict T)) (Json.Run.dec_rule d)) /\
  (forallb Base.Sx.sx_bool (Base.Sx.sx_list (Json.Run.pack_verdict T d)) = true ->
   pack_ok (Json.Run.i_cat_of T) (Json.Run.i_user_from_dict T) (Json.Run.dec_pack d)).
Proof.
  intros T d.
  assert (forall b, Base.Sx.sx_bool (Base.Sx.of_bool b) = b) as Hb by (intros [|]; reflexivity).
  split; [|split]; intros H.
  - apply strat_okb_sound. exact (bits1 _ _ Hb _ H).
  - destruct (bits2 _ _ Hb _ _ H) as [H1 H2]. split; [exact H1|]. apply rule_strats_okb_sound. exact H2.
  - apply pack_okb_sound. exact (bits1 _ _ Hb _ H).
Qed.

(* non-vacuity: the deciders answer true on the bijection of Module Audit (its specifications contain an
   aliased instance, a nested path of equivalence / reverse rules, a lazily added empty rule), so
   C18_bijection_roundtrip_decided applies to it by COMPUTATION of the hypothesis ... *)
Example C18_bij_wfb_nonvacuous :
  bij_wf_bits Z Z.eqb Example.is_empty Example.cat_of Example.user_from_dict Example.decomp Audit.rev Audit.cap Audit.bj
  = [true; true; true; true; true; true; true; true; true; true; true].
Proof. vm_compute. reflexivity. Qed.
Example C18_bijection_roundtrip_decided_nonvacuous :
  exists b',
    bij_of_json Z Z.eqb Example.of_json Example.is_empty Example.cat_of Example.user_from_dict
                Example.decomp Audit.rev Audit.cap
                (json_of_bij Z Z.eqb Example.to_json Example.cat_of Audit.bj) = Ok b' /\
    b_spec Z b' = strip_spec Z Audit.s_a /\ b_other Z b' = strip_spec Z Audit.s_b.
Proof.
  destruct (C18_bijection_roundtrip_decided Z Z.eqb Audit.eqb_spec Example.to_json Example.of_json Audit.codec
              Example.is_empty Example.cat_of Example.user_from_dict Example.decomp Audit.rev Audit.cap
              Audit.bj ltac:(vm_compute; reflexivity)) as (b' & A & B & C & _).
  exists b'. split; [exact A|]. split; [exact B|exact C].
Qed.
(* ... and they DISCRIMINATE, conjunct by conjunct: an index-data key that is no key of the order map
   (bit 11), a repeated order key (bit 9), a strategy whose from_dict does not restore its settings
   (wrong number of flag entries for the example class U: bit 4 of the domain specification), a
   specification with a child without rule (bit 2) *)
Example C18_bij_wfb_near_misses :
  let bits := bij_wf_bits Z Z.eqb Example.is_empty Example.cat_of Example.user_from_dict Example.decomp Audit.rev Audit.cap in
  bits (mkBij Z Audit.s_a Audit.s_b (b_order Z Audit.bj) [((2, 2), JNum 7)])
  = [true; true; true; true; true; true; true; true; true; true; false] /\
  bits (mkBij Z Audit.s_a Audit.s_b [((1, 2), [1; 0]); ((1, 2), [0])] [])
  = [true; true; true; true; true; true; true; true; false; true; true] /\
  bits (mkBij Z (mkSpec Z 1 [(1, RRule Z (mkStrat Example.M Example.U None [] []) 1 [0; -1])]) Audit.s_b [] [])
  = [true; false; true; false; true; true; true; true; true; true; true].
Proof. vm_compute. repeat split. Qed.

Print Assumptions C18_strat_ok_decided.
Print Assumptions C18_rule_strats_ok_decided.
Print Assumptions C18_spec_wf_decided.
Print Assumptions C18_bij_wf_decided.
Print Assumptions C18_spec_roundtrip_decided.
Print Assumptions C18_bijection_roundtrip_decided.
Print Assumptions C18_run_bij_verdict_sound.
Print Assumptions C18_run_spec_verdict_sound.
Print Assumptions C18_run_small_verdicts_sound.
Print Assumptions C18_pack_ok_decided.
