(* C16 — the work queue schedules every class completely, once, in order, and
   terminates.  Only statements; proofs are applications of lemmas of
   Queue/{Termination,Invariant,Trace,Bound,First}.v.

   The pack (inferral strategies, initial strategies, expansion sets — any
   numbers, any sizes, possibly empty) is a Section variable.  `run ops` is the
   final state and the list of results (one per operation) of ANY history of
     OAdd l | ONotInf l | OVerified l | OStop l | ONext | ODoLevel | OLevelNext
   on a fresh DefaultQueue.  `handed evs` are the packets handed out in the
   history (by next(queue) or by the do_level generator), in order;
   `fl l ps` keeps the packets of label l;
   `all_work l`  = [inferral packet, if the pack has inferral strategies]
                   ++ one packet per initial strategy, in pack order
                   ++ one packet per strategy of expansion set 0, 1, ... in pack order;
   `noinf_work l` = the same without the inferral packet. *)
From Coq Require Import ZArith List Bool Lia.
From CSS Require Import Queue.Model Queue.Lists Queue.Termination Queue.Invariant Queue.Trace.
From CSS Require Import Queue.Bound Queue.First.
From CSS Require Gen.QueueCanDoInferral Gen.QueueCanDoInitial Gen.QueueChangeLevelOrder.
From CSS Require Import Queue.GenBridge.
Import ListNotations.
Open Scope nat_scope.

Section C16.
Variable inferral_strategies : list Z.
Variable initial_strategies : list Z.
Variable expansion_strats : list (list Z).

Notation next := (next inferral_strategies initial_strategies expansion_strats).
Notation next_fuel := (next_fuel inferral_strategies initial_strategies expansion_strats).
Notation gen_next := (gen_next inferral_strategies initial_strategies expansion_strats).
Notation exec := (exec inferral_strategies initial_strategies expansion_strats).
Notation run ops := (exec (init_state expansion_strats) ops).
Notation all_work := (all_work inferral_strategies initial_strategies expansion_strats).
Notation noinf_work := (noinf_work initial_strategies expansion_strats).
Notation inf_packet := (inf_packet inferral_strategies).

(* ---- termination ---- *)

(* next(queue) terminates on EVERY queue state (reachable or not): with the
   fuel given by the measure `mu` it answers a packet or StopIteration, never
   "out of fuel" and never an AssertionError ... *)
Theorem C16_next_terminates : forall q,
  match fst (next q) with RPacket _ | RStop => True | RAssert | RFuel => False end.
Proof.
  intros q. pose proof (next_total inferral_strategies initial_strategies expansion_strats q) as X.
  destruct (next q) as [[p| | |] q']; cbn; tauto.
Qed.

(* ... and the fuel is not a cut-off: any larger fuel gives the same answer *)
Theorem C16_fuel_irrelevant : forall q n, fuel_of q <= n -> next_fuel n q = next q.
Proof. intros q n. apply next_fuel_enough. Qed.

(* in every history every operation answers (one result per operation), and no
   result is an AssertionError or a fuel exhaustion *)
Theorem C16_history_total : forall ops s evs,
  run ops = (s, evs) ->
  length evs = length ops /\ Forall (fun e => e <> EAssert /\ e <> EFuel) evs.
Proof. intros ops s evs. apply run_total. Qed.

(* ---- 1. never ignored ---- *)

(* once a label is told to stop (set_stop_yielding or set_verified), no packet
   handed out later in the history carries it *)
Theorem C16_never_ignored : forall ops1 o ops2 l s evs,
  o = OStop l \/ o = OVerified l ->
  run (ops1 ++ o :: ops2) = (s, evs) ->
  forall p, In p (handed (skipn (S (length ops1)) evs)) -> p_label p <> l.
Proof.
  intros ops1 o ops2 l s evs Ho. eapply never_ignored_trace.
  destruct Ho as [-> | ->]; left; reflexivity.
Qed.

(* at hand-out time the packet's label is not in the queue's ignore set
   (neither before nor after the call) *)
Theorem C16_never_ignored_state : forall ops s evs p q',
  run ops = (s, evs) -> next (sq s) = (RPacket p, q') ->
  ~ In (p_label p) (ignore q') /\ ~ In (p_label p) (ignore (sq s)).
Proof. intros ops s evs p q'. apply never_ignored_state. Qed.

(* ---- 3. order ---- *)

(* per label, what has been handed out is always a PREFIX of its work in the
   prescribed order: inferral, then the initial strategies in pack order, then
   expansion set 0, 1, ... each in pack order, or of the same list without the
   inferral packet (this theorem puts NO condition on the second alternative;
   WHEN the inferral packet may be missing is C16_inferral_first) *)
Theorem C16_order : forall ops s evs l,
  run ops = (s, evs) ->
  prefix (fl l (handed evs)) (all_work l) \/ prefix (fl l (handed evs)) (noinf_work l).
Proof. intros ops s evs l. apply order_trace. Qed.

(* ---- 2. no duplicate ---- *)

(* if the initial and expansion strategies of the pack are pairwise distinct,
   no PACKET (label, strategies, inferral flag) is handed out twice in a
   history.  (A strategy that is also one of the inferral strategies is still
   applied twice to a label: inside the inferral packet and alone; the
   hypothesis does not mention the inferral list.) *)
Theorem C16_no_duplicate :
  NoDup (initial_strategies ++ concat expansion_strats) ->
  forall ops s evs, run ops = (s, evs) -> NoDup (handed evs).
Proof.
  intros N ops s evs E. apply NoDup_by_label. intros l.
  destruct (C16_order ops s evs l E) as [P|P]; eapply prefix_NoDup; try exact P.
  - apply NoDup_all_work. exact N.
  - apply NoDup_noinf_work. exact N.
Qed.

(* ---- 4. complete when drained ---- *)

(* when next(queue) signals StopIteration, every label that was added and that
   the user never told to stop has received ALL its work, in order; the
   inferral packet may only be missing if the user marked the label
   not-inferrable *)
Theorem C16_complete_when_drained : forall ops s evs q',
  run ops = (s, evs) -> next (sq s) = (RStop, q') ->
  forall l, In l (added ops) -> ~ In l (stopped ops) ->
  fl l (handed evs) = all_work l \/
  (In l (notinf ops) /\ fl l (handed evs) = noinf_work l).
Proof. intros ops s evs q'. apply complete_when_drained. Qed.

(* ---- 5. exhaustion is stable; do_level ---- *)

(* StopIteration leaves a queue on which next raises StopIteration again and
   changes nothing — for EVERY queue state *)
Theorem C16_stop_again : forall q q', next q = (RStop, q') -> next q' = (RStop, q').
Proof. intros q q'. apply stop_again. Qed.

(* after StopIteration in a history, whatever is done next except an add
   (marks, next, do_level, next(generator), in any number and order) hands out
   nothing, and every next(queue) raises StopIteration *)
Theorem C16_exhaustion_stable : forall ops s evs q' g more s' evs',
  run ops = (s, evs) -> next (sq s) = (RStop, q') ->
  Forall no_add more -> exec (mks q' g) more = (s', evs') ->
  handed evs' = [] /\
  Forall2 (fun o e => o = ONext -> e = EStopIteration) more evs'.
Proof. intros ops s evs q' g more s' evs'. apply exhaustion_stable. Qed.

(* one resumption of the do_level generator that captured level c, on EVERY
   queue state: if the level counter has moved it finishes at once; otherwise
   it yields exactly what next(queue) yields, and when next(queue) raises
   StopIteration it raises NoMoreClassesToExpandError iff the level counter
   is still c, else it finishes (the counter has strictly advanced - possibly
   in this very call, without anything having been yielded: C16_phantom_level) *)
Theorem C16_do_level : forall c q e g' q',
  gen_next (GRunning c) q = (e, g', q') ->
  (c <> levels_completed q -> e = EGenStop /\ g' = GDone /\ q' = q) /\
  (c = levels_completed q ->
     match e with
     | EPacket p => g' = GRunning c /\ next q = (RPacket p, q')
     | ENoMore => g' = GDone /\ levels_completed q' = c /\ next q = (RStop, q')
     | EGenStop => g' = GDone /\ c < levels_completed q' /\ next q = (RStop, q')
     | _ => False
     end).
Proof.
  intros c q e g' q' E. cbn [Model.gen_next] in E.
  pose proof (gen_loop_spec inferral_strategies initial_strategies expansion_strats c q) as X.
  rewrite E in X. split; intros Hc.
  - apply Nat.eqb_neq in Hc. rewrite Hc in X. exact X.
  - apply Nat.eqb_eq in Hc. rewrite Hc in X. exact X.
Qed.

(* the generator body starts at the first next(generator): a fresh generator
   captures the level counter of that moment; a finished one stays finished *)
Theorem C16_do_level_fresh_done : forall q,
  gen_next GFresh q = gen_next (GRunning (levels_completed q)) q /\
  gen_next GDone q = (EGenStop, GDone, q).
Proof. intros q. split; reflexivity. Qed.

(* ---- 6. only added labels; the packets of a RUN are bounded; a drain terminates ---- *)

(* every packet handed out in a history carries a label that was added in that
   history (the queue fabricates no label) ... *)
Theorem C16_only_added : forall ops s evs p,
  run ops = (s, evs) -> In p (handed evs) -> In (p_label p) (added ops).
Proof. exact (only_added inferral_strategies initial_strategies expansion_strats). Qed.

(* ... and so does every label that is still anywhere in the queue: in
   `working`, a key of `next_level`, in a deque of `curr_level`, or on a staged
   packet (the converse of the coverage part of the invariant) *)
Theorem C16_queue_only_added : forall ops s evs,
  run ops = (s, evs) ->
  incl (working (sq s)) (added ops) /\ incl (keys (next_level (sq s))) (added ops) /\
  incl (concat (curr_level (sq s))) (added ops) /\
  (forall p, In p (staging (sq s)) -> In (p_label p) (added ops)).
Proof. exact (run_Sub inferral_strategies initial_strategies expansion_strats). Qed.

(* the number of packets of a whole history is at most (number of DISTINCT
   labels added) * (packets of one label: 1 if the pack has inferral
   strategies + number of initial strategies + total size of the expansion
   sets).  No hypothesis on the pack: repeated strategies are counted with
   their multiplicity in `all_work`. *)
Theorem C16_packets_bounded : forall ops s evs,
  run ops = (s, evs) ->
  length (handed evs) <= length (nodup Z.eq_dec (added ops)) * length (all_work 0%Z).
Proof. exact (handed_bound inferral_strategies initial_strategies expansion_strats). Qed.

(* TERMINATION OF A RUN: after ANY history, calling next(queue) repeatedly
   (nothing added in between) reaches StopIteration: the (n+1)-th call answers
   StopIteration for some n with n + (packets handed out so far) <= the bound
   above; so at most `bound - handed so far` further packets exist. *)
Theorem C16_drain_terminates : forall ops,
  exists n,
    n + length (handed (snd (run ops))) <=
      length (nodup Z.eq_dec (added ops)) * length (all_work 0%Z) /\
    last (snd (run (ops ++ repeat ONext (S n)))) ENone = EStopIteration.
Proof. exact (drain_terminates_run inferral_strategies initial_strategies expansion_strats). Qed.

(* ... and from then on every further next(queue) of the drain answers
   StopIteration too (C16_exhaustion_stable says the same for any continuation
   without an add) *)
Theorem C16_drain_stays_stopped : forall ops n,
  last (snd (run (ops ++ repeat ONext (S n)))) ENone = EStopIteration ->
  forall m, n <= m -> last (snd (run (ops ++ repeat ONext (S m)))) ENone = EStopIteration.
Proof. exact (drain_stays inferral_strategies initial_strategies expansion_strats). Qed.

(* LIVENESS ("schedules every class completely"): after ANY history, the drain
   above ends - after n further packets, n within the bound - with every label
   that was added and that the user never told to stop having received ALL its
   work in order (the inferral packet missing only if the label was marked
   not-inferrable) *)
Theorem C16_every_class_eventually_complete : forall ops,
  exists n,
    n + length (handed (snd (run ops))) <=
      length (nodup Z.eq_dec (added ops)) * length (all_work 0%Z) /\
    last (snd (run (ops ++ repeat ONext (S n)))) ENone = EStopIteration /\
    forall l, In l (added ops) -> ~ In l (stopped ops) ->
      fl l (handed (snd (run (ops ++ repeat ONext n)))) = all_work l \/
      (In l (notinf ops) /\ fl l (handed (snd (run (ops ++ repeat ONext n)))) = noinf_work l).
Proof. exact (eventually_complete inferral_strategies initial_strategies expansion_strats). Qed.

(* the factor of the bound: the work of one label, whatever the label *)
Theorem C16_work_size : forall l,
  length (all_work l) =
  (if nonempty inferral_strategies then 1 else 0) + length initial_strategies +
  length (concat expansion_strats).
Proof. exact (length_all_work_eq inferral_strategies initial_strategies expansion_strats). Qed.

(* the same for level-wise iteration: after ANY history, resuming the do_level
   generator again and again ends the pass: the (n+1)-th next(generator) raises
   StopIteration (level complete) or NoMoreClassesToExpandError, for some n with
   n + (packets handed out so far) <= the bound (the generator in use is the one
   the history left: fresh if no do_level() was called or after the last one) *)
Theorem C16_level_pass_terminates : forall ops,
  exists n,
    n + length (handed (snd (run ops))) <=
      length (nodup Z.eq_dec (added ops)) * length (all_work 0%Z) /\
    let e := last (snd (run (ops ++ repeat OLevelNext (S n)))) ENone in
    e = EGenStop \/ e = ENoMore.
Proof. exact (level_pass_terminates inferral_strategies initial_strategies expansion_strats). Qed.

(* ---- 7. "unless the label was marked not-inferrable FIRST" ---- *)

(* if the pack has inferral strategies, the FIRST packet a label l receives in
   a history is its inferral packet, unless the history contains an
   `ONotInf l` (at position length ops1) such that no packet of l has been
   handed out up to and including that position, i.e. the mark strictly
   precedes the operation that handed out l's first packet.  A mark that
   arrives later excuses nothing. *)
Theorem C16_inferral_first : forall ops s evs l p rest,
  run ops = (s, evs) -> inferral_strategies <> [] ->
  fl l (handed evs) = p :: rest ->
  p = inf_packet l \/
  exists ops1 ops2, ops = ops1 ++ ONotInf l :: ops2 /\
    fl l (handed (firstn (S (length ops1)) evs)) = [].
Proof. exact (inferral_first inferral_strategies initial_strategies expansion_strats). Qed.

End C16.

(* non-vacuity: a pack with one inferral, two initial strategies and two
   expansion sets (one empty); a history with a duplicate add, a stop mark
   arriving while work is staged, a level change and a drain meets the
   hypotheses of the theorems above (strategies distinct, a label added and
   never stopped, next = StopIteration at the end) *)
Example C16_nonvacuous :
  let inf := [1%Z] in let ini := [2%Z; 3%Z] in let exps := [[4%Z; 5%Z]; []] in
  let ops := [OAdd 7; OAdd 8; OAdd 7; ONext; ONext; OStop 8; ONext; ONext; ONext; ONext; ONext;
              ODoLevel; OLevelNext] in
  let '(s, evs) := exec inf ini exps (init_state exps) ops in
  map p_label (handed evs) = [7%Z; 7%Z; 7%Z; 7%Z; 7%Z] /\
  fl 7 (handed evs) = all_work inf ini exps 7 /\
  fst (next inf ini exps (sq s)) = RStop /\
  nth 11 evs ENone = ENone /\ nth 12 evs ENone = ENoMore /\
  NoDup (ini ++ concat exps) /\ In 7%Z (added ops) /\ ~ In 7%Z (stopped ops).
Proof.
  vm_compute. repeat split; try reflexivity.
  - repeat constructor; cbn; intuition discriminate.
  - left. reflexivity.
  - intros [H|[]]. discriminate.
Qed.

(* observed behaviour, recorded (not a theorem of the property): a label that was
   told to stop and is added again still travels through the queue when the
   pack has inferral (or initial) strategies; nothing is handed out for it, but
   it makes up a level of its own: do_level completes (no
   NoMoreClassesToExpandError) without yielding anything and queue_sizes = [1].
   With a pack without inferral and initial strategies the same history raises
   NoMoreClassesToExpandError and queue_sizes = []. *)
Example C16_phantom_level :
  let ops := [OStop 0; OAdd 0; ODoLevel; OLevelNext] in
  (let '(s, evs) := exec [1%Z] [] [[2%Z]] (init_state [[2%Z]]) ops in
   (nth 3 evs ENone, queue_sizes (sq s))) = (EGenStop, [1%Z]) /\
  (let '(s, evs) := exec [] [] [[2%Z]] (init_state [[2%Z]]) ops in
   (nth 3 evs ENone, queue_sizes (sq s))) = (ENoMore, []).
Proof. vm_compute. split; reflexivity. Qed.

(* ------------------------------------------------------------------------
   NON-VACUITY (audit): every theorem APPLIED to a pack with one inferral strategy, two initial
   strategies and two non-empty expansion sets, and a history over three labels: 7 (added twice, gets
   all its work), 8 (told to stop while waiting in `working`), 9 (marked not-inferrable before it is
   added), 11 packets handed out, one level change, then StopIteration. *)
Definition qinf : list Z := [1%Z].
Definition qini : list Z := [2%Z; 3%Z].
Definition qexp : list (list Z) := [[4%Z; 5%Z]; [6%Z]].
Definition qops1 : list op := [OAdd 7; OAdd 8; OAdd 7; ONext; ONext].
Definition qops2 : list op :=
  [ONotInf 9; OAdd 9; ONext; ONext; ONext; ONext; ONext; ONext; ONext; ONext; ONext].
Definition qops : list op := qops1 ++ OStop 8 :: qops2.
Notation qrun ops := (exec qinf qini qexp (init_state qexp) ops).
Notation qnext := (next qinf qini qexp).
Definition qfinal : state := fst (qrun qops).
Definition qevs : list event := snd (qrun qops).
Lemma qrun_eq : qrun qops = (qfinal, qevs).
Proof. unfold qfinal, qevs. destruct (qrun qops); reflexivity. Qed.
Example qevs_handed :
  map (fun p => (p_label p, p_strats p, p_inf p)) (handed qevs) =
  [(7, [1], true); (7, [2], false); (7, [3], false); (9, [2], false); (9, [3], false);
   (7, [4], false); (7, [5], false); (9, [4], false); (9, [5], false); (7, [6], false); (9, [6], false)]%Z /\
  length qevs = 17 /\ nth 16 qevs ENone = EPacket (mkp 9 [6%Z] false).
Proof. vm_compute. repeat split. Qed.
Lemma qfinal_drained : qnext (sq qfinal) = (RStop, snd (qnext (sq qfinal))).
Proof. vm_compute; reflexivity. Qed.
(* a state in the middle of the history: 8 stopped, 9 just added, work staged *)
Definition qmid : queue := sq (fst (qrun (qops1 ++ OStop 8 :: firstn 3 qops2))).

(* covers C16_next_terminates (closed statement): on the mid-history state next hands out a packet;
   the conclusion is not trivially true of next_fuel: with too little fuel the answer IS RFuel *)
Example C16_next_terminates_nonvacuous :
  match fst (qnext qmid) with RPacket _ | RStop => True | RAssert | RFuel => False end /\
  fst (qnext qmid) = RPacket (mkp 9 [2%Z] false) /\
  fst (next_fuel qinf qini qexp 1 (sq (fst (qrun [OAdd 7])))) = RFuel.
Proof.
  split; [exact (C16_next_terminates qinf qini qexp qmid)|]. split; vm_compute; reflexivity.
Qed.

Example C16_fuel_irrelevant_nonvacuous :
  next_fuel qinf qini qexp (fuel_of qmid + 5) qmid = qnext qmid /\
  next_fuel qinf qini qexp 1 (sq (fst (qrun [OAdd 7]))) <> qnext (sq (fst (qrun [OAdd 7]))).
Proof.
  split; [apply (C16_fuel_irrelevant qinf qini qexp qmid (fuel_of qmid + 5)); lia|].
  vm_compute. discriminate.
Qed.

Example C16_history_total_nonvacuous :
  length qevs = length qops /\ Forall (fun e => e <> EAssert /\ e <> EFuel) qevs.
Proof. exact (C16_history_total qinf qini qexp qops qfinal qevs qrun_eq). Qed.

(* label 8 was added and is waiting in `working` when it is told to stop; 10 packets are handed out
   afterwards, none for 8 *)
Example C16_never_ignored_nonvacuous :
  (forall p, In p (handed (skipn (S (length qops1)) qevs)) -> p_label p <> 8%Z) /\
  length (handed (skipn (S (length qops1)) qevs)) = 9 /\
  working (sq (fst (qrun qops1))) = [8%Z; 7%Z].
Proof.
  split; [|split; vm_compute; reflexivity].
  exact (C16_never_ignored qinf qini qexp qops1 (OStop 8) qops2 8%Z qfinal qevs (or_introl eq_refl) qrun_eq).
Qed.

Example C16_never_ignored_state_nonvacuous :
  exists s evs p q',
    qrun (qops1 ++ OStop 8 :: firstn 3 qops2) = (s, evs) /\ qnext (sq s) = (RPacket p, q') /\
    p = mkp 9 [2%Z] false /\ ignore (sq s) = [8%Z] /\
    ~ In (p_label p) (ignore q') /\ ~ In (p_label p) (ignore (sq s)).
Proof.
  eexists; eexists; eexists; eexists.
  split; [vm_compute; reflexivity|]. split; [vm_compute; reflexivity|].
  split; [reflexivity|]. split; [reflexivity|].
  eapply (C16_never_ignored_state qinf qini qexp (qops1 ++ OStop 8 :: firstn 3 qops2)); vm_compute; reflexivity.
Qed.

(* mid-history (14 operations): label 7 is on the all_work branch, label 9 on the noinf_work branch -
   and only there: its first packet is an initial one, so what it got is not a prefix of all_work *)
Definition qops_mid : list op := firstn 14 qops.
Example C16_order_nonvacuous :
  (prefix (fl 7%Z (handed (snd (qrun qops_mid)))) (all_work qinf qini qexp 7%Z) \/
   prefix (fl 7%Z (handed (snd (qrun qops_mid)))) (noinf_work qini qexp 7%Z)) /\
  (prefix (fl 9%Z (handed (snd (qrun qops_mid)))) (all_work qinf qini qexp 9%Z) \/
   prefix (fl 9%Z (handed (snd (qrun qops_mid)))) (noinf_work qini qexp 9%Z)).
Proof.
  split.
  - apply (C16_order qinf qini qexp qops_mid (fst (qrun qops_mid)) (snd (qrun qops_mid)) 7%Z).
    destruct (qrun qops_mid); reflexivity.
  - apply (C16_order qinf qini qexp qops_mid (fst (qrun qops_mid)) (snd (qrun qops_mid)) 9%Z).
    destruct (qrun qops_mid); reflexivity.
Qed.
Example C16_order_branches :
  map p_strats (fl 7%Z (handed (snd (qrun qops_mid)))) = [[1]; [2]; [3]; [4]; [5]]%Z /\
  map p_strats (fl 9%Z (handed (snd (qrun qops_mid)))) = [[2]; [3]; [4]]%Z /\
  map p_strats (all_work qinf qini qexp 9%Z) = [[1]; [2]; [3]; [4]; [5]; [6]]%Z /\
  map p_strats (noinf_work qini qexp 9%Z) = [[2]; [3]; [4]; [5]; [6]]%Z /\
  ~ prefix (fl 9%Z (handed (snd (qrun qops_mid)))) (all_work qinf qini qexp 9%Z) /\
  ~ prefix (fl 7%Z (handed (snd (qrun qops_mid)))) (noinf_work qini qexp 7%Z).
Proof.
  split; [vm_compute; reflexivity|]. split; [vm_compute; reflexivity|].
  split; [vm_compute; reflexivity|]. split; [vm_compute; reflexivity|].
  split; intros (r & H); vm_compute in H; discriminate.
Qed.

Lemma qpack_nodup : NoDup (qini ++ concat qexp).
Proof. repeat constructor; simpl; intuition discriminate. Qed.
Example C16_no_duplicate_nonvacuous : NoDup (handed qevs) /\ length (handed qevs) = 11.
Proof.
  split; [exact (C16_no_duplicate qinf qini qexp qpack_nodup qops qfinal qevs qrun_eq)|vm_compute; reflexivity].
Qed.
(* near miss: with a strategy occurring in two expansion sets the same packet IS handed out twice *)
Example C16_no_duplicate_near_miss :
  let evs := snd (exec [] [] [[4%Z]; [4%Z]] (init_state [[4%Z]; [4%Z]]) [OAdd 7; ONext; ONext]) in
  handed evs = [mkp 7 [4%Z] false; mkp 7 [4%Z] false].
Proof. vm_compute; reflexivity. Qed.

(* drained: label 7 (left branch) got all its work, label 9 (right branch, marked not-inferrable) all
   but the inferral packet; label 8 is excluded by the hypothesis (stopped) and got nothing *)
Example C16_complete_when_drained_nonvacuous :
  (fl 7%Z (handed qevs) = all_work qinf qini qexp 7%Z \/
   (In 7%Z (notinf qops) /\ fl 7%Z (handed qevs) = noinf_work qini qexp 7%Z)) /\
  (fl 9%Z (handed qevs) = all_work qinf qini qexp 9%Z \/
   (In 9%Z (notinf qops) /\ fl 9%Z (handed qevs) = noinf_work qini qexp 9%Z)).
Proof.
  split.
  - apply (C16_complete_when_drained qinf qini qexp qops qfinal qevs _ qrun_eq qfinal_drained 7%Z).
    + vm_compute; auto.
    + vm_compute. intros [H|[]]; discriminate.
  - apply (C16_complete_when_drained qinf qini qexp qops qfinal qevs _ qrun_eq qfinal_drained 9%Z).
    + vm_compute; auto.
    + vm_compute. intros [H|[]]; discriminate.
Qed.
Example C16_complete_when_drained_branches :
  fl 7%Z (handed qevs) = all_work qinf qini qexp 7%Z /\ ~ In 7%Z (notinf qops) /\
  fl 9%Z (handed qevs) = noinf_work qini qexp 9%Z /\ fl 9%Z (handed qevs) <> all_work qinf qini qexp 9%Z /\
  fl 8%Z (handed qevs) = [] /\ In 8%Z (added qops) /\ In 8%Z (stopped qops).
Proof.
  split; [vm_compute; reflexivity|]. split; [vm_compute; intros [H|[]]; discriminate|].
  split; [vm_compute; reflexivity|]. split; [vm_compute; discriminate|].
  split; [vm_compute; reflexivity|]. split; vm_compute; auto.
Qed.

Example C16_stop_again_nonvacuous :
  qnext (snd (qnext (sq qfinal))) = (RStop, snd (qnext (sq qfinal))).
Proof. exact (C16_stop_again qinf qini qexp (sq qfinal) _ qfinal_drained). Qed.

Definition qmore : list op := [ONext; OStop 7; ODoLevel; OLevelNext; ONotInf 3; ONext; OVerified 9; OLevelNext].
Example C16_exhaustion_stable_nonvacuous :
  let r := exec qinf qini qexp (mks (snd (qnext (sq qfinal))) GFresh) qmore in
  handed (snd r) = [] /\
  Forall2 (fun o e => o = ONext -> e = EStopIteration) qmore (snd r) /\
  snd r = [EStopIteration; ENone; ENone; ENoMore; ENone; EStopIteration; ENone; EGenStop].
Proof.
  intros r.
  destruct (C16_exhaustion_stable qinf qini qexp qops qfinal qevs _ GFresh qmore (fst r) (snd r)
              qrun_eq qfinal_drained) as (H1 & H2).
  - repeat constructor.
  - exact (surjective_pairing r).
  - split; [exact H1|split; [exact H2|vm_compute; reflexivity]].
Qed.

(* do_level, the four cases: packet; queue runs dry at the captured level (NoMoreClassesToExpandError);
   level counter advanced when next raises StopIteration (a level made of a stopped label only);
   counter already moved on *)
Lemma triple_eta {A B C} (r : A * B * C) : r = (fst (fst r), snd (fst r), snd r).
Proof. destruct r as [[a b] c]; reflexivity. Qed.
Definition qd1 : queue := sq (fst (qrun [OAdd 7; OAdd 9])).
Definition qd3 : queue := sq (fst (qrun [OStop 8; OAdd 8])).
Example C16_do_level_nonvacuous :
  (exists p q', qnext qd1 = (RPacket p, q') /\ p = mkp 7 [1%Z] true) /\
  (exists q', levels_completed q' = 0 /\ qnext (init qexp) = (RStop, q')) /\
  (exists q', 0 < levels_completed q' /\ qnext qd3 = (RStop, q')) /\
  gen_next qinf qini qexp (GRunning 5) qd1 = (EGenStop, GDone, qd1).
Proof.
  split; [|split; [|split]].
  - pose proof (triple_eta (gen_next qinf qini qexp (GRunning 0) qd1)) as E.
    destruct (C16_do_level qinf qini qexp 0 qd1 _ _ _ E) as (_ & H). specialize (H eq_refl).
    replace (fst (fst (gen_next qinf qini qexp (GRunning 0) qd1))) with (EPacket (mkp 7 [1%Z] true)) in H
      by (vm_compute; reflexivity).
    destruct H as (_ & H). eexists; eexists; split; [exact H|reflexivity].
  - pose proof (triple_eta (gen_next qinf qini qexp (GRunning 0) (init qexp))) as E.
    destruct (C16_do_level qinf qini qexp 0 (init qexp) _ _ _ E) as (_ & H). specialize (H eq_refl).
    replace (fst (fst (gen_next qinf qini qexp (GRunning 0) (init qexp)))) with ENoMore in H
      by (vm_compute; reflexivity).
    destruct H as (_ & H1 & H2). eexists; split; [exact H1|exact H2].
  - pose proof (triple_eta (gen_next qinf qini qexp (GRunning 0) qd3)) as E.
    destruct (C16_do_level qinf qini qexp 0 qd3 _ _ _ E) as (_ & H). specialize (H eq_refl).
    replace (fst (fst (gen_next qinf qini qexp (GRunning 0) qd3))) with EGenStop in H
      by (vm_compute; reflexivity).
    destruct H as (_ & H1 & H2). eexists; split; [exact H1|exact H2].
  - pose proof (triple_eta (gen_next qinf qini qexp (GRunning 5) qd1)) as E.
    destruct (C16_do_level qinf qini qexp 5 qd1 _ _ _ E) as (H & _).
    destruct H as (H1 & H2 & H3); [vm_compute; discriminate|].
    rewrite E. rewrite H1, H2, H3. reflexivity.
Qed.

(* C16_do_level_fresh_done is a closed statement that holds by unfolding gen_next (it says how the model
   represents a fresh / a finished generator, so that C16_do_level covers them); it does discriminate
   between the generator states: *)
Example C16_do_level_fresh_done_nonvacuous :
  fst (fst (gen_next qinf qini qexp GFresh qd1)) = EPacket (mkp 7 [1%Z] true) /\
  fst (fst (gen_next qinf qini qexp GDone qd1)) = EGenStop /\
  fst (fst (gen_next qinf qini qexp (GRunning 1) qd1)) = EGenStop /\
  gen_next qinf qini qexp GFresh qd1 = gen_next qinf qini qexp (GRunning (levels_completed qd1)) qd1.
Proof.
  split; [vm_compute; reflexivity|]. split; [vm_compute; reflexivity|]. split; [vm_compute; reflexivity|].
  exact (proj1 (C16_do_level_fresh_done qinf qini qexp qd1)).
Qed.

(* ---- only added / bound / drain / inferral first, on the same 17-op history ---- *)

(* 11 packets, all for labels of added qops = [7; 8; 7; 9]; 8 was added but got none *)
Example C16_only_added_nonvacuous :
  (forall p, In p (handed qevs) -> In (p_label p) (added qops)) /\
  added qops = [7; 8; 7; 9]%Z /\ length (handed qevs) = 11.
Proof.
  split; [intros p; exact (C16_only_added qinf qini qexp qops qfinal qevs p qrun_eq)|split; vm_compute; reflexivity].
Qed.

(* mid-history (8 operations): 7 waits in next_level, 8 (stopped) and 7 are in `working`
   - every label in the queue was added; the never-added label 9 is nowhere *)
Example C16_queue_only_added_nonvacuous :
  let ops := firstn 6 qops in let s := fst (qrun ops) in
  (incl (working (sq s)) (added ops) /\ incl (keys (next_level (sq s))) (added ops) /\
   incl (concat (curr_level (sq s))) (added ops) /\
   (forall p, In p (staging (sq s)) -> In (p_label p) (added ops))) /\
  working (sq s) = [8; 7]%Z /\ keys (next_level (sq s)) = [7%Z] /\
  map p_label (staging (sq s)) = [7%Z] /\ added ops = [7; 8; 7]%Z.
Proof.
  intros ops s. split; [|repeat split; vm_compute; reflexivity].
  apply (C16_queue_only_added qinf qini qexp ops s (snd (qrun ops))).
  unfold s. destruct (qrun ops); reflexivity.
Qed.

(* 3 distinct labels, 6 packets per label: 11 <= 18; the bound is attained by a history whose
   only label gets all its work (6 = 1 * 6), and it counts DISTINCT labels (7 is added twice) *)
Example C16_packets_bounded_nonvacuous :
  length (handed qevs) <= length (nodup Z.eq_dec (added qops)) * length (all_work qinf qini qexp 0%Z) /\
  length (nodup Z.eq_dec (added qops)) = 3 /\ length (all_work qinf qini qexp 0%Z) = 6 /\
  length (added qops) = 4 /\
  (let ops := OAdd 7 :: repeat ONext 6 in
   length (handed (snd (qrun ops))) = 6 /\
   length (nodup Z.eq_dec (added ops)) * length (all_work qinf qini qexp 0%Z) = 6).
Proof.
  split; [exact (C16_packets_bounded qinf qini qexp qops qfinal qevs qrun_eq)|].
  repeat split; vm_compute; reflexivity.
Qed.

(* after the first 14 operations (8 packets handed out, 3 still due) the drain needs n with
   n + 8 <= 18; in fact n = 3: three more packets, the 4th next raises StopIteration; after the
   whole history n = 0 *)
Example C16_drain_terminates_nonvacuous :
  (exists n, n + length (handed (snd (qrun qops_mid))) <= 18 /\
     last (snd (qrun (qops_mid ++ repeat ONext (S n)))) ENone = EStopIteration) /\
  length (handed (snd (qrun qops_mid))) = 8 /\
  last (snd (qrun (qops_mid ++ repeat ONext 3))) ENone = EPacket (mkp 9 [6%Z] false) /\
  last (snd (qrun (qops_mid ++ repeat ONext 4))) ENone = EStopIteration /\
  last (snd (qrun (qops ++ repeat ONext 1))) ENone = EStopIteration.
Proof.
  split; [exact (C16_drain_terminates qinf qini qexp qops_mid)|].
  repeat split; vm_compute; reflexivity.
Qed.

Example C16_drain_stays_stopped_nonvacuous :
  last (snd (qrun (qops_mid ++ repeat ONext (S 9)))) ENone = EStopIteration /\
  last (snd (qrun (qops_mid ++ repeat ONext (S 2)))) ENone <> EStopIteration.
Proof.
  split; [|vm_compute; discriminate].
  apply (C16_drain_stays_stopped qinf qini qexp qops_mid 3); [vm_compute; reflexivity|repeat constructor].
Qed.

(* after the first 14 operations label 7 has 5 of its 6 packets and label 9 has 3 of 5; the theorem gives a
   drain after which both are complete (7 on the all_work branch, 9 - marked - on the noinf_work branch) *)
Example C16_every_class_eventually_complete_nonvacuous :
  (exists n, n + length (handed (snd (qrun qops_mid))) <= 18 /\
     last (snd (qrun (qops_mid ++ repeat ONext (S n)))) ENone = EStopIteration /\
     forall l, In l (added qops_mid) -> ~ In l (stopped qops_mid) ->
       fl l (handed (snd (qrun (qops_mid ++ repeat ONext n)))) = all_work qinf qini qexp l \/
       (In l (notinf qops_mid) /\
        fl l (handed (snd (qrun (qops_mid ++ repeat ONext n)))) = noinf_work qini qexp l)) /\
  length (fl 7%Z (handed (snd (qrun qops_mid)))) = 5 /\ length (all_work qinf qini qexp 7%Z) = 6 /\
  length (fl 9%Z (handed (snd (qrun qops_mid)))) = 3 /\ length (noinf_work qini qexp 9%Z) = 5 /\
  In 7%Z (added qops_mid) /\ ~ In 7%Z (stopped qops_mid) /\ In 9%Z (added qops_mid) /\ ~ In 9%Z (stopped qops_mid) /\
  fl 7%Z (handed (snd (qrun (qops_mid ++ repeat ONext 3)))) = all_work qinf qini qexp 7%Z /\
  fl 9%Z (handed (snd (qrun (qops_mid ++ repeat ONext 3)))) = noinf_work qini qexp 9%Z.
Proof.
  split; [exact (C16_every_class_eventually_complete qinf qini qexp qops_mid)|].
  repeat split; try (vm_compute; reflexivity); try (vm_compute; tauto);
    vm_compute; intros [H|[]]; discriminate.
Qed.

Example C16_work_size_nonvacuous : length (all_work qinf qini qexp 7%Z) = 1 + 2 + 3.
Proof. exact (C16_work_size qinf qini qexp 7%Z). Qed.

(* both endings of a pass: after the first 14 operations the pass hands out the 3 remaining packets and
   then raises NoMoreClassesToExpandError (n = 3, 3 + 8 <= 18); after the first 8 operations it hands out
   4 packets (the last one is the first packet of the next level) and then finishes (n = 4) *)
Example C16_level_pass_terminates_nonvacuous :
  (exists n, n + length (handed (snd (qrun qops_mid))) <= 18 /\
     let e := last (snd (qrun (qops_mid ++ repeat OLevelNext (S n)))) ENone in e = EGenStop \/ e = ENoMore) /\
  map (fun e => match e with EPacket p => Some (p_label p, p_strats p) | _ => None end)
      (skipn 14 (snd (qrun (qops_mid ++ repeat OLevelNext 4)))) =
    [Some (9, [5]); Some (7, [6]); Some (9, [6]); None]%Z /\
  last (snd (qrun (qops_mid ++ repeat OLevelNext 4))) ENone = ENoMore /\
  map (fun e => match e with EPacket p => Some (p_label p, p_strats p) | _ => None end)
      (skipn 8 (snd (qrun (firstn 8 qops ++ repeat OLevelNext 5)))) =
    [Some (7, [3]); Some (9, [2]); Some (9, [3]); Some (7, [4]); None]%Z /\
  last (snd (qrun (firstn 8 qops ++ repeat OLevelNext 5))) ENone = EGenStop.
Proof.
  split; [exact (C16_level_pass_terminates qinf qini qexp qops_mid)|].
  repeat split; vm_compute; reflexivity.
Qed.

(* label 7: first packet = inferral packet (left disjunct; 7 is never marked).  Label 9: its first
   packet is an initial one, so the theorem yields the mark: `ONotInf 9` at position 6, and no packet
   of 9 up to and including position 6 (its first packet is event 9).  Label 9 again in a history
   where the mark comes AFTER the first hand-out: the first packet is the inferral packet. *)
Example C16_inferral_first_nonvacuous :
  hd_error (fl 7%Z (handed qevs)) = Some (inf_packet qinf 7%Z) /\
  hd_error (fl 9%Z (handed qevs)) = Some (mkp 9 [2%Z] false) /\
  (exists ops1 ops2, qops = ops1 ++ ONotInf 9 :: ops2 /\
     fl 9%Z (handed (firstn (S (length ops1)) qevs)) = []) /\
  fl 9%Z (handed (firstn 9 qevs)) = [] /\ fl 9%Z (handed (firstn 10 qevs)) <> [] /\
  (let late := [OAdd 9; ONext; ONotInf 9; ONext] in
   fl 9%Z (handed (snd (qrun late))) = [inf_packet qinf 9%Z; mkp 9 [2%Z] false]).
Proof.
  split.
  { destruct (C16_inferral_first qinf qini qexp qops qfinal qevs 7%Z
                (inf_packet qinf 7%Z) (tl (fl 7%Z (handed qevs))) qrun_eq) as [H|H].
    - discriminate.
    - vm_compute; reflexivity.
    - vm_compute; reflexivity.
    - vm_compute; reflexivity. }
  split; [vm_compute; reflexivity|]. split.
  { destruct (C16_inferral_first qinf qini qexp qops qfinal qevs 9%Z
                (mkp 9 [2%Z] false) (tl (fl 9%Z (handed qevs))) qrun_eq) as [H|H].
    - discriminate.
    - vm_compute; reflexivity.
    - vm_compute in H. discriminate.
    - exact H. }
  split; [vm_compute; reflexivity|]. split; [vm_compute; discriminate|].
  vm_compute; reflexivity.
Qed.

(* ================= the pure parts are the source's (translator) =================
   can_do_inferral / can_do_initial and the order in which _change_level
   schedules the next level (labels of next_level by decreasing count, stable)
   are the source's expressions (Gen/QueueCanDoInferral.v, Gen/QueueCanDoInitial.v,
   Gen/QueueChangeLevelOrder.v, re-translated from class_queue.py on every run). *)
Theorem C16_can_do_inferral_is_source : forall infs q l,
  Model.can_do_inferral infs q l =
  QueueCanDoInferral.can_do_inferral infs (inferral_expanded q) l.
Proof. exact can_do_inferral_is_source. Qed.

Theorem C16_can_do_initial_is_source : forall inis q l,
  Model.can_do_initial inis q l =
  QueueCanDoInitial.can_do_initial inis (initial_expanded q) l.
Proof. exact can_do_initial_is_source. Qed.

Theorem C16_level_order_is_source : forall q q',
  change_level q = POk q' ->
  curr_level q' =
  extend_first (QueueChangeLevelOrder.change_level_order (next_level q)) (curr_level q).
Proof. exact change_level_is_source. Qed.

Print Assumptions C16_next_terminates.
Print Assumptions C16_fuel_irrelevant.
Print Assumptions C16_history_total.
Print Assumptions C16_never_ignored.
Print Assumptions C16_never_ignored_state.
Print Assumptions C16_order.
Print Assumptions C16_no_duplicate.
Print Assumptions C16_complete_when_drained.
Print Assumptions C16_stop_again.
Print Assumptions C16_exhaustion_stable.
Print Assumptions C16_do_level.
Print Assumptions C16_do_level_fresh_done.
Print Assumptions C16_only_added.
Print Assumptions C16_queue_only_added.
Print Assumptions C16_packets_bounded.
Print Assumptions C16_drain_terminates.
Print Assumptions C16_drain_stays_stopped.
Print Assumptions C16_every_class_eventually_complete.
Print Assumptions C16_work_size.
Print Assumptions C16_level_pass_terminates.
Print Assumptions C16_inferral_first.
Print Assumptions C16_can_do_inferral_is_source.
Print Assumptions C16_can_do_initial_is_source.
Print Assumptions C16_level_order_is_source.
