(* C06 — equivalence classes are exactly the strongly connected components.
   Only statements; proofs are applications of lemmas of Equiv/*.v.

   Setting.  `exec order init ops = Some (s, rs)`: `s` is the database after
   ANY history `ops` of add_two_way_edge / add_one_way_edge / set_verified /
   connect_cycles / equivalent / is_verified / db[x] / find_path on a fresh
   EquivalenceDB (queries are part of the history because they compress paths
   and create entries).  `order` is the order in which CPython iterates over a
   set; the theorems hold for EVERY order that enumerates the elements of the
   set.  `Some`: the model's explicit loop fuel was not exhausted (and no
   KeyError on an internal parent lookup); the harness treats `None` as an
   error and has never observed it.

   `recorded ops a b` : a <> b and the history contains add_two_way_edge(a,b),
                        add_two_way_edge(b,a) or add_one_way_edge(a,b)
   `marked ops b`     : the history contains set_verified(b)
   `same s a b`       : a and b have the same union-find root in s.          *)
From Coq Require Import ZArith List Bool Relations.
From CSS Require Import Equiv.Model Equiv.Ref Equiv.UF Equiv.Inv Equiv.Hist Equiv.Path Equiv.Cov
  Equiv.Complete Equiv.Total Equiv.Neutral Equiv.Stale.
From CSS Require Gen.EquivHeaviest.
From CSS Require Import Equiv.GenBridge.
Import ListNotations.
Open Scope Z_scope.

Section C06.
Variable order : list Z -> list Z.
Hypothesis order_In : forall l x, In x (order l) <-> In x l.

Lemma reach_clos vs (E : Z -> Z -> Prop) a b :
  (forall x y, edge vs x y -> E x y) -> reach vs a b -> clos_refl_trans Z E a b.
Proof.
  intros HE H. induction H; [apply rt_refl|].
  eapply rt_trans; [eassumption|]. apply rt_step. auto.
Qed.

(* the Boolean answered by `equivalent` is the union-find partition *)
Theorem C06_equivalent_is_same : forall s a b s' e,
  equivalent s a b = Some (s', e) -> (e = true <-> same s a b).
Proof. intros s a b s' e H. apply (equivalent_spec _ _ _ _ _ H). Qed.

(* 1. soundness: labels reported equivalent are mutually reachable along
      recorded edges — at any time, in particular after connect_cycles *)
Theorem C06_sound : forall ops s rs a b s',
  exec order init ops = Some (s, rs) ->
  equivalent s a b = Some (s', true) ->
  clos_refl_trans Z (recorded ops) a b /\ clos_refl_trans Z (recorded ops) b a.
Proof.
  intros ops s rs a b s' E Q.
  pose proof (reach_inv order order_In _ _ _ E) as I.
  apply equivalent_spec in Q. destruct Q as (_ & Q).
  assert (S : same s a b) by (apply Q; reflexivity).
  split; eapply reach_clos; try (intros x y; apply (inv_edges _ _ _ _ I));
    eapply inv_sound; eauto. apply same_sym; auto.
Qed.

(* the model's edge table is exactly the recorded graph (so the reference
   Ref.mutual_ref (vertices s), used by the correspondence after
   connect_cycles, decides mutual reachability along recorded edges) *)
Theorem C06_edges_recorded : forall ops s rs a b,
  exec order init ops = Some (s, rs) ->
  (edge (vertices s) a b <-> recorded ops a b).
Proof.
  intros ops s rs a b E.
  apply (inv_edges _ _ _ _ (reach_inv order order_In _ _ _ E)).
Qed.

Theorem C06_reference_scc_correct : forall vs a b r,
  mutual_ref vs a b = Some r -> (r = true <-> reach vs a b /\ reach vs b a).
Proof. exact mutual_ref_correct. Qed.

(* 2. union-find canonicity.  db[x] returns a representative that is its own
      representative and stays x's representative; `equivalent` compares
      representatives; this holds in ANY state *)
Theorem C06_uf_find_canonical : forall s a s1 r,
  find s a = Some (s1, r) ->
  (forall s2 r', find s1 r = Some (s2, r') -> r' = r) /\
  (forall s2 r', find s1 a = Some (s2, r') -> r' = r).
Proof.
  intros s a s1 r F. apply find_spec in F. destruct F as (Ra & P).
  destruct P as (A & _). split; intros s2 r' F2; apply find_spec in F2; destruct F2 as (R2 & _).
  - apply A in R2. eapply chain_det; [exact R2|]. apply chain_root. eapply chain_fix; eauto.
  - apply A in R2. eapply chain_det; eauto.
Qed.

Theorem C06_uf_equivalent_compares_roots : forall s a b s' e s1 ra s2 rb,
  equivalent s a b = Some (s', e) ->
  find s a = Some (s1, ra) -> find s b = Some (s2, rb) ->
  (e = true <-> ra = rb).
Proof.
  intros s a b s' e s1 ra s2 rb Q F1 F2.
  apply equivalent_spec in Q. destruct Q as (_ & Q).
  apply find_spec in F1. apply find_spec in F2. destruct F1 as (R1 & _). destruct F2 as (R2 & _).
  rewrite Q. split.
  - intros (r & H1 & H2). rewrite (chain_det _ _ _ _ R1 H1), (chain_det _ _ _ _ R2 H2). reflexivity.
  - intros ->. exists rb; auto.
Qed.

(* `same` is an equivalence relation on every reachable state *)
Theorem C06_uf_partition : forall ops s rs,
  exec order init ops = Some (s, rs) ->
  (forall a, same s a a) /\ (forall a b, same s a b -> same s b a) /\
  (forall a b c, same s a b -> same s b c -> same s a c).
Proof.
  intros ops s rs E. pose proof (reach_inv order order_In _ _ _ E) as I.
  split; [|split].
  - intros a. eapply same_refl; eauto.
  - apply same_sym.
  - apply same_trans.
Qed.

(* queries (with their path compression and entry creation) never change the
   partition, the verified flags' meaning, or the edges *)
Theorem C06_uf_queries_change_nothing : forall s o s' r,
  (exists a b, o = QEquiv a b) \/ (exists a, o = QVerified a) \/
  (exists a, o = QFind a) \/ (exists a b, o = QPath a b) ->
  step order s o = Some (s', r) ->
  (forall x y, same s' x y <-> same s x y) /\ verified s' = verified s /\
  (forall x y, edge (vertices s') x y <-> edge (vertices s) x y).
Proof.
  intros s o s' r Ho St.
  assert (P : pres s s').
  { destruct Ho as [(a & b & ->)|[(a & ->)|[(a & ->)|(a & b & ->)]]]; simpl in St.
    - destruct (equivalent s a b) as [[s1 e]|] eqn:X; [|discriminate]. inv St.
      apply (equivalent_spec _ _ _ _ _ X).
    - destruct (is_verified s a) as [[s1 e]|] eqn:X; [|discriminate]. inv St.
      apply (is_verified_spec _ _ _ _ X).
    - destruct (find s a) as [[s1 e]|] eqn:X; [|discriminate]. inv St.
      apply (find_spec _ _ _ _ X).
    - destruct (find_path order s a b) as [[s1 e]|] eqn:X; [|discriminate]. inv St.
      apply (find_path_pres _ _ _ _ _ _ X). }
  split; [intros x y; apply pres_same; auto|]. split; [apply P|].
  intros x y. unfold edge. destruct P as (_ & _ & C & _). rewrite C. tauto.
Qed.

(* union by weight + path compression change the partition exactly by the
   requested merge *)
Theorem C06_uf_merge_exact : forall ops s rs a b s',
  exec order init ops = Some (s, rs) ->
  add_two_way s a b = Some s' ->
  forall x y, same s' x y <->
    same s x y \/ (same s x a /\ same s y b) \/ (same s x b /\ same s y a).
Proof.
  intros ops s rs a b s' E X.
  pose proof (reach_inv order order_In _ _ _ E) as I0.
  unfold add_two_way in X.
  pose proof (add_edge_inv _ _ _ _ b a (add_edge_inv _ _ _ _ a b I0)) as I1.
  set (s0 := add_edge (add_edge s a b) b a) in *.
  assert (S0 : forall x y, same s0 x y <-> same s x y).
  { intros x y. unfold s0, add_edge. destruct (Z.eqb a b), (Z.eqb b a); reflexivity. }
  assert (Rab : reach (vertices s0) a b /\ reach (vertices s0) b a).
  { destruct (Z.eq_dec a b) as [->|N]; [split; constructor|].
    split; apply reach_edge; apply (inv_edges _ _ _ _ I1); [left|]; right; auto. }
  destruct Rab as (Rab & Rba).
  destruct (Inv_merge _ _ _ s0 a b s' I1 Rab Rba X) as (_ & _ & _ & _ & SS).
  intros x y. rewrite SS, !S0. tauto.
Qed.

(* connect_cycles only merges classes (and, by C06_sound, only classes that
   lie on a common cycle of recorded edges) *)
Theorem C06_connect_cycles_monotone : forall ops s rs s',
  exec order init ops = Some (s, rs) ->
  connect_cycles order s = Some s' ->
  (forall x y, same s x y -> same s' x y) /\
  (forall x y, edge (vertices s') x y <-> edge (vertices s) x y).
Proof.
  intros ops s rs s' E X.
  pose proof (reach_inv order order_In _ _ _ E) as I.
  destruct (connect_cycles_spec _ _ _ order order_In s s' I X) as (_ & A & B).
  split; auto. intros x y. unfold edge. rewrite B. tauto.
Qed.

(* 3. a label is verified exactly when some label of its class was passed to
      set_verified, before or after the merges that formed the class *)
Theorem C06_verified : forall ops s rs a s' v,
  exec order init ops = Some (s, rs) ->
  is_verified s a = Some (s', v) ->
  (v = true <-> exists b, marked ops b /\ same s a b).
Proof.
  intros ops s rs a s' v E Q.
  pose proof (reach_inv order order_In _ _ _ E) as I.
  apply is_verified_spec in Q. destruct Q as (_ & r & Rr & ->).
  rewrite mem_In. split.
  - intros Hr. destruct (inv_ver2 _ _ _ _ I r Hr) as (b & Hb & S).
    exists b. split; auto. eapply same_trans; [apply same_root; eauto|auto].
  - intros (b & Hb & S). destruct (inv_ver1 _ _ _ _ I b Hb) as (q & Rq & Hq).
    destruct S as (t & T1 & T2).
    rewrite (chain_det _ _ _ _ Rr T1), <- (chain_det _ _ _ _ Rq T2). exact Hq.
Qed.

(* 4. explanation paths: whenever the labels are equivalent find_path answers
      (no KeyError), and the answer starts at the first label, ends at the
      second and follows recorded edges only *)
Theorem C06_path : forall ops s rs a b s' r,
  exec order init ops = Some (s, rs) ->
  find_path order s a b = Some (s', r) ->
  (r = PathKeyError <-> ~ same s a b) /\
  (forall p, r = PathOk p ->
     hd_error p = Some a /\ last p 0 = b /\ epath (recorded ops) p).
Proof.
  intros ops s rs a b s' r E Q.
  pose proof (reach_inv order order_In _ _ _ E) as I.
  split.
  - unfold find_path in Q.
    destruct (equivalent s a b) as [[s1 e]|] eqn:EQ; [|discriminate].
    apply equivalent_spec in EQ. destruct EQ as (_ & He).
    destruct e.
    + destruct (fp_loop _ _ _ _ _ _ _) as [[s2 q]|]; [|discriminate]. inv Q.
      split; [discriminate|]. intros N. destruct N. apply He; auto.
    + inv Q. split; auto. intros _ S. apply He in S. discriminate.
  - intros p ->. eapply find_path_valid; eauto.
Qed.

(* 5. completeness: immediately after connect_cycles, labels that are
      mutually reachable along recorded edges are in the same class, hence
      `equivalent` answers True; with C06_sound: right after connect_cycles
      the classes are EXACTLY the strongly connected components of the
      recorded graph.  Proof (Equiv/Complete*.v): the loop of connect_cycles is
      a depth-first search of the re-keyed one-way table (vertices = snapshot
      roots); invariant over (gray path, stack of paths, visited, live
      union-find): the stack is a LIFO frontier, the classes cut the gray path
      into contiguous segments, no processed edge points from the class of a
      later gray vertex into the class of a strictly earlier one without its
      source being merged into an earlier-or-equal class, and the visited
      vertices whose class contains no gray vertex ("closed") only point to
      closed vertices and are equivalent whenever mutually reachable.  When
      the stack is empty every vertex with an out-edge is closed.
      C06_complete_partial / C06_complete_partial_edges_kept below are the
      two earlier partial statements (kept; the second is used in the proof:
      it gives that every recorded edge is inside a class or in the table). *)
Theorem C06_complete : forall ops s rs a b,
  exec order init (ops ++ [Connect]) = Some (s, rs) ->
  clos_refl_trans Z (recorded (ops ++ [Connect])) a b ->
  clos_refl_trans Z (recorded (ops ++ [Connect])) b a ->
  same s a b.
Proof. intros ops s rs a b. apply (complete_after_connect order order_In). Qed.

(* the same statement on the step itself: s is any reachable state *)
Theorem C06_complete_connect_step : forall ops s rs s' a b,
  exec order init ops = Some (s, rs) ->
  connect_cycles order s = Some s' ->
  clos_refl_trans Z (recorded ops) a b -> clos_refl_trans Z (recorded ops) b a ->
  same s' a b.
Proof.
  intros ops s rs s' a b E CC.
  apply (connect_cycles_complete order order_In _ _ _ s s'
           (reach_inv order order_In _ _ _ E) (edges_covered order order_In _ _ _ E) CC).
Qed.

Theorem C06_complete_equivalent : forall ops s rs a b s' e,
  exec order init (ops ++ [Connect]) = Some (s, rs) ->
  clos_refl_trans Z (recorded (ops ++ [Connect])) a b ->
  clos_refl_trans Z (recorded (ops ++ [Connect])) b a ->
  equivalent s a b = Some (s', e) -> e = true.
Proof.
  intros ops s rs a b s' e E Rab Rba Q.
  apply (equivalent_spec _ _ _ _ _ Q). eapply C06_complete; eauto.
Qed.

(* classes = strongly connected components, right after connect_cycles *)
Theorem C06_classes_are_sccs : forall ops s rs a b s' e,
  exec order init (ops ++ [Connect]) = Some (s, rs) ->
  equivalent s a b = Some (s', e) ->
  (e = true <->
   clos_refl_trans Z (recorded (ops ++ [Connect])) a b /\
   clos_refl_trans Z (recorded (ops ++ [Connect])) b a).
Proof.
  intros ops s rs a b s' e E Q. split.
  - intros He. subst e. exact (C06_sound _ s rs a b s' E Q).
  - intros (Rab & Rba). exact (C06_complete_equivalent ops s rs a b s' e E Rab Rba Q).
Qed.

(* ... and still after any number of queries (equivalent / is_verified / db[x]
   / find_path) issued after connect_cycles.  (NOT yet the situation in which
   RuleDBBase reads the database: pruned_dict also calls set_verified for every
   surviving label before has_specification / the finders read equivdb[root];
   that situation is C06_classes_are_sccs_after_neutral below.) *)
Theorem C06_classes_are_sccs_after_queries : forall ops qs s rs a b s' e,
  Forall is_query qs ->
  exec order init (ops ++ Connect :: qs) = Some (s, rs) ->
  equivalent s a b = Some (s', e) ->
  (e = true <->
   clos_refl_trans Z (recorded (ops ++ Connect :: qs)) a b /\
   clos_refl_trans Z (recorded (ops ++ Connect :: qs)) b a).
Proof.
  intros ops qs s rs a b s' e F E Q. split.
  - intros He. subst e. exact (C06_sound _ s rs a b s' E Q).
  - intros (Rab & Rba). apply (equivalent_spec _ _ _ _ _ Q).
    exact (complete_after_connect_queries order order_In ops qs s rs a b F E Rab Rba).
Qed.


(* 6. partition-neutral operations.  set_verified changes neither the roots (hence not the
      partition) nor the recorded edges; so "classes = strongly connected components" still
      holds after connect_cycles followed by ANY number of set_verified calls, queries and
      further connect_cycles calls: this IS the state in which RuleDBBase reads
      representatives (rules_up_to_equivalence reads right after connect_cycles; pruned_dict
      then calls set_verified for every surviving label; has_specification and the finders
      read equivdb[root] after that; a cached pruned dictionary is read after arbitrarily
      many further has_specification / is_verified / rules_up_to_equivalence calls). *)
Theorem C06_set_verified_keeps_partition : forall s a s',
  set_verified s a = Some s' ->
  (forall x q, root s' x q <-> root s x q) /\ (forall x y, same s' x y <-> same s x y) /\
  (forall x y, edge (vertices s') x y <-> edge (vertices s) x y).
Proof.
  intros s a s' H. pose proof (set_verified_rsame _ _ _ H) as P.
  split; [apply P|]. split; [intros x y; apply rsame_same; auto|].
  intros x y. unfold edge. destruct P as (_ & C). rewrite C. tauto.
Qed.

Theorem C06_classes_are_sccs_after_neutral : forall ops qs s rs a b s' e,
  Forall is_neutral2 qs ->
  exec order init (ops ++ Connect :: qs) = Some (s, rs) ->
  equivalent s a b = Some (s', e) ->
  (e = true <->
   clos_refl_trans Z (recorded (ops ++ Connect :: qs)) a b /\
   clos_refl_trans Z (recorded (ops ++ Connect :: qs)) b a).
Proof.
  intros ops qs s rs a b s' e F E Q. split.
  - intros He. subst e. exact (C06_sound _ s rs a b s' E Q).
  - intros (Rab & Rba). apply (equivalent_spec _ _ _ _ _ Q).
    exact (complete_after_connect_neutral2 order order_In ops qs s rs a b F E Rab Rba).
Qed.

(* the recorded graph is not changed by these operations either: the right-hand side above
   is mutual reachability in the graph recorded by `ops` *)
Theorem C06_neutral_records_nothing : forall ops qs a b,
  Forall is_neutral2 qs ->
  (recorded (ops ++ Connect :: qs) a b <-> recorded ops a b).
Proof.
  intros ops qs a b F. apply neutral2_recorded_app. constructor; [right; reflexivity|exact F].
Qed.

(* 7. cycle detection is idempotent: a further connect_cycles on such a state changes no
      root, no verified root and no edge (every merge it issues is inside a class) *)
Theorem C06_connect_cycles_idempotent : forall ops qs s rs s',
  Forall is_neutral2 qs ->
  exec order init (ops ++ Connect :: qs) = Some (s, rs) ->
  connect_cycles order s = Some s' ->
  (forall x q, root s' x q <-> root s x q) /\
  (forall v, In v (verified s') <-> In v (verified s)) /\
  (forall x y, edge (vertices s') x y <-> edge (vertices s) x y).
Proof.
  intros ops qs s rs s' F E CC.
  pose proof (reach_inv order order_In _ _ _ E) as I.
  assert (C : hcompl (ops ++ Connect :: qs) s).
  { intros a b R1 R2. eapply (complete_after_connect_neutral2 order order_In ops qs); eauto. }
  destruct (connect_cycles_stab order order_In _ _ _ s s' I (hcompl_compl _ _ I C) CC) as ((A & B) & V).
  split; auto. split; auto. intros x y. unfold edge. rewrite B. tauto.
Qed.

Theorem C06_complete_partial : forall ops s rs a b,
  exec order init ops = Some (s, rs) ->
  clos_refl_sym_trans Z (twoway ops) a b -> same s a b.
Proof.
  intros ops s rs a b E H.
  pose proof (reach_inv order order_In _ _ _ E) as I.
  induction H.
  - eapply inv_tw; eauto.
  - eapply same_refl; eauto.
  - apply same_sym; auto.
  - eapply same_trans; eauto.
Qed.

Theorem C06_complete_partial_edges_kept : forall ops s rs a b,
  exec order init ops = Some (s, rs) -> recorded ops a b ->
  same s a b \/
  exists k l e, In (k, l) (oneway s) /\ In e l /\ same s k a /\ same s e b.
Proof. intros ops s rs a b E H. exact (edges_covered order order_In ops s rs E a b H). Qed.

(* 9. THE EXACT PARTITION AT ANY TIME (Equiv/Stale.v).  Between two cycle detections the classes are
      NOT the strongly connected components (a one-way edge that closes a cycle merges nothing until
      connect_cycles runs: replayed on the code, `add_one_way_edge(1,2); connect_cycles();
      add_one_way_edge(2,1); equivalent(1,2)` is False).  What `equivalent` answers in EVERY reachable
      state: after  pre ++ Connect :: post  with no Connect in post, exactly the closure of
      "mutually reachable along the edges recorded by pre" (the components at the last detection)
      under the two-way edges requested by post; before the first Connect, the closure of the
      two-way edges.  One-way edges, set_verified and queries change no class (C06_step_exact).
      The right-hand sides do not mention `order`: every Boolean the queries return, in stale states
      too, is independent of the set-iteration order. *)
Theorem C06_step_exact : forall ops s rs o s' r,
  exec order init ops = Some (s, rs) -> step order s o = Some (s', r) -> o <> Connect ->
  forall x y, same s' x y <->
    (same s x y \/
     exists a b, o = TwoWay a b /\ ((same s x a /\ same s y b) \/ (same s x b /\ same s y a))).
Proof.
  intros ops s rs o s' r E St NC.
  exact (step_same_exact order ops s o s' r (reach_inv order order_In _ _ _ E) St NC).
Qed.

Theorem C06_exact_partition : forall pre post s rs a b s' e,
  Forall (fun o => o <> Connect) post ->
  exec order init (pre ++ Connect :: post) = Some (s, rs) ->
  equivalent s a b = Some (s', e) ->
  (e = true <-> clos_refl_sym_trans Z (gen pre post) a b).
Proof.
  intros pre post s rs a b s' e F E Q.
  rewrite <- (exact_after_connect order order_In pre post s rs F E a b).
  apply equivalent_spec in Q. destruct Q as (_ & Q). exact Q.
Qed.

Theorem C06_exact_partition_before_connect : forall ops s rs a b s' e,
  Forall (fun o => o <> Connect) ops ->
  exec order init ops = Some (s, rs) ->
  equivalent s a b = Some (s', e) ->
  (e = true <-> clos_refl_sym_trans Z (twoway ops) a b).
Proof.
  intros ops s rs a b s' e F E Q.
  rewrite <- (exact_before_connect order order_In ops s rs F E a b).
  apply equivalent_spec in Q. destruct Q as (_ & Q). exact Q.
Qed.

(* the verified flag in EVERY reachable state, with the class spelled out: a label is verified exactly when a
   label of its (exactly characterised) class was passed to set_verified - before or after the merges *)
Theorem C06_verified_exact : forall pre post s rs a s' v,
  Forall (fun o => o <> Connect) post ->
  exec order init (pre ++ Connect :: post) = Some (s, rs) ->
  is_verified s a = Some (s', v) ->
  (v = true <-> exists b, marked (pre ++ Connect :: post) b /\ clos_refl_sym_trans Z (gen pre post) a b).
Proof.
  intros pre post s rs a s' v F E Q.
  rewrite (C06_verified _ s rs a s' v E Q).
  split; intros (b & M & S); exists b; (split; [exact M|]);
    apply (exact_after_connect order order_In pre post s rs F E a b); exact S.
Qed.

End C06.

(* non-vacuity: a one-way 3-cycle closed by connect_cycles, the verified flag
   set on one member before the merge, the explanation path *)
Example C06_nonvacuous :
  let ops := [OneWay 1 2; OneWay 2 3; SetVerified 3; QEquiv 1 3; OneWay 3 1; Connect;
              QEquiv 1 3; QVerified 1; QPath 1 3; QPath 1 4] in
  (forall l x, In x (isort l) <-> In x l) /\
  match exec isort init ops with
  | Some (_, rs) =>
      rs = [RNone; RNone; RNone; RBool false; RNone; RNone; RBool true; RBool true;
            RPath (PathOk [1; 2; 3]); RPath PathKeyError]
  | None => False
  end.
Proof. split; [apply isort_In|vm_compute; reflexivity]. Qed.

(* non-vacuity of C06_complete's hypotheses: two one-way cycles sharing a
   vertex plus a tail; the history ends with connect_cycles; 1 and 5 are
   mutually reachable, 1 and 6 are not *)
Example C06_complete_hyps_instance :
  let ops := [OneWay 1 2; OneWay 2 3; OneWay 3 1; OneWay 3 4; OneWay 4 5; OneWay 5 3;
              OneWay 5 6] in
  match exec isort init (ops ++ [Connect]) with
  | Some (s, _) =>
      clos_refl_trans Z (recorded (ops ++ [Connect])) 1 5 /\
      clos_refl_trans Z (recorded (ops ++ [Connect])) 5 1 /\
      (exists s', equivalent s 1 5 = Some (s', true)) /\
      (exists s', equivalent s 1 6 = Some (s', false))
  | None => False
  end.
Proof.
  assert (R : forall x y, In (OneWay x y)
                [OneWay 1 2; OneWay 2 3; OneWay 3 1; OneWay 3 4; OneWay 4 5; OneWay 5 3;
                 OneWay 5 6] -> x <> y ->
              clos_refl_trans Z (recorded
                ([OneWay 1 2; OneWay 2 3; OneWay 3 1; OneWay 3 4; OneWay 4 5; OneWay 5 3;
                  OneWay 5 6] ++ [Connect])) x y).
  { intros x y H N. apply rt_step. split; auto. right. right. apply in_app_iff. auto. }
  vm_compute exec. repeat split.
  - eapply rt_trans; [apply (R 1 2); simpl; auto; discriminate|].
    eapply rt_trans; [apply (R 2 3); simpl; auto; discriminate|].
    eapply rt_trans; [apply (R 3 4); simpl; auto 10; discriminate|].
    apply (R 4 5); simpl; auto 10; discriminate.
  - eapply rt_trans; [apply (R 5 3); simpl; auto 10; discriminate|].
    apply (R 3 1); simpl; auto 10; discriminate.
  - eexists. vm_compute. reflexivity.
  - eexists. vm_compute. reflexivity.
Qed.

(* =====================================================================================
   NON-VACUITY (audit): every theorem of this file APPLIED (order := isort, ascending
   iteration order) to one history over 9 labels that mixes two-way edges, one-way edges,
   a set_verified BEFORE the merges, a query in the middle, and connect_cycles:
       1 <-> 2, 8 <-> 2, 6 <-> 7 (two-way);  2 -> 3 -> 4 -> 2, 4 -> 5 (one-way);  verified: 4
   before connect_cycles the classes are {1,2,8} {3} {4} {5} {6,7}; after it {1,2,3,4,8} {5} {6,7}
   (the one-way cycle 2 -> 3 -> 4 -> 2 runs through the two-way class of 2); the verified flag
   of 4 reaches 1.  a6_s = state before, a6_sC = state after connect_cycles. *)
Definition a6_ops : list op :=
  [TwoWay 1 2; OneWay 2 3; TwoWay 8 2; OneWay 3 4; SetVerified 4; QEquiv 1 4; OneWay 4 2;
   OneWay 4 5; TwoWay 6 7].
Definition a6_qs : list op := [QEquiv 1 4; QVerified 3; QFind 9; QPath 3 8].
Definition a6_run (ops : list op) : db * list res :=
  match exec isort init ops with Some p => p | None => (init, []) end.
Definition a6_s : db := Eval vm_compute in fst (a6_run a6_ops).
Definition a6_rs : list res := Eval vm_compute in snd (a6_run a6_ops).
Definition a6_sC : db := Eval vm_compute in fst (a6_run (a6_ops ++ [Connect])).
Definition a6_rsC : list res := Eval vm_compute in snd (a6_run (a6_ops ++ [Connect])).
Definition a6_sQ : db := Eval vm_compute in fst (a6_run (a6_ops ++ Connect :: a6_qs)).
Definition a6_rsQ : list res := Eval vm_compute in snd (a6_run (a6_ops ++ Connect :: a6_qs)).

Lemma a6_exec : exec isort init a6_ops = Some (a6_s, a6_rs).
Proof. vm_compute. reflexivity. Qed.
Lemma a6_execC : exec isort init (a6_ops ++ [Connect]) = Some (a6_sC, a6_rsC).
Proof. vm_compute. reflexivity. Qed.
Lemma a6_execQ : exec isort init (a6_ops ++ Connect :: a6_qs) = Some (a6_sQ, a6_rsQ).
Proof. vm_compute. reflexivity. Qed.
Lemma a6_connect : connect_cycles isort a6_s = Some a6_sC.
Proof. vm_compute. reflexivity. Qed.
(* the history is not degenerate: the middle query answered False, the final ones True *)
Example a6_results :
  a6_rs = [RNone; RNone; RNone; RNone; RNone; RBool false; RNone; RNone; RNone] /\
  a6_rsQ = a6_rs ++ [RNone; RBool true; RBool true; RLabel 9; RPath (PathOk [3; 4; 2; 8])].
Proof. split; reflexivity. Qed.

(* mutual reachability of 1 and 4 along recorded edges; 2 -> 1 is the two-way edge
   add_two_way_edge(1,2) taken backwards.  Stated for any history containing a6_ops. *)
Lemma a6_rec ops x y :
  (forall o, In o a6_ops -> In o ops) -> x <> y ->
  In (TwoWay x y) a6_ops \/ In (TwoWay y x) a6_ops \/ In (OneWay x y) a6_ops ->
  clos_refl_trans Z (recorded ops) x y.
Proof. intros Hs N H. apply rt_step. split; auto. intuition. Qed.
Lemma a6_r14 ops : (forall o, In o a6_ops -> In o ops) -> clos_refl_trans Z (recorded ops) 1 4.
Proof.
  intros Hs.
  apply rt_trans with 2; [apply (a6_rec ops 1 2 Hs); [discriminate|simpl; auto]|].
  apply rt_trans with 3; [apply (a6_rec ops 2 3 Hs); [discriminate|simpl; auto 10]|].
  apply (a6_rec ops 3 4 Hs); [discriminate|simpl; auto 10].
Qed.
Lemma a6_r41 ops : (forall o, In o a6_ops -> In o ops) -> clos_refl_trans Z (recorded ops) 4 1.
Proof.
  intros Hs.
  apply rt_trans with 2; [apply (a6_rec ops 4 2 Hs); [discriminate|simpl; auto 15]|].
  apply (a6_rec ops 2 1 Hs); [discriminate|simpl; auto].
Qed.
Lemma a6_sub_self : forall o, In o a6_ops -> In o a6_ops.
Proof. auto. Qed.
Lemma a6_sub_app l : forall o, In o a6_ops -> In o (a6_ops ++ l).
Proof. intros o H. apply in_app_iff. auto. Qed.

(* --- the answer of `equivalent` *)
Example C06_equivalent_is_same_nonvacuous : same a6_sC 1 4 /\ ~ same a6_sC 1 5 /\ ~ same a6_s 1 4.
Proof.
  split; [|split].
  - refine (proj1 (C06_equivalent_is_same a6_sC 1 4 _ true _) eq_refl). vm_compute. reflexivity.
  - intros H. refine (_ (proj2 (C06_equivalent_is_same a6_sC 1 5 _ false _) H));
      [discriminate|vm_compute; reflexivity].
  - intros H. refine (_ (proj2 (C06_equivalent_is_same a6_s 1 4 _ false _) H));
      [discriminate|vm_compute; reflexivity].
Qed.

(* helpers: `same` / `~ same` on a concrete state by running `equivalent` (through the theorem) *)
Lemma a6_same s a b s' : equivalent s a b = Some (s', true) -> same s a b.
Proof. intros Q. exact (proj1 (C06_equivalent_is_same s a b s' true Q) eq_refl). Qed.
Lemma a6_not_same s a b s' : equivalent s a b = Some (s', false) -> ~ same s a b.
Proof. intros Q H. apply (C06_equivalent_is_same s a b s' false Q) in H. discriminate H. Qed.

(* --- soundness *)
Example C06_sound_nonvacuous :
  clos_refl_trans Z (recorded (a6_ops ++ [Connect])) 3 8 /\
  clos_refl_trans Z (recorded (a6_ops ++ [Connect])) 8 3.
Proof.
  eapply (C06_sound isort isort_In (a6_ops ++ [Connect]) a6_sC a6_rsC 3 8 _ a6_execC).
  vm_compute. reflexivity.
Qed.

Example C06_edges_recorded_nonvacuous :
  recorded (a6_ops ++ [Connect]) 2 3 /\ ~ recorded (a6_ops ++ [Connect]) 3 2 /\
  edge (vertices a6_sC) 2 1 /\ ~ edge (vertices a6_sC) 5 4.
Proof.
  pose proof (C06_edges_recorded isort isort_In (a6_ops ++ [Connect]) a6_sC a6_rsC) as H.
  split; [|split; [|split]].
  - apply (H 2 3 a6_execC). vm_compute. auto.
  - intros R. apply (H 3 2 a6_execC) in R. vm_compute in R. destruct R as [R|[]]. discriminate R.
  - apply (H 2 1 a6_execC). split; [discriminate|]. simpl; auto.
  - intros E. apply (H 5 4 a6_execC) in E. destruct E as (_ & [E|[E|E]]); simpl in E;
      repeat (destruct E as [E|E]; [discriminate E|]); destruct E.
Qed.

Example C06_reference_scc_correct_nonvacuous :
  (reach (vertices a6_sC) 1 4 /\ reach (vertices a6_sC) 4 1) /\
  ~ (reach (vertices a6_sC) 1 5 /\ reach (vertices a6_sC) 5 1).
Proof.
  split.
  - apply (C06_reference_scc_correct (vertices a6_sC) 1 4 true); reflexivity.
  - intros H. apply (C06_reference_scc_correct (vertices a6_sC) 1 5 false) in H;
      [discriminate H|reflexivity].
Qed.

(* --- union-find canonicity.  In a6_s the label 1 hangs under the root 2 *)
Example C06_uf_find_canonical_nonvacuous :
  exists s1, find a6_s 1 = Some (s1, 2) /\
    (exists s2, find s1 2 = Some (s2, 2)) /\ (exists s2, find s1 1 = Some (s2, 2)) /\
    (forall s2 r', find s1 2 = Some (s2, r') -> r' = 2) /\
    (forall s2 r', find s1 1 = Some (s2, r') -> r' = 2).
Proof.
  eexists. split; [vm_compute; reflexivity|].
  split; [eexists; vm_compute; reflexivity|]. split; [eexists; vm_compute; reflexivity|].
  eapply (C06_uf_find_canonical a6_s 1 _ 2). vm_compute. reflexivity.
Qed.

Example C06_uf_equivalent_compares_roots_nonvacuous :
  (* 8 and 1: answer True, roots 2 = 2;  8 and 7: answer False, roots 2 <> 7 *)
  (true = true <-> 2 = 2) /\ (false = true <-> 2 = 7).
Proof.
  split.
  - eapply (C06_uf_equivalent_compares_roots a6_s 8 1 _ true _ 2 _ 2); vm_compute; reflexivity.
  - eapply (C06_uf_equivalent_compares_roots a6_s 8 7 _ false _ 2 _ 7); vm_compute; reflexivity.
Qed.

Example C06_uf_partition_nonvacuous :
  (forall a, same a6_sC a a) /\ (forall a b, same a6_sC a b -> same a6_sC b a) /\
  (forall a b c, same a6_sC a b -> same a6_sC b c -> same a6_sC a c).
Proof. exact (C06_uf_partition isort isort_In (a6_ops ++ [Connect]) a6_sC a6_rsC a6_execC). Qed.

(* a path query on a fresh label pair: the state DOES change (entry for 9, touched sets),
   the partition / flags / edges do not *)
Example C06_uf_queries_change_nothing_nonvacuous :
  exists s', step isort a6_sC (QPath 3 8) = Some (s', RPath (PathOk [3; 4; 2; 8])) /\ s' <> a6_sC /\
  (forall x y, same s' x y <-> same a6_sC x y) /\ verified s' = verified a6_sC /\
  (forall x y, edge (vertices s') x y <-> edge (vertices a6_sC) x y).
Proof.
  eexists. split; [vm_compute; reflexivity|]. split; [discriminate|].
  eapply (C06_uf_queries_change_nothing isort a6_sC (QPath 3 8) _ (RPath (PathOk [3; 4; 2; 8]))).
  - right. right. right. exists 3, 8. reflexivity.
  - vm_compute. reflexivity.
Qed.

(* merging the singleton class {3} with the class {6,7} *)
Example C06_uf_merge_exact_nonvacuous :
  exists s', add_two_way a6_s 3 6 = Some s' /\
    (forall x y, same s' x y <->
       same a6_s x y \/ (same a6_s x 3 /\ same a6_s y 6) \/ (same a6_s x 6 /\ same a6_s y 3)) /\
    same s' 3 7 /\ ~ same a6_s 3 7 /\ ~ same s' 3 1.
Proof.
  eexists. split; [vm_compute; reflexivity|].
  match goal with |- ?A /\ _ => assert (H : A) end.
  { eapply (C06_uf_merge_exact isort isort_In a6_ops a6_s a6_rs 3 6 _ a6_exec).
    vm_compute. reflexivity. }
  split; [exact H|]. split; [|split].
  - apply H. right. left. split; eapply a6_same; vm_compute; reflexivity.
  - eapply a6_not_same; vm_compute; reflexivity.
  - intros X. apply H in X. destruct X as [X|[[_ X]|[X _]]]; revert X; eapply a6_not_same;
      vm_compute; reflexivity.
Qed.

Example C06_connect_cycles_monotone_nonvacuous :
  (forall x y, same a6_s x y -> same a6_sC x y) /\
  (forall x y, edge (vertices a6_sC) x y <-> edge (vertices a6_s) x y).
Proof.
  exact (C06_connect_cycles_monotone isort isort_In a6_ops a6_s a6_rs a6_sC a6_exec a6_connect).
Qed.
(* the inclusion is strict here *)
Example C06_connect_cycles_monotone_value :
  same a6_s 1 8 /\ same a6_sC 1 8 /\ ~ same a6_s 1 4 /\ same a6_sC 1 4.
Proof.
  assert (H : same a6_s 1 8) by (eapply a6_same; vm_compute; reflexivity).
  split; [exact H|]. split; [apply C06_connect_cycles_monotone_nonvacuous; exact H|].
  split; [eapply a6_not_same|eapply a6_same]; vm_compute; reflexivity.
Qed.

(* --- verified: 4 was marked before connect_cycles merged it with 1; 6 is in no marked class *)
Example C06_verified_nonvacuous :
  (exists b, marked (a6_ops ++ [Connect]) b /\ same a6_sC 1 b) /\
  ~ (exists b, marked (a6_ops ++ [Connect]) b /\ same a6_sC 6 b) /\
  ~ (exists b, marked a6_ops b /\ same a6_s 1 b).
Proof.
  split; [|split].
  - eapply (C06_verified isort isort_In (a6_ops ++ [Connect]) a6_sC a6_rsC 1 _ true a6_execC);
      [vm_compute|]; reflexivity.
  - intros H.
    eapply (C06_verified isort isort_In (a6_ops ++ [Connect]) a6_sC a6_rsC 6 _ false a6_execC) in H;
      [discriminate H|vm_compute; reflexivity].
  - intros H.
    eapply (C06_verified isort isort_In a6_ops a6_s a6_rs 1 _ false a6_exec) in H;
      [discriminate H|vm_compute; reflexivity].
Qed.

(* --- explanation paths.  3 ~> 8 goes 3 -> 4 -> 2 (one-way) and 2 -> 8 (two-way, backwards) *)
Example C06_path_nonvacuous :
  (PathOk [3; 4; 2; 8] = PathKeyError <-> ~ same a6_sC 3 8) /\
  (forall p, PathOk [3; 4; 2; 8] = PathOk p ->
     hd_error p = Some 3 /\ last p 0 = 8 /\ epath (recorded (a6_ops ++ [Connect])) p).
Proof.
  eapply (C06_path isort isort_In (a6_ops ++ [Connect]) a6_sC a6_rsC 3 8 _ _ a6_execC).
  vm_compute. reflexivity.
Qed.
Example C06_path_value :
  epath (recorded (a6_ops ++ [Connect])) [3; 4; 2; 8] /\
  (* KeyError branch: 1 and 5 are not equivalent (5 is reachable from 1, not back) *)
  (exists s', find_path isort a6_sC 1 5 = Some (s', PathKeyError)) /\ ~ same a6_sC 1 5.
Proof.
  split; [apply (proj2 C06_path_nonvacuous [3; 4; 2; 8] eq_refl)|].
  split; [eexists; vm_compute; reflexivity|].
  eapply (C06_path isort isort_In (a6_ops ++ [Connect]) a6_sC a6_rsC 1 5 _ PathKeyError a6_execC);
    [vm_compute|]; reflexivity.
Qed.

(* --- completeness right after connect_cycles *)
Example C06_complete_nonvacuous : same a6_sC 1 4.
Proof.
  exact (C06_complete isort isort_In a6_ops a6_sC a6_rsC 1 4 a6_execC
           (a6_r14 _ (a6_sub_app _)) (a6_r41 _ (a6_sub_app _))).
Qed.

Example C06_complete_connect_step_nonvacuous : same a6_sC 1 4.
Proof.
  exact (C06_complete_connect_step isort isort_In a6_ops a6_s a6_rs a6_sC 1 4 a6_exec a6_connect
           (a6_r14 _ a6_sub_self) (a6_r41 _ a6_sub_self)).
Qed.

Example C06_complete_equivalent_nonvacuous :
  forall s' e, equivalent a6_sC 1 4 = Some (s', e) -> e = true.
Proof.
  intros s' e.
  exact (C06_complete_equivalent isort isort_In a6_ops a6_sC a6_rsC 1 4 s' e a6_execC
           (a6_r14 _ (a6_sub_app _)) (a6_r41 _ (a6_sub_app _))).
Qed.
(* the premise of the implication above is met: `equivalent` does answer *)
Example C06_complete_equivalent_value : exists s', equivalent a6_sC 1 4 = Some (s', true).
Proof. eexists. vm_compute. reflexivity. Qed.

(* both directions / both answers *)
Example C06_classes_are_sccs_nonvacuous :
  (true = true <->
   clos_refl_trans Z (recorded (a6_ops ++ [Connect])) 1 4 /\
   clos_refl_trans Z (recorded (a6_ops ++ [Connect])) 4 1) /\
  (false = true <->
   clos_refl_trans Z (recorded (a6_ops ++ [Connect])) 1 5 /\
   clos_refl_trans Z (recorded (a6_ops ++ [Connect])) 5 1).
Proof.
  split.
  - eapply (C06_classes_are_sccs isort isort_In a6_ops a6_sC a6_rsC 1 4 _ true a6_execC).
    vm_compute. reflexivity.
  - eapply (C06_classes_are_sccs isort isort_In a6_ops a6_sC a6_rsC 1 5 _ false a6_execC).
    vm_compute. reflexivity.
Qed.
(* consequence: 5 does not reach 1 although 1 reaches 5 *)
Example C06_classes_are_sccs_value :
  ~ clos_refl_trans Z (recorded (a6_ops ++ [Connect])) 5 1.
Proof.
  intros H. assert (X : false = true); [|discriminate X].
  apply (proj2 C06_classes_are_sccs_nonvacuous). split; [|exact H].
  apply rt_trans with 4; [apply (a6_r14 _ (a6_sub_app _))|].
  apply (a6_rec _ 4 5 (a6_sub_app _)); [discriminate|simpl; auto 15].
Qed.

Example C06_classes_are_sccs_after_queries_nonvacuous :
  (true = true <->
   clos_refl_trans Z (recorded (a6_ops ++ Connect :: a6_qs)) 3 8 /\
   clos_refl_trans Z (recorded (a6_ops ++ Connect :: a6_qs)) 8 3) /\
  (false = true <->
   clos_refl_trans Z (recorded (a6_ops ++ Connect :: a6_qs)) 9 1 /\
   clos_refl_trans Z (recorded (a6_ops ++ Connect :: a6_qs)) 1 9).
Proof.
  assert (F : Forall is_query a6_qs) by (repeat constructor).
  split.
  - eapply (C06_classes_are_sccs_after_queries isort isort_In a6_ops a6_qs a6_sQ a6_rsQ 3 8 _ true
              F a6_execQ). vm_compute. reflexivity.
  - eapply (C06_classes_are_sccs_after_queries isort isort_In a6_ops a6_qs a6_sQ a6_rsQ 9 1 _ false
              F a6_execQ). vm_compute. reflexivity.
Qed.

(* --- the partial statements.  1 and 8 are linked by TwoWay 1 2 and TwoWay 8 2 (the second
   taken backwards: symmetric closure) *)
Example C06_complete_partial_nonvacuous : same a6_s 1 8.
Proof.
  apply (C06_complete_partial isort isort_In a6_ops a6_s a6_rs 1 8 a6_exec).
  apply rst_trans with 2; [apply rst_step; unfold twoway; simpl; auto|].
  apply rst_sym. apply rst_step. unfold twoway; simpl; auto.
Qed.

Example C06_complete_partial_edges_kept_nonvacuous :
  same a6_s 2 3 \/
  exists k l e, In (k, l) (oneway a6_s) /\ In e l /\ same a6_s k 2 /\ same a6_s e 3.
Proof.
  apply (C06_complete_partial_edges_kept isort isort_In a6_ops a6_s a6_rs 2 3 a6_exec).
  split; [discriminate|]. simpl; auto.
Qed.
(* which branch: before connect_cycles the recorded edge 2 -> 3 is NOT inside a class (right
   branch, table entry 2 |-> {3}); the recorded edge 8 -> 2 is inside a class (left branch) and
   no table entry covers it *)
Example C06_complete_partial_edges_kept_value :
  ~ same a6_s 2 3 /\ In (2, [3]) (oneway a6_s) /\
  same a6_s 8 2 /\
  ~ (exists k l e, In (k, l) (oneway a6_s) /\ In e l /\ same a6_s k 8 /\ same a6_s e 2).
Proof.
  split; [eapply a6_not_same; vm_compute; reflexivity|]. split; [simpl; auto|].
  split; [eapply a6_same; vm_compute; reflexivity|].
  intros (k & l & e & Hin & He & Hk & Hse). simpl in Hin.
  destruct Hin as [Hin|[Hin|[Hin|[]]]]; injection Hin as <- <-.
  - (* entry 2 |-> {3}: 2 is in the class of 8, but 3 is not in the class of 2 *)
    destruct He as [<-|[]]. revert Hse. eapply a6_not_same; vm_compute; reflexivity.
  - revert Hk. eapply a6_not_same; vm_compute; reflexivity.
  - revert Hk. eapply a6_not_same; vm_compute; reflexivity.
Qed.

(* =====================================================================================
   TOTALITY.  Every theorem above is conditional on `exec ... = Some ...` (and on
   `equivalent / is_verified / find_path / connect_cycles ... = Some ...`): the model's loops
   run on explicit fuel and `self.parents[root]` is an `option`.  The theorems below discharge
   these hypotheses: on every history over a fresh database the model NEVER returns `None`,
   i.e. the fuel the model passes to `climb` (length of the parent table), to the DFS of
   connect_cycles (1 + number of keys + number of entries of the re-keyed one-way table) and
   to the BFS of find_path (2 + number of recorded edges) is sufficient, and no internal
   parent lookup misses (Equiv/Total.v: the parent table is closed and parent chains are
   well founded in every reachable state).  The KeyError find_path RAISES on non-equivalent
   labels is the explicit result `PathKeyError`; `None` means only "fuel exhausted / internal
   KeyError" and is unreachable.

   Extra hypothesis `order_len`: iterating over a set yields each element ONCE (the
   iteration order is not longer than the set).  It is necessary: `C06_total_needs_order_len`
   exhibits an `order` satisfying `order_In` (every element three times) on which find_path
   runs out of fuel.  The runnable instance `isort` satisfies it (`isort_len`). *)
(* a PURE path function for the consumers that take one (C02's extractor, C13's final walk): the list
   find_path returns, [] where it raises KeyError *)
Definition fpathf (order : list Z -> list Z) (s : db) (a b : Z) : list Z :=
  match find_path order s a b with Some (_, PathOk p) => p | _ => [] end.

Section C06_total.
Variable order : list Z -> list Z.
Hypothesis order_In : forall l x, In x (order l) <-> In x l.
Hypothesis order_len : forall l, (length (order l) <= length l)%nat.

Theorem C06_exec_total : forall ops, exec order init ops <> None.
Proof.
  intros ops. destruct (exec_total order order_len ops init wf_init) as (s & rs & -> & _).
  discriminate.
Qed.

Theorem C06_exec_total_ex : forall ops, exists s rs, exec order init ops = Some (s, rs).
Proof.
  intros ops. destruct (exec_total order order_len ops init wf_init) as (s & rs & E & _). eauto.
Qed.

(* every single operation answers on every reachable state (so a history can always be
   continued: `exec` of a prefix is `Some`, and so is the next step) *)
Theorem C06_step_total : forall ops s rs o,
  exec order init ops = Some (s, rs) -> exists s' r, step order s o = Some (s', r).
Proof.
  intros ops s rs o E.
  destruct (step_total order order_len s o (exec_wf order order_len _ _ _ _ wf_init E))
    as (s' & r & St & _). eauto.
Qed.

(* db[x]: the path-compression loop terminates within `length parents` iterations and never
   looks up a missing parent: the parent relation of a reachable state is acyclic and closed *)
Theorem C06_find_total : forall ops s rs a,
  exec order init ops = Some (s, rs) ->
  exists s' r, find s a = Some (s', r) /\ root s a r.
Proof.
  intros ops s rs a E.
  destruct (find_total s a (exec_wf order order_len _ _ _ _ wf_init E)) as (s' & r & F & _).
  exists s', r. split; auto. exact (proj1 (find_spec _ _ _ _ F)).
Qed.

(* the loop itself: `climb` with ANY fuel >= the depth of the label answers *)
Theorem C06_find_fuel_sufficient : forall ops s rs a,
  exec order init ops = Some (s, rs) ->
  closedp (parents s) /\
  forall r, root s a r -> exists n, chainN (parf (parents s)) a r n /\ (n <= length (parents s))%nat.
Proof.
  intros ops s rs a E. destruct (exec_wf order order_len _ _ _ _ wf_init E) as (C & _).
  split; auto. intros r R. apply root_parf in R. destruct (chain_chainN _ _ _ R) as (n & RN).
  exists n. split; auto. eapply chainN_bound; eauto.
Qed.

(* connect_cycles: the fuel S (length ow + nedges ow) suffices (every stack entry is popped
   once; entries are pushed only while expanding a not yet visited key, one per element) *)
Theorem C06_connect_cycles_total : forall ops s rs,
  exec order init ops = Some (s, rs) -> exists s', connect_cycles order s = Some s'.
Proof.
  intros ops s rs E.
  destruct (connect_cycles_total order order_len s (exec_wf order order_len _ _ _ _ wf_init E))
    as (s' & CC & _). eauto.
Qed.

(* the loop itself, for any well-formed state, stack and visited set *)
Theorem C06_connect_cycles_fuel_sufficient : forall fuel s stack visited,
  wf s -> (length stack + pot (oneway s) visited <= fuel)%nat ->
  exists s', cc_loop order fuel s stack visited = Some s'.
Proof.
  intros fuel s stack visited W H.
  destruct (cc_loop_total order order_len fuel s stack visited W H) as (s' & E & _). eauto.
Qed.

(* find_path: always answers; KeyError exactly on non-equivalent labels; on equivalent labels
   the BFS finds, within its fuel, a path of recorded edges from the first to the second *)
Theorem C06_find_path_total : forall ops s rs a b,
  exec order init ops = Some (s, rs) ->
  exists s' r, find_path order s a b = Some (s', r) /\
    (~ same s a b -> r = PathKeyError) /\
    (same s a b -> exists p, r = PathOk p /\
        hd_error p = Some a /\ last p 0 = b /\ epath (recorded ops) p).
Proof.
  intros ops s rs a b E.
  destruct (find_path_total order order_len s a b (exec_wf order order_len _ _ _ _ wf_init E))
    as (s' & r & F & _).
  exists s', r. split; auto.
  destruct (C06_path order order_In ops s rs a b s' r E F) as (K & P).
  split; [apply K|]. intros S. destruct r as [|p]; [destruct (proj1 K eq_refl S)|].
  exists p. split; auto.
Qed.

(* the BFS loop itself, in any state *)
Theorem C06_find_path_fuel_sufficient : forall fuel s b deque visited cur,
  (length deque + pot (vertices s) visited <= fuel)%nat ->
  exists s' p, fp_loop order fuel s b deque visited cur = Some (s', p).
Proof. exact (fp_loop_total order order_len). Qed.

(* ---- the main theorems without `= Some` hypotheses *)
Theorem C06_sound_total : forall ops a b,
  exists s rs s' e, exec order init ops = Some (s, rs) /\ equivalent s a b = Some (s', e) /\
    (e = true ->
     clos_refl_trans Z (recorded ops) a b /\ clos_refl_trans Z (recorded ops) b a).
Proof.
  intros ops a b. destruct (C06_exec_total_ex ops) as (s & rs & E).
  destruct (equivalent_total s a b (exec_wf order order_len _ _ _ _ wf_init E))
    as (s' & e & Q & _).
  exists s, rs, s', e. split; auto. split; auto. intros ->.
  exact (C06_sound order order_In ops s rs a b s' E Q).
Qed.

Theorem C06_classes_are_sccs_total : forall ops a b,
  exists s rs s' e, exec order init (ops ++ [Connect]) = Some (s, rs) /\
    equivalent s a b = Some (s', e) /\
    (e = true <->
     clos_refl_trans Z (recorded (ops ++ [Connect])) a b /\
     clos_refl_trans Z (recorded (ops ++ [Connect])) b a).
Proof.
  intros ops a b. destruct (C06_exec_total_ex (ops ++ [Connect])) as (s & rs & E).
  destruct (equivalent_total s a b (exec_wf order order_len _ _ _ _ wf_init E))
    as (s' & e & Q & _).
  exists s, rs, s', e. split; auto. split; auto.
  exact (C06_classes_are_sccs order order_In ops s rs a b s' e E Q).
Qed.

Theorem C06_classes_are_sccs_after_queries_total : forall ops qs a b,
  Forall is_query qs ->
  exists s rs s' e, exec order init (ops ++ Connect :: qs) = Some (s, rs) /\
    equivalent s a b = Some (s', e) /\
    (e = true <->
     clos_refl_trans Z (recorded (ops ++ Connect :: qs)) a b /\
     clos_refl_trans Z (recorded (ops ++ Connect :: qs)) b a).
Proof.
  intros ops qs a b F. destruct (C06_exec_total_ex (ops ++ Connect :: qs)) as (s & rs & E).
  destruct (equivalent_total s a b (exec_wf order order_len _ _ _ _ wf_init E))
    as (s' & e & Q & _).
  exists s, rs, s', e. split; auto. split; auto.
  exact (C06_classes_are_sccs_after_queries order order_In ops qs s rs a b s' e F E Q).
Qed.


Theorem C06_classes_are_sccs_after_neutral_total : forall ops qs a b,
  Forall is_neutral2 qs ->
  exists s rs s' e, exec order init (ops ++ Connect :: qs) = Some (s, rs) /\
    equivalent s a b = Some (s', e) /\
    (e = true <->
     clos_refl_trans Z (recorded ops) a b /\ clos_refl_trans Z (recorded ops) b a).
Proof.
  intros ops qs a b F. destruct (C06_exec_total_ex (ops ++ Connect :: qs)) as (s & rs & E).
  destruct (equivalent_total s a b (exec_wf order order_len _ _ _ _ wf_init E))
    as (s' & e & Q & _).
  exists s, rs, s', e. split; auto. split; auto.
  rewrite (C06_classes_are_sccs_after_neutral order order_In ops qs s rs a b s' e F E Q).
  assert (X : forall u v, clos_refl_trans Z (recorded (ops ++ Connect :: qs)) u v <->
                          clos_refl_trans Z (recorded ops) u v).
  { apply clos_rt_iff. intros u v. apply C06_neutral_records_nothing; auto. }
  rewrite !X. reflexivity.
Qed.

(* 8. a PURE representative function for the consumers (C05, C14, C02, C13 take a function
      Z -> Z): repf s x is the label db[x] returns (without the path compression).  On every
      reachable state it is total, it is what every later lookup returns (lookups do not
      move roots), and two labels have the same representative iff they are in the same
      class. *)
Theorem C06_representative_function : forall ops s rs,
  exec order init ops = Some (s, rs) ->
  (forall x, root s x (repf s x)) /\
  (forall x s1 r, find s x = Some (s1, r) -> r = repf s x /\ forall y, repf s1 y = repf s y) /\
  (forall a b, repf s a = repf s b <-> same s a b) /\
  (forall x, repf s (repf s x) = repf s x).
Proof.
  intros ops s rs E. pose proof (exec_wf order order_len _ _ _ _ wf_init E) as W.
  split; [intros x; apply repf_root; auto|]. split; [|split].
  - intros x s1 r F. split; [symmetry; eapply repf_find; eauto|].
    intros y. apply repf_rsame; auto.
    + destruct (find_total s x W) as (s1' & r' & F' & W1 & _). congruence.
    + apply pres_rsame. apply (find_spec _ _ _ _ F).
  - intros a b. apply repf_same; auto.
  - intros x. apply repf_idem; auto.
Qed.

Theorem C06_verified_total : forall ops a,
  exists s rs s' v, exec order init ops = Some (s, rs) /\ is_verified s a = Some (s', v) /\
    (v = true <-> exists b, marked ops b /\ same s a b).
Proof.
  intros ops a. destruct (C06_exec_total_ex ops) as (s & rs & E).
  destruct (is_verified_total s a (exec_wf order order_len _ _ _ _ wf_init E))
    as (s' & v & Q & _).
  exists s, rs, s', v. split; auto. split; auto.
  exact (C06_verified order order_In ops s rs a s' v E Q).
Qed.

Theorem C06_path_total : forall ops a b,
  exists s rs s' r, exec order init ops = Some (s, rs) /\
    find_path order s a b = Some (s', r) /\
    (r = PathKeyError <-> ~ same s a b) /\
    (forall p, r = PathOk p ->
       hd_error p = Some a /\ last p 0 = b /\ epath (recorded ops) p).
Proof.
  intros ops a b. destruct (C06_exec_total_ex ops) as (s & rs & E).
  destruct (find_path_total order order_len s a b (exec_wf order order_len _ _ _ _ wf_init E))
    as (s' & r & Q & _).
  exists s, rs, s', r. split; auto. split; auto.
  exact (C06_path order order_In ops s rs a b s' r E Q).
Qed.

(* the exact partition without the "= Some" hypotheses: every history has a final state, every query an
   answer, and the answer is the order-free closure *)
Theorem C06_exact_partition_total : forall pre post a b,
  Forall (fun o => o <> Connect) post ->
  exists s rs s' e, exec order init (pre ++ Connect :: post) = Some (s, rs) /\
    equivalent s a b = Some (s', e) /\
    (e = true <-> clos_refl_sym_trans Z (gen pre post) a b).
Proof.
  intros pre post a b F. destruct (C06_exec_total_ex (pre ++ Connect :: post)) as (s & rs & E).
  destruct (equivalent_total s a b (exec_wf order order_len _ _ _ _ wf_init E)) as (s' & e & Q & _).
  exists s, rs, s', e. split; auto. split; auto.
  exact (C06_exact_partition order order_In pre post s rs a b s' e F E Q).
Qed.

Theorem C06_exact_partition_before_connect_total : forall ops a b,
  Forall (fun o => o <> Connect) ops ->
  exists s rs s' e, exec order init ops = Some (s, rs) /\
    equivalent s a b = Some (s', e) /\
    (e = true <-> clos_refl_sym_trans Z (twoway ops) a b).
Proof.
  intros ops a b F. destruct (C06_exec_total_ex ops) as (s & rs & E).
  destruct (equivalent_total s a b (exec_wf order order_len _ _ _ _ wf_init E)) as (s' & e & Q & _).
  exists s, rs, s', e. split; auto. split; auto.
  exact (C06_exact_partition_before_connect order order_In ops s rs a b s' e F E Q).
Qed.

(* hence: two set-iteration orders give the same Boolean, in EVERY state (stale ones included) *)
Theorem C06_equivalent_order_independent : forall (order' : list Z -> list Z),
  (forall l x, In x (order' l) <-> In x l) ->
  forall ops s rs s1 e s2 rs2 s3 e' a b,
  exec order init ops = Some (s, rs) -> equivalent s a b = Some (s1, e) ->
  exec order' init ops = Some (s2, rs2) -> equivalent s2 a b = Some (s3, e') ->
  e = e'.
Proof.
  intros order' order_In' ops s rs s1 e s2 rs2 s3 e' a b E Q E' Q'.
  (* split the history at its last Connect, if any *)
  assert (D : Forall (fun o => o <> Connect) ops \/
              exists pre post, ops = pre ++ Connect :: post /\ Forall (fun o => o <> Connect) post).
  { clear. induction ops as [|o ops IH]; [left; constructor|].
    destruct IH as [F|(pre & post & -> & F)].
    - destruct o; try (left; constructor; [discriminate|exact F]).
      right. exists [], ops. split; [reflexivity|exact F].
    - right. exists (o :: pre), post. split; [reflexivity|exact F]. }
  destruct D as [F|(pre & post & -> & F)].
  - pose proof (C06_exact_partition_before_connect order order_In ops s rs a b s1 e F E Q) as H1.
    pose proof (C06_exact_partition_before_connect order' order_In' ops s2 rs2 a b s3 e' F E' Q') as H2.
    destruct e, e'; auto; [exfalso|exfalso].
    + assert (X : false = true) by (apply H2, H1; reflexivity). discriminate X.
    + assert (X : false = true) by (apply H1, H2; reflexivity). discriminate X.
  - pose proof (C06_exact_partition order order_In pre post s rs a b s1 e F E Q) as H1.
    pose proof (C06_exact_partition order' order_In' pre post s2 rs2 a b s3 e' F E' Q') as H2.
    destruct e, e'; auto; [exfalso|exfalso].
    + assert (X : false = true) by (apply H2, H1; reflexivity). discriminate X.
    + assert (X : false = true) by (apply H1, H2; reflexivity). discriminate X.
Qed.

(* consumer forms (CLAUSES C06 (c)2): in the states in which the rule databases read the equivalence database
   (a cycle detection followed by set_verified calls, queries and further detections) the PURE representative
   function decides "same strongly connected component of the recorded graph", and a label is verified exactly
   when some marked label lies in its strongly connected component *)
Theorem C06_same_is_scc : forall ops qs s rs,
  Forall is_neutral2 qs -> exec order init (ops ++ Connect :: qs) = Some (s, rs) ->
  forall a b, same s a b <->
    (clos_refl_trans Z (recorded ops) a b /\ clos_refl_trans Z (recorded ops) b a).
Proof.
  intros ops qs s rs F E a b.
  pose proof (reach_inv order order_In _ _ _ E) as I.
  assert (X : forall u v, clos_refl_trans Z (recorded (ops ++ Connect :: qs)) u v <->
                          clos_refl_trans Z (recorded ops) u v).
  { apply clos_rt_iff. intros u v. apply C06_neutral_records_nothing; auto. }
  split.
  - intros S. split; apply X; apply (HInv_reach _ _ _ _ I); eapply inv_sound; eauto.
    apply same_sym. exact S.
  - intros (R1 & R2).
    apply (complete_after_connect_neutral2 order order_In ops qs s rs a b F E); apply X; assumption.
Qed.

Theorem C06_repf_is_scc : forall ops qs s rs,
  Forall is_neutral2 qs -> exec order init (ops ++ Connect :: qs) = Some (s, rs) ->
  forall a b, repf s a = repf s b <->
    (clos_refl_trans Z (recorded ops) a b /\ clos_refl_trans Z (recorded ops) b a).
Proof.
  intros ops qs s rs F E a b.
  rewrite (repf_same s a b (exec_wf order order_len _ _ _ _ wf_init E)).
  exact (C06_same_is_scc ops qs s rs F E a b).
Qed.

Theorem C06_verified_scc : forall ops qs s rs a s' v,
  Forall is_neutral2 qs -> exec order init (ops ++ Connect :: qs) = Some (s, rs) ->
  is_verified s a = Some (s', v) ->
  (v = true <-> exists b, marked (ops ++ Connect :: qs) b /\
     clos_refl_trans Z (recorded ops) a b /\ clos_refl_trans Z (recorded ops) b a).
Proof.
  intros ops qs s rs a s' v F E Q.
  rewrite (C06_verified order order_In _ s rs a s' v E Q).
  split; intros (b & M & S); exists b; (split; [exact M|]); apply (C06_same_is_scc ops qs s rs F E a b); exact S.
Qed.

(* (CLAUSES C06 (c)3) on every reachable state, for labels with the same representative, the path function
   answers a non-empty list that starts at the first label, ends at the second and follows recorded edges
   only - the contract `fpath_ok` that C02_closed and C13's final walk assume of their path oracle, plus the
   clause "follows recorded edges only"; for labels with different representatives it answers [] *)
Theorem C06_path_function : forall ops s rs,
  exec order init ops = Some (s, rs) ->
  forall a b,
    (repf s a = repf s b ->
       fpathf order s a b <> [] /\ hd 0 (fpathf order s a b) = a /\ last (fpathf order s a b) 0 = b /\
       epath (recorded ops) (fpathf order s a b)) /\
    (repf s a <> repf s b -> fpathf order s a b = []).
Proof.
  intros ops s rs E a b.
  pose proof (exec_wf order order_len _ _ _ _ wf_init E) as W.
  destruct (C06_find_path_total ops s rs a b E) as (s' & r & F & Hno & Hyes).
  unfold fpathf. rewrite F. split.
  - intros R. apply (repf_same s a b W) in R. destruct (Hyes R) as (p & -> & Hh & Hl & He).
    destruct p as [|x p]; [discriminate Hh|]. simpl in Hh. injection Hh as ->.
    split; [discriminate|]. split; [reflexivity|]. split; assumption.
  - intros R. assert (N : ~ same s a b) by (intros S; apply R; apply (repf_same s a b W); exact S).
    rewrite (Hno N). reflexivity.
Qed.

End C06_total.

Theorem C06_total_needs_order_len :
  (forall l x, In x (order3 l) <-> In x l) /\
  exec order3 init [TwoWay 1 2; TwoWay 1 3; TwoWay 1 4; TwoWay 2 5; TwoWay 3 5; TwoWay 4 5;
                    TwoWay 5 6; QPath 1 6] = None.
Proof. exact total_needs_order_len. Qed.

(* the total theorems instantiated at the runnable order (no hypothesis left) *)
Example C06_exec_total_isort : forall ops, exec isort init ops <> None.
Proof. exact (C06_exec_total isort isort_len). Qed.

Example C06_classes_are_sccs_total_isort : forall ops a b,
  exists s rs s' e, exec isort init (ops ++ [Connect]) = Some (s, rs) /\
    equivalent s a b = Some (s', e) /\
    (e = true <->
     clos_refl_trans Z (recorded (ops ++ [Connect])) a b /\
     clos_refl_trans Z (recorded (ops ++ [Connect])) b a).
Proof. exact (C06_classes_are_sccs_total isort isort_In isort_len). Qed.

(* a label at depth 2 below its root (1 -> 2 -> 4): the loop of __getitem__ really iterates *)
Example C06_find_fuel_nonvacuous :
  exists s rs, exec isort init [TwoWay 1 2; TwoWay 3 4; TwoWay 1 3] = Some (s, rs) /\
    parents s = [(1, 2); (2, 4); (3, 4); (4, 4)] /\ chainN (parf (parents s)) 1 4 2.
Proof.
  eexists _, _. split; [vm_compute; reflexivity|]. split; [reflexivity|].
  apply cn_step; [discriminate|]. apply cn_step; [discriminate|]. apply cn_root. reflexivity.
Qed.


(* --- partition-neutral operations (audit history a6): after connect_cycles the engine's
   sequence set_verified(8); is_verified(3); set_verified(5); connect_cycles again; db[9] *)
Definition a6_ns : list op := [SetVerified 8; QVerified 3; SetVerified 5; Connect; QFind 9].
Definition a6_sN : db := Eval vm_compute in fst (a6_run (a6_ops ++ Connect :: a6_ns)).
Definition a6_rsN : list res := Eval vm_compute in snd (a6_run (a6_ops ++ Connect :: a6_ns)).
Lemma a6_execN : exec isort init (a6_ops ++ Connect :: a6_ns) = Some (a6_sN, a6_rsN).
Proof. vm_compute. reflexivity. Qed.
Lemma a6_ns_neutral : Forall is_neutral2 a6_ns.
Proof.
  unfold a6_ns. constructor; [left; right; eexists; reflexivity|].
  constructor; [left; left; exact I|]. constructor; [left; right; eexists; reflexivity|].
  constructor; [right; reflexivity|]. constructor; [left; left; exact I|]. constructor.
Qed.

Example C06_set_verified_keeps_partition_nonvacuous :
  exists s', set_verified a6_sC 5 = Some s' /\ verified s' <> verified a6_sC /\
    (forall x q, root s' x q <-> root a6_sC x q) /\ (forall x y, same s' x y <-> same a6_sC x y) /\
    (forall x y, edge (vertices s') x y <-> edge (vertices a6_sC) x y).
Proof.
  eexists. split; [vm_compute; reflexivity|]. split; [vm_compute; discriminate|].
  apply (C06_set_verified_keeps_partition a6_sC 5). vm_compute. reflexivity.
Qed.

Example C06_classes_are_sccs_after_neutral_nonvacuous :
  (true = true <->
   clos_refl_trans Z (recorded (a6_ops ++ Connect :: a6_ns)) 3 8 /\
   clos_refl_trans Z (recorded (a6_ops ++ Connect :: a6_ns)) 8 3) /\
  (false = true <->
   clos_refl_trans Z (recorded (a6_ops ++ Connect :: a6_ns)) 5 1 /\
   clos_refl_trans Z (recorded (a6_ops ++ Connect :: a6_ns)) 1 5).
Proof.
  split.
  - eapply (C06_classes_are_sccs_after_neutral isort isort_In a6_ops a6_ns a6_sN a6_rsN 3 8 _ true
              a6_ns_neutral a6_execN). vm_compute. reflexivity.
  - eapply (C06_classes_are_sccs_after_neutral isort isort_In a6_ops a6_ns a6_sN a6_rsN 5 1 _ false
              a6_ns_neutral a6_execN). vm_compute. reflexivity.
Qed.

Example C06_neutral_records_nothing_nonvacuous :
  recorded (a6_ops ++ Connect :: a6_ns) 2 3 <-> recorded a6_ops 2 3.
Proof. exact (C06_neutral_records_nothing a6_ops a6_ns 2 3 a6_ns_neutral). Qed.

(* a THIRD connect_cycles on the state reached above: nothing moves; on the state BEFORE
   the first connect_cycles roots do move (3's root goes from 3 to 2) *)
Example C06_connect_cycles_idempotent_nonvacuous :
  exists s', connect_cycles isort a6_sN = Some s' /\
    (forall x q, root s' x q <-> root a6_sN x q) /\
    (forall v, In v (verified s') <-> In v (verified a6_sN)) /\
    (forall x y, edge (vertices s') x y <-> edge (vertices a6_sN) x y).
Proof.
  eexists. split; [vm_compute; reflexivity|].
  eapply (C06_connect_cycles_idempotent isort isort_In a6_ops a6_ns a6_sN a6_rsN _ a6_ns_neutral a6_execN).
  vm_compute. reflexivity.
Qed.
Example C06_connect_cycles_idempotent_value :
  repf a6_s 3 = 3 /\ repf a6_sC 3 = 2 /\ repf a6_sN 3 = 2 /\ verified a6_sN = [4; 2; 5].
Proof. vm_compute. auto. Qed.

Example C06_representative_function_nonvacuous :
  (forall x, root a6_sC x (repf a6_sC x)) /\
  (forall x s1 r, find a6_sC x = Some (s1, r) -> r = repf a6_sC x /\ forall y, repf s1 y = repf a6_sC y) /\
  (forall a b, repf a6_sC a = repf a6_sC b <-> same a6_sC a b) /\
  (forall x, repf a6_sC (repf a6_sC x) = repf a6_sC x).
Proof. exact (C06_representative_function isort isort_len (a6_ops ++ [Connect]) a6_sC a6_rsC a6_execC). Qed.
Example C06_representative_function_value :
  map (repf a6_sC) [1; 2; 3; 4; 5; 6; 7; 8; 9] = [2; 2; 2; 2; 5; 7; 7; 2; 9] /\ same a6_sC 3 8.
Proof.
  split; [vm_compute; reflexivity|].
  apply (proj1 (proj2 (proj2 C06_representative_function_nonvacuous)) 3 8). vm_compute. reflexivity.
Qed.

Example C06_classes_are_sccs_after_neutral_total_isort : forall ops qs a b,
  Forall is_neutral2 qs ->
  exists s rs s' e, exec isort init (ops ++ Connect :: qs) = Some (s, rs) /\
    equivalent s a b = Some (s', e) /\
    (e = true <->
     clos_refl_trans Z (recorded ops) a b /\ clos_refl_trans Z (recorded ops) b a).
Proof. exact (C06_classes_are_sccs_after_neutral_total isort isort_In isort_len). Qed.

(* ================= the union-by-weight choice is the source's (translator) =================
   The root that survives a union is the source's expression
   `max(((self.weights[r], r) for r in roots))[1]` of _set_equivalent
   (Gen/EquivHeaviest.v, re-translated from equiv_db.py on every run). *)
Theorem C06_heaviest_is_source : forall s ra rb,
  heaviest s ra rb = EquivHeaviest.equiv_heaviest (weights s) ra rb.
Proof. exact heaviest_is_source. Qed.

Print Assumptions C06_equivalent_is_same.
(* covers C06_exact_partition / C06_step_exact: a STALE state.  After a6_ops ++ [Connect] (classes
   {1,2,3,4,8} {5} {6,7} {9}) the one-way cycle 5 -> 9 -> 5 is recorded but merges nothing, the two-way
   edge 5 - 6 merges {5} with {6,7}: equivalent(5,9) is False although 5 and 9 are mutually reachable
   along recorded edges, equivalent(5,7) is True; both answers are what the theorem says *)
Definition a6_stale : list op := [OneWay 5 9; OneWay 9 5; QEquiv 5 9; TwoWay 5 6; SetVerified 9].
Definition a6_sS : db := Eval vm_compute in fst (a6_run (a6_ops ++ Connect :: a6_stale)).
Definition a6_rsS : list res := Eval vm_compute in snd (a6_run (a6_ops ++ Connect :: a6_stale)).
Lemma a6_execS : exec isort init (a6_ops ++ Connect :: a6_stale) = Some (a6_sS, a6_rsS).
Proof. vm_compute. reflexivity. Qed.
Lemma a6_stale_no_connect : Forall (fun o => o <> Connect) a6_stale.
Proof. repeat constructor; discriminate. Qed.
Example C06_exact_partition_nonvacuous :
  (false = true <-> clos_refl_sym_trans Z (gen a6_ops a6_stale) 5 9) /\
  (true = true <-> clos_refl_sym_trans Z (gen a6_ops a6_stale) 5 7) /\
  (clos_refl_trans Z (recorded (a6_ops ++ Connect :: a6_stale)) 5 9 /\
   clos_refl_trans Z (recorded (a6_ops ++ Connect :: a6_stale)) 9 5).
Proof.
  split; [|split].
  - eapply (C06_exact_partition isort isort_In a6_ops a6_stale a6_sS a6_rsS 5 9 _ false
              a6_stale_no_connect a6_execS). vm_compute. reflexivity.
  - eapply (C06_exact_partition isort isort_In a6_ops a6_stale a6_sS a6_rsS 5 7 _ true
              a6_stale_no_connect a6_execS). vm_compute. reflexivity.
  - split; apply rt_step; (split; [discriminate|]); right; right; unfold a6_ops, a6_stale; simpl; tauto.
Qed.
(* ... and before any detection: a6_ops itself contains no Connect; 1 ~ 8 through the two-way edges
   1 - 2, 8 - 2, but 2 and 3 (one-way cycle 2 -> 3 -> 4 -> 2, not yet detected) are apart *)
Lemma a6_ops_no_connect : Forall (fun o => o <> Connect) a6_ops.
Proof. repeat constructor; discriminate. Qed.
Example C06_exact_partition_before_connect_nonvacuous :
  (true = true <-> clos_refl_sym_trans Z (twoway a6_ops) 1 8) /\
  (false = true <-> clos_refl_sym_trans Z (twoway a6_ops) 2 3).
Proof.
  split.
  - eapply (C06_exact_partition_before_connect isort isort_In a6_ops a6_s a6_rs 1 8 _ true
              a6_ops_no_connect a6_exec). vm_compute. reflexivity.
  - eapply (C06_exact_partition_before_connect isort isort_In a6_ops a6_s a6_rs 2 3 _ false
              a6_ops_no_connect a6_exec). vm_compute. reflexivity.
Qed.
Example C06_step_exact_nonvacuous : forall s' r,
  step isort a6_sC (OneWay 5 9) = Some (s', r) -> forall x y, same s' x y <-> same a6_sC x y.
Proof.
  intros s' r St x y.
  rewrite (C06_step_exact isort isort_In (a6_ops ++ [Connect]) a6_sC a6_rsC (OneWay 5 9) s' r
             ltac:(vm_compute; reflexivity) St ltac:(discriminate) x y).
  split; [intros [S|(a & b & E & _)]; [exact S|discriminate E]|left; assumption].
Qed.

(* covers C06_repf_is_scc / C06_verified_scc on the neutral suffix a6_ns (set_verified, queries, a second
   connect_cycles): 3 and 8 have the same representative, 5 and 1 do not; 3 is verified through the marked 4 *)
Example C06_repf_is_scc_nonvacuous :
  (repf a6_sN 3 = repf a6_sN 8 <->
     clos_refl_trans Z (recorded a6_ops) 3 8 /\ clos_refl_trans Z (recorded a6_ops) 8 3) /\
  repf a6_sN 3 = repf a6_sN 8 /\ repf a6_sN 5 <> repf a6_sN 1.
Proof.
  split; [exact (C06_repf_is_scc isort isort_In isort_len a6_ops a6_ns a6_sN a6_rsN a6_ns_neutral a6_execN 3 8)|].
  split; [vm_compute; reflexivity|vm_compute; discriminate].
Qed.
Example C06_verified_scc_nonvacuous :
  exists b, marked (a6_ops ++ Connect :: a6_ns) b /\
    clos_refl_trans Z (recorded a6_ops) 3 b /\ clos_refl_trans Z (recorded a6_ops) b 3.
Proof.
  eapply (C06_verified_scc isort isort_In a6_ops a6_ns a6_sN a6_rsN 3 _ true a6_ns_neutral a6_execN);
    [vm_compute; reflexivity|reflexivity].
Qed.

(* covers C06_verified_exact on the stale history: 9 is marked after the one-way cycle 5 -> 9 -> 5 was recorded but
   not yet detected: 5 is NOT verified (9 is not in its class), 9 is *)
Example C06_verified_exact_nonvacuous :
  (false = true <-> exists b, marked (a6_ops ++ Connect :: a6_stale) b /\ clos_refl_sym_trans Z (gen a6_ops a6_stale) 5 b) /\
  (true = true <-> exists b, marked (a6_ops ++ Connect :: a6_stale) b /\ clos_refl_sym_trans Z (gen a6_ops a6_stale) 9 b).
Proof.
  split.
  - eapply (C06_verified_exact isort isort_In a6_ops a6_stale a6_sS a6_rsS 5 _ false a6_stale_no_connect a6_execS).
    vm_compute. reflexivity.
  - eapply (C06_verified_exact isort isort_In a6_ops a6_stale a6_sS a6_rsS 9 _ true a6_stale_no_connect a6_execS).
    vm_compute. reflexivity.
Qed.

(* covers C06_path_function: on the state after the neutral suffix, the path function from 3 to 8 *)
Example C06_path_function_nonvacuous :
  fpathf isort a6_sN 3 8 = [3; 4; 2; 8] /\ epath (recorded (a6_ops ++ Connect :: a6_ns)) (fpathf isort a6_sN 3 8) /\
  fpathf isort a6_sN 5 1 = [].
Proof.
  destruct (C06_path_function isort isort_In isort_len _ a6_sN a6_rsN a6_execN 3 8) as (Y & _).
  destruct (C06_path_function isort isort_In isort_len _ a6_sN a6_rsN a6_execN 5 1) as (_ & N).
  split; [vm_compute; reflexivity|]. split.
  - apply Y. vm_compute. reflexivity.
  - apply N. vm_compute. discriminate.
Qed.

(* covers C06_equivalent_order_independent: the stale history above under the DESCENDING iteration order
   (another representative in several classes) answers equivalent(5,7) and equivalent(5,9) alike *)
Definition rsort (l : list Z) : list Z := rev (isort l).
Lemma rsort_In : forall l x, In x (rsort l) <-> In x l.
Proof. intros l x. unfold rsort. rewrite <- in_rev. apply isort_In. Qed.
Example C06_equivalent_order_independent_nonvacuous :
  (exists p, exec rsort init (a6_ops ++ Connect :: a6_stale) = Some p) /\
  forall s2 rs2 s3 e', exec rsort init (a6_ops ++ Connect :: a6_stale) = Some (s2, rs2) ->
    equivalent s2 5 9 = Some (s3, e') -> false = e'.
Proof.
  split; [eexists; vm_compute; reflexivity|].
  intros s2 rs2 s3 e' E' Q'.
  eapply (C06_equivalent_order_independent isort isort_In rsort rsort_In
            (a6_ops ++ Connect :: a6_stale) a6_sS a6_rsS _ false s2 rs2 s3 e' 5 9 a6_execS);
    [vm_compute; reflexivity|exact E'|exact Q'].
Qed.


Print Assumptions C06_sound.
Print Assumptions C06_edges_recorded.
Print Assumptions C06_reference_scc_correct.
Print Assumptions C06_uf_find_canonical.
Print Assumptions C06_uf_equivalent_compares_roots.
Print Assumptions C06_uf_partition.
Print Assumptions C06_uf_queries_change_nothing.
Print Assumptions C06_uf_merge_exact.
Print Assumptions C06_connect_cycles_monotone.
Print Assumptions C06_verified.
Print Assumptions C06_path.
Print Assumptions C06_complete.
Print Assumptions C06_complete_connect_step.
Print Assumptions C06_complete_equivalent.
Print Assumptions C06_classes_are_sccs.
Print Assumptions C06_classes_are_sccs_after_queries.
Print Assumptions C06_complete_partial.
Print Assumptions C06_complete_partial_edges_kept.
Print Assumptions C06_heaviest_is_source.
Print Assumptions C06_exec_total.
Print Assumptions C06_exec_total_ex.
Print Assumptions C06_step_total.
Print Assumptions C06_find_total.
Print Assumptions C06_find_fuel_sufficient.
Print Assumptions C06_connect_cycles_total.
Print Assumptions C06_connect_cycles_fuel_sufficient.
Print Assumptions C06_find_path_total.
Print Assumptions C06_find_path_fuel_sufficient.
Print Assumptions C06_sound_total.
Print Assumptions C06_classes_are_sccs_total.
Print Assumptions C06_classes_are_sccs_after_queries_total.
Print Assumptions C06_verified_total.
Print Assumptions C06_path_total.
Print Assumptions C06_total_needs_order_len.
Print Assumptions C06_set_verified_keeps_partition.
Print Assumptions C06_classes_are_sccs_after_neutral.
Print Assumptions C06_neutral_records_nothing.
Print Assumptions C06_connect_cycles_idempotent.
Print Assumptions C06_classes_are_sccs_after_neutral_total.
Print Assumptions C06_representative_function.
Print Assumptions C06_step_exact.
Print Assumptions C06_exact_partition.
Print Assumptions C06_exact_partition_before_connect.
Print Assumptions C06_exact_partition_total.
Print Assumptions C06_exact_partition_before_connect_total.
Print Assumptions C06_equivalent_order_independent.
Print Assumptions C06_same_is_scc.
Print Assumptions C06_repf_is_scc.
Print Assumptions C06_verified_scc.
Print Assumptions C06_path_function.
Print Assumptions C06_verified_exact.
