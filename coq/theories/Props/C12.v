(* C12 — a constructed bijection is a size-preserving bijection with a true inverse.

   Only statements; every proof is an `exact`/`apply` of a lemma of coq/theories/Iso/*.v.

   Objects of the library are represented by their PARSE TREES in a specification
   (Iso/Model.v: Leaf c for a class whose rule has no children, Node c parts for the tuple
   returned by the rule's forward map); `wf_tree s c t` says that t is the parse tree of an
   object of class c (Iso/Valid.v) and `tsize` is the size of that object.  That objects of a
   class and its well-formed parse trees correspond one to one is a THEOREM under the bijection
   contracts of the strategies' forward/backward maps (C07_objects_are_parse_trees); section
   OBJECTS below carries (2) and (2)+(3) to objects.  wf_tree has node formers for atoms,
   equivalence steps, unions (tag 0) and products (tag 1) only: see C12_scope / C12_construct.

   The models: `are_isomorphic` = Isomorphism(spec1, spec2) (with _ancestors, _order_map,
   _failed, the backtracking stack, and the clean-up of commit 7890ace), `bij_map` /
   `bij_inverse_map` = Bijection.map / inverse_map (ParseTreeMap.map_rec), `perm_inv` =
   Bijection._perm_inv REGENERATED from the source on every run (Gen/PermInv.v),
   `ctor_equiv` = Constructor.equiv.  `fuel` bounds the recursion of the executable models;
   the search TERMINATES (C12_search_terminates: explicit fuel bound computed from the two
   specifications), its answer does not depend on the fuel (C12_fuel_irrelevant), and
   `verdict exact s1 s2` is that answer = Isomorphism.check(spec1, spec2).

   `exact : bool` selects the "recursive match" test (Iso/Model.v anc_pairs):
     exact = true   /repo as it is (since fix 91c1aef = findings/C12_asymmetric_check.diff):
                    _ancestors holds only the pair of current classes;
     exact = false  the code BEFORE 91c1aef: _ancestors held product(eq_path1, eq_path2).
                    Historic: no case of the harness runs it any more.
   Every theorem below that mentions `exact` holds for BOTH.  The symmetry of the test holds for
   all specifications with exact = true (C12_symmetric: the code as it is) and was FALSE with
   exact = false (C12_symmetric_refuted: the finding asymmetric-check-with-chained-equivalences,
   FIXED by 91c1aef); there it held for specifications without chained equivalence rules
   (C12_symmetric_flat).  The harness detects which of the two the code under test implements and
   runs the model with it (today: exact = true).

   Hypotheses on specifications (checked on every specification of every run by the
   harness, see harness/props/c12.py `wf`):
     eq_wf    an equivalence rule is a Rule with exactly one child, which is not empty, and
              chains of equivalence rules end (closed, no cycle of equivalence rules);
     prod_wf  a product rule has no empty factor;
     wf_spec  = eq_wf, prod_wf and the root is not declared empty. *)
From Coq Require Import ZArith List Bool Lia.
(* objects instead of parse trees (shared with C07 and C08): separable delta = the next three lines, the sections
   "OBJECTS" / "construct" below, their examples and Print Assumptions.  Imported FIRST: the names of the C12
   development (tree, Leaf, rule, spec, ..) take precedence; the Count ones are written qualified. *)
From CSS Require Import Count.ObjectsModel Count.ObjectsProofs Count.ObjectsSpec Count.ObjectsExample
     Count.SampleModel Count.ParseTrees Count.ParseTreesProofs Count.ParseTreesExample.
From CSS Require Import Iso.ParseTreesIso Iso.Construct.
From CSS Require Iso.Deciders Iso.DecidersObjects Count.ObjectsRun Count.ParseTreesRun Count.ParseTreesRunSpec Count.ParseTreesSampleDeciders.
From CSS Require Import Base.PyList Gen.PermInv Iso.Model Iso.Cert Iso.Valid Iso.PermProofs
     Iso.Transport Iso.Search Iso.CertProofs Iso.Refl Iso.ReflTotal Iso.Complete Iso.EquivSym Iso.Symmetric
     Iso.SearchSyn Iso.SymmetricFull Iso.Refuted Iso.Termination Iso.NoRaise Iso.Verdict.
From CSS Require Import Iso.ReflOn Iso.DecidersRefl Iso.ReflNonEmpty.
Import ListNotations.
Open Scope Z_scope.

(* (1) Bijection._perm_inv of a permutation of 0..k-1 is its inverse permutation:
       both compositions are the identity, and inverting twice gives the permutation back. *)
Theorem C12_perm_inv : forall p k, is_perm p k ->
  is_perm (perm_inv p) k /\
  (forall i v, nth_error p i = Some v -> nth_error (perm_inv p) (Z.to_nat v) = Some (Z.of_nat i)) /\
  (forall j w, nth_error (perm_inv p) j = Some w -> nth_error p (Z.to_nat w) = Some (Z.of_nat j)) /\
  perm_inv (perm_inv p) = p.
Proof.
  intros p k H. split; [exact (perm_inv_is_perm p k H)|]. split; [intros i v; exact (perm_inv_spec p k i v H)|].
  split; [intros j w; exact (perm_inv_spec' p k j w H)|exact (perm_inv_involutive p k H)].
Qed.

(* (2) For ANY order map that is a valid certificate (Iso/Valid.v: every matched end pair is a
       pair of matching atoms, or a pair of decomposition rules of the same constructor type
       whose non-empty children are matched, through the permutation stored under that pair,
       to pairs that are again matched), on the well-formed parse trees of the two roots:
       map lands in the well-formed trees of the second root, preserves the size,
       inverse_map (map t) = t and map (inverse_map u) = u.  Hence for every size map is a
       bijection from the objects of the first start class onto those of the second. *)
Theorem C12_transport_inverse : forall s1 s2 ord,
  wf_spec s1 -> wf_spec s2 -> valid_cert s1 s2 ord ->
  (forall t, wf_tree s1 (s_root s1) t ->
     exists u, wf_tree s2 (s_root s2) u /\ tsize s2 u = tsize s1 t /\
       (exists f0, forall f, (f0 <= f)%nat ->
          bij_map s1 s2 ord f t = Ok u /\ bij_inverse_map s1 s2 ord f u = Ok t)) /\
  (forall u, wf_tree s2 (s_root s2) u ->
     exists t, wf_tree s1 (s_root s1) t /\ tsize s1 t = tsize s2 u /\
       (exists f0, forall f, (f0 <= f)%nat ->
          bij_inverse_map s1 s2 ord f u = Ok t /\ bij_map s1 s2 ord f t = Ok u)).
Proof. exact transport_bijection. Qed.

(* (3) Whenever the isomorphism search answers True, the order map it leaves behind is a
       valid certificate.  (The proof uses that a failing pair forgets the entries concluded
       under it — the repair 7890ace — and that a chained equivalence rule is only matched
       with an equivalence rule — the repair e943cb6.) *)
Theorem C12_iso_cert : forall exact s1 s2, eq_wf s1 -> eq_wf s2 ->
  forall fuel st, are_isomorphic exact s1 s2 fuel = Ok (true, st) -> valid_cert s1 s2 (om st).
Proof. intros exact s1 s2 W1 W2. exact (iso_sound s1 s2 W1 W2 exact). Qed.

(* (2)+(3): the property for the models, end to end: when Bijection.construct returns a
   bijection its map is a size-preserving bijection between the (parse trees of the) objects
   of the two start classes and inverse_map undoes it in both directions.  When the search
   answers False (construct returns None) nothing is claimed. *)
Theorem C12_constructed_bijection : forall exact s1 s2 fuel st,
  wf_spec s1 -> wf_spec s2 -> are_isomorphic exact s1 s2 fuel = Ok (true, st) ->
  (forall t, wf_tree s1 (s_root s1) t ->
     exists u, wf_tree s2 (s_root s2) u /\ tsize s2 u = tsize s1 t /\
       (exists f0, forall f, (f0 <= f)%nat ->
          bij_map s1 s2 (om st) f t = Ok u /\ bij_inverse_map s1 s2 (om st) f u = Ok t)) /\
  (forall u, wf_tree s2 (s_root s2) u ->
     exists t, wf_tree s1 (s_root s1) t /\ tsize s1 t = tsize s2 u /\
       (exists f0, forall f, (f0 <= f)%nat ->
          bij_inverse_map s1 s2 (om st) f u = Ok t /\ bij_map s1 s2 (om st) f t = Ok u)).
Proof.
  intros exact s1 s2 fuel st W1 W2 H. apply transport_bijection; auto.
  eapply iso_sound; [apply W1|apply W2|exact H].
Qed.

(* the extracted checker run by the harness on every order map (also on order maps reloaded
   from JSON, which the search above did not produce) is sound *)
Theorem C12_check_cert_sound : forall s1 s2 ord fuel,
  check_cert s1 s2 ord fuel = true -> valid_cert s1 s2 ord.
Proof. exact check_cert_sound. Qed.

(* the hypotheses of (2) DECIDED on the case: run_c12 (Iso/Run.v) prints check_cert of the order map the REAL code
   built (field 2) and wf_specb of the two descriptors (fields 7, 8; Iso/Deciders.v); the harness expects 1 for the
   first on every constructed bijection and recomputes the other two (Desc.wf), so the verdicts are compared on every
   case.  With the three verdicts 1 the conclusion of C12_transport_inverse holds for that order map. *)
Theorem C12_wf_spec_decided : forall s, Deciders.wf_specb s = true -> wf_spec s.
Proof. exact Deciders.wf_specb_sound. Qed.

Theorem C12_transport_inverse_decided : forall s1 s2 ord fuel,
  Deciders.wf_specb s1 = true -> Deciders.wf_specb s2 = true -> check_cert s1 s2 ord fuel = true ->
  (forall t, wf_tree s1 (s_root s1) t ->
     exists u, wf_tree s2 (s_root s2) u /\ tsize s2 u = tsize s1 t /\
       (exists f0, forall f, (f0 <= f)%nat ->
          bij_map s1 s2 ord f t = Ok u /\ bij_inverse_map s1 s2 ord f u = Ok t)) /\
  (forall u, wf_tree s2 (s_root s2) u ->
     exists t, wf_tree s1 (s_root s1) t /\ tsize s1 t = tsize s2 u /\
       (exists f0, forall f, (f0 <= f)%nat ->
          bij_inverse_map s1 s2 ord f u = Ok t /\ bij_map s1 s2 ord f t = Ok u)).
Proof.
  intros s1 s2 ord fuel W1 W2 Hc.
  exact (C12_transport_inverse s1 s2 ord (C12_wf_spec_decided s1 W1) (C12_wf_spec_decided s2 W2)
           (C12_check_cert_sound s1 s2 ord fuel Hc)).
Qed.

(* (4a) Certificates are symmetric: the order map used by inverse_map certifies the isomorphism
        in the other direction. *)
Theorem C12_cert_symmetric : forall s1 s2 ord,
  valid_cert s1 s2 ord -> valid_cert s2 s1 (inverse_order ord).
Proof.
  intros s1 s2 ord (G & Hg & He). exists (fun p => G (snd p, fst p)).
  split; [apply good_sym; exact Hg|apply ends_in_sym; exact He].
Qed.

(* (4b) Symmetry of the isomorphism TEST on specifications without chained equivalence rules
        (`flat`: the child of an equivalence rule has a rule that is not an equivalence — what
        collapsing equivalence paths produces): whenever both directions answer, they answer
        the same.  Proof: soundness (3) turns a True answer into a simulation, the converse of a
        simulation is one (Constructor.equiv, the atom test and the pairing of children are
        symmetric), and the search is COMPLETE for simulations (C12_search_complete). *)
Theorem C12_symmetric_flat : forall exact s1 s2,
  eq_wf s1 -> eq_wf s2 -> flat s1 -> flat s2 ->
  forall f f' b b' st st',
    are_isomorphic exact s1 s2 f = Ok (b, st) ->
    are_isomorphic exact s2 s1 f' = Ok (b', st') -> b = b'.
Proof. exact check_symmetric_flat. Qed.

(* completeness of the memoised backtracking search: if the roots are related by a relation
   whose pairs all pass the search's own local test with the children paired into related
   pairs, the search never answers False (the failure memo and the blacklist never hold a
   related pair; the loop cannot exhaust the stack while the element that continues the
   pairing is on it) *)
Theorem C12_search_complete : forall exact s1 s2 (R : Z -> Z -> Prop),
  (forall a b, R a b -> sim_ok s1 s2 R a b) -> R (s_root s1) (s_root s2) ->
  forall fuel r st, are_isomorphic exact s1 s2 fuel = Ok (r, st) -> r = true.
Proof. exact complete. Qed.

(* Constructor.equiv is symmetric *)
Theorem C12_ctor_equiv_sym : forall c1 c2, ctor_equiv c1 c2 = ctor_equiv c2 c1.
Proof. exact ctor_equiv_sym. Qed.

(* (4b') SYMMETRY OF THE TEST, for ALL specifications (chained equivalence rules included, no
        hypothesis at all), with the repaired recursive-match test (exact = true): whenever both
        directions answer they give the same answer.  A True answer yields a simulation
        (Iso/SearchSyn.v), its converse is one, and the search is complete for simulations. *)
Theorem C12_symmetric : forall s1 s2 f f' b b' st st',
  are_isomorphic true s1 s2 f = Ok (b, st) ->
  are_isomorphic true s2 s1 f' = Ok (b', st') -> b = b'.
Proof. exact symmetric_exact. Qed.

(* ... and with the test of /repo BEFORE fix 91c1aef (exact = false) symmetry FAILED on specifications
   with chained equivalence rules: two well-formed specifications (Iso/Refuted.v; replayed on the
   Isomorphism.check of that time by findings/C12_asymmetric_check.py) for which the search answers
   True one way and False the other.  This is the finding asymmetric-check-with-chained-equivalences,
   fixed in /repo by 91c1aef; the theorem witnesses the old code only. *)
Theorem C12_symmetric_refuted :
  exists s1 s2 f st st',
    wf_spec s1 /\ wf_spec s2 /\
    are_isomorphic false s1 s2 f = Ok (true, st) /\
    are_isomorphic false s2 s1 f = Ok (false, st').
Proof. exact symmetric_refuted. Qed.

(* what remains true for both tests on arbitrary specifications: if check(spec1, spec2) is True
   then the inverted order map certifies the isomorphism in the other direction (kept under its
   old name; for exact = false the missing half is not provable: C12_symmetric_refuted) *)
Theorem C12_symmetric_partial : forall exact s1 s2, eq_wf s1 -> eq_wf s2 ->
  forall fuel st, are_isomorphic exact s1 s2 fuel = Ok (true, st) ->
  valid_cert s2 s1 (inverse_order (om st)).
Proof.
  intros exact s1 s2 W1 W2 fuel st H. apply C12_cert_symmetric. eapply iso_sound; eauto.
Qed.

(* (5) TERMINATION: for every fuel above an explicit bound computed from the two specifications
       (number of pairs of classes + a bound on the stack elements of one loop + 2) the search
       answers; any two runs that answer give the same answer, and the state they leave. *)
Theorem C12_search_terminates : forall exact s1 s2 f,
  (fuel_bound s1 s2 <= f)%nat -> are_isomorphic exact s1 s2 f <> OutOfFuel.
Proof. exact search_terminates. Qed.

Theorem C12_fuel_irrelevant : forall exact s1 s2 f,
  are_isomorphic exact s1 s2 f <> OutOfFuel ->
  are_isomorphic exact s1 s2 f = check_result exact s1 s2.
Proof. exact fuel_irrelevant. Qed.

(* on closed specifications (every class met has a rule; rules with children are Rules with a
   non-empty child) no exception is raised: check answers True or False *)
Theorem C12_check_answers : forall exact s1 s2, closed_spec s1 -> closed_spec s2 ->
  exists b, verdict exact s1 s2 = Ok b.
Proof. exact verdict_total. Qed.

(* (6) the statements without fuel.  verdict = Isomorphism.check. *)
Theorem C12_check_symmetric : forall s1 s2, closed_spec s1 -> closed_spec s2 ->
  verdict true s1 s2 = verdict true s2 s1.
Proof. exact verdict_symmetric_exact_closed. Qed.

Theorem C12_check_symmetric_flat : forall exact s1 s2,
  eq_wf s1 -> eq_wf s2 -> flat s1 -> flat s2 -> closed_spec s1 -> closed_spec s2 ->
  verdict exact s1 s2 = verdict exact s2 s1.
Proof. exact verdict_symmetric_flat_closed. Qed.

Theorem C12_check_reflexive : forall exact s,
  eq_wf s ->
  (forall c r, find_rule s c = Some r -> r_children r = [] -> r_atom r = true) ->
  (forall c r, find_rule s c = Some r -> r_children r <> [] -> ne_children s r <> []) ->
  (forall c r, find_rule s c = Some r -> r_children r <> [] -> r_isrule r = true) ->
  (forall c r d, find_rule s c = Some r -> In d (ne_children s r) -> exists r', find_rule s d = Some r') ->
  (exists r0, find_rule s (s_root s) = Some r0) ->
  verdict exact s s = Ok true.
Proof. exact verdict_reflexive. Qed.

(* when check answers True, Bijection.construct returns a bijection with the order map of the
   terminating run, and its map is a size-preserving bijection with a true inverse *)
Theorem C12_check_true_bijection : forall exact s1 s2, wf_spec s1 -> wf_spec s2 ->
  verdict exact s1 s2 = Ok true ->
  exists st, check_result exact s1 s2 = Ok (true, st) /\
    (forall t, wf_tree s1 (s_root s1) t ->
       exists u, wf_tree s2 (s_root s2) u /\ tsize s2 u = tsize s1 t /\
         (exists f0, forall f, (f0 <= f)%nat ->
            bij_map s1 s2 (om st) f t = Ok u /\ bij_inverse_map s1 s2 (om st) f u = Ok t)) /\
    (forall u, wf_tree s2 (s_root s2) u ->
       exists t, wf_tree s1 (s_root s1) t /\ tsize s1 t = tsize s2 u /\
         (exists f0, forall f, (f0 <= f)%nat ->
            bij_inverse_map s1 s2 (om st) f u = Ok t /\ bij_map s1 s2 (om st) f t = Ok u)).
Proof.
  intros exact s1 s2 W1 W2 H.
  destruct (verdict_true_cert exact s1 s2 (proj1 W1) (proj1 W2) H) as (st & R & Hc).
  exists st. split; [exact R|]. apply transport_bijection; auto.
Qed.

(* (4c) Reflexivity on every closed specification whose verified (childless) classes are all
        atoms: check(s, s) is True — the search terminates with True for every fuel above
        (number of rules + largest number of children + 1); and for NO fuel does it answer False. *)
Theorem C12_reflexive_atoms : forall exact s,
  eq_wf s ->
  (forall c r, find_rule s c = Some r -> r_children r = [] -> r_atom r = true) ->
  (forall c r, find_rule s c = Some r -> r_children r <> [] -> ne_children s r <> []) ->
  (forall c r, find_rule s c = Some r -> r_children r <> [] -> r_isrule r = true) ->
  (forall c r d, find_rule s c = Some r -> In d (ne_children s r) -> exists r', find_rule s d = Some r') ->
  forall r0, find_rule s (s_root s) = Some r0 ->
  forall fuel, (length (keys s) + arity_bound s + 1 <= fuel)%nat ->
  exists st', are_isomorphic exact s s fuel = Ok (true, st').
Proof. exact refl_total. Qed.

Theorem C12_reflexive_never_false : forall exact s,
  (forall c r, find_rule s c = Some r -> r_children r = [] -> r_atom r = true) ->
  (forall c r, find_rule s c = Some r -> r_children r <> [] -> ne_children s r <> []) ->
  forall fuel st', are_isomorphic exact s s fuel <> Ok (false, st').
Proof. exact refl_never_false. Qed.

(* (4d) Reflexivity UP TO EMPTY CLASSES.  _are_isomorphic only descends into the non-empty children of a rule
        (non_empty_ind1/2) and an equivalence step leads to the single non-empty child, so from a non-empty root the
        search on (s, s) never reads the rule of an empty class: every hypothesis of C12_check_reflexive is only
        needed for the NON-EMPTY classes.  Searched specifications hold an EmptyStrategy rule (childless, not an atom)
        for their empty classes: C12_check_reflexive's "every childless class is an atom" is false on them, the
        hypotheses below hold (decided per specification by refl_hypsb in the extracted run, C12_check_reflexive_decided).
        Extra hypothesis with respect to C12_check_reflexive: the root is not empty. *)
Theorem C12_check_reflexive_nonempty : forall exact s,
  eq_wf s ->
  is_empty s (s_root s) = false ->
  (forall c r, find_rule s c = Some r -> is_empty s c = false -> r_children r = [] -> r_atom r = true) ->
  (forall c r, find_rule s c = Some r -> is_empty s c = false -> r_children r <> [] ->
     ne_children s r <> [] /\ r_isrule r = true) ->
  (forall c r d, find_rule s c = Some r -> is_empty s c = false -> In d (ne_children s r) ->
     exists r', find_rule s d = Some r') ->
  (exists r0, find_rule s (s_root s) = Some r0) ->
  verdict exact s s = Ok true.
Proof. exact verdict_reflexive_nonempty. Qed.

(* the same with the explicit fuel bound of C12_reflexive_atoms *)
Theorem C12_reflexive_nonempty : forall exact s,
  eq_wf s ->
  is_empty s (s_root s) = false ->
  (forall c r, find_rule s c = Some r -> is_empty s c = false -> r_children r = [] -> r_atom r = true) ->
  (forall c r, find_rule s c = Some r -> is_empty s c = false -> r_children r <> [] ->
     ne_children s r <> [] /\ r_isrule r = true) ->
  (forall c r d, find_rule s c = Some r -> is_empty s c = false -> In d (ne_children s r) ->
     exists r', find_rule s d = Some r') ->
  forall r0, find_rule s (s_root s) = Some r0 ->
  forall fuel, (length (keys s) + arity_bound s + 1 <= fuel)%nat ->
  exists st', are_isomorphic exact s s fuel = Ok (true, st').
Proof. exact refl_total_nonempty. Qed.

(* the general form both are instances of: P = any set of classes that holds the root and is closed under
   "non-empty child of"; the hypotheses are asked for the classes of P only.  P = all classes gives
   C12_reflexive_atoms back (Iso/ReflOn.v refl_total_all), P = the non-empty classes the theorem above;
   P = the classes reachable from the root through non-empty children is the weakest instance. *)
Theorem C12_reflexive_visited : forall exact s, eq_wf s -> forall P : Z -> Prop,
  (forall c r d, P c -> find_rule s c = Some r -> In d (ne_children s r) -> P d) ->
  (forall c r, P c -> find_rule s c = Some r -> r_children r = [] -> r_atom r = true) ->
  (forall c r, P c -> find_rule s c = Some r -> r_children r <> [] -> ne_children s r <> []) ->
  (forall c r, P c -> find_rule s c = Some r -> r_children r <> [] -> r_isrule r = true) ->
  (forall c r d, P c -> find_rule s c = Some r -> In d (ne_children s r) -> exists r', find_rule s d = Some r') ->
  P (s_root s) -> forall r0, find_rule s (s_root s) = Some r0 ->
  forall fuel, (length (keys s) + arity_bound s + 1 <= fuel)%nat ->
  exists st', are_isomorphic exact s s fuel = Ok (true, st').
Proof. exact refl_total_on. Qed.

(* the hypotheses of C12_check_reflexive_nonempty are decidable on a descriptor; refl_hypsb (Iso/DecidersRefl.v) is
   evaluated by the extracted run on both specifications of every case *)
Theorem C12_check_reflexive_decided : forall exact s, refl_hypsb s = true -> verdict exact s s = Ok true.
Proof. exact refl_hypsb_sound. Qed.

(* Constructor.equiv (type and extra parameters up to renaming) is reflexive *)
Theorem C12_ctor_equiv_refl : forall c, ctor_equiv c c = true.
Proof. exact ctor_equiv_refl. Qed.

(* ------------------------------------------------------------------ OBJECTS *)
(* Everything above is about parse trees.  Iso/ParseTreesIso.v + Count/ParseTrees*.v link them to OBJECTS.
   Per specification, in C07's vocabulary (Count/ObjectsModel.v): cspec : nat -> option (ObjectsModel.rule obj) with
   the rules' backward maps, atom (the object of an atom class), fwd (the rules' forward maps), class membership
   In_cls, size, par, the bijection contracts node_ok and the productivity certificate of
   C07_objects_are_parse_trees.  `idescribes size cspec atom s`: the descriptor s read by isomorphism.py and cspec
   describe the same rules - label c <-> Z.of_nat c; an atom <-> a childless rule with r_atom whose minimum object
   has the atom's size; RUnion <-> a Rule with constructor tag 0, or an equivalence rule with one child; RProduct
   <-> a Rule with constructor tag 1, or an equivalence rule with one child (a one-factor product, fix 25e10f1);
   the children are the same labels; every other class (EmptyStrategy, classes declared empty, Complement /
   Quotient = reverse of a non-equivalence rule, user constructors, verification rules with several objects) has
   NO well-formed tree on the descriptor side.
     emb       SampleModel.tree -> tree (one-hot tuple at a union node, all parts at a product node)
     iunparse  the object of a tree: backward maps applied bottom-up to the tuples, None kept for the empty
               children - what ParseTreeMap.map_rec does with rule2.indexed_backward_map
     obj_map / obj_inverse_map   Bijection.map / inverse_map on objects = parse in the source specification
               (forward maps), the tree transport bij_map / bij_inverse_map, iunparse in the target. *)

(* the two notions of well-formed parse tree coincide through emb, in both directions, with the same object
   and the same size *)
Theorem C12_parse_trees_coincide : forall (obj : Type) (size : obj -> Z)
    (cspec : nat -> option (ObjectsModel.rule obj)) (atom : nat -> option obj) (s : spec),
  idescribes size cspec atom s ->
  (forall t c, twf cspec atom t c -> wf_tree s (Z.of_nat c) (emb cspec t)) /\
  (forall u c, wf_tree s (Z.of_nat c) u -> exists t, u = emb cspec t /\ twf cspec atom t c) /\
  (forall t c, twf cspec atom t c ->
     iunparse cspec atom (emb cspec t) = unparse cspec atom t /\ tsize s (emb cspec t) = tsz size atom t).
Proof.
  intros obj size cspec atom s H. split; [|split].
  - intros t c. apply emb_wf with (size := size). exact H.
  - intros u c. apply wf_tree_is_emb with (size := size). exact H.
  - intros t c Hw. split; [eapply iunparse_emb; eassumption|eapply tsize_emb; eassumption].
Qed.

(* (2) on objects: for ANY valid certificate (in particular an order map reloaded from JSON that passed
   check_cert) Bijection.map is a size-preserving bijection from the objects of the first root onto the objects
   of the second, and inverse_map undoes it in both directions *)
Theorem C12_transport_inverse_objects : forall (obj1 obj2 : Type)
    (size1 : obj1 -> Z) (In1 : nat -> obj1 -> Prop) (par1 : nat -> obj1 -> ObjectsModel.params)
    (cspec1 : nat -> option (ObjectsModel.rule obj1)) (atom1 : nat -> option obj1) (fwd1 : nat -> obj1 -> subobj obj1)
    (size2 : obj2 -> Z) (In2 : nat -> obj2 -> Prop) (par2 : nat -> obj2 -> ObjectsModel.params)
    (cspec2 : nat -> option (ObjectsModel.rule obj2)) (atom2 : nat -> option obj2) (fwd2 : nat -> obj2 -> subobj obj2)
    (s1 s2 : spec) (root1 root2 : nat) (rank1 rank2 : nat -> Z -> nat) (ord : order_map),
  (forall c, node_ok size1 In1 par1 cspec1 atom1 fwd1 c) ->
  (forall c r n c' m, cspec1 c = Some r -> 0 <= n -> In (c', m) (reads r n) -> cspec1 c' <> None) ->
  (forall c r n c' m, cspec1 c = Some r -> 0 <= n -> In (c', m) (reads r n) ->
     0 <= m /\ (rank1 c' m < rank1 c n)%nat) ->
  (forall c o, In1 c o -> 0 <= size1 o) ->
  idescribes size1 cspec1 atom1 s1 -> cspec1 root1 <> None -> s_root s1 = Z.of_nat root1 ->
  (forall c, node_ok size2 In2 par2 cspec2 atom2 fwd2 c) ->
  (forall c r n c' m, cspec2 c = Some r -> 0 <= n -> In (c', m) (reads r n) -> cspec2 c' <> None) ->
  (forall c r n c' m, cspec2 c = Some r -> 0 <= n -> In (c', m) (reads r n) ->
     0 <= m /\ (rank2 c' m < rank2 c n)%nat) ->
  (forall c o, In2 c o -> 0 <= size2 o) ->
  idescribes size2 cspec2 atom2 s2 -> cspec2 root2 <> None -> s_root s2 = Z.of_nat root2 ->
  wf_spec s1 -> wf_spec s2 -> valid_cert s1 s2 ord ->
  (forall o, In1 root1 o ->
     exists o', In2 root2 o' /\ size2 o' = size1 o /\
       exists f0, forall f, (f0 <= f)%nat ->
         obj_map cspec1 atom1 fwd1 cspec2 atom2 s1 s2 root1 ord f o = Some o' /\
         obj_inverse_map cspec1 atom1 cspec2 atom2 fwd2 s1 s2 root2 ord f o' = Some o) /\
  (forall o', In2 root2 o' ->
     exists o, In1 root1 o /\ size1 o = size2 o' /\
       exists f0, forall f, (f0 <= f)%nat ->
         obj_inverse_map cspec1 atom1 cspec2 atom2 fwd2 s1 s2 root2 ord f o' = Some o /\
         obj_map cspec1 atom1 fwd1 cspec2 atom2 s1 s2 root1 ord f o = Some o').
Proof.
  intros. eapply objects_bijection; eauto. apply transport_bijection; assumption.
Qed.

(* the hypotheses of C12_transport_inverse_objects that are decidable, DECIDED on the case: run_c12 prints, for the
   C07 descriptors descs1 / descs2 of the two specifications (appended input field; built by harness/props/c07.py
   _rule_desc under the labels of the C12 descriptors), idescribesb (Iso/DecidersObjects.v), the rank certificate and
   closedness (Count/ParseTreesDeciders.v), beside wf_specb and check_cert of the real order map.  With all verdicts 1
   the conclusion holds for cspec_i = spec_of (map dec_rule descs_i), atom_i = atom_run descs_i and every size function
   giving the listed atoms the size written in their descriptor.  node_ok (the strategies' bijection contracts) and
   size >= 0 stay hypotheses. *)
Theorem C12_idescribes_decided : forall (size : Z -> Z) descs s,
  ParseTreesSampleDeciders.atom_sizes_ok size descs -> DecidersObjects.idescribesb descs s = true ->
  idescribes size (ObjectsRun.spec_of (map ObjectsRun.dec_rule descs)) (ParseTreesRun.atom_run descs) s.
Proof. exact DecidersObjects.idescribesb_sound. Qed.

Theorem C12_transport_inverse_objects_decided : forall
    (size1 : Z -> Z) (In1 : nat -> Z -> Prop) (par1 : nat -> Z -> ObjectsModel.params) (fwd1 : nat -> Z -> subobj Z)
    (size2 : Z -> Z) (In2 : nat -> Z -> Prop) (par2 : nat -> Z -> ObjectsModel.params) (fwd2 : nat -> Z -> subobj Z)
    descs1 descs2 (s1 s2 : spec) (root1 root2 : nat) (ord : order_map) fuel,
  let cspec1 := ObjectsRun.spec_of (map ObjectsRun.dec_rule descs1) in
  let atom1 := ParseTreesRun.atom_run descs1 in
  let cspec2 := ObjectsRun.spec_of (map ObjectsRun.dec_rule descs2) in
  let atom2 := ParseTreesRun.atom_run descs2 in
  DecidersObjects.objects_verdict (Sx.L [Sx.L descs1; Sx.L descs2]) s1 s2
    = Sx.L [Sx.I 1; Sx.I 1; Sx.I 1; Sx.I 1; Sx.I 1; Sx.I 1] ->
  Deciders.wf_specb s1 = true -> Deciders.wf_specb s2 = true -> check_cert s1 s2 ord fuel = true ->
  ParseTreesSampleDeciders.atom_sizes_ok size1 descs1 -> ParseTreesSampleDeciders.atom_sizes_ok size2 descs2 ->
  (forall c, node_ok size1 In1 par1 cspec1 atom1 fwd1 c) -> (forall c o, In1 c o -> 0 <= size1 o) ->
  cspec1 root1 <> None -> s_root s1 = Z.of_nat root1 ->
  (forall c, node_ok size2 In2 par2 cspec2 atom2 fwd2 c) -> (forall c o, In2 c o -> 0 <= size2 o) ->
  cspec2 root2 <> None -> s_root s2 = Z.of_nat root2 ->
  (forall o, In1 root1 o ->
     exists o', In2 root2 o' /\ size2 o' = size1 o /\
       exists f0, forall f, (f0 <= f)%nat ->
         obj_map cspec1 atom1 fwd1 cspec2 atom2 s1 s2 root1 ord f o = Some o' /\
         obj_inverse_map cspec1 atom1 cspec2 atom2 fwd2 s1 s2 root2 ord f o' = Some o) /\
  (forall o', In2 root2 o' ->
     exists o, In1 root1 o /\ size1 o = size2 o' /\
       exists f0, forall f, (f0 <= f)%nat ->
         obj_inverse_map cspec1 atom1 cspec2 atom2 fwd2 s1 s2 root2 ord f o' = Some o /\
         obj_map cspec1 atom1 fwd1 cspec2 atom2 s1 s2 root1 ord f o = Some o').
Proof.
  intros size1 In1 par1 fwd1 size2 In2 par2 fwd2 descs1 descs2 s1 s2 root1 root2 ord fuel cspec1 atom1 cspec2 atom2
         Hv W1 W2 Hc Hz1 Hz2 Hn1 Hp1 Hr1 Hs1 Hn2 Hp2 Hr2 Hs2.
  unfold DecidersObjects.objects_verdict in Hv. simpl in Hv.
  injection Hv as Hi1 Hk1 Hc1 Hi2 Hk2 Hc2.
  assert (Ei1 : DecidersObjects.idescribesb descs1 s1 = true)
    by (destruct (DecidersObjects.idescribesb descs1 s1); [reflexivity|discriminate]).
  assert (Ei2 : DecidersObjects.idescribesb descs2 s2 = true)
    by (destruct (DecidersObjects.idescribesb descs2 s2); [reflexivity|discriminate]).
  assert (Hk1' : Sx.sx_nth (ParseTreesRun.rank_verdict descs1) 0 = Sx.I 1)
    by (unfold ParseTreesRun.rank_verdict, Sx.sx_nth, Sx.of_bool; simpl; congruence).
  assert (Hk2' : Sx.sx_nth (ParseTreesRun.rank_verdict descs2) 0 = Sx.I 1)
    by (unfold ParseTreesRun.rank_verdict, Sx.sx_nth, Sx.of_bool; simpl; congruence).
  assert (Hc1' : Sx.sx_nth (ParseTreesRun.rank_verdict descs1) 1 = Sx.I 1)
    by (unfold ParseTreesRun.rank_verdict, Sx.sx_nth, Sx.of_bool; simpl; congruence).
  assert (Hc2' : Sx.sx_nth (ParseTreesRun.rank_verdict descs2) 1 = Sx.I 1)
    by (unfold ParseTreesRun.rank_verdict, Sx.sx_nth, Sx.of_bool; simpl; congruence).
  destruct (ParseTreesRunSpec.rank_verdict_rank descs1 Hk1') as (rank1 & Hrk1 & _).
  destruct (ParseTreesRunSpec.rank_verdict_rank descs2 Hk2') as (rank2 & Hrk2 & _).
  exact (C12_transport_inverse_objects Z Z size1 In1 par1 cspec1 atom1 fwd1 size2 In2 par2 cspec2 atom2 fwd2
           s1 s2 root1 root2 rank1 rank2 ord
           Hn1 (ParseTreesRunSpec.rank_verdict_closed descs1 Hc1') Hrk1 Hp1
           (C12_idescribes_decided size1 descs1 s1 Hz1 Ei1) Hr1 Hs1
           Hn2 (ParseTreesRunSpec.rank_verdict_closed descs2 Hc2') Hrk2 Hp2
           (C12_idescribes_decided size2 descs2 s2 Hz2 Ei2) Hr2 Hs2
           (C12_wf_spec_decided s1 W1) (C12_wf_spec_decided s2 W2) (C12_check_cert_sound s1 s2 ord fuel Hc)).
Qed.

(* (2)+(3) on objects: whenever Bijection.construct returns a bijection, its map is a size-preserving bijection
   from the OBJECTS of the first start class onto those of the second with inverse_map as inverse *)
Theorem C12_constructed_bijection_objects : forall (obj1 obj2 : Type)
    (size1 : obj1 -> Z) (In1 : nat -> obj1 -> Prop) (par1 : nat -> obj1 -> ObjectsModel.params)
    (cspec1 : nat -> option (ObjectsModel.rule obj1)) (atom1 : nat -> option obj1) (fwd1 : nat -> obj1 -> subobj obj1)
    (size2 : obj2 -> Z) (In2 : nat -> obj2 -> Prop) (par2 : nat -> obj2 -> ObjectsModel.params)
    (cspec2 : nat -> option (ObjectsModel.rule obj2)) (atom2 : nat -> option obj2) (fwd2 : nat -> obj2 -> subobj obj2)
    (s1 s2 : spec) (root1 root2 : nat) (rank1 rank2 : nat -> Z -> nat) exact fuel ord,
  (forall c, node_ok size1 In1 par1 cspec1 atom1 fwd1 c) ->
  (forall c r n c' m, cspec1 c = Some r -> 0 <= n -> In (c', m) (reads r n) -> cspec1 c' <> None) ->
  (forall c r n c' m, cspec1 c = Some r -> 0 <= n -> In (c', m) (reads r n) ->
     0 <= m /\ (rank1 c' m < rank1 c n)%nat) ->
  (forall c o, In1 c o -> 0 <= size1 o) ->
  idescribes size1 cspec1 atom1 s1 -> cspec1 root1 <> None -> s_root s1 = Z.of_nat root1 ->
  (forall c, node_ok size2 In2 par2 cspec2 atom2 fwd2 c) ->
  (forall c r n c' m, cspec2 c = Some r -> 0 <= n -> In (c', m) (reads r n) -> cspec2 c' <> None) ->
  (forall c r n c' m, cspec2 c = Some r -> 0 <= n -> In (c', m) (reads r n) ->
     0 <= m /\ (rank2 c' m < rank2 c n)%nat) ->
  (forall c o, In2 c o -> 0 <= size2 o) ->
  idescribes size2 cspec2 atom2 s2 -> cspec2 root2 <> None -> s_root s2 = Z.of_nat root2 ->
  wf_spec s1 -> wf_spec s2 -> construct exact s1 s2 fuel = Ok (Some ord) ->
  (forall o, In1 root1 o ->
     exists o', In2 root2 o' /\ size2 o' = size1 o /\
       exists f0, forall f, (f0 <= f)%nat ->
         obj_map cspec1 atom1 fwd1 cspec2 atom2 s1 s2 root1 ord f o = Some o' /\
         obj_inverse_map cspec1 atom1 cspec2 atom2 fwd2 s1 s2 root2 ord f o' = Some o) /\
  (forall o', In2 root2 o' ->
     exists o, In1 root1 o /\ size1 o = size2 o' /\
       exists f0, forall f, (f0 <= f)%nat ->
         obj_inverse_map cspec1 atom1 cspec2 atom2 fwd2 s1 s2 root2 ord f o' = Some o /\
         obj_map cspec1 atom1 fwd1 cspec2 atom2 s1 s2 root1 ord f o = Some o').
Proof.
  intros until ord. intros A1 A2 A3 A4 A5 A6 A7 B1 B2 B3 B4 B5 B6 B7 W1 W2 HC.
  apply construct_spec in HC. destruct HC as (st & Hiso & -> & _ & _).
  eapply objects_bijection; eauto. apply transport_bijection; auto.
  eapply iso_sound; [apply W1|apply W2|exact Hiso].
Qed.

(* ------------------------------------------------------------------ construct and the scope of the parse trees *)
(* RULE FORMS COVERED by wf_tree (hence by every theorem on trees and objects above): atoms, equivalence steps
   (EquivalenceRule, EquivalencePathRule, a bare equivalence ReverseRule, a one-factor product), unions (tag 0),
   products (tag 1).  NOT covered: Complement (2) / Quotient (3) = the reverse of a NON-equivalence rule, whose
   forward_map raises NotImplementedError, and constructor types of the user: such a class has no well-formed
   tree (C12_scope), and Bijection.construct (since fix 25bcc90) returns None over a specification holding the
   reverse of a non-equivalence rule (C12_construct). *)
Theorem C12_scope : forall s z u r, wf_tree s z u -> find_rule s z = Some r ->
  r_children r <> [] -> r_iseq r = false -> c_tag (r_ctor r) = 0 \/ c_tag (r_ctor r) = 1.
Proof. intros. eapply scope_tags; eassumption. Qed.

Theorem C12_nonequiv_reverse_no_tree : forall s c r u,
  find_rule s c = Some r -> nonequiv_reverse r = true -> r_children r <> [] -> ~ wf_tree s c u.
Proof. exact nonequiv_reverse_no_tree. Qed.

(* Bijection.construct: a Bijection is returned exactly when the test answers True and NEITHER specification
   holds the reverse of a non-equivalence rule; then no rule of either specification is one *)
Theorem C12_construct : forall exact s1 s2 fuel ord,
  (construct exact s1 s2 fuel = Ok (Some ord) <->
   exists st, are_isomorphic exact s1 s2 fuel = Ok (true, st) /\ ord = om st /\
              blocked s1 = false /\ blocked s2 = false) /\
  (construct exact s1 s2 fuel = Ok (Some ord) ->
   forall c r, (find_rule s1 c = Some r \/ find_rule s2 c = Some r) -> nonequiv_reverse r = false).
Proof. intros. split; [apply construct_spec|apply constructed_in_scope]. Qed.

(* ------------------------------------------------------------------ the hypotheses are satisfiable *)
(* words a*  =  eps | a . a*   in two presentations: the second one lists the children in the
   other order, has the factors of the product exchanged and an equivalence step in front *)
Definition atomR (k : Z) : rule := mkRule false [] false (mkCtor 0 []) true [[k]; [1]].
Definition unionR (ch : list Z) : rule := mkRule true ch false (mkCtor 0 (map (fun _ => []) ch)) false [].
Definition prodR (ch : list Z) : rule := mkRule true ch false (mkCtor 1 (map (fun _ => []) ch)) false [].
Definition eqR (d : Z) : rule := mkRule true [d] true (mkCtor 0 [[]]) false [].
Definition exA : spec :=
  mkSpec 0 [(0, unionR [1; 2]); (1, atomR 0); (2, prodR [3; 0]); (3, atomR 1)] [].
Definition exB : spec :=
  mkSpec 5 [(5, eqR 0); (0, unionR [2; 1; 9]); (1, atomR 0); (2, prodR [0; 3]); (3, atomR 1)] [9].

Ltac rule_cases H :=
  unfold find_rule in H; simpl in H;
  repeat match type of H with
         | (if ?b then _ else _) = _ => destruct b
         end;
  try discriminate; inversion H; subst; clear H.

Example C12_example_wf_A : wf_spec exA.
Proof.
  split; [|split; [|reflexivity]].
  - intros c r H E. rule_cases H; discriminate.
  - intros c r d H _ _ T Hin. rule_cases H; simpl in *; try discriminate.
    destruct Hin as [<-|[<-|[]]]; reflexivity.
Qed.

Example C12_example_wf_B : wf_spec exB.
Proof.
  split; [|split; [|reflexivity]].
  - intros c r H E. rule_cases H; try discriminate.
    exists 0. split; [reflexivity|]. split; [reflexivity|]. split; [reflexivity|].
    exists 0, O. eapply chain_here; reflexivity.
  - intros c r d H _ _ T Hin. rule_cases H; simpl in *; try discriminate.
    destruct Hin as [<-|[<-|[]]]; reflexivity.
Qed.

(* the search finds them isomorphic, matching the union with the children permuted (the empty
   child 9 skipped) and the product with the factors exchanged, by recursion through the root *)
Example C12_example_search :
  exists st, are_isomorphic false exA exB 20 = Ok (true, st) /\
             om st = [((0, 0), [1; 0]); ((2, 2), [1; 0])].
Proof. eexists. split; vm_compute; reflexivity. Qed.

(* the object "aa" = union(2nd)[ product[ a , union(2nd)[ product[ a , union(1st)[eps] ] ] ] ] *)
Definition exT : tree :=
  Node 0 [None; Some (Node 2 [Some (Leaf 3);
     Some (Node 0 [None; Some (Node 2 [Some (Leaf 3); Some (Node 0 [Some (Leaf 1); None])])])])].

Example C12_example_tree : wf_tree exA 0 exT /\ tsize exA exT = 2.
Proof.
  split; [|reflexivity].
  assert (L1 : wf_tree exA 1 (Leaf 1)) by (eapply wf_leaf; reflexivity).
  assert (L3 : wf_tree exA 3 (Leaf 3)) by (eapply wf_leaf; reflexivity).
  assert (T0 : wf_tree exA 0 (Node 0 [Some (Leaf 1); None])).
  { apply (wf_union exA 0 (unionR [1; 2]) 0%nat 1 (Leaf 1)); try reflexivity; auto. }
  assert (P1 : wf_tree exA 2 (Node 2 [Some (Leaf 3); Some (Node 0 [Some (Leaf 1); None])])).
  { apply (wf_prod exA 2 (prodR [3; 0]) [Leaf 3; Node 0 [Some (Leaf 1); None]]); try reflexivity.
    - discriminate.
    - repeat constructor; auto. }
  assert (T1 : wf_tree exA 0 (Node 0 [None; Some (Node 2 [Some (Leaf 3); Some (Node 0 [Some (Leaf 1); None])])])).
  { apply (wf_union exA 0 (unionR [1; 2]) 1%nat 2 _); try reflexivity; auto. }
  assert (P2 : wf_tree exA 2 (Node 2 [Some (Leaf 3); Some (Node 0 [None; Some (Node 2 [Some (Leaf 3); Some (Node 0 [Some (Leaf 1); None])])])])).
  { apply (wf_prod exA 2 (prodR [3; 0]) [Leaf 3; _]); try reflexivity.
    - discriminate.
    - repeat constructor; auto. }
  apply (wf_union exA 0 (unionR [1; 2]) 1%nat 2 _); try reflexivity; auto.
Qed.

(* ... and map / inverse_map computed by the model on it *)
Example C12_example_maps :
  let ord := [((0, 0), [1; 0]); ((2, 2), [1; 0])] in
  exists u, bij_map exA exB ord 30 exT = Ok u /\ bij_inverse_map exA exB ord 30 u = Ok exT /\
            tsize exB u = 2.
Proof. eexists. split; [vm_compute; reflexivity|]. split; vm_compute; reflexivity. Qed.

Example C12_example_flat : flat exA /\ flat exB.
Proof.
  split; intros c r d H E Hc; rule_cases H; try discriminate.
  inversion Hc; subst. eexists. split; reflexivity.
Qed.

Example C12_example_symmetric : exists st, are_isomorphic true exB exA 20 = Ok (true, st).
Proof. eexists. vm_compute. reflexivity. Qed.

Example C12_example_reflexive : exists st, are_isomorphic false exB exB 20 = Ok (true, st).
Proof. eexists. vm_compute. reflexivity. Qed.

(* a specification as a search returns it: the empty class 9 has a rule of its own (EmptyStrategy: childless, not an
   atom).  The hypothesis "every childless class is an atom" of C12_check_reflexive is FALSE of it, the hypotheses
   of C12_check_reflexive_nonempty hold (decided), and check(s, s) is True *)
Definition emptyR : rule := mkRule false [] false (mkCtor 0 []) false [].
Definition exE : spec := mkSpec 5 [(5, eqR 0); (0, unionR [9; 2; 1]); (1, atomR 0); (2, prodR [0; 3]); (3, atomR 1); (9, emptyR)] [9].
Example C12_example_reflexive_nonempty :
  refl_hypsb exE = true /\ verdict true exE exE = Ok true /\
  (exists c r, find_rule exE c = Some r /\ r_children r = [] /\ r_atom r = false).
Proof.
  split; [vm_compute; reflexivity|]. split; [apply C12_check_reflexive_decided; vm_compute; reflexivity|].
  exists 9, emptyR. split; [reflexivity|]. split; reflexivity.
Qed.

Example C12_example_closed : closed_spec exA /\ closed_spec exB.
Proof.
  split; (split; [|split; [|split; [|eexists; reflexivity]]]).
  - intros c r H E. rule_cases H; discriminate.
  - intros c r d H Hin. rule_cases H; simpl in Hin; repeat (destruct Hin as [<-|Hin]; [eexists; reflexivity|]); destruct Hin.
  - intros c r H N. rule_cases H; try (exfalso; apply N; reflexivity); split; (reflexivity || discriminate).
  - intros c r H E. rule_cases H; try discriminate. exists 0, [], (unionR [2; 1; 9]). split; reflexivity.
  - intros c r d H Hin. rule_cases H; simpl in Hin; repeat (destruct Hin as [<-|Hin]; [eexists; reflexivity|]); destruct Hin.
  - intros c r H N. rule_cases H; try (exfalso; apply N; reflexivity); split; (reflexivity || discriminate).
Qed.

Example C12_example_verdict : verdict true exA exB = Ok true /\ verdict false exB exA = Ok true.
Proof. split; vm_compute; reflexivity. Qed.

Example C12_example_perm : is_perm [2; 0; 1] 3 /\ perm_inv [2; 0; 1] = [1; 2; 0].
Proof.
  split; [|reflexivity]. split; [reflexivity|]. split.
  - repeat constructor; simpl; intuition discriminate.
  - intros x [<-|[<-|[<-|[]]]]; simpl; lia.
Qed.

(* ------------------------------------------------------------------ the object-level hypotheses are satisfiable *)
(* exA and exB with their OBJECTS, the words a^k (Count/ObjectsExample.v ex_spec = the rules of exA,
   Count/ParseTreesExample.v exb_spec = the rules of exB, with forward/backward maps, contracts, certificates) *)
Lemma no_rule_no_tree s z u : find_rule s z = None -> ~ wf_tree s z u.
Proof. intros H Hw. destruct (wf_find s z u Hw) as [r Hr]. congruence. Qed.

Lemma find_rule_in_none l z : (forall k r, In (k, r) l -> k <> z) -> find_rule_in l z = None.
Proof.
  induction l as [|[k r] l IH]; intros H; simpl; [reflexivity|].
  destruct (Z.eqb_spec k z) as [E|_]; [exfalso; apply (H k r); [left; reflexivity|exact E]|].
  apply IH. intros k' r' Hin. apply (H k' r'). right. exact Hin.
Qed.

Example C12_example_describes_A : idescribes ex_size ex_spec ex_atomo exA.
Proof.
  split.
  - intros c. unfold idesc_at. destruct c as [|[|[|[|c]]]]; [simpl|simpl|simpl|simpl|lazy beta iota delta [ex_spec]].
    + exists (unionR [1; 2]). repeat split; try reflexivity; try discriminate. right. split; reflexivity.
    + exists (atomR 0). repeat split; reflexivity.
    + exists (prodR [3; 0]). repeat split; try reflexivity; try discriminate. right. split; reflexivity.
    + exists (atomR 1). repeat split; reflexivity.
    + intros u. apply no_rule_no_tree.
      assert (Hz : 4 <= Z.of_nat (S (S (S (S c))))) by lia. revert Hz. generalize (Z.of_nat (S (S (S (S c))))).
      intros z Hz. apply find_rule_in_none. intros k r Hin. simpl in Hin.
      repeat (destruct Hin as [E|Hin]; [inversion E; lia|]). destruct Hin.
  - intros z r H. apply find_rule_in_rules in H. simpl in H.
    repeat (destruct H as [E|H]; [inversion E; lia|]). destruct H.
Qed.

Example C12_example_describes_B : idescribes ex_size exb_spec exb_atomo exB.
Proof.
  split.
  - intros c. unfold idesc_at.
    destruct c as [|[|[|[|[|[|[|[|[|[|c]]]]]]]]]];
      [simpl|simpl|simpl|simpl|simpl|simpl|simpl|simpl|simpl|simpl|lazy beta iota delta [exb_spec]].
    + exists (unionR [2; 1; 9]). repeat split; try reflexivity; try discriminate. right. split; reflexivity.
    + exists (atomR 0). repeat split; reflexivity.
    + exists (prodR [0; 3]). repeat split; try reflexivity; try discriminate. right. split; reflexivity.
    + exists (atomR 1). repeat split; reflexivity.
    + intros u. apply no_rule_no_tree. reflexivity.
    + exists (eqR 0). repeat split; try reflexivity; try discriminate. left. split; reflexivity.
    + intros u. apply no_rule_no_tree. reflexivity.
    + intros u. apply no_rule_no_tree. reflexivity.
    + intros u. apply no_rule_no_tree. reflexivity.
    + intros u Hw. apply wf_nonempty in Hw. discriminate Hw.
    + intros u. apply no_rule_no_tree.
      assert (Hz : 10 <= Z.of_nat (S (S (S (S (S (S (S (S (S (S c))))))))))) by lia. revert Hz.
      generalize (Z.of_nat (S (S (S (S (S (S (S (S (S (S c))))))))))).
      intros z Hz. apply find_rule_in_none. intros k r Hin. simpl in Hin.
      repeat (destruct Hin as [E|Hin]; [inversion E; lia|]). destruct Hin.
  - intros z r H. apply find_rule_in_rules in H. simpl in H.
    repeat (destruct H as [E|H]; [inversion E; lia|]). destruct H.
Qed.

(* Bijection.construct returns the bijection of C12_example_search (no reverse rule anywhere) ... *)
Example C12_example_construct :
  construct false exA exB 20 = Ok (Some [((0, 0), [1; 0]); ((2, 2), [1; 0])]) /\
  blocked exA = false /\ blocked exB = false.
Proof. vm_compute. repeat split; reflexivity. Qed.

(* ... and on OBJECTS its map is a size-preserving bijection a^k <-> a^k between the two root classes with
   inverse_map as inverse: every hypothesis of C12_constructed_bijection_objects holds *)
Example C12_example_objects :
  let ord := [((0, 0), [1; 0]); ((2, 2), [1; 0])] in
  (forall o, ex_in 0%nat o ->
     exists o', exb_in 5%nat o' /\ ex_size o' = ex_size o /\
       exists f0, forall f, (f0 <= f)%nat ->
         obj_map ex_spec ex_atomo ex_fwd exb_spec exb_atomo exA exB 0%nat ord f o = Some o' /\
         obj_inverse_map ex_spec ex_atomo exb_spec exb_atomo exb_fwd exA exB 5%nat ord f o' = Some o) /\
  (forall o', exb_in 5%nat o' ->
     exists o, ex_in 0%nat o /\ ex_size o = ex_size o' /\
       exists f0, forall f, (f0 <= f)%nat ->
         obj_inverse_map ex_spec ex_atomo exb_spec exb_atomo exb_fwd exA exB 5%nat ord f o' = Some o /\
         obj_map ex_spec ex_atomo ex_fwd exb_spec exb_atomo exA exB 0%nat ord f o = Some o').
Proof.
  exact (C12_constructed_bijection_objects nat nat
           ex_size ex_in ex_par ex_spec ex_atomo ex_fwd ex_size exb_in ex_par exb_spec exb_atomo exb_fwd
           exA exB 0%nat 5%nat ex_rank exb_rank false 20%nat _
           ex_node_ok ex_closed ex_rank_reads ex_size_nonneg C12_example_describes_A ltac:(discriminate) eq_refl
           exb_node_ok exb_closed exb_rank_reads exb_size_nonneg C12_example_describes_B ltac:(discriminate) eq_refl
           C12_example_wf_A C12_example_wf_B (proj1 C12_example_construct)).
Qed.

(* the model computes: "aa" is parsed to exT, transported, and unparsed to "aa" in the second specification;
   and back *)
Example C12_example_object_maps :
  let ord := [((0, 0), [1; 0]); ((2, 2), [1; 0])] in
  emb ex_spec (UNode 0 1 (PNode 2 [SampleModel.Leaf 3; UNode 0 1 (PNode 2 [SampleModel.Leaf 3; UNode 0 0 (SampleModel.Leaf 1)])])) = exT /\
  ParseTrees.parse ex_spec ex_atomo ex_fwd 30 0%nat 2%nat
    = Some (UNode 0 1 (PNode 2 [SampleModel.Leaf 3; UNode 0 1 (PNode 2 [SampleModel.Leaf 3; UNode 0 0 (SampleModel.Leaf 1)])])) /\
  obj_map ex_spec ex_atomo ex_fwd exb_spec exb_atomo exA exB 0%nat ord 30 2%nat = Some 2%nat /\
  obj_inverse_map ex_spec ex_atomo exb_spec exb_atomo exb_fwd exA exB 5%nat ord 30 2%nat = Some 2%nat /\
  obj_map ex_spec ex_atomo ex_fwd exb_spec exb_atomo exA exB 0%nat ord 30 0%nat = Some 0%nat.
Proof. vm_compute. repeat split; reflexivity. Qed.

Example C12_example_trees_coincide :
  wf_tree exB 5 (emb exb_spec (UNode 5 0 (UNode 0 1 (SampleModel.Leaf 1)))) /\
  iunparse exb_spec exb_atomo (emb exb_spec (UNode 5 0 (UNode 0 1 (SampleModel.Leaf 1)))) = Some 0%nat.
Proof.
  destruct (C12_parse_trees_coincide nat ex_size exb_spec exb_atomo exB C12_example_describes_B) as (A & _ & C).
  assert (Hw : twf exb_spec exb_atomo (UNode 5 0 (UNode 0 1 (SampleModel.Leaf 1))) 5%nat).
  { simpl. split; [reflexivity|]. exists [0%nat], [pid], exb_bwdE, 0%nat. split; [reflexivity|]. split; [reflexivity|].
    split; [reflexivity|]. exists [2%nat; 1%nat; 9%nat], [pid; pid; pid], exb_bwdU, 1%nat.
    split; [reflexivity|]. split; [reflexivity|]. split; [reflexivity|]. split; [eexists; reflexivity|discriminate]. }
  split; [exact (A _ 5%nat Hw)|]. rewrite (proj1 (C _ 5%nat Hw)). reflexivity.
Qed.

(* a specification with the reverse of a non-equivalence rule (constructor Complement, two non-empty children):
   isomorphic to itself, but construct refuses; and the class has no well-formed tree *)
Definition revR (ch : list Z) : rule := mkRule true ch false (mkCtor 2 (map (fun _ => []) ch)) false [].
Definition exR : spec := mkSpec 0 [(0, revR [1; 2]); (1, atomR 0); (2, atomR 1)] [].
Example C12_example_refuses :
  (exists st, are_isomorphic true exR exR 20 = Ok (true, st)) /\
  construct true exR exR 20 = Ok None /\ blocked exR = true /\
  forall u, ~ wf_tree exR 0 u.
Proof.
  split; [eexists; vm_compute; reflexivity|]. split; [vm_compute; reflexivity|]. split; [reflexivity|].
  intros u. apply (C12_nonequiv_reverse_no_tree exR 0 (revR [1; 2]) u); [reflexivity|reflexivity|discriminate].
Qed.

Print Assumptions C12_perm_inv.
Print Assumptions C12_transport_inverse.
Print Assumptions C12_iso_cert.
Print Assumptions C12_constructed_bijection.
Print Assumptions C12_check_cert_sound.
Print Assumptions C12_wf_spec_decided.
Print Assumptions C12_transport_inverse_decided.
Print Assumptions C12_idescribes_decided.
Print Assumptions C12_transport_inverse_objects_decided.
Print Assumptions C12_cert_symmetric.
Print Assumptions C12_symmetric_flat.
Print Assumptions C12_search_complete.
Print Assumptions C12_ctor_equiv_sym.
Print Assumptions C12_symmetric.
Print Assumptions C12_symmetric_refuted.
Print Assumptions C12_symmetric_partial.
Print Assumptions C12_search_terminates.
Print Assumptions C12_fuel_irrelevant.
Print Assumptions C12_check_answers.
Print Assumptions C12_check_symmetric.
Print Assumptions C12_check_symmetric_flat.
Print Assumptions C12_check_reflexive.
Print Assumptions C12_check_true_bijection.
Print Assumptions C12_reflexive_atoms.
Print Assumptions C12_reflexive_never_false.
Print Assumptions C12_check_reflexive_nonempty.
Print Assumptions C12_reflexive_nonempty.
Print Assumptions C12_reflexive_visited.
Print Assumptions C12_check_reflexive_decided.
Print Assumptions C12_ctor_equiv_refl.
Print Assumptions C12_parse_trees_coincide.
Print Assumptions C12_transport_inverse_objects.
Print Assumptions C12_constructed_bijection_objects.
Print Assumptions C12_scope.
Print Assumptions C12_nonequiv_reverse_no_tree.
Print Assumptions C12_construct.
