(* C12 — a constructed bijection is a size-preserving bijection with a true inverse.

   Only statements; every proof is an `exact`/`apply` of a lemma of coq/theories/Iso/*.v.

   Objects of the library are represented by their PARSE TREES in a specification
   (Iso/Model.v: Leaf c for a class whose rule has no children, Node c parts for the tuple
   returned by the rule's forward map); `wf_tree s c t` says that t is the parse tree of an
   object of class c (Iso/Valid.v) and `tsize` is the size of that object.  By the bijection
   contract of the strategies' forward/backward maps (C07) objects of a class and its
   well-formed parse trees correspond one to one.

   The models: `are_isomorphic` = Isomorphism(spec1, spec2) (with _ancestors, _order_map,
   _failed, the backtracking stack, and the clean-up of commit 7890ace), `bij_map` /
   `bij_inverse_map` = Bijection.map / inverse_map (ParseTreeMap.map_rec), `perm_inv` =
   Bijection._perm_inv REGENERATED from the source on every run (Gen/PermInv.v),
   `ctor_equiv` = Constructor.equiv.  `fuel` bounds the recursion of the executable models;
   the search TERMINATES (C12_search_terminates: explicit fuel bound computed from the two
   specifications), its answer does not depend on the fuel (C12_fuel_irrelevant), and
   `verdict exact s1 s2` is that answer = Isomorphism.check(spec1, spec2).

   `exact : bool` selects the "recursive match" test (Iso/Model.v anc_pairs):
     exact = true   /repo as it is (since fix 91c1aef = findings/C12_asymmetric_check.diff):
                    _ancestors holds only the pair of current classes;
     exact = false  the code BEFORE 91c1aef: _ancestors held product(eq_path1, eq_path2).
                    Historic: no case of the harness runs it any more.
   Every theorem below that mentions `exact` holds for BOTH.  The symmetry of the test holds for
   all specifications with exact = true (C12_symmetric: the code as it is) and was FALSE with
   exact = false (C12_symmetric_refuted: the finding asymmetric-check-with-chained-equivalences,
   FIXED by 91c1aef); there it held for specifications without chained equivalence rules
   (C12_symmetric_flat).  The harness detects which of the two the code under test implements and
   runs the model with it (today: exact = true).

   Hypotheses on specifications (checked on every specification of every run by the
   harness, see harness/props/c12.py `wf`):
     eq_wf    an equivalence rule is a Rule with exactly one child, which is not empty, and
              chains of equivalence rules end (closed, no cycle of equivalence rules);
     prod_wf  a product rule has no empty factor;
     wf_spec  = eq_wf, prod_wf and the root is not declared empty. *)
From Coq Require Import ZArith List Bool Lia.
From CSS Require Import Base.PyList Gen.PermInv Iso.Model Iso.Cert Iso.Valid Iso.PermProofs
     Iso.Transport Iso.Search Iso.CertProofs Iso.Refl Iso.ReflTotal Iso.Complete Iso.EquivSym Iso.Symmetric
     Iso.SearchSyn Iso.SymmetricFull Iso.Refuted Iso.Termination Iso.NoRaise Iso.Verdict.
Import ListNotations.
Open Scope Z_scope.

(* (1) Bijection._perm_inv of a permutation of 0..k-1 is its inverse permutation:
       both compositions are the identity, and inverting twice gives the permutation back. *)
Theorem C12_perm_inv : forall p k, is_perm p k ->
  is_perm (perm_inv p) k /\
  (forall i v, nth_error p i = Some v -> nth_error (perm_inv p) (Z.to_nat v) = Some (Z.of_nat i)) /\
  (forall j w, nth_error (perm_inv p) j = Some w -> nth_error p (Z.to_nat w) = Some (Z.of_nat j)) /\
  perm_inv (perm_inv p) = p.
Proof.
  intros p k H. split; [exact (perm_inv_is_perm p k H)|]. split; [intros i v; exact (perm_inv_spec p k i v H)|].
  split; [intros j w; exact (perm_inv_spec' p k j w H)|exact (perm_inv_involutive p k H)].
Qed.

(* (2) For ANY order map that is a valid certificate (Iso/Valid.v: every matched end pair is a
       pair of matching atoms, or a pair of decomposition rules of the same constructor type
       whose non-empty children are matched, through the permutation stored under that pair,
       to pairs that are again matched), on the well-formed parse trees of the two roots:
       map lands in the well-formed trees of the second root, preserves the size,
       inverse_map (map t) = t and map (inverse_map u) = u.  Hence for every size map is a
       bijection from the objects of the first start class onto those of the second. *)
Theorem C12_transport_inverse : forall s1 s2 ord,
  wf_spec s1 -> wf_spec s2 -> valid_cert s1 s2 ord ->
  (forall t, wf_tree s1 (s_root s1) t ->
     exists u, wf_tree s2 (s_root s2) u /\ tsize s2 u = tsize s1 t /\
       (exists f0, forall f, (f0 <= f)%nat ->
          bij_map s1 s2 ord f t = Ok u /\ bij_inverse_map s1 s2 ord f u = Ok t)) /\
  (forall u, wf_tree s2 (s_root s2) u ->
     exists t, wf_tree s1 (s_root s1) t /\ tsize s1 t = tsize s2 u /\
       (exists f0, forall f, (f0 <= f)%nat ->
          bij_inverse_map s1 s2 ord f u = Ok t /\ bij_map s1 s2 ord f t = Ok u)).
Proof. exact transport_bijection. Qed.

(* (3) Whenever the isomorphism search answers True, the order map it leaves behind is a
       valid certificate.  (The proof uses that a failing pair forgets the entries concluded
       under it — the repair 7890ace — and that a chained equivalence rule is only matched
       with an equivalence rule — the repair e943cb6.) *)
Theorem C12_iso_cert : forall exact s1 s2, eq_wf s1 -> eq_wf s2 ->
  forall fuel st, are_isomorphic exact s1 s2 fuel = Ok (true, st) -> valid_cert s1 s2 (om st).
Proof. intros exact s1 s2 W1 W2. exact (iso_sound s1 s2 W1 W2 exact). Qed.

(* (2)+(3): the property for the models, end to end: when Bijection.construct returns a
   bijection its map is a size-preserving bijection between the (parse trees of the) objects
   of the two start classes and inverse_map undoes it in both directions.  When the search
   answers False (construct returns None) nothing is claimed. *)
Theorem C12_constructed_bijection : forall exact s1 s2 fuel st,
  wf_spec s1 -> wf_spec s2 -> are_isomorphic exact s1 s2 fuel = Ok (true, st) ->
  (forall t, wf_tree s1 (s_root s1) t ->
     exists u, wf_tree s2 (s_root s2) u /\ tsize s2 u = tsize s1 t /\
       (exists f0, forall f, (f0 <= f)%nat ->
          bij_map s1 s2 (om st) f t = Ok u /\ bij_inverse_map s1 s2 (om st) f u = Ok t)) /\
  (forall u, wf_tree s2 (s_root s2) u ->
     exists t, wf_tree s1 (s_root s1) t /\ tsize s1 t = tsize s2 u /\
       (exists f0, forall f, (f0 <= f)%nat ->
          bij_inverse_map s1 s2 (om st) f u = Ok t /\ bij_map s1 s2 (om st) f t = Ok u)).
Proof.
  intros exact s1 s2 fuel st W1 W2 H. apply transport_bijection; auto.
  eapply iso_sound; [apply W1|apply W2|exact H].
Qed.

(* the extracted checker run by the harness on every order map (also on order maps reloaded
   from JSON, which the search above did not produce) is sound *)
Theorem C12_check_cert_sound : forall s1 s2 ord fuel,
  check_cert s1 s2 ord fuel = true -> valid_cert s1 s2 ord.
Proof. exact check_cert_sound. Qed.

(* (4a) Certificates are symmetric: the order map used by inverse_map certifies the isomorphism
        in the other direction. *)
Theorem C12_cert_symmetric : forall s1 s2 ord,
  valid_cert s1 s2 ord -> valid_cert s2 s1 (inverse_order ord).
Proof.
  intros s1 s2 ord (G & Hg & He). exists (fun p => G (snd p, fst p)).
  split; [apply good_sym; exact Hg|apply ends_in_sym; exact He].
Qed.

(* (4b) Symmetry of the isomorphism TEST on specifications without chained equivalence rules
        (`flat`: the child of an equivalence rule has a rule that is not an equivalence — what
        collapsing equivalence paths produces): whenever both directions answer, they answer
        the same.  Proof: soundness (3) turns a True answer into a simulation, the converse of a
        simulation is one (Constructor.equiv, the atom test and the pairing of children are
        symmetric), and the search is COMPLETE for simulations (C12_search_complete). *)
Theorem C12_symmetric_flat : forall exact s1 s2,
  eq_wf s1 -> eq_wf s2 -> flat s1 -> flat s2 ->
  forall f f' b b' st st',
    are_isomorphic exact s1 s2 f = Ok (b, st) ->
    are_isomorphic exact s2 s1 f' = Ok (b', st') -> b = b'.
Proof. exact check_symmetric_flat. Qed.

(* completeness of the memoised backtracking search: if the roots are related by a relation
   whose pairs all pass the search's own local test with the children paired into related
   pairs, the search never answers False (the failure memo and the blacklist never hold a
   related pair; the loop cannot exhaust the stack while the element that continues the
   pairing is on it) *)
Theorem C12_search_complete : forall exact s1 s2 (R : Z -> Z -> Prop),
  (forall a b, R a b -> sim_ok s1 s2 R a b) -> R (s_root s1) (s_root s2) ->
  forall fuel r st, are_isomorphic exact s1 s2 fuel = Ok (r, st) -> r = true.
Proof. exact complete. Qed.

(* Constructor.equiv is symmetric *)
Theorem C12_ctor_equiv_sym : forall c1 c2, ctor_equiv c1 c2 = ctor_equiv c2 c1.
Proof. exact ctor_equiv_sym. Qed.

(* (4b') SYMMETRY OF THE TEST, for ALL specifications (chained equivalence rules included, no
        hypothesis at all), with the repaired recursive-match test (exact = true): whenever both
        directions answer they give the same answer.  A True answer yields a simulation
        (Iso/SearchSyn.v), its converse is one, and the search is complete for simulations. *)
Theorem C12_symmetric : forall s1 s2 f f' b b' st st',
  are_isomorphic true s1 s2 f = Ok (b, st) ->
  are_isomorphic true s2 s1 f' = Ok (b', st') -> b = b'.
Proof. exact symmetric_exact. Qed.

(* ... and with the test of /repo BEFORE fix 91c1aef (exact = false) symmetry FAILED on specifications
   with chained equivalence rules: two well-formed specifications (Iso/Refuted.v; replayed on the
   Isomorphism.check of that time by findings/C12_asymmetric_check.py) for which the search answers
   True one way and False the other.  This is the finding asymmetric-check-with-chained-equivalences,
   fixed in /repo by 91c1aef; the theorem witnesses the old code only. *)
Theorem C12_symmetric_refuted :
  exists s1 s2 f st st',
    wf_spec s1 /\ wf_spec s2 /\
    are_isomorphic false s1 s2 f = Ok (true, st) /\
    are_isomorphic false s2 s1 f = Ok (false, st').
Proof. exact symmetric_refuted. Qed.

(* what remains true for both tests on arbitrary specifications: if check(spec1, spec2) is True
   then the inverted order map certifies the isomorphism in the other direction (kept under its
   old name; for exact = false the missing half is not provable: C12_symmetric_refuted) *)
Theorem C12_symmetric_partial : forall exact s1 s2, eq_wf s1 -> eq_wf s2 ->
  forall fuel st, are_isomorphic exact s1 s2 fuel = Ok (true, st) ->
  valid_cert s2 s1 (inverse_order (om st)).
Proof.
  intros exact s1 s2 W1 W2 fuel st H. apply C12_cert_symmetric. eapply iso_sound; eauto.
Qed.

(* (5) TERMINATION: for every fuel above an explicit bound computed from the two specifications
       (number of pairs of classes + a bound on the stack elements of one loop + 2) the search
       answers; any two runs that answer give the same answer, and the state they leave. *)
Theorem C12_search_terminates : forall exact s1 s2 f,
  (fuel_bound s1 s2 <= f)%nat -> are_isomorphic exact s1 s2 f <> OutOfFuel.
Proof. exact search_terminates. Qed.

Theorem C12_fuel_irrelevant : forall exact s1 s2 f,
  are_isomorphic exact s1 s2 f <> OutOfFuel ->
  are_isomorphic exact s1 s2 f = check_result exact s1 s2.
Proof. exact fuel_irrelevant. Qed.

(* on closed specifications (every class met has a rule; rules with children are Rules with a
   non-empty child) no exception is raised: check answers True or False *)
Theorem C12_check_answers : forall exact s1 s2, closed_spec s1 -> closed_spec s2 ->
  exists b, verdict exact s1 s2 = Ok b.
Proof. exact verdict_total. Qed.

(* (6) the statements without fuel.  verdict = Isomorphism.check. *)
Theorem C12_check_symmetric : forall s1 s2, closed_spec s1 -> closed_spec s2 ->
  verdict true s1 s2 = verdict true s2 s1.
Proof. exact verdict_symmetric_exact_closed. Qed.

Theorem C12_check_symmetric_flat : forall exact s1 s2,
  eq_wf s1 -> eq_wf s2 -> flat s1 -> flat s2 -> closed_spec s1 -> closed_spec s2 ->
  verdict exact s1 s2 = verdict exact s2 s1.
Proof. exact verdict_symmetric_flat_closed. Qed.

Theorem C12_check_reflexive : forall exact s,
  eq_wf s ->
  (forall c r, find_rule s c = Some r -> r_children r = [] -> r_atom r = true) ->
  (forall c r, find_rule s c = Some r -> r_children r <> [] -> ne_children s r <> []) ->
  (forall c r, find_rule s c = Some r -> r_children r <> [] -> r_isrule r = true) ->
  (forall c r d, find_rule s c = Some r -> In d (ne_children s r) -> exists r', find_rule s d = Some r') ->
  (exists r0, find_rule s (s_root s) = Some r0) ->
  verdict exact s s = Ok true.
Proof. exact verdict_reflexive. Qed.

(* when check answers True, Bijection.construct returns a bijection with the order map of the
   terminating run, and its map is a size-preserving bijection with a true inverse *)
Theorem C12_check_true_bijection : forall exact s1 s2, wf_spec s1 -> wf_spec s2 ->
  verdict exact s1 s2 = Ok true ->
  exists st, check_result exact s1 s2 = Ok (true, st) /\
    (forall t, wf_tree s1 (s_root s1) t ->
       exists u, wf_tree s2 (s_root s2) u /\ tsize s2 u = tsize s1 t /\
         (exists f0, forall f, (f0 <= f)%nat ->
            bij_map s1 s2 (om st) f t = Ok u /\ bij_inverse_map s1 s2 (om st) f u = Ok t)) /\
    (forall u, wf_tree s2 (s_root s2) u ->
       exists t, wf_tree s1 (s_root s1) t /\ tsize s1 t = tsize s2 u /\
         (exists f0, forall f, (f0 <= f)%nat ->
            bij_inverse_map s1 s2 (om st) f u = Ok t /\ bij_map s1 s2 (om st) f t = Ok u)).
Proof.
  intros exact s1 s2 W1 W2 H.
  destruct (verdict_true_cert exact s1 s2 (proj1 W1) (proj1 W2) H) as (st & R & Hc).
  exists st. split; [exact R|]. apply transport_bijection; auto.
Qed.

(* (4c) Reflexivity on every closed specification whose verified (childless) classes are all
        atoms: check(s, s) is True — the search terminates with True for every fuel above
        (number of rules + largest number of children + 1); and for NO fuel does it answer False. *)
Theorem C12_reflexive_atoms : forall exact s,
  eq_wf s ->
  (forall c r, find_rule s c = Some r -> r_children r = [] -> r_atom r = true) ->
  (forall c r, find_rule s c = Some r -> r_children r <> [] -> ne_children s r <> []) ->
  (forall c r, find_rule s c = Some r -> r_children r <> [] -> r_isrule r = true) ->
  (forall c r d, find_rule s c = Some r -> In d (ne_children s r) -> exists r', find_rule s d = Some r') ->
  forall r0, find_rule s (s_root s) = Some r0 ->
  forall fuel, (length (keys s) + arity_bound s + 1 <= fuel)%nat ->
  exists st', are_isomorphic exact s s fuel = Ok (true, st').
Proof. exact refl_total. Qed.

Theorem C12_reflexive_never_false : forall exact s,
  (forall c r, find_rule s c = Some r -> r_children r = [] -> r_atom r = true) ->
  (forall c r, find_rule s c = Some r -> r_children r <> [] -> ne_children s r <> []) ->
  forall fuel st', are_isomorphic exact s s fuel <> Ok (false, st').
Proof. exact refl_never_false. Qed.

(* Constructor.equiv (type and extra parameters up to renaming) is reflexive *)
Theorem C12_ctor_equiv_refl : forall c, ctor_equiv c c = true.
Proof. exact ctor_equiv_refl. Qed.

(* ------------------------------------------------------------------ the hypotheses are satisfiable *)
(* words a*  =  eps | a . a*   in two presentations: the second one lists the children in the
   other order, has the factors of the product exchanged and an equivalence step in front *)
Definition atomR (k : Z) : rule := mkRule false [] false (mkCtor 0 []) true [[k]; [1]].
Definition unionR (ch : list Z) : rule := mkRule true ch false (mkCtor 0 (map (fun _ => []) ch)) false [].
Definition prodR (ch : list Z) : rule := mkRule true ch false (mkCtor 1 (map (fun _ => []) ch)) false [].
Definition eqR (d : Z) : rule := mkRule true [d] true (mkCtor 0 [[]]) false [].
Definition exA : spec :=
  mkSpec 0 [(0, unionR [1; 2]); (1, atomR 0); (2, prodR [3; 0]); (3, atomR 1)] [].
Definition exB : spec :=
  mkSpec 5 [(5, eqR 0); (0, unionR [2; 1; 9]); (1, atomR 0); (2, prodR [0; 3]); (3, atomR 1)] [9].

Ltac rule_cases H :=
  unfold find_rule in H; simpl in H;
  repeat match type of H with
         | (if ?b then _ else _) = _ => destruct b
         end;
  try discriminate; inversion H; subst; clear H.

Example C12_example_wf_A : wf_spec exA.
Proof.
  split; [|split; [|reflexivity]].
  - intros c r H E. rule_cases H; discriminate.
  - intros c r d H _ _ T Hin. rule_cases H; simpl in *; try discriminate.
    destruct Hin as [<-|[<-|[]]]; reflexivity.
Qed.

Example C12_example_wf_B : wf_spec exB.
Proof.
  split; [|split; [|reflexivity]].
  - intros c r H E. rule_cases H; try discriminate.
    exists 0. split; [reflexivity|]. split; [reflexivity|]. split; [reflexivity|].
    exists 0, O. eapply chain_here; reflexivity.
  - intros c r d H _ _ T Hin. rule_cases H; simpl in *; try discriminate.
    destruct Hin as [<-|[<-|[]]]; reflexivity.
Qed.

(* the search finds them isomorphic, matching the union with the children permuted (the empty
   child 9 skipped) and the product with the factors exchanged, by recursion through the root *)
Example C12_example_search :
  exists st, are_isomorphic false exA exB 20 = Ok (true, st) /\
             om st = [((0, 0), [1; 0]); ((2, 2), [1; 0])].
Proof. eexists. split; vm_compute; reflexivity. Qed.

(* the object "aa" = union(2nd)[ product[ a , union(2nd)[ product[ a , union(1st)[eps] ] ] ] ] *)
Definition exT : tree :=
  Node 0 [None; Some (Node 2 [Some (Leaf 3);
     Some (Node 0 [None; Some (Node 2 [Some (Leaf 3); Some (Node 0 [Some (Leaf 1); None])])])])].

Example C12_example_tree : wf_tree exA 0 exT /\ tsize exA exT = 2.
Proof.
  split; [|reflexivity].
  assert (L1 : wf_tree exA 1 (Leaf 1)) by (eapply wf_leaf; reflexivity).
  assert (L3 : wf_tree exA 3 (Leaf 3)) by (eapply wf_leaf; reflexivity).
  assert (T0 : wf_tree exA 0 (Node 0 [Some (Leaf 1); None])).
  { apply (wf_union exA 0 (unionR [1; 2]) 0%nat 1 (Leaf 1)); try reflexivity; auto. }
  assert (P1 : wf_tree exA 2 (Node 2 [Some (Leaf 3); Some (Node 0 [Some (Leaf 1); None])])).
  { apply (wf_prod exA 2 (prodR [3; 0]) [Leaf 3; Node 0 [Some (Leaf 1); None]]); try reflexivity.
    - discriminate.
    - repeat constructor; auto. }
  assert (T1 : wf_tree exA 0 (Node 0 [None; Some (Node 2 [Some (Leaf 3); Some (Node 0 [Some (Leaf 1); None])])])).
  { apply (wf_union exA 0 (unionR [1; 2]) 1%nat 2 _); try reflexivity; auto. }
  assert (P2 : wf_tree exA 2 (Node 2 [Some (Leaf 3); Some (Node 0 [None; Some (Node 2 [Some (Leaf 3); Some (Node 0 [Some (Leaf 1); None])])])])).
  { apply (wf_prod exA 2 (prodR [3; 0]) [Leaf 3; _]); try reflexivity.
    - discriminate.
    - repeat constructor; auto. }
  apply (wf_union exA 0 (unionR [1; 2]) 1%nat 2 _); try reflexivity; auto.
Qed.

(* ... and map / inverse_map computed by the model on it *)
Example C12_example_maps :
  let ord := [((0, 0), [1; 0]); ((2, 2), [1; 0])] in
  exists u, bij_map exA exB ord 30 exT = Ok u /\ bij_inverse_map exA exB ord 30 u = Ok exT /\
            tsize exB u = 2.
Proof. eexists. split; [vm_compute; reflexivity|]. split; vm_compute; reflexivity. Qed.

Example C12_example_flat : flat exA /\ flat exB.
Proof.
  split; intros c r d H E Hc; rule_cases H; try discriminate.
  inversion Hc; subst. eexists. split; reflexivity.
Qed.

Example C12_example_symmetric : exists st, are_isomorphic true exB exA 20 = Ok (true, st).
Proof. eexists. vm_compute. reflexivity. Qed.

Example C12_example_reflexive : exists st, are_isomorphic false exB exB 20 = Ok (true, st).
Proof. eexists. vm_compute. reflexivity. Qed.

Example C12_example_closed : closed_spec exA /\ closed_spec exB.
Proof.
  split; (split; [|split; [|split; [|eexists; reflexivity]]]).
  - intros c r H E. rule_cases H; discriminate.
  - intros c r d H Hin. rule_cases H; simpl in Hin; repeat (destruct Hin as [<-|Hin]; [eexists; reflexivity|]); destruct Hin.
  - intros c r H N. rule_cases H; try (exfalso; apply N; reflexivity); split; (reflexivity || discriminate).
  - intros c r H E. rule_cases H; try discriminate. exists 0, [], (unionR [2; 1; 9]). split; reflexivity.
  - intros c r d H Hin. rule_cases H; simpl in Hin; repeat (destruct Hin as [<-|Hin]; [eexists; reflexivity|]); destruct Hin.
  - intros c r H N. rule_cases H; try (exfalso; apply N; reflexivity); split; (reflexivity || discriminate).
Qed.

Example C12_example_verdict : verdict true exA exB = Ok true /\ verdict false exB exA = Ok true.
Proof. split; vm_compute; reflexivity. Qed.

Example C12_example_perm : is_perm [2; 0; 1] 3 /\ perm_inv [2; 0; 1] = [1; 2; 0].
Proof.
  split; [|reflexivity]. split; [reflexivity|]. split.
  - repeat constructor; simpl; intuition discriminate.
  - intros x [<-|[<-|[<-|[]]]]; simpl; lia.
Qed.

Print Assumptions C12_perm_inv.
Print Assumptions C12_transport_inverse.
Print Assumptions C12_iso_cert.
Print Assumptions C12_constructed_bijection.
Print Assumptions C12_check_cert_sound.
Print Assumptions C12_cert_symmetric.
Print Assumptions C12_symmetric_flat.
Print Assumptions C12_search_complete.
Print Assumptions C12_ctor_equiv_sym.
Print Assumptions C12_symmetric.
Print Assumptions C12_symmetric_refuted.
Print Assumptions C12_symmetric_partial.
Print Assumptions C12_search_terminates.
Print Assumptions C12_fuel_irrelevant.
Print Assumptions C12_check_answers.
Print Assumptions C12_check_symmetric.
Print Assumptions C12_check_symmetric_flat.
Print Assumptions C12_check_reflexive.
Print Assumptions C12_check_true_bijection.
Print Assumptions C12_reflexive_atoms.
Print Assumptions C12_reflexive_never_false.
Print Assumptions C12_ctor_equiv_refl.
